#!/usr/bin/env python3
"""Confirm a seeded defect produced by an independent sub-agent and file it under seeded/.

  ./verify_seed.py /tmp/sd-C01/seed1 [--keep-name C01-1] [--props C01,C03]

Steps (all in a scratch copy of /repo, never in /repo itself):
  1. patch applies to the current /repo tree;
  2. with the patch: the touched packages' own tests pass, the demonstration FAILS;
  3. without the patch: the demonstration PASSES;
  4. the owning property's quick check (and any extra --props) is run against the patched copy.
The result is stored in seeded/<name>/ (patch.diff, demo, meta.json with what was run).
"""
import json, os, re, shutil, subprocess, sys, tempfile, time
V = os.path.dirname(os.path.abspath(__file__))
ENV = dict(os.environ, GOFLAGS="-mod=mod", GOPROXY="off", GOSUMDB="off", GOTOOLCHAIN="local")

def sh(cmd, cwd, timeout=3000):
    r = subprocess.run(cmd, cwd=cwd, env=ENV, shell=True, stdout=subprocess.PIPE, stderr=subprocess.STDOUT, text=True, timeout=timeout)
    return r.returncode, r.stdout

def main():
    src = sys.argv[1].rstrip("/")
    args = sys.argv[2:]
    meta = json.load(open(os.path.join(src, "meta.json")))
    pid = meta["property"]
    name = "%s-%s" % (pid, os.path.basename(src).replace("seed", ""))
    props = [pid]
    if "--keep-name" in args:
        name = args[args.index("--keep-name") + 1]
    if "--props" in args:
        props = args[args.index("--props") + 1].split(",")
    demo = meta["demo"]
    demofile = os.path.join(src, os.path.basename(demo["file"]))
    tmp = tempfile.mkdtemp(prefix="verif-seed-")
    log = []
    try:
        repo = os.path.join(tmp, "repo")
        subprocess.check_call(["rsync", "-a", "--exclude", ".git", "/repo/", repo + "/"])
        rc, out = sh("patch -p1 -s --dry-run -i %s/patch.diff" % src, repo)
        if rc != 0:
            print("PATCH DOES NOT APPLY to current /repo:\n" + out)
            return 1
        files = re.findall(r"^\+\+\+ b/(\S+)", open(os.path.join(src, "patch.diff")).read(), re.M)
        gofiles = [f for f in files if f.endswith(".go")] or files
        pkgs = sorted(set("./" + (os.path.dirname(f) + "/" if os.path.dirname(f) else "") for f in gofiles))
        dst = os.path.join(repo, demo.get("copy_to", ".").strip("/") or ".")
        run = demo["run"]
        run = re.sub(r"^cd \S+ *&& *", "", run)
        run = re.sub(r"^cp \S+ \S+ *&& *", "", run)  # we copy the demo ourselves
        # 3. clean tree: demo passes
        shutil.copy(demofile, dst)
        rc_clean, out_clean = sh(run, repo)
        log.append(("demo on clean tree", run, rc_clean))
        # 2. patched: tests pass (without demo), demo fails
        os.remove(os.path.join(dst, os.path.basename(demofile)))
        sh("patch -p1 -s -i %s/patch.diff" % src, repo)
        tcmd = "go test -vet=off -count=1 " + " ".join(pkgs)
        rc_tests, out_tests = sh(tcmd, repo)
        log.append(("existing tests with patch", tcmd, rc_tests))
        shutil.copy(demofile, dst)
        rc_mut, out_mut = sh(run, repo)
        log.append(("demo with patch", run, rc_mut))
        os.remove(os.path.join(dst, os.path.basename(demofile)))
        ok = rc_clean == 0 and rc_tests == 0 and rc_mut != 0
        print("clean-demo rc=%d  patched-tests rc=%d  patched-demo rc=%d  => %s" % (rc_clean, rc_tests, rc_mut, "CONFIRMED" if ok else "NOT CONFIRMED"))
        if not ok:
            print(out_clean[-800:], out_tests[-800:], out_mut[-800:], sep="\n-----\n")
            return 1
        # 4. our checks
        results = {}
        for p in props:
            env = dict(ENV, VERIF_REPO=repo, VERIF_OUT=os.path.join(tmp, "out-" + p))
            os.makedirs(env["VERIF_OUT"], exist_ok=True)
            t0 = time.time()
            c = subprocess.run([os.path.join(V, "check"), p, "--tier", "quick"], cwd=V, env=env, stdout=subprocess.PIPE, stderr=subprocess.STDOUT, text=True)
            sigs = sorted(set(re.findall(r"signature=(.*)", c.stdout)))
            verdict = {0: "MISSED", 1: "caught", 2: "inconclusive"}.get(c.returncode, "rc=%d" % c.returncode)
            results[p] = dict(verdict=verdict, signatures=sigs[:12], wall_s=round(time.time() - t0, 1))
            print("check %s quick: %s %s" % (p, verdict, "; ".join(sigs)[:300]))
        # file it
        out = os.path.join(V, "seeded", name)
        os.makedirs(out, exist_ok=True)
        shutil.copy(os.path.join(src, "patch.diff"), out)
        shutil.copy(demofile, out)
        meta["verified_by_coordinator"] = dict(
            steps=[dict(what=w, cmd=c, rc=r) for w, c, r in log],
            confirmed=True,
            checks=results,
        )
        json.dump(meta, open(os.path.join(out, "meta.json"), "w"), indent=1)
        print("filed as seeded/%s" % name)
        return 0
    finally:
        shutil.rmtree(tmp, ignore_errors=True)

sys.exit(main())
