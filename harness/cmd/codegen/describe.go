package main

// describe.go derives the oracle (a SchemaDesc) from the *bytes* of a
// CodeGeneratorRequest through the public std/capnp/schema bindings.  Offsets,
// sizes, defaults and discriminants come from the schema nodes; only the Go
// *names* follow the generator's documented naming rules (Title-cased
// top-level names, Parent_Child nesting, $Go.name renames).

import (
	"bytes"
	"fmt"
	"math"
	"sort"
	"strings"

	"capnproto.org/go/capnp/v3"
	"capnproto.org/go/capnp/v3/std/capnp/schema"
)

const (
	annPackage = 0xbea97f1023792be0
	annImport  = 0xe130b601260e44b5
	annDoc     = 0xc58ad6bd519f935e
	annTag     = 0xa574b41924caefc7
	annNoTag   = 0xc8768679ec52e012
	annName    = 0xc2b96012172f8df1
)

type annInfo struct {
	pkg, imp, name string
	tagKind        int // 0 default, 1 notag, 2 custom
	tag            string
}

func readAnn(l schema.Annotation_List) annInfo {
	var a annInfo
	for i := 0; i < l.Len(); i++ {
		x := l.At(i)
		v, _ := x.Value()
		switch x.Id() {
		case annPackage:
			a.pkg, _ = v.Text()
		case annImport:
			a.imp, _ = v.Text()
		case annName:
			a.name, _ = v.Text()
		case annTag:
			a.tagKind = 2
			a.tag, _ = v.Text()
		case annNoTag:
			a.tagKind = 1
		}
	}
	return a
}

func (a annInfo) rename(s string) string {
	if a.name != "" {
		return a.name
	}
	return s
}

type describer struct {
	nodes  map[uint64]schema.Node
	goName map[uint64]string
	file   map[uint64]uint64 // node id -> file id
	order  []uint64          // resolved node ids in resolution order
	sd     *SchemaDesc
}

var typeNames = map[schema.Type_Which]string{
	schema.Type_Which_void: "void", schema.Type_Which_bool: "bool",
	schema.Type_Which_int8: "int8", schema.Type_Which_int16: "int16", schema.Type_Which_int32: "int32", schema.Type_Which_int64: "int64",
	schema.Type_Which_uint8: "uint8", schema.Type_Which_uint16: "uint16", schema.Type_Which_uint32: "uint32", schema.Type_Which_uint64: "uint64",
	schema.Type_Which_float32: "float32", schema.Type_Which_float64: "float64",
	schema.Type_Which_text: "text", schema.Type_Which_data: "data", schema.Type_Which_list: "list",
	schema.Type_Which_enum: "enum", schema.Type_Which_structType: "struct", schema.Type_Which_interface: "interface",
	schema.Type_Which_anyPointer: "anyPointer",
}

func descType(t schema.Type) (*TypeDesc, error) {
	k, ok := typeNames[t.Which()]
	if !ok {
		return nil, fmt.Errorf("unknown type ordinal %d", t.Which())
	}
	td := &TypeDesc{K: k}
	switch t.Which() {
	case schema.Type_Which_list:
		et, err := t.List().ElementType()
		if err != nil {
			return nil, err
		}
		td.Elem, err = descType(et)
		if err != nil {
			return nil, err
		}
	case schema.Type_Which_enum:
		td.ID = t.Enum().TypeId()
	case schema.Type_Which_structType:
		td.ID = t.StructType().TypeId()
	case schema.Type_Which_interface:
		td.ID = t.Interface().TypeId()
	}
	return td, nil
}

// primBits extracts the logical bits of a primitive schema Value.
func primBits(v schema.Value) uint64 {
	if !v.IsValid() {
		return 0
	}
	switch v.Which() {
	case schema.Value_Which_bool:
		if v.Bool() {
			return 1
		}
		return 0
	case schema.Value_Which_int8:
		return uint64(uint8(v.Int8()))
	case schema.Value_Which_int16:
		return uint64(uint16(v.Int16()))
	case schema.Value_Which_int32:
		return uint64(uint32(v.Int32()))
	case schema.Value_Which_int64:
		return uint64(v.Int64())
	case schema.Value_Which_uint8:
		return uint64(v.Uint8())
	case schema.Value_Which_uint16:
		return uint64(v.Uint16())
	case schema.Value_Which_uint32:
		return uint64(v.Uint32())
	case schema.Value_Which_uint64:
		return v.Uint64()
	case schema.Value_Which_float32:
		return uint64(math.Float32bits(v.Float32()))
	case schema.Value_Which_float64:
		return math.Float64bits(v.Float64())
	case schema.Value_Which_enum:
		return uint64(v.Enum())
	}
	return 0
}

// valuePtr extracts the pointer payload of a pointer-typed schema Value.
func valuePtr(v schema.Value) (capnp.Ptr, error) {
	if !v.IsValid() {
		return capnp.Ptr{}, nil
	}
	switch v.Which() {
	case schema.Value_Which_text:
		// read as raw pointer: field 0 of Value's pointer section
		return v.Struct.Ptr(0)
	case schema.Value_Which_data, schema.Value_Which_list, schema.Value_Which_structValue, schema.Value_Which_anyPointer:
		return v.Struct.Ptr(0)
	}
	return capnp.Ptr{}, nil
}

// Describe decodes a serialized CodeGeneratorRequest.
func Describe(name string, reqBytes []byte) (*SchemaDesc, error) {
	msg, err := capnp.Unmarshal(reqBytes)
	if err != nil {
		return nil, err
	}
	// the request is trusted input that we wrote (or that ships with the
	// repo); lift the traversal limit so big requests decode.
	msg.TraverseLimit = 1 << 40
	req, err := schema.ReadRootCodeGeneratorRequest(msg)
	if err != nil {
		return nil, err
	}
	d := &describer{nodes: map[uint64]schema.Node{}, goName: map[uint64]string{}, file: map[uint64]uint64{}, sd: &SchemaDesc{Name: name}}
	nodes, err := req.Nodes()
	if err != nil {
		return nil, err
	}
	var files []schema.Node
	for i := 0; i < nodes.Len(); i++ {
		n := nodes.At(i)
		d.nodes[n.Id()] = n
		if n.Which() == schema.Node_Which_file {
			files = append(files, n)
		}
	}
	requested := map[uint64]string{}
	rfs, err := req.RequestedFiles()
	if err != nil {
		return nil, err
	}
	for i := 0; i < rfs.Len(); i++ {
		fn, _ := rfs.At(i).Filename()
		requested[rfs.At(i).Id()] = fn
	}
	for _, f := range files {
		al, _ := f.Annotations()
		a := readAnn(al)
		dn, _ := f.DisplayName()
		fd := FileDesc{ID: f.Id(), Filename: dn, Pkg: a.pkg, Import: a.imp}
		if fn, ok := requested[f.Id()]; ok {
			fd.Requested = true
			fd.Filename = fn
		}
		d.sd.Files = append(d.sd.Files, fd)
		nn, _ := f.NestedNodes()
		for i := 0; i < nn.Len(); i++ {
			x := nn.At(i)
			if n, ok := d.nodes[x.Id()]; ok {
				nm, _ := x.Name()
				if err := d.resolve(n, "", nm, f.Id()); err != nil {
					return nil, err
				}
			}
		}
	}
	// first pass: struct shells (so defaults of struct type can be decoded)
	for _, id := range d.order {
		n := d.nodes[id]
		if n.Which() == schema.Node_Which_structNode {
			if err := d.descStruct(n); err != nil {
				return nil, err
			}
		}
	}
	// second pass: defaults that need the struct table
	for _, id := range d.order {
		n := d.nodes[id]
		switch n.Which() {
		case schema.Node_Which_structNode:
			if err := d.descDefaults(n); err != nil {
				return nil, err
			}
		case schema.Node_Which_enum:
			d.descEnum(n)
		case schema.Node_Which_interface:
			d.sd.Ifaces = append(d.sd.Ifaces, &IfaceDesc{ID: id, File: d.file[id], GoName: d.goName[id]})
		case schema.Node_Which_const:
			if err := d.descConst(n); err != nil {
				return nil, err
			}
		}
	}
	return d.sd, nil
}

func (d *describer) resolve(n schema.Node, base, name string, file uint64) error {
	if _, dup := d.goName[n.Id()]; dup {
		return nil
	}
	al, _ := n.Annotations()
	name = readAnn(al).rename(name)
	gn := base + "_" + name
	if base == "" {
		gn = strings.Title(name)
	}
	d.goName[n.Id()] = gn
	d.file[n.Id()] = file
	d.order = append(d.order, n.Id())
	nn, _ := n.NestedNodes()
	for i := 0; i < nn.Len(); i++ {
		x := nn.At(i)
		c, ok := d.nodes[x.Id()]
		if !ok {
			continue
		}
		nm, _ := x.Name()
		if err := d.resolve(c, gn, nm, file); err != nil {
			return err
		}
	}
	switch n.Which() {
	case schema.Node_Which_structNode:
		fs, _ := n.StructNode().Fields()
		for i := 0; i < fs.Len(); i++ {
			f := fs.At(i)
			if f.Which() != schema.Field_Which_group {
				continue
			}
			g, ok := d.nodes[f.Group().TypeId()]
			if !ok {
				return fmt.Errorf("group node %#x missing", f.Group().TypeId())
			}
			fa, _ := f.Annotations()
			fn, _ := f.Name()
			if err := d.resolve(g, gn, readAnn(fa).rename(fn), file); err != nil {
				return err
			}
		}
	case schema.Node_Which_interface:
		ms, _ := n.Interface().Methods()
		for i := 0; i < ms.Len(); i++ {
			m := ms.At(i)
			mn, _ := m.Name()
			ma, _ := m.Annotations()
			b := gn + "_" + readAnn(ma).rename(mn)
			for k, id := range []uint64{m.ParamStructType(), m.ResultStructType()} {
				x, ok := d.nodes[id]
				if !ok {
					return fmt.Errorf("method struct %#x missing", id)
				}
				if x.ScopeId() != 0 {
					continue
				}
				if err := d.resolve(x, b, []string{"Params", "Results"}[k], file); err != nil {
					return err
				}
			}
		}
	}
	return nil
}

func (d *describer) descStruct(n schema.Node) error {
	sn := n.StructNode()
	dn, _ := n.DisplayName()
	s := &StructDesc{ID: n.Id(), File: d.file[n.Id()], GoName: d.goName[n.Id()], Display: dn, IsGroup: sn.IsGroup(),
		DataWords: sn.DataWordCount(), PtrCount: sn.PointerCount(), DiscCount: sn.DiscriminantCount(), DiscOffset: sn.DiscriminantOffset()}
	fs, err := sn.Fields()
	if err != nil {
		return err
	}
	for i := 0; i < fs.Len(); i++ {
		f := fs.At(i)
		fa, _ := f.Annotations()
		fn, _ := f.Name()
		fn = readAnn(fa).rename(fn)
		fd := FieldDesc{Name: fn, Go: strings.Title(fn), Disc: f.DiscriminantValue()}
		switch f.Which() {
		case schema.Field_Which_group:
			fd.Group = f.Group().TypeId()
		case schema.Field_Which_slot:
			sl := f.Slot()
			fd.Off = sl.Offset()
			t, err := sl.Type()
			if err != nil {
				return err
			}
			fd.T, err = descType(t)
			if err != nil {
				return err
			}
			dv, err := sl.DefaultValue()
			if err != nil {
				return err
			}
			if fd.T.dataBits() > 0 {
				if dv.IsValid() && int(dv.Which()) != int(t.Which()) {
					return fmt.Errorf("%s.%s: default value kind %d for type kind %d", dn, fn, dv.Which(), t.Which())
				}
				fd.Def = primBits(dv) & maskBits(fd.T.dataBits())
				fd.HasDef = fd.Def != 0
			}
		}
		s.Fields = append(s.Fields, fd)
	}
	d.sd.Structs = append(d.sd.Structs, s)
	return nil
}

// descDefaults fills pointer-typed defaults and the group linkage.
func (d *describer) descDefaults(n schema.Node) error {
	s := d.sd.structByID(n.Id())
	fs, _ := n.StructNode().Fields()
	for i := 0; i < fs.Len(); i++ {
		f := fs.At(i)
		fd := &s.Fields[i]
		if fd.Group != 0 {
			g := d.sd.structByID(fd.Group)
			if g == nil {
				return fmt.Errorf("group %#x of %s not described", fd.Group, s.GoName)
			}
			g.Parent = s.ID
			g.Via = fd.Go
			continue
		}
		if !fd.T.isPointer() {
			continue
		}
		dv, err := f.Slot().DefaultValue()
		if err != nil {
			return err
		}
		p, err := valuePtr(dv)
		if err != nil {
			return err
		}
		if !p.IsValid() {
			continue
		}
		v, err := decodeVal(d.sd, fd.T, p, 0)
		if err != nil {
			return fmt.Errorf("%s.%s default: %v", s.GoName, fd.Name, err)
		}
		if v.K == "other" {
			continue
		}
		// An empty text/data default is indistinguishable from no default
		// for the generated code (it emits the non-default accessors).
		if (v.K == "text" || v.K == "data") && len(v.B) == 0 {
			continue
		}
		fd.PDef = v
		fd.HasDef = true
	}
	return nil
}

func (d *describer) descEnum(n schema.Node) {
	e := &EnumDesc{ID: n.Id(), File: d.file[n.Id()], GoName: d.goName[n.Id()]}
	es, _ := n.Enum().Enumerants()
	for i := 0; i < es.Len(); i++ {
		x := es.At(i)
		al, _ := x.Annotations()
		a := readAnn(al)
		nm, _ := x.Name()
		nm = a.rename(nm)
		tag := nm
		switch a.tagKind {
		case 1:
			tag = ""
		case 2:
			tag = a.tag
		}
		e.Enumerants = append(e.Enumerants, EnumerantDesc{Name: nm, Tag: tag})
	}
	d.sd.Enums = append(d.sd.Enums, e)
}

func (d *describer) descConst(n schema.Node) error {
	t, err := n.Const().Type()
	if err != nil {
		return err
	}
	td, err := descType(t)
	if err != nil {
		return err
	}
	v, err := n.Const().Value()
	if err != nil {
		return err
	}
	c := &ConstDesc{ID: n.Id(), File: d.file[n.Id()], GoName: d.goName[n.Id()], T: td}
	switch {
	case td.K == "void":
		c.V = &Val{K: "prim"}
	case td.dataBits() > 0:
		c.V = &Val{K: "prim", U: primBits(v) & maskBits(td.dataBits())}
	default:
		p, err := valuePtr(v)
		if err != nil {
			return err
		}
		c.V, err = decodeVal(d.sd, td, p, 0)
		if err != nil {
			return err
		}
	}
	d.sd.Consts = append(d.sd.Consts, c)
	return nil
}

// finishGroups computes Base for every group (outermost non-group ancestor).
func (sd *SchemaDesc) finishGroups() {
	for _, s := range sd.Structs {
		if !s.IsGroup {
			s.Base = s.ID
			continue
		}
		p := s
		for i := 0; p != nil && p.IsGroup && i < 64; i++ {
			p = sd.structByID(p.Parent)
		}
		if p != nil {
			s.Base = p.ID
		}
	}
}

// ---------------------------------------------------------------------------
// Registration file: the only per-schema Go source of a probe program.  It
// holds what reflection cannot reach: constructors, constants, enum funcs.

func genReg(sd *SchemaDesc, actual map[uint64]string) []byte {
	var b bytes.Buffer
	b.WriteString("// Code generated by the C15 codegen driver. DO NOT EDIT.\n\npackage main\n\nimport (\n\tcapnp \"capnproto.org/go/capnp/v3\"\n")
	alias := map[uint64]string{}
	var fids []uint64
	for _, f := range sd.Files {
		if f.Requested {
			fids = append(fids, f.ID)
		}
	}
	sort.Slice(fids, func(i, j int) bool { return fids[i] < fids[j] })
	for i, id := range fids {
		alias[id] = fmt.Sprintf("g%d", i)
		fmt.Fprintf(&b, "\t%s %q\n", alias[id], actual[id])
	}
	b.WriteString(")\n\nvar _ = capnp.Struct{}\n\nfunc init() {\n")
	for _, s := range sd.Structs {
		g, ok := alias[s.File]
		if !ok {
			continue
		}
		if !s.IsGroup {
			fmt.Fprintf(&b, "\tregStruct(%#x, structReg{TypeID: %s.%s_TypeID,\n", s.ID, g, s.GoName)
			fmt.Fprintf(&b, "\t\tNew: func(s *capnp.Segment) (interface{}, error) { return %s.New%s(s) },\n", g, s.GoName)
			fmt.Fprintf(&b, "\t\tNewRoot: func(s *capnp.Segment) (interface{}, error) { return %s.NewRoot%s(s) },\n", g, s.GoName)
			fmt.Fprintf(&b, "\t\tReadRoot: func(m *capnp.Message) (interface{}, error) { return %s.ReadRoot%s(m) },\n", g, s.GoName)
			fmt.Fprintf(&b, "\t\tNewList: func(s *capnp.Segment, n int32) (interface{}, error) { return %s.New%s_List(s, n) },\n", g, s.GoName)
			fmt.Fprintf(&b, "\t\tWrap: func(s capnp.Struct) interface{} { return %s.%s{Struct: s} },\n", g, s.GoName)
			fmt.Fprintf(&b, "\t\tWrapFuture: func(f *capnp.Future) interface{} { return %s.%s_Future{Future: f} },\n\t})\n", g, s.GoName)
		}
		if s.DiscCount > 0 {
			fmt.Fprintf(&b, "\tregWhich(%#x, map[string]uint16{", s.ID)
			for _, f := range s.Fields {
				if f.Disc != noDisc {
					fmt.Fprintf(&b, "%q: uint16(%s.%s_Which_%s), ", f.Name, g, s.GoName, f.Name)
				}
			}
			fmt.Fprintf(&b, "}, func(v uint16) string { return %s.%s_Which(v).String() })\n", g, s.GoName)
		}
	}
	for _, e := range sd.Enums {
		g, ok := alias[e.File]
		if !ok {
			continue
		}
		fmt.Fprintf(&b, "\tregEnum(%#x, enumReg{TypeID: %s.%s_TypeID,\n\t\tConsts: map[string]uint16{", e.ID, g, e.GoName)
		for _, x := range e.Enumerants {
			fmt.Fprintf(&b, "%q: uint16(%s.%s_%s), ", x.Name, g, e.GoName, x.Name)
		}
		b.WriteString("},\n")
		if len(e.Enumerants) > 0 {
			fmt.Fprintf(&b, "\t\tStr: func(v uint16) string { return %s.%s(v).String() },\n", g, e.GoName)
			fmt.Fprintf(&b, "\t\tFrom: func(s string) uint16 { return uint16(%s.%sFromString(s)) },\n", g, e.GoName)
		}
		fmt.Fprintf(&b, "\t\tNewList: func(s *capnp.Segment, n int32) (interface{}, error) { return %s.New%s_List(s, n) },\n", g, e.GoName)
		fmt.Fprintf(&b, "\t\tConv: func(v uint16) interface{} { return %s.%s(v) },\n\t})\n", g, e.GoName)
	}
	for _, x := range sd.Ifaces {
		g, ok := alias[x.File]
		if !ok {
			continue
		}
		fmt.Fprintf(&b, "\tregIface(%#x, %s.%s_TypeID, func(c *capnp.Client) interface{} { return %s.%s{Client: c} })\n", x.ID, g, x.GoName, g, x.GoName)
	}
	for _, c := range sd.Consts {
		g, ok := alias[c.File]
		if !ok {
			continue
		}
		fmt.Fprintf(&b, "\tregConst(%#x, %s.%s)\n", c.ID, g, c.GoName)
	}
	b.WriteString("}\n")
	return b.Bytes()
}
