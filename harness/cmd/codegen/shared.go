// shared.go is compiled into the codegen driver AND copied verbatim (via
// go:embed) into every generated probe program.  It defines the JSON
// description of a schema that the driver derives from the bytes of the
// CodeGeneratorRequest (never from the generator's templates) and the
// type-directed decoder used to compare pointer-typed default values.
//
// Go 1.16 language level.
package main

import (
	"fmt"

	"capnproto.org/go/capnp/v3"
)

const noDisc = 0xffff

// TypeDesc mirrors schema.capnp Type.
type TypeDesc struct {
	K    string    `json:"k"`            // void bool int8 int16 int32 int64 uint8 uint16 uint32 uint64 float32 float64 text data list enum struct interface anyPointer
	Elem *TypeDesc `json:"e,omitempty"`  // list element type
	ID   uint64    `json:"id,omitempty"` // enum / struct / interface node id
}

func (t *TypeDesc) String() string {
	if t == nil {
		return "?"
	}
	if t.K == "list" {
		return "list(" + t.Elem.String() + ")"
	}
	return t.K
}

// dataBits returns the width in bits of a data-section type (0 for void and
// pointer types).
func (t *TypeDesc) dataBits() uint {
	switch t.K {
	case "bool":
		return 1
	case "int8", "uint8":
		return 8
	case "int16", "uint16", "enum":
		return 16
	case "int32", "uint32", "float32":
		return 32
	case "int64", "uint64", "float64":
		return 64
	}
	return 0
}

func (t *TypeDesc) isPointer() bool {
	switch t.K {
	case "text", "data", "list", "struct", "interface", "anyPointer":
		return true
	}
	return false
}

// Val is a decoded value tree.  Primitive values are held as logical value
// bits (after the default XOR has been undone).
type Val struct {
	K string `json:"k"`           // null | prim | text | data | struct | list | other
	U uint64 `json:"u,omitempty"` // prim: value bits (bool 0/1, ints truncated two's complement, IEEE bits, enum ordinal)
	B []byte `json:"b,omitempty"` // text / data bytes
	F []FVal `json:"f,omitempty"` // struct: active slot fields in schema order
	L []*Val `json:"l,omitempty"` // list elements
	N int    `json:"n,omitempty"` // list length
}

type FVal struct {
	Name string `json:"n"`
	V    *Val   `json:"v"`
}

type FieldDesc struct {
	Name   string    `json:"name"`  // capnp name after $Go.name
	Go     string    `json:"go"`    // strings.Title(Name): accessor base name
	Disc   uint16    `json:"disc"`  // 0xffff = not a union member
	Group  uint64    `json:"group"` // group node id, 0 for slots
	Off    uint32    `json:"off"`   // slot offset in units of the type's size (bits for bool, pointer index for pointers)
	T      *TypeDesc `json:"t,omitempty"`
	Def    uint64    `json:"def"`            // data types: default bits
	PDef   *Val      `json:"pdef,omitempty"` // pointer types: default value (nil: none)
	HasDef bool      `json:"hasdef"`         // non-zero / non-null default present
}

type StructDesc struct {
	ID         uint64      `json:"id"`
	File       uint64      `json:"file"` // file node id
	GoName     string      `json:"goname"`
	Display    string      `json:"display"`
	IsGroup    bool        `json:"isgroup"`
	Base       uint64      `json:"base"`   // groups: id of the outermost non-group struct
	Parent     uint64      `json:"parent"` // groups: id of the struct holding the group field
	Via        string      `json:"via"`    // groups: Go accessor name in Parent
	DataWords  uint16      `json:"dw"`
	PtrCount   uint16      `json:"pc"`
	DiscCount  uint16      `json:"dcount"`
	DiscOffset uint32      `json:"doff"`
	Fields     []FieldDesc `json:"fields"`
}

type EnumerantDesc struct {
	Name string `json:"name"`
	Tag  string `json:"tag"` // what String() must return ("" = no tag)
}

type EnumDesc struct {
	ID         uint64          `json:"id"`
	File       uint64          `json:"file"`
	GoName     string          `json:"goname"`
	Enumerants []EnumerantDesc `json:"enumerants"`
}

type IfaceDesc struct {
	ID     uint64 `json:"id"`
	File   uint64 `json:"file"`
	GoName string `json:"goname"`
}

type ConstDesc struct {
	ID     uint64    `json:"id"`
	File   uint64    `json:"file"`
	GoName string    `json:"goname"`
	T      *TypeDesc `json:"t"`
	V      *Val      `json:"v"`
}

type FileDesc struct {
	ID        uint64 `json:"id"`
	Filename  string `json:"filename"`
	Pkg       string `json:"pkg"`
	Import    string `json:"import"`
	Requested bool   `json:"requested"`
}

type SchemaDesc struct {
	Name    string        `json:"name"`
	Files   []FileDesc    `json:"files"`
	Structs []*StructDesc `json:"structs"`
	Enums   []*EnumDesc   `json:"enums"`
	Ifaces  []*IfaceDesc  `json:"ifaces"`
	Consts  []*ConstDesc  `json:"consts"`

	sIdx map[uint64]*StructDesc
}

func (sd *SchemaDesc) structByID(id uint64) *StructDesc {
	if sd.sIdx == nil {
		sd.sIdx = make(map[uint64]*StructDesc)
		for _, s := range sd.Structs {
			sd.sIdx[s.ID] = s
		}
	}
	return sd.sIdx[id]
}

func (sd *SchemaDesc) fileByID(id uint64) *FileDesc {
	for i := range sd.Files {
		if sd.Files[i].ID == id {
			return &sd.Files[i]
		}
	}
	return nil
}

// maskBits returns a mask of n low bits.
func maskBits(n uint) uint64 {
	if n >= 64 {
		return ^uint64(0)
	}
	return uint64(1)<<n - 1
}

// rawField reads the raw (stored) bits of a data field through the plain
// capnp.Struct accessors (reads outside the data section yield zero, as the
// encoding specifies).
func rawField(st capnp.Struct, t *TypeDesc, off uint32) uint64 {
	switch t.dataBits() {
	case 1:
		if st.Bit(capnp.BitOffset(off)) {
			return 1
		}
		return 0
	case 8:
		return uint64(st.Uint8(capnp.DataOffset(off)))
	case 16:
		return uint64(st.Uint16(capnp.DataOffset(off * 2)))
	case 32:
		return uint64(st.Uint32(capnp.DataOffset(off * 4)))
	case 64:
		return st.Uint64(capnp.DataOffset(off * 8))
	}
	return 0
}

const maxDecodeDepth = 12

// decodeStruct reads st as an instance of struct node id, using raw
// accessors at the offsets the schema declares.
func decodeStruct(sd *SchemaDesc, id uint64, st capnp.Struct, depth int) (*Val, error) {
	s := sd.structByID(id)
	if s == nil {
		return nil, fmt.Errorf("decode: unknown struct node %#x", id)
	}
	if depth > maxDecodeDepth {
		return &Val{K: "other"}, nil
	}
	v := &Val{K: "struct"}
	if err := decodeFields(sd, s, st, depth, "", v); err != nil {
		return nil, err
	}
	return v, nil
}

func decodeFields(sd *SchemaDesc, s *StructDesc, st capnp.Struct, depth int, prefix string, out *Val) error {
	var which uint16
	if s.DiscCount > 0 {
		which = st.Uint16(capnp.DataOffset(s.DiscOffset * 2))
	}
	for i := range s.Fields {
		f := &s.Fields[i]
		if f.Disc != noDisc && f.Disc != which {
			continue
		}
		if f.Group != 0 {
			g := sd.structByID(f.Group)
			if g == nil {
				return fmt.Errorf("decode: unknown group node %#x", f.Group)
			}
			if err := decodeFields(sd, g, st, depth, prefix+f.Name+".", out); err != nil {
				return err
			}
			continue
		}
		var fv *Val
		switch {
		case f.T.K == "void":
			fv = &Val{K: "prim"}
		case f.T.dataBits() > 0:
			fv = &Val{K: "prim", U: rawField(st, f.T, f.Off) ^ f.Def}
		default:
			p, err := st.Ptr(uint16(f.Off))
			if err != nil {
				return err
			}
			// wire-level: a null slot decodes as null (the nested field's own
			// default is not substituted; both sides of a comparison are
			// decoded the same way)
			fv, err = decodeVal(sd, f.T, p, depth+1)
			if err != nil {
				return err
			}
		}
		out.F = append(out.F, FVal{Name: prefix + f.Name, V: fv})
	}
	return nil
}

// decodeVal reads pointer p as a value of (pointer) type t.
func decodeVal(sd *SchemaDesc, t *TypeDesc, p capnp.Ptr, depth int) (*Val, error) {
	if !p.IsValid() {
		return &Val{K: "null"}, nil
	}
	if depth > maxDecodeDepth {
		return &Val{K: "other"}, nil
	}
	switch t.K {
	case "text":
		return &Val{K: "text", B: append([]byte{}, p.TextBytes()...)}, nil
	case "data":
		return &Val{K: "data", B: append([]byte{}, p.Data()...)}, nil
	case "struct":
		return decodeStruct(sd, t.ID, p.Struct(), depth)
	case "list":
		l := p.List()
		n := l.Len()
		v := &Val{K: "list", N: n}
		e := t.Elem
		for i := 0; i < n; i++ {
			var ev *Val
			switch e.K {
			case "void":
				continue
			case "bool":
				ev = &Val{K: "prim"}
				if (capnp.BitList{List: l}).At(i) {
					ev.U = 1
				}
			case "int8", "uint8":
				ev = &Val{K: "prim", U: uint64((capnp.UInt8List{List: l}).At(i))}
			case "int16", "uint16", "enum":
				ev = &Val{K: "prim", U: uint64((capnp.UInt16List{List: l}).At(i))}
			case "int32", "uint32", "float32":
				ev = &Val{K: "prim", U: uint64((capnp.UInt32List{List: l}).At(i))}
			case "int64", "uint64", "float64":
				ev = &Val{K: "prim", U: (capnp.UInt64List{List: l}).At(i)}
			case "struct":
				var err error
				ev, err = decodeStruct(sd, e.ID, l.Struct(i), depth+1)
				if err != nil {
					return nil, err
				}
			default:
				ep, err := (capnp.PointerList{List: l}).At(i)
				if err != nil {
					return nil, err
				}
				ev, err = decodeVal(sd, e, ep, depth+1)
				if err != nil {
					return nil, err
				}
			}
			v.L = append(v.L, ev)
		}
		return v, nil
	}
	// interface / anyPointer: only null-ness is comparable
	return &Val{K: "other"}, nil
}

// valEqual compares two value trees; it returns "" when equal, else a path.
func valEqual(a, b *Val, path string) string {
	if a == nil || b == nil {
		if a == b {
			return ""
		}
		return path + ": nil vs non-nil"
	}
	if a.K != b.K {
		return fmt.Sprintf("%s: kind %s vs %s", path, a.K, b.K)
	}
	if a.U != b.U {
		return fmt.Sprintf("%s: bits %#x vs %#x", path, a.U, b.U)
	}
	if string(a.B) != string(b.B) {
		return fmt.Sprintf("%s: bytes %q vs %q", path, a.B, b.B)
	}
	if a.N != b.N || len(a.L) != len(b.L) {
		return fmt.Sprintf("%s: len %d/%d vs %d/%d", path, a.N, len(a.L), b.N, len(b.L))
	}
	for i := range a.L {
		if d := valEqual(a.L[i], b.L[i], fmt.Sprintf("%s[%d]", path, i)); d != "" {
			return d
		}
	}
	if len(a.F) != len(b.F) {
		return fmt.Sprintf("%s: %d vs %d active fields", path, len(a.F), len(b.F))
	}
	for i := range a.F {
		if a.F[i].Name != b.F[i].Name {
			return fmt.Sprintf("%s: active field %s vs %s", path, a.F[i].Name, b.F[i].Name)
		}
		if d := valEqual(a.F[i].V, b.F[i].V, path+"."+a.F[i].Name); d != "" {
			return d
		}
	}
	return ""
}
