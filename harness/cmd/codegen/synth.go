package main

// synth.go: random schema model + layout allocator.  The model is turned
// into a CodeGeneratorRequest by encode.go; the oracle is later derived from
// the request bytes (describe.go), so nothing here is trusted by the check.

import (
	"fmt"
	"math"

	"capnproto.org/go/capnp/v3/zverif/common"
)

type mType struct {
	K    string
	Elem *mType
	Ref  *mNode
}

func (t *mType) bits() uint {
	return (&TypeDesc{K: t.K}).dataBits()
}

func (t *mType) isPtr() bool { return (&TypeDesc{K: t.K}).isPointer() }

type mVal struct {
	Bits  uint64
	Bytes []byte
	Sets  []mSet  // struct: field assignments (fields of the struct or of its groups)
	Discs []mDisc // struct: discriminants to write
	Elems []*mVal // list
}

type mSet struct {
	F *mField
	V *mVal
}

type mDisc struct {
	N *mNode
	V uint16
}

type mEnumerant struct {
	Name   string
	Rename string
	Tag    string
	NoTag  bool
}

type mMethod struct {
	Name    string
	Rename  string
	Params  *mNode
	Results *mNode
}

type mFile struct {
	ID       uint64
	Name     string // display name, e.g. s3.capnp
	Filename string // requested file name (relative path)
	Pkg      string
	Import   string
	Nested   []*mNode
	All      []*mNode // every node of this file, any depth (incl. groups, implicit params)
	Imports  []*mFile
}

type mNode struct {
	ID      uint64
	Kind    string // struct enum interface const annotation
	Name    string
	Rename  string
	Doc     string
	Scope   *mNode // nil: file scope (or implicit param struct)
	NoScope bool   // implicit method param/result struct (scopeId 0)
	Display string
	Prefix  int
	File    *mFile
	Nested  []*mNode

	IsGroup    bool
	DataWords  uint16
	PtrCount   uint16
	DiscCount  uint16
	DiscOffset uint32
	Fields     []*mField
	Groups     []*mNode // group nodes directly or indirectly inside (only on the base struct)

	Enumerants []mEnumerant
	Methods    []*mMethod
	Supers     []*mNode

	CType *mType
	CVal  *mVal
}

type mField struct {
	Name      string
	Rename    string
	CodeOrder uint16
	Disc      uint16
	Group     *mNode
	Off       uint32
	T         *mType
	DefBits   uint64
	PDef      *mVal
	WantPDef  bool
	Explicit  bool
	NullDef   bool // encode no defaultValue pointer at all; never set: capnpc-go panics on a null defaultValue (see NOTES.md, not covered)
}

// ---------------------------------------------------------------------------
// layout allocator: a bitmap over the data section, a bitmap over pointers.

type alloc struct {
	used   []bool // one entry per data bit
	ptrs   []bool
	rng    *common.RNG
	random bool // pick a random free slot instead of the first; sometimes open a new word
	maxW   int
}

func (a *alloc) clone() *alloc {
	b := &alloc{rng: a.rng, random: a.random, maxW: a.maxW}
	b.used = append([]bool{}, a.used...)
	b.ptrs = append([]bool{}, a.ptrs...)
	return b
}

func (a *alloc) merge(bs []*alloc) {
	for _, b := range bs {
		for len(a.used) < len(b.used) {
			a.used = append(a.used, false)
		}
		for len(a.ptrs) < len(b.ptrs) {
			a.ptrs = append(a.ptrs, false)
		}
		for i, u := range b.used {
			if u {
				a.used[i] = true
			}
		}
		for i, u := range b.ptrs {
			if u {
				a.ptrs[i] = true
			}
		}
	}
}

func (a *alloc) free(p, n int) bool {
	for i := p; i < p+n; i++ {
		if a.used[i] {
			return false
		}
	}
	return true
}

// data allocates an aligned slot of the given width and returns its offset
// in units of that width.
func (a *alloc) data(bits uint) uint32 {
	n := int(bits)
	var cand []int
	for p := 0; p+n <= len(a.used); p += n {
		if a.free(p, n) {
			cand = append(cand, p)
			if !a.random {
				break
			}
		}
	}
	open := len(cand) == 0
	if a.random && !open && len(a.used)/64 < a.maxW && a.rng.Chance(1, 6) {
		open = true
	}
	var p int
	if open {
		p = len(a.used)
		for i := 0; i < 64; i++ {
			a.used = append(a.used, false)
		}
		if a.random && n < 64 {
			p += n * a.rng.Intn(64/n)
		}
	} else {
		p = cand[a.rng.Intn(len(cand))]
	}
	for i := p; i < p+n; i++ {
		a.used[i] = true
	}
	return uint32(p / n)
}

func (a *alloc) ptr() uint32 {
	var cand []int
	for i, u := range a.ptrs {
		if !u {
			cand = append(cand, i)
			if !a.random {
				break
			}
		}
	}
	if len(cand) > 0 && !(a.random && a.rng.Chance(1, 8)) {
		p := cand[a.rng.Intn(len(cand))]
		a.ptrs[p] = true
		return uint32(p)
	}
	a.ptrs = append(a.ptrs, true)
	return uint32(len(a.ptrs) - 1)
}

// ---------------------------------------------------------------------------
// generator

type synth struct {
	rng     *common.RNG
	ids     map[uint64]bool
	structs []*mNode // non-group structs available as field types
	enums   []*mNode
	ifaces  []*mNode
	opts    synthOpts
	nField  int
	fileIdx int
}

type synthOpts struct {
	Structs    int // number of top-level-ish structs in the main file
	MaxFields  int
	Files      int  // number of schema files (Go packages) in the request
	Systematic bool // first structs enumerate type x offset grid
}

type mSchema struct {
	Name  string
	Files []*mFile
}

var dataKinds = []string{"bool", "int8", "int16", "int32", "int64", "uint8", "uint16", "uint32", "uint64", "float32", "float64", "enum"}
var ptrKinds = []string{"text", "data", "struct", "list", "interface", "anyPointer"}
var listElemKinds = []string{"bool", "int8", "int16", "int32", "int64", "uint8", "uint16", "uint32", "uint64", "float32", "float64", "enum", "text", "data", "struct", "list", "interface", "anyPointer"}

// names that are Go keywords, predeclared identifiers, or methods of the
// embedded capnp.Struct.  All are legal Cap'n Proto field names whose
// Title-cased accessor names are legal Go method names.
var trickyNames = []string{"type", "func", "range", "map", "chan", "go", "select", "interface", "var", "const", "package",
	"import", "return", "defer", "nil", "true", "false", "int", "error", "len", "make", "new", "byte", "default", "switch",
	"size", "segment", "message", "ptr", "bit", "isValid", "toPtr", "copyFrom", "uint8", "float64", "iota", "init", "main"}

func (s *synth) id() uint64 {
	for {
		v := s.rng.Uint64() | 1<<63
		if !s.ids[v] {
			s.ids[v] = true
			return v
		}
	}
}

func pkgPath(name string, k int) string { return fmt.Sprintf("%s/p%d", name, k) }

// Synthesize builds the model of schema `name` (a pure function of rng).
// importBase is the Go import path prefix under which the generated packages
// will be placed (importBase/p0, importBase/p1).
func Synthesize(rng *common.RNG, name, importBase string, opts synthOpts) *mSchema {
	s := &synth{rng: rng, ids: map[uint64]bool{}, opts: opts}
	sc := &mSchema{Name: name}
	nfiles := opts.Files
	if nfiles < 1 {
		nfiles = 1
	}
	// Go package names.  In multi-file requests the imported files get names
	// that collide with the imports capnpc-go reserves for itself (so that the
	// generator must rename them: server -> server2 ...); with three files
	// both imported packages share one name (collision between two schema
	// packages).  Package directories stay distinct (p0, p1, p2).
	pkgs := make([]string, nfiles)
	for k := range pkgs {
		pkgs[k] = fmt.Sprintf("%sp%d", name, k)
	}
	if nfiles == 2 {
		pkgs[0] = collidingPkgNames[rng.Intn(len(collidingPkgNames))]
	}
	if nfiles >= 3 {
		shared := "common"
		if rng.Chance(1, 2) {
			shared = collidingPkgNames[rng.Intn(len(collidingPkgNames))]
		}
		for k := 0; k < nfiles-1; k++ {
			pkgs[k] = shared
		}
	}
	if nfiles > 1 && rng.Chance(1, 3) {
		pkgs[nfiles-1] = collidingPkgNames[rng.Intn(len(collidingPkgNames))]
	}
	for k := 0; k < nfiles; k++ {
		f := &mFile{ID: s.id(), Name: fmt.Sprintf("%s_%d.capnp", name, k), Pkg: pkgs[k],
			Import: fmt.Sprintf("%s/p%d", importBase, k)}
		f.Filename = fmt.Sprintf("p%d/%s", k, f.Name)
		if k > 0 {
			f.Imports = append(f.Imports, sc.Files[:k]...)
		}
		sc.Files = append(sc.Files, f)
		n := opts.Structs
		if k < nfiles-1 {
			n = 3 + rng.Intn(3)
		} else if nfiles == 3 {
			n -= 8
		}
		s.fileIdx = k
		s.fillFile(f, n, k == nfiles-1)
	}
	return sc
}

// collidingPkgNames: Go package names a schema may legally declare that
// collide with imports the generator reserves (all but fmt) or commonly uses.
var collidingPkgNames = []string{"server", "schemas", "text", "context", "math", "strconv", "capnp", "fmt"}

func (s *synth) newNode(f *mFile, scope *mNode, kind, name string) *mNode {
	n := &mNode{ID: s.id(), Kind: kind, Name: name, Scope: scope, File: f}
	if scope == nil {
		n.Display = f.Name + ":" + name
		n.Prefix = len(f.Name) + 1
		f.Nested = append(f.Nested, n)
	} else {
		n.Display = scope.Display + "." + name
		n.Prefix = len(scope.Display) + 1
		scope.Nested = append(scope.Nested, n)
	}
	f.All = append(f.All, n)
	return n
}

func (s *synth) fillFile(f *mFile, nStructs int, main bool) {
	rng := s.rng
	// enums first (so fields can use them)
	for i := 0; i < 2+rng.Intn(3); i++ {
		s.enums = append(s.enums, s.genEnum(f, nil, fmt.Sprintf("E%d", i)))
	}
	// a forward pool of struct nodes so that fields can reference any struct
	// of the file (including themselves and later ones).
	var pool []*mNode
	for i := 0; i < nStructs; i++ {
		var scope *mNode
		if i > 2 && rng.Chance(1, 5) {
			scope = pool[rng.Intn(len(pool))]
		}
		n := s.newNode(f, scope, "struct", fmt.Sprintf("S%d", i))
		if rng.Chance(1, 10) {
			n.Doc = "doc for " + n.Name
		}
		if rng.Chance(1, 14) {
			n.Rename = fmt.Sprintf("Renamed%d", i)
		}
		pool = append(pool, n)
		if scope != nil && rng.Chance(1, 3) {
			s.enums = append(s.enums, s.genEnum(f, n, "Ne"))
		}
	}
	if s.fileIdx > 0 {
		// every file but the first: a struct whose fields have types of the
		// files it imports
		pool = append(pool, s.newNode(f, nil, "struct", "Xref"))
	}
	// interfaces (declared before struct bodies so fields can hold them)
	nIf := 3 + rng.Intn(3)
	prevIfs := append([]*mNode{}, s.ifaces...)
	var ifs []*mNode
	for i := 0; i < nIf; i++ {
		n := s.newNode(f, nil, "interface", fmt.Sprintf("I%d", i))
		ifs = append(ifs, n)
		s.ifaces = append(s.ifaces, n)
	}
	s.structs = append(s.structs, pool...)
	for i, n := range pool {
		s.genStruct(n, i)
	}
	for i, n := range ifs {
		s.genIface(n, i, append(append([]*mNode{}, prevIfs...), ifs[:i]...))
	}
	// pointer-typed defaults, now that every struct body of this file exists
	for _, n := range f.All {
		for _, fl := range n.Fields {
			if fl.WantPDef {
				fl.PDef = s.genVal(fl.T, 0, true)
			}
		}
	}
	// constants
	if main {
		ck := []string{"bool", "int8", "int64", "uint16", "uint64", "float32", "float64", "text", "data", "enum", "struct", "list", "void"}
		for i, k := range ck {
			if !rng.Chance(2, 3) {
				continue
			}
			c := s.newNode(f, nil, "const", fmt.Sprintf("c%dK", i))
			c.CType = s.genType(k, 0)
			c.CVal = s.genVal(c.CType, 0, true)
		}
		a := s.newNode(f, nil, "annotation", "myAnn")
		a.CType = &mType{K: "text"}
	}
}

func (s *synth) genEnum(f *mFile, scope *mNode, name string) *mNode {
	n := s.newNode(f, scope, "enum", name)
	k := 1 + s.rng.Intn(6)
	for i := 0; i < k; i++ {
		e := mEnumerant{Name: fmt.Sprintf("v%d", i)}
		switch s.rng.Intn(12) {
		case 0:
			e.Rename = fmt.Sprintf("ren%d", i)
		case 1:
			e.Tag = fmt.Sprintf("custom-tag %d", i)
		case 2:
			e.NoTag = true
		case 3:
			e.Name = trickyNames[(i*7+k)%len(trickyNames)] + fmt.Sprint(i)
		}
		n.Enumerants = append(n.Enumerants, e)
	}
	return n
}

func (s *synth) pickStruct() *mNode { return s.structs[s.rng.Intn(len(s.structs))] }

// genType builds a random type of kind k ("" = any).
func (s *synth) genType(k string, depth int) *mType {
	rng := s.rng
	if k == "" {
		if rng.Chance(3, 5) {
			k = dataKinds[rng.Intn(len(dataKinds))]
		} else if rng.Chance(1, 12) {
			k = "void"
		} else {
			k = ptrKinds[rng.Intn(len(ptrKinds))]
		}
	}
	t := &mType{K: k}
	switch k {
	case "enum":
		t.Ref = s.enums[rng.Intn(len(s.enums))]
	case "struct":
		t.Ref = s.pickStruct()
	case "interface":
		t.Ref = s.ifaces[rng.Intn(len(s.ifaces))]
	case "list":
		ek := listElemKinds[rng.Intn(len(listElemKinds))]
		if depth >= 2 && ek == "list" {
			ek = "uint16"
		}
		t.Elem = s.genType(ek, depth+1)
	}
	return t
}

var intEdge = []uint64{1, 0x7f, 0x80, 0xff, 0x7fff, 0x8000, 0xffff, 0x7fffffff, 0x80000000, 0xffffffff,
	0x7fffffffffffffff, 0x8000000000000000, 0xffffffffffffffff, 0x0123456789abcdef, 0xaaaaaaaaaaaaaaaa, 0x5555555555555555}

var f32Edge = []uint32{0x3fc00000, 0x80000000, 0x7f800000, 0xff800000, 0x7fc00000, 0x7fc00001, 0x7f800001, 0xffc12345, 0x00000001, 0x7f7fffff, 0xbf800000}
var f64Edge = []uint64{0x3ff8000000000000, 0x8000000000000000, 0x7ff0000000000000, 0xfff0000000000000, 0x7ff8000000000000, 0x7ff8000000000001,
	0x7ff0000000000001, 0xfff8123456789abc, 1, 0x7fefffffffffffff, 0xbff0000000000000}

func (s *synth) primDefault(t *mType) uint64 {
	rng := s.rng
	switch t.K {
	case "bool":
		return 1
	case "float32":
		if rng.Chance(2, 3) {
			return uint64(f32Edge[rng.Intn(len(f32Edge))])
		}
		return uint64(math.Float32bits(float32(rng.Intn(2000)-1000) / 8))
	case "float64":
		if rng.Chance(2, 3) {
			return f64Edge[rng.Intn(len(f64Edge))]
		}
		return rng.Uint64()
	case "enum":
		n := len(t.Ref.Enumerants)
		if rng.Chance(1, 6) {
			return uint64(n + rng.Intn(5)) // out of range ordinal: legal on the wire
		}
		return uint64(rng.Intn(n))
	}
	m := maskBits(t.bits())
	var v uint64
	if rng.Chance(2, 3) {
		v = intEdge[rng.Intn(len(intEdge))] & m
	} else {
		v = rng.Uint64() & m
	}
	if v == 0 {
		v = m // -1 / max
	}
	return v
}

func (s *synth) text(n int) []byte {
	const alpha = "abcdefghijklmnopqrstuvwxyz ABCXYZ0123456789-_\"\\'`\n\t%é"
	r := []rune(alpha)
	var out []rune
	for i := 0; i < n; i++ {
		out = append(out, r[s.rng.Intn(len(r))])
	}
	return []byte(string(out))
}

// genVal builds a random value of pointer or primitive type t.
func (s *synth) genVal(t *mType, depth int, nonTrivial bool) *mVal {
	rng := s.rng
	switch {
	case t.K == "void":
		return &mVal{}
	case t.bits() > 0:
		if nonTrivial || rng.Chance(3, 4) {
			return &mVal{Bits: s.primDefault(t)}
		}
		return &mVal{}
	}
	switch t.K {
	case "text":
		return &mVal{Bytes: s.text(1 + rng.Intn(12))}
	case "data":
		return &mVal{Bytes: rng.Bytes(1 + rng.Intn(12))}
	case "struct":
		return s.genStructVal(t.Ref, depth)
	case "list":
		n := rng.Intn(5)
		if nonTrivial && n == 0 {
			n = 2
		}
		v := &mVal{Elems: []*mVal{}}
		for i := 0; i < n; i++ {
			e := t.Elem
			switch {
			case e.K == "interface" || e.K == "anyPointer":
				v.Elems = append(v.Elems, nil) // null pointers
			case depth >= 3:
				if e.isPtr() {
					v.Elems = append(v.Elems, nil)
				} else {
					v.Elems = append(v.Elems, s.genVal(e, depth+1, false))
				}
			default:
				v.Elems = append(v.Elems, s.genVal(e, depth+1, false))
			}
		}
		return v
	}
	return nil
}

// genStructVal builds a value of struct node n: some fields assigned, one
// member of every reached union selected.
func (s *synth) genStructVal(n *mNode, depth int) *mVal {
	v := &mVal{}
	s.fillStructVal(v, n, depth)
	return v
}

func (s *synth) fillStructVal(v *mVal, n *mNode, depth int) {
	rng := s.rng
	var members []*mField
	for _, f := range n.Fields {
		if f.Disc != noDisc {
			members = append(members, f)
		}
	}
	var active *mField
	if len(members) > 0 {
		active = members[rng.Intn(len(members))]
		v.Discs = append(v.Discs, mDisc{N: n, V: active.Disc})
	}
	for _, f := range n.Fields {
		if f.Disc != noDisc && f != active {
			continue
		}
		if f.Group != nil {
			s.fillStructVal(v, f.Group, depth)
			continue
		}
		if f.T.K == "void" || f.T.K == "interface" || f.T.K == "anyPointer" {
			continue
		}
		if !rng.Chance(2, 3) {
			continue
		}
		if f.T.isPtr() && depth >= 2 {
			continue
		}
		v.Sets = append(v.Sets, mSet{F: f, V: s.genVal(f.T, depth+1, false)})
	}
}

// ---------------------------------------------------------------------------
// struct bodies

func (s *synth) fieldName(used map[string]bool) string {
	rng := s.rng
	for {
		var nm string
		if rng.Chance(1, 8) {
			nm = trickyNames[rng.Intn(len(trickyNames))]
		} else {
			nm = fmt.Sprintf("f%d", s.nField)
			s.nField++
			if rng.Chance(1, 6) {
				nm += "Xy"
			}
		}
		if !used[nm] {
			used[nm] = true
			return nm
		}
	}
}

// genStruct fills the body of top-level (non-group) struct n.
func (s *synth) genStruct(n *mNode, idx int) {
	rng := s.rng
	a := &alloc{rng: rng.Fork(), random: rng.Chance(1, 3), maxW: 12}
	huge := s.opts.Systematic && idx == len(dataKinds)+1
	if huge || rng.Chance(1, 25) {
		// a big struct: fields at large offsets
		a.maxW = 80
		pad := 40 + rng.Intn(300)
		if huge {
			// data sections of 64 KiB and more: 8*dataWordCount does not fit 16 bits
			// (seeded defect C15-6: ObjectSize computed in uint16)
			pads := []int{8191, 8192, 8193, 12000, 16384, 40000, 65500}
			pad = pads[rng.Intn(len(pads))]
			a.maxW = pad + 30
		}
		for i := 0; i < pad*64; i++ {
			a.used = append(a.used, true)
		}
		for i := 0; i < 3+rng.Intn(300); i++ {
			a.ptrs = append(a.ptrs, true)
		}
	}
	used := map[string]bool{}
	nf := rng.Intn(s.opts.MaxFields + 1)
	switch {
	case n.Name == "Xref":
		s.crossStruct(n, a, used)
	case s.opts.Systematic && idx < len(dataKinds):
		s.gridStruct(n, a, dataKinds[idx], used)
	case s.opts.Systematic && idx == len(dataKinds):
		s.shadowStruct(n, a, used)
	case rng.Chance(1, 30):
		nf = 0 // empty struct
		s.genFields(n, n, a, nf, 0, used)
	default:
		s.genFields(n, n, a, nf, 0, used)
	}
	n.DataWords = uint16((len(a.used) + 63) / 64)
	n.PtrCount = uint16(len(a.ptrs))
	if rng.Chance(1, 12) {
		n.DataWords += uint16(rng.Intn(2))
		n.PtrCount += uint16(rng.Intn(2))
	}
	for _, g := range n.Groups {
		g.DataWords, g.PtrCount = n.DataWords, n.PtrCount
	}
	// code order: a permutation per node
	s.permuteCodeOrder(n)
	for _, g := range n.Groups {
		s.permuteCodeOrder(g)
	}
}

func (s *synth) permuteCodeOrder(n *mNode) {
	k := len(n.Fields)
	perm := make([]int, k)
	for i := range perm {
		perm[i] = i
	}
	if s.rng.Chance(1, 2) {
		for i := k - 1; i > 0; i-- {
			j := s.rng.Intn(i + 1)
			perm[i], perm[j] = perm[j], perm[i]
		}
	}
	for i, f := range n.Fields {
		f.CodeOrder = uint16(perm[i])
	}
}

// gridStruct: one struct per data kind holding that kind at every sub-word
// offset (interleaved with filler fields so holes of each size appear), each
// offset once without and once with a default, plus a union of the kind.
func (s *synth) gridStruct(n *mNode, a *alloc, kind string, used map[string]bool) {
	bits := (&mType{K: kind}).bits()
	per := 64 / int(bits)
	if per > 16 {
		per = 16 // bool: 16 consecutive bits, then scattered ones below
	}
	// 2 words of the kind: first without defaults, second with defaults
	for w := 0; w < 2; w++ {
		for i := 0; i < per; i++ {
			f := &mField{Name: s.fieldName(used), Disc: noDisc, T: s.genType(kind, 0)}
			f.Off = a.data(bits)
			if w == 1 {
				f.DefBits = s.primDefault(f.T)
				f.Explicit = true
			}
			n.Fields = append(n.Fields, f)
		}
		if bits == 1 {
			// bools at bit offsets straddling byte and word boundaries
			a.data(8)
			for i := 0; i < 10; i++ {
				f := &mField{Name: s.fieldName(used), Disc: noDisc, T: &mType{K: "bool"}}
				f.Off = a.data(1)
				if i%2 == w {
					f.DefBits = 1
					f.Explicit = true
				}
				n.Fields = append(n.Fields, f)
			}
		}
	}
	s.genFields(n, n, a, 4+s.rng.Intn(6), 0, used)
}

// crossStruct: for every imported file, fields of struct / list-of-struct /
// enum / list-of-enum / interface / list-of-interface type defined in that
// file, as plain fields (with and without defaults), inside a group and as
// union members.
func (s *synth) crossStruct(n *mNode, a *alloc, used map[string]bool) {
	pick := func(all []*mNode, f *mFile) *mNode {
		var c []*mNode
		for _, x := range all {
			if x.File == f {
				c = append(c, x)
			}
		}
		if len(c) == 0 {
			return nil
		}
		return c[s.rng.Intn(len(c))]
	}
	add := func(to *mNode, names map[string]bool, al *alloc, t *mType, disc uint16, def bool) {
		f := &mField{Name: s.fieldName(names), Disc: disc, T: t}
		if t.bits() > 0 {
			f.Off = al.data(t.bits())
			if def {
				f.DefBits = s.primDefault(t)
				f.Explicit = true
			}
		} else {
			f.Off = al.ptr()
			if def {
				f.WantPDef = true
				f.Explicit = true
			}
		}
		to.Fields = append(to.Fields, f)
	}
	var members []*mType
	for _, d := range n.File.Imports {
		st, en, ifc := pick(s.structs, d), pick(s.enums, d), pick(s.ifaces, d)
		if st != nil {
			ts := &mType{K: "struct", Ref: st}
			tl := &mType{K: "list", Elem: &mType{K: "struct", Ref: st}}
			add(n, used, a, ts, noDisc, false)
			add(n, used, a, ts, noDisc, true)
			add(n, used, a, tl, noDisc, false)
			add(n, used, a, tl, noDisc, true)
			members = append(members, ts, tl)
			// a group holding a foreign struct
			name := s.fieldName(used)
			g := &mNode{ID: s.id(), Kind: "struct", Name: name, Scope: n, File: n.File, IsGroup: true}
			g.Display = n.Display + "." + name
			g.Prefix = len(n.Display) + 1
			n.File.All = append(n.File.All, g)
			n.Groups = append(n.Groups, g)
			gused := map[string]bool{}
			add(g, gused, a, &mType{K: "struct", Ref: pick(s.structs, d)}, noDisc, false)
			add(g, gused, a, &mType{K: "uint16"}, noDisc, true)
			n.Fields = append(n.Fields, &mField{Name: name, Disc: noDisc, Group: g})
		}
		if en != nil {
			te := &mType{K: "enum", Ref: en}
			add(n, used, a, te, noDisc, false)
			add(n, used, a, te, noDisc, true)
			add(n, used, a, &mType{K: "list", Elem: te}, noDisc, false)
			members = append(members, te)
		}
		if ifc != nil {
			ti := &mType{K: "interface", Ref: ifc}
			add(n, used, a, ti, noDisc, false)
			add(n, used, a, &mType{K: "list", Elem: ti}, noDisc, false)
			members = append(members, ti)
		}
	}
	if len(members) >= 2 {
		n.DiscOffset = a.data(16)
		base := a.clone()
		var clones []*alloc
		for i, t := range members {
			c := base.clone()
			clones = append(clones, c)
			add(n, used, c, t, uint16(i), false)
		}
		a.merge(clones)
		n.DiscCount = uint16(len(members))
	}
}

// shadowStruct: data fields whose accessors shadow every promoted method of
// the embedded capnp.Struct that generated code might be tempted to call
// through the generated type, next to one field of every pointer kind (with
// and without union membership).  Legal schema; the output must compile.
func (s *synth) shadowStruct(n *mNode, a *alloc, used map[string]bool) {
	names := []string{"segment", "message", "size", "isValid", "toPtr", "copyFrom", "ptr", "bit", "uint8", "uint16", "uint32", "uint64"}
	for i, nm := range names {
		used[nm] = true
		f := &mField{Name: nm, Disc: noDisc, T: s.genType(dataKinds[i%len(dataKinds)], 0)}
		f.Off = a.data(f.T.bits())
		n.Fields = append(n.Fields, f)
	}
	for _, k := range ptrKinds {
		f := &mField{Name: s.fieldName(used), Disc: noDisc, T: s.genType(k, 0)}
		f.Off = a.ptr()
		n.Fields = append(n.Fields, f)
	}
	// a union whose members are one of each pointer kind
	n.DiscOffset = a.data(16)
	for i, k := range ptrKinds {
		f := &mField{Name: s.fieldName(used), Disc: uint16(i), T: s.genType(k, 0)}
		f.Off = a.ptr()
		n.Fields = append(n.Fields, f)
	}
	n.DiscCount = uint16(len(ptrKinds))
}

// genFields appends `count` fields (plus possibly a union) to node n, which is
// base itself or one of its groups; all storage comes from allocator a.
func (s *synth) genFields(base, n *mNode, a *alloc, count, depth int, used map[string]bool) {
	rng := s.rng
	wantUnion := count >= 2 && rng.Chance(2, 5)
	unionAt := -1
	if wantUnion {
		unionAt = rng.Intn(count)
		if rng.Chance(1, 3) {
			unionAt = 0 // discriminant likely lands in word 0 / offset 0
		}
	}
	for i := 0; i < count; i++ {
		if i == unionAt {
			s.genUnion(base, n, a, depth, used)
			continue
		}
		if depth < 3 && rng.Chance(1, 9) {
			n.Fields = append(n.Fields, s.genGroupField(base, n, a, depth, used, noDisc))
			continue
		}
		n.Fields = append(n.Fields, s.genSlot(a, used, noDisc))
	}
}

func (s *synth) genSlot(a *alloc, used map[string]bool, disc uint16) *mField {
	rng := s.rng
	f := &mField{Name: s.fieldName(used), Disc: disc, T: s.genType("", 0)}
	if rng.Chance(1, 16) {
		f.Rename = "Rn" + f.Name
		if used[f.Rename] {
			f.Rename = ""
		} else {
			used[f.Rename] = true
		}
	}
	switch {
	case f.T.K == "void":
	case f.T.bits() > 0:
		f.Off = a.data(f.T.bits())
		if rng.Chance(1, 2) {
			f.DefBits = s.primDefault(f.T)
			f.Explicit = true
		}
	default:
		f.Off = a.ptr()
		if f.T.K != "interface" && f.T.K != "anyPointer" && rng.Chance(2, 5) {
			f.WantPDef = true // value generated once every struct body exists
			f.Explicit = true
		}
	}
	return f
}

func (s *synth) genGroupField(base, n *mNode, a *alloc, depth int, used map[string]bool, disc uint16) *mField {
	name := s.fieldName(used)
	g := &mNode{ID: s.id(), Kind: "struct", Name: name, Scope: n, File: n.File, IsGroup: true}
	g.Display = n.Display + "." + name
	g.Prefix = len(n.Display) + 1
	n.File.All = append(n.File.All, g)
	base.Groups = append(base.Groups, g)
	gused := map[string]bool{}
	s.genFields(base, g, a, 1+s.rng.Intn(4), depth+1, gused)
	gf := &mField{Name: name, Disc: disc, Group: g}
	if s.rng.Chance(1, 12) {
		if rn := "grpRn" + name; !used[rn] {
			used[rn] = true
			gf.Rename = rn
		}
	}
	return gf
}

func (s *synth) genUnion(base, n *mNode, a *alloc, depth int, used map[string]bool) {
	rng := s.rng
	k := 2 + rng.Intn(5)
	discFirst := rng.Chance(1, 2)
	if discFirst {
		n.DiscOffset = a.data(16)
	}
	// discriminant values
	vals := make([]uint16, k)
	for i := range vals {
		vals[i] = uint16(i)
	}
	if rng.Chance(1, 4) {
		for i := k - 1; i > 0; i-- {
			j := rng.Intn(i + 1)
			vals[i], vals[j] = vals[j], vals[i]
		}
	}
	if rng.Chance(1, 8) {
		vals[rng.Intn(k)] = uint16(0x100 + rng.Intn(0xfe00)) // unusual but legal
	}
	var clones []*alloc
	for i := 0; i < k; i++ {
		c := a.clone()
		if rng.Chance(1, 4) {
			c = a // a member that does not overlap its siblings (legal, wasteful)
		} else {
			clones = append(clones, c)
		}
		var f *mField
		if depth < 3 && rng.Chance(1, 5) {
			f = s.genGroupField(base, n, c, depth, used, vals[i])
		} else {
			f = s.genSlot(c, used, vals[i])
			if i == 0 && rng.Chance(1, 2) {
				f.T = &mType{K: "void"}
				f.Off, f.DefBits, f.WantPDef, f.Explicit, f.NullDef = 0, 0, false, false, false
			}
		}
		n.Fields = append(n.Fields, f)
	}
	a.merge(clones)
	if !discFirst {
		n.DiscOffset = a.data(16)
	}
	n.DiscCount = uint16(k)
}

func (s *synth) genIface(n *mNode, idx int, earlier []*mNode) {
	rng := s.rng
	// 0..4 distinct superclasses among the interfaces whose bodies exist
	// (earlier ones of this file, all of the imported file); diamonds happen
	for _, c := range earlier {
		if len(n.Supers) < 4 && rng.Chance(1, 2) {
			n.Supers = append(n.Supers, c)
		}
	}
	k := 1 + rng.Intn(3)
	for i := 0; i < k; i++ {
		m := &mMethod{Name: fmt.Sprintf("m%dx%dx%d", s.fileIdx, idx, i)}
		if idx == 0 && s.fileIdx == 0 && rng.Chance(1, 4) {
			m.Name = trickyNames[rng.Intn(12)]
			dup := false
			for _, o := range n.Methods {
				if o.Name == m.Name {
					dup = true
				}
			}
			if dup {
				m.Name = fmt.Sprintf("m%dx%dx%d", s.fileIdx, idx, i)
			}
		}
		mk := func(suffix string) *mNode {
			if rng.Chance(1, 4) {
				return s.pickStruct()
			}
			p := &mNode{ID: s.id(), Kind: "struct", Name: m.Name + "$" + suffix, File: n.File, NoScope: true}
			p.Display = n.Display + "." + m.Name + "$" + suffix
			p.Prefix = len(n.Display) + 1
			n.File.All = append(n.File.All, p)
			a := &alloc{rng: rng.Fork(), maxW: 4}
			s.genFields(p, p, a, rng.Intn(5), 2, map[string]bool{})
			p.DataWords = uint16((len(a.used) + 63) / 64)
			p.PtrCount = uint16(len(a.ptrs))
			for _, g := range p.Groups {
				g.DataWords, g.PtrCount = p.DataWords, p.PtrCount
			}
			s.permuteCodeOrder(p)
			for _, g := range p.Groups {
				s.permuteCodeOrder(g)
			}
			return p
		}
		m.Params = mk("Params")
		m.Results = mk("Results")
		if rng.Chance(1, 8) {
			m.Rename = fmt.Sprintf("rn%dx%dx%d", s.fileIdx, idx, i)
		}
		n.Methods = append(n.Methods, m)
	}
}
