package main

import (
	"os"
	"path/filepath"
	"strings"

	"capnproto.org/go/capnp/v3"
	"capnproto.org/go/capnp/v3/std/capnp/schema"
)

// withImportedFiles returns req with requestedFiles extended by every file
// whose *types* are referenced from a requested file and whose Go package
// does not exist in the module (e.g. testdata/otherscopes): without that the
// generated code could not be compiled in isolation.  The nodes themselves
// are untouched.
func withImportedFiles(reqBytes []byte, repo string) ([]byte, error) {
	msg, err := capnp.Unmarshal(reqBytes)
	if err != nil {
		return nil, err
	}
	msg.TraverseLimit = 1 << 40
	req, err := schema.ReadRootCodeGeneratorRequest(msg)
	if err != nil {
		return nil, err
	}
	nodes, err := req.Nodes()
	if err != nil {
		return nil, err
	}
	byID := map[uint64]schema.Node{}
	for i := 0; i < nodes.Len(); i++ {
		byID[nodes.At(i).Id()] = nodes.At(i)
	}
	fileOf := func(id uint64) uint64 {
		for k := 0; k < 64; k++ {
			n, ok := byID[id]
			if !ok {
				return 0
			}
			if n.Which() == schema.Node_Which_file {
				return id
			}
			if n.ScopeId() == 0 {
				return 0
			}
			id = n.ScopeId()
		}
		return 0
	}
	rfs, err := req.RequestedFiles()
	if err != nil {
		return nil, err
	}
	requested := map[uint64]bool{}
	for i := 0; i < rfs.Len(); i++ {
		requested[rfs.At(i).Id()] = true
	}
	var refs []uint64
	seen := map[uint64]bool{}
	var addType func(t schema.Type)
	addType = func(t schema.Type) {
		var id uint64
		switch t.Which() {
		case schema.Type_Which_list:
			et, err := t.List().ElementType()
			if err == nil {
				addType(et)
			}
			return
		case schema.Type_Which_enum:
			id = t.Enum().TypeId()
		case schema.Type_Which_structType:
			id = t.StructType().TypeId()
		case schema.Type_Which_interface:
			id = t.Interface().TypeId()
		default:
			return
		}
		f := fileOf(id)
		if f != 0 && !requested[f] && !seen[f] {
			seen[f] = true
			refs = append(refs, f)
		}
	}
	for i := 0; i < nodes.Len(); i++ {
		n := nodes.At(i)
		if !requested[fileOf(n.Id())] {
			continue
		}
		switch n.Which() {
		case schema.Node_Which_structNode:
			fs, _ := n.StructNode().Fields()
			for k := 0; k < fs.Len(); k++ {
				if fs.At(k).Which() == schema.Field_Which_slot {
					if t, err := fs.At(k).Slot().Type(); err == nil {
						addType(t)
					}
				}
			}
		case schema.Node_Which_const:
			if t, err := n.Const().Type(); err == nil {
				addType(t)
			}
		case schema.Node_Which_interface:
			ms, _ := n.Interface().Methods()
			for k := 0; k < ms.Len(); k++ {
				for _, id := range []uint64{ms.At(k).ParamStructType(), ms.At(k).ResultStructType()} {
					if f := fileOf(id); f != 0 && !requested[f] && !seen[f] {
						seen[f] = true
						refs = append(refs, f)
					}
				}
			}
		}
	}
	var add []schema.Node
	for _, id := range refs {
		fn := byID[id]
		al, _ := fn.Annotations()
		a := readAnn(al)
		if a.imp == "" || a.pkg == "" {
			continue
		}
		if strings.HasPrefix(a.imp, modPath+"/") {
			if _, err := os.Stat(filepath.Join(repo, strings.TrimPrefix(a.imp, modPath+"/"))); err == nil {
				continue // package exists in the module
			}
		}
		add = append(add, fn)
	}
	if len(add) == 0 {
		return reqBytes, nil
	}
	nmsg, nseg, err := capnp.NewMessage(capnp.SingleSegment(nil))
	if err != nil {
		return nil, err
	}
	if err := nmsg.SetRoot(req.Struct.ToPtr()); err != nil {
		return nil, err
	}
	nreq, err := schema.ReadRootCodeGeneratorRequest(nmsg)
	if err != nil {
		return nil, err
	}
	old, _ := nreq.RequestedFiles()
	nl, err := schema.NewCodeGeneratorRequest_RequestedFile_List(nseg, int32(old.Len()+len(add)))
	if err != nil {
		return nil, err
	}
	for i := 0; i < old.Len(); i++ {
		if err := nl.Set(i, old.At(i)); err != nil {
			return nil, err
		}
	}
	for k, fn := range add {
		rf := nl.At(old.Len() + k)
		rf.SetId(fn.Id())
		dn, _ := fn.DisplayName()
		if err := rf.SetFilename(filepath.Base(dn)); err != nil {
			return nil, err
		}
	}
	if err := nreq.SetRequestedFiles(nl); err != nil {
		return nil, err
	}
	return nmsg.Marshal()
}
