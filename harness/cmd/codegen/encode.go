package main

// encode.go: schema model -> serialized CodeGeneratorRequest, through the
// public std/capnp/schema bindings.

import (
	"fmt"
	"math"

	"capnproto.org/go/capnp/v3"
	"capnproto.org/go/capnp/v3/std/capnp/schema"
)

type encoder struct {
	seg *capnp.Segment
}

func must(err error) {
	if err != nil {
		panic(fmt.Sprintf("synth encode: %v", err))
	}
}

// EncodeRequest serializes the model.
func EncodeRequest(sc *mSchema) (out []byte, err error) {
	defer func() {
		if r := recover(); r != nil {
			err = fmt.Errorf("%v", r)
		}
	}()
	msg, seg, e := capnp.NewMessage(capnp.SingleSegment(nil))
	must(e)
	en := &encoder{seg: seg}
	req, e := schema.NewRootCodeGeneratorRequest(seg)
	must(e)
	total := 0
	for _, f := range sc.Files {
		total += 1 + len(f.All)
	}
	nodes, e := req.NewNodes(int32(total))
	must(e)
	i := 0
	for _, f := range sc.Files {
		en.fileNode(nodes.At(i), f)
		i++
		for _, n := range f.All {
			en.node(nodes.At(i), n)
			i++
		}
	}
	rfs, e := req.NewRequestedFiles(int32(len(sc.Files)))
	must(e)
	for k, f := range sc.Files {
		rf := rfs.At(k)
		rf.SetId(f.ID)
		must(rf.SetFilename(f.Filename))
		imps, e := rf.NewImports(int32(len(f.Imports)))
		must(e)
		for j, d := range f.Imports {
			imps.At(j).SetId(d.ID)
			must(imps.At(j).SetName(d.Name))
		}
	}
	return msg.Marshal()
}

func (en *encoder) textAnn(a schema.Annotation, id uint64, s string) {
	a.SetId(id)
	v, e := a.NewValue()
	must(e)
	must(v.SetText(s))
}

func (en *encoder) fileNode(n schema.Node, f *mFile) {
	n.SetId(f.ID)
	must(n.SetDisplayName(f.Name))
	n.SetDisplayNamePrefixLength(0)
	n.SetFile()
	nn, e := n.NewNestedNodes(int32(len(f.Nested)))
	must(e)
	for i, c := range f.Nested {
		nn.At(i).SetId(c.ID)
		must(nn.At(i).SetName(c.Name))
	}
	as, e := n.NewAnnotations(2)
	must(e)
	en.textAnn(as.At(0), annPackage, f.Pkg)
	en.textAnn(as.At(1), annImport, f.Import)
}

func (en *encoder) nodeAnns(n schema.Node, rename, doc string) {
	k := 0
	if rename != "" {
		k++
	}
	if doc != "" {
		k++
	}
	if k == 0 {
		return
	}
	as, e := n.NewAnnotations(int32(k))
	must(e)
	i := 0
	if doc != "" {
		en.textAnn(as.At(i), annDoc, doc)
		i++
	}
	if rename != "" {
		en.textAnn(as.At(i), annName, rename)
	}
}

func (en *encoder) node(n schema.Node, m *mNode) {
	n.SetId(m.ID)
	must(n.SetDisplayName(m.Display))
	n.SetDisplayNamePrefixLength(uint32(m.Prefix))
	switch {
	case m.NoScope:
		n.SetScopeId(0)
	case m.Scope != nil:
		n.SetScopeId(m.Scope.ID)
	default:
		n.SetScopeId(m.File.ID)
	}
	if len(m.Nested) > 0 {
		nn, e := n.NewNestedNodes(int32(len(m.Nested)))
		must(e)
		for i, c := range m.Nested {
			nn.At(i).SetId(c.ID)
			must(nn.At(i).SetName(c.Name))
		}
	}
	en.nodeAnns(n, m.Rename, m.Doc)
	switch m.Kind {
	case "struct":
		n.SetStructNode()
		sn := n.StructNode()
		sn.SetDataWordCount(m.DataWords)
		sn.SetPointerCount(m.PtrCount)
		sn.SetPreferredListEncoding(schema.ElementSize_inlineComposite)
		sn.SetIsGroup(m.IsGroup)
		sn.SetDiscriminantCount(m.DiscCount)
		sn.SetDiscriminantOffset(m.DiscOffset)
		fs, e := sn.NewFields(int32(len(m.Fields)))
		must(e)
		for i, f := range m.Fields {
			en.field(fs.At(i), f, i)
		}
	case "enum":
		n.SetEnum()
		es, e := n.Enum().NewEnumerants(int32(len(m.Enumerants)))
		must(e)
		for i, x := range m.Enumerants {
			must(es.At(i).SetName(x.Name))
			es.At(i).SetCodeOrder(uint16(i))
			k := 0
			if x.Rename != "" {
				k++
			}
			if x.Tag != "" || x.NoTag {
				k++
			}
			if k > 0 {
				as, e := es.At(i).NewAnnotations(int32(k))
				must(e)
				j := 0
				if x.Rename != "" {
					en.textAnn(as.At(j), annName, x.Rename)
					j++
				}
				if x.Tag != "" {
					en.textAnn(as.At(j), annTag, x.Tag)
				} else if x.NoTag {
					as.At(j).SetId(annNoTag)
					v, e := as.At(j).NewValue()
					must(e)
					v.SetVoid()
				}
			}
		}
	case "interface":
		n.SetInterface()
		ms, e := n.Interface().NewMethods(int32(len(m.Methods)))
		must(e)
		for i, x := range m.Methods {
			must(ms.At(i).SetName(x.Name))
			ms.At(i).SetCodeOrder(uint16(i))
			ms.At(i).SetParamStructType(x.Params.ID)
			ms.At(i).SetResultStructType(x.Results.ID)
			if x.Rename != "" {
				as, e := ms.At(i).NewAnnotations(1)
				must(e)
				en.textAnn(as.At(0), annName, x.Rename)
			}
		}
		ss, e := n.Interface().NewSuperclasses(int32(len(m.Supers)))
		must(e)
		for i, x := range m.Supers {
			ss.At(i).SetId(x.ID)
		}
	case "const":
		n.SetConst()
		t, e := n.Const().NewType()
		must(e)
		en.typ(t, m.CType)
		v, e := n.Const().NewValue()
		must(e)
		en.value(v, m.CType, m.CVal)
	case "annotation":
		n.SetAnnotation()
		t, e := n.Annotation().NewType()
		must(e)
		en.typ(t, m.CType)
		n.Annotation().SetTargetsField(true)
	}
}

func (en *encoder) field(f schema.Field, m *mField, ordinal int) {
	must(f.SetName(m.Name))
	f.SetCodeOrder(m.CodeOrder)
	f.SetDiscriminantValue(m.Disc)
	if m.Rename != "" {
		as, e := f.NewAnnotations(1)
		must(e)
		en.textAnn(as.At(0), annName, m.Rename)
	}
	if m.Group != nil {
		f.SetGroup()
		f.Group().SetTypeId(m.Group.ID)
		f.Ordinal().SetImplicit()
		return
	}
	f.SetSlot()
	sl := f.Slot()
	sl.SetOffset(m.Off)
	t, e := sl.NewType()
	must(e)
	en.typ(t, m.T)
	sl.SetHadExplicitDefault(m.Explicit)
	f.Ordinal().SetExplicit(uint16(ordinal))
	if m.NullDef {
		return // no defaultValue pointer: the zero default
	}
	v, e := sl.NewDefaultValue()
	must(e)
	var dv *mVal
	switch {
	case m.T.bits() > 0:
		dv = &mVal{Bits: m.DefBits}
	case m.PDef != nil:
		dv = m.PDef
	}
	en.value(v, m.T, dv)
}

func (en *encoder) typ(t schema.Type, m *mType) {
	switch m.K {
	case "void":
		t.SetVoid()
	case "bool":
		t.SetBool()
	case "int8":
		t.SetInt8()
	case "int16":
		t.SetInt16()
	case "int32":
		t.SetInt32()
	case "int64":
		t.SetInt64()
	case "uint8":
		t.SetUint8()
	case "uint16":
		t.SetUint16()
	case "uint32":
		t.SetUint32()
	case "uint64":
		t.SetUint64()
	case "float32":
		t.SetFloat32()
	case "float64":
		t.SetFloat64()
	case "text":
		t.SetText()
	case "data":
		t.SetData()
	case "list":
		t.SetList()
		et, e := t.List().NewElementType()
		must(e)
		en.typ(et, m.Elem)
	case "enum":
		t.SetEnum()
		t.Enum().SetTypeId(m.Ref.ID)
	case "struct":
		t.SetStructType()
		t.StructType().SetTypeId(m.Ref.ID)
	case "interface":
		t.SetInterface()
		t.Interface().SetTypeId(m.Ref.ID)
	case "anyPointer":
		t.SetAnyPointer()
	default:
		panic("unknown model type " + m.K)
	}
}

// value writes a schema Value of type t (v == nil: the zero / null value of
// that type, which is what the capnp compiler emits for "no default").
func (en *encoder) value(out schema.Value, t *mType, v *mVal) {
	if v == nil {
		v = &mVal{}
	}
	switch t.K {
	case "void":
		out.SetVoid()
	case "bool":
		out.SetBool(v.Bits&1 == 1)
	case "int8":
		out.SetInt8(int8(v.Bits))
	case "int16":
		out.SetInt16(int16(v.Bits))
	case "int32":
		out.SetInt32(int32(v.Bits))
	case "int64":
		out.SetInt64(int64(v.Bits))
	case "uint8":
		out.SetUint8(uint8(v.Bits))
	case "uint16":
		out.SetUint16(uint16(v.Bits))
	case "uint32":
		out.SetUint32(uint32(v.Bits))
	case "uint64":
		out.SetUint64(v.Bits)
	case "float32":
		out.SetFloat32(math.Float32frombits(uint32(v.Bits)))
	case "float64":
		out.SetFloat64(math.Float64frombits(v.Bits))
	case "enum":
		out.SetEnum(uint16(v.Bits))
	case "text":
		must(out.SetText(string(v.Bytes))) // "" stores a null pointer
	case "data":
		if v.Bytes == nil {
			must(out.SetData(nil))
		} else {
			must(out.SetData(v.Bytes))
		}
	case "list":
		if v.Elems == nil {
			must(out.SetList(capnp.Ptr{}))
		} else {
			must(out.SetList(en.ptrVal(t, v)))
		}
	case "struct":
		if v.Sets == nil && v.Discs == nil && v.Elems == nil && v.Bytes == nil && v.Bits == 0 {
			must(out.SetStructValue(capnp.Ptr{}))
		} else {
			must(out.SetStructValue(en.ptrVal(t, v)))
		}
	case "interface":
		out.SetInterface()
	case "anyPointer":
		must(out.SetAnyPointer(capnp.Ptr{}))
	}
}

func objSize(n *mNode) capnp.ObjectSize {
	return capnp.ObjectSize{DataSize: capnp.Size(n.DataWords) * 8, PointerCount: n.PtrCount}
}

// ptrVal builds the object for a pointer-typed value (nil => null pointer).
func (en *encoder) ptrVal(t *mType, v *mVal) capnp.Ptr {
	if v == nil {
		return capnp.Ptr{}
	}
	switch t.K {
	case "text":
		l, e := capnp.NewTextFromBytes(en.seg, v.Bytes)
		must(e)
		return l.List.ToPtr()
	case "data":
		l, e := capnp.NewData(en.seg, v.Bytes)
		must(e)
		return l.List.ToPtr()
	case "struct":
		st, e := capnp.NewStruct(en.seg, objSize(t.Ref))
		must(e)
		en.fillStruct(st, v)
		return st.ToPtr()
	case "list":
		return en.listVal(t.Elem, v.Elems)
	}
	return capnp.Ptr{}
}

func (en *encoder) fillStruct(st capnp.Struct, v *mVal) {
	if v == nil {
		return
	}
	for _, d := range v.Discs {
		st.SetUint16(capnp.DataOffset(d.N.DiscOffset*2), d.V)
	}
	for _, s := range v.Sets {
		f := s.F
		switch {
		case f.T.bits() > 0:
			raw := (s.V.Bits ^ f.DefBits) & maskBits(f.T.bits())
			switch f.T.bits() {
			case 1:
				st.SetBit(capnp.BitOffset(f.Off), raw == 1)
			case 8:
				st.SetUint8(capnp.DataOffset(f.Off), uint8(raw))
			case 16:
				st.SetUint16(capnp.DataOffset(f.Off*2), uint16(raw))
			case 32:
				st.SetUint32(capnp.DataOffset(f.Off*4), uint32(raw))
			case 64:
				st.SetUint64(capnp.DataOffset(f.Off*8), raw)
			}
		case f.T.isPtr():
			must(st.SetPtr(uint16(f.Off), en.ptrVal(f.T, s.V)))
		}
	}
}

func (en *encoder) listVal(e *mType, elems []*mVal) capnp.Ptr {
	n := int32(len(elems))
	switch e.K {
	case "bool":
		l, err := capnp.NewBitList(en.seg, n)
		must(err)
		for i, x := range elems {
			l.Set(i, x.Bits&1 == 1)
		}
		return l.List.ToPtr()
	case "int8", "uint8":
		l, err := capnp.NewUInt8List(en.seg, n)
		must(err)
		for i, x := range elems {
			l.Set(i, uint8(x.Bits))
		}
		return l.List.ToPtr()
	case "int16", "uint16", "enum":
		l, err := capnp.NewUInt16List(en.seg, n)
		must(err)
		for i, x := range elems {
			l.Set(i, uint16(x.Bits))
		}
		return l.List.ToPtr()
	case "int32", "uint32", "float32":
		l, err := capnp.NewUInt32List(en.seg, n)
		must(err)
		for i, x := range elems {
			l.Set(i, uint32(x.Bits))
		}
		return l.List.ToPtr()
	case "int64", "uint64", "float64":
		l, err := capnp.NewUInt64List(en.seg, n)
		must(err)
		for i, x := range elems {
			l.Set(i, x.Bits)
		}
		return l.List.ToPtr()
	case "struct":
		l, err := capnp.NewCompositeList(en.seg, objSize(e.Ref), n)
		must(err)
		for i, x := range elems {
			en.fillStruct(l.Struct(i), x)
		}
		return l.ToPtr()
	default:
		l, err := capnp.NewPointerList(en.seg, n)
		must(err)
		for i, x := range elems {
			must(l.Set(i, en.ptrVal(e, x)))
		}
		return l.List.ToPtr()
	}
}
