// Command codegen is the driver of property C15: generated accessors
// implement exactly the layout the schema declares; generator output is
// deterministic.  See NOTES.md.
//
// Modes (case index = schema number; a batch = one scratch build):
//
//	synth   schema i is synthesised from CaseSeed(seed,"C15/synth",i)
//	stored  schema i is the i-th capnpc-go/testdata/*.capnp.out request
//
// For every schema: describe the request (oracle, from its bytes), run a
// freshly built capnpc-go three times (byte-identical output required),
// compile the output together with a probe program, run the probe, merge its
// verdicts.
package main

import (
	"bytes"
	"context"
	_ "embed"
	"encoding/json"
	"fmt"
	"go/token"
	"io/ioutil"
	"os"
	"os/exec"
	"os/signal"
	"path/filepath"
	"regexp"
	"runtime"
	"sort"
	"strings"
	"sync"
	"syscall"
	"time"

	"capnproto.org/go/capnp/v3/zverif/common"
)

//go:embed engine.go.txt
var engineSrc []byte

//go:embed shared.go
var sharedSrc []byte

const modPath = "capnproto.org/go/capnp/v3"

type workspace struct {
	dir    string // temp dir (removed at exit)
	repo   string // scratch copy of the module
	capnpc string // freshly built generator
	bin    string // probe binaries
}

func goEnv() []string {
	env := os.Environ()
	return append(env, "GOFLAGS=-mod=mod", "GOPROXY=off", "GOSUMDB=off", "GOTOOLCHAIN=local", "GOGC=400")
}

func run(dir string, timeout time.Duration, stdin []byte, name string, args ...string) (stdout, stderr []byte, err error) {
	ctx, cancel := context.WithTimeout(context.Background(), timeout)
	defer cancel()
	cmd := exec.CommandContext(ctx, name, args...)
	cmd.Dir = dir
	cmd.Env = goEnv()
	if stdin != nil {
		cmd.Stdin = bytes.NewReader(stdin)
	}
	var so, se bytes.Buffer
	cmd.Stdout, cmd.Stderr = &so, &se
	err = cmd.Run()
	if ctx.Err() != nil {
		err = fmt.Errorf("timeout after %v: %v", timeout, err)
	}
	return so.Bytes(), se.Bytes(), err
}

func newWorkspace(cfg *common.Config) (*workspace, error) {
	src := os.Getenv("VERIF_REPO")
	if src == "" {
		src = "/repo"
	}
	parent := ""
	if cfg.Out != "" {
		parent = filepath.Dir(cfg.Out) // inside the orchestrator's scratch: cleaned up even if we are killed
	}
	dir, err := ioutil.TempDir(parent, "c15-")
	if err != nil {
		return nil, err
	}
	w := &workspace{dir: dir, repo: filepath.Join(dir, "repo"), bin: filepath.Join(dir, "bin")}
	os.MkdirAll(w.bin, 0755)
	if _, se, err := run("", 2*time.Minute, nil, "rsync", "-a", "--exclude", ".git", "--exclude", "zverif", "--exclude", "zvgen", src+"/", w.repo+"/"); err != nil {
		return w, fmt.Errorf("rsync %s: %v %s", src, err, se)
	}
	w.capnpc = filepath.Join(dir, "capnpc-go")
	t0 := time.Now()
	defer func() { fmt.Fprintf(os.Stderr, "workspace ready in %v\n", time.Since(t0)) }()
	if so, se, err := run(w.repo, 5*time.Minute, nil, "go", "build", "-trimpath", "-o", w.capnpc, "./capnpc-go"); err != nil {
		return w, fmt.Errorf("building capnpc-go: %v\n%s%s", err, so, se)
	}
	return w, nil
}

func (w *workspace) cleanup() {
	if w != nil && w.dir != "" {
		os.RemoveAll(w.dir)
	}
}

// ---------------------------------------------------------------------------

type job struct {
	idx     uint64
	name    string
	req     []byte
	desc    *SchemaDesc
	dir     string            // module-relative directory of this schema (zvgen/<name>)
	place   map[string]string // generator output file (relative to its cwd) -> module-relative destination
	actual  map[uint64]string // requested file id -> Go import path where its output was placed
	outputs map[string][]byte
	info    interface{} // replay input
	skip    bool
	probe   string // binary name
}

var classRes = []struct {
	re  *regexp.Regexp
	cls string
}{
	{regexp.MustCompile(`undefined:|undefined \(`), "undefined"},
	{regexp.MustCompile(`redeclared|already declared|duplicate (method|field|case|key)|field and method with the same name`), "redeclared"},
	{regexp.MustCompile(`cannot use .* as|cannot convert|mismatched types|invalid operation`), "type-mismatch"},
	{regexp.MustCompile(`syntax error|expected `), "syntax"},
	{regexp.MustCompile(`imported and not used|declared and not used|declared but not used`), "unused"},
	{regexp.MustCompile(`not enough arguments|too many arguments|assignment mismatch|too many return|not enough return`), "arity"},
	{regexp.MustCompile(`overflows|constant .* out of range|truncated`), "constant-overflow"},
	{regexp.MustCompile(`missing return|unreachable`), "control-flow"},
	{regexp.MustCompile(`could not import|no required module|cannot find package|is not in std|import cycle`), "import"},
	{regexp.MustCompile(`has no field or method|\.\w+ undefined`), "undefined"},
}

func classify(msg string) string {
	for _, c := range classRes {
		if c.re.MatchString(msg) {
			return c.cls
		}
	}
	return "other"
}

var genErrRes = []struct {
	re  *regexp.Regexp
	cls string
}{
	{regexp.MustCompile(`(?m)^panic:|goroutine \d+ \[running\]`), "panic"},
	{regexp.MustCompile(`no new function for`), "no-new-function"},
	{regexp.MustCompile(`could not find`), "node-not-found"},
	{regexp.MustCompile(`unable to reference type`), "unreferencable-type"},
	{regexp.MustCompile(`default value type is|value type is`), "value-type-mismatch"},
	{regexp.MustCompile(`missing (package|import) (annotation|declaration)`), "missing-go-annotation"},
	{regexp.MustCompile(`\d+:\d+: `), "gofmt-syntax"},
	{regexp.MustCompile(`reading input`), "reading-input"},
}

func classifyGen(msg string) string {
	for _, c := range genErrRes {
		if c.re.MatchString(msg) {
			return c.cls
		}
	}
	return "other"
}

// generate runs the generator `runs` times on j.req, checks determinism and
// stores the outputs of run 0.
func generate(rec *common.Recorder, w *workspace, j *job, runs int, extraArgs ...string) bool {
	var first map[string][]byte
	for r := 0; r < runs; r++ {
		rd := filepath.Join(w.dir, "gen", j.name, fmt.Sprintf("run%d", r))
		os.MkdirAll(rd, 0755)
		so, se, err := run(rd, 2*time.Minute, j.req, w.capnpc, extraArgs...)
		rec.Count("generator_runs", 1)
		if err != nil {
			msg := string(se) + string(so)
			rec.Violate("generate/"+classifyGen(msg), "capnpc-go failed on a legal request: "+firstLine(msg), j.idx, msg+"\n"+err.Error(), j.info)
			os.RemoveAll(filepath.Join(w.dir, "gen", j.name))
			return false
		}
		outs := map[string][]byte{}
		filepath.Walk(rd, func(p string, fi os.FileInfo, err error) error {
			if err == nil && !fi.IsDir() {
				b, _ := ioutil.ReadFile(p)
				rel, _ := filepath.Rel(rd, p)
				outs[rel] = b
			}
			return nil
		})
		if r == 0 {
			first = outs
			continue
		}
		rec.Count("determinism_comparisons", 1)
		if d := diffOutputs(first, outs); d != "" {
			rec.Violate("nondeterministic-output", "two runs of capnpc-go on the same request produced different files", j.idx,
				fmt.Sprintf("run 0 vs run %d: %s", r, d), j.info)
			break
		}
	}
	os.RemoveAll(filepath.Join(w.dir, "gen", j.name))
	j.outputs = first
	var total int
	for _, b := range first {
		total += len(b)
	}
	rec.Count("generated_files", int64(len(first)))
	rec.Count("generated_bytes", int64(total))
	return true
}

func firstLine(s string) string {
	s = strings.TrimSpace(s)
	if i := strings.IndexByte(s, '\n'); i >= 0 {
		s = s[:i]
	}
	if len(s) > 200 {
		s = s[:200]
	}
	return s
}

func diffOutputs(a, b map[string][]byte) string {
	var names []string
	for k := range a {
		names = append(names, k)
	}
	for k := range b {
		if _, ok := a[k]; !ok {
			names = append(names, k)
		}
	}
	sort.Strings(names)
	for _, k := range names {
		x, ok1 := a[k]
		y, ok2 := b[k]
		if !ok1 || !ok2 {
			return "file set differs: " + k
		}
		if !bytes.Equal(x, y) {
			la, lb := strings.Split(string(x), "\n"), strings.Split(string(y), "\n")
			for i := 0; i < len(la) && i < len(lb); i++ {
				if la[i] != lb[i] {
					return fmt.Sprintf("%s line %d:\n- %s\n+ %s", k, i+1, trunc(la[i], 300), trunc(lb[i], 300))
				}
			}
			return fmt.Sprintf("%s: lengths %d vs %d", k, len(x), len(y))
		}
	}
	return ""
}

func trunc(s string, n int) string {
	if len(s) > n {
		return s[:n] + "…"
	}
	return s
}

// install writes generator outputs and the probe program into the scratch
// module.
func install(w *workspace, j *job) error {
	for rel, dst := range j.place {
		b, ok := j.outputs[rel]
		if !ok {
			return fmt.Errorf("generator did not write %s (wrote %v)", rel, keys(j.outputs))
		}
		p := filepath.Join(w.repo, dst)
		os.MkdirAll(filepath.Dir(p), 0755)
		if err := ioutil.WriteFile(p, b, 0644); err != nil {
			return err
		}
	}
	pd := filepath.Join(w.repo, j.dir, j.probe)
	os.MkdirAll(pd, 0755)
	if err := ioutil.WriteFile(filepath.Join(pd, "engine.go"), engineSrc, 0644); err != nil {
		return err
	}
	if err := ioutil.WriteFile(filepath.Join(pd, "shared.go"), sharedSrc, 0644); err != nil {
		return err
	}
	if err := ioutil.WriteFile(filepath.Join(pd, "reg.go"), genReg(j.desc, j.actual), 0644); err != nil {
		return err
	}
	db, err := json.Marshal(j.desc)
	if err != nil {
		return err
	}
	if os.Getenv("C15_KEEP") != "" {
		ioutil.WriteFile(filepath.Join(w.dir, j.name+".req"), j.req, 0644)
	}
	return ioutil.WriteFile(filepath.Join(w.dir, j.name+".desc.json"), db, 0644)
}

func keys(m map[string][]byte) []string {
	var ks []string
	for k := range m {
		ks = append(ks, k)
	}
	sort.Strings(ks)
	return ks
}

// buildArgs: the generated packages and probes are compiled without
// optimisation / inlining and linked without DWARF: same semantics, about a
// third less build CPU (the build dominates the cost of the check).
func buildArgs() []string {
	return []string{"build", "-trimpath", "-tags", "verif", "-ldflags=-s -w", "-gcflags=" + modPath + "/zvgen/...=-N -l"}
}

var errLineRe = regexp.MustCompile(`^(\S+?\.go):(\d+):(\d+): (.*)$`)

// build compiles all installed schemas at once; compile errors are
// attributed to their schema.  Returns the set of jobs whose probe binary
// exists.
func build(rec *common.Recorder, w *workspace, jobs []*job) map[*job]bool {
	ok := map[*job]bool{}
	var live []*job
	for _, j := range jobs {
		if !j.skip {
			live = append(live, j)
		}
	}
	if len(live) == 0 {
		return ok
	}
	args := append(buildArgs(), "-o", w.bin+"/")
	for _, j := range live {
		args = append(args, "./"+j.dir+"/...")
	}
	t0 := time.Now()
	so, se, err := run(w.repo, 15*time.Minute, nil, "go", args...)
	rec.Logf("go build of %d schemas: %v err=%v", len(live), time.Since(t0), err)
	rec.Count("scratch_builds", 1)
	out := string(se) + string(so)
	failed := map[*job]string{}
	if err != nil {
		for _, line := range strings.Split(out, "\n") {
			m := errLineRe.FindStringSubmatch(strings.TrimSpace(line))
			if m == nil {
				continue
			}
			for _, j := range live {
				if strings.Contains(m[1], j.dir+"/") {
					if _, seen := failed[j]; !seen {
						failed[j] = m[4]
						where := "generated code"
						if strings.Contains(m[1], "/"+j.probe+"/") {
							where = "probe (missing or mistyped generated declaration)"
						}
						rec.Violate("compile/"+classify(m[4]), "output of capnpc-go does not compile: "+where+": "+trunc(m[4], 200), j.idx,
							errorsFor(out, j.dir), j.info)
					}
				}
			}
		}
		if len(failed) == 0 {
			rec.Inconclusive("scratch build failed without attributable compile error: " + trunc(out, 600))
			return ok
		}
	}
	var retry []*job
	for _, j := range live {
		if _, bad := failed[j]; bad {
			continue
		}
		if _, e := os.Stat(filepath.Join(w.bin, j.probe)); e == nil {
			ok[j] = true
		} else {
			retry = append(retry, j)
		}
	}
	// a failing package can keep unrelated binaries from being written: rebuild those
	if len(retry) > 0 {
		args := append(buildArgs(), "-o", w.bin+"/")
		for _, j := range retry {
			args = append(args, "./"+j.dir+"/"+j.probe)
		}
		so, se, err := run(w.repo, 15*time.Minute, nil, "go", args...)
		rec.Count("scratch_builds", 1)
		if err != nil {
			rec.Inconclusive("rebuild of unaffected probes failed: " + trunc(string(se)+string(so), 600))
		}
		for _, j := range retry {
			if _, e := os.Stat(filepath.Join(w.bin, j.probe)); e == nil {
				ok[j] = true
			}
		}
	}
	return ok
}

func errorsFor(out, dir string) string {
	var b strings.Builder
	n := 0
	for _, line := range strings.Split(out, "\n") {
		if strings.Contains(line, dir+"/") && n < 25 {
			b.WriteString(line)
			b.WriteByte('\n')
			n++
		}
	}
	return b.String()
}

// runProbes executes the probe binaries in parallel and merges the verdicts.
func runProbes(rec *common.Recorder, w *workspace, cfg *common.Config, jobs []*job, built map[*job]bool) {
	type res struct {
		j      *job
		out    probeOutJSON
		raw    []byte
		stderr []byte
		err    error
	}
	var mu sync.Mutex
	var results []res
	sem := make(chan struct{}, maxInt(2, runtime.NumCPU()-2))
	var wg sync.WaitGroup
	for _, j := range jobs {
		if !built[j] {
			continue
		}
		wg.Add(1)
		go func(j *job) {
			defer wg.Done()
			sem <- struct{}{}
			defer func() { <-sem }()
			seed := common.CaseSeed(cfg.Seed, cfg.Prop+"/"+cfg.Mode+"/probe", j.idx)
			so, se, err := run(w.dir, 10*time.Minute, nil, filepath.Join(w.bin, j.probe), filepath.Join(w.dir, j.name+".desc.json"), fmt.Sprint(seed))
			r := res{j: j, raw: so, stderr: se, err: err}
			if err == nil {
				r.err = json.Unmarshal(bytes.TrimSpace(so), &r.out)
			}
			mu.Lock()
			results = append(results, r)
			mu.Unlock()
		}(j)
	}
	wg.Wait()
	sort.Slice(results, func(a, b int) bool { return results[a].j.idx < results[b].j.idx })
	for _, r := range results {
		j := r.j
		rec.Count("probes_run", 1)
		if r.err != nil || !r.out.Done {
			msg := string(r.stderr)
			if strings.Contains(fmt.Sprint(r.err), "timeout") {
				rec.Inconclusive(fmt.Sprintf("probe %s: %v", j.name, r.err))
				continue
			}
			cls := "exit"
			if m := regexp.MustCompile(`(?m)^(panic|fatal error): (.*)$`).FindStringSubmatch(msg); m != nil {
				cls = m[1] + "/" + regexp.MustCompile(`0x[0-9a-f]+|\d+`).ReplaceAllString(trunc(m[2], 60), "N")
			}
			rec.Violate("probe-crash/"+cls, "probe program linked against the generated code died: "+firstLine(msg), j.idx,
				trunc(msg, 5000)+"\n"+fmt.Sprint(r.err), j.info)
			continue
		}
		for k, v := range r.out.Counters {
			rec.Count(k, v)
		}
		for _, c := range r.out.Combos {
			rec.Distinct(common.HashString(c))
		}
		for _, in := range r.out.Internal {
			rec.Inconclusive("probe " + j.name + ": " + in)
		}
		for _, v := range r.out.Violations {
			rec.Violate(v.Sig, v.What+" ["+v.Struct+"."+v.Field+"]", j.idx, v.Detail,
				map[string]interface{}{"schema": j.info, "field": v.Input})
		}
		if rec.WantSample() {
			rec.Sample(map[string]interface{}{"schema": j.name, "index": j.idx, "structs": r.out.Counters["structs"], "groups": r.out.Counters["groups"],
				"fields": r.out.Counters["fields"], "union_members": r.out.Counters["union_members"], "setter_checks": r.out.Counters["setter_checks"],
				"getter_checks": r.out.Counters["getter_checks"], "combos": len(r.out.Combos), "request_bytes": len(j.req)})
		}
	}
}

type probeOutJSON struct {
	Schema     string           `json:"schema"`
	Counters   map[string]int64 `json:"counters"`
	Combos     []string         `json:"combos"`
	Violations []struct {
		Sig    string      `json:"sig"`
		What   string      `json:"what"`
		Struct string      `json:"struct"`
		Field  string      `json:"field"`
		Detail string      `json:"detail"`
		Input  interface{} `json:"input"`
	} `json:"violations"`
	Internal []string `json:"internal"`
	Done     bool     `json:"done"`
}

func maxInt(a, b int) int {
	if a > b {
		return a
	}
	return b
}

// ---------------------------------------------------------------------------

func synthOptsFor(idx uint64) synthOpts {
	files := 1
	switch idx % 6 {
	case 1:
		files = 2
	case 4:
		files = 3
	}
	return synthOpts{Structs: 22, MaxFields: 9, Files: files, Systematic: idx%2 == 0}
}

func prepareSynth(rec *common.Recorder, cfg *common.Config, w *workspace, i uint64) *job {
	name := fmt.Sprintf("s%d", i)
	j := &job{idx: i, name: name, dir: "zvgen/" + name, probe: "probe_" + name}
	opts := synthOptsFor(i)
	j.info = map[string]interface{}{"mode": "synth", "seed": cfg.Seed, "index": i, "opts": opts}
	rec.Case(i, fmt.Sprintf("synth schema %s files=%d systematic=%v", name, opts.Files, opts.Systematic))
	rng := common.NewRNG(common.CaseSeed(cfg.Seed, cfg.Prop+"/"+cfg.Mode, i))
	model := Synthesize(rng, name, modPath+"/"+j.dir, opts)
	req, err := EncodeRequest(model)
	if err != nil {
		rec.Inconclusive("synthesiser failed: " + err.Error())
		j.skip = true
		return j
	}
	j.req = req
	j.info.(map[string]interface{})["request_hex_len"] = len(req)
	desc, err := Describe(name, req)
	if err != nil {
		rec.Inconclusive("describe failed: " + err.Error())
		j.skip = true
		return j
	}
	desc.finishGroups()
	j.desc = desc
	j.place = map[string]string{}
	j.actual = map[uint64]string{}
	for _, f := range model.Files {
		j.place[f.Filename+".go"] = filepath.Join(j.dir, f.Filename+".go")
		j.actual[f.ID] = f.Import
	}
	rec.Count("schemas", 1)
	rec.Count("request_bytes", int64(len(req)))
	countCrossFile(rec, desc)
	return j
}

// reservedImportNames are the local import names capnpc-go reserves for its
// own imports; a schema package with one of these names must be renamed.
var reservedImportNames = map[string]bool{"capnp": true, "schemas": true, "server": true, "text": true, "context": true, "math": true, "strconv": true}

// countCrossFile counts, from the description of the request, the fields
// whose type node lives in another schema file (Go package), and how many of
// those packages the generator has to import under a renamed qualifier.
func countCrossFile(rec *common.Recorder, d *SchemaDesc) {
	fileOf := map[uint64]uint64{}
	for _, s := range d.Structs {
		fileOf[s.ID] = s.File
	}
	for _, e := range d.Enums {
		fileOf[e.ID] = e.File
	}
	for _, x := range d.Ifaces {
		fileOf[x.ID] = x.File
	}
	pkgCount := map[string]int{}
	nreq := 0
	for _, f := range d.Files {
		if f.Requested {
			pkgCount[f.Pkg]++
			nreq++
		}
	}
	if nreq > 1 {
		rec.Count("multi_file_requests", 1)
		rec.Count("schema_files_in_multi_file_requests", int64(nreq))
	}
	collides := func(fid uint64) bool {
		f := d.fileByID(fid)
		return f != nil && (reservedImportNames[f.Pkg] || pkgCount[f.Pkg] > 1)
	}
	for _, f := range d.Files {
		if f.Requested && nreq > 1 && collides(f.ID) {
			rec.Count("colliding_package_names", 1)
		}
	}
	for _, s := range d.Structs {
		for i := range s.Fields {
			t := s.Fields[i].T
			if t == nil {
				continue
			}
			kind := t.K
			for t.K == "list" {
				t = t.Elem
				kind = "list_" + t.K
			}
			if t.ID == 0 || fileOf[t.ID] == 0 || fileOf[t.ID] == s.File {
				continue
			}
			rec.Count("cross_file_fields", 1)
			rec.Count("cross_file_fields_"+kind, 1)
			if collides(fileOf[t.ID]) {
				rec.Count("cross_file_fields_renamed_import", 1)
				if kind == "struct" {
					rec.Count("cross_file_struct_fields_renamed_import", 1)
				}
			}
		}
	}
}

func storedList(w *workspace) []string {
	l, _ := filepath.Glob(filepath.Join(w.repo, "capnpc-go", "testdata", "*.capnp.out"))
	sort.Strings(l)
	return l
}

// generatable reports whether every requested file carries the $Go.package /
// $Go.import annotations the generator documents as mandatory, with a
// package name that is a legal Go package name.  (testdata/const.capnp.out
// declares package "const" and testdata/go.capnp.out has no $Go.import; the
// repository's own TestDefineFile does not feed them to the generator either.)
func generatable(d *SchemaDesc) (bool, string) {
	for _, f := range d.Files {
		if !f.Requested {
			continue
		}
		if f.Import == "" || f.Pkg == "" {
			return false, f.Filename + ": missing $Go.package/$Go.import"
		}
		if !token.IsIdentifier(f.Pkg) {
			return false, f.Filename + ": $Go.package(" + f.Pkg + ") is not a legal Go package name"
		}
	}
	return true, ""
}

func prepareStored(rec *common.Recorder, cfg *common.Config, w *workspace, i uint64) *job {
	files := storedList(w)
	if int(i) >= len(files) {
		rec.Case(i, "stored: no such request")
		return &job{idx: i, skip: true}
	}
	base := strings.TrimSuffix(filepath.Base(files[i]), ".capnp.out")
	name := "st" + regexp.MustCompile(`[^a-z0-9]`).ReplaceAllString(strings.ToLower(base), "")
	j := &job{idx: i, name: name, dir: "zvgen/" + name, probe: "probe_" + name}
	j.info = map[string]interface{}{"mode": "stored", "file": "capnpc-go/testdata/" + filepath.Base(files[i]), "index": i}
	rec.Case(i, "stored request "+filepath.Base(files[i]))
	req, err := ioutil.ReadFile(files[i])
	if err != nil {
		rec.Inconclusive(err.Error())
		j.skip = true
		return j
	}
	// Files that the requested file imports for *types* must be generated too
	// or the output cannot be compiled in isolation: extend requestedFiles.
	req, err = withImportedFiles(req, w.repo)
	if err != nil {
		rec.Inconclusive("stored request " + base + ": " + err.Error())
		j.skip = true
		return j
	}
	j.req = req
	desc, err := Describe(name, req)
	if err != nil {
		rec.Inconclusive("describe failed: " + err.Error())
		j.skip = true
		return j
	}
	desc.finishGroups()
	if ok, why := generatable(desc); !ok {
		rec.Logf("stored request %s skipped: %s", base, why)
		rec.Count("stored_requests_not_generatable", 1)
		j.skip = true
		return j
	}
	j.desc = desc
	j.place = map[string]string{}
	j.actual = map[uint64]string{}
	k := 0
	for _, f := range desc.Files {
		if !f.Requested {
			continue
		}
		// place the output where its $Go.import says if that is a free
		// directory of this module (so sibling outputs can import it)
		dst := fmt.Sprintf("%s/f%d", j.dir, k)
		if strings.HasPrefix(f.Import, modPath+"/") {
			rel := strings.TrimPrefix(f.Import, modPath+"/")
			if _, err := os.Stat(filepath.Join(w.repo, rel)); os.IsNotExist(err) {
				dst = rel
			}
		}
		k++
		j.place[f.Filename+".go"] = filepath.Join(dst, filepath.Base(f.Filename)+".go")
		j.actual[f.ID] = modPath + "/" + dst
	}
	rec.Count("schemas", 1)
	rec.Count("stored_requests", 1)
	rec.Count("request_bytes", int64(len(req)))
	return j
}

func main() {
	cfg := common.ParseFlags()
	rec := common.NewRecorder(cfg)
	if cfg.Mode != "synth" && cfg.Mode != "stored" {
		rec.Inconclusive("unknown mode " + cfg.Mode)
		rec.Finish()
		return
	}
	w, err := newWorkspace(cfg)
	sigc := make(chan os.Signal, 1)
	signal.Notify(sigc, syscall.SIGTERM, syscall.SIGINT)
	go func() {
		<-sigc
		w.cleanup()
		os.Exit(130)
	}()
	defer w.cleanup()
	if err != nil {
		rec.Inconclusive("workspace: " + err.Error())
		rec.Finish()
		return
	}
	var jobs []*job
	for i := cfg.Start; i < cfg.Start+cfg.Count; i++ {
		var j *job
		if cfg.Mode == "synth" {
			j = prepareSynth(rec, cfg, w, i)
		} else {
			j = prepareStored(rec, cfg, w, i)
		}
		jobs = append(jobs, j)
		if j.skip {
			continue
		}
		if !generate(rec, w, j, 3) {
			j.skip = true
			continue
		}
		if err := install(w, j); err != nil {
			rec.Violate("generate/missing-output", "capnpc-go did not write the requested file: "+err.Error(), j.idx, err.Error(), j.info)
			j.skip = true
		}
	}
	built := build(rec, w, jobs)
	runProbes(rec, w, cfg, jobs, built)
	if os.Getenv("C15_KEEP") != "" {
		fmt.Fprintf(os.Stderr, "keeping workspace %s\n", w.dir)
		w.dir = ""
	}
	rec.Finish()
}
