package main

import (
	"bytes"
	"encoding/binary"
	"errors"
	"fmt"
	"math"

	capnp "capnproto.org/go/capnp/v3"
	"capnproto.org/go/capnp/v3/zverif/common"
	"capnproto.org/go/capnp/v3/zverif/ref"
	"capnproto.org/go/capnp/v3/zverif/walk"
)

func init() { modes["builder"] = runBuilder }

// ---------------------------------------------------------------------------
// Arenas

// tinyArena is a custom Arena with fixed, tiny segments whose spare capacity
// is pre-filled with 0xAA: allocation must zero what it hands out, and
// objects constantly straddle segment exhaustion (near -> far with landing
// pad -> double-far).
type tinyArena struct {
	segs [][]byte
	rng  *common.RNG
	caps []int
}

func (a *tinyArena) NumSegments() int64 { return int64(len(a.segs)) }
func (a *tinyArena) Data(id capnp.SegmentID) ([]byte, error) {
	if int(id) >= len(a.segs) {
		return nil, errors.New("tinyArena: no such segment")
	}
	return a.segs[id], nil
}
func (a *tinyArena) Allocate(minsz capnp.Size, segs map[capnp.SegmentID]*capnp.Segment) (capnp.SegmentID, []byte, error) {
	for i := range a.segs {
		data := a.segs[i]
		if s := segs[capnp.SegmentID(i)]; s != nil {
			data = s.Data()
		}
		if cap(data)-len(data) >= int(minsz) {
			return capnp.SegmentID(i), data, nil
		}
	}
	c := a.caps[a.rng.Intn(len(a.caps))]
	need := (int(minsz) + 7) &^ 7
	switch a.rng.Intn(3) {
	case 0:
		c = need // exact fit: no room for a landing pad later
	case 1:
		c = need + 8
	default:
		if c < need {
			c = need
		}
	}
	buf := make([]byte, c)
	for i := range buf {
		buf[i] = 0xAA
	}
	buf = buf[:0]
	a.segs = append(a.segs, buf)
	return capnp.SegmentID(len(a.segs) - 1), buf, nil
}

func poisoned(c int) []byte {
	b := make([]byte, c)
	for i := range b {
		b[i] = 0xAA
	}
	return b[:0]
}

func newArena(rng *common.RNG) (capnp.Arena, string) {
	switch rng.Intn(6) {
	case 0:
		return capnp.SingleSegment(nil), "SingleSegment(nil)"
	case 1:
		c := rng.PickInt(8, 16, 24, 64, 256, 4096)
		return capnp.SingleSegment(poisoned(c)), fmt.Sprintf("SingleSegment(cap %d)", c)
	case 2:
		return capnp.MultiSegment(nil), "MultiSegment(nil)"
	case 3:
		c := rng.PickInt(8, 16, 24, 32, 64, 128)
		return capnp.MultiSegment([][]byte{poisoned(c)}), fmt.Sprintf("MultiSegment(cap %d)", c)
	default:
		return &tinyArena{rng: rng.Fork(), caps: []int{8, 16, 24, 32, 48, 64, 128}}, "tinyArena"
	}
}

// ---------------------------------------------------------------------------
// Shadow model

type obj struct {
	m      *ref.V
	st     capnp.Struct
	ls     capnp.List
	isList bool
	member bool // struct that is an element of a composite list (SetPtr copies it)
	links  int
	id     int
}

type script struct {
	rng    *common.RNG
	msg    *capnp.Message
	first  *capnp.Segment
	objs   []*obj
	root   *ref.V
	ops    []string
	caps   int
	garbage bool // an allocated object may be unreachable from the root
	clean   bool // clean script (see runBuilder)
	err    error
}

func (s *script) logf(f string, a ...interface{}) { s.ops = append(s.ops, fmt.Sprintf(f, a...)) }

func (s *script) add(o *obj) *obj {
	o.id = len(s.objs)
	s.objs = append(s.objs, o)
	return o
}

// seg picks a segment to allocate in: the first one or the one of an
// existing object.
func (s *script) seg() *capnp.Segment {
	if len(s.objs) > 0 && s.rng.Bool() {
		o := s.objs[s.rng.Intn(len(s.objs))]
		if o.isList {
			if sg := o.ls.Segment(); sg != nil {
				return sg
			}
		} else if sg := o.st.Segment(); sg != nil {
			return sg
		}
	}
	return s.first
}

func reaches(a, b *ref.V) bool {
	if a == b {
		return true
	}
	for _, p := range a.Ptrs {
		if p != nil && reaches(p, b) {
			return true
		}
	}
	for _, p := range a.Elems {
		if reaches(p, b) {
			return true
		}
	}
	return false
}

func (s *script) newStruct() {
	dsz := s.rng.PickInt(0, 0, 1, 3, 8, 8, 9, 16, 24, 32)
	pc := s.rng.PickInt(0, 0, 1, 1, 2, 3)
	st, err := capnp.NewStruct(s.seg(), capnp.ObjectSize{DataSize: capnp.Size(dsz), PointerCount: uint16(pc)})
	if err != nil {
		s.err = fmt.Errorf("NewStruct: %v", err)
		return
	}
	s.add(&obj{m: ref.NewStruct((dsz+7)/8, pc), st: st})
	s.logf("o%d=NewStruct(%d,%d)", len(s.objs)-1, dsz, pc)
}

func (s *script) newList() {
	n := s.rng.PickInt(0, 1, 1, 2, 3, 7, 8, 9, 17)
	if s.rng.Chance(1, 25) {
		// long lists: unset they are zero runs beyond the packing run
		// limit (255 words), set they are long literal runs
		n = s.rng.PickInt(255, 256, 257, 300, 520, 600, 2100)
	}
	seg := s.seg()
	var l capnp.List
	var err error
	var m *ref.V
	k := s.rng.Intn(10)
	switch k {
	case 0:
		l = capnp.NewVoidList(seg, int32(n)).List
		m = &ref.V{Kind: ref.KList, ET: ref.ETVoid, N: n}
	case 1:
		var x capnp.BitList
		x, err = capnp.NewBitList(seg, int32(n))
		l = x.List
		m = &ref.V{Kind: ref.KList, ET: ref.ETBit, N: n, Data: make([]byte, (n+7)/8)}
	case 2:
		var x capnp.UInt8List
		x, err = capnp.NewUInt8List(seg, int32(n))
		l = x.List
		m = ref.NewDataList(ref.ETByte1, n, make([]byte, n))
	case 3:
		var x capnp.Int16List
		x, err = capnp.NewInt16List(seg, int32(n))
		l = x.List
		m = ref.NewDataList(ref.ETByte2, n, make([]byte, 2*n))
	case 4:
		var x capnp.Float32List
		x, err = capnp.NewFloat32List(seg, int32(n))
		l = x.List
		m = ref.NewDataList(ref.ETByte4, n, make([]byte, 4*n))
	case 5:
		var x capnp.UInt64List
		x, err = capnp.NewUInt64List(seg, int32(n))
		l = x.List
		m = ref.NewDataList(ref.ETByte8, n, make([]byte, 8*n))
	case 6, 7:
		var x capnp.PointerList
		if s.rng.Bool() {
			x, err = capnp.NewPointerList(seg, int32(n))
		} else {
			var t capnp.TextList
			t, err = capnp.NewTextList(seg, int32(n))
			x = capnp.PointerList{List: t.List}
		}
		l = x.List
		el := make([]*ref.V, n)
		for i := range el {
			el[i] = ref.Null
		}
		m = ref.NewPtrList(el)
	default:
		dsz := s.rng.PickInt(0, 1, 8, 8, 12, 16)
		pc := s.rng.PickInt(0, 0, 1, 2)
		if n > 8 {
			n = 3
		}
		l, err = capnp.NewCompositeList(seg, capnp.ObjectSize{DataSize: capnp.Size(dsz), PointerCount: uint16(pc)}, int32(n))
		dw := (dsz + 7) / 8
		el := make([]*ref.V, n)
		for i := range el {
			el[i] = ref.NewStruct(dw, pc)
		}
		m = ref.NewComposite(dw, pc, el)
	}
	if err != nil {
		s.err = fmt.Errorf("new list kind %d: %v", k, err)
		return
	}
	s.add(&obj{m: m, ls: l, isList: true})
	s.logf("o%d=NewList(kind%d,n=%d)", len(s.objs)-1, k, n)
}

func (s *script) newTextOrData() {
	b := s.rng.Bytes(s.rng.PickInt(0, 1, 5, 7, 8, 9, 30))
	seg := s.seg()
	var l capnp.UInt8List
	var err error
	var m *ref.V
	switch s.rng.Intn(3) {
	case 0:
		l, err = capnp.NewText(seg, string(b))
		m = ref.NewText(string(b))
	case 1:
		l, err = capnp.NewTextFromBytes(seg, b)
		m = ref.NewText(string(b))
	default:
		l, err = capnp.NewData(seg, b)
		m = ref.NewBytes(b)
	}
	if err != nil {
		s.err = fmt.Errorf("NewText/Data: %v", err)
		return
	}
	s.add(&obj{m: m, ls: l.List, isList: true})
	s.logf("o%d=NewText/Data(%d bytes)", len(s.objs)-1, len(b))
}

// structTargets returns every struct that can be written through: standalone
// structs and elements of composite lists.
type swrite struct {
	st   capnp.Struct
	m    *ref.V
	cont *ref.V // containing object node (for cycle checks)
	name string
}

func (s *script) pickStruct() (swrite, bool) {
	var c []swrite
	for _, o := range s.objs {
		if !o.isList {
			c = append(c, swrite{o.st, o.m, o.m, fmt.Sprintf("o%d", o.id)})
		} else if o.m.ET == ref.ETComposite && o.m.N > 0 {
			j := s.rng.Intn(o.m.N)
			c = append(c, swrite{o.ls.Struct(j), o.m.Elems[j], o.m, fmt.Sprintf("o%d[%d]", o.id, j)})
		}
	}
	if len(c) == 0 {
		return swrite{}, false
	}
	return c[s.rng.Intn(len(c))], true
}

func (s *script) setData() {
	w, ok := s.pickStruct()
	if !ok || len(w.m.Data) == 0 {
		return
	}
	nd := len(w.m.Data)
	v := s.rng.Uint64()
	if s.rng.Chance(1, 4) {
		v = s.rng.PickU64(0, 1, 0xff, 0xffffffffffffffff, 1<<63)
	}
	switch s.rng.Intn(5) {
	case 0:
		off := s.rng.Intn(nd)
		w.st.SetUint8(capnp.DataOffset(off), uint8(v))
		w.m.Data[off] = uint8(v)
		s.logf("%s.SetUint8(%d)", w.name, off)
	case 1:
		off := s.rng.Intn(nd/2) * 2
		w.st.SetUint16(capnp.DataOffset(off), uint16(v))
		binary.LittleEndian.PutUint16(w.m.Data[off:], uint16(v))
		s.logf("%s.SetUint16(%d)", w.name, off)
	case 2:
		off := s.rng.Intn(nd/4) * 4
		w.st.SetUint32(capnp.DataOffset(off), uint32(v))
		binary.LittleEndian.PutUint32(w.m.Data[off:], uint32(v))
		s.logf("%s.SetUint32(%d)", w.name, off)
	case 3:
		off := s.rng.Intn(nd/8) * 8
		w.st.SetUint64(capnp.DataOffset(off), v)
		binary.LittleEndian.PutUint64(w.m.Data[off:], v)
		s.logf("%s.SetUint64(%d)", w.name, off)
	default:
		bit := s.rng.Intn(nd * 8)
		val := s.rng.Bool()
		w.st.SetBit(capnp.BitOffset(bit), val)
		if val {
			w.m.Data[bit/8] |= 1 << uint(bit%8)
		} else {
			w.m.Data[bit/8] &^= 1 << uint(bit%8)
		}
		s.logf("%s.SetBit(%d,%v)", w.name, bit, val)
	}
}

func (s *script) setListElem() {
	var c []*obj
	for _, o := range s.objs {
		if o.isList && o.m.N > 0 && o.m.ET >= ref.ETBit && o.m.ET <= ref.ETByte8 {
			c = append(c, o)
		}
	}
	if len(c) == 0 {
		return
	}
	o := c[s.rng.Intn(len(c))]
	i := s.rng.Intn(o.m.N)
	v := s.rng.Uint64()
	if o.m.ET == ref.ETByte8 && s.rng.Chance(1, 4) {
		// fill the whole list with words that have no zero byte (a literal
		// run for the packed encoding)
		for k := 0; k < o.m.N; k++ {
			w := s.rng.Uint64() | 0x0101010101010101
			capnp.UInt64List{List: o.ls}.Set(k, w)
			binary.LittleEndian.PutUint64(o.m.Data[8*k:], w)
		}
		s.logf("o%d.Fill()", o.id)
		return
	}
	switch o.m.ET {
	case ref.ETBit:
		val := v&1 == 1
		capnp.BitList{List: o.ls}.Set(i, val)
		if val {
			o.m.Data[i/8] |= 1 << uint(i%8)
		} else {
			o.m.Data[i/8] &^= 1 << uint(i%8)
		}
	case ref.ETByte1:
		if v&1 == 0 {
			capnp.UInt8List{List: o.ls}.Set(i, uint8(v>>8))
		} else {
			capnp.Int8List{List: o.ls}.Set(i, int8(v>>8))
		}
		o.m.Data[i] = uint8(v >> 8)
	case ref.ETByte2:
		if v&1 == 0 {
			capnp.UInt16List{List: o.ls}.Set(i, uint16(v>>8))
		} else {
			capnp.Int16List{List: o.ls}.Set(i, int16(v>>8))
		}
		binary.LittleEndian.PutUint16(o.m.Data[2*i:], uint16(v>>8))
	case ref.ETByte4:
		switch v % 3 {
		case 0:
			capnp.UInt32List{List: o.ls}.Set(i, uint32(v>>8))
		case 1:
			capnp.Int32List{List: o.ls}.Set(i, int32(v>>8))
		default:
			capnp.Float32List{List: o.ls}.Set(i, math.Float32frombits(uint32(v>>8)))
		}
		binary.LittleEndian.PutUint32(o.m.Data[4*i:], uint32(v>>8))
	case ref.ETByte8:
		switch v % 3 {
		case 0:
			capnp.UInt64List{List: o.ls}.Set(i, v)
		case 1:
			capnp.Int64List{List: o.ls}.Set(i, int64(v))
		default:
			capnp.Float64List{List: o.ls}.Set(i, math.Float64frombits(v))
		}
		binary.LittleEndian.PutUint64(o.m.Data[8*i:], v)
	}
	s.logf("o%d.Set(%d)", o.id, i)
}

// pickTarget chooses what a pointer will be set to.  It returns the library
// pointer and the model node the slot will then hold.
func (s *script) pickTarget(cont *ref.V) (capnp.Ptr, *ref.V, string) {
	switch s.rng.Intn(12) {
	case 0:
		return capnp.Ptr{}, ref.Null, "null"
	case 1:
		id := s.msg.AddCap(capnp.ErrorClient(errors.New("verif cap")))
		s.caps++
		return capnp.NewInterface(s.first, id).ToPtr(), ref.NewCap(uint32(id)), fmt.Sprintf("cap%d", id)
	case 2:
		// element of a composite list: copied on assignment
		var c []*obj
		for _, o := range s.objs {
			if o.isList && o.m.ET == ref.ETComposite && o.m.N > 0 && !reaches(o.m, cont) {
				c = append(c, o)
			}
		}
		if len(c) > 0 {
			o := c[s.rng.Intn(len(c))]
			j := s.rng.Intn(o.m.N)
			cp := o.m.Elems[j].Clone()
			return o.ls.Struct(j).ToPtr(), cp, fmt.Sprintf("copy(o%d[%d])", o.id, j)
		}
	}
	// an existing object (prefer never-linked ones; allow limited aliasing)
	var c []*obj
	for _, o := range s.objs {
		if o.links < 2 && (o.links == 0 || s.rng.Chance(1, 5)) && !reaches(o.m, cont) {
			c = append(c, o)
		}
	}
	if len(c) == 0 {
		return capnp.Ptr{}, ref.Null, "null"
	}
	o := c[s.rng.Intn(len(c))]
	o.links++
	if o.isList {
		return o.ls.ToPtr(), o.m, fmt.Sprintf("o%d", o.id)
	}
	return o.st.ToPtr(), o.m, fmt.Sprintf("o%d", o.id)
}

func (s *script) setPtr() {
	// destination: struct pointer field or pointer-list element
	if s.rng.Chance(1, 4) {
		var c []*obj
		for _, o := range s.objs {
			if o.isList && o.m.ET == ref.ETPtr && o.m.N > 0 {
				c = append(c, o)
			}
		}
		if len(c) > 0 {
			o := c[s.rng.Intn(len(c))]
			i := s.rng.Intn(o.m.N)
			p, m, name := s.pickTarget(o.m)
			if err := (capnp.PointerList{List: o.ls}).Set(i, p); err != nil {
				s.err = fmt.Errorf("PointerList.Set: %v", err)
				return
			}
			s.overwrite(o.m.Ptrs[i])
			o.m.Ptrs[i] = m
			s.logf("o%d[%d]=%s", o.id, i, name)
			return
		}
	}
	if s.rng.Chance(1, 6) {
		// pointer-list view of a struct list (the List(Text) -> List(struct) upgrade
		// seen from the old reader's side): Set writes the first pointer of element i
		var c []*obj
		for _, o := range s.objs {
			if o.isList && o.m.ET == ref.ETComposite && o.m.N > 0 && o.m.ElemPW > 0 {
				c = append(c, o)
			}
		}
		if len(c) > 0 {
			o := c[s.rng.Intn(len(c))]
			i := s.rng.Intn(o.m.N)
			if s.rng.Chance(1, 3) {
				b := s.rng.Bytes(s.rng.PickInt(1, 3, 8, 9))
				for k := range b {
					if b[k] == 0 {
						b[k] = 'y'
					}
				}
				if err := (capnp.TextList{List: o.ls}).Set(i, string(b)); err != nil {
					s.err = fmt.Errorf("TextList.Set over struct list: %v", err)
					return
				}
				s.overwrite(o.m.Elems[i].Ptrs[0])
				o.m.Elems[i].Ptrs[0] = ref.NewText(string(b))
				s.logf("o%d[%d].p0=text(%d) via TextList", o.id, i, len(b))
				return
			}
			p, m, name := s.pickTarget(o.m)
			if err := (capnp.PointerList{List: o.ls}).Set(i, p); err != nil {
				s.err = fmt.Errorf("PointerList.Set over struct list: %v", err)
				return
			}
			s.overwrite(o.m.Elems[i].Ptrs[0])
			o.m.Elems[i].Ptrs[0] = m
			s.logf("o%d[%d].p0=%s via PointerList", o.id, i, name)
			return
		}
	}
	w, ok := s.pickStruct()
	if !ok || len(w.m.Ptrs) == 0 {
		return
	}
	i := s.rng.Intn(len(w.m.Ptrs))
	switch s.rng.Intn(8) {
	case 0: // text helpers on the struct
		b := s.rng.Bytes(s.rng.PickInt(0, 0, 1, 7, 8, 20))
		for k := range b {
			if b[k] == 0 {
				b[k] = 'x'
			}
		}
		var err error
		var m *ref.V
		switch s.rng.Intn(4) {
		case 0:
			err = w.st.SetText(uint16(i), string(b))
			if len(b) == 0 {
				m = ref.Null
			} else {
				m = ref.NewText(string(b))
			}
		case 1:
			err = w.st.SetNewText(uint16(i), string(b))
			m = ref.NewText(string(b))
		case 2:
			if s.rng.Chance(1, 5) {
				err = w.st.SetTextFromBytes(uint16(i), nil)
				m = ref.Null
			} else {
				err = w.st.SetTextFromBytes(uint16(i), b)
				m = ref.NewText(string(b))
			}
		default:
			if s.rng.Chance(1, 5) {
				err = w.st.SetData(uint16(i), nil)
				m = ref.Null
			} else {
				err = w.st.SetData(uint16(i), b)
				m = ref.NewBytes(b)
			}
		}
		if err != nil {
			s.err = fmt.Errorf("SetText/Data: %v", err)
			return
		}
		s.overwrite(w.m.Ptrs[i])
		w.m.Ptrs[i] = m
		s.logf("%s.p%d=text/data(%d)", w.name, i, len(b))
	default:
		p, m, name := s.pickTarget(w.cont)
		if err := w.st.SetPtr(uint16(i), p); err != nil {
			s.err = fmt.Errorf("SetPtr: %v", err)
			return
		}
		s.overwrite(w.m.Ptrs[i])
		w.m.Ptrs[i] = m
		s.logf("%s.p%d=%s", w.name, i, name)
	}
}

// linkNew creates a new object and links it into a null pointer slot.
func (s *script) linkNew() {
	type slot struct {
		set  func(p capnp.Ptr) error
		put  func(m *ref.V)
		name string
	}
	var c []slot
	for _, o := range s.objs {
		o := o
		if !o.isList {
			for i, p := range o.m.Ptrs {
				if p.Kind == ref.KNull {
					i := i
					c = append(c, slot{func(p capnp.Ptr) error { return o.st.SetPtr(uint16(i), p) }, func(m *ref.V) { o.m.Ptrs[i] = m }, fmt.Sprintf("o%d.p%d", o.id, i)})
				}
			}
		} else if o.m.ET == ref.ETPtr {
			for i, p := range o.m.Ptrs {
				if p.Kind == ref.KNull {
					i := i
					c = append(c, slot{func(p capnp.Ptr) error { return capnp.PointerList{List: o.ls}.Set(i, p) }, func(m *ref.V) { o.m.Ptrs[i] = m }, fmt.Sprintf("o%d[%d]", o.id, i)})
				}
			}
		} else if o.m.ET == ref.ETComposite {
			for j, e := range o.m.Elems {
				for i, p := range e.Ptrs {
					if p.Kind == ref.KNull {
						i, j, e := i, j, e
						c = append(c, slot{func(p capnp.Ptr) error { return o.ls.Struct(j).SetPtr(uint16(i), p) }, func(m *ref.V) { e.Ptrs[i] = m }, fmt.Sprintf("o%d[%d].p%d", o.id, j, i)})
					}
				}
			}
		}
	}
	if len(c) == 0 {
		return
	}
	sl := c[s.rng.Intn(len(c))]
	n := len(s.objs)
	switch s.rng.Intn(3) {
	case 0:
		s.newStruct()
	case 1:
		s.newList()
	default:
		s.newTextOrData()
	}
	if s.err != nil || len(s.objs) == n {
		return
	}
	o := s.objs[n]
	var p capnp.Ptr
	if o.isList {
		p = o.ls.ToPtr()
	} else {
		p = o.st.ToPtr()
	}
	if err := sl.set(p); err != nil {
		s.err = fmt.Errorf("SetPtr: %v", err)
		return
	}
	o.links++
	sl.put(o.m)
	s.logf("%s=o%d", sl.name, o.id)
}

// overwrite notes that a slot's previous target may have become garbage.
func (s *script) overwrite(old *ref.V) {
	if old != nil && old.Kind != ref.KNull && old.Kind != ref.KCap {
		s.garbage = true
	}
}

func (s *script) setRoot() {
	var c []*obj
	for _, o := range s.objs {
		if !o.isList {
			c = append(c, o)
		}
	}
	if len(c) == 0 {
		return
	}
	o := c[s.rng.Intn(len(c))]
	if err := s.msg.SetRoot(o.st.ToPtr()); err != nil {
		s.err = fmt.Errorf("SetRoot: %v", err)
		return
	}
	if s.root != nil {
		s.garbage = true
	}
	o.links++
	s.root = o.m
	s.logf("root=o%d", o.id)
}

// checkAll compares every object through its own handle and the whole tree
// from the root.
func (s *script) checkAll() *walk.Mismatch {
	s.msg.ResetReadLimit(1 << 40)
	for _, o := range s.objs {
		g := walk.NewGuided()
		g.Budget = 200000
		var m *walk.Mismatch
		if o.isList {
			m = g.Ptr(o.ls.ToPtr(), o.m, fmt.Sprintf("o%d", o.id), 1)
		} else {
			m = g.Ptr(o.st.ToPtr(), o.m, fmt.Sprintf("o%d", o.id), 1)
		}
		if m != nil {
			return m
		}
	}
	if s.root != nil {
		r, err := s.msg.Root()
		if err != nil {
			return &walk.Mismatch{Path: "root", API: "Message.Root", Msg: err.Error()}
		}
		g := walk.NewGuided()
		g.Budget = 400000
		return g.Ptr(r, s.root, "root", 1)
	}
	return nil
}

// runBuilder: C04 (read-back equals model, nothing disturbed, all
// serialisation paths) and C05 (strict reference decode of the output).
func runBuilder(cfg *common.Config, rec *common.Recorder, idx uint64, rng *common.RNG) {
	arena, aname := newArena(rng)
	if idx%500 == 0 {
		rec.Case(idx, "builder arena="+aname)
	} else {
		rec.CaseQuiet(idx)
	}
	s := &script{rng: rng, clean: rng.Chance(1, 3)}
	input := func() interface{} {
		return map[string]interface{}{"arena": aname, "ops": s.ops}
	}
	var mis *walk.Mismatch
	var stage string
	nops := rng.PickInt(5, 10, 20, 40, 80, 200)
	p := common.Guard(func() {
		msg, first, err := capnp.NewMessage(arena)
		if err != nil {
			s.err = fmt.Errorf("NewMessage: %v", err)
			return
		}
		s.msg, s.first = msg, first
		stage = "build"
		if s.clean {
			// clean script: the root first, every later object is created
			// and linked into a null slot at once, no pointer is ever
			// overwritten -> no garbage, no orphans, so every byte outside
			// the reachable objects must still be zero.
			s.newStruct()
			s.setRoot()
		}
		for k := 0; k < nops && s.err == nil; k++ {
			if s.clean {
				switch r := rng.Intn(10); {
				case r < 6:
					s.linkNew()
				case r < 8:
					s.setData()
				default:
					s.setListElem()
				}
				continue
			}
			switch r := rng.Intn(22); {
			case r >= 20:
				s.copyStructOp()
			case r < 3:
				s.newStruct()
			case r < 6:
				s.newList()
			case r < 8:
				s.newTextOrData()
			case r < 11:
				s.setData()
			case r < 13:
				s.setListElem()
			case r < 18:
				s.setPtr()
			default:
				s.setRoot()
			}
			if s.err == nil && rng.Chance(1, 15) && cfg.Prop == "C04" {
				if mis = s.checkAll(); mis != nil {
					stage = "checkpoint"
					return
				}
			}
		}
		if s.err != nil {
			return
		}
		if s.root == nil {
			s.newStruct()
			s.setRoot()
			if s.err != nil {
				return
			}
		}
		stage = "final-readback"
		if cfg.Prop == "C04" {
			// C05 judges only the serialised bytes (with an independent
			// decoder), so it must not stop at a read-back mismatch.
			if mis = s.checkAll(); mis != nil {
				return
			}
		}
	})
	rec.Count("arena_"+aname[:4], 1)
	rec.Count("builder_ops", int64(len(s.ops)))
	if p != nil {
		rec.Violate("panic/"+common.TopLibFrame(p.Stack)+"/builder", "panic in builder API on legal use: "+p.Value, idx, p.Stack, input())
		return
	}
	if s.err != nil {
		rec.Violate("builder-error/"+firstWord(s.err.Error()), "builder call failed on legal use: "+s.err.Error(), idx, "", input())
		return
	}
	if mis != nil {
		if cfg.Prop == "C04" {
			rec.Violate("readback/"+stage+"/"+firstAPI(mis.API), "value read back differs from what was written: "+mis.Error(), idx, mis.Error(), input())
		}
		return
	}
	rec.Distinct(common.HashString(fmt.Sprint(aname, s.ops)))

	// Serialisation
	var data []byte
	p = common.Guard(func() {
		var err error
		data, err = s.msg.Marshal()
		if err != nil {
			s.err = err
		}
	})
	if p != nil || s.err != nil {
		rec.Violate("marshal-failed", fmt.Sprintf("Marshal failed on a message built through the API: %v %v", p, s.err), idx, "", input())
		return
	}
	segs, used, err := ref.ParseStream(data)
	if cfg.Prop == "C05" {
		c05(rec, idx, s, data, segs, used, err, input)
	} else {
		c04paths(rec, idx, s, data, rng, input)
	}
	if rec.WantSample() {
		rec.Sample(map[string]interface{}{"arena": aname, "ops": s.ops, "marshalled_bytes": len(data)})
	}
	if rng.Chance(1, 3) && s.caps == 0 && len(s.root.Ptrs) > 0 && rec.NumViolations() == 0 {
		phase2(cfg, rec, idx, s, data, rng, input)
	}
	// release capability table entries
	s.msg.Reset(nil)
}

// copyStructOp: Struct.CopyFrom / List.SetStruct inside the message (deep
// copy with the documented version rule: the destination keeps its section
// sizes).
func (s *script) copyStructOp() {
	dst, ok := s.pickStruct()
	if !ok {
		return
	}
	src, ok := s.pickStruct()
	if !ok || src.m == dst.m || reaches(src.m, dst.cont) || reaches(src.m, dst.m) {
		return
	}
	expect := adaptTop(src.m, len(dst.m.Data)/8, len(dst.m.Ptrs))
	if expect.HasCap() {
		return
	}
	if err := dst.st.CopyFrom(src.st); err != nil {
		s.err = fmt.Errorf("Struct.CopyFrom: %v", err)
		return
	}
	for _, p := range dst.m.Ptrs {
		s.overwrite(p)
	}
	dst.m.Data = expect.Data
	dst.m.Ptrs = expect.Ptrs
	s.logf("%s.CopyFrom(%s)", dst.name, src.name)
}

// phase2: keep building on the *decoded* copy of the message (an arena that
// already holds data): new objects are allocated and linked into the root's
// pointer slots, then the message is marshalled again and judged like the
// first time.
func phase2(cfg *common.Config, rec *common.Recorder, idx uint64, s *script, data []byte, rng *common.RNG, input func() interface{}) {
	model := s.root.Clone()
	var ops []string
	var data2 []byte
	var stepErr error
	via := "Unmarshal"
	p := common.Guard(func() {
		buf := append([]byte(nil), data...)
		var m2 *capnp.Message
		var err error
		if rng.Bool() {
			m2, err = capnp.Unmarshal(buf)
		} else {
			via = "Decoder"
			m2, err = capnp.NewDecoder(bytes.NewReader(buf)).Decode()
		}
		if err != nil {
			stepErr = fmt.Errorf("%s: %v", via, err)
			return
		}
		m2.TraverseLimit = 1 << 40
		rp, err := m2.Root()
		if err != nil {
			stepErr = fmt.Errorf("Root: %v", err)
			return
		}
		root := rp.Struct()
		for k := rng.Range(1, 3); k > 0; k-- {
			i := rng.Intn(len(model.Ptrs))
			switch rng.Intn(3) {
			case 0:
				txt := string(rng.Bytes(rng.PickInt(1, 7, 8, 40)))
				if err := root.SetNewText(uint16(i), txt); err != nil {
					stepErr = fmt.Errorf("SetNewText on decoded message: %v", err)
					return
				}
				model.Ptrs[i] = ref.NewText(txt)
				ops = append(ops, fmt.Sprintf("root.p%d=text(%d)", i, len(txt)))
			case 1:
				st, err := capnp.NewStruct(root.Segment(), capnp.ObjectSize{DataSize: 16, PointerCount: 1})
				if err != nil {
					stepErr = fmt.Errorf("NewStruct on decoded message: %v", err)
					return
				}
				v := rng.Uint64()
				st.SetUint64(8, v)
				if err := root.SetPtr(uint16(i), st.ToPtr()); err != nil {
					stepErr = fmt.Errorf("SetPtr on decoded message: %v", err)
					return
				}
				n := ref.NewStruct(2, 1)
				binary.LittleEndian.PutUint64(n.Data[8:], v)
				model.Ptrs[i] = n
				ops = append(ops, fmt.Sprintf("root.p%d=NewStruct(16,1)", i))
			default:
				l, err := capnp.NewUInt32List(root.Segment(), 5)
				if err != nil {
					stepErr = fmt.Errorf("NewUInt32List on decoded message: %v", err)
					return
				}
				l.Set(4, 0xfeedface)
				if err := root.SetPtr(uint16(i), l.ToPtr()); err != nil {
					stepErr = fmt.Errorf("SetPtr on decoded message: %v", err)
					return
				}
				d := make([]byte, 20)
				binary.LittleEndian.PutUint32(d[16:], 0xfeedface)
				model.Ptrs[i] = ref.NewDataList(ref.ETByte4, 5, d)
				ops = append(ops, fmt.Sprintf("root.p%d=UInt32List(5)", i))
			}
		}
		if cfg.Prop == "C04" {
			m2.ResetReadLimit(1 << 40)
			g := walk.NewGuided()
			g.Budget = 400000
			if r2, err := m2.Root(); err != nil {
				stepErr = fmt.Errorf("Root after building on decoded message: %v", err)
				return
			} else if mis := g.Ptr(r2, model, "root", 1); mis != nil {
				stepErr = fmt.Errorf("readback: %s", mis.Error())
				return
			}
		}
		data2, err = m2.Marshal()
		if err != nil {
			stepErr = fmt.Errorf("Marshal after building on decoded message: %v", err)
		}
	})
	rec.Count("phase2_decoded_then_built", 1)
	in := func() interface{} {
		m := input().(map[string]interface{})
		m["phase2"] = ops
		m["phase2_via"] = via
		return m
	}
	if p != nil {
		rec.Violate("panic/"+common.TopLibFrame(p.Stack)+"/build-on-decoded", "panic while building on a decoded message: "+p.Value, idx, p.Stack, in())
		return
	}
	if stepErr != nil {
		rec.Violate("build-on-decoded/"+firstWord(stepErr.Error()), "building on a decoded message failed: "+stepErr.Error(), idx, "", in())
		return
	}
	segs, used, err := ref.ParseStream(data2)
	if err != nil || used != len(data2) {
		rec.Violate("build-on-decoded/framing", "output of a decoded-then-extended message does not parse", idx, "", in())
		return
	}
	dec := ref.NewDecoder(segs, true)
	got, derr := dec.Root()
	if derr != nil {
		rec.Violate("build-on-decoded/strict-decode", "independent decoder rejects a decoded-then-extended message: "+derr.Error(), idx, "", in())
		return
	}
	if ov := dec.Overlaps(); ov != "" {
		rec.Violate("build-on-decoded/overlap", "objects overlap in a decoded-then-extended message: "+ov, idx, "", in())
		return
	}
	if !ref.Identical(got, model) {
		rec.Violate("build-on-decoded/tree-differs", "decoded-then-extended message decodes to a different tree: "+ref.Diff(got, model), idx, "", in())
		return
	}
	rec.Count("phase2_ok", 1)
}

func firstWord(s string) string {
	for i := 0; i < len(s); i++ {
		if s[i] == ':' {
			return s[:i]
		}
	}
	return s
}

// c05: the serialised bytes are valid Cap'n Proto for an independent reader.
func c05(rec *common.Recorder, idx uint64, s *script, data []byte, segs [][]byte, used int, err error, input func() interface{}) {
	viol := func(sig, what string) {
		in := input().(map[string]interface{})
		in["bytes"] = common.Hex(data)
		rec.Violate(sig, what, idx, "", in)
	}
	if err != nil {
		viol("framing/unparseable", "segment table does not parse: "+err.Error())
		return
	}
	if used != len(data) {
		viol("framing/trailing-bytes", fmt.Sprintf("segment table accounts for %d of %d bytes", used, len(data)))
		return
	}
	if int64(len(segs)) != s.msg.NumSegments() {
		viol("framing/segment-count", fmt.Sprintf("table has %d segments, message has %d", len(segs), s.msg.NumSegments()))
		return
	}
	for i := range segs {
		sg, err := s.msg.Segment(capnp.SegmentID(i))
		if err != nil || !bytes.Equal(sg.Data(), segs[i]) {
			viol("framing/segment-bytes", fmt.Sprintf("segment %d in the stream differs from the message's segment", i))
			return
		}
	}
	dec := ref.NewDecoder(segs, true)
	got, derr := dec.Root()
	if derr != nil {
		viol("strict-decode/"+firstWord(derr.Error()), "independent strict decoder rejects the message: "+derr.Error())
		return
	}
	if ov := dec.Overlaps(); ov != "" {
		viol("overlap", "distinct objects overlap: "+ov)
		return
	}
	if !ref.Identical(got, s.root) {
		viol("decoded-tree-differs", "independent decoder reconstructs a different tree: "+ref.Diff(got, s.root))
		return
	}
	if !s.garbage {
		allLinked := true
		for _, o := range s.objs {
			hasStorage := o.m.Footprint() > 0 || (o.m.Kind == ref.KList && o.m.ET == ref.ETComposite)
			if o.m != s.root && o.links == 0 && hasStorage {
				allLinked = false
			}
		}
		if allLinked {
			rec.Count("zero_fill_checked", 1)
			if un := dec.Uncovered(); un != "" {
				viol("nonzero-outside-objects", "storage outside every reachable object is not zero: "+un)
				return
			}
		}
	}
	countStats(rec, dec.Stats)
	rec.Count("messages_strictly_decoded", 1)
	rec.Count(fmt.Sprintf("nsegs_%d", min(len(segs), 9)), 1)
}

func min(a, b int) int {
	if a < b {
		return a
	}
	return b
}

// c04paths: the same tree is obtained after every serialisation path for
// any chunking of the byte stream.
func c04paths(rec *common.Recorder, idx uint64, s *script, data []byte, rng *common.RNG, input func() interface{}) {
	check := func(name string, m *capnp.Message, err error) bool {
		if err != nil {
			rec.Violate("roundtrip/"+name+"/error", name+" failed on library-produced bytes: "+err.Error(), idx, "", input())
			return false
		}
		m.TraverseLimit = 1 << 40
		r, err := m.Root()
		if err != nil {
			rec.Violate("roundtrip/"+name+"/root", name+": Root failed: "+err.Error(), idx, "", input())
			return false
		}
		g := walk.NewGuided()
		g.Budget = 400000
		if mis := g.Ptr(r, s.root, "root", 1); mis != nil {
			rec.Violate("roundtrip/"+name+"/"+firstAPI(mis.API), name+" yields a different tree: "+mis.Error(), idx, mis.Error(), input())
			return false
		}
		rec.Count("roundtrip_"+name, 1)
		return true
	}
	p := common.Guard(func() {
		m, err := capnp.Unmarshal(data)
		if !check("Unmarshal", m, err) {
			return
		}
		pk, err := s.msg.MarshalPacked()
		if err != nil {
			rec.Violate("roundtrip/MarshalPacked/error", "MarshalPacked failed: "+err.Error(), idx, "", input())
			return
		}
		m, err = capnp.UnmarshalPacked(pk)
		if !check("UnmarshalPacked", m, err) {
			return
		}
		// Encoder -> Decoder over a chunked reader; two messages back to back
		var buf bytes.Buffer
		enc := capnp.NewEncoder(&buf)
		if err := enc.Encode(s.msg); err != nil {
			rec.Violate("roundtrip/Encoder/error", "Encode failed: "+err.Error(), idx, "", input())
			return
		}
		if err := enc.Encode(s.msg); err != nil {
			rec.Violate("roundtrip/Encoder/error", "second Encode failed: "+err.Error(), idx, "", input())
			return
		}
		if !bytes.Equal(buf.Bytes()[:len(data)], data) || !bytes.Equal(buf.Bytes()[len(data):], data) {
			rec.Violate("roundtrip/Encoder/bytes-differ-from-Marshal", "Encoder output differs from Marshal output", idx, "", input())
			return
		}
		dec := capnp.NewDecoder(&chunkReader{b: buf.Bytes(), rng: rng})
		if rng.Bool() {
			dec.ReuseBuffer()
		}
		for k := 0; k < 2; k++ {
			m, err = dec.Decode()
			if !check("Decoder", m, err) {
				return
			}
		}
		if _, err := dec.Decode(); err != errEOF {
			rec.Violate("roundtrip/Decoder/no-eof", fmt.Sprintf("Decoder did not report io.EOF at the end of the stream: %v", err), idx, "", input())
			return
		}
		buf.Reset()
		penc := capnp.NewPackedEncoder(&buf)
		if err := penc.Encode(s.msg); err != nil {
			rec.Violate("roundtrip/PackedEncoder/error", "packed Encode failed: "+err.Error(), idx, "", input())
			return
		}
		pdec := capnp.NewPackedDecoder(&chunkReader{b: buf.Bytes(), rng: rng})
		m, err = pdec.Decode()
		if !check("PackedDecoder", m, err) {
			return
		}
	})
	if p != nil {
		rec.Violate("panic/"+common.TopLibFrame(p.Stack)+"/roundtrip", "panic in a serialisation path: "+p.Value, idx, p.Stack, input())
	}
}
