package main

import (
	"bytes"
	"errors"
	"fmt"

	capnp "capnproto.org/go/capnp/v3"
	"capnproto.org/go/capnp/v3/zverif/common"
	"capnproto.org/go/capnp/v3/zverif/ref"
)

func init() {
	modes["equal"] = runEqual
	modes["canon"] = runCanon
}

// load presents a reference-encoded value and returns its root pointer.
func load(segs [][]byte) (capnp.Ptr, *capnp.Message, error) {
	g := guard(segs)
	msg := &capnp.Message{Arena: capnp.MultiSegment(g.segs), TraverseLimit: 1 << 40}
	p, err := msg.Root()
	return p, msg, err
}

func triName(t ref.Tri) string { return []string{"false", "true", "unspecified"}[t] }

// pairClass describes the kinds of the two values (for signatures).
func pairClass(a, b *ref.V) string {
	c := func(v *ref.V) string {
		switch v.Kind {
		case ref.KNull:
			return "null"
		case ref.KStruct:
			return "struct"
		case ref.KCap:
			return "cap"
		}
		return fmt.Sprintf("list%d", v.ET)
	}
	x, y := c(a), c(b)
	if x > y {
		x, y = y, x
	}
	return x + "-" + y
}

// firstDiffClass finds the kinds of the first sub-values at which two trees
// that are supposed to be unequal/equal actually differ in the reference's
// eyes; used to make signatures specific (e.g. list1-list1 for bit lists).
func firstDiffClass(a, b *ref.V) string {
	if a.Kind != b.Kind {
		return pairClass(a, b)
	}
	switch a.Kind {
	case ref.KStruct:
		for i := 0; i < len(a.Ptrs) && i < len(b.Ptrs); i++ {
			if ref.Equal(a.Ptrs[i], b.Ptrs[i], true) != ref.Yes {
				return firstDiffClass(a.Ptrs[i], b.Ptrs[i])
			}
		}
	case ref.KList:
		if a.ET == ref.ETPtr && b.ET == ref.ETPtr && a.N == b.N {
			for i := range a.Ptrs {
				if ref.Equal(a.Ptrs[i], b.Ptrs[i], true) != ref.Yes {
					return firstDiffClass(a.Ptrs[i], b.Ptrs[i])
				}
			}
		}
		if a.ET == ref.ETComposite && b.ET == ref.ETComposite && a.N == b.N {
			for i := range a.Elems {
				if ref.Equal(a.Elems[i], b.Elems[i], true) != ref.Yes {
					return firstDiffClass(a.Elems[i], b.Elems[i])
				}
			}
		}
	}
	return pairClass(a, b)
}

// runEqual: C17.
func runEqual(cfg *common.Config, rec *common.Recorder, idx uint64, rng *common.RNG) {
	if idx%2000 == 0 {
		rec.Case(idx, "equal")
	} else {
		rec.CaseQuiet(idx)
	}
	if idx%64 == 0 {
		equalCaps(rec, idx, rng)
	}
	o := ref.GenOpts{Budget: rng.PickInt(3, 8, 20, 40), NoVoidBig: true}
	sameMsg := rng.Chance(1, 3)
	o.Caps = sameMsg
	var a, b *ref.V
	kind := ""
	switch rng.Intn(8) {
	case 0, 1: // re-encoding in another layout (sections resized, lists upgraded)
		a = ref.GenValue(rng, o)
		b = ref.Relayout(rng, a, true)
		kind = "relayout"
	case 2, 3: // one-leaf mutation
		a = ref.GenValue(rng, o)
		var what string
		b, what = ref.MutateLeaf(rng, a)
		if b == nil {
			b = a.Clone()
			what = "none"
		}
		if rng.Bool() {
			b = ref.Relayout(rng, b, true)
		}
		kind = "mutate-" + what
	case 4: // lists of the same length and different element kinds
		n := rng.PickInt(0, 1, 3, 8, 9)
		a, b = listOfKind(rng, rng.Intn(8), n), listOfKind(rng, rng.Intn(8), n)
		kind = "list-kinds"
	case 5: // bit lists that differ in exactly one bit / equal bit lists / void vs bit
		n := rng.PickInt(1, 7, 8, 9, 64, 65)
		a = listOfKind(rng, ref.ETBit, n)
		b = a.Clone()
		switch rng.Intn(3) {
		case 0:
			i := rng.Intn(n)
			b.Data[i/8] ^= 1 << uint(i%8)
		case 1:
			b = &ref.V{Kind: ref.KList, ET: ref.ETVoid, N: n}
		}
		kind = "bitlists"
	case 6: // primitive list vs struct list holding the same values
		et := rng.PickInt(ref.ETVoid, ref.ETByte1, ref.ETByte2, ref.ETByte4, ref.ETByte8, ref.ETPtr)
		a = listOfKind(rng, et, rng.PickInt(0, 1, 3, 8))
		b = ref.Relayout(rng, a, true)
		if rng.Chance(1, 3) && b.ET == ref.ETComposite && b.N > 0 && b.ElemDW > 0 {
			// poison a byte beyond the primitive value: must become unequal
			e := b.Elems[rng.Intn(b.N)]
			e.Data[len(e.Data)-1] ^= 0x80
		}
		kind = "upgrade"
	default:
		a = ref.GenAny(rng, o)
		b = ref.GenAny(rng, o)
		kind = "random-pair"
	}
	want := ref.Equal(a, b, sameMsg)
	rec.Count("pairs_"+kind, 1)
	rec.Count("expect_"+triName(want), 1)
	rec.Count("class_"+pairClass(a, b), 1)

	var segsA, segsB [][]byte
	var pa, pb capnp.Ptr
	var err error
	input := map[string]interface{}{"a": a.String(), "b": b.String(), "kind": kind, "same_message": sameMsg}
	if sameMsg {
		root := ref.NewStruct(0, 2)
		root.Ptrs[0], root.Ptrs[1] = a, b
		segsA = ref.RandomPlan(rng).Encode(root)
		input["segments"] = common.SegsHex(segsA)
		var r capnp.Ptr
		r, _, err = load(segsA)
		if err == nil {
			pa, err = r.Struct().Ptr(0)
		}
		if err == nil {
			pb, err = r.Struct().Ptr(1)
		}
	} else {
		wrap := func(v *ref.V) [][]byte {
			root := ref.NewStruct(0, 1)
			root.Ptrs[0] = v
			return ref.RandomPlan(rng).Encode(root)
		}
		segsA, segsB = wrap(a), wrap(b)
		input["segments_a"], input["segments_b"] = common.SegsHex(segsA), common.SegsHex(segsB)
		var ra, rb capnp.Ptr
		ra, _, err = load(segsA)
		if err == nil {
			rb, _, err = load(segsB)
		}
		if err == nil {
			pa, err = ra.Struct().Ptr(0)
		}
		if err == nil {
			pb, err = rb.Struct().Ptr(0)
		}
	}
	if err != nil {
		rec.Inconclusive("equal: could not load a reference-encoded value: " + err.Error())
		return
	}
	rec.Distinct(common.Hash64(append(append([][]byte{}, segsA...), segsB...)...))

	var ab, ba, aa, bb bool
	var e1, e2, e3, e4 error
	p := common.Guard(func() {
		ab, e1 = capnp.Equal(pa, pb)
		ba, e2 = capnp.Equal(pb, pa)
		aa, e3 = capnp.Equal(pa, pa)
		bb, e4 = capnp.Equal(pb, pb)
	})
	if p != nil {
		rec.Violate("panic/"+common.TopLibFrame(p.Stack)+"/equal", "panic in Equal on valid messages: "+p.Value, idx, p.Stack, input)
		return
	}
	for _, e := range []error{e1, e2, e3, e4} {
		if e != nil {
			rec.Violate("equal-error", "Equal returned an error on valid messages: "+e.Error(), idx, "", input)
			return
		}
	}
	cls := firstDiffClass(a, b)
	if !aa || !bb {
		rec.Violate("not-reflexive/"+pairClass(a, a), "Equal(x,x) is false", idx, "", input)
		return
	}
	if ab != ba {
		rec.Violate("not-symmetric/"+cls, fmt.Sprintf("Equal(a,b)=%v but Equal(b,a)=%v", ab, ba), idx, "", input)
		return
	}
	if want != ref.Unspecified && ab != (want == ref.Yes) {
		rec.Violate(fmt.Sprintf("wrong-answer/%s/want-%s", cls, triName(want)), fmt.Sprintf("Equal(a,b)=%v, documented rules give %s (%s)", ab, triName(want), kind), idx, "", input)
		return
	}
	// a value always equals its deep copy
	if rng.Chance(1, 4) && pa.IsValid() {
		var eq bool
		var cerr error
		p := common.Guard(func() {
			dst, seg, _ := capnp.NewMessage(capnp.MultiSegment(nil))
			holder, err := capnp.NewRootStruct(seg, capnp.ObjectSize{PointerCount: 1})
			if err != nil {
				cerr = err
				return
			}
			if cerr = holder.SetPtr(0, pa); cerr != nil {
				return
			}
			cp, err := holder.Ptr(0)
			if err != nil {
				cerr = err
				return
			}
			_ = dst
			eq, cerr = capnp.Equal(pa, cp)
		})
		rec.Count("deep_copy_compared", 1)
		if p != nil {
			rec.Violate("panic/"+common.TopLibFrame(p.Stack)+"/equal-copy", "panic comparing a value with its deep copy: "+p.Value, idx, p.Stack, input)
			return
		}
		if cerr == nil && !eq && !a.HasCap() {
			rec.Violate("copy-not-equal/"+pairClass(a, a), "a value is not Equal to its deep copy", idx, "", input)
			return
		}
	}
	if rec.WantSample() {
		rec.Sample(map[string]interface{}{"a": a.String(), "b": b.String(), "kind": kind, "expected": triName(want), "got": ab})
	}
}

func listOfKind(rng *common.RNG, et, n int) *ref.V {
	switch et {
	case ref.ETVoid:
		return &ref.V{Kind: ref.KList, ET: ref.ETVoid, N: n}
	case ref.ETBit:
		b := rng.Bytes((n + 7) / 8)
		if n%8 != 0 {
			b[len(b)-1] &= byte(1<<uint(n%8)) - 1
		}
		return &ref.V{Kind: ref.KList, ET: ref.ETBit, N: n, Data: b[:(n+7)/8]}
	case ref.ETPtr:
		el := make([]*ref.V, n)
		for i := range el {
			if rng.Bool() {
				el[i] = ref.NewText(string(rng.Bytes(rng.Intn(5))))
			} else {
				el[i] = ref.Null
			}
		}
		return ref.NewPtrList(el)
	case ref.ETComposite:
		dw, pw := rng.Range(0, 2), rng.Range(0, 1)
		el := make([]*ref.V, n)
		for i := range el {
			e := ref.NewStruct(dw, pw)
			copy(e.Data, rng.Bytes(dw*8))
			el[i] = e
		}
		return ref.NewComposite(dw, pw, el)
	default:
		return ref.NewDataList(et, n, rng.Bytes(n * ref.ElemBytes(et))[:n*ref.ElemBytes(et)])
	}
}

// ---------------------------------------------------------------------------
// C18: canonical form

func runCanon(cfg *common.Config, rec *common.Recorder, idx uint64, rng *common.RNG) {
	if idx%2000 == 0 {
		rec.Case(idx, "canon")
	} else {
		rec.CaseQuiet(idx)
	}
	withCap := rng.Chance(1, 12)
	o := ref.GenOpts{Budget: rng.PickInt(3, 10, 25, 50), NoVoidBig: true, Caps: withCap}
	v := ref.GenValue(rng, o)
	if withCap && !v.HasCap() {
		withCap = false
	}
	want, _ := ref.Canonical(v)
	input := map[string]interface{}{"value": v.String()}
	rec.Count("values", 1)
	if withCap {
		rec.Count("values_with_caps", 1)
	}
	shape := func(x *ref.V) {
		if x.Kind == ref.KList && x.ET == ref.ETComposite {
			if x.ElemPW == 0 {
				rec.Count("composite_data_only", 1)
			} else {
				rec.Count("composite_with_ptrs", 1)
			}
		}
	}
	var visit func(x *ref.V)
	visit = func(x *ref.V) {
		shape(x)
		for _, c := range x.Ptrs {
			visit(c)
		}
		for _, c := range x.Elems {
			visit(c)
		}
	}
	visit(v)
	rec.Distinct(common.Hash64(want, []byte(v.String())))
	for layout := 0; layout < 4; layout++ {
		phys := v
		if layout > 0 {
			phys = ref.Relayout(rng, v, false)
		}
		segs := ref.RandomPlan(rng).Encode(phys)
		input["segments"] = common.SegsHex(segs)
		input["layout"] = layout
		root, _, err := load(segs)
		if err != nil {
			rec.Inconclusive("canon: could not load a reference-encoded value: " + err.Error())
			return
		}
		var got []byte
		var cerr error
		p := common.Guard(func() { got, cerr = capnp.Canonicalize(root.Struct()) })
		rec.Count("canonicalize_calls", 1)
		if p != nil {
			rec.Violate("panic/"+common.TopLibFrame(p.Stack)+"/canonicalize", "panic in Canonicalize on a valid message: "+p.Value, idx, p.Stack, input)
			return
		}
		if withCap {
			if cerr == nil {
				rec.Violate("capability-accepted", "Canonicalize accepted a struct containing a capability", idx, "", input)
				return
			}
			continue
		}
		if cerr != nil {
			rec.Violate("canonicalize-error", "Canonicalize failed on a capability-free valid struct: "+cerr.Error(), idx, "", input)
			return
		}
		if m := heldCanonCheck(got); m != "" {
			rec.Violate("canonical-result-changed-by-later-call", m, idx, "", input)
			return
		}
		if !bytes.Equal(got, want) {
			input["got"], input["want"] = common.Hex(got), common.Hex(want)
			// classify: is the output at least a valid encoding of the value?
			cls := "layout-not-canonical"
			dv, derr := ref.NewDecoder([][]byte{got}, true).Root()
			if derr != nil {
				cls = "invalid-encoding"
			} else if ref.Equal(dv, v, false) != ref.Yes {
				cls = "value-changed"
			}
			rec.Violate("canonical-bytes-differ/"+cls, fmt.Sprintf("Canonicalize output differs from the spec's canonical form (layout %d)", layout), idx, "", input)
			return
		}
		// canonicalising the canonical message returns it unchanged
		if layout == 0 {
			cr, _, err := load([][]byte{got})
			if err != nil {
				rec.Violate("canonical-unreadable", "canonical message cannot be read back: "+err.Error(), idx, "", input)
				return
			}
			var again []byte
			p := common.Guard(func() { again, cerr = capnp.Canonicalize(cr.Struct()) })
			if p != nil || cerr != nil || !bytes.Equal(again, got) {
				rec.Violate("not-idempotent", fmt.Sprintf("Canonicalize(canonical) != canonical (%v %v)", p, cerr), idx, "", input)
				return
			}
			rec.Count("idempotence_checked", 1)
		}
	}
	if rec.WantSample() {
		rec.Sample(map[string]interface{}{"value": v.String(), "canonical": common.Hex(want)})
	}
	if rng.Chance(1, 3) {
		canonElemViews(rec, idx, rng)
	}
}

// heldCanon keeps the last few results of Canonicalize together with a private
// snapshot taken when they were returned: the caller owns a result; a later
// call (here: later cases of the same process) must not change it.
var heldCanon []struct{ res, snap []byte }

func heldCanonCheck(latest []byte) string {
	msg := ""
	for i, h := range heldCanon {
		if !bytes.Equal(h.res, h.snap) {
			msg = fmt.Sprintf("the result of an earlier Canonicalize call (%d calls ago, %d bytes) changed after later calls: was %s, is now %s", len(heldCanon)-i, len(h.snap), common.Hex(h.snap), common.Hex(h.res))
			break
		}
	}
	if msg != "" {
		heldCanon = nil
	}
	if len(latest) > 0 {
		if len(heldCanon) >= 6 {
			heldCanon = heldCanon[1:]
		}
		heldCanon = append(heldCanon, struct{ res, snap []byte }{latest, append([]byte(nil), latest...)})
	}
	return msg
}

// canonElemViews: "any capability-free struct" includes the struct view of a
// list element (List.Struct(i)), whose data section is 0, 1, 2, 4 or 8 bytes
// for primitive lists (the documented list upgrade rule).  Its canonical form
// is that of a struct holding the element as its first field.
func canonElemViews(rec *common.Recorder, idx uint64, rng *common.RNG) {
	et := []int{ref.ETVoid, ref.ETByte1, ref.ETByte2, ref.ETByte4, ref.ETByte8, ref.ETPtr, ref.ETComposite}[rng.Intn(7)]
	n := 1 + rng.Intn(5)
	var lv *ref.V
	exp := make([]*ref.V, n)
	switch et {
	case ref.ETVoid:
		lv = ref.NewDataList(et, n, nil)
		for i := range exp {
			exp[i] = ref.NewStruct(0, 0)
		}
	case ref.ETPtr:
		el := make([]*ref.V, n)
		for i := range el {
			switch rng.Intn(3) {
			case 0:
				el[i] = ref.Null
			case 1:
				el[i] = ref.NewText(fmt.Sprintf("t%d", rng.Intn(1000)))
			default:
				c := ref.NewStruct(1, 0)
				copy(c.Data, rng.Bytes(8))
				el[i] = c
			}
			exp[i] = ref.NewStruct(0, 1)
			exp[i].Ptrs[0] = el[i]
		}
		lv = ref.NewPtrList(el)
	case ref.ETComposite:
		dw, pw := rng.Intn(3), rng.Intn(2)
		el := make([]*ref.V, n)
		for i := range el {
			c := ref.NewStruct(dw, pw)
			if !rng.Chance(1, 4) {
				copy(c.Data, rng.Bytes(dw*8+1))
			}
			if pw > 0 && rng.Chance(1, 2) {
				c.Ptrs[0] = ref.NewText("x")
			}
			el[i] = c
			exp[i] = c
		}
		lv = ref.NewComposite(dw, pw, el)
	default:
		sz := ref.ElemBytes(et)
		data := rng.Bytes(n*sz + 1)[:n*sz]
		for i := 0; i < n; i++ {
			if rng.Chance(1, 4) {
				for j := 0; j < sz; j++ {
					data[i*sz+j] = 0
				}
			}
			exp[i] = ref.NewStruct(1, 0)
			copy(exp[i].Data, data[i*sz:(i+1)*sz])
		}
		lv = ref.NewDataList(et, n, data)
	}
	rootv := ref.NewStruct(0, 1)
	rootv.Ptrs[0] = lv
	segs := ref.RandomPlan(rng).Encode(rootv)
	input := map[string]interface{}{"value": rootv.String(), "segments": common.SegsHex(segs), "view": "List.Struct(i) of root pointer 0"}
	root, _, err := load(segs)
	if err != nil {
		rec.Inconclusive("canon/elemview: could not load a reference-encoded value: " + err.Error())
		return
	}
	lp, err := root.Struct().Ptr(0)
	if err != nil {
		rec.Inconclusive("canon/elemview: root pointer: " + err.Error())
		return
	}
	l := lp.List()
	if l.Len() != n {
		rec.Inconclusive("canon/elemview: list length differs from the reference value")
		return
	}
	for i := 0; i < n; i++ {
		want, _ := ref.Canonical(exp[i])
		var got []byte
		var cerr error
		p := common.Guard(func() { got, cerr = capnp.Canonicalize(l.Struct(i)) })
		rec.Count("canonicalize_calls", 1)
		rec.Count(fmt.Sprintf("elemview_et%d", et), 1)
		input["element"] = i
		if p != nil {
			rec.Violate("panic/"+common.TopLibFrame(p.Stack)+"/canonicalize-elemview", "panic in Canonicalize on the struct view of a list element: "+p.Value, idx, p.Stack, input)
			return
		}
		if cerr != nil {
			rec.Violate("canonicalize-error/elemview", "Canonicalize failed on the struct view of a list element: "+cerr.Error(), idx, "", input)
			return
		}
		if !bytes.Equal(got, want) {
			input["got"], input["want"] = common.Hex(got), common.Hex(want)
			cls := "layout-not-canonical"
			dv, derr := ref.NewDecoder([][]byte{got}, true).Root()
			if derr != nil {
				cls = "invalid-encoding"
			} else if ref.Equal(dv, exp[i], false) != ref.Yes {
				cls = "value-changed"
			}
			rec.Violate(fmt.Sprintf("canonical-bytes-differ/%s/elemview-et%d", cls, et), "Canonicalize of the struct view of a list element differs from the canonical form of a struct holding that element", idx, "", input)
			return
		}
	}
}

var _ = errors.New

// equalCaps: capability identity with populated capability tables.
func equalCaps(rec *common.Recorder, idx uint64, rng *common.RNG) {
	rec.Count("pairs_caps-with-table", 1)
	c1 := capnp.ErrorClient(errors.New("one"))
	c2 := capnp.ErrorClient(errors.New("two"))
	mk := func(tab ...*capnp.Client) (*capnp.Message, capnp.Struct) {
		msg, seg, _ := capnp.NewMessage(capnp.SingleSegment(nil))
		st, _ := capnp.NewRootStruct(seg, capnp.ObjectSize{PointerCount: uint16(len(tab) + 1)})
		for i, c := range tab {
			id := msg.AddCap(c)
			_ = st.SetPtr(uint16(i), capnp.NewInterface(seg, id).ToPtr())
		}
		// one pointer beyond the table
		_ = st.SetPtr(uint16(len(tab)), capnp.NewInterface(seg, capnp.CapabilityID(len(tab)+5)).ToPtr())
		return msg, st
	}
	_, s1 := mk(c1, c2, c1.AddRef())
	_, s2 := mk(c2, c1)
	type tc struct {
		a, b capnp.Struct
		i, j int
		want bool
		name string
	}
	cases := []tc{
		{s1, s1, 0, 0, true, "same-index"},
		{s1, s1, 0, 2, true, "same-client-two-entries"},
		{s1, s1, 0, 1, false, "different-clients"},
		{s1, s2, 0, 1, true, "same-client-two-messages"},
		{s1, s2, 0, 0, false, "different-clients-two-messages"},
		{s1, s1, 3, 3, true, "out-of-range-same-index"},
		{s1, s1, 0, 3, false, "in-range-vs-out-of-range"},
	}
	for _, c := range cases {
		pa, _ := c.a.Ptr(uint16(c.i))
		pb, _ := c.b.Ptr(uint16(c.j))
		var got, rev bool
		var err error
		p := common.Guard(func() {
			got, err = capnp.Equal(pa, pb)
			rev, _ = capnp.Equal(pb, pa)
		})
		if p != nil {
			rec.Violate("panic/"+common.TopLibFrame(p.Stack)+"/equal-caps", "panic comparing capability pointers: "+p.Value, idx, p.Stack, c.name)
			return
		}
		if err != nil || got != c.want || rev != c.want {
			rec.Violate("wrong-answer/cap-cap/"+c.name, fmt.Sprintf("Equal on capability pointers (%s) = %v/%v (err %v), want %v", c.name, got, rev, err, c.want), idx, "", c.name)
			return
		}
		rec.Count("cap_table_comparisons", 1)
	}
	equalPromisedCaps(rec, idx, rng)
}

// equalPromisedCaps: identity of capabilities behind promises.  A promised
// client that has been fulfilled is fully resolved: it is the same capability
// as its target from the first comparison on (no call, Resolve, AddRef or
// State in between), in both argument orders, in one message or two, and it
// stays so; before the resolution, and when fulfilled with another client, it
// is a different capability.
func equalPromisedCaps(rec *common.Recorder, idx uint64, rng *common.RNG) {
	target := capnp.ErrorClient(errors.New("target"))
	other := capnp.ErrorClient(errors.New("other"))
	pa, cpa := capnp.NewPromisedClient(&countingHook{})
	pb, cpb := capnp.NewPromisedClient(&countingHook{})
	pc, cpc := capnp.NewPromisedClient(&countingHook{}) // fulfilled with pa (a resolved promise)
	two := rng.Chance(1, 2)
	mk := func(tab ...*capnp.Client) capnp.Struct {
		msg, seg, _ := capnp.NewMessage(capnp.SingleSegment(nil))
		st, _ := capnp.NewRootStruct(seg, capnp.ObjectSize{PointerCount: uint16(len(tab))})
		for i, c := range tab {
			id := msg.AddCap(c)
			_ = st.SetPtr(uint16(i), capnp.NewInterface(seg, id).ToPtr())
		}
		return st
	}
	// slots: 0 target, 1 other, 2 pa, 3 pb, 4 pc
	sa := mk(target, other, pa, pb, pc)
	sb := sa
	if two {
		sb = mk(target.AddRef(), other.AddRef(), pa.AddRef(), pb.AddRef(), pc.AddRef())
	}
	cmp := func(i, j int, want bool, name string) bool {
		x, _ := sa.Ptr(uint16(i))
		y, _ := sb.Ptr(uint16(j))
		for round := 1; round <= 2; round++ {
			var got, rev bool
			var err error
			p := common.Guard(func() {
				got, err = capnp.Equal(x, y)
				rev, _ = capnp.Equal(y, x)
			})
			if p != nil {
				rec.Violate("panic/"+common.TopLibFrame(p.Stack)+"/equal-caps", "panic comparing capability pointers: "+p.Value, idx, p.Stack, name)
				return false
			}
			if err != nil || got != want || rev != want {
				rec.Violate("wrong-answer/cap-cap/"+name, fmt.Sprintf("Equal on capability pointers (%s, comparison #%d, two messages: %v) = %v/%v (err %v), want %v", name, round, two, got, rev, err, want), idx, "", name)
				return false
			}
			rec.Count("cap_promise_comparisons", 1)
		}
		return true
	}
	if rng.Chance(1, 2) {
		// also look before the resolution
		if !cmp(2, 0, false, "unresolved-promise-vs-target") || !cmp(2, 3, false, "two-unresolved-promises") {
			return
		}
	}
	cpa.Fulfill(target)
	cpb.Fulfill(other)
	cpc.Fulfill(pa)
	_ = cmp(2, 0, true, "fulfilled-promise-vs-target") &&
		cmp(3, 0, false, "promise-fulfilled-with-another-client") &&
		cmp(3, 1, true, "fulfilled-promise-vs-target") &&
		cmp(2, 3, false, "two-promises-different-targets") &&
		cmp(4, 0, true, "promise-fulfilled-with-resolved-promise") &&
		cmp(4, 2, true, "promise-fulfilled-with-resolved-promise")
}
