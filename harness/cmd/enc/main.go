// enc: driver for the encoding-core properties C01–C05, C16–C18.
//
// Modes (see NOTES.md / DESIGN.md §3):
//
//	guided   C03  valid messages in every legal layout, guided walker vs reference decoder
//	hostile  C01  structured-hostile mutations of valid messages, blind walker + consumers
//	random   C01  random words
//	grid     C01  exhaustive one-pointer grid
//	big      C01  big objects
//	limits   C02  depth / traversal conservation monitors on chains and cycles
//	stack    C02  recursive consumers on cyclic graphs under a stack red-zone
//	conc     C02  concurrent readers of one message
//	builder  C04/C05  builder scripts with a shadow model; strict reference decode of the output
//	copy     C16  deep copies into every kind of destination
//	equal    C17  capnp.Equal vs reference equality
//	canon    C18  capnp.Canonicalize vs reference canonical form
package main

import (
	"capnproto.org/go/capnp/v3/zverif/common"
)

func main() {
	cfg := common.ParseFlags()
	rec := common.NewRecorder(cfg)
	run, ok := modes[cfg.Mode]
	if !ok {
		rec.Inconclusive("unknown mode " + cfg.Mode)
		rec.Finish()
		return
	}
	if setup, ok := setups[cfg.Mode]; ok {
		setup(cfg, rec)
	}
	for i := cfg.Start; i < cfg.Start+cfg.Count; i++ {
		rng := common.NewRNG(common.CaseSeed(cfg.Seed, cfg.Prop+"/"+cfg.Mode, i))
		run(cfg, rec, i, rng)
	}
	rec.Finish()
}

type modeFunc func(cfg *common.Config, rec *common.Recorder, idx uint64, rng *common.RNG)

var modes = map[string]modeFunc{}
var setups = map[string]func(cfg *common.Config, rec *common.Recorder){}
