package main

import (
	"encoding/binary"
	"fmt"
	"runtime/debug"
	"sync"
	"sync/atomic"

	capnp "capnproto.org/go/capnp/v3"
	"capnproto.org/go/capnp/v3/encoding/text"
	air "capnproto.org/go/capnp/v3/internal/aircraftlib"
	"capnproto.org/go/capnp/v3/pogs"
	"capnproto.org/go/capnp/v3/zverif/common"
	"capnproto.org/go/capnp/v3/zverif/walk"
)

func init() {
	modes["limits"] = runLimits
	modes["stack"] = runStack
	modes["conc"] = runConc
	setups["limits"] = func(cfg *common.Config, rec *common.Recorder) { debug.SetMaxStack(64 << 20) }
	// Stack red-zone for the recursive consumers: two orders of magnitude
	// above what D levels need, far below what an unbounded descent (bounded
	// only by the 64 MiB traversal budget) needs.
	setups["stack"] = func(cfg *common.Config, rec *common.Recorder) { debug.SetMaxStack(16 << 20) }
}

// Graph builder: a ring of k nodes, each reached from its predecessor through
// a different kind of edge.  Node kinds:
//
//	S  struct {1 data word, 1 pointer}          pointer -> next
//	P  pointer list of m elements               element j -> next
//	C  composite list, n elements {dw, 1 ptr}   element j's pointer -> next
//	Z  composite list of zero-sized elements (dead end, amplification shape)
//	V  void list (dead end, amplification shape)
//
// Edges may be near, far (landing pad in the target segment) or double-far.
type gnode struct {
	kind    byte
	seg, w  int    // content start (tag word for C)
	desc    uint64 // pointer word with offset 0
	slot    int    // word index (in seg) of the outgoing pointer slot
	n       int
	fp      uint64
}

type graph struct {
	segs  [][]byte
	nodes []gnode
	desc  string
}

func (g *graph) alloc(seg, words int) int {
	w := len(g.segs[seg]) / 8
	g.segs[seg] = append(g.segs[seg], make([]byte, words*8)...)
	return w
}

func (g *graph) put(seg, w int, v uint64) { binary.LittleEndian.PutUint64(g.segs[seg][w*8:], v) }

func (g *graph) link(fromSeg, fromW int, to gnode, rng *common.RNG) {
	if to.seg == fromSeg && !rng.Chance(1, 6) {
		g.put(fromSeg, fromW, setOff(to.desc, int64(to.w-(fromW+1))))
		return
	}
	if rng.Bool() {
		pad := g.alloc(to.seg, 1)
		g.put(to.seg, pad, setOff(to.desc, int64(to.w-(pad+1))))
		g.put(fromSeg, fromW, 2|uint64(pad)<<3|uint64(to.seg)<<32)
		return
	}
	ps := rng.Intn(len(g.segs))
	pad := g.alloc(ps, 2)
	g.put(ps, pad, 2|uint64(to.w)<<3|uint64(to.seg)<<32)
	g.put(ps, pad+1, to.desc)
	g.put(fromSeg, fromW, 6|uint64(pad)<<3|uint64(ps)<<32)
}

func buildRing(rng *common.RNG) *graph {
	ns := rng.PickInt(1, 1, 2, 3)
	g := &graph{segs: make([][]byte, ns)}
	g.segs[0] = make([]byte, 8)
	k := rng.PickInt(1, 1, 2, 3, 4, 5)
	kinds := []byte("SSPCC")
	for i := 0; i < k; i++ {
		seg := rng.Intn(ns)
		kd := kinds[rng.Intn(len(kinds))]
		var nd gnode
		switch kd {
		case 'S':
			w := g.alloc(seg, 2)
			g.put(seg, w, rng.Uint64())
			nd = gnode{kind: 'S', seg: seg, w: w, desc: 0 | 1<<32 | 1<<48, slot: w + 1, fp: 16}
		case 'P':
			m := rng.PickInt(1, 2, 3)
			w := g.alloc(seg, m)
			nd = gnode{kind: 'P', seg: seg, w: w, desc: 1 | 6<<32 | uint64(m)<<35, slot: w + rng.Intn(m), n: m, fp: uint64(8 * m)}
		default:
			n := rng.PickInt(1, 2, 3)
			dw := rng.Intn(2)
			es := dw + 1
			w := g.alloc(seg, 1+n*es)
			g.put(seg, w, setOff(0, int64(n))|uint64(dw)<<32|1<<48)
			j := rng.Intn(n)
			nd = gnode{kind: 'C', seg: seg, w: w, desc: 1 | 7<<32 | uint64(n*es)<<35, slot: w + 1 + j*es + dw, n: n, fp: uint64(8 * n * es)}
		}
		g.nodes = append(g.nodes, nd)
		g.desc += string(kd)
	}
	// ring edges
	for i := range g.nodes {
		nx := g.nodes[(i+1)%len(g.nodes)]
		g.link(g.nodes[i].seg, g.nodes[i].slot, nx, rng)
	}
	// root -> node 0 must be a struct for Root(); wrap if needed
	if g.nodes[0].kind == 'S' {
		g.link(0, 0, g.nodes[0], rng)
	} else {
		w := g.alloc(0, 1)
		g.link(0, w, g.nodes[0], rng)
		g.put(0, 0, setOff(0|1<<48, int64(w-1)))
		g.desc = "s" + g.desc
	}
	// optional amplification dead ends hung off spare pointer-list slots
	return g
}

// buildAmplifier: root struct with p pointers, each to the same zero-sized
// element list of n elements (void list or composite list of empty structs).
func buildAmplifier(rng *common.RNG) (*graph, int) {
	g := &graph{segs: [][]byte{make([]byte, 8)}}
	p := rng.PickInt(1, 4, 16, 64)
	n := rng.PickInt(1<<10, 1<<16, 1<<20, 1<<24, 1<<29-1)
	w := g.alloc(0, p)
	g.put(0, 0, setOff(0|uint64(p)<<48, 0))
	composite := rng.Bool()
	var desc uint64
	tw := 0
	if composite {
		tw = g.alloc(0, 1)
		g.put(0, tw, setOff(0, int64(n)))
		desc = 1 | 7<<32
		g.desc = fmt.Sprintf("amp-composite0 p=%d n=%d", p, n)
	} else {
		tw = len(g.segs[0]) / 8
		desc = 1 | 0<<32 | uint64(n)<<35
		g.desc = fmt.Sprintf("amp-void p=%d n=%d", p, n)
	}
	for i := 0; i < p; i++ {
		g.put(0, w+i, setOff(desc, int64(tw-(w+i+1))))
	}
	return g, n
}

var ringD = []uint{1, 2, 3, 4, 5, 6, 7, 8, 9, 10, 63, 64, 65, 0}

func runLimits(cfg *common.Config, rec *common.Recorder, idx uint64, rng *common.RNG) {
	var g *graph
	amp := rng.Chance(1, 8)
	if amp {
		g, _ = buildAmplifier(rng)
	} else {
		g = buildRing(rng)
	}
	D := ringD[rng.Intn(len(ringD))]
	if rng.Chance(1, 10) {
		D = uint(rng.Range(11, 200))
	}
	T := []uint64{0, 8, 64, 4096, 1 << 20, 0}[rng.Intn(6)]
	via := []int{viaMulti, viaCustomArena, viaUnmarshal, viaDecoder}[rng.Intn(4)]
	if idx%500 == 0 {
		rec.Case(idx, fmt.Sprintf("limits graph=%s D=%d T=%d", g.desc, D, T))
	} else {
		rec.CaseQuiet(idx)
	}
	rec.Distinct(common.Hash64(append(g.segs, []byte{byte(D), byte(D >> 8), byte(T), byte(T >> 8), byte(T >> 16)})...))
	if amp {
		rec.Count("amplifier_graphs", 1)
	} else {
		rec.Count("ring_graphs", 1)
		rec.Count(fmt.Sprintf("ring_len_%d", len(g.nodes)), 1)
	}
	if D <= 10 || (D >= 63 && D <= 65) {
		rec.Count(fmt.Sprintf("D_%d", D), 1)
	} else {
		rec.Count("D_other", 1)
	}
	exercise(cfg, rec, idx, g.segs, exOpts{via: via, T: T, D: D, consumers: false, maxOps: 60000, class: "ring"}, rng,
		map[string]interface{}{"segments": common.SegsHex(g.segs), "graph": g.desc, "D": D, "T": T})
}

// ---------------------------------------------------------------------------
// stack: recursive consumers on cyclic graphs under the stack red-zone.  The
// consumer must return (value or error); an escape from the depth limit
// recurses until the traversal budget is gone, which needs far more than
// the 16 MiB stack and kills the child with "stack overflow" (attributed to
// the CASE line).  Additionally the budget spent by each consumer must not
// exceed T (conservation through the H1 hook).

func runStack(cfg *common.Config, rec *common.Recorder, idx uint64, rng *common.RNG) {
	g := buildRing(rng)
	D := []uint{0, 0, 63, 64, 65, 2, 3, 4, 5, 6, 7, 100, 500}[rng.Intn(13)]
	T := []uint64{0, 0, 1 << 20, 1 << 30}[rng.Intn(4)]
	consumer := int(idx % 6)
	names := []string{"Equal", "Canonicalize", "SetRoot-single", "SetRoot-multi", "text.Marshal", "pogs.Extract"}
	rec.Case(idx, fmt.Sprintf("stack graph=%s D=%d T=%d consumer=%s", g.desc, D, T, names[consumer]))
	rec.Distinct(common.Hash64(append(g.segs, []byte{byte(D), byte(D >> 8), byte(T >> 16), byte(consumer)})...))
	rec.Count("consumer_"+names[consumer], 1)
	input := map[string]interface{}{"segments": common.SegsHex(g.segs), "graph": g.desc, "D": D, "T": T, "consumer": names[consumer]}
	mk := func() (*capnp.Message, capnp.Ptr, bool) {
		m, _, err := present(g.segs, viaMulti, rng)
		if err != nil {
			return nil, capnp.Ptr{}, false
		}
		m.DepthLimit = D
		m.TraverseLimit = T
		r, err := m.Root()
		if err != nil || !r.IsValid() {
			return nil, capnp.Ptr{}, false
		}
		return m, r, true
	}
	var spent uint64
	var finished bool
	p := common.Guard(func() {
		m, r, ok := mk()
		if !ok {
			return
		}
		before := m.VerifReadLimit()
		switch consumer {
		case 0:
			m2, r2, _ := mk()
			_ = m2
			_, err := capnp.Equal(r, r2)
			if err != nil {
				rec.Count("consumer_returned_error", 1)
			}
		case 1:
			if _, err := capnp.Canonicalize(r.Struct()); err != nil {
				rec.Count("consumer_returned_error", 1)
			}
		case 2:
			dst, _, _ := capnp.NewMessage(capnp.SingleSegment(nil))
			if err := dst.SetRoot(r); err != nil {
				rec.Count("consumer_returned_error", 1)
			}
		case 3:
			dst, _, _ := capnp.NewMessage(capnp.MultiSegment(nil))
			if err := dst.SetRoot(r); err != nil {
				rec.Count("consumer_returned_error", 1)
			}
		case 4:
			if _, err := text.Marshal(air.RWTestCapn_TypeID, r.Struct()); err != nil {
				rec.Count("consumer_returned_error", 1)
			}
		default:
			var v zserver
			if err := pogs.Extract(&v, air.Zserver_TypeID, r.Struct()); err != nil {
				rec.Count("consumer_returned_error", 1)
			}
		}
		after := m.VerifReadLimit()
		spent = before - after
		finished = true
	})
	if p != nil {
		rec.Violate("panic/"+common.TopLibFrame(p.Stack)+"/"+panicClass(p.Value), "panic in consumer "+names[consumer]+" on a cyclic graph: "+p.Value, idx, p.Stack, input)
		return
	}
	if finished {
		rec.Count("consumer_finished", 1)
		rec.Max("max_budget_spent_by_consumer", int64(spent))
	}
}

// ---------------------------------------------------------------------------
// conc: N goroutines dereference pointers of one Message until each sees the
// limit error; the merged successes must satisfy the conservation inequality.

func runConc(cfg *common.Config, rec *common.Recorder, idx uint64, rng *common.RNG) {
	// message: root struct with P pointers, each to a struct of w words.
	P := rng.PickInt(4, 16, 64)
	w := rng.PickInt(1, 2, 8)
	seg := make([]byte, 8+P*8+P*w*8)
	binary.LittleEndian.PutUint64(seg, setOff(0|uint64(P)<<48, 0))
	for i := 0; i < P; i++ {
		slot := 1 + i
		target := 1 + P + i*w
		binary.LittleEndian.PutUint64(seg[slot*8:], setOff(0|uint64(w)<<32, int64(target-(slot+1))))
	}
	N := rng.PickInt(2, 4, 16)
	objBytes := uint64(w * 8)
	budgetObjs := uint64(rng.PickInt(5, 10, 50, 200, 1000))
	T := uint64(P*8) + budgetObjs*objBytes + uint64(rng.Intn(int(objBytes))) // root + k objects + slack < one object
	if idx%200 == 0 {
		rec.Case(idx, fmt.Sprintf("conc N=%d P=%d w=%d T=%d", N, P, w, T))
	} else {
		rec.CaseQuiet(idx)
	}
	rec.Distinct(common.HashString(fmt.Sprintf("%d/%d/%d/%d/%d", N, P, w, T, idx)))
	msg := &capnp.Message{Arena: capnp.SingleSegment(seg), TraverseLimit: T}
	root, err := msg.Root()
	if err != nil {
		rec.Inconclusive("conc: root failed: " + err.Error())
		return
	}
	rs := root.Struct()
	var succ, fail int64
	var wg sync.WaitGroup
	var pan atomic.Value
	start := make(chan struct{})
	for gi := 0; gi < N; gi++ {
		wg.Add(1)
		go func(gi int) {
			defer wg.Done()
			p := common.Guard(func() {
				<-start
				i := gi
				misses := 0
				// Logical bound: the budget allows budgetObjs successes in
				// total; a goroutine that alone exceeds twice that has
				// already refuted the property, so it may stop (this keeps
				// the case finite when the budget "wraps" to a huge value).
				mine := uint64(0)
				for misses < 3 && mine <= 2*budgetObjs+16 {
					ptr, err := rs.Ptr(uint16(i % P))
					i++
					mine++
					if err != nil {
						misses++
						atomic.AddInt64(&fail, 1)
						continue
					}
					if ptr.IsValid() {
						atomic.AddInt64(&succ, 1)
					}
				}
			})
			if p != nil {
				pan.Store(p)
			}
		}(gi)
	}
	close(start)
	wg.Wait()
	if p, ok := pan.Load().(*common.Panic); ok && p != nil {
		rec.Violate("panic/"+common.TopLibFrame(p.Stack)+"/concurrent-read", "panic reading one message from several goroutines: "+p.Value, idx, p.Stack, nil)
		return
	}
	rec.Count("conc_derefs_ok", succ)
	rec.Count("conc_derefs_limit", fail)
	rec.Count(fmt.Sprintf("conc_goroutines_%d", N), 1)
	spent := uint64(P*8) + uint64(succ)*objBytes
	if spent > T {
		rec.Violate("traversal-overspent/concurrent", fmt.Sprintf("%d goroutines were handed objects totalling %d bytes with traversal limit %d", N, spent, T), idx, "",
			map[string]interface{}{"N": N, "P": P, "words": w, "T": T, "successes": succ})
	}
	if uint64(succ) < budgetObjs {
		// The budget allows exactly budgetObjs objects; handing out fewer is
		// not a violation of the property (the bound is an upper bound), but
		// it is worth counting.
		rec.Count("conc_underspent_runs", 1)
	}
	if left := msg.VerifReadLimit(); left > T {
		rec.Violate("traversal-budget-grew/concurrent", "remaining budget larger than the configured limit", idx, "", nil)
	}
	var _ = walk.NewBlind
}
