package main

import (
	"errors"
	"unsafe"

	capnp "capnproto.org/go/capnp/v3"
	"capnproto.org/go/capnp/v3/zverif/common"
	"capnproto.org/go/capnp/v3/zverif/ref"
)

const poison = 0xA5

// guarded lays the segments out inside one larger poisoned buffer and hands
// them to the library as three-index slices (cap == len), so that the only
// legal over-read in Go (re-slicing past len up to cap) panics, and every
// []byte the library hands back can be range-checked against the segment it
// must come from.
type guarded struct {
	buf  []byte
	segs [][]byte
	lo   []uintptr
	hi   []uintptr
}

func guard(segs [][]byte) *guarded {
	total := 64
	for _, s := range segs {
		total += len(s) + 64
	}
	g := &guarded{buf: make([]byte, total)}
	for i := range g.buf {
		g.buf[i] = poison
	}
	off := 64
	for _, s := range segs {
		copy(g.buf[off:], s)
		sl := g.buf[off : off+len(s) : off+len(s)]
		g.segs = append(g.segs, sl)
		base := uintptr(unsafe.Pointer(&g.buf[0])) + uintptr(off)
		g.lo = append(g.lo, base)
		g.hi = append(g.hi, base+uintptr(len(s)))
		off += len(s) + 64
	}
	return g
}

// inSeg reports whether b lies completely inside one of the segments.
func (g *guarded) inSeg(b []byte) bool {
	if len(b) == 0 {
		return true
	}
	p := uintptr(unsafe.Pointer(&b[0]))
	for i := range g.lo {
		if p >= g.lo[i] && p+uintptr(len(b)) <= g.hi[i] {
			return true
		}
	}
	return false
}

// poisonIntact verifies that the library wrote nothing outside the segments.
func (g *guarded) poisonIntact() bool {
	off := 0
	for _, s := range g.segs {
		for i := off; i < off+64; i++ {
			if g.buf[i] != poison {
				return false
			}
		}
		off += 64 + len(s)
	}
	for i := off; i < len(g.buf); i++ {
		if g.buf[i] != poison {
			return false
		}
	}
	return true
}

// Presentation: how segments reach the library.
const (
	viaMulti = iota
	viaSingle
	viaUnmarshal
	viaUnmarshalPacked
	viaDecoder
	viaPackedDecoder
	viaCustomArena
	viaResetMessage       // a Message that has read another (multi-segment) message, then Reset(arena)
	viaReuseDecoder       // second message of a stream read by a Decoder with ReuseBuffer
	viaReusePackedDecoder // same, packed
	numVia
)

var viaNames = []string{"MultiSegment", "SingleSegment", "Unmarshal", "UnmarshalPacked", "Decoder", "PackedDecoder", "CustomArena", "ResetMessage", "ReuseDecoder", "ReusePackedDecoder"}

// prevMessage returns the segments of a valid message that is read *before*
// the case's message through the same Message / Decoder (history): k >= 2
// segments, the root is a far pointer into the last segment, every segment is
// larger than most case segments and filled with a recognisable pattern, so
// that anything the library keeps across Reset (cached first segment, segment
// map, bounds) shows up as a wrong value, an escape or a panic.
func prevMessage(rng *common.RNG) [][]byte {
	k := 1
	if rng == nil || !rng.Chance(1, 5) {
		k = 2
		if rng != nil {
			k += rng.Intn(2)
		}
	}
	segs := make([][]byte, k)
	for i := range segs {
		n := 8 * (24 + 8*i)
		segs[i] = make([]byte, n)
		for j := range segs[i] {
			segs[i][j] = byte(0xE0 + i)
		}
	}
	put := func(b []byte, w uint64) {
		for j := 0; j < 8; j++ {
			b[j] = byte(w >> (8 * uint(j)))
		}
	}
	// root: struct pointer (1 data word, 2 pointers) in segment 0; pointer 0 is a
	// 16-byte Data blob in segment 0 (a stale read hands out a slice of the
	// *previous* buffer: escape), pointer 1 a far pointer into the last segment.
	put(segs[0][0:], 1<<32|2<<48)
	put(segs[0][16:], 1|1<<2|2<<32|16<<35)
	if k > 1 {
		put(segs[0][24:], 2|uint64(k-1)<<32)
		put(segs[k-1][0:], 2<<32) // landing pad: struct, two data words
	} else {
		put(segs[0][24:], 0)
	}
	return segs
}

// touch reads the previous message far enough to load all its segments.
func touch(m *capnp.Message) {
	if r, err := m.Root(); err == nil {
		_ = r.Struct().Uint64(0)
		if p, err := r.Struct().Ptr(0); err == nil {
			_ = p.Data()
		}
		r.Struct().Ptr(1)
	}
	for i := int64(0); i < m.NumSegments(); i++ {
		m.Segment(capnp.SegmentID(i))
	}
}

// roArena is a custom read-only Arena (the interface is public): exercises
// the Arena code path that neither SingleSegment nor MultiSegment take.
type roArena struct{ segs [][]byte }

func (a *roArena) NumSegments() int64 { return int64(len(a.segs)) }
func (a *roArena) Data(id capnp.SegmentID) ([]byte, error) {
	if int(id) >= len(a.segs) {
		return nil, errors.New("no such segment")
	}
	return a.segs[id], nil
}
func (a *roArena) Allocate(sz capnp.Size, segs map[capnp.SegmentID]*capnp.Segment) (capnp.SegmentID, []byte, error) {
	return 0, nil, errors.New("read-only arena")
}

// present builds a Message over segs.  It returns the message, the guard (for
// range checks; nil when the library copied the bytes itself) and an error if
// the library refused the input (legitimate for hostile framing).
func present(segs [][]byte, via int, rng *common.RNG) (*capnp.Message, *guarded, error) {
	switch via {
	case viaMulti:
		g := guard(segs)
		return &capnp.Message{Arena: capnp.MultiSegment(g.segs)}, g, nil
	case viaSingle:
		g := guard(segs[:1])
		return &capnp.Message{Arena: capnp.SingleSegment(g.segs[0])}, g, nil
	case viaCustomArena:
		g := guard(segs)
		return &capnp.Message{Arena: &roArena{g.segs}}, g, nil
	case viaResetMessage:
		g := guard(segs)
		pg := guard(prevMessage(rng))
		m := &capnp.Message{Arena: capnp.MultiSegment(pg.segs)}
		touch(m)
		m.Reset(capnp.MultiSegment(g.segs))
		return m, g, nil
	case viaReuseDecoder, viaReusePackedDecoder:
		stream := append(ref.Frame(prevMessage(rng)), ref.Frame(segs)...)
		var d *capnp.Decoder
		if via == viaReuseDecoder {
			d = capnp.NewDecoder(&chunkReader{b: stream, rng: rng})
		} else {
			d = capnp.NewPackedDecoder(&chunkReader{b: refPack(stream), rng: rng})
		}
		d.ReuseBuffer()
		m, err := d.Decode()
		if err != nil {
			return nil, nil, errors.New("harness: the history message was refused: " + err.Error())
		}
		touch(m)
		m, err = d.Decode()
		return m, nil, err
	case viaUnmarshal:
		g := guard([][]byte{ref.Frame(segs)})
		m, err := capnp.Unmarshal(g.segs[0])
		return m, g, err
	case viaUnmarshalPacked:
		pk := refPack(ref.Frame(segs))
		m, err := capnp.UnmarshalPacked(pk)
		return m, nil, err
	case viaDecoder:
		m, err := capnp.NewDecoder(&chunkReader{b: ref.Frame(segs), rng: rng}).Decode()
		return m, nil, err
	default:
		pk := refPack(ref.Frame(segs))
		m, err := capnp.NewPackedDecoder(&chunkReader{b: pk, rng: rng}).Decode()
		return m, nil, err
	}
}

// chunkReader returns random-sized chunks.
type chunkReader struct {
	b   []byte
	rng *common.RNG
}

func (c *chunkReader) Read(p []byte) (int, error) {
	if len(c.b) == 0 {
		return 0, errEOF
	}
	n := len(p)
	if c.rng != nil {
		n = 1 + c.rng.Intn(len(p))
		if c.rng.Chance(1, 4) {
			n = 1
		}
	}
	if n > len(c.b) {
		n = len(c.b)
	}
	copy(p, c.b[:n])
	c.b = c.b[n:]
	return n, nil
}

// refPack is an independent implementation of the packing algorithm (spec:
// "Packing"), used only to *present* inputs through the packed entry points.
func refPack(b []byte) []byte {
	var out []byte
	for i := 0; i+8 <= len(b); {
		w := b[i : i+8]
		var tag byte
		for j := 0; j < 8; j++ {
			if w[j] != 0 {
				tag |= 1 << uint(j)
			}
		}
		out = append(out, tag)
		for j := 0; j < 8; j++ {
			if w[j] != 0 {
				out = append(out, w[j])
			}
		}
		i += 8
		switch tag {
		case 0:
			n := 0
			for n < 255 && i+8 <= len(b) && isZero8(b[i:i+8]) {
				n++
				i += 8
			}
			out = append(out, byte(n))
		case 0xff:
			n := 0
			start := i
			for n < 255 && i+8 <= len(b) && zeroCount(b[i:i+8]) < 2 {
				n++
				i += 8
			}
			out = append(out, byte(n))
			out = append(out, b[start:i]...)
		}
	}
	return out
}

func isZero8(w []byte) bool { return zeroCount(w) == 8 }

func zeroCount(w []byte) int {
	n := 0
	for _, x := range w {
		if x == 0 {
			n++
		}
	}
	return n
}
