package main

import (
	"bytes"
	"fmt"

	capnp "capnproto.org/go/capnp/v3"
	"capnproto.org/go/capnp/v3/encoding/text"
	air "capnproto.org/go/capnp/v3/internal/aircraftlib"
	"capnproto.org/go/capnp/v3/pogs"
	"capnproto.org/go/capnp/v3/zverif/common"
)

func init() { modes["enumgrid"] = runEnumGrid }

// enumgrid (C01): every 16-bit value of an enum-typed field and of an enum
// list element is rendered / extracted: a reader must cope with enumerants
// it does not know (version skew), i.e. return text or an error, never
// panic.  The index space is the 65536 values; each case renders the value
// as Z.airport, as an element of PlaneBase.homes, through the generated
// String() and through pogs.Extract.
func runEnumGrid(cfg *common.Config, rec *common.Recorder, idx uint64, rng *common.RNG) {
	if idx >= 1<<16 {
		return
	}
	v := uint16(idx)
	if idx%4096 == 0 {
		rec.Case(idx, fmt.Sprintf("enumgrid value=%d", v))
	} else {
		rec.CaseQuiet(idx)
	}
	rec.Distinct(idx)
	rec.Count("enum_values", 1)
	step := func(name string, f func()) {
		if p := common.Guard(f); p != nil {
			rec.Violate("panic/"+common.TopLibFrame(p.Stack)+"/"+panicClass(p.Value), fmt.Sprintf("panic in %s for enum value %d: %s", name, v, p.Value), idx, p.Stack, map[string]interface{}{"enum_value": v})
		}
	}
	_, seg, _ := capnp.NewMessage(capnp.SingleSegment(nil))
	z, _ := air.NewRootZ(seg)
	z.SetAirport(air.Airport(v))
	_, seg2, _ := capnp.NewMessage(capnp.SingleSegment(nil))
	pb, _ := air.NewRootPlaneBase(seg2)
	homes, _ := pb.NewHomes(3)
	homes.Set(0, air.Airport(0))
	homes.Set(1, air.Airport(v))
	homes.Set(2, air.Airport(v^1))
	step("text.Marshal/Z.airport", func() {
		if _, err := text.Marshal(air.Z_TypeID, z.Struct); err == nil {
			rec.Count("text_ok", 1)
		}
	})
	step("Z.String", func() { _ = z.String() })
	step("text.Marshal/PlaneBase.homes", func() {
		if _, err := text.Marshal(air.PlaneBase_TypeID, pb.Struct); err == nil {
			rec.Count("text_ok", 1)
		}
	})
	step("PlaneBase.String", func() { _ = pb.String() })
	step("Encoder.Encode", func() {
		var buf bytes.Buffer
		enc := text.NewEncoder(&buf)
		_ = enc.Encode(air.PlaneBase_TypeID, pb.Struct)
		_ = enc.Encode(air.Z_TypeID, z.Struct)
	})
	step("Airport.String", func() { _ = air.Airport(v).String() })
	step("pogs.Extract/PlaneBase", func() {
		var out struct {
			Name  string
			Homes []air.Airport
		}
		if pogs.Extract(&out, air.PlaneBase_TypeID, pb.Struct) == nil {
			rec.Count("extract_ok", 1)
		}
	})
}
