package main

import (
	"bytes"
	"context"
	"fmt"
	"sync/atomic"

	capnp "capnproto.org/go/capnp/v3"
	"capnproto.org/go/capnp/v3/zverif/common"
	"capnproto.org/go/capnp/v3/zverif/ref"
	"capnproto.org/go/capnp/v3/zverif/walk"
)

func init() { modes["copy"] = runCopy }

// countingHook is an instrumented ClientHook: it counts Shutdown calls.
type countingHook struct{ shutdowns int32 }

func (h *countingHook) Send(ctx context.Context, s capnp.Send) (*capnp.Answer, capnp.ReleaseFunc) {
	return capnp.ErrorAnswer(s.Method, fmt.Errorf("countingHook")), func() {}
}
func (h *countingHook) Recv(ctx context.Context, r capnp.Recv) capnp.PipelineCaller {
	r.Reject(fmt.Errorf("countingHook"))
	return nil
}
func (h *countingHook) Brand() capnp.Brand { return capnp.Brand{} }
func (h *countingHook) Shutdown()          { atomic.AddInt32(&h.shutdowns, 1) }

// adaptTop models the documented version rule of struct copies: the
// destination keeps its own section sizes; source data beyond them is
// dropped, missing data reads as zero; children are copied as they are.
func adaptTop(src *ref.V, dw, pw int) *ref.V {
	n := ref.NewStruct(dw, pw)
	copy(n.Data, src.Data)
	for i := 0; i < pw && i < len(src.Ptrs); i++ {
		n.Ptrs[i] = src.Ptrs[i].Clone()
	}
	return n
}

// runCopy: C16.  R: destination differs from the (adapted) source; a later
// write to one side shows on the other; a copied capability shares the
// source's table slot / reference.
func runCopy(cfg *common.Config, rec *common.Recorder, idx uint64, rng *common.RNG) {
	if idx%1000 == 0 {
		rec.Case(idx, "copy")
	} else {
		rec.CaseQuiet(idx)
	}
	o := ref.GenOpts{Budget: rng.PickInt(3, 10, 25, 50), NoVoidBig: true, Caps: rng.Chance(1, 3)}
	// the source: a struct wrapped so that lists / structs / anything can be the copied value
	inner := ref.GenValue(rng, o)
	var srcVal *ref.V = inner
	if rng.Chance(1, 3) && len(inner.Ptrs) > 0 {
		// copy some sub-object instead of the whole struct
		srcVal = inner.Ptrs[rng.Intn(len(inner.Ptrs))]
	}
	holder := ref.NewStruct(0, 1)
	holder.Ptrs[0] = srcVal
	phys := holder
	if rng.Bool() {
		phys = ref.Relayout(rng, holder, false)
		// keep the holder shape
		if len(phys.Ptrs) < 1 {
			phys = holder
		}
	}
	srcVal = phys.Ptrs[0]
	segs := ref.RandomPlan(rng).Encode(phys)
	srcCopy := cloneSegs(segs)
	g := guard(segs)
	srcMsg := &capnp.Message{Arena: capnp.MultiSegment(g.segs), TraverseLimit: 1 << 40}
	// capability table of the source: instrumented clients
	ncap := 4
	hooks := make([]*countingHook, ncap)
	if o.Caps {
		for i := 0; i < ncap; i++ {
			hooks[i] = &countingHook{}
			srcMsg.AddCap(capnp.NewClient(hooks[i]))
		}
	}
	input := map[string]interface{}{"segments": common.SegsHex(segs), "value": srcVal.String()}
	fail := func(sig, what, detail string) {
		rec.Violate(sig, what, idx, detail, input)
	}

	var mis *walk.Mismatch
	var stage, destKind string
	var serr error
	var dstMsg *capnp.Message
	var capsCopied int
	copiedIdx := map[uint32]bool{}
	p := common.Guard(func() {
		r, err := srcMsg.Root()
		if err != nil {
			serr = fmt.Errorf("source root: %v", err)
			return
		}
		sp, err := r.Struct().Ptr(0)
		if err != nil {
			serr = fmt.Errorf("source ptr: %v", err)
			return
		}
		arena, aname := newArena(rng)
		input["arena"] = aname
		dst, first, err := capnp.NewMessage(arena)
		if err != nil {
			serr = fmt.Errorf("NewMessage: %v", err)
			return
		}
		dstMsg = dst
		var expect *ref.V
		var readBack func() (capnp.Ptr, error)
		var mutateDst func()
		kinds := []string{"SetRoot", "Struct.SetPtr", "PointerList.Set", "List.SetStruct", "Struct.CopyFrom"}
		k := rng.Intn(len(kinds))
		if srcVal.Kind != ref.KStruct && (k == 0 || k >= 3) {
			k = 1 + rng.Intn(2)
		}
		destKind = kinds[k]
		input["dest"] = destKind
		switch k {
		case 0:
			if err := dst.SetRoot(sp); err != nil {
				serr = fmt.Errorf("SetRoot: %v", err)
				return
			}
			expect = srcVal.Clone()
			readBack = func() (capnp.Ptr, error) { return dst.Root() }
		case 1:
			h, err := capnp.NewRootStruct(first, capnp.ObjectSize{DataSize: 8, PointerCount: 2})
			if err != nil {
				serr = fmt.Errorf("NewRootStruct: %v", err)
				return
			}
			h.SetUint64(0, 0x1122334455667788)
			if err := h.SetPtr(1, sp); err != nil {
				serr = fmt.Errorf("SetPtr: %v", err)
				return
			}
			expect = srcVal.Clone()
			readBack = func() (capnp.Ptr, error) { return h.Ptr(1) }
			mutateDst = func() { h.SetUint64(0, 0) }
		case 2:
			pl, err := capnp.NewPointerList(first, 3)
			if err != nil {
				serr = fmt.Errorf("NewPointerList: %v", err)
				return
			}
			h, _ := capnp.NewRootStruct(first, capnp.ObjectSize{PointerCount: 1})
			_ = h.SetPtr(0, pl.ToPtr())
			if err := pl.Set(1, sp); err != nil {
				serr = fmt.Errorf("PointerList.Set: %v", err)
				return
			}
			expect = srcVal.Clone()
			readBack = func() (capnp.Ptr, error) { return pl.At(1) }
		case 3, 4:
			// destination struct of a different schema version
			sdw, spw := len(srcVal.Data)/8, len(srcVal.Ptrs)
			ddw := sdw + rng.PickInt(-1, 0, 0, 1, 2)
			dpw := spw + rng.PickInt(-1, 0, 0, 1, 2)
			if ddw < 0 {
				ddw = 0
			}
			if dpw < 0 {
				dpw = 0
			}
			if ddw+dpw == 0 {
				ddw = 1
			}
			input["dest_size"] = fmt.Sprintf("%d/%d from %d/%d", ddw, dpw, sdw, spw)
			if ddw < sdw || dpw < spw {
				rec.Count("copies_truncating", 1)
			}
			if ddw > sdw || dpw > spw {
				rec.Count("copies_extending", 1)
			}
			if k == 3 {
				n := rng.Range(1, 3)
				cl, err := capnp.NewCompositeList(first, capnp.ObjectSize{DataSize: capnp.Size(ddw * 8), PointerCount: uint16(dpw)}, int32(n))
				if err != nil {
					serr = fmt.Errorf("NewCompositeList: %v", err)
					return
				}
				h, _ := capnp.NewRootStruct(first, capnp.ObjectSize{PointerCount: 1})
				_ = h.SetPtr(0, cl.ToPtr())
				j := rng.Intn(n)
				// pre-fill the element so that "zero-extend" is observable
				e := cl.Struct(j)
				for w := 0; w < ddw; w++ {
					e.SetUint64(capnp.DataOffset(w*8), 0xdeadbeefdeadbeef)
				}
				for q := 0; q < dpw; q++ {
					_ = e.SetNewText(uint16(q), "old")
				}
				if err := cl.SetStruct(j, sp.Struct()); err != nil {
					serr = fmt.Errorf("List.SetStruct: %v", err)
					return
				}
				readBack = func() (capnp.Ptr, error) { return cl.Struct(j).ToPtr(), nil }
			} else {
				d, err := capnp.NewRootStruct(first, capnp.ObjectSize{DataSize: capnp.Size(ddw * 8), PointerCount: uint16(dpw)})
				if err != nil {
					serr = fmt.Errorf("NewRootStruct: %v", err)
					return
				}
				for w := 0; w < ddw; w++ {
					d.SetUint64(capnp.DataOffset(w*8), 0xdeadbeefdeadbeef)
				}
				for q := 0; q < dpw; q++ {
					_ = d.SetNewText(uint16(q), "old")
				}
				if err := d.CopyFrom(sp.Struct()); err != nil {
					serr = fmt.Errorf("Struct.CopyFrom: %v", err)
					return
				}
				readBack = func() (capnp.Ptr, error) { return d.ToPtr(), nil }
			}
			expect = adaptTop(srcVal, ddw, dpw)
		}
		rec.Count("dest_"+destKind, 1)
		// capability indices are re-homed: expected indices are assigned in
		// copy order; compare capabilities by identity instead of index.
		capsCopied = countCaps(expect)
		capIndices(expect, copiedIdx)
		expectIdx := expect
		if capsCopied > 0 {
			expectIdx = renumberCaps(expect, len(dst.CapTable)-capsCopied)
		}
		check := func(st string) bool {
			dst.ResetReadLimit(1 << 40)
			got, err := readBack()
			if err != nil {
				mis = &walk.Mismatch{Path: "dest", API: destKind, Msg: "read back failed: " + err.Error()}
				stage = st
				return false
			}
			gw := walk.NewGuided()
			if m := gw.Ptr(got, expectIdx, "dest", 1); m != nil {
				mis, stage = m, st
				return false
			}
			return true
		}
		if !check("after-copy") {
			return
		}
		// independence 1: scribble over every source byte
		for _, s := range g.segs {
			for i := range s {
				s[i] = 0x5A
			}
		}
		if !check("after-source-overwritten") {
			return
		}
		// restore the source, then mutate the destination and verify the source bytes
		for i, s := range g.segs {
			copy(s, srcCopy[i])
		}
		// same-message copy: copy the (struct) copy once more inside the
		// destination message; the second copy must be equal and must not
		// share storage with the first (scribbling over it leaves the first
		// intact).
		if expect.Kind == ref.KStruct && capsCopied == 0 {
			d1, err := readBack()
			if err == nil && d1.Struct().IsValid() {
				sdw, spw := len(expect.Data)/8, len(expect.Ptrs)
				var d2 capnp.Struct
				var extra capnp.Ptr
				var kind2 string
				switch rng.Intn(3) {
				case 0:
					kind2 = "same-message/Struct.CopyFrom"
					d2, err = capnp.NewStruct(first, capnp.ObjectSize{DataSize: capnp.Size(sdw * 8), PointerCount: uint16(spw)})
					if err == nil {
						err = d2.CopyFrom(d1.Struct())
					}
				case 1:
					kind2 = "same-message/List.SetStruct"
					var cl capnp.List
					cl, err = capnp.NewCompositeList(first, capnp.ObjectSize{DataSize: capnp.Size(sdw * 8), PointerCount: uint16(spw)}, 2)
					if err == nil {
						err = cl.SetStruct(1, d1.Struct())
						d2 = cl.Struct(1)
					}
				default:
					// assigning a list member copies it (copy-on-assign)
					kind2 = "same-message/SetPtr-of-list-member"
					var cl capnp.List
					cl, err = capnp.NewCompositeList(first, capnp.ObjectSize{DataSize: capnp.Size(sdw * 8), PointerCount: uint16(spw)}, 1)
					if err == nil {
						err = cl.SetStruct(0, d1.Struct())
					}
					if err == nil {
						var h capnp.Struct
						h, err = capnp.NewStruct(first, capnp.ObjectSize{PointerCount: 1})
						if err == nil {
							err = h.SetPtr(0, cl.Struct(0).ToPtr())
						}
						if err == nil {
							var p2 capnp.Ptr
							p2, err = h.Ptr(0)
							d2 = p2.Struct()
							// the member itself is a third copy; scribble over it too
							extra = cl.Struct(0).ToPtr()
						}
					}
				}
				rec.Count("dest_"+kind2, 1)
				if err != nil {
					serr = fmt.Errorf("%s: %v", kind2, err)
					return
				}
				dst.ResetReadLimit(1 << 40)
				if sdw+spw > 0 {
					if m := walk.NewGuided().Ptr(d2.ToPtr(), expectIdx, "copy2", 1); m != nil {
						mis, stage, destKind = m, "after-copy", kind2
						return
					}
					scribble(d2.ToPtr())
					if extra.IsValid() {
						scribble(extra)
					}
					if !check("after-" + kind2 + "-scribbled") {
						destKind = kind2
						return
					}
				}
			}
		}
		if mutateDst != nil {
			mutateDst()
		}
		if got, err := readBack(); err == nil {
			scribble(got)
		}
		for i, s := range g.segs {
			if !bytes.Equal(s, srcCopy[i]) {
				mis = &walk.Mismatch{Path: "source", API: destKind, Msg: "writing to the copy changed the source message"}
				stage = "after-dest-mutated"
				return
			}
		}
		// capabilities: every copied capability pointer indexes the
		// destination's own table, whose entry is the same capability and
		// holds its own reference.
		if capsCopied > 0 {
			stage = "caps"
			if len(dst.CapTable) < capsCopied {
				mis = &walk.Mismatch{Path: "dest", API: destKind, Msg: fmt.Sprintf("destination capability table has %d entries for %d copied capability pointers", len(dst.CapTable), capsCopied)}
				return
			}
		}
	})
	rec.Distinct(common.Hash64(append(segs, []byte(destKind))...))
	if p != nil {
		fail("panic/"+common.TopLibFrame(p.Stack)+"/copy-"+destKind, "panic during deep copy: "+p.Value, p.Stack)
		return
	}
	if serr != nil {
		fail("copy-error/"+destKind, "deep copy of a valid value failed: "+serr.Error(), "")
		return
	}
	if mis != nil {
		fail("copy-differs/"+destKind+"/"+stage+"/"+firstAPI(mis.API), "copy is not an equal, independent tree: "+mis.Error(), mis.Error())
		return
	}
	// C05-style validity of the destination message
	if data, err := dstMsg.Marshal(); err == nil {
		if sg, _, err := ref.ParseStream(data); err == nil {
			d := ref.NewDecoder(sg, true)
			if _, err := d.Root(); err != nil {
				fail("copy-invalid-encoding/"+destKind, "destination message is not valid for a strict reader: "+err.Error(), "")
				return
			}
			if ov := d.Overlaps(); ov != "" {
				fail("copy-overlap/"+destKind, "copied objects overlap: "+ov, "")
				return
			}
			rec.Count("dest_strictly_decoded", 1)
		}
	}
	// capability reference counting across Reset of either message
	if o.Caps && capsCopied > 0 {
		rec.Count("copies_with_caps", 1)
		srcMsg.Reset(nil)
		for i, h := range hooks {
			if n := atomic.LoadInt32(&h.shutdowns); n != 0 && copiedIdx[uint32(i)] {
				fail("cap-released-with-source/"+destKind, "a capability copied into another message was shut down when the source message was reset", "")
				return
			}
		}
		dstMsg.Reset(nil)
		for _, h := range hooks {
			if n := atomic.LoadInt32(&h.shutdowns); n != 1 {
				fail("cap-shutdown-count/"+destKind, fmt.Sprintf("capability shut down %d times after both messages were reset (want exactly 1)", n), "")
				return
			}
		}
	} else if o.Caps {
		srcMsg.Reset(nil)
		if dstMsg != nil {
			dstMsg.Reset(nil)
		}
	}
	if rec.WantSample() {
		rec.Sample(map[string]interface{}{"value": srcVal.String(), "dest": destKind, "arena": input["arena"]})
	}
}

func capIndices(v *ref.V, into map[uint32]bool) {
	if v.Kind == ref.KCap {
		into[v.Cap] = true
	}
	for _, c := range v.Ptrs {
		capIndices(c, into)
	}
	for _, c := range v.Elems {
		capIndices(c, into)
	}
}

func countCaps(v *ref.V) int {
	n := 0
	if v.Kind == ref.KCap {
		n = 1
	}
	for _, c := range v.Ptrs {
		n += countCaps(c)
	}
	for _, c := range v.Elems {
		n += countCaps(c)
	}
	return n
}

// renumberCaps returns a copy of v whose capability indices are base,
// base+1, … in copy (pre-order) order.
func renumberCaps(v *ref.V, base int) *ref.V {
	c := v.Clone()
	next := base
	var walkf func(x *ref.V)
	walkf = func(x *ref.V) {
		if x.Kind == ref.KCap {
			x.Cap = uint32(next)
			next++
		}
		for _, p := range x.Ptrs {
			walkf(p)
		}
		for _, p := range x.Elems {
			walkf(p)
		}
	}
	walkf(c)
	return c
}

// scribble writes through every data field of the object p points to.
func scribble(p capnp.Ptr) {
	if s := p.Struct(); s.IsValid() {
		n := int(s.Size().DataSize)
		for off := 0; off+8 <= n; off += 8 {
			s.SetUint64(capnp.DataOffset(off), ^s.Uint64(capnp.DataOffset(off)))
		}
		for i := 0; i < int(s.Size().PointerCount); i++ {
			if c, err := s.Ptr(uint16(i)); err == nil {
				scribble(c)
			}
		}
		return
	}
	if l := p.List(); l.IsValid() && l.Len() > 0 {
		st := l.Struct(0)
		if !st.IsValid() {
			capnp.BitList{List: l}.Set(0, !capnp.BitList{List: l}.At(0))
			return
		}
		sz := st.Size()
		switch {
		case sz.PointerCount == 0 && sz.DataSize == 1:
			capnp.UInt8List{List: l}.Set(0, ^capnp.UInt8List{List: l}.At(0))
		case sz.PointerCount == 0 && sz.DataSize == 2:
			capnp.UInt16List{List: l}.Set(0, ^capnp.UInt16List{List: l}.At(0))
		case sz.PointerCount == 0 && sz.DataSize == 4:
			capnp.UInt32List{List: l}.Set(0, ^capnp.UInt32List{List: l}.At(0))
		case sz.PointerCount == 0 && sz.DataSize == 8:
			capnp.UInt64List{List: l}.Set(0, ^capnp.UInt64List{List: l}.At(0))
		default:
			for i := 0; i < l.Len() && i < 4; i++ {
				scribble(l.Struct(i).ToPtr())
			}
		}
	}
}
