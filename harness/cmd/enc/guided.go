package main

import (
	"fmt"
	"io"

	capnp "capnproto.org/go/capnp/v3"
	"capnproto.org/go/capnp/v3/zverif/common"
	"capnproto.org/go/capnp/v3/zverif/ref"
	"capnproto.org/go/capnp/v3/zverif/walk"
)

var errEOF = io.EOF

func init() { modes["guided"] = runGuided }

// genEncoded draws a value, a physical relayout of it and a layout plan, and
// returns the physical tree together with its encoding.
func genEncoded(rng *common.RNG, o ref.GenOpts, upgrade bool) (logical, physical *ref.V, segs [][]byte, plan *ref.Plan) {
	logical = ref.GenValue(rng, o)
	physical = logical
	if rng.Chance(2, 3) {
		physical = ref.Relayout(rng, logical, upgrade)
	}
	plan = ref.RandomPlan(rng)
	segs = plan.Encode(physical)
	return
}

func countStats(rec *common.Recorder, st *ref.Stats) {
	for k, n := range st.Near {
		rec.Count("near_"+k, int64(n))
	}
	for k, n := range st.Far {
		rec.Count("far_"+k, int64(n))
	}
	for k, n := range st.DoubleFar {
		rec.Count("dfar_"+k, int64(n))
	}
	rec.Count("zero_structs", int64(st.ZeroStructs))
	rec.Count("negative_offsets", int64(st.NegativeOffsets))
}

// runGuided: C03.  R: any accessor result that differs from the reference
// decode of the same bytes on a spec-valid message.
func runGuided(cfg *common.Config, rec *common.Recorder, idx uint64, rng *common.RNG) {
	o := ref.GenOpts{Caps: true, Budget: rng.PickInt(5, 20, 40, 80), BigStruct: cfg.Tier == "thorough"}
	_, phys, segs, _ := genEncoded(rng, o, true)
	via := rng.Intn(numVia)
	if via == viaSingle && len(segs) != 1 {
		via = viaMulti
	}
	if idx%1000 == 0 {
		rec.Case(idx, fmt.Sprintf("guided via=%s nsegs=%d", viaNames[via], len(segs)))
	} else {
		rec.CaseQuiet(idx)
	}
	// Model self-check: the reference decoder must reproduce the tree the
	// reference encoder was given.  A failure here is a harness defect.
	dec := ref.NewDecoder(segs, true)
	got, err := dec.Root()
	if err != nil || !ref.Identical(got, phys) {
		rec.Inconclusive(fmt.Sprintf("reference model self-check failed at index %d: %v %s", idx, err, ref.Diff(got, phys)))
		return
	}
	if ov := dec.Overlaps(); ov != "" {
		rec.Inconclusive("reference encoder produced overlapping objects: " + ov)
		return
	}
	countStats(rec, dec.Stats)
	rec.Count("via_"+viaNames[via], 1)
	rec.Distinct(common.Hash64(segs...))

	input := map[string]interface{}{"segments": common.SegsHex(segs), "via": viaNames[via], "value": phys.String()}
	var mis *walk.Mismatch
	var compared int64
	p := common.Guard(func() {
		msg, g, err := present(segs, via, rng)
		if err != nil {
			mis = &walk.Mismatch{Path: "message", API: viaNames[via], Msg: "valid message refused: " + err.Error()}
			return
		}
		msg.TraverseLimit = 1 << 40
		root, err := msg.Root()
		if err != nil {
			mis = &walk.Mismatch{Path: "root", API: "Message.Root", Msg: "unexpected error: " + err.Error()}
			return
		}
		w := walk.NewGuided()
		if g != nil {
			w.InSeg = g.inSeg
		}
		mis = w.Ptr(root, got, "root", 1)
		compared = w.Compared
		if g != nil && !g.poisonIntact() {
			mis = &walk.Mismatch{Path: "message", API: "read-only", Msg: "bytes outside the segments were modified"}
		}
	})
	rec.Count("accessor_comparisons", compared)
	if p != nil {
		rec.Violate("panic/"+common.TopLibFrame(p.Stack)+"/valid-message", "panic reading a spec-valid message: "+p.Value, idx, p.Stack, input)
		return
	}
	if mis != nil {
		rec.Violate("diff/"+firstAPI(mis.API), "accessor disagrees with the reference decoder: "+mis.Error(), idx, mis.Error(), input)
		return
	}
	if rec.WantSample() {
		rec.Sample(map[string]interface{}{"value": phys.String(), "nsegs": len(segs), "via": viaNames[via], "comparisons": compared})
	}
}

// firstAPI keeps the outermost accessor of a chained API description so
// that signatures stay stable.
func firstAPI(api string) string {
	for i := 0; i < len(api); i++ {
		if api[i] == '>' {
			return api[:i]
		}
	}
	return api
}

var _ = capnp.Ptr{}
