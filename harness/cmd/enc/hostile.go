package main

import (
	"encoding/binary"
	"fmt"
	"regexp"
	"runtime/debug"

	capnp "capnproto.org/go/capnp/v3"
	"capnproto.org/go/capnp/v3/encoding/text"
	air "capnproto.org/go/capnp/v3/internal/aircraftlib"
	"capnproto.org/go/capnp/v3/pogs"
	"capnproto.org/go/capnp/v3/zverif/common"
	"capnproto.org/go/capnp/v3/zverif/ref"
	"capnproto.org/go/capnp/v3/zverif/walk"
)

func init() {
	modes["hostile"] = runHostile
	modes["random"] = runRandom
	modes["grid"] = runGrid
	modes["big"] = runBig
	for _, m := range []string{"hostile", "random", "grid", "big"} {
		setups[m] = func(cfg *common.Config, rec *common.Recorder) {
			// Stack red-zone: runaway recursion dies as "fatal error: stack
			// overflow" (attributed through the CASE log) long before it
			// could take the machine down.
			debug.SetMaxStack(256 << 20)
		}
	}
}

var numRe = regexp.MustCompile(`[0-9]+`)

func panicClass(v string) string {
	v = numRe.ReplaceAllString(v, "N")
	if len(v) > 60 {
		v = v[:60]
	}
	return v
}

// limits drawn per case
var travLimits = []uint64{64, 512, 4096, 64 << 10, 256 << 10, 0 /* default */, 1 << 40}
var depthLimits = []uint{1, 2, 3, 4, 5, 6, 7, 8, 63, 64, 65, 0 /* default */}

type exOpts struct {
	via       int
	T         uint64
	D         uint
	consumers bool
	maxOps    int64
	class     string // input class, part of signatures
	// other, if set, is a spec-valid encoding of (another layout of) the
	// value the hostile message was derived from: Equal is also run
	// between the two messages, in both argument orders.
	other [][]byte
}

// exercise presents segs to the library and runs the blind walker and the
// heavy consumers over the root.  It records C01 verdicts (panic, escape)
// when cfg.Prop is C01 and C02 verdicts (depth, budget) when it is C02.
func exercise(cfg *common.Config, rec *common.Recorder, idx uint64, segs [][]byte, o exOpts, rng *common.RNG, input interface{}) {
	var g *guarded
	var msg *capnp.Message
	var blind *walk.Blind
	fresh := func() (*capnp.Message, error) {
		m, gg, err := present(segs, o.via, rng)
		if err != nil {
			return nil, err
		}
		g = gg
		m.TraverseLimit = o.T
		m.DepthLimit = o.D
		return m, nil
	}
	viol := func(sig, what, detail string) {
		rec.Violate(sig, what, idx, detail, input)
	}
	step := func(name string, f func()) bool {
		p := common.Guard(f)
		if p != nil {
			viol("panic/"+common.TopLibFrame(p.Stack)+"/"+panicClass(p.Value), fmt.Sprintf("panic in %s on %s input: %s", name, o.class, p.Value), p.Stack)
			return false
		}
		return true
	}
	var refused bool
	ok := step("present", func() {
		var err error
		msg, err = fresh()
		if err != nil {
			refused = true
		}
	})
	if !ok {
		return
	}
	if refused {
		rec.Count("refused_by_framing", 1)
		return
	}
	// blind walk
	var root capnp.Ptr
	var rootOK bool
	step("walk", func() {
		blind = walk.NewBlind(o.maxOps)
		if g != nil {
			blind.InSeg = g.inSeg
		}
		d := int(o.D)
		if d == 0 {
			d = 64
		}
		blind.DepthLimit = d
		blind.ReadLimit = msg.VerifReadLimit
		var ok bool
		root, ok = derefRoot(blind, msg)
		rootOK = ok && root.IsValid()
		if ok {
			blind.Ptr(root, 1)
		}
	})
	if blind != nil {
		rec.Count("walker_ops", blind.Ops)
		rec.Count("derefs_ok", blind.Derefs)
		rec.Count("derefs_err", blind.Errors)
		for k, n := range blind.Kinds {
			rec.Count("seen_"+k, n)
		}
		rec.Max("max_level_reached", int64(blind.MaxLevel))
		if cfg.Prop == "C02" {
			T := o.T
			if T == 0 {
				T = 64 << 20
			}
			if blind.DepthViol != "" {
				viol("depth-exceeded/"+blind.DepthViol, fmt.Sprintf("dereference succeeded %d levels below the root with depth limit %d", blind.MaxLevel, blind.DepthLimit), "")
			}
			if blind.Spent > T {
				viol("traversal-overspent/walk", fmt.Sprintf("objects of total size %d handed out with traversal limit %d", blind.Spent, T), "")
			}
			if blind.BudgetViol != "" {
				viol("traversal-not-charged/"+blind.BudgetViol, "a successful dereference did not reduce the traversal budget by the object's size", "")
			}
		} else {
			for _, api := range blind.Escapes {
				viol("escape/"+api, "library handed out bytes from outside the supplied segments via "+api, "")
			}
		}
		if g != nil && !g.poisonIntact() {
			viol("write-outside-segments/read-path", "read-side operations modified memory outside the segments", "")
		}
	}
	if !o.consumers || !rootOK {
		return
	}
	rec.Count("consumer_runs", 1)
	// heavy consumers, each on a fresh message so budgets are independent
	withRoot := func(name string, f func(m *capnp.Message, r capnp.Ptr)) {
		step(name, func() {
			m, err := fresh()
			if err != nil {
				return
			}
			r, err := m.Root()
			if err != nil || !r.IsValid() {
				return
			}
			f(m, r)
		})
	}
	withRoot("Equal", func(m *capnp.Message, r capnp.Ptr) {
		_, _ = capnp.Equal(r, r)
		m2, err := fresh()
		if err == nil {
			if r2, err := m2.Root(); err == nil {
				_, _ = capnp.Equal(r, r2)
			}
		}
		if o.other != nil {
			og := guard(o.other)
			om := &capnp.Message{Arena: capnp.MultiSegment(og.segs), TraverseLimit: o.T, DepthLimit: o.D}
			if or, err := om.Root(); err == nil {
				rec.Count("equal_cross_message", 1)
				_, _ = capnp.Equal(r, or)
				_, _ = capnp.Equal(or, r)
			}
		}
	})
	withRoot("Canonicalize", func(m *capnp.Message, r capnp.Ptr) {
		if s := r.Struct(); s.IsValid() {
			b, err := capnp.Canonicalize(s)
			if err == nil {
				rec.Count("canonicalize_ok", 1)
				_ = b
			}
		}
	})
	withRoot("SetRoot/copy-single", func(m *capnp.Message, r capnp.Ptr) {
		dst, _, _ := capnp.NewMessage(capnp.SingleSegment(nil))
		if err := dst.SetRoot(r); err == nil {
			rec.Count("copy_ok", 1)
			dst.Reset(nil)
		}
	})
	withRoot("SetRoot/copy-multi", func(m *capnp.Message, r capnp.Ptr) {
		dst, _, _ := capnp.NewMessage(capnp.MultiSegment(nil))
		if err := dst.SetRoot(r); err == nil {
			_, _ = dst.Marshal()
		}
	})
	withRoot("text.Marshal", func(m *capnp.Message, r capnp.Ptr) {
		if s := r.Struct(); s.IsValid() {
			ids := []uint64{air.Z_TypeID, air.HoldsText_TypeID, air.Counter_TypeID, air.RWTestCapn_TypeID, air.Zserver_TypeID}
			id := ids[int(idx)%len(ids)]
			if _, err := text.Marshal(id, s); err == nil {
				rec.Count("text_ok", 1)
			}
		}
		if l := r.List(); l.IsValid() && l.Len() < 1<<16 {
			_, _ = text.MarshalList(air.Zjob_TypeID, l)
		}
	})
	withRoot("pogs.Extract", func(m *capnp.Message, r capnp.Ptr) {
		if s := r.Struct(); s.IsValid() {
			switch idx % 3 {
			case 0:
				var v holdsText
				if pogs.Extract(&v, air.HoldsText_TypeID, s) == nil {
					rec.Count("extract_ok", 1)
				}
			case 1:
				var v counter
				if pogs.Extract(&v, air.Counter_TypeID, s) == nil {
					rec.Count("extract_ok", 1)
				}
			default:
				var v zserver
				if pogs.Extract(&v, air.Zserver_TypeID, s) == nil {
					rec.Count("extract_ok", 1)
				}
			}
		}
	})
	withRoot("generated-accessors", func(m *capnp.Message, r capnp.Ptr) {
		if s := r.Struct(); s.IsValid() {
			z := air.Z{Struct: s}
			_ = z.Which()
			_ = z.String()
			c := air.Counter{Struct: s}
			if bl, err := c.Bitlist(); err == nil && bl.Len() < 1<<12 {
				_ = bl.String()
			}
			if wl, err := c.Wordlist(); err == nil && wl.Len() < 1<<12 {
				_ = wl.String()
			}
		}
	})
}

type holdsText struct {
	Txt    string
	Lst    []string
	Lstlst [][]string
}
type counter struct {
	Size     int64
	Words    string
	Wordlist []string
	Bitlist  []bool
}
type zjob struct {
	Cmd  string
	Args []string
}
type zserver struct {
	Waitingjobs []zjob
}

func derefRoot(b *walk.Blind, m *capnp.Message) (capnp.Ptr, bool) {
	// Message.Root is itself a pointer dereference (level 1).
	var p capnp.Ptr
	var err error
	b.Ops++
	before := m.VerifReadLimit()
	p, err = m.Root()
	if err != nil {
		b.Errors++
		return capnp.Ptr{}, false
	}
	if p.IsValid() {
		b.Derefs++
		b.MaxLevel = 1
		var fp uint64
		if s := p.Struct(); s.IsValid() {
			z := s.Size()
			fp = uint64(z.DataSize) + 8*uint64(z.PointerCount)
		}
		b.Spent += fp
		after := m.VerifReadLimit()
		if before < fp || before-after < fp {
			b.BudgetViol = "Message.Root/struct"
		}
	}
	return p, true
}

// ---------------------------------------------------------------------------
// structured hostile: valid message + boundary mutations of pointer words

func getW(segs [][]byte, s, w int) uint64 { return binary.LittleEndian.Uint64(segs[s][w*8:]) }
func putW(segs [][]byte, s, w int, v uint64) {
	binary.LittleEndian.PutUint64(segs[s][w*8:], v)
}

func setOff(p uint64, off int64) uint64 {
	return p&^0xfffffffc | uint64(uint32(int32(off))<<2)
}

// mutateWord rewrites the pointer word at pw with a boundary value and
// returns a short class name.
func mutateWord(rng *common.RNG, segs [][]byte, pw ref.PtrWord) string {
	p := getW(segs, pw.Seg, pw.W)
	L := int64(len(segs[pw.Seg]) / 8)
	pos := int64(pw.W)
	nseg := uint64(len(segs))
	offs := []int64{-(1 << 29), -1 - pos, -2 - pos, -1, 0, L - pos - 2, L - pos - 1, L - pos, 1<<29 - 1}
	sizes := []uint64{0, 1, 2, 0xffff}
	counts := []uint64{0, 1, 7, 8, 9, 1<<22 - 1, 1 << 22, 1<<22 + 1, 1<<29 - 1, uint64(L), uint64(L) * 8, uint64(L) * 64}
	switch rng.Intn(11) {
	case 0:
		putW(segs, pw.Seg, pw.W, setOff(p, offs[rng.Intn(len(offs))]))
		return "offset"
	case 1: // struct sizes
		q := p&^3 | 0
		q = q&0xffffffff | sizes[rng.Intn(4)]<<32 | sizes[rng.Intn(4)]<<48
		putW(segs, pw.Seg, pw.W, q)
		return "struct-size"
	case 2: // list type / count
		q := uint64(1) | p&0xfffffffc | uint64(rng.Intn(8))<<32 | counts[rng.Intn(len(counts))]<<35
		putW(segs, pw.Seg, pw.W, q)
		return "list-count"
	case 3: // composite tag-like word: struct pointer whose offset field is a count
		cnt := []int64{0, 1, 1<<29 - 1, -1, -(1 << 29), L}[rng.Intn(6)]
		q := setOff(0, cnt) | sizes[rng.Intn(3)]<<32 | sizes[rng.Intn(3)]<<48
		putW(segs, pw.Seg, pw.W, q)
		return "tag-like"
	case 4: // far pointer
		seg := []uint64{0, nseg - 1, nseg, 1<<32 - 1, uint64(rng.Intn(int(nseg)))}[rng.Intn(5)]
		tl := int64(L)
		if seg < nseg {
			tl = int64(len(segs[seg]) / 8)
		}
		off := []int64{0, tl - 2, tl - 1, tl, tl + 1, 1<<29 - 1}[rng.Intn(6)]
		if off < 0 {
			off = 0
		}
		q := uint64(2) | uint64(rng.Intn(2))<<2 | uint64(off)<<3&0xfffffff8 | seg<<32
		putW(segs, pw.Seg, pw.W, q)
		return "far"
	case 5: // other pointer
		q := uint64(3) | uint64(rng.PickInt(0, 0, 1, 0x3fffffff))<<2 | rng.PickU64(0, 1, 1<<31, 1<<32-1)<<32
		putW(segs, pw.Seg, pw.W, q)
		return "other"
	case 6: // composite list pointer with boundary word count
		q := uint64(1) | p&0xfffffffc | 7<<32 | counts[rng.Intn(len(counts))]<<35
		putW(segs, pw.Seg, pw.W, q)
		return "composite-count"
	case 7: // bit flip
		putW(segs, pw.Seg, pw.W, p^(1<<uint(rng.Intn(64))))
		return "bitflip"
	case 8: // point at itself / at an ancestor (cycles)
		q := setOff(p, -1-int64(rng.Intn(int(pos)+1)))
		if q&3 == 3 || q&3 == 2 {
			q &^= 3
		}
		putW(segs, pw.Seg, pw.W, q)
		return "backward"
	case 9: // swap with another word of the message
		s2 := rng.Intn(len(segs))
		if len(segs[s2]) >= 8 {
			w2 := rng.Intn(len(segs[s2]) / 8)
			putW(segs, pw.Seg, pw.W, getW(segs, s2, w2))
		}
		return "swap"
	default:
		putW(segs, pw.Seg, pw.W, rng.Uint64())
		return "random-word"
	}
}

func cloneSegs(segs [][]byte) [][]byte {
	out := make([][]byte, len(segs))
	for i, s := range segs {
		out[i] = append(make([]byte, 0, len(s)), s...)
	}
	return out
}

func drawLimits(rng *common.RNG) (uint64, uint) {
	return travLimits[rng.Intn(len(travLimits))], depthLimits[rng.Intn(len(depthLimits))]
}

func runHostile(cfg *common.Config, rec *common.Recorder, idx uint64, rng *common.RNG) {
	o := ref.GenOpts{Caps: true, Budget: rng.PickInt(5, 15, 40), NoVoidBig: true}
	logical, _, segs, _ := genEncoded(rng, o, true)
	dec := ref.NewDecoder(segs, false)
	if _, err := dec.Root(); err != nil {
		rec.Inconclusive("reference decode of a reference encoding failed: " + err.Error())
		return
	}
	segs = cloneSegs(segs)
	nm := rng.Range(1, 3)
	classes := ""
	for k := 0; k < nm; k++ {
		pw := dec.PtrWords[rng.Intn(len(dec.PtrWords))]
		c := mutateWord(rng, segs, pw)
		rec.Count("mut_"+c, 1)
		rec.Count("mutrole_"+pw.Role, 1)
		classes += c + "@" + pw.Role + " "
	}
	via := rng.Intn(numVia)
	if via == viaSingle && len(segs) != 1 {
		via = viaCustomArena
	}
	T, D := drawLimits(rng)
	rec.Case(idx, fmt.Sprintf("hostile via=%s T=%d D=%d mut=%s", viaNames[via], T, D, classes))
	rec.Distinct(common.Hash64(segs...))
	rec.Count("via_"+viaNames[via], 1)
	consumers := T != 1<<40 && cfg.Prop == "C01"
	var other [][]byte
	if consumers {
		// another (valid) layout of the same value, for cross-message Equal
		other = ref.RandomPlan(rng).Encode(ref.Relayout(rng, logical, true))
	}
	exercise(cfg, rec, idx, segs, exOpts{via: via, T: T, D: D, consumers: consumers, maxOps: 20000, class: "mutated-valid", other: other}, rng,
		map[string]interface{}{"segments": common.SegsHex(segs), "via": viaNames[via], "T": T, "D": D, "mutations": classes})
	if rec.WantSample() {
		rec.Sample(map[string]interface{}{"segments": common.SegsHex(segs), "mutations": classes, "via": viaNames[via], "T": T, "D": D})
	}
}

// random words in 1-6 segments of 0-32 words (also non-word-aligned lengths
// through the custom arena).
func runRandom(cfg *common.Config, rec *common.Recorder, idx uint64, rng *common.RNG) {
	ns := rng.Range(1, 6)
	segs := make([][]byte, ns)
	for i := range segs {
		n := rng.Range(0, 32) * 8
		if i == 0 && n == 0 && rng.Chance(9, 10) {
			n = 8
		}
		b := rng.Bytes(n)
		// bias: many small words so that pointers resolve
		for w := 0; w+8 <= n; w += 8 {
			switch rng.Intn(4) {
			case 0:
				binary.LittleEndian.PutUint64(b[w:], smallPtr(rng, ns, n/8))
			case 1:
				binary.LittleEndian.PutUint64(b[w:], 0)
			}
		}
		segs[i] = b
	}
	via := rng.Intn(numVia)
	if via == viaSingle {
		segs = segs[:1]
	}
	unaligned := false
	if via == viaCustomArena && rng.Chance(1, 3) {
		// segment lengths that are not a multiple of 8
		i := rng.Intn(len(segs))
		cut := rng.Intn(8)
		if len(segs[i]) >= cut {
			segs[i] = segs[i][:len(segs[i])-cut]
			unaligned = true
		}
	}
	if via == viaMulti && rng.Chance(1, 6) {
		i := rng.Intn(len(segs))
		if len(segs[i]) >= 3 {
			segs[i] = segs[i][:len(segs[i])-3]
			unaligned = true
		}
	}
	if unaligned && (via == viaUnmarshal || via == viaUnmarshalPacked || via == viaDecoder || via == viaPackedDecoder) {
		unaligned = false
	}
	T, D := drawLimits(rng)
	rec.Case(idx, fmt.Sprintf("random via=%s nsegs=%d T=%d D=%d unaligned=%v", viaNames[via], len(segs), T, D, unaligned))
	rec.Distinct(common.Hash64(segs...))
	rec.Count("via_"+viaNames[via], 1)
	if unaligned {
		rec.Count("unaligned_segments", 1)
		// framing entry points cannot carry these
		for i := range segs {
			_ = i
		}
	}
	if unaligned && via != viaCustomArena && via != viaMulti {
		return
	}
	exercise(cfg, rec, idx, segs, exOpts{via: via, T: T, D: D, consumers: T != 1<<40 && cfg.Prop == "C01", maxOps: 20000, class: "random-words"}, rng,
		map[string]interface{}{"segments": common.SegsHex(segs), "via": viaNames[via], "T": T, "D": D})
}

// smallPtr makes a plausible pointer word for a message with ns segments of
// about l words.
func smallPtr(rng *common.RNG, ns, l int) uint64 {
	off := int64(rng.Range(-3, l+1))
	switch rng.Intn(5) {
	case 0:
		return setOff(0, off) | uint64(rng.Intn(3))<<32 | uint64(rng.Intn(3))<<48
	case 1:
		return setOff(1, off) | uint64(rng.Intn(8))<<32 | uint64(rng.PickInt(0, 1, 2, 8, 64))<<35
	case 2:
		o := uint64(rng.Intn(l + 2))
		return 2 | uint64(rng.Intn(2))<<2 | o<<3 | uint64(rng.Intn(ns+1))<<32
	case 3:
		return 3 | uint64(rng.Intn(3))<<32
	default:
		// composite tag
		return setOff(0, int64(rng.PickInt(0, 1, 2, 3, 1<<29-1, -1))) | uint64(rng.Intn(3))<<32 | uint64(rng.Intn(3))<<48
	}
}

// ---------------------------------------------------------------------------
// grid: every message of 1..3 words in one segment over a fixed alphabet of
// interesting pointer words, plus a two-segment variant.  The index space is
// the grid itself; indices beyond its size are no-ops.

var gridAlphabet = func() []uint64 {
	var a []uint64
	a = append(a, 0, 1, 0xffffffffffffffff, 0x00000001fffffffc)
	for _, off := range []int64{-2, -1, 0, 1, 2, 1<<29 - 1, -(1 << 29)} {
		for _, sz := range [][2]uint64{{0, 0}, {1, 0}, {0, 1}, {1, 1}, {0xffff, 0xffff}} {
			a = append(a, setOff(0, off)|sz[0]<<32|sz[1]<<48)
		}
		for et := uint64(0); et < 8; et++ {
			for _, n := range []uint64{0, 1, 2, 9, 1<<29 - 1} {
				a = append(a, setOff(1, off)|et<<32|n<<35)
			}
		}
	}
	for _, seg := range []uint64{0, 1, 2, 1<<32 - 1} {
		for _, off := range []uint64{0, 1, 2, 3, 1<<29 - 1} {
			a = append(a, 2|off<<3|seg<<32, 6|off<<3|seg<<32)
		}
	}
	a = append(a, 3, 3|1<<32, 3|0xffffffff<<32, 7, 3|4)
	return a
}()

// GridSize is the number of grid cases: roots × second words (one segment of
// up to 3 words, third word fixed per sub-grid) — see runGrid.
func gridSize() uint64 {
	n := uint64(len(gridAlphabet))
	return n + n*n + n*n // 1-word, 2-word, 2-word + second segment
}

func runGrid(cfg *common.Config, rec *common.Recorder, idx uint64, rng *common.RNG) {
	n := uint64(len(gridAlphabet))
	if idx >= gridSize() {
		return
	}
	var segs [][]byte
	w := func(vals ...uint64) []byte {
		b := make([]byte, 8*len(vals))
		for i, v := range vals {
			binary.LittleEndian.PutUint64(b[i*8:], v)
		}
		return b
	}
	switch {
	case idx < n:
		segs = [][]byte{w(gridAlphabet[idx])}
	case idx < n+n*n:
		k := idx - n
		// three words: root, second word from the alphabet, then a fixed
		// struct-ish tail so that in-bounds targets exist
		segs = [][]byte{w(gridAlphabet[k/n], gridAlphabet[k%n], 0x0000000100000000)}
	default:
		k := idx - n - n*n
		segs = [][]byte{w(gridAlphabet[k/n], 0), w(gridAlphabet[k%n], 0x0001000000000000, 0)}
	}
	if idx%2000 == 0 {
		rec.Case(idx, "grid")
	} else {
		rec.CaseQuiet(idx)
	}
	rec.Distinct(common.Hash64(segs...))
	rec.Count("grid_cases", 1)
	via := viaMulti
	if idx%3 == 1 {
		via = viaCustomArena
	} else if idx%3 == 2 {
		via = viaUnmarshal
	}
	exercise(cfg, rec, idx, segs, exOpts{via: via, T: 4096, D: uint(idx % 5), consumers: true, maxOps: 4000, class: "grid"}, nil,
		map[string]interface{}{"segments": common.SegsHex(segs), "via": viaNames[via]})
}

// ---------------------------------------------------------------------------
// big objects, with default and raised traversal limit (so that the limit
// cannot mask a crash).

func runBig(cfg *common.Config, rec *common.Recorder, idx uint64, rng *common.RNG) {
	type shape struct {
		name  string
		build func() [][]byte
	}
	listMsg := func(et, n int, bytes int) [][]byte {
		b := make([]byte, 8+((bytes+7)&^7))
		binary.LittleEndian.PutUint64(b, uint64(1)|uint64(et)<<32|uint64(n)<<35)
		for i := 8; i < len(b); i += 997 {
			b[i] = byte(i)
		}
		return [][]byte{b}
	}
	compositeZero := func(n int64, words int) [][]byte {
		b := make([]byte, 16)
		binary.LittleEndian.PutUint64(b, uint64(1)|7<<32|uint64(words)<<35)
		binary.LittleEndian.PutUint64(b[8:], setOff(0, n))
		return [][]byte{b}
	}
	shapes := []shape{
		{"bitlist-2^22-8", func() [][]byte { return listMsg(ref.ETBit, 1<<22-8, 1<<19) }},
		{"bitlist-2^22", func() [][]byte { return listMsg(ref.ETBit, 1<<22, 1<<19) }},
		{"bitlist-2^22+8", func() [][]byte { return listMsg(ref.ETBit, 1<<22+8, 1<<19+1) }},
		{"bitlist-2^26", func() [][]byte { return listMsg(ref.ETBit, 1<<26, 1<<23) }},
		{"bytelist-2^24", func() [][]byte { return listMsg(ref.ETByte1, 1<<24, 1<<24) }},
		{"u64list-2^21", func() [][]byte { return listMsg(ref.ETByte8, 1<<21, 1<<24) }},
		{"voidlist-max", func() [][]byte { return listMsg(ref.ETVoid, 1<<29-1, 0) }},
		{"bitlist-claimed-max", func() [][]byte { return listMsg(ref.ETBit, 1<<29-1, 64) }},
		{"composite-zero-size-max", func() [][]byte { return compositeZero(1<<29-1, 0) }},
		{"composite-zero-size-negative", func() [][]byte { return compositeZero(-1, 0) }},
		{"composite-zero-size-min", func() [][]byte { return compositeZero(-(1 << 29), 0) }},
		{"ptrlist-2^20", func() [][]byte { return listMsg(ref.ETPtr, 1<<20, 1<<23) }},
	}
	limits := []uint64{0, 1 << 40}
	k := int(idx) % (len(shapes) * len(limits))
	sh := shapes[k/len(limits)]
	T := limits[k%len(limits)]
	inner := sh.build()
	// wrap: root struct with one pointer to the big object, so that struct
	// accessors and consumers reach it too
	root := make([]byte, 16)
	binary.LittleEndian.PutUint64(root, 0|uint64(1)<<48) // struct, offset 0, 0 data, 1 ptr
	copy(root[8:], inner[0][:8])
	seg := append(root, inner[0][8:]...)
	segs := [][]byte{seg}
	via := []int{viaMulti, viaCustomArena, viaUnmarshal}[int(idx/uint64(len(shapes)*len(limits)))%3]
	rec.Case(idx, fmt.Sprintf("big shape=%s T=%d via=%s", sh.name, T, viaNames[via]))
	rec.Distinct(common.HashString(fmt.Sprintf("%s/%d/%d", sh.name, T, via)))
	rec.Count("big_"+sh.name, 1)
	exercise(cfg, rec, idx, segs, exOpts{via: via, T: T, D: 0, consumers: T == 0, maxOps: 50000, class: "big/" + sh.name}, rng,
		map[string]interface{}{"shape": sh.name, "T": T, "via": viaNames[via]})
}
