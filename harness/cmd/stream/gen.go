package main

import (
	"fmt"
	"strings"

	"capnproto.org/go/capnp/v3/zverif/common"
)

// ---------------------------------------------------------------------------
// Payload grammar for C13.
//
// A payload is a concatenation of runs:
//   Z(n)  n all-zero words
//   N(n)  n words without any zero byte
//   O(n)  n words with exactly one zero byte (position rotates)
//   T(n)  n words with exactly two zero bytes (positions rotate)
//   S(n)  n words with exactly seven zero bytes (position of the non-zero byte rotates)
//   R(n)  n words whose bytes are zero with probability 1/2
// with run lengths drawn from the boundary set {0,1,254,255,256,257,510,511}
// or small random values.

var boundaryLens = []int{0, 1, 254, 255, 256, 257, 510, 511}

type payloadStats struct {
	runs map[string]int64 // "Z_255" …
}

func nz(rng *common.RNG) byte { return byte(1 + rng.Intn(255)) }

func appendWord(x []byte, rng *common.RNG, zeroMask byte) []byte {
	for b := uint(0); b < 8; b++ {
		if zeroMask&(1<<b) != 0 {
			x = append(x, 0)
		} else {
			x = append(x, nz(rng))
		}
	}
	return x
}

// genPayload builds a payload of at most maxWords words.  long enables the
// boundary-length runs (254..511 words).
func genPayload(rng *common.RNG, maxWords int, long bool, st *payloadStats) (x []byte, desc string) {
	var parts []string
	nruns := rng.Range(1, 7)
	rot := rng.Intn(8)
	words := 0
	for r := 0; r < nruns && words < maxWords; r++ {
		kind := "ZNOTSR"[rng.Intn(6)]
		if rng.Chance(1, 3) {
			kind = "ZN"[rng.Intn(2)] // zero and literal runs are the interesting ones
		}
		var n int
		if long && rng.Chance(1, 2) {
			n = boundaryLens[rng.Intn(len(boundaryLens))]
		} else {
			switch rng.Intn(4) {
			case 0:
				n = rng.Intn(2)
			case 1:
				n = rng.Range(2, 4)
			default:
				n = rng.Range(1, 24)
			}
		}
		if words+n > maxWords {
			n = maxWords - words
		}
		words += n
		for i := 0; i < n; i++ {
			switch kind {
			case 'Z':
				x = appendWord(x, rng, 0xff)
			case 'N':
				x = appendWord(x, rng, 0x00)
			case 'O':
				x = appendWord(x, rng, 1<<uint(rot%8))
				rot++
			case 'T':
				a := uint(rot % 8)
				b := (a + 1 + uint(rot/8)%7) % 8 // distance 1..7: every pair of positions comes up
				x = appendWord(x, rng, 1<<a|1<<b)
				rot++
			case 'S':
				x = appendWord(x, rng, ^byte(1<<uint(rot%8)))
				rot++
			case 'R':
				x = appendWord(x, rng, byte(rng.Uint64()))
			}
		}
		parts = append(parts, fmt.Sprintf("%c%d", kind, n))
		if st != nil {
			st.runs[fmt.Sprintf("%c_%s", kind, lenClass(n))]++
		}
	}
	return x, strings.Join(parts, ",")
}

func lenClass(n int) string {
	switch n {
	case 0, 1, 254, 255, 256, 257, 510, 511:
		return fmt.Sprint(n)
	}
	switch {
	case n < 254:
		return "2_253"
	case n < 510:
		return "258_509"
	}
	return "other"
}

// ---------------------------------------------------------------------------
// Message sequences for C14 (and for the framed inputs of C13).

// genSegment returns a word-aligned segment of nw words whose content mixes
// zero words, dense words and sparse words (so that packing it exercises all
// three item kinds).
func genSegment(rng *common.RNG, nw int) []byte {
	s := make([]byte, 0, nw*8)
	for len(s) < nw*8 {
		run := rng.Range(1, 6)
		kind := rng.Intn(4)
		for i := 0; i < run && len(s) < nw*8; i++ {
			switch kind {
			case 0:
				s = appendWord(s, rng, 0xff)
			case 1:
				s = appendWord(s, rng, 0x00)
			case 2:
				s = appendWord(s, rng, byte(rng.Uint64()))
			default:
				s = appendWord(s, rng, byte(rng.Uint64())|byte(rng.Uint64()))
			}
		}
	}
	return s[: nw*8 : nw*8]
}

// genMessage returns the segments of one message: 1..40 segments, empty
// segments included.  budget is the number of words the message may use.
func genMessage(rng *common.RNG, budget int) [][]byte {
	var nsegs int
	switch rng.Intn(10) {
	case 0, 1, 2:
		nsegs = 1
	case 3:
		nsegs = 2
	case 4:
		nsegs = 3
	case 5:
		nsegs = rng.PickInt(39, 40)
	case 6:
		nsegs = rng.PickInt(4, 5, 8, 16)
	default:
		nsegs = rng.Range(1, 40)
	}
	segs := make([][]byte, nsegs)
	for i := range segs {
		var nw int
		switch rng.Intn(8) {
		case 0, 1:
			nw = 0
		case 2:
			nw = 1
		case 3:
			nw = rng.Range(2, 3)
		case 4:
			if rng.Chance(1, 6) {
				nw = rng.Range(255, 300) // long enough for a 255-word run when packed
			} else {
				nw = rng.Range(4, 40)
			}
		default:
			nw = rng.Range(0, 12)
		}
		if nw > budget {
			nw = budget
		}
		budget -= nw
		segs[i] = genSegment(rng, nw)
	}
	return segs
}

func segClass(n int) string {
	switch {
	case n == 1:
		return "1"
	case n == 2:
		return "2"
	case n <= 8:
		return "3_8"
	case n <= 38:
		return "9_38"
	case n <= 40:
		return "39_40"
	}
	return "gt40"
}

func segsEqual(a, b [][]byte) bool {
	if len(a) != len(b) {
		return false
	}
	for i := range a {
		if string(a[i]) != string(b[i]) {
			return false
		}
	}
	return true
}

func cloneSegs(a [][]byte) [][]byte {
	out := make([][]byte, len(a))
	for i := range a {
		out[i] = append([]byte(nil), a[i]...)
	}
	return out
}
