package main

// Independent reference for "Serialization Over a Stream"
// (https://capnproto.org/encoding.html#serialization-over-a-stream):
//
//   (4 bytes)   number of segments minus one, little endian
//   (N*4 bytes) size of each segment in words, little endian
//   (0|4 bytes) padding to the next word boundary
//   contents of each segment, in order
//
// Shares no code with message.go.

import "math/big"

func putU32(b []byte, v uint32) {
	b[0] = byte(v)
	b[1] = byte(v >> 8)
	b[2] = byte(v >> 16)
	b[3] = byte(v >> 24)
}

func getU32(b []byte) uint32 {
	return uint32(b[0]) | uint32(b[1])<<8 | uint32(b[2])<<16 | uint32(b[3])<<24
}

// refHeader builds the segment table for the given header field (segments
// minus one) and size words.  len(sizes) may differ from field+1 (hostile
// inputs); the table is written as far as sizes go and padded to a word.
func refHeader(field uint32, sizes []uint32) []byte {
	n := 4 + 4*len(sizes)
	if n%8 != 0 {
		n += 4
	}
	h := make([]byte, n)
	putU32(h, field)
	for i, s := range sizes {
		putU32(h[4+4*i:], s)
	}
	return h
}

// refSerialize frames one message.  Every segment must be word aligned.
func refSerialize(segs [][]byte) []byte {
	sizes := make([]uint32, len(segs))
	for i, s := range segs {
		if len(s)%8 != 0 {
			panic("refSerialize: unaligned segment")
		}
		sizes[i] = uint32(len(s) / 8)
	}
	out := refHeader(uint32(len(segs)-1), sizes)
	for _, s := range segs {
		out = append(out, s...)
	}
	return out
}

type frameStatus int

const (
	frameOK          frameStatus = iota
	frameEmpty                   // no bytes at all
	frameShortHeader             // ends inside the segment table
	frameShortBody               // table complete, segment data incomplete
)

func (s frameStatus) String() string {
	switch s {
	case frameOK:
		return "complete"
	case frameEmpty:
		return "empty"
	case frameShortHeader:
		return "short-header"
	case frameShortBody:
		return "short-body"
	}
	return "?"
}

type refFrame struct {
	field    uint32   // header field: number of segments minus one
	nsegs    uint64   // field + 1
	hdrLen   *big.Int // exact table length in bytes (may exceed the input)
	bodyLen  *big.Int // exact sum of the segment sizes in bytes (nil if the table is incomplete)
	frameLen int      // hdrLen+bodyLen when status == frameOK
	segs     [][]byte // when status == frameOK: sub-slices of the input
}

// refParseFrame parses the first frame of data.  Sizes are summed in
// 64 bits with an explicit bound on the segment count (no overflow possible),
// header and frame lengths in big integers.
func refParseFrame(data []byte) (f refFrame, st frameStatus) {
	if len(data) == 0 {
		return f, frameEmpty
	}
	if len(data) < 4 {
		return f, frameShortHeader
	}
	f.field = getU32(data)
	f.nsegs = uint64(f.field) + 1
	hl := new(big.Int).SetUint64(f.nsegs)
	hl.Add(hl, big.NewInt(1))
	hl.Mul(hl, big.NewInt(4))
	if new(big.Int).Mod(hl, big.NewInt(8)).Sign() != 0 {
		hl.Add(hl, big.NewInt(4))
	}
	f.hdrLen = hl
	if hl.Cmp(big.NewInt(int64(len(data)))) > 0 {
		return f, frameShortHeader
	}
	hdr := int(hl.Int64())
	// The table is inside the input, so nsegs < len(data)/4; each size is
	// < 2^35 bytes: a uint64 sum cannot overflow below 2^29 segments.
	if f.nsegs >= 1<<28 {
		panic("refParseFrame: input too large for the oracle")
	}
	var sum uint64
	for i := uint64(0); i < f.nsegs; i++ {
		sum += uint64(getU32(data[4+4*i:])) * 8
	}
	body := new(big.Int).SetUint64(sum)
	f.bodyLen = body
	total := new(big.Int).Add(hl, body)
	if total.Cmp(big.NewInt(int64(len(data)))) > 0 {
		return f, frameShortBody
	}
	f.frameLen = int(total.Int64())
	pos := hdr
	f.segs = make([][]byte, f.nsegs)
	for i := uint64(0); i < f.nsegs; i++ {
		n := int(getU32(data[4+4*i:])) * 8
		f.segs[i] = data[pos : pos+n]
		pos += n
	}
	return f, frameOK
}

// refParseStream splits data into complete frames; rest is what follows the
// last complete frame and st classifies rest (frameEmpty: clean boundary).
func refParseStream(data []byte) (frames []refFrame, bounds []int, st frameStatus) {
	pos := 0
	for {
		f, s := refParseFrame(data[pos:])
		if s != frameOK {
			return frames, bounds, s
		}
		frames = append(frames, f)
		pos += f.frameLen
		bounds = append(bounds, pos)
	}
}
