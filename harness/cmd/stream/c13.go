package main

// C13 — packed encoding is a lossless, spec-conformant, truncation-safe codec.
//
// Modes:
//   payload  x -> lib Pack -> {RefUnpack, lib Unpack, Reader.Read, Reader.ReadWord} == x,
//            x -> RefPack(style) -> lib decoders == x, and the same through
//            MarshalPacked/UnmarshalPacked/NewPackedEncoder/NewPackedDecoder.
//   cuts     every prefix of a valid packed stream: acceptability and output of
//            the three library decoders against RefUnpack; framed streams also
//            through NewPackedDecoder / UnmarshalPacked.
//   mutate   tag/count mutations of valid streams and random bytes: same oracles.

import (
	"bytes"
	"fmt"
	"io"

	capnp "capnproto.org/go/capnp/v3"
	"capnproto.org/go/capnp/v3/internal/packed"
	"capnproto.org/go/capnp/v3/zverif/common"
)

type ctx struct {
	rec *common.Recorder
	cfg *common.Config
	idx uint64
}

func (c *ctx) viol(sig, what, detail string, input interface{}) {
	c.rec.Violate(sig, what, c.idx, detail, input)
}

func (c *ctx) panicked(p *common.Panic, entry, cls string, input interface{}) bool {
	if p == nil {
		return false
	}
	c.viol("panic/"+entry+"/"+cls, "panic in "+entry+": "+p.Value, p.Stack, input)
	return true
}

func errStr(e error) string {
	if e == nil {
		return "<nil>"
	}
	return e.Error()
}

func newMsg(segs [][]byte, single bool) *capnp.Message {
	cp := cloneSegs(segs)
	if single && len(cp) == 1 {
		return &capnp.Message{Arena: capnp.SingleSegment(cp[0])}
	}
	return &capnp.Message{Arena: capnp.MultiSegment(cp)}
}

func msgSegs(m *capnp.Message) ([][]byte, error) {
	n := m.NumSegments()
	out := make([][]byte, 0, n)
	for i := int64(0); i < n; i++ {
		s, err := m.Segment(capnp.SegmentID(i))
		if err != nil {
			return nil, err
		}
		out = append(out, s.Data())
	}
	return out, nil
}

// ---------------------------------------------------------------------------
// The core oracle: one packed input, three library decoders, one reference.

type inputVerdict struct {
	out []byte
	st  refStatus
}

func (c *ctx) checkPackedInput(in []byte, origin string, rng *common.RNG) inputVerdict {
	rec := c.rec
	out, st, _ := refUnpack(in)
	cls := st.String()
	rec.Count("input_class_"+cls, 1)
	inp := map[string]interface{}{"packed_hex": common.Hex(in), "origin": origin, "ref_status": cls, "ref_output_len": len(out)}
	limit := 1024*len(in) + 64

	// (1) one-shot.
	var o1 []byte
	var e1 error
	p := common.Guard(func() { o1, e1 = packed.Unpack(nil, in) })
	rec.Count("oneshot_calls", 1)
	if !c.panicked(p, "packed.Unpack", cls, inp) {
		if st == refOK {
			if e1 != nil {
				c.viol("reject/packed.Unpack/complete", "valid packed input rejected: "+errStr(e1), "", inp)
			} else if !bytes.Equal(o1, out) {
				c.viol("diff/packed.Unpack/complete", "one-shot output differs from the reference decoder",
					fmt.Sprintf("lib=%s\nref=%s", hexCap(o1, 2048), hexCap(out, 2048)), inp)
			}
		} else if e1 == nil {
			c.viol("accept/packed.Unpack/"+cls, fmt.Sprintf("truncated input accepted without error (%d bytes returned, only %d determined by the input)", len(o1), len(out)),
				fmt.Sprintf("lib=%s\nref=%s", hexCap(o1, 2048), hexCap(out, 2048)), inp)
		}
		if e1 == nil && len(o1) > 1024*len(in) {
			c.viol("growth/packed.Unpack", fmt.Sprintf("output %d bytes from %d input bytes exceeds 1024x", len(o1), len(in)), "", inp)
		}
	}

	// (2) Reader.Read with random read sizes.
	rc := genReaderCfg(rng)
	rec.Count("bufio_"+bufClass(rc.bufSize), 1)
	rec.Count("chunk_"+chunkClass(rc.maxChunk), 1)
	var o2 []byte
	var e2 error
	var stuck bool
	rr := rng.Fork()
	p = common.Guard(func() { o2, e2, stuck = drainRead(rc.packedReader(in), rr, limit) })
	rec.Count("read_streams", 1)
	c.judgeStream("Reader.Read", p, o2, e2, stuck, out, st, inp, rc)

	// (3) Reader.ReadWord.
	rc3 := genReaderCfg(rng)
	var o3 []byte
	var e3 error
	p = common.Guard(func() { o3, e3, stuck = drainWords(rc3.packedReader(in), limit) })
	rec.Count("readword_streams", 1)
	c.judgeStream("Reader.ReadWord", p, o3, e3, stuck, out, st, inp, rc3)

	return inputVerdict{out, st}
}

func (c *ctx) judgeStream(entry string, p *common.Panic, o []byte, e error, stuck bool, out []byte, st refStatus, inp map[string]interface{}, rc readerCfg) {
	cls := st.String()
	if c.panicked(p, entry, cls, inp) {
		return
	}
	cfg := fmt.Sprintf("bufio=%d maxChunk=%d eofWithData=%v", rc.bufSize, rc.maxChunk, rc.eofWithData)
	if stuck {
		c.viol("stuck/"+entry+"/"+cls, "streaming decoder made no progress or produced unbounded output", cfg, inp)
		return
	}
	if st == refOK {
		if e != io.EOF {
			c.viol("reject/"+entry+"/complete", "valid packed input not terminated by io.EOF: "+errStr(e), cfg, inp)
		} else if !bytes.Equal(o, out) {
			c.viol("diff/"+entry+"/complete", "streamed output differs from the reference decoder",
				fmt.Sprintf("%s\nlib=%s\nref=%s", cfg, hexCap(o, 2048), hexCap(out, 2048)), inp)
		}
		return
	}
	if e == io.EOF {
		c.viol("eof/"+entry+"/"+cls, fmt.Sprintf("truncated input reported as clean io.EOF after %d bytes", len(o)), cfg, inp)
	}
	if !hasPrefix(out, o) {
		c.viol("invented/"+entry+"/"+cls, "bytes delivered before the error are not determined by the input",
			fmt.Sprintf("%s\nlib=%s\nref=%s", cfg, hexCap(o, 2048), hexCap(out, 2048)), inp)
	}
}

// checkPackedMessageAPIs judges NewPackedDecoder and UnmarshalPacked on an
// arbitrary packed input, deriving the expectation from the reference
// unpacker and the reference frame parser.
func (c *ctx) checkPackedMessageAPIs(in []byte, v inputVerdict, origin string, rng *common.RNG) {
	rec := c.rec
	cls := v.st.String()
	frames, _, rest := refParseStream(v.out)
	inp := map[string]interface{}{"packed_hex": common.Hex(in), "origin": origin, "ref_status": cls,
		"ref_output_len": len(v.out), "ref_complete_frames": len(frames), "ref_rest": rest.String()}
	allDecodable := true
	for _, f := range frames {
		if f.field > 511 {
			allDecodable = false
		}
	}

	// NewPackedDecoder.
	rc := genReaderCfg(rng)
	reuse := rng.Bool()
	var k int
	var fin error
	var bad string
	p := common.Guard(func() {
		d := capnp.NewPackedDecoder(rc.reader(in))
		if reuse {
			d.ReuseBuffer()
		}
		for {
			m, err := d.Decode()
			if err != nil {
				fin = err
				return
			}
			if k >= len(frames) {
				bad = fmt.Sprintf("message %d returned but the input determines only %d complete frames", k, len(frames))
				k++
				return
			}
			got, err := msgSegs(m)
			if err != nil {
				bad = "Segment(): " + err.Error()
				return
			}
			if !segsEqual(got, frames[k].segs) {
				bad = fmt.Sprintf("message %d differs from the frame in the unpacked stream", k)
				return
			}
			k++
		}
	})
	rec.Count("pdecoder_streams", 1)
	if reuse {
		rec.Count("pdecoder_reuse", 1)
	}
	if !c.panicked(p, "PackedDecoder.Decode", cls, inp) {
		switch {
		case bad != "":
			c.viol("invented/PackedDecoder.Decode/"+cls, bad, "", inp)
		case v.st != refOK:
			if fin == io.EOF {
				c.viol("eof/PackedDecoder.Decode/"+cls, fmt.Sprintf("truncated packed stream ended with clean io.EOF after %d messages", k), "", inp)
			}
		case rest == frameEmpty:
			if allDecodable && (fin != io.EOF || k != len(frames)) {
				c.viol("reject/PackedDecoder.Decode/complete", fmt.Sprintf("valid packed stream of %d frames: got %d messages then %s", len(frames), k, errStr(fin)), "", inp)
			}
		default: // packed form complete, unpacked stream ends inside a frame
			if fin == io.EOF {
				c.viol("eof/PackedDecoder.Decode/complete-midframe", fmt.Sprintf("stream ending inside a frame reported as io.EOF after %d messages", k), "", inp)
			} else if allDecodable && k != len(frames) {
				c.viol("reject/PackedDecoder.Decode/complete-midframe", fmt.Sprintf("%d complete frames precede the cut, %d returned before %s", len(frames), k, errStr(fin)), "", inp)
			}
		}
	}

	// UnmarshalPacked (first frame only; trailing data is ignored by Unmarshal).
	var m *capnp.Message
	var err error
	p = common.Guard(func() { m, err = capnp.UnmarshalPacked(in) })
	rec.Count("unmarshalpacked_calls", 1)
	if c.panicked(p, "UnmarshalPacked", cls, inp) {
		return
	}
	switch {
	case v.st != refOK:
		if err == nil {
			c.viol("accept/UnmarshalPacked/"+cls, "truncated packed input unmarshalled without error", "", inp)
		}
	case len(frames) == 0:
		if err == nil {
			c.viol("accept/UnmarshalPacked/incomplete-frame", "unpacked data holds no complete frame but UnmarshalPacked succeeded", "", inp)
		}
	default:
		if err != nil {
			c.viol("reject/UnmarshalPacked/complete", "valid packed message rejected: "+errStr(err), "", inp)
		} else if got, e := msgSegs(m); e != nil || !segsEqual(got, frames[0].segs) {
			c.viol("diff/UnmarshalPacked/complete", "segments differ from the reference parse", errStr(e), inp)
		}
	}
}

// ---------------------------------------------------------------------------
// mode payload

func (c *ctx) runPayload(rng *common.RNG) {
	rec := c.rec
	st := &payloadStats{runs: map[string]int64{}}
	long := rng.Chance(1, 4)
	maxWords := 96
	if long {
		maxWords = 1600
	}
	x, desc := genPayload(rng, maxWords, long, st)
	rec.Case(c.idx, fmt.Sprintf("payload words=%d %s", len(x)/8, desc))
	for k, v := range st.runs {
		rec.Count("payload_run_"+k, v)
	}
	for i := 0; i+8 <= len(x); i += 8 {
		zb := zeroBytes(x[i:])
		rec.Count(fmt.Sprintf("payload_word_zerobytes_%d", zb), 1)
		if zb == 1 || zb == 2 || zb == 7 {
			pos := ""
			for b := 0; b < 8; b++ {
				if (x[i+b] == 0) == (zb != 7) {
					pos += fmt.Sprint(b)
				}
			}
			// zero1_pos_P: the zero byte is at P; zero2_pos_PQ: zeros at P and Q;
			// zero7_pos_P: the only non-zero byte is at P.
			rec.Count(fmt.Sprintf("payload_zero%d_pos_%s", zb, pos), 1)
		}
	}
	rec.Distinct(common.Hash64([]byte("payload"), x))
	if rec.WantSample() {
		rec.Sample(map[string]interface{}{"mode": "payload", "grammar": desc, "words": len(x) / 8})
	}
	inp := map[string]interface{}{"payload_hex": common.Hex(x), "grammar": desc}

	// lib Pack.
	var pk []byte
	p := common.Guard(func() { pk = packed.Pack(nil, x) })
	if c.panicked(p, "packed.Pack", "payload", inp) {
		return
	}
	rec.Count("pack_calls", 1)
	if len(pk) > len(x)/8*10 {
		c.viol("growth/packed.Pack", fmt.Sprintf("packed length %d exceeds 10 bytes per word (%d words)", len(pk), len(x)/8), "", inp)
	}
	// Append semantics: Pack(dst, x) == dst ++ Pack(nil, x).
	pre := rng.Bytes(rng.Range(1, 20))
	var pk2 []byte
	dst := make([]byte, len(pre), len(pre)+rng.Intn(64))
	copy(dst, pre)
	p = common.Guard(func() { pk2 = packed.Pack(dst, x) })
	if !c.panicked(p, "packed.Pack", "payload-append", inp) {
		if !bytes.Equal(pk2[:len(pre)], pre) || !bytes.Equal(pk2[len(pre):], pk) {
			c.viol("diff/packed.Pack/append", "Pack(dst,x) != dst ++ Pack(nil,x)", "", inp)
		}
	}
	// Independent decoder accepts the library's output and gets x back.
	out, rst, items := refUnpack(pk)
	if rst != refOK || !bytes.Equal(out, x) {
		c.viol("refdiff/packed.Pack/payload", "reference decoder does not recover the payload from the library's packed form ("+rst.String()+")",
			fmt.Sprintf("packed=%s", hexCap(pk, 4096)), inp)
	}
	for _, it := range items {
		switch it.tag {
		case 0x00:
			rec.Count("libpack_zero_count_"+countClass(it.count), 1)
		case 0xff:
			rec.Count("libpack_literal_count_"+countClass(it.count), 1)
		default:
			rec.Count("libpack_plain_items", 1)
		}
	}
	// Library decoders on the library's packed form.
	c.expectDecodesTo(pk, x, "libpack", rng, inp)
	// Unpack appends: dirty spare capacity in dst must not leak into the output.
	dirty := make([]byte, 24+len(x)+rng.Intn(64))
	for i := range dirty {
		dirty[i] = 0xEE
	}
	keep := rng.Range(0, 24)
	var o []byte
	var e error
	p = common.Guard(func() { o, e = packed.Unpack(dirty[:keep], pk) })
	if !c.panicked(p, "packed.Unpack", "dirty-dst", inp) {
		if e != nil || len(o) != keep+len(x) || !bytes.Equal(o[keep:], x) || bytes.Count(o[:keep], []byte{0xEE}) != keep {
			c.viol("diff/packed.Unpack/dirty-dst", "Unpack into a dst with dirty spare capacity does not yield dst ++ payload: "+errStr(e), "", inp)
		}
	}

	// Library decoders on rarely-produced but legal encodings.
	style := rng.Intn(numStyles)
	rp := refPack(x, style, rng.Fork())
	rec.Count("refpack_style_"+styleName(style), 1)
	if o, s, its := refUnpack(rp); s != refOK || !bytes.Equal(o, x) {
		rec.Inconclusive("reference self-check failed: RefUnpack(RefPack(x)) != x")
		return
	} else {
		for _, it := range its {
			switch it.tag {
			case 0x00:
				rec.Count("refpack_zero_count_"+countClass(it.count), 1)
			case 0xff:
				rec.Count("refpack_literal_count_"+countClass(it.count), 1)
			}
		}
	}
	inp2 := map[string]interface{}{"payload_hex": common.Hex(x), "grammar": desc, "refpack_style": styleName(style), "packed_hex": common.Hex(rp)}
	c.expectDecodesTo(rp, x, "refpack-"+styleName(style), rng, inp2)

	// The same through the Message API.
	c.payloadViaMessages(x, rng, inp)
}

// expectDecodesTo runs the three decoders on a complete packed form of x.
func (c *ctx) expectDecodesTo(pk, x []byte, origin string, rng *common.RNG, inp map[string]interface{}) {
	v := c.checkPackedInput(pk, origin, rng)
	if v.st != refOK || !bytes.Equal(v.out, x) {
		// checkPackedInput compares the library with the reference; make sure
		// the reference itself stands for x here.
		c.rec.Inconclusive("reference self-check failed in expectDecodesTo (" + origin + ")")
	}
}

// payloadViaMessages splits x into segments and drives MarshalPacked,
// UnmarshalPacked, NewPackedEncoder and NewPackedDecoder.
func (c *ctx) payloadViaMessages(x []byte, rng *common.RNG, inp map[string]interface{}) {
	rec := c.rec
	nw := len(x) / 8
	var segs [][]byte
	nsegs := rng.PickInt(1, 1, 2, 3, 5, 12)
	pos := 0
	for i := 0; i < nsegs; i++ {
		n := 0
		if i == nsegs-1 {
			n = nw - pos
		} else if nw-pos > 0 && !rng.Chance(1, 5) {
			n = rng.Intn(nw - pos + 1)
		}
		segs = append(segs, x[pos*8:(pos+n)*8])
		pos += n
	}
	plain := refSerialize(segs)
	single := rng.Bool()

	// MarshalPacked.
	var mp []byte
	var err error
	p := common.Guard(func() { mp, err = newMsg(segs, single).MarshalPacked() })
	rec.Count("marshalpacked_calls", 1)
	if c.panicked(p, "Message.MarshalPacked", "payload", inp) {
		return
	}
	if err != nil {
		c.viol("reject/Message.MarshalPacked/payload", "MarshalPacked failed: "+err.Error(), "", inp)
		return
	}
	if o, s, _ := refUnpack(mp); s != refOK || !bytes.Equal(o, plain) {
		c.viol("refdiff/Message.MarshalPacked/payload", "reference decoder does not recover the framed message from MarshalPacked ("+s.String()+")", "", inp)
	}
	var m *capnp.Message
	p = common.Guard(func() { m, err = capnp.UnmarshalPacked(mp) })
	rec.Count("unmarshalpacked_calls", 1)
	if !c.panicked(p, "UnmarshalPacked", "payload", inp) {
		if err != nil {
			c.viol("reject/UnmarshalPacked/roundtrip", "UnmarshalPacked(MarshalPacked(m)) failed: "+err.Error(), "", inp)
		} else if got, e := msgSegs(m); e != nil || !segsEqual(got, segs) {
			c.viol("diff/UnmarshalPacked/roundtrip", "UnmarshalPacked(MarshalPacked(m)) != m", errStr(e), inp)
		}
	}

	// NewPackedEncoder -> NewPackedDecoder, two copies of the message so the
	// encoder's and decoder's reused buffers are exercised.
	var w bytes.Buffer
	p = common.Guard(func() {
		enc := capnp.NewPackedEncoder(&w)
		for i := 0; i < 2 && err == nil; i++ {
			err = enc.Encode(newMsg(segs, single))
		}
	})
	rec.Count("pencoder_streams", 1)
	if c.panicked(p, "PackedEncoder.Encode", "payload", inp) {
		return
	}
	if err != nil {
		c.viol("reject/PackedEncoder.Encode/payload", "Encode failed: "+err.Error(), "", inp)
		return
	}
	want := append(append([]byte(nil), plain...), plain...)
	if o, s, _ := refUnpack(w.Bytes()); s != refOK || !bytes.Equal(o, want) {
		c.viol("refdiff/PackedEncoder.Encode/payload", "reference decoder does not recover the framed stream written by NewPackedEncoder ("+s.String()+")", "", inp)
	}
	rc := genReaderCfg(rng)
	reuse := rng.Bool()
	var k int
	var fin error
	var bad string
	p = common.Guard(func() {
		d := capnp.NewPackedDecoder(rc.reader(w.Bytes()))
		if reuse {
			d.ReuseBuffer()
		}
		for {
			mm, e := d.Decode()
			if e != nil {
				fin = e
				return
			}
			got, e := msgSegs(mm)
			if e != nil || !segsEqual(got, segs) {
				bad = fmt.Sprintf("message %d differs from what was encoded (%s)", k, errStr(e))
				return
			}
			k++
			if k > 2 {
				bad = "more messages than encoded"
				return
			}
		}
	})
	rec.Count("pdecoder_streams", 1)
	if !c.panicked(p, "PackedDecoder.Decode", "payload", inp) {
		if bad != "" {
			c.viol("diff/PackedDecoder.Decode/roundtrip", bad, "", inp)
		} else if k != 2 || fin != io.EOF {
			c.viol("reject/PackedDecoder.Decode/roundtrip", fmt.Sprintf("2 messages encoded, %d decoded then %s", k, errStr(fin)), "", inp)
		}
	}
}

// ---------------------------------------------------------------------------
// mode cuts: every prefix of a valid packed stream.

// genPackedStream produces a valid packed stream and says whether its
// unpacked form is a sequence of frames.
func (c *ctx) genPackedStream(rng *common.RNG, big bool) (pk []byte, framed bool, desc string) {
	rec := c.rec
	var plain []byte
	framed = rng.Bool()
	var bufs [][]byte // the buffers the library's encoder packs one by one
	if framed {
		nm := rng.Range(1, 3)
		budget := 60
		if big {
			budget = 330
		}
		for i := 0; i < nm; i++ {
			segs := genMessage(rng, budget/nm)
			if len(segs) > 6 && !rng.Chance(1, 4) {
				segs = segs[:rng.Range(1, 6)]
			}
			fr := refSerialize(segs)
			hl := len(fr)
			for _, s := range segs {
				hl -= len(s)
			}
			bufs = append(bufs, fr[:hl])
			bufs = append(bufs, segs...)
			plain = append(plain, fr...)
		}
		desc = fmt.Sprintf("framed msgs=%d", nm)
	} else {
		maxw := 48
		if big {
			maxw = 600
		}
		var g string
		plain, g = genPayload(rng, maxw, big, nil)
		desc = "raw " + g
	}
	how := rng.Intn(numStyles + 2)
	switch {
	case how < numStyles:
		pk = refPack(plain, how, rng.Fork())
		desc += " packer=ref-" + styleName(how)
		rec.Count("stream_packer_ref_"+styleName(how), 1)
	case how == numStyles || !framed:
		pk = packed.Pack(nil, plain)
		desc += " packer=lib-whole"
		rec.Count("stream_packer_lib_whole", 1)
	default:
		for _, b := range bufs {
			pk = packed.Pack(pk, b)
		}
		desc += " packer=lib-per-buffer"
		rec.Count("stream_packer_lib_per_buffer", 1)
	}
	if o, s, _ := refUnpack(pk); s != refOK || !bytes.Equal(o, plain) {
		rec.Inconclusive("reference self-check failed: generated packed stream does not decode to its plain form")
	}
	return pk, framed, desc
}

func (c *ctx) runCuts(rng *common.RNG) {
	rec := c.rec
	big := rng.Chance(1, 3)
	pk, framed, desc := c.genPackedStream(rng, big)
	rec.Case(c.idx, fmt.Sprintf("cuts len=%d %s", len(pk), desc))
	rec.Distinct(common.Hash64([]byte("cuts"), pk))
	if rec.WantSample() {
		rec.Sample(map[string]interface{}{"mode": "cuts", "stream": desc, "packed_len": len(pk), "prefixes_tried": len(pk) + 1})
	}
	_, _, items := refUnpack(pk)
	for _, it := range items {
		switch it.tag {
		case 0x00:
			rec.Count("cutstream_zero_count_"+countClass(it.count), 1)
		case 0xff:
			rec.Count("cutstream_literal_count_"+countClass(it.count), 1)
		}
	}
	rec.Count("cut_streams", 1)
	if framed {
		rec.Count("cut_streams_framed", 1)
	}
	before := rec.NumViolations()
	for cut := 0; cut <= len(pk); cut++ {
		in := pk[:cut:cut] // cap == len: reading past the prefix panics
		v := c.checkPackedInput(in, fmt.Sprintf("prefix %d/%d of [%s]", cut, len(pk), desc), rng)
		rec.Count("cut_points", 1)
		if framed {
			c.checkPackedMessageAPIs(in, v, fmt.Sprintf("prefix %d/%d of [%s]", cut, len(pk), desc), rng)
			rec.Count("cut_points_framed", 1)
		}
		if rec.NumViolations() > before+12 {
			break // enough witnesses from this stream
		}
	}
}

// ---------------------------------------------------------------------------
// mode mutate: damaged streams and random bytes.

func (c *ctx) runMutate(rng *common.RNG) {
	rec := c.rec
	var in []byte
	var desc string
	kind := rng.Intn(10)
	switch {
	case kind < 2: // random bytes, rich in the two special tags
		n := rng.Range(0, 80)
		in = make([]byte, n)
		for i := range in {
			switch rng.Intn(6) {
			case 0:
				in[i] = 0x00
			case 1:
				in[i] = 0xff
			case 2:
				in[i] = byte(rng.PickInt(0x01, 0x80, 0x7f, 0xfe, 0x0f, 0xf0))
			default:
				in[i] = byte(rng.Uint64())
			}
		}
		desc = "random-bytes"
		rec.Count("mutate_random_bytes", 1)
	default:
		pk, _, d := c.genPackedStream(rng, rng.Chance(1, 12))
		in = append([]byte(nil), pk...)
		nm := rng.Range(1, 3)
		desc = d
		for j := 0; j < nm && len(in) > 0; j++ {
			_, _, items := refUnpack(in) // item offsets of the current bytes
			op := rng.Intn(7)
			switch op {
			case 0: // tag byte rewritten
				if len(items) > 0 {
					it := items[rng.Intn(len(items))]
					in[it.off] = byte(rng.PickInt(0x00, 0xff, 0x01, 0x80, 0xfe, 0x7f, int(byte(rng.Uint64()))))
					desc += " +tag"
					rec.Count("mutate_tag", 1)
				}
			case 1, 2: // count byte rewritten
				var cs []packItem
				for _, it := range items {
					if it.countOff >= 0 {
						cs = append(cs, it)
					}
				}
				if len(cs) > 0 {
					it := cs[rng.Intn(len(cs))]
					in[it.countOff] = byte(rng.PickInt(0, 1, 2, 254, 255, it.count+1, it.count-1, int(byte(rng.Uint64()))))
					desc += " +count"
					rec.Count("mutate_count", 1)
				}
			case 3: // byte deleted
				k := rng.Intn(len(in))
				in = append(in[:k], in[k+1:]...)
				desc += " +delete"
				rec.Count("mutate_delete", 1)
			case 4: // byte inserted
				k := rng.Intn(len(in) + 1)
				b := byte(rng.PickInt(0x00, 0xff, int(byte(rng.Uint64()))))
				in = append(in[:k], append([]byte{b}, in[k:]...)...)
				desc += " +insert"
				rec.Count("mutate_insert", 1)
			case 5: // truncated
				in = in[:rng.Intn(len(in)+1)]
				desc += " +truncate"
				rec.Count("mutate_truncate", 1)
			case 6: // random byte overwritten
				in[rng.Intn(len(in))] = byte(rng.Uint64())
				desc += " +byte"
				rec.Count("mutate_byte", 1)
			}
		}
	}
	in = in[:len(in):len(in)]
	rec.Case(c.idx, fmt.Sprintf("mutate len=%d %s", len(in), desc))
	rec.Distinct(common.Hash64([]byte("mutate"), in))
	if rec.WantSample() {
		rec.Sample(map[string]interface{}{"mode": "mutate", "how": desc, "packed_hex": hexCap(in, 64)})
	}
	v := c.checkPackedInput(in, "mutate: "+desc, rng)
	c.checkPackedMessageAPIs(in, v, "mutate: "+desc, rng)
}
