package main

// C14 — stream framing is exact and decoding is bounded by the configured limits.
//
// Modes:
//   frames     sequences of 1..6 messages (1..40 segments, empty ones included)
//              through Encoder/Decoder, plain and packed, with and without
//              ReuseBuffer, chunked readers, EVERY cut point of every stream;
//              Marshal/Unmarshal; exact bytes against the reference serializer.
//   hostile    hostile segment tables against Decoder.Decode under the allocation
//              monitor and the accepted-message monitor.
//   unmarshal  hostile bytes against Unmarshal under the allocation monitor;
//              acceptance must coincide with the reference frame parser.

import (
	"bytes"
	"fmt"
	"io"
	"runtime"
	"runtime/debug"
	"sort"

	capnp "capnproto.org/go/capnp/v3"
	"capnproto.org/go/capnp/v3/zverif/common"
)

type capWriter struct {
	buf    []byte
	writes int
}

func (w *capWriter) Write(p []byte) (int, error) {
	w.writes++
	w.buf = append(w.buf, p...)
	return len(p), nil
}

func variantName(pk, reuse bool) string {
	s := "plain"
	if pk {
		s = "packed"
	}
	if reuse {
		return s + "-reuse"
	}
	return s + "-fresh"
}

// decodeSeq decodes in until an error.  Each message is compared with what was
// encoded at the moment it is returned; without ReuseBuffer all messages are
// compared again after the last Decode (they must be independent).
func decodeSeq(in []byte, pk, reuse bool, rc readerCfg, expect [][][]byte) (k int, fin error, bad string) {
	var d *capnp.Decoder
	if pk {
		d = capnp.NewPackedDecoder(rc.reader(in))
	} else {
		d = capnp.NewDecoder(rc.reader(in))
	}
	if reuse {
		d.ReuseBuffer()
	}
	var held []*capnp.Message
	for {
		m, err := d.Decode()
		if err != nil {
			fin = err
			break
		}
		if m == nil {
			return k, nil, "Decode returned (nil, nil)"
		}
		if k >= len(expect) {
			return k + 1, nil, fmt.Sprintf("message %d returned, only %d were encoded", k, len(expect))
		}
		got, e := msgSegs(m)
		if e != nil {
			return k, nil, fmt.Sprintf("message %d: Segment(): %v", k, e)
		}
		if !segsEqual(got, expect[k]) {
			return k, nil, fmt.Sprintf("message %d differs from what was encoded (%d segments returned, %d encoded)", k, len(got), len(expect[k]))
		}
		if !reuse {
			held = append(held, m)
		}
		k++
	}
	for i, m := range held {
		got, e := msgSegs(m)
		if e != nil || !segsEqual(got, expect[i]) {
			return k, fin, fmt.Sprintf("message %d changed after later Decode calls although ReuseBuffer was not requested", i)
		}
	}
	return k, fin, ""
}

func (c *ctx) runFrames(rng *common.RNG) {
	rec := c.rec
	nm := rng.Range(1, 6)
	budget := rng.PickInt(40, 120, 120, 400)
	var msgs [][][]byte
	var plainRef []byte
	var plainBounds []int
	nsegsDesc := ""
	for i := 0; i < nm; i++ {
		segs := genMessage(rng, budget/nm+1)
		msgs = append(msgs, segs)
		plainRef = append(plainRef, refSerialize(segs)...)
		plainBounds = append(plainBounds, len(plainRef))
		nsegsDesc += fmt.Sprintf("%d,", len(segs))
	}
	rec.Case(c.idx, fmt.Sprintf("frames msgs=%d segs=%s plain_len=%d", nm, nsegsDesc, len(plainRef)))
	rec.Distinct(common.Hash64([]byte("frames"), plainRef))
	rec.Count("frames_streams", 1)
	rec.Count(fmt.Sprintf("frames_msgs_%d", nm), 1)
	for _, segs := range msgs {
		rec.Count("frames_nsegs_"+segClass(len(segs)), 1)
		for _, s := range segs {
			if len(s) == 0 {
				rec.Count("frames_empty_segments", 1)
			}
		}
	}
	if rec.WantSample() {
		rec.Sample(map[string]interface{}{"mode": "frames", "messages": nm, "segments": nsegsDesc, "plain_len": len(plainRef)})
	}
	hexMsgs := func() interface{} {
		out := make([][]string, len(msgs))
		for i, m := range msgs {
			out[i] = common.SegsHex(m)
		}
		return out
	}
	single := rng.Bool()

	// Reference self-check: the parser splits the serializer's output back.
	if fr, b, st := refParseStream(plainRef); st != frameEmpty || len(fr) != nm || fmt.Sprint(b) != fmt.Sprint(plainBounds) {
		rec.Inconclusive("reference self-check failed: refParseStream(refSerialize(msgs))")
		return
	}

	// Marshal / Unmarshal.
	for i, segs := range msgs {
		inp := map[string]interface{}{"segments_hex": common.SegsHex(segs)}
		var mb []byte
		var err error
		p := common.Guard(func() { mb, err = newMsg(segs, single).Marshal() })
		rec.Count("marshal_calls", 1)
		if c.panicked(p, "Message.Marshal", "valid", inp) {
			continue
		}
		want := plainRef[plainBounds[i]-len(refSerialize(segs)) : plainBounds[i]]
		if err != nil {
			c.viol("reject/Message.Marshal/valid", "Marshal failed: "+err.Error(), "", inp)
			continue
		}
		if !bytes.Equal(mb, want) {
			c.viol("bytes/Message.Marshal/valid", "Marshal output differs from the spec's framing", fmt.Sprintf("lib=%s\nref=%s", hexCap(mb, 1024), hexCap(want, 1024)), inp)
		}
		// Unmarshal of the frame followed by the rest of the stream: first frame only.
		tail := plainRef[plainBounds[i]-len(want):]
		var m *capnp.Message
		p = common.Guard(func() { m, err = capnp.Unmarshal(tail[:len(tail):len(tail)]) })
		rec.Count("unmarshal_calls", 1)
		if !c.panicked(p, "Unmarshal", "valid", inp) {
			if err != nil {
				c.viol("reject/Unmarshal/valid", "Unmarshal of a valid frame failed: "+err.Error(), "", inp)
			} else if got, e := msgSegs(m); e != nil || !segsEqual(got, segs) {
				c.viol("diff/Unmarshal/valid", "Unmarshal(Marshal(m)) != m", errStr(e), inp)
			}
		}
	}

	for _, pk := range []bool{false, true} {
		kind := "plain"
		if pk {
			kind = "packed"
		}
		inp := map[string]interface{}{"messages_segments_hex": hexMsgs(), "encoder": kind}
		// Encode with one Encoder (its buffers are reused across messages).
		w := &capWriter{}
		var bounds []int
		var err error
		p := common.Guard(func() {
			var enc *capnp.Encoder
			if pk {
				enc = capnp.NewPackedEncoder(w)
			} else {
				enc = capnp.NewEncoder(w)
			}
			for _, segs := range msgs {
				if err = enc.Encode(newMsg(segs, single)); err != nil {
					return
				}
				bounds = append(bounds, len(w.buf))
			}
		})
		rec.Count("encoder_streams_"+kind, 1)
		if c.panicked(p, "Encoder.Encode", kind, inp) {
			continue
		}
		if err != nil {
			c.viol("reject/Encoder.Encode/"+kind, "Encode failed: "+err.Error(), "", inp)
			continue
		}
		stream := w.buf[:len(w.buf):len(w.buf)]
		if !pk {
			if !bytes.Equal(stream, plainRef) {
				c.viol("bytes/Encoder.Encode/plain", "encoded stream differs from the spec's framing",
					fmt.Sprintf("lib=%s\nref=%s", hexCap(stream, 1024), hexCap(plainRef, 1024)), inp)
				continue
			}
		} else {
			ok := true
			prev, pprev := 0, 0
			for i, b := range bounds {
				o, st, _ := refUnpack(stream[prev:b])
				if st != refOK || !bytes.Equal(o, plainRef[pprev:plainBounds[i]]) {
					ok = false
				}
				prev, pprev = b, plainBounds[i]
			}
			if !ok {
				c.viol("bytes/Encoder.Encode/packed", "packed stream does not unpack (reference decoder) frame by frame to the spec's framing", hexCap(stream, 2048), inp)
				continue
			}
		}
		inp["stream_hex"] = common.Hex(stream)
		inp["frame_bounds"] = bounds

		isBound := map[int]bool{0: true}
		for _, b := range bounds {
			isBound[b] = true
		}

		// Whole stream and every proper prefix.
		before := rec.NumViolations()
		for cut := len(stream); cut >= 0; cut-- {
			in := stream[:cut:cut]
			kmin := sort.SearchInts(bounds, cut+1) // number of bounds <= cut
			kmax := kmin
			if pk {
				o, st, _ := refUnpack(in)
				kmax = sort.SearchInts(plainBounds, len(o)+1)
				exact := st == refOK && (len(o) == 0 || (kmax > 0 && plainBounds[kmax-1] == len(o)))
				if exact != isBound[cut] {
					rec.Inconclusive("reference self-check failed: packed frame boundary classification")
					return
				}
			}
			for _, reuse := range []bool{false, true} {
				vn := variantName(pk, reuse)
				rc := genReaderCfg(rng)
				var k int
				var fin error
				var bad string
				p := common.Guard(func() { k, fin, bad = decodeSeq(in, pk, reuse, rc, msgs) })
				rec.Count("decode_runs_"+vn, 1)
				rec.Count("chunk_"+chunkClass(rc.maxChunk), 1)
				cinp := map[string]interface{}{"stream_hex": common.Hex(stream), "cut": cut, "frame_bounds": bounds, "encoder": kind,
					"reuse_buffer": reuse, "max_chunk": rc.maxChunk, "eof_with_data": rc.eofWithData, "reader_seed": rc.seed}
				if c.panicked(p, "Decoder.Decode", vn, cinp) {
					continue
				}
				where := "midframe"
				if isBound[cut] {
					where = "boundary"
				}
				switch {
				case bad != "":
					c.viol("diff/Decoder.Decode/"+vn, bad, "", cinp)
				case k < kmin || k > kmax:
					c.viol("count/Decoder.Decode/"+vn+"-"+where, fmt.Sprintf("cut %d: %d messages returned, expected %d..%d; then %s", cut, k, kmin, kmax, errStr(fin)), "", cinp)
				case isBound[cut] && fin != io.EOF:
					c.viol("noeof/Decoder.Decode/"+vn, fmt.Sprintf("stream ending at frame boundary %d: Decode returned %s instead of io.EOF", cut, errStr(fin)), "", cinp)
				case !isBound[cut] && fin == io.EOF:
					c.viol("eof/Decoder.Decode/"+vn, fmt.Sprintf("stream cut at %d (not a frame boundary) reported as io.EOF after %d messages", cut, k), "", cinp)
				case fin == nil:
					c.viol("noerr/Decoder.Decode/"+vn, "decoding stopped without an error", "", cinp)
				}
				if cut == len(stream) {
					rec.Count("full_stream_decodes_"+vn, 1)
				}
			}
			rec.Count("cut_points_"+kind, 1)
			if isBound[cut] {
				rec.Count("cut_points_at_boundary", 1)
			} else {
				rec.Count("cut_points_midframe", 1)
			}

			// Unmarshal on every prefix of the plain stream.
			if !pk {
				var m *capnp.Message
				var err error
				// Every other cut is presented as a prefix of the whole stream
				// (len < cap: the rest of a receive buffer lies behind it); only
				// the first len bytes are input.
				uin := in
				if cut%2 == 1 {
					uin = stream[:cut]
					rec.Count("unmarshal_spare_capacity", 1)
				}
				p := common.Guard(func() { m, err = capnp.Unmarshal(uin) })
				rec.Count("unmarshal_calls", 1)
				cinp := map[string]interface{}{"data_hex": common.Hex(in), "first_frame_len": bounds[0], "spare_capacity": cap(uin) - len(uin)}
				if !c.panicked(p, "Unmarshal", "prefix", cinp) {
					if cut >= bounds[0] {
						if err != nil {
							c.viol("reject/Unmarshal/valid", "Unmarshal of a complete frame failed: "+err.Error(), "", cinp)
						} else if got, e := msgSegs(m); e != nil || !segsEqual(got, msgs[0]) {
							c.viol("diff/Unmarshal/valid", "Unmarshal returned different segments", errStr(e), cinp)
						}
					} else if err == nil {
						c.viol("accept/Unmarshal/truncated-frame", fmt.Sprintf("first frame needs %d bytes, Unmarshal accepted %d", bounds[0], cut), "", cinp)
					}
				}
			}
			if rec.NumViolations() > before+12 {
				break
			}
		}
	}
}

// ---------------------------------------------------------------------------
// Allocation monitor.

var ms0, ms1 runtime.MemStats // package level: reading them allocates nothing
var lastGCTotal uint64

func allocMonitorInit() {
	debug.SetGCPercent(-1) // no background collector: TotalAlloc moves only with the calling goroutine
}

// allocHousekeeping collects garbage by hand (outside every measured window)
// once the process has allocated another 48 MiB, harness allocations
// included, or right after a single large allocation so that its span is
// reused by the next one instead of being faulted in afresh.
func allocHousekeeping() {
	delta := ms1.TotalAlloc - ms0.TotalAlloc
	if ms1.TotalAlloc-lastGCTotal > 48<<20 || delta > 8<<20 {
		runtime.GC()
		lastGCTotal = ms1.TotalAlloc
		if delta > 96<<20 {
			// never happens on a decoder that honours its limits (largest legal
			// buffer: 64 MiB); give the pages back at once
			debug.FreeOSMemory()
		}
	}
}

// decoderSlack is the constant of "allocation <= MaxMessageSize + constant":
// the [][]byte segment table of a 513-segment message (513*24 = 12312 bytes,
// 13568 after size-class rounding), the header buffer (2056 -> 2304), the
// Message value, page rounding of a large buffer (< 8192), size-class waste of
// a small one (< 2800) and an error value.  It does not grow with any header
// field.
const decoderSlack = 32 << 10

const defaultLimit = 64 << 20

type hostileCase struct {
	field    uint32
	fieldCls string
	sizes    []uint32
	sizesCls string
	limit    uint64
	bodyCls  string
	data     []byte
	pk       bool
	reuse    bool
}

var hostileFields = []struct {
	v   uint32
	cls string
}{
	{0, "0"}, {1, "1"}, {2, "2"}, {39, "39"}, {510, "510"}, {511, "511"}, {512, "512"}, {513, "513"}, {514, "514"},
	{1023, "1023"}, {99999, "99999"}, {100000, "100000"}, {1<<31 - 1, "2^31-1"}, {1 << 31, "2^31"}, {1<<32 - 2, "2^32-2"}, {1<<32 - 1, "2^32-1"},
}

var hostileLimits = []uint64{0, 7, 8, 64, 4096, 1 << 20, 16, 2064, 2072, 24}

func tableLen(nsegs uint64) uint64 {
	n := 4 + 4*nsegs
	if n%8 != 0 {
		n += 4
	}
	return n
}

func genHostile(rng *common.RNG) *hostileCase {
	h := &hostileCase{}
	if rng.Chance(1, 3) {
		f := hostileFields[rng.Intn(9)] // the small ones, whose frames can be complete
		h.field, h.fieldCls = f.v, f.cls
	} else {
		f := hostileFields[rng.Intn(len(hostileFields))]
		h.field, h.fieldCls = f.v, f.cls
	}
	if rng.Chance(1, 10) {
		h.field = uint32(rng.Range(3, 600))
		h.fieldCls = "rand_3_600"
	}
	if rng.Chance(4, 5) {
		h.limit = hostileLimits[rng.Intn(6)]
	} else {
		h.limit = hostileLimits[rng.Intn(len(hostileLimits))]
	}
	strat := rng.Intn(8)
	if (strat == 2 || strat == 3) && h.limit == 0 && rng.Chance(23, 24) {
		// a frame that lands on the 64 MiB default makes Decode clear 64 MiB
		// (0.5-3 s of page faults in this VM): keep that boundary case, but
		// rare -- about one case in 650 (it used to dominate the run time)
		h.limit = 1 << 20
	}
	eff := h.limit
	if eff == 0 {
		eff = defaultLimit
	}
	nsegs := uint64(h.field) + 1
	supplied := nsegs
	if supplied > 120000 {
		supplied = uint64(rng.PickInt(0, 1, 513, 16000))
	}
	h.sizes = make([]uint32, supplied)
	hl := tableLen(nsegs)
	if supplied == 0 {
		strat = 0
	}
	switch strat {
	case 0:
		h.sizesCls = "zeros"
	case 1:
		h.sizesCls = "small"
		for i := range h.sizes {
			h.sizes[i] = uint32(rng.Intn(4))
		}
	case 2, 3: // frame length lands on the limit, one word below or one word above
		h.sizesCls = "fit"
		delta := int64(rng.PickInt(-8, 0, 0, 8))
		target := int64(eff) + delta - int64(hl)
		if target < 0 {
			target = int64(8 * rng.Intn(4))
			h.sizesCls = "small"
		}
		words := uint64(target / 8)
		if words > 1<<29-1 {
			words = 1<<29 - 1
		}
		// spread over the segments
		for i := range h.sizes {
			if i == len(h.sizes)-1 {
				h.sizes[i] = uint32(words)
				words = 0
			} else if words > 0 && rng.Chance(1, 3) {
				w := uint64(rng.Intn(int(minU64(words, 64)) + 1))
				h.sizes[i] = uint32(w)
				words -= w
			}
		}
	case 4: // one segment of a size no buffer can hold
		h.sizesCls = "one-huge"
		for i := range h.sizes {
			h.sizes[i] = uint32(rng.Intn(3))
		}
		h.sizes[rng.Intn(len(h.sizes))] = uint32(rng.PickU64(1<<29-1, 1<<29, 1<<30, 1<<31-1, 1<<31, 1<<32-1, 1<<28, 1<<24))
	case 5: // sums that wrap in 32-bit word or byte arithmetic to something small
		h.sizesCls = "wrap32"
		if len(h.sizes) >= 2 {
			a := rng.Intn(len(h.sizes))
			b := (a + 1 + rng.Intn(len(h.sizes)-1)) % len(h.sizes)
			switch rng.Intn(4) {
			case 0: // words: 2^31 + 2^31 = 2^32
				h.sizes[a], h.sizes[b] = 1<<31, 1<<31
			case 1: // words: (2^32-1) + 2 = 2^32+1
				h.sizes[a], h.sizes[b] = 1<<32-1, 2
			case 2: // bytes: 2^28 words * 8 = 2^31, twice = 2^32
				h.sizes[a], h.sizes[b] = 1<<28, 1<<28
			case 3: // bytes: (2^29-1) words + 1 word = 2^32 bytes
				h.sizes[a], h.sizes[b] = 1<<29-1, 1
			}
		} else {
			h.sizes[0] = uint32(rng.PickU64(1<<29, 1<<31, 1<<32-1)) // bytes = 0 mod 2^32
		}
	case 6: // total somewhere between the limit and a few hundred MiB
		h.sizesCls = "over-limit"
		total := eff/8 + uint64(rng.Intn(1<<rng.Range(1, 25)))
		if total > 1<<29-1 {
			total = 1<<29 - 1
		}
		h.sizes[rng.Intn(len(h.sizes))] = uint32(total)
	case 7: // 64-bit pressure: every segment as large as the encoding allows
		h.sizesCls = "all-max"
		for i := range h.sizes {
			h.sizes[i] = uint32(rng.PickU64(1<<29-1, 1<<32-1, 1<<31))
		}
	}
	h.data = refHeader(h.field, h.sizes)
	if supplied < nsegs {
		h.bodyCls = "table-cut"
		if rng.Bool() && len(h.data) > 8 {
			h.data = h.data[:8*rng.Range(1, len(h.data)/8)]
		}
	} else {
		var body uint64
		for _, s := range h.sizes {
			body += uint64(s) * 8
		}
		switch b := rng.Intn(6); {
		case b == 0:
			h.bodyCls = "none"
			if rng.Chance(1, 4) && len(h.data) > 8 { // cut inside the table instead
				h.data = h.data[:rng.Range(1, len(h.data)-1)]
				h.bodyCls = "table-cut"
			}
		case b == 1 || body > 2<<20:
			h.bodyCls = "partial"
			n := uint64(rng.Intn(300))
			if n >= body {
				n = body / 2
			}
			h.data = append(h.data, rng.Bytes(int(n))...)
		default:
			h.bodyCls = "full"
			h.data = append(h.data, rng.Bytes(int(body))...)
			if rng.Chance(1, 3) { // a second, small, valid frame follows
				h.bodyCls = "full+next"
				h.data = append(h.data, refSerialize(genMessage(rng, 6))...)
			}
		}
	}
	h.pk = rng.Chance(1, 8) && len(h.data) <= 1<<20
	h.reuse = rng.Bool()
	return h
}

func minU64(a, b uint64) uint64 {
	if a < b {
		return a
	}
	return b
}

func limitName(l uint64) string {
	if l == 0 {
		return "default"
	}
	return fmt.Sprint(l)
}

func (c *ctx) runHostile(rng *common.RNG) {
	rec := c.rec
	h := genHostile(rng)
	eff := h.limit
	if eff == 0 {
		eff = defaultLimit
	}
	desc := fmt.Sprintf("hostile field=%s sizes=%s limit=%s body=%s packed=%v reuse=%v len=%d", h.fieldCls, h.sizesCls, limitName(h.limit), h.bodyCls, h.pk, h.reuse, len(h.data))
	rec.Case(c.idx, desc)
	rec.Count("hostile_field_"+h.fieldCls, 1)
	rec.Count("hostile_sizes_"+h.sizesCls, 1)
	rec.Count("hostile_limit_"+limitName(h.limit), 1)
	rec.Count("hostile_body_"+h.bodyCls, 1)
	rec.Count("hostile_decoder_"+variantName(h.pk, h.reuse), 1)
	hdrHex := hexCap(h.data, 96)
	rec.Distinct(common.Hash64([]byte("hostile"), h.data, []byte(fmt.Sprint(h.limit, h.pk, h.reuse))))
	if rec.WantSample() {
		rec.Sample(map[string]interface{}{"mode": "hostile", "case": desc, "first_bytes": hdrHex})
	}
	data := h.data
	wire := data
	if h.pk {
		for len(data)%8 != 0 {
			data = append(data, 0)
		}
		wire = refPack(data, rng.Intn(numStyles), rng.Fork())
	}
	// Replay input: the table as numbers, the stream as bytes when it is small.
	inp := map[string]interface{}{"header_field": h.field, "max_message_size": h.limit, "packed": h.pk, "reuse_buffer": h.reuse,
		"body": h.bodyCls, "data_len": len(data), "first_bytes_hex": hdrHex}
	if len(h.sizes) <= 64 {
		inp["segment_sizes"] = h.sizes
	} else {
		inp["segment_sizes_first64"] = h.sizes[:64]
		inp["segment_sizes_class"] = h.sizesCls
	}
	if len(data) <= 4096 {
		inp["data_hex"] = common.Hex(data)
	}

	rc := genReaderCfg(rng)
	rd := rc.reader(wire)
	var d *capnp.Decoder
	if h.pk {
		d = capnp.NewPackedDecoder(rd)
	} else {
		d = capnp.NewDecoder(rd)
	}
	d.MaxMessageSize = h.limit
	if h.reuse {
		d.ReuseBuffer()
	}
	off := 0
	for call := 0; call < 3; call++ {
		fr, fst := refParseFrame(data[off:])
		var m *capnp.Message
		var err error
		var delta uint64
		p := common.Guard(func() {
			runtime.ReadMemStats(&ms0)
			m, err = d.Decode()
			runtime.ReadMemStats(&ms1)
			delta = ms1.TotalAlloc - ms0.TotalAlloc
		})
		rec.Count("hostile_decode_calls", 1)
		cls := h.fieldCls + "/" + h.sizesCls
		if c.panicked(p, "Decoder.Decode", "hostile-"+h.sizesCls, inp) {
			break
		}
		rec.Max("max_decode_alloc_bytes", int64(delta))
		inp["decode_call"] = call
		inp["alloc_bytes"] = delta
		bound := eff + decoderSlack
		if h.limit != 0 && h.limit < 8 {
			bound = decoderSlack
		}
		if delta > bound {
			c.viol("alloc/Decoder.Decode/"+h.sizesCls, fmt.Sprintf("Decode allocated %d bytes with MaxMessageSize=%s (bound %d); header field=%d", delta, limitName(h.limit), bound, h.field), cls, inp)
		}
		if delta > eff {
			rec.Count("hostile_alloc_between_limit_and_bound", 1)
			rec.Max("max_decode_alloc_over_limit_bytes", int64(delta-eff))
		}
		allocHousekeeping()
		if h.limit != 0 && h.limit < 8 {
			// configuration error: every call must fail, nothing may be accepted
			if err == nil {
				c.viol("accept/Decoder.Decode/limit-below-header", "message accepted with MaxMessageSize below one header word", cls, inp)
			}
			rec.Count("hostile_rejected", 1)
			break
		}
		if err == nil {
			rec.Count("hostile_accepted", 1)
			rec.Count("hostile_accepted_field_"+h.fieldCls, 1)
			if fst != frameOK {
				c.viol("accept/Decoder.Decode/incomplete-frame", "message accepted although the stream does not hold a complete frame ("+fst.String()+")", cls, inp)
				break
			}
			got, e := msgSegs(m)
			if fr.field > 512 || len(got) > 513 {
				c.viol("accept/Decoder.Decode/segment-count", fmt.Sprintf("message with header field %d (%d segments) accepted; the limit is 512", fr.field, len(got)), cls, inp)
			}
			if uint64(fr.frameLen) > eff {
				c.viol("accept/Decoder.Decode/over-limit", fmt.Sprintf("frame of %d bytes accepted with MaxMessageSize=%s", fr.frameLen, limitName(h.limit)), cls, inp)
			}
			if e != nil || !segsEqual(got, fr.segs) {
				c.viol("diff/Decoder.Decode/hostile", "accepted message differs from the reference parse of the frame", errStr(e), inp)
			}
			rec.Max("max_accepted_frame_bytes", int64(fr.frameLen))
			rec.Max("max_accepted_header_field", int64(fr.field))
			if uint64(fr.frameLen) == eff {
				rec.Count("hostile_accepted_exactly_at_limit", 1)
			}
			off += fr.frameLen
			continue
		}
		rec.Count("hostile_rejected", 1)
		if err == io.EOF {
			if fst != frameEmpty {
				c.viol("eof/Decoder.Decode/hostile-"+fst.String(), "io.EOF although the stream holds more bytes", cls, inp)
			}
			rec.Count("hostile_eof", 1)
			break
		}
		if fst == frameEmpty {
			c.viol("noeof/Decoder.Decode/hostile", "stream ended at a frame boundary but Decode returned "+errStr(err), cls, inp)
		}
		if fst == frameOK && fr.field <= 511 && uint64(fr.frameLen) <= eff {
			c.viol("reject/Decoder.Decode/within-limits", fmt.Sprintf("complete frame of %d bytes, %d segments rejected with MaxMessageSize=%s: %s", fr.frameLen, fr.nsegs, limitName(h.limit), errStr(err)), cls, inp)
		}
		if fst == frameOK && uint64(fr.frameLen) > eff {
			rec.Count("hostile_rejected_over_limit", 1)
			if uint64(fr.frameLen) == eff+8 {
				rec.Count("hostile_rejected_one_word_over_limit", 1)
			}
		}
		if fr.hdrLen != nil && fr.field > 512 {
			rec.Count("hostile_rejected_segment_count", 1)
		}
		break // decoder state after an error is unspecified
	}
}

// ---------------------------------------------------------------------------
// mode unmarshal

func (c *ctx) runUnmarshal(rng *common.RNG) {
	rec := c.rec
	var data []byte
	var desc string
	switch kind := rng.Intn(10); {
	case kind < 6: // hostile table, as for the decoder, but everything is in memory
		h := genHostile(rng)
		data = h.data
		desc = fmt.Sprintf("table field=%s sizes=%s body=%s", h.fieldCls, h.sizesCls, h.bodyCls)
		rec.Count("unmarshal_field_"+h.fieldCls, 1)
		rec.Count("unmarshal_sizes_"+h.sizesCls, 1)
	case kind < 8: // many segments: the table is most of the input
		n := rng.PickInt(100, 513, 514, 1000, 1000, 5000, 5000, 20000)
		if rng.Chance(1, 12) {
			n = rng.PickInt(100000, 250000)
		}
		sizes := make([]uint32, n)
		var body uint64
		for i := range sizes {
			if rng.Chance(1, 50) {
				sizes[i] = uint32(rng.Intn(3))
				body += uint64(sizes[i]) * 8
			}
		}
		field := uint32(n - 1)
		adj := rng.Intn(4)
		switch adj {
		case 1:
			field++ // table one entry longer than supplied sizes: reads into the body
		case 2:
			field--
		}
		data = refHeader(field, sizes)
		data = append(data, rng.Bytes(int(body))...)
		if adj == 3 && len(data) > 8 {
			data = data[:len(data)-rng.PickInt(1, 4, 8)]
		}
		desc = fmt.Sprintf("many-segments n=%d adj=%d", n, adj)
		rec.Count("unmarshal_many_segments", 1)
	default: // valid message with length perturbations
		segs := genMessage(rng, 60)
		data = refSerialize(segs)
		switch rng.Intn(5) {
		case 0:
			data = data[:rng.Intn(len(data)+1)]
		case 1:
			data = append(data, rng.Bytes(rng.Range(1, 17))...)
		case 2:
			if len(data) > 0 {
				data = data[:len(data)-1]
			}
		case 3:
			data[rng.Intn(minInt(len(data), 8))] ^= byte(1 << uint(rng.Intn(8)))
		}
		desc = "valid-perturbed"
		rec.Count("unmarshal_valid_perturbed", 1)
	}
	data = data[:len(data):len(data)]
	if c.idx%3 == 2 {
		// present the input as a prefix of a larger buffer (len < cap); what lies
		// behind len is not input and looks like more segment data
		big := make([]byte, len(data), len(data)+8*(1+int(c.idx%61)))
		copy(big, data)
		tail := big[len(data):cap(big)]
		for i := range tail {
			tail[i] = 0xA5
		}
		data = big
		desc += "+spare-capacity"
		rec.Count("unmarshal_spare_capacity", 1)
	}
	rec.Case(c.idx, fmt.Sprintf("unmarshal len=%d %s", len(data), desc))
	rec.Distinct(common.Hash64([]byte("unmarshal"), data))
	if rec.WantSample() {
		rec.Sample(map[string]interface{}{"mode": "unmarshal", "case": desc, "len": len(data), "first_bytes": hexCap(data, 48)})
	}
	inp := map[string]interface{}{"data_len": len(data), "first_bytes_hex": hexCap(data, 128), "how": desc}
	if len(data) <= 4096 {
		inp["data_hex"] = common.Hex(data)
	}
	fr, fst := refParseFrame(data)
	var m *capnp.Message
	var err error
	var delta uint64
	p := common.Guard(func() {
		runtime.ReadMemStats(&ms0)
		m, err = capnp.Unmarshal(data)
		runtime.ReadMemStats(&ms1)
		delta = ms1.TotalAlloc - ms0.TotalAlloc
	})
	rec.Count("unmarshal_hostile_calls", 1)
	rec.Count("unmarshal_frame_"+fst.String(), 1)
	if c.panicked(p, "Unmarshal", "hostile", inp) {
		return
	}
	inp["alloc_bytes"] = delta
	rec.Max("max_unmarshal_alloc_bytes", int64(delta))
	bound := 8*uint64(len(data)) + 1024
	if delta > bound {
		c.viol("alloc/Unmarshal/hostile", fmt.Sprintf("Unmarshal of %d bytes allocated %d bytes (bound 8*len+1024 = %d)", len(data), delta, bound), desc, inp)
	}
	if len(data) >= 4096 {
		rec.Max("max_unmarshal_alloc_per_input_byte_x100_inputs_ge_4096", int64(delta*100/uint64(len(data))))
	}
	allocHousekeeping()
	if err == nil {
		rec.Count("unmarshal_accepted", 1)
		if fst != frameOK {
			c.viol("accept/Unmarshal/"+fst.String(), "Unmarshal accepted data that does not hold a complete frame", desc, inp)
			return
		}
		if m.NumSegments() != int64(fr.nsegs) {
			c.viol("diff/Unmarshal/hostile", fmt.Sprintf("accepted message has %d segments, the frame has %d", m.NumSegments(), fr.nsegs), desc, inp)
		} else if fr.nsegs <= 2000 {
			got, e := msgSegs(m)
			if e != nil || !segsEqual(got, fr.segs) {
				c.viol("diff/Unmarshal/hostile", "accepted message differs from the reference parse", errStr(e), inp)
			}
		} else {
			// very long tables: first and last 64 segments and 400 random ones
			for j := 0; j < 528; j++ {
				id := uint64(j)
				if j >= 64 && j < 128 {
					id = fr.nsegs - 1 - uint64(j-64)
				} else if j >= 128 {
					id = rng.Uint64() % fr.nsegs
				}
				sg, e := m.Segment(capnp.SegmentID(id))
				if e != nil || !bytes.Equal(sg.Data(), fr.segs[id]) {
					c.viol("diff/Unmarshal/hostile", fmt.Sprintf("segment %d of the accepted message differs from the reference parse", id), errStr(e), inp)
					break
				}
			}
			rec.Count("unmarshal_sampled_compare", 1)
		}
		rec.Max("max_unmarshal_accepted_segments", int64(fr.nsegs))
		return
	}
	rec.Count("unmarshal_rejected", 1)
	if fst == frameOK {
		c.viol("reject/Unmarshal/complete-frame", fmt.Sprintf("complete frame (%d segments, %d bytes) rejected: %s", fr.nsegs, fr.frameLen, errStr(err)), desc, inp)
	}
}

func minInt(a, b int) int {
	if a < b {
		return a
	}
	return b
}
