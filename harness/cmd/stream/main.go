// stream: verification driver for C13 (packed codec) and C14 (stream framing
// and decode bounds).  See NOTES.md.
package main

import (
	"fmt"
	"os"
	"runtime/pprof"
	"syscall"
	"time"

	"capnproto.org/go/capnp/v3/zverif/common"
)

// memoryFence caps the process's private writable memory (RLIMIT_DATA; unlike
// RLIMIT_AS it does not count the Go runtime's PROT_NONE address-space
// reservations).  On correct library code a child stays below ~400 MB; if the
// library ever follows a hostile header into a multi-GiB allocation the child
// dies with "fatal error: out of memory" (reported by the orchestrator as a
// crash of that case) instead of exhausting the machine.
const memoryFence = 1536 << 20

func fenceMemory() {
	var rl syscall.Rlimit
	if err := syscall.Getrlimit(syscall.RLIMIT_DATA, &rl); err != nil {
		return
	}
	lim := uint64(memoryFence)
	if rl.Max < lim {
		lim = rl.Max
	}
	rl.Cur = lim
	syscall.Setrlimit(syscall.RLIMIT_DATA, &rl)
}

func main() {
	fenceMemory()
	cfg := common.ParseFlags()
	rec := common.NewRecorder(cfg)
	// Developer aids only (profiling, per-case wall time on stderr); neither
	// influences what is executed or any verdict.
	if pf := os.Getenv("STREAM_CPUPROFILE"); pf != "" {
		if f, err := os.Create(pf); err == nil {
			pprof.StartCPUProfile(f)
		}
	}
	timing := os.Getenv("STREAM_TIMING") != ""
	if cfg.Mode == "hostile" || cfg.Mode == "unmarshal" {
		allocMonitorInit()
	}
	for i := cfg.Start; i < cfg.Start+cfg.Count; i++ {
		rng := common.NewRNG(common.CaseSeed(cfg.Seed, cfg.Prop+"/"+cfg.Mode, i))
		c := &ctx{rec: rec, cfg: cfg, idx: i}
		t0 := time.Now()
		switch cfg.Prop + "/" + cfg.Mode {
		case "C13/payload":
			c.runPayload(rng)
		case "C13/cuts":
			c.runCuts(rng)
		case "C13/mutate":
			c.runMutate(rng)
		case "C14/frames":
			c.runFrames(rng)
		case "C14/hostile":
			c.runHostile(rng)
		case "C14/unmarshal":
			c.runUnmarshal(rng)
		default:
			rec.Inconclusive("unknown prop/mode " + cfg.Prop + "/" + cfg.Mode)
			rec.Finish()
			os.Exit(0)
		}
		if timing {
			fmt.Fprintf(os.Stderr, "TIMING %d %d us\n", i, time.Since(t0).Microseconds())
		}
	}
	rec.Finish()
	pprof.StopCPUProfile()
	os.Exit(0)
}
