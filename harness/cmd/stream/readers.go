package main

import (
	"bufio"
	"io"

	"capnproto.org/go/capnp/v3/internal/packed"
	"capnproto.org/go/capnp/v3/zverif/common"
)

// chunkReader serves data in random chunks of 1..max bytes.  It never
// allocates (the allocation monitor measures across its Read calls) and it
// optionally reports io.EOF together with the last bytes, which io.Reader
// allows.
type chunkReader struct {
	data        []byte
	pos         int
	rng         common.RNG
	max         int
	eofWithData bool
	reads       int
}

func (c *chunkReader) Read(p []byte) (int, error) {
	c.reads++
	if len(p) == 0 {
		return 0, nil
	}
	if c.pos >= len(c.data) {
		return 0, io.EOF
	}
	n := 1
	if c.max > 1 {
		n += c.rng.Intn(c.max)
	}
	if n > len(p) {
		n = len(p)
	}
	if n > len(c.data)-c.pos {
		n = len(c.data) - c.pos
	}
	copy(p, c.data[c.pos:c.pos+n])
	c.pos += n
	if c.eofWithData && c.pos == len(c.data) {
		return n, io.EOF
	}
	return n, nil
}

// readerCfg is one way of presenting a byte string to a streaming decoder.
type readerCfg struct {
	maxChunk    int
	eofWithData bool
	bufSize     int // bufio size for packed.NewReader (16..4096)
	seed        uint64
}

func genReaderCfg(rng *common.RNG) readerCfg {
	c := readerCfg{seed: rng.Uint64()}
	switch rng.Intn(6) {
	case 0:
		c.maxChunk = 1
	case 1:
		c.maxChunk = rng.Range(2, 9)
	case 2:
		c.maxChunk = rng.Range(10, 64)
	case 3:
		c.maxChunk = rng.Range(65, 4096)
	default:
		c.maxChunk = 1 << 20
	}
	c.eofWithData = rng.Chance(1, 4)
	switch rng.Intn(6) {
	case 0:
		c.bufSize = 16
	case 1:
		c.bufSize = rng.Range(17, 32)
	case 2:
		c.bufSize = rng.Range(33, 512)
	case 3:
		c.bufSize = 4096
	default:
		c.bufSize = rng.Range(16, 4096)
	}
	return c
}

func (c readerCfg) reader(data []byte) *chunkReader {
	return &chunkReader{data: data, rng: *common.NewRNG(c.seed), max: c.maxChunk, eofWithData: c.eofWithData}
}

func (c readerCfg) packedReader(data []byte) *packed.Reader {
	return packed.NewReader(bufio.NewReaderSize(c.reader(data), c.bufSize))
}

func bufClass(n int) string {
	switch {
	case n == 16:
		return "16"
	case n <= 32:
		return "17_32"
	case n <= 512:
		return "33_512"
	case n < 4096:
		return "513_4095"
	}
	return "4096"
}

func chunkClass(n int) string {
	switch {
	case n == 1:
		return "1"
	case n <= 9:
		return "2_9"
	case n <= 64:
		return "10_64"
	case n <= 4096:
		return "65_4096"
	}
	return "whole"
}

// drainRead pulls everything out of r with random read sizes.  It returns the
// bytes delivered (those counted in the n results) and the terminating error.
// A Read that makes no progress without an error many times in a row is
// reported through stuck.
func drainRead(r io.Reader, rng *common.RNG, limit int) (out []byte, err error, stuck bool) {
	var buf [96]byte
	idle := 0
	for {
		var sz int
		switch rng.Intn(8) {
		case 0:
			sz = rng.Range(1, 7)
		case 1:
			sz = 8
		case 2:
			sz = rng.Range(9, 15)
		case 3:
			sz = 16
		case 4:
			sz = 0
		default:
			sz = rng.Range(1, len(buf))
		}
		p := buf[:sz]
		for i := range p {
			p[i] = 0xA5 // scratch is dirty: delivered bytes must have been written
		}
		n, e := r.Read(p)
		if n < 0 || n > len(p) {
			return out, e, true
		}
		out = append(out, p[:n]...)
		if e != nil {
			return out, e, false
		}
		if n == 0 && sz > 0 {
			idle++
			if idle > 1000 {
				return out, nil, true
			}
		} else if n > 0 {
			idle = 0
		}
		if len(out) > limit {
			return out, nil, true
		}
	}
}

// drainWords pulls words with ReadWord until an error.
func drainWords(r *packed.Reader, limit int) (out []byte, err error, stuck bool) {
	var w [8]byte
	for {
		for i := range w {
			w[i] = 0x5A
		}
		e := r.ReadWord(w[:])
		if e != nil {
			return out, e, false
		}
		out = append(out, w[:]...)
		if len(out) > limit {
			return out, nil, true
		}
	}
}

func hasPrefix(full, pre []byte) bool {
	if len(pre) > len(full) {
		return false
	}
	for i := range pre {
		if full[i] != pre[i] {
			return false
		}
	}
	return true
}

func hexCap(b []byte, max int) string {
	if len(b) <= max {
		return common.Hex(b)
	}
	return common.Hex(b[:max]) + "…"
}
