package main

// Independent reference implementation of the Cap'n Proto "packed" scheme,
// written from https://capnproto.org/encoding.html#packing and sharing no code
// with internal/packed:
//
//   * The stream is a sequence of items, one per 8-byte word: a tag byte whose
//     bit i (LSB first) says whether byte i of the word is present; the present
//     bytes follow the tag in order; absent bytes are zero.
//   * Tag 0x00 is followed by one count byte: the number of ADDITIONAL all-zero
//     words that follow the word itself (0..255).
//   * Tag 0xff is followed by the 8 bytes of the word and then one count byte N:
//     N further words follow verbatim (8*N raw bytes), uncompressed.
//
// The decoder reports truncation explicitly and never invents bytes: its
// output on a truncated input consists of exactly the words that the available
// bytes fully determine.

import "capnproto.org/go/capnp/v3/zverif/common"

type refStatus int

const (
	refOK           refStatus = iota // input ends at an item boundary
	refTruncWord                     // ends inside the bytes that follow a tag
	refTruncCount                    // tag 0x00/0xff and its word present, count byte missing
	refTruncLitMid                   // ends inside a literal run, inside a word of the run
	refTruncLitWord                  // ends inside a literal run, on a word boundary of the run
)

func (s refStatus) String() string {
	switch s {
	case refOK:
		return "complete"
	case refTruncWord:
		return "trunc-in-word-bytes"
	case refTruncCount:
		return "trunc-missing-count"
	case refTruncLitMid:
		return "trunc-literal-midword"
	case refTruncLitWord:
		return "trunc-literal-wordboundary"
	}
	return "?"
}

// packItem describes one item of a packed stream (for coverage counters and
// for choosing mutation sites).
type packItem struct {
	off      int  // offset of the tag byte
	tag      byte // tag value
	countOff int  // offset of the count byte, -1 if none
	count    int  // value of the count byte
	end      int  // offset one past the item (for the last item of a truncated input: len(in))
}

// refUnpack decodes in.  out holds every word fully determined by in.
func refUnpack(in []byte) (out []byte, st refStatus, items []packItem) {
	pos := 0
	for pos < len(in) {
		it := packItem{off: pos, tag: in[pos], countOff: -1}
		tag := in[pos]
		pos++
		var w [8]byte
		for bit := uint(0); bit < 8; bit++ {
			if tag&(1<<bit) == 0 {
				continue
			}
			if pos >= len(in) {
				it.end = len(in)
				items = append(items, it)
				return out, refTruncWord, items
			}
			w[bit] = in[pos]
			pos++
		}
		out = append(out, w[:]...)
		if tag == 0x00 || tag == 0xff {
			if pos >= len(in) {
				it.end = len(in)
				items = append(items, it)
				return out, refTruncCount, items
			}
			it.countOff = pos
			it.count = int(in[pos])
			pos++
			if tag == 0x00 {
				for k := 0; k < it.count*8; k++ {
					out = append(out, 0)
				}
			} else {
				need := it.count * 8
				avail := len(in) - pos
				if avail < need {
					whole := avail / 8 * 8
					out = append(out, in[pos:pos+whole]...)
					it.end = len(in)
					items = append(items, it)
					if avail%8 == 0 {
						return out, refTruncLitWord, items
					}
					return out, refTruncLitMid, items
				}
				out = append(out, in[pos:pos+need]...)
				pos += need
			}
		}
		it.end = pos
		items = append(items, it)
	}
	return out, refOK, items
}

// Packing styles of the reference encoder.  All of them are legal encodings;
// they differ in the choices the spec leaves to the compressor.
const (
	styleCanon  = iota // maximal zero runs; literal run = following words without any zero byte
	styleMin           // every count byte is 0
	styleMaxLit        // literal runs as long as allowed (any following words, even zero words)
	styleRand          // random legal counts
	numStyles
)

func styleName(s int) string {
	switch s {
	case styleCanon:
		return "canon"
	case styleMin:
		return "min"
	case styleMaxLit:
		return "maxlit"
	case styleRand:
		return "rand"
	}
	return "?"
}

func isZeroWord(w []byte) bool {
	for _, b := range w[:8] {
		if b != 0 {
			return false
		}
	}
	return true
}

func zeroBytes(w []byte) int {
	n := 0
	for _, b := range w[:8] {
		if b == 0 {
			n++
		}
	}
	return n
}

// refPack encodes x (len multiple of 8).
func refPack(x []byte, style int, rng *common.RNG) []byte {
	if len(x)%8 != 0 {
		panic("refPack: unaligned")
	}
	var out []byte
	nw := len(x) / 8
	i := 0
	for i < nw {
		w := x[i*8 : i*8+8]
		var tag byte
		for b := uint(0); b < 8; b++ {
			if w[b] != 0 {
				tag |= 1 << b
			}
		}
		out = append(out, tag)
		for b := 0; b < 8; b++ {
			if w[b] != 0 {
				out = append(out, w[b])
			}
		}
		i++
		switch tag {
		case 0x00:
			avail := 0
			for i+avail < nw && avail < 255 && isZeroWord(x[(i+avail)*8:]) {
				avail++
			}
			c := avail
			switch style {
			case styleMin:
				c = 0
			case styleRand:
				switch rng.Intn(4) {
				case 0:
					c = 0
				case 1:
					c = avail
				default:
					c = rng.Intn(avail + 1)
				}
			}
			out = append(out, byte(c))
			i += c
		case 0xff:
			maxn := nw - i
			if maxn > 255 {
				maxn = 255
			}
			c := 0
			switch style {
			case styleCanon:
				for c < maxn && zeroBytes(x[(i+c)*8:]) == 0 {
					c++
				}
			case styleMin:
				c = 0
			case styleMaxLit:
				c = maxn
			case styleRand:
				switch rng.Intn(4) {
				case 0:
					c = 0
				case 1:
					c = maxn
				default:
					c = rng.Intn(maxn + 1)
				}
			}
			out = append(out, byte(c))
			out = append(out, x[i*8:(i+c)*8]...)
			i += c
		}
	}
	return out
}

// countClass buckets a count byte for coverage counters.
func countClass(c int) string {
	switch {
	case c == 0:
		return "0"
	case c == 1:
		return "1"
	case c == 253:
		return "253"
	case c == 254:
		return "254"
	case c == 255:
		return "255"
	}
	return "2_252"
}
