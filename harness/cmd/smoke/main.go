// smoke: trivial driver used to test the orchestrator itself.
package main

import (
	"fmt"
	"os"

	"capnproto.org/go/capnp/v3"
	"capnproto.org/go/capnp/v3/zverif/common"
	"github.com/anishathalye/porcupine"
)

func main() {
	cfg := common.ParseFlags()
	rec := common.NewRecorder(cfg)
	_ = porcupine.Ok
	for i := cfg.Start; i < cfg.Start+cfg.Count; i++ {
		rng := common.NewRNG(common.CaseSeed(cfg.Seed, cfg.Prop+"/"+cfg.Mode, i))
		rec.Case(i, "smoke")
		n := rng.Intn(100)
		p := common.Guard(func() {
			msg, seg, _ := capnp.NewMessage(capnp.SingleSegment(nil))
			s, _ := capnp.NewRootStruct(seg, capnp.ObjectSize{DataSize: 8})
			s.SetUint64(0, uint64(n))
			if msg.VerifReadLimit() == 0 {
				panic("no budget")
			}
		})
		if p != nil {
			rec.Violate("panic/smoke", p.Value, i, p.Stack, nil)
		}
		if cfg.Extra == "crash" && i == cfg.Start+2 {
			var m map[string]int
			go func() { m["x"] = 1 }()
			select {}
		}
		if cfg.Extra == "viol" && i%3 == 0 {
			rec.Violate("smoke/fake", "fake violation", i, "", map[string]int{"n": n})
		}
		rec.Distinct(uint64(n))
		rec.Count("cases", 1)
		rec.Sample(fmt.Sprintf("n=%d", n))
	}
	rec.Finish()
	os.Exit(0)
}
