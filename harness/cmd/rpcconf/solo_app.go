package main

import (
	"context"
	"fmt"
	"sync/atomic"

	"capnproto.org/go/capnp/v3"
	rpccp "capnproto.org/go/capnp/v3/std/capnp/rpc"
	"capnproto.org/go/capnp/v3/zverif/rpcbench"
)

func capnpInterface(p rpccp.Payload, id int) capnp.Ptr {
	return capnp.NewInterface(p.Segment(), capnp.CapabilityID(id)).ToPtr()
}

// paramCap is one capability the application places in call parameters.
type paramCap struct {
	h      *rpcbench.Handle
	slot   int // content slot pointing at the first entry (-1: table entry only)
	copies int
	nested bool
}

func (s *solo) appStream(key int) (uint32, uint32) {
	id, ok := s.handleStream[key]
	if !ok {
		s.streamNext++
		id = s.streamNext
		s.handleStream[key] = id
	}
	s.streamSeq[id]++
	return id, s.streamSeq[id]
}

// srcOfHandle tells what a descriptor made from this handle must be.
func (s *solo) srcOfHandle(h *rpcbench.Handle) capSrc {
	src := capSrc{argIdx: -1}
	if h.Local != nil {
		src.local = h.Local
	} else if pe := s.handlePexp[h.ID]; pe != nil {
		src.pcap = pe.cap
	}
	return src
}

// newAppCall prepares the bookkeeping and the Send for an application call.
func (s *solo) newAppCall(streamKey int, via string, params []paramCap, want *wantRet) (*appCall, capnp.Send) {
	ac := &appCall{uid: s.newUID(), via: via, want: want}
	ac.stream, ac.seq = s.appStream(streamKey)
	known := true
	for _, pc := range params {
		src := s.srcOfHandle(pc.h)
		if src.local == nil && src.pcap == nil {
			known = false
		}
		for k := 0; k < pc.copies; k++ {
			ac.paramSrc = append(ac.paramSrc, src)
		}
	}
	if !known {
		ac.paramSrc = nil
	} else if ac.paramSrc == nil {
		ac.paramSrc = []capSrc{}
	}
	s.calls = append(s.calls, ac)
	s.callByUID[ac.uid] = ac
	uid, stream, seq := ac.uid, ac.stream, ac.seq
	send := capnp.Send{
		Method:   rpcbench.BenchMethod,
		ArgsSize: rpcbench.ContentSize,
		PlaceArgs: func(st capnp.Struct) error {
			c := rpcbench.NewContent(uid)
			c.Stream, c.Seq = stream, seq
			msg := st.Message()
			for _, pc := range params {
				first := -1
				for k := 0; k < pc.copies; k++ {
					id := msg.AddCap(pc.h.C.AddRef())
					if first < 0 {
						first = int(id)
					}
				}
				if pc.slot >= 0 {
					c.Slots[pc.slot] = first
					c.Nested[pc.slot] = pc.nested
				}
			}
			return rpcbench.FillStruct(st, &c)
		},
	}
	return ac, send
}

// issue sends the call through f (SendCall or PipelineSend) under the
// deadlock watch.
func (s *solo) issue(ac *appCall, f func(ctx context.Context) (*capnp.Answer, capnp.ReleaseFunc)) bool {
	ctx, cancel := context.WithCancel(context.Background())
	ac.cancel = cancel
	ac.sendT0 = s.log.Stamp()
	ok := s.do("call "+ac.via, func() {
		ac.ans, ac.release = f(ctx)
	})
	ac.sendT1 = s.log.Stamp()
	ac.afterClose = s.closed
	s.count("app_calls_issued", 1)
	return ok
}

func (s *solo) appBootstrap() *rpcbench.Handle {
	var c *capnp.Client
	if !s.do("Conn.Bootstrap", func() { c = s.conn.Bootstrap(context.Background()) }) {
		return nil
	}
	h := s.w.AddHandle(&rpcbench.Handle{C: c, Label: fmt.Sprintf("bootstrap#%d", len(s.appBoots)), Who: "C"})
	s.appBoots = append(s.appBoots, &appBoot{h: h})
	s.count("app_bootstraps", 1)
	return h
}

// resolveCall waits for the answer of an application call and records what
// the application saw.
func (s *solo) resolveCall(ac *appCall) bool {
	if ac.resolved {
		return true
	}
	if ac.answer() == nil {
		return false
	}
	ok := s.await(fmt.Sprintf("answer of call uid=%x (%s)", ac.uid, ac.via), func() bool {
		s.pump()
		select {
		case <-ac.ans.Done():
			return true
		default:
			return false
		}
	})
	if !ok {
		return false
	}
	st, err := ac.ans.Struct()
	ac.resolved = true
	if err != nil {
		ac.resErr = err.Error()
	} else {
		ac.ok = true
		ac.resUID = st.Uint64(0)
	}
	s.count("app_calls_resolved", 1)
	s.checkAppCall(ac)
	return true
}

func (s *solo) releaseAnswer(ac *appCall) {
	if ac.released || ac.release == nil {
		return
	}
	ac.released = true
	ac.relT0 = s.log.Stamp()
	s.do(fmt.Sprintf("release answer uid=%x", ac.uid), ac.release)
	ac.relT1 = s.log.Stamp()
	if ac.cancel != nil {
		ac.cancel()
	}
}

// takeResultCap adds a reference to the capability at a result slot of a
// resolved call.
func (s *solo) takeResultCap(ac *appCall, slot int) *rpcbench.Handle {
	if !ac.resolved || !ac.ok || ac.released {
		return nil
	}
	st, err := ac.ans.Struct()
	if err != nil {
		return nil
	}
	p, err := st.Ptr(uint16(slot))
	if err != nil {
		return nil
	}
	var ci capnp.Interface
	if i := p.Interface(); i.IsValid() {
		ci = i
	} else if ns := p.Struct(); ns.IsValid() {
		q, _ := ns.Ptr(0)
		ci = q.Interface()
	}
	if !ci.IsValid() {
		return nil
	}
	c := ci.Client()
	if c == nil {
		return nil
	}
	var c2 *capnp.Client
	if !s.do("AddRef of result capability", func() { c2 = c.AddRef() }) || c2 == nil {
		return nil
	}
	h := &rpcbench.Handle{C: c2, Label: fmt.Sprintf("res%d-of-%x", slot, ac.uid), FromUID: ac.uid, CapIdx: int(ci.Capability()), Who: "C"}
	s.w.AddHandle(h)
	s.bindResultHandle(h, ac)
	return h
}

// bindResultHandle maps a handle taken from results to the peer export /
// local capability it denotes (from the Return the peer sent).
func (s *solo) bindResultHandle(h *rpcbench.Handle, ac *appCall) {
	if ac.pa == nil || ac.pa.retSpecUsed == nil {
		return
	}
	spec := ac.pa.retSpecUsed
	if h.CapIdx < 0 || h.CapIdx >= len(spec.content.Caps) {
		return
	}
	if pc := spec.pcaps[h.CapIdx]; pc != nil {
		for _, e := range s.pexp {
			if e.cap == pc {
				s.handlePexp[h.ID] = e
			}
		}
	}
	if h.CapIdx < len(spec.clocals) && spec.clocals[h.CapIdx] != nil {
		h.Local = spec.clocals[h.CapIdx]
	}
}

// bindArgHandles maps handles the instrumented implementations took from
// call arguments.
func (s *solo) bindArgHandles() {
	for _, h := range s.w.Handles() {
		if !h.FromArgs || s.boundArg[h.ID] {
			continue
		}
		q := s.pqByUID[h.FromUID]
		if q == nil || h.CapIdx < 0 || h.CapIdx >= len(q.argDescs) {
			continue
		}
		s.boundArg[h.ID] = true
		d := q.argDescs[h.CapIdx]
		live := s.w.LiveHandles()
		var hp *rpcbench.Handle
		for _, lh := range live {
			if lh.ID == h.ID {
				hp = lh
			}
		}
		switch d.Kind {
		case "senderHosted", "senderPromise":
			if e := s.pexpAll[d.ID]; e != nil {
				s.handlePexp[h.ID] = e
			}
		case "receiverHosted":
			if hp != nil && h.CapIdx < len(q.argLocals) {
				hp.Local = q.argLocals[h.CapIdx]
			}
		}
		if hp != nil {
			s.argHandles = append(s.argHandles, hp)
		}
	}
}

// async runs f in its own goroutine; the quiescence test waits for it.
func (s *solo) async(what string, f func()) {
	atomic.AddInt32(&s.asyncN, 1)
	go func() {
		defer atomic.AddInt32(&s.asyncN, -1)
		if p := commonGuard(f); p != nil {
			s.asyncPanic(what, p)
		}
	}()
}
