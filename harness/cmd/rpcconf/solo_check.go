package main

import (
	"fmt"
	"sort"
	"strings"

	"capnproto.org/go/capnp/v3/zverif/rpcbench"
)

// checkPeerQ: the Conn returned one of the peer's questions; compare the
// Return with what the target capability actually produced.
func (s *solo) checkPeerQ(q *peerQ) {
	if q.checked {
		return
	}
	q.checked = true
	m := q.ret
	if q.boot {
		if m.RetKind != "results" || m.Payload == nil || m.Payload.Kind != "iface" || m.Payload.SlotDesc(nil) == nil || m.Payload.SlotDesc(nil).Kind != "senderHosted" {
			s.violate("C06/return-content/bootstrap", "Bootstrap was not answered with the bootstrap capability: "+m.String(), s.log.Tail(20))
		}
		return
	}
	if q.peerResult != nil || q.fwdArrived {
		// produced by a capability of the peer (the Conn looped the call back)
		pr := q.peerResult
		if m.RetKind == "exception" && (s.closed || (q.finSent && q.finT < q.retT) || s.pipeTargetUnavailable(q)) {
			// canceled by the peer itself before the Return
			return
		}
		switch {
		case pr == nil:
			s.violate("C06/return-content", fmt.Sprintf("Return for looped-back call uid=%x before the peer capability answered", q.uid), s.log.Tail(30))
		case pr.exception:
			if m.RetKind != "exception" {
				s.violate("C06/return-content", fmt.Sprintf("call uid=%x: target raised an exception, Return says %s", q.uid, m.RetKind), s.log.Tail(30))
			}
		default:
			if m.RetKind != "results" || m.Payload == nil || m.Payload.UID != pr.content.UID {
				s.violate("C06/return-content", fmt.Sprintf("call uid=%x: Return %s differs from the result of the target (uid %x)", q.uid, m.String(), pr.content.UID), s.log.Tail(30))
			}
		}
		return
	}
	o := s.w.Obs(q.uid)
	if o == nil {
		// never delivered to an implementation
		if m.RetKind == "results" {
			s.violate("C06/return-content", fmt.Sprintf("call uid=%x was never delivered but returned results %s", q.uid, m.String()), s.log.Tail(30))
			return
		}
		legit := q.mustFail || s.closed || (q.finSent && q.finT < q.retT) || (q.pipeOn != nil && s.pipeTargetUnavailable(q))
		if !legit {
			sig := "C06/call-not-delivered"
			if s.chainedOnQueued(q) {
				// server/answer.go: a call pipelined on a call that went
				// through a server answer queue is applied to the wrong
				// answer (queueCaller basis off by one)
				sig = "C06/call-not-delivered/pipeline-on-queued-call"
			} else if strings.Contains(m.ExcReason, "call on null client") && s.arrivedWhileReturning(q) {
				// the call was dispatched between the end of the target's
				// implementation and the moment its Return marked the
				// results ready: answer.Return has already stripped the cap
				// table the pipeline caller reads
				sig = "C06/call-not-delivered/null-client-while-returning"
			}
			s.violate(sig, fmt.Sprintf("call uid=%x (%s -> %s) was answered %q without reaching the target capability", q.uid, q.class, q.target.RefKey(), m.ExcReason), s.log.Tail(40))
		}
		s.count("peer_calls_failed_undelivered", 1)
		return
	}
	if !o.Done {
		s.violate("C06/return-before-impl-returned", fmt.Sprintf("Return for call uid=%x while the implementation is still running", q.uid), s.log.Tail(30))
		return
	}
	if q.expectLC != nil && o.Cap != q.expectLC.N {
		sig := "C06/wrong-target"
		if s.chainedOnQueued(q) {
			sig = "C06/wrong-target/pipeline-on-queued-call"
		}
		s.violate(sig, fmt.Sprintf("call uid=%x addressed to %s was delivered to capability #%d, expected #%d", q.uid, q.target.RefKey(), o.Cap, q.expectLC.N), s.log.Tail(30))
	}
	if o.Err != "" {
		if o.ResultsFilled && q.plan != nil && len(q.plan.ResCaps) > 0 {
			s.count("returns_failed_after_result_caps", 1)
		}
		if m.RetKind != "exception" || !strings.Contains(m.ExcReason, o.Err) {
			s.violate("C06/return-content", fmt.Sprintf("call uid=%x: implementation failed with %q, Return is %s", q.uid, o.Err, m.String()), s.log.Tail(30))
		}
		return
	}
	p := m.Payload
	if m.RetKind != "results" || p == nil || p.Kind != "struct" || p.UID != q.uid^rpcbench.ResultMask || p.Aux != uint64(o.Cap) || p.Stream != q.stream || p.Seq != q.seq {
		s.violate("C06/return-content", fmt.Sprintf("call uid=%x: implementation #%d returned results, Return is %s", q.uid, o.Cap, m.String()), s.log.Tail(30))
	}
}

// pipeTargetUnavailable: the answer the call was pipelined on failed or was
// canceled, so the call legitimately fails.
func (s *solo) pipeTargetUnavailable(q *peerQ) bool {
	t := q.pipeOn
	if t == nil {
		return false
	}
	if t.finSent || t.mustFail {
		return true
	}
	if t.ret != nil && t.ret.RetKind != "results" {
		return true
	}
	if o := s.w.Obs(t.uid); o != nil && (o.Err != "" || o.Canceled) {
		return true
	}
	return s.pipeTargetUnavailable(t)
}

// checkAppCall: exactly-once / correct-result monitor for local calls.
func (s *solo) checkAppCall(ac *appCall) {
	if ac.checked {
		return
	}
	ac.checked = true
	lenient := ac.afterClose || s.closed || ac.canceled
	if ac.pa != nil {
		a := ac.pa
		if !a.returned {
			if !lenient {
				s.violate("C06/local-result-early", fmt.Sprintf("call uid=%x resolved (%v %q) although the peer has not returned", ac.uid, ac.ok, ac.resErr), s.log.Tail(30))
			} else if ac.ok {
				s.violate("C06/local-result-mismatch", fmt.Sprintf("call uid=%x resolved with results nobody sent", ac.uid), s.log.Tail(30))
			}
			return
		}
		r := a.ret
		switch {
		case r == nil:
		case r.RetKind == "results":
			if ac.ok && ac.resUID != r.Payload.UID {
				s.violate("C06/local-result-mismatch", fmt.Sprintf("call uid=%x resolved with uid %x, peer returned %x", ac.uid, ac.resUID, r.Payload.UID), s.log.Tail(30))
			}
			if !ac.ok && !lenient {
				s.violate("C06/local-result-mismatch", fmt.Sprintf("call uid=%x failed with %q, peer returned results", ac.uid, ac.resErr), s.log.Tail(30))
			}
		case r.RetKind == "exception":
			if ac.ok {
				s.violate("C06/local-result-mismatch", fmt.Sprintf("call uid=%x succeeded, peer returned exception %q", ac.uid, r.ExcReason), s.log.Tail(30))
			} else if !lenient && !strings.Contains(ac.resErr, r.ExcReason) {
				s.violate("C06/local-result-mismatch", fmt.Sprintf("call uid=%x failed with %q, peer's exception was %q", ac.uid, ac.resErr, r.ExcReason), s.log.Tail(30))
			}
		default:
			if ac.ok {
				s.violate("C06/local-result-mismatch", fmt.Sprintf("call uid=%x succeeded, peer returned %s", ac.uid, r.RetKind), s.log.Tail(30))
			}
		}
		return
	}
	// never seen by the peer: delivered locally (embargo / resolved to a
	// local capability) or failed before being sent
	o := s.w.Obs(ac.uid)
	if o != nil {
		if !o.Done {
			s.violate("C06/local-result-early", fmt.Sprintf("local call uid=%x resolved while its implementation is running", ac.uid), s.log.Tail(30))
			return
		}
		if o.Err == "" && (!ac.ok || ac.resUID != ac.uid^rpcbench.ResultMask) && !lenient {
			s.violate("C06/local-result-mismatch", fmt.Sprintf("local call uid=%x: implementation returned results, caller saw ok=%v uid=%x err=%q", ac.uid, ac.ok, ac.resUID, ac.resErr), s.log.Tail(30))
		}
		if o.Err != "" && ac.ok {
			s.violate("C06/local-result-mismatch", fmt.Sprintf("local call uid=%x: implementation failed, caller saw results", ac.uid), s.log.Tail(30))
		}
		return
	}
	if ac.ok {
		s.violate("C06/local-result-mismatch", fmt.Sprintf("call uid=%x resolved with results although nobody produced them", ac.uid), s.log.Tail(30))
		return
	}
	legit := lenient || s.pipeParentNoCap(ac)
	if !legit {
		s.violate("C06/local-call-lost", fmt.Sprintf("call uid=%x (%s) failed with %q without reaching the wire or a capability", ac.uid, ac.via, ac.resErr), s.log.Tail(30))
	}
}

// checkOrder: per observer (instrumented capability), per stream, the
// sequence numbers must be strictly increasing.
func (s *solo) checkOrder() {
	for _, lc := range s.w.Caps() {
		last := map[uint32]uint32{}
		lastUID := map[uint32]uint64{}
		for _, uid := range lc.StartedCopy() {
			o := s.w.Obs(uid)
			if o == nil {
				continue
			}
			if l, ok := last[o.Stream]; ok && o.Seq <= l {
				if !s.orderReported[uid] {
					s.orderReported[uid] = true
					sig := "C06/order/" + s.classOf(uid, lastUID[o.Stream])
					if sentAfterReturnReceived(s.log.Snapshot(), uid) {
						sig = "C06/order/embargo/call-sent-after-return-received"
					}
					s.violate(sig, fmt.Sprintf("capability #%d observed stream %d seq %d (uid %x) after seq %d (uid %x)", lc.N, o.Stream, o.Seq, uid, l, lastUID[o.Stream]), s.log.Tail(60))
				}
			}
			last[o.Stream] = o.Seq
			lastUID[o.Stream] = uid
			s.cnt["order_checked_calls"] = 0 // recomputed below
		}
	}
	n := int64(0)
	for _, lc := range s.w.Caps() {
		n += int64(len(lc.StartedCopy()))
	}
	s.cnt["order_checked_calls"] = n
}

func (s *solo) classOf(uid, other uint64) string {
	for _, u := range []uint64{uid, other} {
		if ac := s.callByUID[u]; ac != nil && ac.embargoRound != nil {
			return "embargo"
		}
	}
	for _, u := range []uint64{other, uid} {
		if q := s.pqByUID[u]; q != nil && q.pipeOn != nil {
			if q.pipeClass == "" {
				s.classifyPipelined()
			}
			return "pipelined-" + q.pipeClass
		}
	}
	return "direct"
}

// classifyPipelined decides from the log, for every call the peer pipelined
// on one of its questions, whether the Conn received it before or after it
// sent that question's Return.
func (s *solo) classifyPipelined() {
	evs := s.log.Snapshot()
	retT := map[uint32][]int64{}   // answer id -> stamps of send-begin of Return (per use of the id)
	recvT := map[uint64]int64{}    // uid -> stamp of delivery to the Conn
	for _, e := range evs {
		if e.Msg == nil {
			continue
		}
		if e.Who == "C" && e.Kind == rpcbench.EvSendBegin && e.Msg.Which == "return" {
			retT[e.Msg.ID] = append(retT[e.Msg.ID], e.T)
		}
		if e.Who == "C" && e.Kind == rpcbench.EvRecv && e.Msg.Which == "call" && e.Msg.Payload != nil {
			if _, ok := recvT[e.Msg.Payload.UID]; !ok {
				recvT[e.Msg.Payload.UID] = e.T
			}
		}
	}
	for _, q := range s.pqAll {
		if q.pipeOn == nil || q.class == "forward" {
			continue
		}
		rt, ok := recvT[q.uid]
		if !ok {
			continue
		}
		cls := "unreturned"
		// the Return of the target question use: first Return of that id sent after the target call was sent
		for _, t := range retT[q.pipeOn.id] {
			if t > q.pipeOn.sentT && t < rt {
				cls = "returned"
			}
		}
		q.pipeClass = cls
	}
}

// ---------------------------------------------------------------------------
// Holder model (who keeps a capability alive), evaluated at quiescent points.

type holder struct {
	kind  string
	what  string
	maybe bool
}

func (s *solo) unboundLiveHandle() bool {
	for _, h := range s.w.LiveHandles() {
		if h.Local == nil && s.handlePexp[h.ID] == nil && !s.deadHandle[h.ID] {
			return true
		}
	}
	return false
}

// planResultSources lists, for a peer question, the local capabilities and
// peer exports its results hold (valid once the implementation returned ok).
func (s *solo) planResultSources(q *peerQ) (locals []*rpcbench.LocalCap, pexps []*peerExport) {
	if q.boot {
		return []*rpcbench.LocalCap{s.bootCap}, nil
	}
	if q.plan == nil {
		return nil, nil
	}
	for _, rc := range q.plan.ResCaps {
		if rc.H != nil {
			if rc.H.Local != nil {
				locals = append(locals, rc.H.Local)
			} else if pe := s.handlePexp[rc.H.ID]; pe != nil {
				pexps = append(pexps, pe)
			}
			continue
		}
		if q.argSlots == nil || rc.ArgSlot < 0 || rc.ArgSlot >= len(q.argSlots) || q.argSlots[rc.ArgSlot] < 0 {
			continue
		}
		d := q.argDescs[q.argSlots[rc.ArgSlot]]
		switch d.Kind {
		case "senderHosted", "senderPromise":
			if pe := s.pexpAll[d.ID]; pe != nil {
				pexps = append(pexps, pe)
			}
		case "receiverHosted":
			if l := q.argLocals[q.argSlots[rc.ArgSlot]]; l != nil {
				locals = append(locals, l)
			}
		}
	}
	return
}

func (s *solo) localHolders(lc *rpcbench.LocalCap) []holder {
	var hs []holder
	for _, h := range s.w.LiveHandles() {
		if h.Local == lc {
			hs = append(hs, holder{kind: "handle", what: h.Label})
		}
	}
	if lc == s.bootCap && !s.closed {
		hs = append(hs, holder{kind: "bootstrap", what: "Options.BootstrapClient"})
	}
	if !s.closed {
		for _, id := range sortedCexp(s.cexp) {
			ce := s.cexp[id]
			if ce.local == lc && ce.refs+ce.leaked > 0 {
				hs = append(hs, holder{kind: "export", what: fmt.Sprintf("export %d refs=%d", id, ce.refs+ce.leaked)})
			}
		}
		for _, q := range s.pqAll {
			if q.finSent {
				continue
			}
			var resolved bool
			if q.boot {
				resolved = q.returns > 0
			} else {
				o := s.w.Obs(q.uid)
				// (an implementation that failed after it had placed its
				// results leaves their capabilities with the answer, too)
				resolved = o != nil && o.Done && (o.Err == "" || o.ResultsFilled)
			}
			if resolved {
				ls, _ := s.planResultSources(q)
				for _, l := range ls {
					if l == lc {
						hs = append(hs, holder{kind: "result-caps", what: fmt.Sprintf("results of unfinished answer %d", q.id)})
					}
				}
			}
		}
	}
	for _, q := range s.pqAll {
		// a call that has not returned yet (running, or queued on an
		// unreturned answer) keeps its arguments
		if q.boot || q.returns > 0 {
			continue
		}
		if s.closed {
			// no Return will come; the arguments live as long as the implementation runs
			if o := s.w.Obs(q.uid); o == nil || o.Done {
				continue
			}
		}
		for i, d := range q.argDescs {
			if d.Kind == "receiverHosted" && i < len(q.argLocals) && q.argLocals[i] == lc {
				hs = append(hs, holder{kind: "param-caps", what: fmt.Sprintf("arguments of pending call uid=%x", q.uid)})
			}
		}
	}
	for _, ac := range s.calls {
		if !ac.resolved || ac.released || ac.pa == nil || ac.pa.retSpecUsed == nil {
			continue
		}
		for _, l := range ac.pa.retSpecUsed.clocals {
			if l != nil && l == lc {
				hs = append(hs, holder{kind: "app-result", what: fmt.Sprintf("unreleased results of call uid=%x", ac.uid), maybe: !ac.ok || ac.canceled})
			}
		}
	}
	// unresolved calls may still have their answer pending inside the Conn
	for _, ac := range s.calls {
		if ac.answer() != nil && !ac.resolved && ac.pa != nil && ac.pa.returned && ac.pa.retSpecUsed != nil {
			for _, l := range ac.pa.retSpecUsed.clocals {
				if l != nil && l == lc {
					hs = append(hs, holder{kind: "app-result", what: fmt.Sprintf("results of call uid=%x not looked at yet", ac.uid), maybe: ac.canceled})
				}
			}
		}
	}
	return hs
}

func (s *solo) importHolders(pe *peerExport) []holder {
	var hs []holder
	for _, h := range s.w.LiveHandles() {
		if s.handlePexp[h.ID] == pe {
			hs = append(hs, holder{kind: "handle", what: h.Label})
		}
	}
	for _, q := range s.pqAll {
		o := s.w.Obs(q.uid)
		if q.boot {
			continue
		}
		if q.returns == 0 && !(s.closed && (o == nil || o.Done)) {
			for _, d := range q.argDescs {
				if (d.Kind == "senderHosted" || d.Kind == "senderPromise") && d.ID == pe.id {
					hs = append(hs, holder{kind: "param-caps", what: fmt.Sprintf("arguments of pending call uid=%x", q.uid)})
				}
			}
		}
		if o == nil || !o.Done {
			continue
		}
		if (o.Err == "" || o.ResultsFilled) && !q.finSent {
			_, ps := s.planResultSources(q)
			for _, p := range ps {
				if p == pe {
					hs = append(hs, holder{kind: "result-caps", what: fmt.Sprintf("results of unfinished answer %d", q.id)})
				}
			}
		}
	}
	for _, ac := range s.calls {
		if ac.released || ac.answer() == nil || ac.pa == nil || !ac.pa.returned || ac.pa.retSpecUsed == nil {
			continue
		}
		for _, pc := range ac.pa.retSpecUsed.pcaps {
			if pc != nil && pc == pe.cap {
				hs = append(hs, holder{kind: "app-result", what: fmt.Sprintf("results of call uid=%x", ac.uid), maybe: ac.canceled || (ac.resolved && !ac.ok)})
			}
		}
	}
	return hs
}

func definite(hs []holder) (def []holder, maybe bool) {
	for _, h := range hs {
		if h.maybe {
			maybe = true
		} else {
			def = append(def, h)
		}
	}
	return
}

func holderKinds(hs []holder) string {
	set := map[string]bool{}
	for _, h := range hs {
		set[h.kind] = true
	}
	var ks []string
	for k := range set {
		ks = append(ks, k)
	}
	sort.Strings(ks)
	return strings.Join(ks, "+")
}

func holdersString(hs []holder) string {
	var sb strings.Builder
	for _, h := range hs {
		fmt.Fprintf(&sb, "  %s: %s (maybe=%v)\n", h.kind, h.what, h.maybe)
	}
	return sb.String()
}

// noteHolderHistory remembers which kinds of holders every capability ever
// had (used to name what leaked).
func (s *solo) noteHolderHistory() {
	for _, lc := range s.w.Caps() {
		for _, h := range s.localHolders(lc) {
			if s.everHeld[lc.N] == nil {
				s.everHeld[lc.N] = map[string]bool{}
			}
			s.everHeld[lc.N][h.kind] = true
		}
	}
}

func (s *solo) leakWhat(lc *rpcbench.LocalCap) string {
	ev := s.everHeld[lc.N]
	for _, k := range []string{"result-caps", "param-caps", "app-result", "export", "bootstrap", "handle"} {
		if ev[k] {
			return k
		}
	}
	return "unknown"
}

// checkQuiescent runs every state oracle.  It must be called at a quiescent
// point only (see quiesce).
func (s *solo) checkQuiescent(where string) {
	s.bindArgHandles()
	s.count("snapshots_taken", 1)
	for _, f := range s.w.TakeFaults() {
		switch {
		case strings.HasPrefix(f, "shutdown-twice"):
			s.violate("C07/shutdown-twice", "instrumented capability shut down twice: "+f, s.log.Tail(30))
		case strings.HasPrefix(f, "call-after-shutdown"):
			s.violate("C07/call-after-shutdown", "instrumented capability called after its Shutdown: "+f, s.log.Tail(30))
		case strings.HasPrefix(f, "call-delivered-twice"):
			s.violate("C06/call-delivered-twice", f, s.log.Tail(30))
		}
	}
	s.checkOrder()
	st := s.conn.VerifSnapshot()
	if !st.Locked {
		s.violate("C06/mutex-held-at-quiescence", "Conn.mu is held although no Conn method is running ("+where+")", s.log.Tail(30))
		return
	}
	if st.SenderLockHeld {
		// a leaked sender lock stays leaked: confirm at a second quiescent
		// point before reporting (one unexplained transient observation in
		// 29 000 thorough cases, see NOTES.md)
		s.count("sender_lock_held_first_look", 1)
		if s.await("second quiescent point "+where, s.quiescentNow) {
			if st2 := s.conn.VerifSnapshot(); st2.Locked && st2.SenderLockHeld {
				s.violate("C06/sender-lock-held-at-quiescence", "the sender lock is held although no Conn method is running ("+where+")", s.log.Tail(30))
			} else {
				st = st2
			}
		}
	}
	if !s.closed && !st.ShutdownDone {
		// H2: table occupancy
		wantQ := 0
		for _, a := range s.paAll {
			if !a.returned {
				wantQ++
			}
		}
		if st.Questions != wantQ {
			s.violate("C06/table-residue/questions", fmt.Sprintf("%d entries in the question table, %d questions await a Return (%s)", st.Questions, wantQ, where), s.log.Tail(40))
		}
		wantA := 0
		for _, q := range s.pqAll {
			if !(q.returns > 0 && q.finSent) {
				wantA++
			}
		}
		if st.Answers != wantA {
			s.violate("C06/table-residue/answers", fmt.Sprintf("%d entries in the answer table, %d answers are not both returned and finished (%s)", st.Answers, wantA, where), s.log.Tail(40))
		}
		if st.Embargoes != s.connEmb-s.connEmbDone {
			s.violate("C06/table-residue/embargoes", fmt.Sprintf("%d embargoes in the table, %d disembargo round trips outstanding (%s)", st.Embargoes, s.connEmb-s.connEmbDone, where), s.log.Tail(40))
		}
		// C07 conservation: exports
		ids := map[uint32]int{}
		for id := range s.cexp {
			ids[id] = 1
		}
		for id := range st.ExportRefs {
			ids[id] = 1
		}
		for _, id := range sortedKeysU32(ids) {
			want, leaked := 0, 0
			if ce := s.cexp[id]; ce != nil {
				want, leaked = ce.refs, ce.leaked
			}
			got := int(st.ExportRefs[id])
			s.count("export_counts_checked", 1)
			switch {
			case got == want:
				if ce := s.cexp[id]; ce != nil {
					ce.leaked = 0
				}
			case leaked > 0 && got == want+leaked:
				if !s.rpcIgnoredReported {
					s.rpcIgnoredReported = true
					s.violate("C07/export-count-mismatch/releaseParamCaps-ignored", fmt.Sprintf("export %d: Conn counts %d references, wire history gives %d (+%d released by Return.releaseParamCaps=true) (%s)", id, got, want, leaked, where), s.log.Tail(40))
				}
			case got > want:
				s.violate("C07/export-count-mismatch/conn-counts-more", fmt.Sprintf("export %d: Conn counts %d references, wire history gives %d (%s)", id, got, want, where), s.log.Tail(40))
			default:
				s.violate("C07/export-count-mismatch/conn-counts-less", fmt.Sprintf("export %d: Conn counts %d references, wire history gives %d (%s)", id, got, want, where), s.log.Tail(40))
			}
		}
		// imports
		ids = map[uint32]int{}
		for id := range s.pexp {
			ids[id] = 1
		}
		for id := range st.ImportRefs {
			ids[id] = 1
		}
		// a reference the application holds on an import keeps at least one
		// wire reference alive: the import table must have the entry
		for _, h := range s.w.LiveHandles() {
			pe := s.handlePexp[h.ID]
			if pe == nil || s.deadHandle[h.ID] {
				continue
			}
			s.count("live_import_handles_checked", 1)
			if st.ImportRefs[pe.id] == 0 {
				s.violate("C07/release-while-held", fmt.Sprintf("import %d is gone from the import table although the application holds reference %q to it (%s)", pe.id, h.Label, where), s.log.Tail(40))
			}
		}
		unbound := s.unboundLiveHandle()
		for _, id := range sortedKeysU32(ids) {
			want := 0
			pe := s.pexp[id]
			if pe != nil {
				want = pe.refs
			}
			got := st.ImportRefs[id]
			s.count("import_counts_checked", 1)
			if got != want {
				hs := []holder{}
				if pe != nil {
					hs = s.importHolders(pe)
				}
				def, _ := definite(hs)
				if got == 0 && want > 0 && len(def) > 0 {
					s.violate("C07/release-while-held", fmt.Sprintf("import %d was dropped (Release sent) although local references exist (%s):\n%s", id, where, holdersString(def)), s.log.Tail(40))
				} else {
					s.violate("C07/import-count-mismatch", fmt.Sprintf("import %d: Conn counts %d received references, peer sent %d not yet released (%s)", id, got, want, where), s.log.Tail(40))
				}
				continue
			}
			if pe != nil && want > 0 && !unbound {
				if hs := s.importHolders(pe); len(hs) == 0 {
					s.violate("C07/release-missing", fmt.Sprintf("import %d still holds %d references although the last local reference is gone (%s)", id, want, where), s.log.Tail(40))
				}
			}
		}
	}
	// shutdown monitor on the Conn-side capabilities
	s.noteHolderHistory()
	unbound := s.unboundLiveHandle()
	for _, lc := range s.w.Caps() {
		n, _ := lc.Shutdowns()
		hs := s.localHolders(lc)
		def, maybe := definite(hs)
		s.count("shutdown_checks", 1)
		if n > 0 && len(def) > 0 {
			s.violate("C07/shutdown-while-held/"+holderKinds(def), fmt.Sprintf("capability #%d was shut down although it is still referenced (%s):\n%s", lc.N, where, holdersString(def)), s.log.Tail(40))
		}
		if n == 0 && len(hs) == 0 && !maybe && !unbound {
			if s.closed {
				s.violate("C07/leak-after-close/"+s.leakWhat(lc), fmt.Sprintf("capability #%d was never released although the connection is closed and the application dropped every reference (%s)", lc.N, where), s.log.Tail(40))
			} else {
				s.violate("C07/shutdown-missing/"+s.leakWhat(lc), fmt.Sprintf("capability #%d has no holder left but was not shut down (%s)", lc.N, where), s.log.Tail(40))
			}
		}
	}
}

// pipeParentNoCap: a pipelined application call legitimately fails without
// reaching anybody when the answer it was pipelined on failed, was canceled,
// or has no capability at the path.
func (s *solo) pipeParentNoCap(ac *appCall) bool {
	t := ac.onCall
	if t == nil {
		return false
	}
	if t.canceled || (t.resolved && !t.ok) {
		return true
	}
	if t.pa == nil || !t.pa.returned || t.pa.ret == nil {
		return true // parent never reached the peer either: judged there
	}
	if t.pa.ret.RetKind != "results" {
		return true
	}
	return t.pa.ret.Payload.SlotDesc(ac.path) == nil
}

// arrivedWhileReturning: q was pipelined on a question whose implementation
// had already returned successfully but whose Return had not been put on the
// wire when the Conn received q.
func (s *solo) arrivedWhileReturning(q *peerQ) bool {
	t := q.pipeOn
	if t == nil {
		return false
	}
	o := s.w.Obs(t.uid)
	if o == nil || !o.Done || o.Err != "" {
		return false
	}
	var recvT, retT int64
	for _, e := range s.log.Snapshot() {
		if e.Msg == nil || e.Who != "C" {
			continue
		}
		if e.Kind == rpcbench.EvRecv && e.Msg.Which == "call" && e.Msg.Payload != nil && e.Msg.Payload.UID == q.uid && recvT == 0 {
			recvT = e.T
		}
		if e.Kind == rpcbench.EvSendEnd && e.Msg.Which == "return" && e.Msg.ID == t.id && e.T > t.sentT && retT == 0 {
			retT = e.T
		}
	}
	// dispatch happens after delivery; the window closes when the Return
	// has been sent (results ready is set just before)
	return recvT != 0 && (retT == 0 || recvT < retT)
}

// chainedOnQueued: q was pipelined on a call t that was itself pipelined on
// an answer that had not returned when the Conn received t (so t went
// through a server answer queue and its pipeline caller is a queueCaller).
func (s *solo) chainedOnQueued(q *peerQ) bool {
	t := q.pipeOn
	if t == nil || t.pipeOn == nil {
		return false
	}
	var recvT, retT int64
	for _, e := range s.log.Snapshot() {
		if e.Who != "C" || e.Msg == nil {
			continue
		}
		if e.Kind == rpcbench.EvRecv && e.Msg.Which == "call" && e.Msg.Payload != nil && e.Msg.Payload.UID == t.uid && recvT == 0 {
			recvT = e.T
		}
		if e.Kind == rpcbench.EvSendBegin && e.Msg.Which == "return" && e.Msg.ID == t.pipeOn.id && e.T > t.pipeOn.sentT && retT == 0 {
			retT = e.T
		}
	}
	return recvT != 0 && (retT == 0 || recvT < retT)
}
