package main

import (
	"fmt"

	rpccp "capnproto.org/go/capnp/v3/std/capnp/rpc"
	"capnproto.org/go/capnp/v3/zverif/rpcbench"
)

// retSpec describes the Return the peer will send for one of the Conn's
// questions.
type retSpec struct {
	exception bool
	canceled  bool
	rpc       bool // releaseParamCaps
	excReason string
	content   rpcbench.Content
	// resolved[i]: what cap-table entry i is
	pcaps []*peerCap    // for senderHosted / senderPromise entries
	cexps []*connExport // for receiverHosted entries
	// clocals: the Conn-side capability each receiverHosted entry named when
	// the Return was built
	clocals []*rpcbench.LocalCap
}

// stampOf finds the stamp of the event of the given kind carrying exactly
// this message copy.
func (s *solo) stampOf(kind string, m *rpcbench.WireMsg) int64 {
	evs := s.log.Snapshot()
	for i := len(evs) - 1; i >= 0; i-- {
		if evs[i].Msg == m && evs[i].Kind == kind {
			return evs[i].T
		}
	}
	return 0
}

// pump lets the scripted peer take every queued message off the wire and
// react to it.  All C06 wire-conformance oracles live here.
func (s *solo) pump() {
	for {
		m, closed := s.pt.PeerTryRecv()
		if m == nil {
			_ = closed
			return
		}
		t := s.log.Now()
		s.count("msg_c2p_"+m.Which, 1)
		if m.DecodeErr != "" {
			s.violate("C06/malformed-message", "Conn sent a message the bindings cannot read: "+m.DecodeErr, s.log.Tail(20))
			continue
		}
		switch m.Which {
		case "bootstrap":
			s.onBootstrap(m, t)
		case "call":
			s.onCall(m, t)
		case "return":
			s.onReturn(m, t)
		case "finish":
			s.onFinish(m, t)
		case "release":
			s.onRelease(m, t)
		case "disembargo":
			s.onDisembargo(m, t)
		case "abort":
			s.aborted = true
			s.abortMsg = m.ExcReason
			if !s.closed {
				s.violate("C06/unexpected-abort", "Conn aborted a healthy connection: "+m.ExcReason, s.log.Tail(30))
			}
		case "unimplemented":
			s.violate("C06/unimplemented-reply", "Conn answered a Level-1 message with Unimplemented("+m.Inner+")", s.log.Tail(30))
		default:
			s.violate("C06/unexpected-message", "Conn sent "+m.Which, s.log.Tail(30))
		}
	}
}

func (s *solo) checkQuestionIDFresh(id uint32, what string) {
	if old := s.pa[id]; old != nil {
		sig := "C06/question-id-reuse"
		if !old.finSeen {
			// messages are pumped in wire order: a Finish written before
			// this message would have been seen already
			sig = "C06/question-id-reuse/finish-never-sent"
		}
		s.violate(sig, fmt.Sprintf("%s re-uses question id %d (previous use: returned=%v finishSeen=%v)", what, id, old.returned, old.finSeen), s.log.Tail(30))
		delete(s.pa, id)
	}
}

func (s *solo) onBootstrap(m *rpcbench.WireMsg, t int64) {
	s.checkQuestionIDFresh(m.ID, "Bootstrap")
	a := &peerA{id: m.ID, boot: true, call: m, recvT: t}
	s.pa[m.ID] = a
	s.paAll = append(s.paAll, a)
	bound := false
	for _, b := range s.appBoots {
		if b.pa == nil && b.copyOf == nil {
			b.pa = a
			bound = true
			break
		}
	}
	if !bound {
		s.violate("C06/unknown-call", "Conn sent a Bootstrap nobody asked for", s.log.Tail(20))
	}
	if s.rng.Chance(7, 10) {
		s.peerReturn(a)
	} else {
		a.defer_ = true
	}
}

func (s *solo) onCall(m *rpcbench.WireMsg, t int64) {
	s.checkQuestionIDFresh(m.ID, "Call")
	a := &peerA{id: m.ID, call: m, recvT: t}
	s.pa[m.ID] = a
	s.paAll = append(s.paAll, a)
	if m.Payload == nil || m.Payload.Kind != "struct" {
		s.violate("C06/call-content", "Call parameters are not the struct that was placed: "+m.String(), s.log.Tail(20))
		return
	}
	a.uid = m.Payload.UID
	if m.SendResultsTo != "caller" || m.Iface != rpcbench.BenchInterfaceID || m.Method != rpcbench.BenchMethodID {
		s.violate("C06/call-content", "Call header differs from what the application sent: "+m.String(), s.log.Tail(20))
	}
	var srcs []capSrc
	var fwdOf *peerQ
	if app := s.callByUID[a.uid]; app != nil {
		if app.pa != nil {
			s.violate("C06/call-sent-twice", fmt.Sprintf("application call uid=%x appeared twice on the wire", a.uid), s.log.Tail(30))
		}
		a.app = app
		app.pa = a
		srcs = app.paramSrc
		if srcs == nil {
			srcs = []capSrc{}
		}
		if m.Payload.Stream != app.stream || m.Payload.Seq != app.seq {
			s.violate("C06/call-content", fmt.Sprintf("call uid=%x carries stream/seq %d/%d, sent %d/%d", a.uid, m.Payload.Stream, m.Payload.Seq, app.stream, app.seq), s.log.Tail(20))
		}
	} else if q := s.pqByUID[a.uid]; q != nil {
		// the Conn forwards one of the peer's own calls back to a
		// capability hosted by the peer
		fwdOf = q
		a.fwdOf = q
		srcs = []capSrc{}
		s.count("conn_forwarded_calls", 1)
	} else {
		s.violate("C06/unknown-call", fmt.Sprintf("Conn sent a call nobody issued (uid=%x)", a.uid), s.log.Tail(30))
		return
	}
	s.connSentDescs(m.Payload.Caps, srcs, fmt.Sprintf("params of call uid=%x", a.uid))

	switch m.Target.Kind {
	case "importedCap":
		pe := s.pexp[m.Target.Cap]
		if pe == nil || pe.refs <= 0 {
			s.violate("C06/call-to-released-import", fmt.Sprintf("Call q%d targets import %d which the Conn does not hold", m.ID, m.Target.Cap), s.log.Tail(30))
			s.peerReturnException(a, "no such export")
			return
		}
		if fwdOf != nil {
			s.noteForwardArrival(fwdOf, pe, a)
		}
		s.deliverToPeerCap(pe.cap, a)
	case "promisedAnswer":
		ta := s.pa[m.Target.QID]
		if ta == nil || ta.finSeen {
			s.violate("C06/call-to-finished-answer", fmt.Sprintf("Call q%d is pipelined on question %d which is unknown or finished", m.ID, m.Target.QID), s.log.Tail(30))
			s.peerReturnException(a, "no such answer")
			return
		}
		a.onAns = ta
		a.path = m.Target.PathOps()
		for _, f := range m.Target.Transform {
			if f == -2 {
				s.violate("C06/call-content", "unknown transform op sent by the Conn", s.log.Tail(20))
			}
		}
		if a.app != nil && a.app.onCall != nil && (a.app.onCall.pa != ta || pathStr(a.app.path) != pathStr(a.path)) {
			s.violate("C06/wrong-target", fmt.Sprintf("pipelined call uid=%x addressed to answer %d%s, application used %s", a.uid, ta.id, pathStr(a.path), a.app.via), s.log.Tail(30))
		}
		if !ta.returned {
			ta.queued = append(ta.queued, a)
			ta.pipedBeforeRet = append(ta.pipedBeforeRet, a.path)
			s.count("conn_pipelined_on_unreturned", 1)
		} else {
			s.count("conn_pipelined_on_returned", 1)
			s.resolvePipelined(a, ta)
		}
	default:
		s.violate("C06/call-content", "unknown target kind "+m.Target.Kind, s.log.Tail(20))
	}
}

// deliverToPeerCap: a call of the Conn reached a capability hosted by the
// peer.  The order oracle for application -> peer streams lives here.
func (s *solo) deliverToPeerCap(pc *peerCap, a *peerA) {
	st, sq := a.call.Payload.Stream, a.call.Payload.Seq
	if last, ok := pc.lastSeq[st]; ok && sq <= last {
		cls := "direct"
		if a.onAns != nil {
			cls = "pipelined"
		}
		s.violate("C06/order/"+cls, fmt.Sprintf("peer capability #%d observed stream %d seq %d after seq %d", pc.n, st, sq, last), s.log.Tail(40))
	}
	pc.lastSeq[st] = sq
	pc.seen = append(pc.seen, a.uid)
	s.count("calls_delivered_to_peer_caps", 1)
	if pc.forwardTo != nil {
		s.forwardToConn(a, pc.forwardTo)
		return
	}
	if a.app != nil && a.app.embargoRound != nil {
		// pipelined call of an embargo round whose path did not lead back
		// to the Conn: cannot happen by construction
		s.violate("C06/wrong-target", fmt.Sprintf("embargo-round call uid=%x delivered to a peer capability", a.uid), s.log.Tail(30))
	}
	switch {
	case a.fwdOf != nil:
		s.peerReturn(a)
	case a.app != nil && a.app.want != nil:
		if a.app.want.deferIt {
			a.defer_ = true
		} else {
			s.peerReturn(a)
		}
	case s.rng.Chance(6, 10):
		s.peerReturn(a)
	default:
		a.defer_ = true
	}
}

// resolvePipelined routes a call pipelined on an answer the peer has
// already returned.
func (s *solo) resolvePipelined(a *peerA, ta *peerA) {
	if ta.ret.RetKind != "results" {
		s.peerReturnException(a, "pipelined on failed answer")
		return
	}
	d := ta.ret.Payload.SlotDesc(a.path)
	if d == nil {
		s.peerReturnException(a, "pipeline path is not a capability")
		return
	}
	spec := ta.retSpecUsed
	idx := -1
	for i := range ta.ret.Payload.Caps {
		if &ta.ret.Payload.Caps[i] == d {
			idx = i
		}
	}
	switch d.Kind {
	case "senderHosted", "senderPromise":
		s.deliverToPeerCap(spec.pcaps[idx], a)
	case "receiverHosted":
		if s.holdAns != nil && s.holdAns == ta {
			// a slow proxy: forwarded when the Disembargo for this path
			// arrives, at the latest when the macro ends
			s.heldFwd = append(s.heldFwd, heldForward{a, spec.cexps[idx]})
			s.count("forwards_held_back", 1)
			return
		}
		s.forwardToConn(a, spec.cexps[idx])
	default:
		s.peerReturnException(a, "null capability")
	}
}

// flushHeld forwards the held looped-back calls pipelined on ta (path ==
// nil: all of them, otherwise those on that path) in arrival order.
func (s *solo) flushHeld(ta *peerA, path []int) {
	var keep []heldForward
	held := s.heldFwd
	s.heldFwd = nil
	for _, h := range held {
		if h.a.onAns == ta && (path == nil || pathStr(h.a.path) == pathStr(path)) {
			s.forwardToConn(h.a, h.ce)
		} else {
			keep = append(keep, h)
		}
	}
	s.heldFwd = append(keep, s.heldFwd...)
}

// checkDisembargoes: the Conn has finished question a (its Finish follows
// the Disembargoes it sent while handling the Return).  Every result path it
// had pipelined calls on before the Return and that the Return resolved to a
// capability hosted by the Conn itself must have been disembargoed (one
// Disembargo per cap-table entry): otherwise calls made on the resolved
// capability are delivered directly and overtake the pipelined calls that
// are still being looped back.
func (s *solo) checkDisembargoes(a *peerA) {
	if a.boot || a.app == nil || a.app.canceled || a.retAfterFinish || s.closed || s.aborted {
		return
	}
	if a.ret == nil || a.ret.RetKind != "results" || a.ret.Payload == nil {
		return
	}
	p := a.ret.Payload
	have := map[int]bool{}
	for _, path := range a.disPaths {
		if i := p.SlotCapIdx(path); i >= 0 {
			have[i] = true
		}
	}
	need := map[int][]int{}
	var order []int
	for _, path := range a.pipedBeforeRet {
		i := p.SlotCapIdx(path)
		if i < 0 || p.Caps[i].Kind != "receiverHosted" {
			continue
		}
		if _, ok := need[i]; !ok {
			need[i] = path
			order = append(order, i)
		}
	}
	for _, i := range order {
		s.count("disembargo_targets_checked", 1)
		if !have[i] {
			s.violate("C06/disembargo-missing", fmt.Sprintf("question %d (uid=%x): calls were pipelined on result path %s before the Return, the Return resolved it to receiverHosted:%d (hosted by the Conn), but no sender-loopback Disembargo for it preceded the Finish (%d of %d such paths disembargoed): later calls on that capability are not held back", a.id, a.uid, pathStr(need[i]), p.Caps[i].ID, len(have), len(order)), s.log.Tail(40))
		}
	}
	if len(order) >= 2 {
		s.count("disembargo_sibling_targets_checked", 1)
	}
}

// forwardToConn: the peer acts as a faithful proxy: the Conn's call a is
// sent back to the Conn's own export (embargo loop).
func (s *solo) forwardToConn(a *peerA, ce *connExport) {
	if ce.refs <= 0 {
		// cannot happen: exports named in live answers are pinned
		s.peerReturnException(a, "export gone")
		return
	}
	q := &peerQ{id: s.allocQID(), uid: a.uid, class: "forward", relayFor: a,
		target: &rpcbench.WTarget{Kind: "importedCap", Cap: ce.id},
		stream: a.call.Payload.Stream, seq: a.call.Payload.Seq, expectLC: ce.local}
	a.forward = q
	c := rpcbench.NewContent(a.uid)
	c.Stream, c.Seq, c.Aux = q.stream, q.seq, a.call.Payload.Aux
	s.sendPeerCall(q, &c)
	s.count("peer_forwarded_calls", 1)
}

func (s *solo) noteForwardArrival(q *peerQ, pe *peerExport, a *peerA) {
	q.fwdArrived = true
	q.fwdArrivedT = a.recvT
}

func (s *solo) onReturn(m *rpcbench.WireMsg, t int64) {
	q := s.pq[m.ID]
	if q == nil {
		for _, old := range s.pqAll {
			if old.id == m.ID && old.returns > 0 {
				s.violate("C06/return-twice", fmt.Sprintf("second Return for answer %d: %s", m.ID, m.String()), s.log.Tail(30))
				return
			}
		}
		s.violate("C06/return-unknown-answer", fmt.Sprintf("Return for answer id %d that is not an open question of the peer", m.ID), s.log.Tail(30))
		return
	}
	if q.returns > 0 {
		q.returns++
		s.violate("C06/return-twice", fmt.Sprintf("second Return for answer %d: %s", m.ID, m.String()), s.log.Tail(30))
		return
	}
	q.returns = 1
	q.ret = m
	q.retT = t
	s.count("returns_checked", 1)
	if m.ReleaseParamCaps {
		// the Conn gives back the capabilities of the peer's parameters
		for _, d := range q.argDescs {
			if d.Kind == "senderHosted" || d.Kind == "senderPromise" {
				if e := s.pexp[d.ID]; e != nil {
					e.refs--
				}
			}
		}
	}
	if m.RetKind == "results" && m.Payload != nil {
		if q.finSent && q.finRRC {
			// the Finish that was already sent released them
			s.count("result_caps_released_by_early_finish", int64(len(m.Payload.Caps)))
		} else {
			s.connSentDescs(m.Payload.Caps, s.expectedResultSrcs(q, m), fmt.Sprintf("results of answer %d uid=%x", q.id, q.uid))
			q.retGen = map[uint32]int{}
			for id := range countDescs(m.Payload.Caps) {
				if ce := s.cexp[id]; ce != nil {
					q.retGen[id] = ce.gen
				}
			}
		}
	}
	s.checkPeerQ(q)
	if q.relayFor != nil {
		s.relayReturn(q)
	}
	if q.finSent {
		s.retireQ(q)
	}
}

// expectedResultSrcs maps the plan of the call to the expected identity of
// each result cap-table entry (nil = unknown, no identity check).
func (s *solo) expectedResultSrcs(q *peerQ, m *rpcbench.WireMsg) []capSrc {
	if q.boot {
		return []capSrc{{local: s.bootCap, argIdx: -1}}
	}
	if q.plan == nil {
		if q.class == "forward" {
			return []capSrc{}
		}
		return nil
	}
	o := s.w.Obs(q.uid)
	if o == nil || !o.Done || o.Err != "" {
		return nil
	}
	out := []capSrc{}
	for _, rc := range q.plan.ResCaps {
		var src capSrc
		src.argIdx = -1
		if rc.H != nil {
			src.local = rc.H.Local
			if pe := s.handlePexp[rc.H.ID]; pe != nil {
				src.pcap = pe.cap
			}
			if src.local == nil && src.pcap == nil {
				return nil
			}
		} else {
			// copy of an argument capability
			slot := rc.ArgSlot
			if q.argSlots == nil || slot < 0 || slot >= len(q.argSlots) || q.argSlots[slot] < 0 {
				continue
			}
			d := q.argDescs[q.argSlots[slot]]
			switch d.Kind {
			case "senderHosted", "senderPromise":
				if pe := s.pexp[d.ID]; pe != nil {
					src.pcap = pe.cap
				} else {
					return nil
				}
			case "receiverHosted":
				if l := q.argLocals[q.argSlots[slot]]; l != nil {
					src.local = l
				} else {
					return nil
				}
			default:
				continue
			}
		}
		for k := 0; k <= rc.Extra; k++ {
			out = append(out, src)
		}
	}
	return out
}

func (s *solo) onFinish(m *rpcbench.WireMsg, t int64) {
	a := s.pa[m.ID]
	if a == nil {
		for _, old := range s.paAll {
			if old.id == m.ID && old.finSeen {
				s.violate("C06/finish-twice", fmt.Sprintf("second Finish for question %d", m.ID), s.log.Tail(30))
				return
			}
		}
		s.violate("C06/finish-unknown-question", fmt.Sprintf("Finish for question id %d that is not open", m.ID), s.log.Tail(30))
		return
	}
	if a.finSeen {
		s.violate("C06/finish-twice", fmt.Sprintf("second Finish for question %d", m.ID), s.log.Tail(30))
		return
	}
	a.finSeen = true
	a.finRRC = m.ReleaseResultCaps
	s.count("finishes_checked", 1)
	if !a.returned {
		// Finish before Return = cancellation; only the application can ask for it
		legit := a.app != nil && a.app.canceled
		if a.boot {
			// dropping every reference to the bootstrap client cancels the
			// bootstrap question
			legit = true
			for _, b := range s.appBoots {
				if b.pa == a || (b.copyOf != nil && b.copyOf.pa == a) {
					for _, h := range s.w.LiveHandles() {
						if h == b.h {
							legit = false
						}
					}
				}
			}
		}
		if a.boot {
			for _, b := range s.appBoots {
				if b.pa == a || (b.copyOf != nil && b.copyOf.pa == a) {
					s.deadHandle[b.h.ID] = true
				}
			}
		}
		if !legit {
			s.violate("C06/finish-before-return", fmt.Sprintf("Conn finished question %d that has not returned and was not canceled", m.ID), s.log.Tail(30))
		}
		s.count("finish_before_return", 1)
		return
	}
	s.checkDisembargoes(a)
	if a.boot && m.ReleaseResultCaps {
		// the bootstrap question was canceled: its clients are broken
		for _, b := range s.appBoots {
			if b.pa == a || (b.copyOf != nil && b.copyOf.pa == a) {
				s.deadHandle[b.h.ID] = true
			}
		}
	}
	if m.ReleaseResultCaps && a.ret.RetKind == "results" {
		for _, d := range a.ret.Payload.Caps {
			if d.Kind == "senderHosted" || d.Kind == "senderPromise" {
				if e := s.pexp[d.ID]; e != nil {
					e.refs--
				}
			}
		}
	}
	if a.boot && a.bootExport != nil && !m.ReleaseResultCaps {
		for _, b := range s.appBoots {
			if b.pa == a || (b.copyOf != nil && b.copyOf.pa == a) {
				s.handlePexp[b.h.ID] = a.bootExport
				s.handleBoundT[b.h.ID] = t
			}
		}
	}
	delete(s.pa, a.id)
}

func (s *solo) onRelease(m *rpcbench.WireMsg, t int64) {
	e := s.pexp[m.ID]
	s.count("releases_checked", 1)
	if e == nil {
		s.violate("C07/release-count-wrong", fmt.Sprintf("Release(id=%d, n=%d) for an import the Conn does not hold", m.ID, m.RefCount), s.log.Tail(30))
		return
	}
	if int(m.RefCount) > e.refs || m.RefCount == 0 {
		s.violate("C07/release-count-wrong", fmt.Sprintf("Release(id=%d, n=%d) but %d references were sent and not yet released", m.ID, m.RefCount, e.refs), s.log.Tail(30))
	}
	e.refs -= int(m.RefCount)
	e.releases++
	// Never while a local reference is definitely live.  The moment the
	// Conn gives an import up is when importClient.Shutdown deletes the
	// table entry, which is not observable; the Release is written later
	// (it may wait for the sender lock) and carries the count of *that*
	// entry.  A reference obtained between the two belongs to a new entry,
	// so "handle acquired before the Release was written" alone proves
	// nothing (false alarm C07-cc7caa00fb-s1-i10294).  What is established by
	// ordered facts: if this Release gives back every reference the peer has
	// ever sent and not yet got back, the reference a still-held handle
	// stands for is among them.  (Partial cases are judged exactly at the
	// next quiescent point by the import-table comparison.)
	t0 := s.stampOf(rpcbench.EvSendBegin, m)
	for _, h := range s.w.Handles() {
		if s.handlePexp[h.ID] != e || e.refs > 0 {
			continue
		}
		acq := h.AcqT
		if bt := s.handleBoundT[h.ID]; bt > acq {
			acq = bt
		}
		if acq < t0 && h.RelT0 == 0 {
			s.violate("C07/release-while-held", fmt.Sprintf("Release(id=%d) sent while the application holds reference %q to that import", m.ID, h.Label), s.log.Tail(30))
		}
	}
	if e.refs <= 0 {
		delete(s.pexp, e.id)
	}
}

func (s *solo) onDisembargo(m *rpcbench.WireMsg, t int64) {
	switch m.DisKind {
	case "senderLoopback":
		s.connEmb++
		if m.Target == nil || m.Target.Kind != "promisedAnswer" {
			s.violate("C06/disembargo-bad-target", "sender-loopback Disembargo does not target a promised answer", s.log.Tail(30))
			return
		}
		ta := s.pa[m.Target.QID]
		if ta == nil || !ta.returned || ta.ret.RetKind != "results" {
			s.violate("C06/disembargo-bad-target", fmt.Sprintf("sender-loopback Disembargo targets answer %d which has no results", m.Target.QID), s.log.Tail(30))
			return
		}
		d := ta.ret.Payload.SlotDesc(m.Target.PathOps())
		if d == nil || d.Kind != "receiverHosted" {
			s.violate("C06/disembargo-bad-target", fmt.Sprintf("sender-loopback Disembargo on answer %d%s which is not a capability hosted by the Conn", m.Target.QID, m.Target.Path()), s.log.Tail(30))
			return
		}
		ta.disPaths = append(ta.disPaths, m.Target.PathOps())
		// every pipelined call on that path received so far was forwarded
		// already (pump is sequential; what the proxy held back goes out
		// now): reply
		s.flushHeld(ta, m.Target.PathOps())
		id, capID := m.ID, d.ID
		s.peerSend(func(msg rpccp.Message) error {
			dm, err := msg.NewDisembargo()
			if err != nil {
				return err
			}
			tg, err := dm.NewTarget()
			if err != nil {
				return err
			}
			tg.SetImportedCap(capID)
			dm.Context().SetReceiverLoopback(id)
			return nil
		})
		s.connEmbDone++
		s.count("embargo_rounds_conn_initiated", 1)
	case "receiverLoopback":
		emb := s.embargoes[m.ID]
		if emb == nil || emb.doneT != 0 {
			s.violate("C06/disembargo-unknown", fmt.Sprintf("receiver-loopback Disembargo with id %d the peer never sent (or answered twice)", m.ID), s.log.Tail(30))
			return
		}
		emb.doneT = t
		if m.Target == nil || m.Target.Kind != "importedCap" || m.Target.Cap != emb.pexp.id {
			s.violate("C06/disembargo-bad-target", fmt.Sprintf("receiver-loopback Disembargo %d targets %s, want import %d", m.ID, m.Target.RefKey(), emb.pexp.id), s.log.Tail(30))
		}
		// all pipelined calls sent before the Disembargo must have looped back already
		for _, q := range s.pqAll {
			if q.pipeOn == emb.q && pathStr(q.target.PathOps()) == pathStr(emb.path) && q.sentT < emb.sentT && !q.mustFail {
				if !q.fwdArrived && !(q.ret != nil && q.ret.RetKind != "results") {
					s.violate("C06/order/embargo", fmt.Sprintf("Disembargo reply overtook the looped-back pipelined call uid=%x", q.uid), s.log.Tail(40))
				}
			}
		}
		s.count("embargo_rounds_peer_initiated", 1)
	default:
		s.violate("C06/unexpected-message", "Disembargo context "+m.DisKind, s.log.Tail(20))
	}
}
