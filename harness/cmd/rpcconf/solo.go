package main

import (
	"context"
	"fmt"
	"sync"
	"sync/atomic"

	"capnproto.org/go/capnp/v3"
	"capnproto.org/go/capnp/v3/rpc"
	rpccp "capnproto.org/go/capnp/v3/std/capnp/rpc"
	"capnproto.org/go/capnp/v3/zverif/common"
	"capnproto.org/go/capnp/v3/zverif/rpcbench"
)

type appBoot struct {
	h      *rpcbench.Handle
	pa     *peerA
	copyOf *appBoot
}

type errCollector struct {
	mu   sync.Mutex
	errs []string
}

func (c *errCollector) ReportError(err error) {
	c.mu.Lock()
	if len(c.errs) < 50 {
		c.errs = append(c.errs, err.Error())
	}
	c.mu.Unlock()
}

func (c *errCollector) take() []string {
	c.mu.Lock()
	defer c.mu.Unlock()
	return append([]string(nil), c.errs...)
}

func commonGuard(f func()) *common.Panic { return common.Guard(f) }

func (s *solo) asyncPanic(what string, p *common.Panic) {
	s.panicMu.Lock()
	s.panics = append(s.panics, [2]string{what + ": " + p.Value, p.Stack})
	s.panicMu.Unlock()
}

func (s *solo) reportPanics() {
	s.panicMu.Lock()
	ps := s.panics
	s.panics = nil
	s.panicMu.Unlock()
	for _, p := range ps {
		s.violate("panic/"+common.TopLibFrame(p[1]), "panic in "+p[0], p[1])
	}
}

func runSolo(e *env, rng *common.RNG) {
	s := &solo{env: e, rng: rng, w: rpcbench.NewWorld(e.log), cnt: map[string]int64{},
		callByUID: map[uint64]*appCall{}, streamSeq: map[uint32]uint32{}, handleStream: map[int]uint32{},
		handlePexp: map[int]*peerExport{}, pq: map[uint32]*peerQ{}, pqByUID: map[uint64]*peerQ{},
		pa: map[uint32]*peerA{}, paByUID: map[uint64]*peerA{}, pexp: map[uint32]*peerExport{}, pexpAll: map[uint32]*peerExport{},
		cexp: map[uint32]*connExport{}, embargoes: map[uint32]*peerEmbargo{}, peerStreamSeq: map[string]uint32{},
		peerStreamID: map[string]uint32{}, boundArg: map[int]bool{}, orderReported: map[uint64]bool{},
		everHeld: map[int]map[string]bool{}, baseHandle: map[int]*rpcbench.Handle{},
		handleBoundT: map[int]int64{}, deadHandle: map[int]bool{}, busyHandle: map[int]*appCall{}}
	level := rng.Intn(3)
	s.pol = rpcbench.NewYieldPolicy(rng.Uint64(), level, yieldSites)
	s.pol.Install()
	nSteps := rng.Range(10, 26)
	closeAt := -1
	if rng.Chance(2, 5) {
		closeAt = rng.Range(2, nSteps)
	}
	e.rec.Case(e.idx, fmt.Sprintf("solo steps=%d closeAt=%d yield=%d", nSteps, closeAt, level))
	e.input = func() interface{} {
		return map[string]interface{}{"script": s.steps, "log": s.log.Dump(400)}
	}
	s.ct, s.pt = rpcbench.NewTapPair(e.log, "C", "P", s.pol)
	s.peerBoot = s.newPeerCap(false)

	var bootClient *capnp.Client
	s.bootCap, bootClient = s.w.NewLocalCap("C")
	s.locals = append(s.locals, s.bootCap)
	if rng.Bool() {
		s.baseHandle[s.bootCap.N] = s.w.AddHandle(&rpcbench.Handle{C: bootClient.AddRef(), Label: "base-boot", Local: s.bootCap, Who: "C"})
	}
	for i, n := 0, rng.Range(1, 3); i < n; i++ {
		s.newLocal()
	}
	s.reporter = &errCollector{}
	e.onStuck = func() bool {
		uids := s.w.BlockedUIDs()
		if len(uids) == 0 {
			return false
		}
		s.log.Add(&rpcbench.Event{Kind: rpcbench.EvNote, Who: "S", Note: "script releases blocked implementations (everything else is parked)"})
		s.w.ReleaseAll()
		return true
	}
	s.conn = rpc.NewConn(s.ct, &rpc.Options{BootstrapClient: bootClient, ErrorReporter: s.reporter})

	// the first steps give both sides something to talk to
	if rng.Chance(4, 5) {
		s.stepPeerBootstrap()
	}
	if rng.Chance(4, 5) {
		s.stepAppBootstrap()
	}
	for i := 0; i < nSteps && !s.dead && !s.aborted; i++ {
		if i == closeAt {
			break
		}
		s.pump()
		s.randomStep()
		if rng.Chance(1, 3) {
			s.quiesce(fmt.Sprintf("after step %d", i))
		}
	}
	if !s.dead {
		s.finish(closeAt >= 0)
	}
	s.reportPanics()
	// evidence
	for k, v := range s.cnt {
		e.rec.Count(k, v)
	}
	for site, n := range s.pol.Histogram() {
		e.rec.Count(fmt.Sprintf("site_%d", site), n)
	}
	e.rec.Count("conn_reported_errors", int64(len(s.reporter.take())))
	e.rec.Count("events_logged", int64(s.log.Len()))
	if !s.dead {
		s.classifyPipelined()
		for _, q := range s.pqAll {
			switch {
			case q.pipeOn == nil || q.class == "forward":
			case q.pipeClass == "unreturned":
				e.rec.Count("peer_pipelined_on_unreturned", 1)
				e.rec.Count("peer_pipelined_total", 1)
				// share floors (>= 20 % each) as linear counters:
				// 5*class - total >= 0
				e.rec.Count("share20_pipelined_unreturned", 4)
				e.rec.Count("share20_pipelined_returned", -1)
			case q.pipeClass == "returned":
				e.rec.Count("peer_pipelined_on_returned", 1)
				e.rec.Count("peer_pipelined_total", 1)
				e.rec.Count("share20_pipelined_unreturned", -1)
				e.rec.Count("share20_pipelined_returned", 4)
			}
		}
		e.rec.Distinct(s.log.OrderHash())
		if atomic.LoadInt32(&e.violated) == 0 && e.rec.WantSample() {
			e.rec.Sample(map[string]interface{}{"case": e.idx, "script": s.steps, "events": s.log.Len()})
		}
	}
}

func (s *solo) newLocal() *rpcbench.LocalCap {
	lc, c := s.w.NewLocalCap("C")
	s.locals = append(s.locals, lc)
	s.baseHandle[lc.N] = s.w.AddHandle(&rpcbench.Handle{C: c, Label: fmt.Sprintf("base-local%d", lc.N), Local: lc, Who: "C"})
	s.count("local_caps_created", 1)
	return lc
}

// liveBase returns a live harness handle to a Conn-side capability.
func (s *solo) liveLocalHandles() []*rpcbench.Handle {
	var out []*rpcbench.Handle
	for _, h := range s.w.LiveHandles() {
		if h.Local != nil && h.Plan == 0 {
			out = append(out, h)
		}
	}
	return out
}

func (s *solo) liveImportHandles() []*rpcbench.Handle {
	var out []*rpcbench.Handle
	for _, h := range s.w.LiveHandles() {
		if h.Local == nil && h.Plan == 0 && (s.handlePexp[h.ID] != nil || s.isBootHandle(h)) {
			out = append(out, h)
		}
	}
	return out
}

func (s *solo) isBootHandle(h *rpcbench.Handle) bool {
	for _, b := range s.appBoots {
		if b.h == h {
			return true
		}
	}
	return false
}

// ---------------------------------------------------------------------------
// Quiescence.

func (s *solo) quiescentNow() bool {
	s.pump()
	if atomic.LoadInt32(&s.asyncN) != 0 {
		return false
	}
	if s.pt.InQueueLen() != 0 {
		return false
	}
	if !s.closed && !s.ct.Idle() {
		return false
	}
	n0 := s.log.Len()
	parked, _ := rpcbench.AllParked("common.(*Watch).WaitDone")
	if !parked {
		return false
	}
	if s.log.Len() != n0 || s.pt.InQueueLen() != 0 || atomic.LoadInt32(&s.asyncN) != 0 {
		return false
	}
	return true
}

// quiesce waits for a quiescent point (decided logically: nothing queued in
// either direction, the Conn's receive loop blocked in RecvMessage, no
// application operation in flight and every goroutine parked) and then runs
// the state oracles.
func (s *solo) quiesce(where string) bool {
	if s.dead {
		return false
	}
	if !s.await("quiescence "+where, s.quiescentNow) {
		return false
	}
	s.count("quiescent_points", 1)
	s.checkQuiescent(where)
	return true
}

// ---------------------------------------------------------------------------
// Random steps.

type stepDef struct {
	w int
	f func() bool
}

func (s *solo) randomStep() {
	defs := []stepDef{
		{3, s.stepPeerBootstrap}, {10, s.stepPeerCall}, {9, s.stepPeerPipeline}, {6, s.stepPeerFinish}, {5, s.stepPeerRelease},
		{5, s.stepPeerReturnDeferred}, {3, s.stepPeerDisembargo},
		{2, s.stepAppBootstrap}, {9, s.stepAppCall}, {7, s.stepAppPipeline}, {6, s.stepAppResolve}, {4, s.stepAppTake},
		{4, s.stepAppReleaseAnswer}, {3, s.stepAppAddRef}, {4, s.stepAppReleaseHandle}, {2, s.stepAppCancel},
		{5, s.stepUnblock}, {4, s.macroEmbargo}, {4, s.macroPeerEmbargo}, {3, s.macroGenerationRace}, {1, s.stepNewLocal}, {4, s.macroCancelFailedFinish}, {3, s.macroEarlyFinishRRC},
	}
	total := 0
	for _, d := range defs {
		total += d.w
	}
	for try := 0; try < 30; try++ {
		r := s.rng.Intn(total)
		for _, d := range defs {
			if r < d.w {
				if d.f() {
					return
				}
				break
			}
			r -= d.w
		}
	}
}

func (s *solo) stepNewLocal() bool {
	if len(s.locals) >= 5 {
		return false
	}
	lc := s.newLocal()
	s.step("new-local #%d", lc.N)
	return true
}

func (s *solo) stepPeerBootstrap() bool {
	if len(s.pq) > 12 {
		return false
	}
	q := s.sendPeerBootstrap()
	s.step("peer Bootstrap q%d", q.id)
	return true
}

// heldConnExports lists exports of the Conn the peer may address.
func (s *solo) heldConnExports() []*connExport {
	var out []*connExport
	for _, id := range sortedCexp(s.cexp) {
		if s.cexp[id].refs > 0 {
			out = append(out, s.cexp[id])
		}
	}
	return out
}

// makePlan draws the behaviour of the implementation for a peer call and the
// capabilities it will return.  argKinds describes the parameter slots.
func (s *solo) makePlan(uid uint64, c *rpcbench.Content, simple bool) *rpcbench.CallPlan {
	p := &rpcbench.CallPlan{UID: uid, Behaviour: s.rng.Intn(rpcbench.NumBehaviours), ObserveCtx: s.rng.Bool()}
	if simple {
		return s.w.Plan(p)
	}
	used := map[int]bool{}
	for n := s.rng.Intn(3); n > 0; n-- {
		slot := s.rng.Intn(rpcbench.NumPtr)
		if used[slot] {
			continue
		}
		used[slot] = true
		rc := rpcbench.ResCap{Slot: slot, ArgSlot: -1, Nested: s.rng.Chance(1, 4)}
		if s.rng.Chance(1, 3) {
			rc.Extra = s.rng.Intn(5)
		}
		switch s.rng.Intn(3) {
		case 0, 1:
			ls := s.liveLocalHandles()
			if len(ls) == 0 {
				continue
			}
			base := ls[s.rng.Intn(len(ls))]
			var c2 *capnp.Client
			if !s.do("AddRef for plan", func() { c2 = base.C.AddRef() }) {
				continue
			}
			rc.H = s.w.AddHandle(&rpcbench.Handle{C: c2, Label: fmt.Sprintf("plan-%x-local%d", uid, base.Local.N), Local: base.Local, Plan: uid, Who: "C"})
		case 2:
			// give back one of the arguments
			var slots []int
			for i, x := range c.Slots {
				if x >= 0 {
					slots = append(slots, i)
				}
			}
			if len(slots) == 0 {
				continue
			}
			rc.ArgSlot = slots[s.rng.Intn(len(slots))]
		}
		p.ResCaps = append(p.ResCaps, rc)
	}
	for i, x := range c.Slots {
		if x >= 0 && s.rng.Chance(1, 4) {
			p.TakeArgs = append(p.TakeArgs, i)
		}
	}
	// an implementation that has placed capabilities in its results and then
	// fails: the answer owns those references until Finish / Close
	if len(p.ResCaps) > 0 && !p.Fails() && s.rng.Chance(1, 3) {
		p.FailAfterResults = true
		s.count("plans_fail_after_result_caps", 1)
	}
	return s.w.Plan(p)
}

// peerParams draws the capabilities of a peer call's parameters.
//
// target is the capability the call is addressed to; it is never passed to
// itself: when such an argument is the last reference, server.Server
// releases it from the call's own goroutine (start.func1 -> ReleaseArgs ->
// Client.Release -> Server.Shutdown) and Shutdown then waits for that very
// call to drain -- a self-deadlock in package server (seen at seed=1
// index=126, reported to the coordinator; outside rpc/).
func (s *solo) peerParams(c *rpcbench.Content, target *rpcbench.LocalCap) {
	for n := s.rng.Intn(3); n > 0; n-- {
		slot := s.rng.Intn(rpcbench.NumPtr)
		if c.Slots[slot] >= 0 {
			continue
		}
		copies := 1
		if s.rng.Chance(1, 3) {
			copies = s.rng.Range(2, 5)
		}
		if ces := s.heldConnExports(); len(ces) > 0 && s.rng.Chance(1, 4) {
			ce := ces[s.rng.Intn(len(ces))]
			if ce.local == nil || ce.local == target || target == nil {
				continue
			}
			c.Slots[slot] = len(c.Caps)
			c.Caps = append(c.Caps, rpcbench.WDesc{Kind: "receiverHosted", ID: ce.id})
			continue
		}
		var pc *peerCap
		if s.rng.Bool() || len(s.pcaps) == 0 {
			pc = s.newPeerCap(false)
		} else {
			pc = s.pcaps[s.rng.Intn(len(s.pcaps))]
			if pc.forwardTo != nil {
				pc = s.peerBoot
			}
		}
		pe := s.exportOf(pc)
		s.pexpAll[pe.id] = pe
		c.Slots[slot] = len(c.Caps)
		c.Nested[slot] = s.rng.Chance(1, 5)
		for k := 0; k < copies; k++ {
			c.Caps = append(c.Caps, rpcbench.WDesc{Kind: "senderHosted", ID: pe.id})
		}
	}
}

func (s *solo) stepPeerCall() bool {
	ces := s.heldConnExports()
	if len(ces) == 0 || len(s.pq) > 12 {
		return false
	}
	ce := ces[s.rng.Intn(len(ces))]
	uid := s.newUID()
	c := rpcbench.NewContent(uid)
	s.peerParams(&c, ce.local)
	q := &peerQ{id: s.allocQID(), uid: uid, class: "direct", expectLC: ce.local,
		target: &rpcbench.WTarget{Kind: "importedCap", Cap: ce.id}}
	q.stream, q.seq = s.peerStream(q.target.RefKey() + fmt.Sprintf("@%d", ce.gen))
	c.Stream, c.Seq = q.stream, q.seq
	q.plan = s.makePlan(uid, &c, false)
	s.step("peer Call q%d uid=%x -> cap%d beh=%d caps=%d", q.id, uid, ce.id, q.plan.Behaviour, len(c.Caps))
	s.sendPeerCall(q, &c)
	return true
}

// resultPathTarget predicts where a call pipelined on q with the given path
// will be delivered.
func (s *solo) resultPathTarget(q *peerQ, path []int) (lc *rpcbench.LocalCap, toPeer bool, ok bool) {
	if q.boot {
		if len(path) == 0 {
			return s.bootCap, false, true
		}
		return nil, false, false
	}
	if q.plan == nil || len(path) == 0 {
		return nil, false, false
	}
	if q.plan.Fails() {
		return nil, false, false
	}
	for _, rc := range q.plan.ResCaps {
		if rc.Slot != path[0] {
			continue
		}
		if rc.Nested != (len(path) == 2 && path[1] == 0) || len(path) > 2 {
			return nil, false, false
		}
		if rc.H != nil {
			return rc.H.Local, false, rc.H.Local != nil
		}
		if q.argSlots == nil || q.argSlots[rc.ArgSlot] < 0 {
			return nil, false, false
		}
		d := q.argDescs[q.argSlots[rc.ArgSlot]]
		switch d.Kind {
		case "receiverHosted":
			if l := q.argLocals[q.argSlots[rc.ArgSlot]]; l != nil {
				return l, false, true
			}
		case "senderHosted", "senderPromise":
			return nil, true, true
		}
		return nil, false, false
	}
	return nil, false, false
}

func (s *solo) stepPeerPipeline() bool {
	var cands []*peerQ
	for _, q := range s.pqAll {
		if s.pq[q.id] == q && !q.finSent && q.class != "forward" {
			cands = append(cands, q)
		}
	}
	if len(cands) == 0 || len(s.pq) > 14 {
		return false
	}
	// prefer targets in the state that is under-represented
	t := cands[s.rng.Intn(len(cands))]
	for try := 0; try < 4; try++ {
		c := cands[s.rng.Intn(len(cands))]
		o := s.w.Obs(c.uid)
		unret := c.ret == nil && (c.boot == false) && (o == nil || !o.Done)
		if unret == s.rng.Chance(4, 5) {
			t = c
			break
		}
	}
	// choose a path: mostly one that leads to a capability
	var path []int
	if !t.boot {
		if t.plan != nil && len(t.plan.ResCaps) > 0 && s.rng.Chance(5, 6) {
			rc := t.plan.ResCaps[s.rng.Intn(len(t.plan.ResCaps))]
			if rc.Slot >= 0 {
				path = []int{rc.Slot}
				if rc.Nested {
					path = append(path, 0)
				}
			}
		}
		if path == nil {
			path = []int{s.rng.Intn(rpcbench.NumPtr)}
		}
	}
	// transform with noops sprinkled in
	var xf []int
	for _, f := range path {
		for s.rng.Chance(1, 4) {
			xf = append(xf, -1)
		}
		xf = append(xf, f)
	}
	for s.rng.Chance(1, 4) {
		xf = append(xf, -1)
	}
	uid := s.newUID()
	c := rpcbench.NewContent(uid)
	q := &peerQ{id: s.allocQID(), uid: uid, class: "pipelined", pipeOn: t,
		target: &rpcbench.WTarget{Kind: "promisedAnswer", QID: t.id, Transform: xf}}
	lc, toPeer, ok := s.resultPathTarget(t, path)
	q.expectLC = lc
	q.mustFail = !ok
	if !toPeer && ok {
		s.peerParams(&c, lc)
	}
	q.stream, q.seq = s.peerStream(fmt.Sprintf("q%x%s", t.uid, pathStr(path)) + fmt.Sprintf("boot%v%d", t.boot, t.sentT))
	c.Stream, c.Seq = q.stream, q.seq
	q.plan = s.makePlan(uid, &c, toPeer || !ok)
	// racing variant: let the target return right now
	racing := false
	if t.plan != nil && s.rng.Chance(1, 3) {
		if o := s.w.Obs(t.uid); o != nil && o.Blocked {
			t.plan.Release()
			racing = true
		}
	}
	s.step("peer Call q%d uid=%x -> ans%d%v (target uid=%x returned=%v racing=%v mustFail=%v toPeer=%v)", q.id, uid, t.id, xf, t.uid, t.ret != nil, racing, q.mustFail, toPeer)
	s.sendPeerCall(q, &c)
	return true
}

func (s *solo) stepPeerFinish() bool {
	var cands []*peerQ
	for _, q := range s.pqAll {
		if s.pq[q.id] == q && !q.finSent {
			// mostly after the Return was seen; sometimes early (cancel)
			if q.ret != nil || s.rng.Chance(1, 5) {
				if s.peerEmbargoPending(q) {
					continue
				}
				cands = append(cands, q)
			}
		}
	}
	if len(cands) == 0 {
		return false
	}
	q := cands[s.rng.Intn(len(cands))]
	rrc := s.rng.Bool()
	s.step("peer Finish q%d rrc=%v returned=%v", q.id, rrc, q.ret != nil)
	s.sendPeerFinish(q, rrc)
	return true
}

func (s *solo) peerEmbargoPending(q *peerQ) bool {
	for _, e := range s.embargoes {
		if e.q == q && e.doneT == 0 {
			return true
		}
	}
	return false
}

func (s *solo) stepPeerRelease() bool {
	ces := s.heldConnExports()
	if len(ces) == 0 {
		return false
	}
	ce := ces[s.rng.Intn(len(ces))]
	n := s.rng.Range(1, ce.refs)
	if s.rng.Chance(1, 3) {
		n = ce.refs
	}
	if n == ce.refs && s.connExportPinned(ce) {
		if ce.refs == 1 {
			return false
		}
		n = ce.refs - 1
	}
	s.step("peer Release cap%d n=%d of %d", ce.id, n, ce.refs)
	s.sendPeerRelease(ce, n)
	return true
}

func (s *solo) stepPeerReturnDeferred() bool {
	var cands []*peerA
	for _, a := range s.paAll {
		if a.defer_ && !a.returned {
			cands = append(cands, a)
		}
	}
	if len(cands) == 0 {
		return false
	}
	a := cands[s.rng.Intn(len(cands))]
	s.step("peer Return a%d (deferred)", a.id)
	s.peerReturn(a)
	return true
}

func (s *solo) stepPeerDisembargo() bool {
	for _, q := range s.pqAll {
		if s.pq[q.id] != q || q.finSent || q.ret == nil || q.ret.RetKind != "results" || q.embargoT != nil {
			continue
		}
		for slot, sl := range q.ret.Payload.Slots {
			var path []int
			switch sl.Kind {
			case "cap":
				path = []int{slot}
			case "nested":
				path = []int{slot, 0}
			default:
				continue
			}
			d := q.ret.Payload.SlotDesc(path)
			if d == nil || d.Kind != "receiverHosted" {
				continue
			}
			pe := s.pexp[d.ID]
			if pe == nil {
				continue
			}
			s.sendPeerDisembargo(q, path, pe)
			return true
		}
	}
	return false
}

func (s *solo) sendPeerDisembargo(q *peerQ, path []int, pe *peerExport) {
	s.embNext++
	emb := &peerEmbargo{id: s.embNext + 7000, q: q, path: path, pexp: pe}
	s.embargoes[emb.id] = emb
	q.embargoT = emb
	s.step("peer Disembargo senderLoopback %d on ans%d%v", emb.id, q.id, path)
	tgt := &rpcbench.WTarget{Kind: "promisedAnswer", QID: q.id, Transform: path}
	s.peerSend(func(m rpccp.Message) error {
		d, err := m.NewDisembargo()
		if err != nil {
			return err
		}
		t, err := d.NewTarget()
		if err != nil {
			return err
		}
		if err := rpcbench.SetTarget(t, tgt); err != nil {
			return err
		}
		d.Context().SetSenderLoopback(emb.id)
		return nil
	})
	emb.sentT = s.log.Now()
}

func (s *solo) stepUnblock() bool {
	uids := s.w.BlockedUIDs()
	if len(uids) == 0 {
		return false
	}
	// deterministic choice
	min := uids[0]
	for _, u := range uids {
		if u < min {
			min = u
		}
	}
	uid := min
	if len(uids) > 1 && s.rng.Bool() {
		uid = uids[s.rng.Intn(len(uids))]
	}
	s.step("unblock impl uid=%x", uid)
	if p := s.w.PlanOf(uid); p != nil {
		p.Release()
	}
	return true
}

// ---------------------------------------------------------------------------
// Application steps.

func (s *solo) stepAppBootstrap() bool {
	if s.closed || len(s.appBoots) >= 3 {
		return false
	}
	s.step("app Bootstrap")
	return s.appBootstrap() != nil
}

func (s *solo) randomWant(params []paramCap) *wantRet {
	w := &wantRet{deferIt: s.rng.Chance(2, 5), exception: s.rng.Chance(1, 7), rpc: s.rng.Chance(1, 4)}
	for n := s.rng.Intn(3); n > 0; n-- {
		slot := s.rng.Intn(rpcbench.NumPtr)
		ws := wantSlot{copies: 1, nested: s.rng.Chance(1, 5)}
		if s.rng.Chance(1, 3) {
			ws.copies = s.rng.Range(2, 5)
		}
		switch s.rng.Intn(5) {
		case 0:
			ws.kind = wNewPeerCap
		case 1:
			ws.kind = wOldPeerCap
		case 2:
			ws.kind = wConnExport
		case 3, 4:
			// echo one of the parameters if there is a local one
			for _, pc := range params {
				if pc.h.Local != nil && pc.slot >= 0 && !pc.nested {
					ws.kind = wEchoParam
					ws.paramSlot = pc.slot
				}
			}
			if ws.kind == wNone {
				ws.kind = wNewPeerCap
			}
		}
		w.slots[slot] = ws
	}
	return w
}

func (s *solo) randomParams() []paramCap {
	var out []paramCap
	used := map[int]bool{}
	for n := s.rng.Intn(3); n > 0; n-- {
		slot := s.rng.Intn(rpcbench.NumPtr)
		if used[slot] {
			continue
		}
		var pool []*rpcbench.Handle
		if s.rng.Chance(3, 4) {
			pool = s.liveLocalHandles()
		} else {
			for _, h := range s.liveImportHandles() {
				// a bootstrap client may still be an unresolved promise on the
				// Conn side (it would be exported as a local proxy): only
				// clients that came out of a payload are passed back
				if s.handlePexp[h.ID] != nil && !s.isBootHandle(h) {
					pool = append(pool, h)
				}
			}
		}
		if len(pool) == 0 {
			continue
		}
		used[slot] = true
		pc := paramCap{h: pool[s.rng.Intn(len(pool))], slot: slot, copies: 1, nested: s.rng.Chance(1, 5)}
		if s.rng.Chance(1, 3) {
			pc.copies = s.rng.Range(2, 5)
		}
		out = append(out, pc)
	}
	return out
}

func (s *solo) stepAppCall() bool {
	hs := s.liveImportHandles()
	if len(hs) == 0 || s.closed {
		return false
	}
	// bootstrap clients are used at any time, also while their Bootstrap
	// Return is being processed (the window of design candidate #12, which
	// deadlocked before the core fix 4d46932)
	h := hs[s.rng.Intn(len(hs))]
	params := s.randomParams()
	want := s.randomWant(params)
	ac, send := s.newAppCall(h.ID, "handle "+h.Label, params, want)
	s.step("app Call uid=%x via %s params=%d", ac.uid, h.Label, len(params))
	s.issue(ac, func(ctx context.Context) (*capnp.Answer, capnp.ReleaseFunc) { return h.C.SendCall(ctx, send) })
	return true
}

func (s *solo) stepAppPipeline() bool {
	var cands []*appCall
	for _, ac := range s.calls {
		if ac.answer() != nil && !ac.released && ac.embargoRound == nil && !ac.canceled {
			cands = append(cands, ac)
		}
	}
	if len(cands) == 0 || s.closed {
		return false
	}
	t := cands[s.rng.Intn(len(cands))]
	// path: towards a capability the peer was asked to return, if any
	path := []int{s.rng.Intn(rpcbench.NumPtr)}
	expectFail := true
	if t.want != nil {
		for slot, ws := range t.want.slots {
			if ws.kind != wNone && ws.kind != wPromiseLoop && s.rng.Chance(4, 5) {
				path = []int{slot}
				if ws.nested {
					path = append(path, 0)
				}
				expectFail = false
			}
		}
	}
	if t.want != nil && t.want.exception {
		expectFail = true
	}
	ops := make([]capnp.PipelineOp, len(path))
	for i, f := range path {
		ops[i].Field = uint16(f)
	}
	ac, send := s.newAppCall(1000000+int(t.uid)*8+path[0], fmt.Sprintf("answer of uid=%x%s", t.uid, pathStr(path)), nil, s.randomWant(nil))
	ac.onCall = t
	ac.path = path
	ac.expectFail = true // the path may not hold a capability (echo of a parameter that was not there, ...)
	_ = expectFail
	s.step("app Pipeline uid=%x on uid=%x%s (resolved=%v)", ac.uid, t.uid, pathStr(path), t.resolved)
	// a call pipelined on a resolved answer whose capability is a local one
	// under embargo blocks until the peer answers the Disembargo: run it
	// under pump
	s.issuePumped(ac, func(ctx context.Context) (*capnp.Answer, capnp.ReleaseFunc) { return t.ans.PipelineSend(ctx, ops, send) })
	// a plan for the case that the call ends at a Conn-side capability
	return true
}

// issuePumped is issue() for calls that may block until the peer reacts.
func (s *solo) issuePumped(ac *appCall, f func(ctx context.Context) (*capnp.Answer, capnp.ReleaseFunc)) bool {
	ctx, cancel := context.WithCancel(context.Background())
	ac.cancel = cancel
	ac.sendT0 = s.log.Stamp()
	var fin int32
	var pn *common.Panic
	go func() {
		pn = common.Guard(func() { ac.ans, ac.release = f(ctx) })
		atomic.StoreInt32(&fin, 1)
	}()
	ok := s.await("call "+ac.via, func() bool {
		s.pump()
		return atomic.LoadInt32(&fin) == 1
	})
	ac.sendT1 = s.log.Stamp()
	ac.afterClose = s.closed
	s.count("app_calls_issued", 1)
	if ok && pn != nil {
		s.violate("panic/"+common.TopLibFrame(pn.Stack), "panic in call "+ac.via+": "+pn.Value, pn.Stack)
	}
	return ok
}

func (s *solo) stepAppResolve() bool {
	var cands []*appCall
	for _, ac := range s.calls {
		if ac.answer() != nil && !ac.resolved {
			cands = append(cands, ac)
		}
	}
	if len(cands) == 0 {
		return false
	}
	ac := cands[s.rng.Intn(len(cands))]
	s.step("app Resolve uid=%x", ac.uid)
	s.resolveWithHelp(ac)
	return true
}

func (s *solo) resolveWithHelp(ac *appCall) bool {
	if ac.resolved || ac.answer() == nil {
		return ac.resolved
	}
	ok := s.await(fmt.Sprintf("answer of call uid=%x (%s)", ac.uid, ac.via), func() bool {
		s.pump()
		s.helpResolve(ac)
		select {
		case <-ac.ans.Done():
			return true
		default:
			return false
		}
	})
	if !ok {
		return false
	}
	return s.resolveCall(ac)
}

func (s *solo) stepAppTake() bool {
	var cands []*appCall
	for _, ac := range s.calls {
		if ac.resolved && ac.ok && !ac.released && ac.pa != nil && ac.pa.retSpecUsed != nil && len(ac.pa.retSpecUsed.content.Caps) > 0 && !ac.canceled {
			cands = append(cands, ac)
		}
	}
	if len(cands) == 0 {
		return false
	}
	ac := cands[s.rng.Intn(len(cands))]
	for slot, x := range ac.pa.retSpecUsed.content.Slots {
		if x >= 0 && s.rng.Chance(2, 3) {
			if h := s.takeResultCap(ac, slot); h != nil {
				s.step("app Take result slot %d of uid=%x -> handle %s", slot, ac.uid, h.Label)
				return true
			}
		}
	}
	return false
}

func (s *solo) stepAppReleaseAnswer() bool {
	var cands []*appCall
	for _, ac := range s.calls {
		if ac.resolved && !ac.released && atomic.LoadInt32(&ac.busy) == 0 {
			cands = append(cands, ac)
		}
	}
	if len(cands) == 0 {
		return false
	}
	ac := cands[s.rng.Intn(len(cands))]
	s.step("app ReleaseAnswer uid=%x", ac.uid)
	s.releaseAnswer(ac)
	return true
}

func (s *solo) stepAppAddRef() bool {
	hs := s.liveImportHandles()
	if len(hs) == 0 {
		return false
	}
	h := hs[s.rng.Intn(len(hs))]
	var c2 *capnp.Client
	if !s.do("AddRef", func() { c2 = h.C.AddRef() }) || c2 == nil {
		return false
	}
	h2 := s.w.AddHandle(&rpcbench.Handle{C: c2, Label: h.Label + "+", Who: "C"})
	if pe := s.handlePexp[h.ID]; pe != nil {
		s.handlePexp[h2.ID] = pe
	} else {
		// copy of an unresolved bootstrap handle: bound when the original is
		for _, b := range s.appBoots {
			if b.h == h {
				s.appBoots = append(s.appBoots, &appBoot{h: h2, pa: b.pa, copyOf: b})
			}
		}
	}
	s.step("app AddRef %s", h.Label)
	return true
}

// releasableHandles: handles the script may drop now (plan-owned handles
// only once the plan was consumed).
func (s *solo) releasableHandles() []*rpcbench.Handle {
	var out []*rpcbench.Handle
	for _, h := range s.w.LiveHandles() {
		if h.Plan != 0 && !s.w.PlanConsumed(h.Plan) {
			continue
		}
		if a := s.busyHandle[h.ID]; a != nil && atomic.LoadInt32(&a.busy) != 0 {
			continue
		}
		out = append(out, h)
	}
	return out
}

func (s *solo) stepAppReleaseHandle() bool {
	hs := s.releasableHandles()
	if len(hs) == 0 {
		return false
	}
	h := hs[s.rng.Intn(len(hs))]
	if h.Local != nil && h.Plan == 0 && len(s.liveLocalHandles()) <= 1 {
		return false // keep something to export
	}
	s.step("app Release handle %s", h.Label)
	s.do("Release "+h.Label, func() { s.w.ReleaseHandle(h) })
	return true
}

func (s *solo) stepAppCancel() bool {
	var cands []*appCall
	for _, ac := range s.calls {
		if ac.answer() != nil && !ac.resolved && !ac.canceled && ac.embargoRound == nil && ac.cancel != nil {
			cands = append(cands, ac)
		}
	}
	if len(cands) == 0 || s.closed {
		return false
	}
	ac := cands[s.rng.Intn(len(cands))]
	s.step("app Cancel uid=%x", ac.uid)
	ac.canceled = true
	ac.cancel()
	s.count("app_cancels", 1)
	return true
}
