// rpcconf: runtime monitors for C06 (every RPC call gets exactly one correct
// return, in order, with pipelining and embargo) and C07 (RPC capability
// references are counted exactly).  See NOTES.md.
//
// Modes: solo (one real rpc.Conn against a model-based scripted peer),
// duo (two real Conns joined by tap transports, several application
// goroutines).  Both property ids run the same workloads; a run for C06
// reports the C06 oracles (plus deadlock / panic), a run for C07 the C07
// oracles (plus deadlock / panic).
package main

import (
	"fmt"
	"os"
	"runtime"
	"strings"
	"sync"
	"sync/atomic"
	"time"

	"capnproto.org/go/capnp/v3"
	"capnproto.org/go/capnp/v3/zverif/common"
	"capnproto.org/go/capnp/v3/zverif/rpcbench"
)

// yieldSites are the verifhook sites of the rpc package (hot sites are drawn
// from this list by the yield policy).
var yieldSites = []int{600, 601, 610, 611, 612, 613, 620, 621, 622, 623, 630, 631, 640, 650, 651, 660, 670, 671, 680, 681,
	700, 701, 702, 703, 704, 705, 720, 721, 722, 723, 724, 725, 730, 740, 741, 750, 751, 752, 753, 754, 755, 760, 761, 762}

// leak reports from capnp.SetClientLeakFunc (secondary signal for C07).
var (
	leakMu   sync.Mutex
	leakMsgs []string
)

// noLeakCheck (-extra noleak) skips the GC-based leak report collection.
var noLeakCheck bool

func takeLeaks() []string {
	leakMu.Lock()
	defer leakMu.Unlock()
	l := leakMsgs
	leakMsgs = nil
	return l
}

// collectLeaks forces finalizers of unreachable clients to run and returns
// the leak reports.  A sentinel object with its own finalizer tells when the
// finalizer goroutine has processed the queue of this GC cycle.
func collectLeaks() []string {
	if noLeakCheck {
		return nil
	}
	for round := 0; round < 2; round++ {
		done := make(chan struct{})
		func() {
			s := new([16]byte)
			runtime.SetFinalizer(s, func(*[16]byte) { close(done) })
		}()
		runtime.GC()
		runtime.GC()
		select {
		case <-done:
		case <-time.After(2 * time.Second):
		}
	}
	// leak callbacks are started with "go f(msg)": let them run
	for i := 0; i < 20; i++ {
		runtime.Gosched()
	}
	time.Sleep(200 * time.Microsecond)
	return takeLeaks()
}

// env carries what every case needs.
type env struct {
	cfg *common.Config
	rec *common.Recorder
	idx uint64
	log *rpcbench.Log
	// dead is set after a deadlock verdict: the process is wedged.
	dead bool
	// violated: at least one violation in this case (samples, short-circuit).
	violated int32
	input    func() interface{}
	// onStuck is called when every goroutine is parked but the awaited
	// condition does not hold: the script must let go of whatever it blocks
	// itself (implementations waiting for the script's release) before a
	// deadlock verdict is possible.  It returns whether it released anything.
	onStuck func() bool
}

// violate records a violation if its oracle belongs to the property under
// check.  Signatures starting with C06/ or C07/ are reported only for that
// property; everything else (deadlock/, panic/, crash) for both.
func (e *env) violate(sig, what, detail string) {
	if strings.HasPrefix(sig, "C06/") && e.cfg.Prop != "C06" {
		e.rec.Count("other_property_signals", 1)
		return
	}
	if strings.HasPrefix(sig, "C07/") && e.cfg.Prop != "C07" {
		e.rec.Count("other_property_signals", 1)
		return
	}
	atomic.AddInt32(&e.violated, 1)
	var in interface{}
	if e.input != nil {
		in = e.input()
	}
	e.rec.Violate(sig, what, e.idx, detail, in)
}

// await polls done() until it is true.  A deadlock (all goroutines parked,
// no progress in the event log) is a violation and wedges the batch; a wall
// clock expiry while goroutines can still run is inconclusive.
func (e *env) await(what string, done func() bool) bool {
	if e.dead {
		return false
	}
	for i := 0; i < 50; i++ {
		if done() {
			return true
		}
		runtime.Gosched()
	}
	stuck := 0
	wrapped := func() bool {
		if done() {
			return true
		}
		if e.onStuck == nil {
			return false
		}
		if parked, _ := rpcbench.AllParked("common.(*Watch).WaitDone"); parked {
			stuck++
		} else {
			stuck = 0
		}
		if stuck >= 3 && e.onStuck() {
			stuck = 0
		}
		return false
	}
	w := &common.Watch{Progress: &e.log.Progress, Pending: func() int { return 1 }, Interval: 200 * time.Millisecond, K: 5}
	rep, timeout := w.WaitDone(wrapped, 90*time.Second)
	if rep == nil && !timeout {
		return true
	}
	e.dead = true
	if timeout {
		e.rec.Inconclusive(fmt.Sprintf("wall-clock limit while waiting for %q (goroutines still runnable) case=%d", what, e.idx))
		fmt.Fprintf(os.Stderr, "LOG TAIL\n%s\n", e.log.Tail(60))
		return false
	}
	sig := "deadlock/" + rep.Signature
	if rep.Signature == "" {
		sig = "deadlock/no-library-frame"
	}
	e.violate(sig, "no progress possible while waiting for "+what, "event log tail:\n"+e.log.Tail(40)+"\nparked goroutines:\n"+strings.Join(rep.Blocked, "\n\n"))
	return false
}

// do runs f (a library call that must terminate) in its own goroutine and
// waits for it under the deadlock watch.  A panic inside f is a violation.
func (e *env) do(what string, f func()) bool {
	if e.dead {
		return false
	}
	var fin int32
	var pn *common.Panic
	go func() {
		pn = common.Guard(f)
		atomic.StoreInt32(&fin, 1)
	}()
	ok := e.await(what, func() bool { return atomic.LoadInt32(&fin) == 1 })
	if ok && pn != nil {
		e.violate("panic/"+common.TopLibFrame(pn.Stack), "panic in "+what+": "+pn.Value, pn.Stack)
	}
	return ok
}

func main() {
	cfg := common.ParseFlags()
	rec := common.NewRecorder(cfg)
	noLeakCheck = strings.Contains(cfg.Extra, "noleak")
	capnp.SetClientLeakFunc(func(msg string) {
		leakMu.Lock()
		leakMsgs = append(leakMsgs, msg)
		leakMu.Unlock()
	})
	if cfg.Prop != "C06" && cfg.Prop != "C07" {
		rec.Inconclusive("rpcconf handles C06 and C07 only")
		rec.Finish()
		return
	}
	for i := cfg.Start; i < cfg.Start+cfg.Count; i++ {
		// the case seed is shared by C06 and C07: both properties replay
		// the same histories and differ in the oracles that report
		seed := common.CaseSeed(cfg.Seed, "rpcconf/"+cfg.Mode, i)
		rng := common.NewRNG(seed)
		e := &env{cfg: cfg, rec: rec, idx: i, log: rpcbench.NewLog()}
		switch cfg.Mode {
		case "solo":
			runSolo(e, rng)
		case "duo":
			runDuo(e, rng)
		default:
			rec.Inconclusive("unknown mode " + cfg.Mode)
		}
		rpcbench.Uninstall()
		rec.Max("max_goroutines_after_case", int64(runtime.NumGoroutine()))
		if e.dead {
			rec.AbortBatch(i + 1)
		}
	}
	rec.Finish()
	os.Exit(0)
}
