package main

import (
	"fmt"
	"strings"

	"capnproto.org/go/capnp/v3/zverif/rpcbench"
)

// Protocol conformance monitor over the recorded wire log of a duo run
// (both directions).  It rebuilds, for each side, the question table its
// messages imply and the number of references the peer holds on each of its
// exports.

type wq struct {
	id       uint32
	uid      uint64
	boot     bool
	who      string // the asking side
	callT    int64
	retSent  bool
	ret      *rpcbench.WireMsg
	retRecv  bool
	finSent  bool
	finRRC   bool
	target   string
	// embargo bookkeeping (see checkDisembargoes in solo_pump.go)
	piped [][]int // result paths of calls pipelined on it and sent before its Return was received
	dis   [][]int // paths of the sender-loopback Disembargoes sent for it
}

type wireState struct {
	viols   [][2]string
	qs      map[string]map[uint32]*wq
	all     []*wq
	exports map[string]map[uint32]int // exporter -> id -> references the other side holds
	disChecked  int64 // embargoed result paths checked for their Disembargo
	disSiblings int64 // questions with >= 2 such paths
}

func otherOf(who string) string {
	if who == "A" {
		return "B"
	}
	return "A"
}

func (ws *wireState) viol(sig, what string) { ws.viols = append(ws.viols, [2]string{sig, what}) }

func (ws *wireState) descs(who string, p *rpcbench.WPayload, sign int) {
	if p == nil {
		return
	}
	for _, d := range p.Caps {
		if d.Kind == "senderHosted" || d.Kind == "senderPromise" {
			ws.exports[who][d.ID] += sign
		}
	}
}

func analyzeWire(evs []*rpcbench.Event, w *rpcbench.World) *wireState {
	ws := &wireState{qs: map[string]map[uint32]*wq{"A": {}, "B": {}}, exports: map[string]map[uint32]int{"A": {}, "B": {}}}
	// a send that failed because the other side had closed never reached
	// the wire: the sender rolls its tables back
	failed := map[*rpcbench.WireMsg]bool{}
	for _, e := range evs {
		if e.Kind == rpcbench.EvSendEnd && e.Note == "peer-closed" {
			failed[e.Msg] = true
		}
	}
	for _, e := range evs {
		if e.Msg == nil || (e.Who != "A" && e.Who != "B") || failed[e.Msg] {
			continue
		}
		x, y := e.Who, otherOf(e.Who)
		m := e.Msg
		switch e.Kind {
		case rpcbench.EvSendBegin:
			switch m.Which {
			case "call", "bootstrap":
				if old := ws.qs[x][m.ID]; old != nil {
					ws.viol("C06/question-id-reuse", fmt.Sprintf("%s re-uses question id %d at stamp %d (previous use: returnReceived=%v finishSent=%v)", x, m.ID, e.T, old.retRecv, old.finSent))
				}
				if m.Target != nil && m.Target.Kind == "promisedAnswer" {
					// mark() precedes the write, handleReturn's parse follows
					// the delivery: this transform is in question.called when
					// the Return is parsed
					if tq := ws.qs[x][m.Target.QID]; tq != nil && !tq.retRecv {
						tq.piped = append(tq.piped, m.Target.PathOps())
					}
				}
				q := &wq{id: m.ID, who: x, callT: e.T, boot: m.Which == "bootstrap"}
				if m.Payload != nil {
					q.uid = m.Payload.UID
					ws.descs(x, m.Payload, +1)
				}
				if m.Target != nil {
					q.target = m.Target.RefKey()
				}
				ws.qs[x][m.ID] = q
				ws.all = append(ws.all, q)
			case "return":
				q := ws.qs[y][m.ID]
				switch {
				case q == nil:
					ws.viol("C06/return-unknown-answer", fmt.Sprintf("%s sent a Return for answer id %d that is not an open question of %s (stamp %d)", x, m.ID, y, e.T))
				case q.retSent:
					ws.viol("C06/return-twice", fmt.Sprintf("%s sent a second Return for answer id %d (stamp %d)", x, m.ID, e.T))
				default:
					q.retSent = true
					q.ret = m
					if m.RetKind == "results" && !(q.finSent && q.finRRC) {
						ws.descs(x, m.Payload, +1)
					}
					if m.ReleaseParamCaps {
						// never set by the library
						ws.viol("C07/unexpected-releaseParamCaps", fmt.Sprintf("%s sent Return(releaseParamCaps=true) for answer %d", x, m.ID))
					}
				}
			case "finish":
				q := ws.qs[x][m.ID]
				switch {
				case q == nil:
					ws.viol("C06/finish-unknown-question", fmt.Sprintf("%s sent a Finish for question id %d that is not open (stamp %d)", x, m.ID, e.T))
				case q.finSent:
					ws.viol("C06/finish-twice", fmt.Sprintf("%s sent a second Finish for question id %d (stamp %d)", x, m.ID, e.T))
				default:
					q.finSent = true
					q.finRRC = m.ReleaseResultCaps
					if q.retRecv && !q.boot {
						ws.checkDisembargoes(q)
					}
					if m.ReleaseResultCaps && q.retSent && q.ret.RetKind == "results" {
						ws.descs(y, q.ret.Payload, -1)
					}
					if q.retRecv {
						delete(ws.qs[x], m.ID)
					}
				}
			case "disembargo":
				if m.DisKind == "senderLoopback" && m.Target != nil && m.Target.Kind == "promisedAnswer" {
					if tq := ws.qs[x][m.Target.QID]; tq != nil {
						tq.dis = append(tq.dis, m.Target.PathOps())
					}
				}
			case "release":
				ws.exports[y][m.ID] -= int(m.RefCount)
				if ws.exports[y][m.ID] < 0 {
					ws.viol("C07/release-count-wrong", fmt.Sprintf("%s released %d references of import %d, more than it received (stamp %d)", x, m.RefCount, m.ID, e.T))
				}
			case "unimplemented":
				ws.viol("C06/unimplemented-reply", fmt.Sprintf("%s answered a message with Unimplemented(%s)", x, m.Inner))
			}
		case rpcbench.EvRecv:
			if m.Which == "return" {
				if q := ws.qs[x][m.ID]; q != nil && q.retSent {
					q.retRecv = true
					if q.finSent {
						delete(ws.qs[x], m.ID)
					}
				}
			}
		}
	}
	// content of Returns
	for _, q := range ws.all {
		if !q.retSent || q.boot || q.uid == 0 {
			continue
		}
		o := w.Obs(q.uid)
		m := q.ret
		if m.RetKind == "results" {
			if o == nil || !o.Done || o.Err != "" {
				ws.viol("C06/return-content", fmt.Sprintf("question %d of %s (uid=%x) returned results although its target did not produce any", q.id, q.who, q.uid))
			} else if m.Payload == nil || m.Payload.UID != q.uid^rpcbench.ResultMask || m.Payload.Aux != uint64(o.Cap) {
				ws.viol("C06/return-content", fmt.Sprintf("question %d of %s (uid=%x): Return %s is not what capability #%d produced", q.id, q.who, q.uid, m.String(), o.Cap))
			}
		} else if m.RetKind == "exception" && o != nil && o.Done && o.Err != "" && !strings.Contains(m.ExcReason, o.Err) {
			ws.viol("C06/return-content", fmt.Sprintf("question %d of %s (uid=%x): exception %q, the target raised %q", q.id, q.who, q.uid, m.ExcReason, o.Err))
		}
	}
	return ws
}

// checkDisembargoes: q's Finish was written after its Return had been
// received (no cancelation in duo runs): the Disembargoes of handleReturn
// precede it.  One is due for every cap-table entry hosted by the asking side
// that a path pipelined on before the Return leads to.
func (ws *wireState) checkDisembargoes(q *wq) {
	if q.ret == nil || q.ret.RetKind != "results" || q.ret.Payload == nil {
		return
	}
	p := q.ret.Payload
	have := map[int]bool{}
	for _, path := range q.dis {
		if i := p.SlotCapIdx(path); i >= 0 {
			have[i] = true
		}
	}
	seen := map[int]bool{}
	n := 0
	for _, path := range q.piped {
		i := p.SlotCapIdx(path)
		if i < 0 || p.Caps[i].Kind != "receiverHosted" || seen[i] {
			continue
		}
		seen[i] = true
		n++
		ws.disChecked++
		if !have[i] {
			ws.viol("C06/disembargo-missing", fmt.Sprintf("question %d of %s (uid=%x): calls were pipelined on result path %s before the Return, the Return resolved it to receiverHosted:%d, but no sender-loopback Disembargo for it preceded the Finish", q.id, q.who, q.uid, pathStr(path), p.Caps[i].ID))
		}
	}
	if n >= 2 {
		ws.disSiblings++
	}
}

// openQuestions lists questions without a Return (valid at the end of an
// undisturbed run only).
func (ws *wireState) openQuestions() []string {
	var out []string
	for _, q := range ws.all {
		if !q.retSent {
			out = append(out, fmt.Sprintf("question %d of %s (uid=%x -> %s) never got a Return", q.id, q.who, q.uid, q.target))
		}
	}
	return out
}

// classifyUndelivered decides why a pipelined call of a worker failed with
// "call on null client" by looking at the recorded order of events.
func classifyUndelivered(evs []*rpcbench.Event, uid, parentUID, grandUID uint64) string {
	// locate the Call messages by content uid (first time each was sent)
	type callInfo struct {
		who    string
		id     uint32
		sentT  int64
		recvT  int64 // delivery to the callee
		retT   int64 // send-end of the Return for it
		found  bool
	}
	find := func(u uint64) callInfo {
		var ci callInfo
		for _, e := range evs {
			if e.Msg == nil {
				continue
			}
			m := e.Msg
			if !ci.found && e.Kind == rpcbench.EvSendBegin && m.Which == "call" && m.Payload != nil && m.Payload.UID == u {
				ci = callInfo{who: e.Who, id: m.ID, sentT: e.T, found: true}
				continue
			}
			if ci.found && ci.recvT == 0 && e.Kind == rpcbench.EvRecv && e.Who == otherOf(ci.who) && m.Which == "call" && m.Payload != nil && m.Payload.UID == u {
				ci.recvT = e.T
			}
			if ci.found && ci.retT == 0 && e.Kind == rpcbench.EvSendEnd && e.Who == otherOf(ci.who) && m.Which == "return" && m.ID == ci.id && e.T > ci.sentT {
				ci.retT = e.T
			}
		}
		return ci
	}
	c := find(uid)
	p := find(parentUID)
	if !c.found || !p.found || c.recvT == 0 {
		return "C06/call-not-delivered"
	}
	var parentImplRet int64
	for _, e := range evs {
		if e.Kind == rpcbench.EvImplRet && e.UID == parentUID && e.Note == "" {
			parentImplRet = e.T
		}
	}
	if grandUID != 0 {
		g := find(grandUID)
		if g.found && p.recvT != 0 && (g.retT == 0 || p.recvT < g.retT) {
			return "C06/call-not-delivered/pipeline-on-queued-call"
		}
	}
	if parentImplRet != 0 && (p.retT == 0 || c.recvT < p.retT) {
		return "C06/call-not-delivered/null-client-while-returning"
	}
	return "C06/call-not-delivered"
}

// sentAfterReturnReceived: the call with this content uid was addressed to
// promisedAnswer(Q) and put on the wire after its sender had already
// received the Return of Q (and before Q's id was used again).  That is the
// window between handleReturn parsing the Return (which decides the
// embargoes from the transforms called so far) and Promise.Fulfill: the call
// still travels to the peer, but no embargo protects the calls that follow
// it on the resolved capability.
func sentAfterReturnReceived(evs []*rpcbench.Event, uid uint64) bool {
	var who string
	var qid uint32
	var ts int64
	for _, e := range evs {
		if e.Kind == rpcbench.EvSendBegin && e.Msg != nil && e.Msg.Which == "call" && e.Msg.Payload != nil && e.Msg.Payload.UID == uid &&
			e.Msg.Target != nil && e.Msg.Target.Kind == "promisedAnswer" {
			who, qid, ts = e.Who, e.Msg.Target.QID, e.T
			break
		}
	}
	if ts == 0 {
		return false
	}
	// last use of question id qid by who before ts, and a Return received for it
	var askT, retT int64
	for _, e := range evs {
		if e.T >= ts {
			break
		}
		if e.Msg == nil || e.Who != who {
			continue
		}
		if e.Kind == rpcbench.EvSendBegin && (e.Msg.Which == "call" || e.Msg.Which == "bootstrap") && e.Msg.ID == qid {
			askT, retT = e.T, 0
		}
		if e.Kind == rpcbench.EvRecv && e.Msg.Which == "return" && e.Msg.ID == qid && askT != 0 {
			retT = e.T
		}
	}
	return retT != 0
}
