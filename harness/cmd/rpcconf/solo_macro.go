package main

import (
	"context"
	"fmt"
	"sync/atomic"

	"capnproto.org/go/capnp/v3"
	"capnproto.org/go/capnp/v3/zverif/common"
	"capnproto.org/go/capnp/v3/zverif/rpcbench"
)

// helpResolve makes sure nothing the script itself controls keeps ac from
// resolving: deferred Returns of the peer are sent, blocked implementations
// released.
func (s *solo) helpResolve(ac *appCall) {
	for c := ac; c != nil; c = c.onCall {
		s.helpAnswer(c.pa)
		if p := s.w.PlanOf(c.uid); p != nil {
			p.Release()
		}
	}
}

func (s *solo) helpAnswer(a *peerA) {
	if a == nil || a.returned {
		return
	}
	if a.onAns != nil && !a.onAns.returned {
		s.helpAnswer(a.onAns)
		return
	}
	if a.forward != nil {
		if p := s.w.PlanOf(a.uid); p != nil {
			p.Release()
		}
		return
	}
	s.peerReturn(a)
}

// pumpUntil pumps the peer until cond holds.
func (s *solo) pumpUntil(what string, cond func() bool) bool {
	return s.await(what, func() bool {
		s.pump()
		return cond()
	})
}

// macroEmbargo: the application calls a capability of the peer passing one
// (or, sibling variant, two) of its own capabilities, pipelines calls on the
// promised result(s), the peer returns those very capabilities, then the
// application calls them directly.  Each capability must observe the early
// (looped-back) calls of a path before the late ones.
//
// Sibling variant: two result paths of the same question (two pointer fields
// of the results struct, e.g. /0 and /1) both resolve to capabilities hosted
// by the Conn; calls are pipelined on both before the Return and made on both
// after it.  Each path needs its own embargo and its own Disembargo.
//
// In half of the rounds the proxy is slow: it holds the looped-back calls
// until the Disembargo for their path arrives (solo.holdAns), at the latest
// until the late calls have been issued.  A path that is not embargoed then
// shows the overtaking deterministically.
func (s *solo) macroEmbargo() bool {
	if s.closed || s.aborted {
		return false
	}
	var imps []*rpcbench.Handle
	for _, h := range s.liveImportHandles() {
		if pe := s.handlePexp[h.ID]; pe != nil && pe.cap.forwardTo == nil {
			imps = append(imps, h)
		}
	}
	locs := s.liveLocalHandles()
	if len(imps) == 0 || len(locs) == 0 {
		return false
	}
	h := imps[s.rng.Intn(len(imps))]
	type epath struct {
		slot   int
		lh     *rpcbench.Handle
		kind   int
		path   []int
		ops    []capnp.PipelineOp
		key    int
		nEarly int
		nLate  int
		hcap   *rpcbench.Handle
		round  *embargoRound
	}
	var paths []*epath
	sibling := s.rng.Bool()
	want := &wantRet{deferIt: true}
	var params []paramCap
	slots := []int{0}
	if sibling {
		a := s.rng.Intn(rpcbench.NumPtr)
		b := (a + 1 + s.rng.Intn(rpcbench.NumPtr-1)) % rpcbench.NumPtr
		slots = []int{a, b}
	}
	for _, slot := range slots {
		ep := &epath{slot: slot, lh: locs[s.rng.Intn(len(locs))], kind: wEchoParam}
		if s.rng.Chance(1, 4) && !(sibling && len(paths) == 1 && s.rng.Bool()) {
			ep.kind = wPromiseLoop
		}
		ep.path = []int{slot}
		ws := wantSlot{kind: ep.kind, paramSlot: slot, copies: 1}
		if sibling && s.rng.Chance(1, 6) {
			ws.nested = true
			ep.path = append(ep.path, 0)
		}
		for _, f := range ep.path {
			ep.ops = append(ep.ops, capnp.PipelineOp{Field: uint16(f)})
		}
		want.slots[slot] = ws
		params = append(params, paramCap{h: ep.lh, slot: slot, copies: 1})
		ep.nEarly, ep.nLate = s.rng.Range(1, 4), s.rng.Range(1, 3)
		if sibling {
			ep.nEarly = s.rng.Range(1, 3)
		}
		ep.round = &embargoRound{lc: ep.lh.Local}
		s.rounds = append(s.rounds, ep.round)
		paths = append(paths, ep)
	}
	a, send := s.newAppCall(h.ID, "handle "+h.Label, params, want)
	for _, ep := range paths {
		ep.key = 2000000 + int(a.uid)*8 + ep.slot
	}
	slow := s.rng.Bool()
	if sibling {
		s.step("macro sibling embargo: call uid=%x via %s with local #%d at %s (%d early + %d late, kind=%d) and local #%d at %s (%d early + %d late, kind=%d) slowProxy=%v", a.uid, h.Label,
			paths[0].lh.Local.N, pathStr(paths[0].path), paths[0].nEarly, paths[0].nLate, paths[0].kind,
			paths[1].lh.Local.N, pathStr(paths[1].path), paths[1].nEarly, paths[1].nLate, paths[1].kind, slow)
	} else {
		s.step("macro embargo: call uid=%x via %s with local #%d, %d early + %d late calls, kind=%d slowProxy=%v", a.uid, h.Label, paths[0].lh.Local.N, paths[0].nEarly, paths[0].nLate, paths[0].kind, slow)
	}
	if !s.issue(a, func(ctx context.Context) (*capnp.Answer, capnp.ReleaseFunc) { return h.C.SendCall(ctx, send) }) {
		return true
	}
	mk := func(ep *epath, late bool) (*appCall, capnp.Send) {
		ac, snd := s.newAppCall(ep.key, fmt.Sprintf("answer of uid=%x%s", a.uid, pathStr(ep.path)), nil, &wantRet{})
		ac.onCall = a
		ac.path = ep.path
		ac.embargoRound = ep.round
		ac.late = late
		beh := []int{rpcbench.BehReturnNow, rpcbench.BehAckReturn, rpcbench.BehAckReturn, rpcbench.BehExcNow, rpcbench.BehAckBlock}[s.rng.Intn(5)]
		s.w.Plan(&rpcbench.CallPlan{UID: ac.uid, Behaviour: beh, ObserveCtx: true})
		return ac, snd
	}
	// early calls, the paths interleaved at random
	var early []*appCall
	left := make([]int, len(paths))
	total := 0
	for i, ep := range paths {
		left[i] = ep.nEarly
		total += ep.nEarly
	}
	for ; total > 0; total-- {
		i := s.rng.Intn(len(paths))
		if left[i] == 0 {
			i = (i + 1) % len(paths)
		}
		left[i]--
		ep := paths[i]
		ac, snd := mk(ep, false)
		early = append(early, ac)
		ep.round.early = append(ep.round.early, ac.uid)
		ops := ep.ops
		if !s.issue(ac, func(ctx context.Context) (*capnp.Answer, capnp.ReleaseFunc) { return a.ans.PipelineSend(ctx, ops, snd) }) {
			return true
		}
	}
	// the peer must have seen everything before it returns the capability
	if !s.pumpUntil("peer sees the embargo-round calls", func() bool {
		if a.pa == nil {
			select {
			case <-a.ans.Done():
				return true // failed without reaching the wire: judged below
			default:
			}
			return false
		}
		for _, ac := range early {
			if ac.pa == nil {
				return false
			}
		}
		return true
	}) {
		return true
	}
	if a.pa == nil {
		// the call resolved (with an error) although the peer never saw it
		s.resolveCall(a)
		return true
	}
	if slow {
		s.holdAns = a.pa
		defer func() {
			s.holdAns = nil
			if !s.dead {
				s.flushHeld(a.pa, nil)
			}
		}()
	}
	s.peerReturn(a.pa)
	if !s.pumpUntil("answer of the embargo-round call", func() bool {
		select {
		case <-a.ans.Done():
			return true
		default:
			return false
		}
	}) {
		return true
	}
	s.resolveCall(a)
	if !a.ok {
		return true
	}
	// late calls: through the answer and through the extracted capability
	type lateCall struct {
		ac   *appCall
		send capnp.Send
		ep   *epath
		via  int
	}
	var lates []lateCall
	total = 0
	for i, ep := range paths {
		if s.rng.Bool() {
			ep.hcap = s.takeResultCap(a, ep.slot)
		}
		left[i] = ep.nLate
		total += ep.nLate
	}
	for ; total > 0; total-- {
		i := s.rng.Intn(len(paths))
		if left[i] == 0 {
			i = (i + 1) % len(paths)
		}
		left[i]--
		ep := paths[i]
		ac, snd := mk(ep, true)
		atomic.StoreInt32(&ac.pending, 1) // owned by the sender goroutine until issued
		ep.round.late = append(ep.round.late, ac.uid)
		via := 0
		if ep.hcap != nil && s.rng.Bool() {
			via = 1
		}
		lates = append(lates, lateCall{ac, snd, ep, via})
	}
	// one sender goroutine issues them in order; they may block until the
	// peer answers the Disembargo, which happens in later pumps
	atomic.StoreInt32(&a.busy, 1)
	for _, ep := range paths {
		if ep.hcap != nil {
			s.busyHandle[ep.hcap.ID] = a
		}
	}
	s.async("late embargo calls", func() {
		defer atomic.StoreInt32(&a.busy, 0)
		for _, lc := range lates {
			ctx, cancel := context.WithCancel(context.Background())
			lc.ac.cancel = cancel
			lc.ac.sendT0 = s.log.Stamp()
			if lc.via == 1 {
				lc.ac.ans, lc.ac.release = lc.ep.hcap.C.SendCall(ctx, lc.send)
			} else {
				lc.ac.ans, lc.ac.release = a.ans.PipelineSend(ctx, lc.ep.ops, lc.send)
			}
			lc.ac.sendT1 = s.log.Stamp()
			atomic.StoreInt32(&lc.ac.pending, 0)
		}
	})
	s.count("app_calls_issued", int64(len(lates)))
	s.count("embargo_rounds_started", 1)
	if sibling {
		s.count("sibling_embargo_rounds", 1)
	}
	if slow {
		s.count("embargo_rounds_slow_proxy", 1)
	}
	if slow || s.rng.Bool() {
		// finish the round now; otherwise later steps / teardown do it.  (With
		// the slow proxy the held calls go out, at the latest, once every
		// late call has been issued: see the deferred flushHeld.)
		s.pumpUntil("late embargo calls issued", func() bool { return atomic.LoadInt32(&s.asyncN) == 0 })
	}
	return true
}

// macroPeerEmbargo: the mirror image.  The peer calls a Conn-side capability
// passing one of its own capabilities; the implementation returns that
// capability; the peer pipelines calls on the promised answer (before and
// after the Return) which the Conn must loop back in order, and finally
// sends a sender-loopback Disembargo that must be answered after them.
func (s *solo) macroPeerEmbargo() bool {
	ces := s.heldConnExports()
	if len(ces) == 0 || s.closed || s.aborted || len(s.pq) > 8 {
		return false
	}
	ce := ces[s.rng.Intn(len(ces))]
	pc := s.newPeerCap(false)
	pe := s.exportOf(pc)
	s.pexpAll[pe.id] = pe
	uid := s.newUID()
	c := rpcbench.NewContent(uid)
	c.Slots[0] = 0
	c.Caps = []rpcbench.WDesc{{Kind: "senderHosted", ID: pe.id}}
	q := &peerQ{id: s.allocQID(), uid: uid, class: "direct", expectLC: ce.local,
		target: &rpcbench.WTarget{Kind: "importedCap", Cap: ce.id}}
	q.stream, q.seq = s.peerStream(q.target.RefKey() + fmt.Sprintf("@%d", ce.gen))
	c.Stream, c.Seq = q.stream, q.seq
	block := s.rng.Chance(3, 4)
	beh := rpcbench.BehAckReturn
	if block {
		beh = rpcbench.BehAckBlock
	}
	q.plan = s.w.Plan(&rpcbench.CallPlan{UID: uid, Behaviour: beh, ResCaps: []rpcbench.ResCap{{Slot: 0, ArgSlot: 0}}})
	nEarly, nLate := s.rng.Range(1, 4), s.rng.Range(0, 3)
	s.step("macro peer-embargo: Call q%d uid=%x -> cap%d returning peer cap #%d; %d early + %d late pipelined calls", q.id, uid, ce.id, pc.n, nEarly, nLate)
	s.sendPeerCall(q, &c)
	pipe := func() {
		u := s.newUID()
		cc := rpcbench.NewContent(u)
		p := &peerQ{id: s.allocQID(), uid: u, class: "pipelined", pipeOn: q,
			target: &rpcbench.WTarget{Kind: "promisedAnswer", QID: q.id, Transform: []int{0}}}
		p.stream, p.seq = s.peerStream(fmt.Sprintf("q%x/0", q.uid))
		cc.Stream, cc.Seq = p.stream, p.seq
		p.plan = s.w.Plan(&rpcbench.CallPlan{UID: u, Behaviour: rpcbench.BehAckReturn})
		s.sendPeerCall(p, &cc)
	}
	for i := 0; i < nEarly; i++ {
		pipe()
	}
	if s.rng.Bool() {
		s.quiesce("peer-embargo: pipelined calls queued")
	}
	q.plan.Release()
	if !s.pumpUntil("Return of the peer-embargo call", func() bool { return q.ret != nil }) {
		return true
	}
	if q.ret.RetKind != "results" {
		return true
	}
	disAt := s.rng.Intn(nLate + 1)
	for i := 0; i <= nLate; i++ {
		if i == disAt {
			if d := q.ret.Payload.SlotDesc([]int{0}); d != nil && d.Kind == "receiverHosted" && s.pexp[d.ID] != nil {
				s.sendPeerDisembargo(q, []int{0}, s.pexp[d.ID])
			}
		}
		if i < nLate {
			pipe()
		}
	}
	s.count("peer_embargo_rounds_started", 1)
	return true
}

// macroGenerationRace: the application drops its (last) reference to an
// import while a new descriptor for the same import is arriving.
func (s *solo) macroGenerationRace() bool {
	ces := s.heldConnExports()
	if len(ces) == 0 || s.closed || s.aborted || len(s.pq) > 10 {
		return false
	}
	var cands []*rpcbench.Handle
	for _, h := range s.liveImportHandles() {
		if pe := s.handlePexp[h.ID]; pe != nil && s.pexp[pe.id] == pe && pe.cap.forwardTo == nil && h.Plan == 0 {
			cands = append(cands, h)
		}
	}
	if len(cands) == 0 {
		return false
	}
	h := cands[s.rng.Intn(len(cands))]
	pe := s.handlePexp[h.ID]
	ce := ces[s.rng.Intn(len(ces))]
	uid := s.newUID()
	c := rpcbench.NewContent(uid)
	copies := s.rng.Range(1, 3)
	c.Slots[1] = 0
	for k := 0; k < copies; k++ {
		c.Caps = append(c.Caps, rpcbench.WDesc{Kind: "senderHosted", ID: pe.id})
	}
	q := &peerQ{id: s.allocQID(), uid: uid, class: "direct", expectLC: ce.local,
		target: &rpcbench.WTarget{Kind: "importedCap", Cap: ce.id}}
	q.stream, q.seq = s.peerStream(q.target.RefKey() + fmt.Sprintf("@%d", ce.gen))
	c.Stream, c.Seq = q.stream, q.seq
	plan := &rpcbench.CallPlan{UID: uid, Behaviour: s.rng.Intn(3)}
	if s.rng.Bool() {
		plan.TakeArgs = []int{1}
	}
	q.plan = s.w.Plan(plan)
	s.step("macro generation-race: release %s (import %d) while Call q%d uid=%x brings %d new descriptors", h.Label, pe.id, q.id, uid, copies)
	first := s.rng.Bool()
	// in half of the rounds the Shutdown of the released client is
	// pre-empted at its entry (yield site 730, no lock held) until the
	// burst below has been processed
	var unhold func()
	if s.rng.Bool() {
		first = true
		unhold = s.pol.Hold(730)
		s.count("generation_race_holds", 1)
	}
	// waitRet: under a hold the steps are sequenced (each call has returned,
	// i.e. its arguments were released, before the next descriptor is sent)
	waitRet := func(x *peerQ) {
		if unhold == nil {
			return
		}
		s.await("Return of a generation-race call", func() bool {
			s.pump()
			if x.ret != nil {
				return true
			}
			parked, _ := rpcbench.AllParked("common.(*Watch).WaitDone")
			return parked && len(s.w.BlockedUIDs()) == 0
		})
	}
	held0 := s.pol.Held()
	var relDone int32
	if first {
		s.async("release "+h.Label, func() { s.w.ReleaseHandle(h); atomic.StoreInt32(&relDone, 1) })
	}
	if unhold != nil {
		// the released client's Shutdown sits at the gate (or the release
		// was not the last reference and finished, or some other goroutine
		// took the gate and nothing moves any more)
		s.await("release reaches the held Shutdown", func() bool {
			s.pump()
			if s.pol.Held() > held0 || atomic.LoadInt32(&relDone) == 1 {
				return true
			}
			parked, _ := rpcbench.AllParked("common.(*Watch).WaitDone")
			return parked && len(s.w.BlockedUIDs()) == 0
		})
	}
	if s.pexp[pe.id] != pe {
		// a Release pumped meanwhile ended this export's lifetime in the
		// peer's table: its id must not be named any more
		if unhold != nil {
			unhold()
		}
		s.w.MarkConsumed(uid)
		s.quiesce("after generation race (export gone)")
		return true
	}
	s.sendPeerCall(q, &c)
	waitRet(q)
	if !first {
		s.async("release "+h.Label, func() { s.w.ReleaseHandle(h) })
	}
	// a burst of further descriptors for the same import: each call's
	// arguments are released when its implementation returns, so the import
	// entry is dropped and re-created several times while the Shutdown of
	// the first client may still be pending (generation ABA, fixed 7b2b8f7)
	n := s.rng.Intn(4)
	if unhold != nil && n == 0 {
		n = 1 + s.rng.Intn(2)
	}
	for k := 0; k < n && s.pexp[pe.id] == pe; k++ {
		u := s.newUID()
		cc := rpcbench.NewContent(u)
		cc.Slots[1] = 0
		cc.Caps = []rpcbench.WDesc{{Kind: "senderHosted", ID: pe.id}}
		qq := &peerQ{id: s.allocQID(), uid: u, class: "direct", expectLC: ce.local,
			target: &rpcbench.WTarget{Kind: "importedCap", Cap: ce.id}}
		qq.stream, qq.seq = s.peerStream(qq.target.RefKey() + fmt.Sprintf("@%d", ce.gen))
		cc.Stream, cc.Seq = qq.stream, qq.seq
		pl := &rpcbench.CallPlan{UID: u, Behaviour: s.rng.Intn(2)}
		if k == n-1 && (unhold != nil || s.rng.Bool()) {
			pl.TakeArgs = []int{1} // keep the last one: a live client on the newest entry
		}
		qq.plan = s.w.Plan(pl)
		s.sendPeerCall(qq, &cc)
		waitRet(qq)
		s.count("generation_race_burst_calls", 1)
	}
	if unhold != nil {
		unhold()
	}
	s.count("generation_races", 1)
	s.quiesce("after generation race")
	return true
}

// macroEarlyFinishRRC: the peer cancels one of its calls with
// Finish(releaseResultCaps=true) while the implementation is running; the
// implementation does not watch its context and returns results that carry
// capabilities hosted by the Conn.  The Return then names exports whose
// references the Finish has already given back: the export table must not
// keep them (seeded defect C07-2; the random steps produce this history only
// a few times per quick run).
func (s *solo) macroEarlyFinishRRC() bool {
	if s.closed || s.aborted || len(s.pq) > 10 {
		return false
	}
	var ces []*connExport
	for _, ce := range s.heldConnExports() {
		if ce.local != nil {
			ces = append(ces, ce)
		}
	}
	ls := s.liveLocalHandles()
	if len(ces) == 0 || len(ls) == 0 {
		return false
	}
	ce := ces[s.rng.Intn(len(ces))]
	uid := s.newUID()
	c := rpcbench.NewContent(uid)
	q := &peerQ{id: s.allocQID(), uid: uid, class: "direct", expectLC: ce.local,
		target: &rpcbench.WTarget{Kind: "importedCap", Cap: ce.id}}
	q.stream, q.seq = s.peerStream(q.target.RefKey() + fmt.Sprintf("@%d", ce.gen))
	c.Stream, c.Seq = q.stream, q.seq
	plan := &rpcbench.CallPlan{UID: uid, Behaviour: rpcbench.BehAckBlock}
	used := map[int]bool{}
	for n := s.rng.Range(1, 2); n > 0; n-- {
		slot := s.rng.Intn(rpcbench.NumPtr)
		if used[slot] {
			continue
		}
		used[slot] = true
		base := ls[s.rng.Intn(len(ls))]
		var c2 *capnp.Client
		if !s.do("AddRef for plan", func() { c2 = base.C.AddRef() }) {
			return true
		}
		rc := rpcbench.ResCap{Slot: slot, ArgSlot: -1, Nested: s.rng.Chance(1, 4)}
		if s.rng.Chance(1, 3) {
			rc.Extra = s.rng.Intn(3)
		}
		rc.H = s.w.AddHandle(&rpcbench.Handle{C: c2, Label: fmt.Sprintf("plan-%x-local%d", uid, base.Local.N), Local: base.Local, Plan: uid, Who: "C"})
		plan.ResCaps = append(plan.ResCaps, rc)
	}
	q.plan = s.w.Plan(plan)
	settle := s.rng.Chance(3, 4)
	s.step("macro early-finish-rrc: Call q%d uid=%x -> cap%d returning %d local caps; Finish(rrc) while it runs (settle=%v)", q.id, uid, ce.id, len(plan.ResCaps), settle)
	s.sendPeerCall(q, &c)
	if !s.pumpUntil("implementation of the early-finish call is running", func() bool {
		o := s.w.Obs(uid)
		return (o != nil && (o.Blocked || o.Done)) || q.ret != nil
	}) {
		return true
	}
	if q.ret != nil {
		return true
	}
	s.sendPeerFinish(q, true)
	if settle {
		// the Finish is processed before the implementation returns
		s.quiesce("early-finish-rrc: Finish processed")
	}
	plan.Release()
	if !s.pumpUntil("Return of the early-finish call", func() bool { return q.ret != nil }) {
		return true
	}
	if q.ret.RetKind == "results" {
		s.count("early_finish_rrc_returns_with_caps", 1)
	}
	s.count("early_finish_rrc_rounds", 1)
	s.quiesce("after early-finish-rrc")
	return true
}

// ---------------------------------------------------------------------------
// End of a history.

func (s *solo) closeConn() {
	s.step("Conn.Close")
	s.closed = true
	s.closeT = s.log.Stamp()
	var fin int32
	var cerr error
	var pn *common.Panic
	go func() {
		pn = common.Guard(func() { cerr = s.conn.Close() })
		atomic.StoreInt32(&fin, 1)
	}()
	polls := 0
	ok := s.await("Conn.Close", func() bool {
		s.pump()
		polls++
		if polls > 1 {
			// implementations that do not watch their context keep Close
			// waiting: let them go
			s.w.ReleaseAll()
		}
		return atomic.LoadInt32(&fin) == 1
	})
	if !ok {
		return
	}
	if pn != nil {
		s.violate("panic/"+common.TopLibFrame(pn.Stack), "panic in Conn.Close: "+pn.Value, pn.Stack)
	}
	_ = cerr
	s.count("closes", 1)
}

func (s *solo) finish(closeEarly bool) {
	if !closeEarly && !s.aborted {
		// orderly teardown: everything is answered, finished and released
		s.step("teardown")
		s.w.ReleaseAll()
		for _, ac := range s.calls {
			if s.dead {
				return
			}
			if ac.answer() == nil {
				// issued by an async sender that has not come to it yet
				s.pumpUntil("async senders", func() bool { return atomic.LoadInt32(&s.asyncN) == 0 })
			}
			s.resolveWithHelp(ac)
		}
		for _, a := range s.paAll {
			if !a.returned && s.pa[a.id] == a {
				s.helpAnswer(a)
			}
		}
		if !s.quiesce("teardown: all released and answered") {
			return
		}
		for _, a := range s.paAll {
			if !a.returned && s.pa[a.id] == a {
				s.helpAnswer(a)
			}
		}
		s.quiesce("teardown: peer returned everything")
		for _, q := range s.pqAll {
			if s.pq[q.id] == q && q.ret == nil {
				s.violate("C06/return-missing", fmt.Sprintf("question %d (uid=%x, %s -> %s) never got a Return although every implementation returned", q.id, q.uid, q.class, q.target.RefKey()), s.log.Tail(50))
			}
		}
		for _, ac := range s.calls {
			if !ac.resolved {
				s.violate("C06/local-call-unresolved", fmt.Sprintf("call uid=%x never resolved", ac.uid), s.log.Tail(50))
			}
		}
		for _, emb := range s.embargoes {
			if emb.doneT == 0 {
				s.violate("C06/disembargo-unanswered", fmt.Sprintf("sender-loopback Disembargo %d was never answered", emb.id), s.log.Tail(50))
			}
		}
		for _, q := range s.pqAll {
			if s.pq[q.id] == q && !q.finSent {
				s.sendPeerFinish(q, s.rng.Bool())
			}
		}
		for _, ac := range s.calls {
			s.releaseAnswer(ac)
		}
		if !s.quiesce("teardown: everything finished") {
			return
		}
		s.releaseEverything()
		for _, ce := range s.heldConnExports() {
			s.sendPeerRelease(ce, ce.refs)
		}
		if !s.quiesce("teardown: everything released") {
			return
		}
	}
	if s.dead {
		return
	}
	if !s.aborted {
		s.closeConn()
	} else {
		s.closed = true
	}
	if s.dead {
		return
	}
	s.w.ReleaseAll()
	s.pumpUntil("async senders", func() bool { return atomic.LoadInt32(&s.asyncN) == 0 })
	for _, ac := range s.calls {
		if s.dead {
			return
		}
		if ac.answer() == nil {
			continue
		}
		if !ac.resolved {
			// after Close every pending call must resolve by itself
			ok := s.await(fmt.Sprintf("answer of call uid=%x after Close", ac.uid), func() bool {
				select {
				case <-ac.ans.Done():
					return true
				default:
					return false
				}
			})
			if !ok {
				return
			}
			s.resolveCall(ac)
		}
		s.releaseAnswer(ac)
	}
	s.releaseEverything()
	if !s.quiesce("after Close") {
		return
	}
	st := s.conn.VerifSnapshot()
	if !st.ShutdownDone {
		s.violate("C06/close-incomplete", "Conn.Close returned but Done() is not closed", s.log.Tail(20))
	}
	if st.Locked && (st.Questions != 0 || st.Answers != 0 || st.Embargoes != 0 || len(st.ExportRefs) != 0 || len(st.ImportRefs) != 0) {
		s.violate("C07/leak-after-close/tables", fmt.Sprintf("tables not empty after Close: %+v", st), s.log.Tail(20))
	}
	if n := s.ct.LiveMsgs(); n != 0 {
		s.violate("C07/leak-after-close/messages", fmt.Sprintf("%d transport messages were never released", n), s.log.Tail(20))
	}
	for _, msg := range collectLeaks() {
		s.count("leakfunc_reports", 1)
		s.violate("C07/leak-after-close/leakfunc", "SetClientLeakFunc: "+msg, s.log.Tail(20))
	}
}

// releaseEverything drops every reference the harness holds.
func (s *solo) releaseEverything() {
	for _, h := range s.w.LiveHandles() {
		if h.Plan != 0 && !s.w.PlanConsumed(h.Plan) {
			// the call of this plan can no longer be delivered once the
			// script stops issuing; it is consumed if it never started
			if o := s.w.Obs(h.Plan); o != nil && !o.Done {
				continue
			}
			s.w.MarkConsumed(h.Plan)
		}
		hh := h
		s.do("Release "+h.Label, func() { s.w.ReleaseHandle(hh) })
	}
}
