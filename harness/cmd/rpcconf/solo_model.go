package main

import (
	"fmt"
	"sort"
	"strings"
	"sync"
	"sync/atomic"

	"capnproto.org/go/capnp/v3"
	"capnproto.org/go/capnp/v3/rpc"
	"capnproto.org/go/capnp/v3/zverif/common"
	"capnproto.org/go/capnp/v3/zverif/rpcbench"
)

// ---------------------------------------------------------------------------
// The scripted peer's model: the protocol's four tables from the peer's
// point of view.

// capSrc says what a cap-table entry of a payload built on the Conn side is
// expected to be.
type capSrc struct {
	local  *rpcbench.LocalCap // a capability hosted by the Conn side
	pcap   *peerCap           // a capability hosted by the peer (an import of the Conn)
	argIdx int                // (results only) copy of the call's argument cap-table entry argIdx, -1 otherwise
}

// peerCap is a capability "hosted" by the scripted peer.
type peerCap struct {
	n       int
	promise bool // exported with senderPromise descriptors
	// forwardTo: the peer forwards every call on this capability to this
	// export of the Conn (used for the senderPromise loop-back variant).
	forwardTo *connExport
	// observed calls (uid) in arrival order, and last seq per stream
	seen    []uint64
	lastSeq map[uint32]uint32
}

// peerExport is an entry of the peer's export table.
type peerExport struct {
	id   uint32
	cap  *peerCap
	refs int // references the Conn holds = descriptors delivered - Release counts received
	releases int
}

// connExport is an entry of the Conn's export table as the peer knows it.
type connExport struct {
	id    uint32
	refs  int                // references the peer holds (model, by the spec)
	local *rpcbench.LocalCap // identity (nil if unknown)
	// leaked counts references the spec says are released but the
	// implementation is known to keep (known finding releaseParamCaps).
	leaked int
	gen    int // bumped when the peer's count drops to zero (the id may then name another capability)
}

// peerQ is a question of the peer (an answer the Conn owes).
type peerQ struct {
	id        uint32
	uid       uint64
	boot      bool
	target    *rpcbench.WTarget
	stream    uint32
	seq       uint32
	class     string // direct | pipelined | forward
	plan      *rpcbench.CallPlan
	resSrc    []capSrc // expected result cap table (per plan)
	argDescs  []rpcbench.WDesc
	sentT     int64 // stamp of send-end of the Call
	ret       *rpcbench.WireMsg
	retT      int64
	returns   int
	finSent   bool
	finRRC    bool
	finT      int64
	expectLC  *rpcbench.LocalCap // capability that must observe the call (nil: unknown / none)
	relayFor  *peerA             // forwarded call made on behalf of this Conn question
	checked   bool
	mustFail  bool // model says the call cannot be delivered (target path has no capability, target answer failed)
	embargoT  *peerEmbargo
	pipeOn    *peerQ // pipelined on this question
	pipeClass string // unreturned | returned | racing (decided from the log at the end)
	argSlots  []int  // content slot -> cap-table index of the parameters (-1 none)
	argLocals []*rpcbench.LocalCap // per parameter cap-table entry: the Conn-side capability a receiverHosted entry named when it was sent
	// looped back by the Conn to a capability hosted by the peer
	fwdArrived  bool
	fwdArrivedT int64
	peerResult  *retSpec // what the peer capability answered to the looped-back call
	retGen      map[uint32]int
}

// peerA is an answer the peer owes (a question of the Conn).
type peerA struct {
	id       uint32
	boot     bool
	call     *rpcbench.WireMsg
	uid      uint64
	recvT    int64
	returned bool
	ret      *rpcbench.WireMsg
	retRPC   bool
	finSeen  bool
	finRRC   bool
	// queued pipelined calls waiting for this answer (by arrival order)
	queued []*peerA
	// pipeline target bookkeeping
	onAns   *peerA
	path    []int
	forward *peerQ // forwarded to the Conn as this peer question
	app     *appCall
	defer_  bool // the script will return it in a later step
	retSpecUsed *retSpec
	fwdOf   *peerQ // this is the Conn looping one of the peer's calls back
	bootExport *peerExport
	// embargo bookkeeping: result paths of calls pipelined on this answer
	// that the peer received before it sent the Return (the Conn had marked
	// them when it parsed the Return), and the paths of the sender-loopback
	// Disembargoes received for it
	pipedBeforeRet [][]int
	disPaths       [][]int
	retAfterFinish bool // the Finish had been seen when the Return was sent
}

// heldForward is a looped-back call the proxy has not forwarded yet.
type heldForward struct {
	a  *peerA
	ce *connExport
}

// peerEmbargo is a peer-initiated sender-loopback disembargo.
type peerEmbargo struct {
	id      uint32
	q       *peerQ
	path    []int
	pexp    *peerExport
	sentT   int64
	doneT   int64
	nFwd    int // forwarded calls expected before the reply
}

// appCall is a call issued through the Conn's API by the script.
type appCall struct {
	uid      uint64
	stream   uint32
	seq      uint32
	ans      *capnp.Answer
	release  capnp.ReleaseFunc
	via      string
	onCall   *appCall // pipelined on this call's answer
	path     []int
	paramSrc []capSrc
	sendT0   int64
	sendT1   int64
	resolved bool
	released bool
	checked  bool
	afterClose bool
	canceled bool
	cancel   func()
	want     *wantRet
	expectFail bool
	busy       int32 // an asynchronous sender is still using the answer
	pending    int32 // 1 while an asynchronous sender goroutine owns ans/release/cancel
	finishFailed bool // the write of its cancel-Finish was made to fail (transport fault)
	relT0, relT1 int64
	// result bookkeeping
	resUID uint64
	resErr string
	ok     bool
	// expectLocal: call expected to be delivered to a Conn-side capability
	// without the peer seeing it (embargoed / resolved-local).
	embargoRound *embargoRound
	late         bool // issued after the promise resolved (must come after the early ones)
	pa           *peerA
}

type embargoRound struct {
	lc       *rpcbench.LocalCap
	early    []uint64 // uids pipelined before the return
	late     []uint64 // uids issued after resolution
	complete bool
}

type solo struct {
	*env
	rng  *common.RNG
	w    *rpcbench.World
	pol  *rpcbench.YieldPolicy
	conn *rpc.Conn
	ct   *rpcbench.Tap // Conn's endpoint
	pt   *rpcbench.Tap // peer's endpoint

	uidNext uint64
	steps   []string // script actually executed (replay input)

	// Conn side
	bootCap    *rpcbench.LocalCap
	locals     []*rpcbench.LocalCap
	closed     bool
	closeT     int64
	aborted    bool
	abortMsg   string
	connErrs   []string
	calls      []*appCall
	callByUID  map[uint64]*appCall
	streamNext uint32
	streamSeq  map[uint32]uint32
	handleStream map[int]uint32 // handle id -> stream
	handlePexp map[int]*peerExport
	bootHandle *rpcbench.Handle

	// peer side
	pq        map[uint32]*peerQ
	pqAll     []*peerQ
	pqByUID   map[uint64]*peerQ
	pqFree    []uint32 // retired question ids (may be reused)
	pqNext    uint32
	pa        map[uint32]*peerA
	paAll     []*peerA
	paByUID   map[uint64]*peerA
	pexp      map[uint32]*peerExport
	pexpNext  uint32
	pcaps     []*peerCap
	peerBoot  *peerCap
	cexp      map[uint32]*connExport
	embargoes map[uint32]*peerEmbargo
	embNext   uint32
	connEmb   int // sender-loopback disembargoes received from the Conn
	connEmbDone int
	peerStreamSeq map[string]uint32
	peerStreamID  map[string]uint32

	// known-finding bookkeeping
	rpcIgnoredReported bool

	rounds []*embargoRound
	// holdAns: while set, calls pipelined on this answer that resolve to a
	// capability hosted by the Conn are kept back by the proxy (FIFO) until
	// the Disembargo for their path arrives or the macro ends
	holdAns *peerA
	heldFwd []heldForward
	appBoots      []*appBoot
	handleBoundT  map[int]int64
	busyHandle    map[int]*appCall
	deadHandle    map[int]bool
	pexpAll       map[uint32]*peerExport
	boundArg      map[int]bool
	argHandles    []*rpcbench.Handle
	orderReported map[uint64]bool
	everHeld      map[int]map[string]bool
	baseHandle    map[int]*rpcbench.Handle
	reporter      *errCollector
	asyncN        int32
	panicMu       sync.Mutex
	panics        [][2]string
	// counters for evidence (flushed at the end of the case)
	cnt map[string]int64
}

func (s *solo) count(name string, n int64) { s.cnt[name] += n }

func (s *solo) step(format string, args ...interface{}) {
	st := fmt.Sprintf(format, args...)
	s.steps = append(s.steps, st)
	s.log.Add(&rpcbench.Event{Kind: rpcbench.EvNote, Who: "S", Note: "step " + st})
}

func (s *solo) newUID() uint64 {
	s.uidNext++
	return 0x1000 + s.uidNext
}

// ---------------------------------------------------------------------------
// Peer-side id allocation.

func (s *solo) allocQID() uint32 {
	// re-use a retired id half of the time (the Conn's answer table must
	// cope with re-use after Finish + Return)
	if len(s.pqFree) > 0 && s.rng.Bool() {
		i := s.rng.Intn(len(s.pqFree))
		id := s.pqFree[i]
		s.pqFree = append(s.pqFree[:i], s.pqFree[i+1:]...)
		return id
	}
	id := s.pqNext
	s.pqNext++
	return id
}

func (s *solo) retireQ(q *peerQ) {
	if s.pq[q.id] == q {
		delete(s.pq, q.id)
		s.pqFree = append(s.pqFree, q.id)
	}
}

func (s *solo) newPeerCap(promise bool) *peerCap {
	pc := &peerCap{n: len(s.pcaps), promise: promise, lastSeq: map[uint32]uint32{}}
	s.pcaps = append(s.pcaps, pc)
	return pc
}

// exportOf returns the live export entry of a peer capability, creating one
// if needed (the peer, like the Conn, uses one export id per capability).
func (s *solo) exportOf(pc *peerCap) *peerExport {
	for _, e := range s.pexp {
		if e.cap == pc {
			return e
		}
	}
	e := &peerExport{id: s.pexpNext, cap: pc}
	s.pexpNext++
	s.pexp[e.id] = e
	s.pexpAll[e.id] = e
	s.count("peer_exports_created", 1)
	return e
}

// ---------------------------------------------------------------------------
// Accounting of descriptors (called when the message carrying them is put on
// the wire by the peer / taken off the wire by the peer).

// peerSentDescs: the peer sent a payload with these descriptors to the Conn.
func (s *solo) peerSentDescs(ds []rpcbench.WDesc) {
	for _, d := range ds {
		switch d.Kind {
		case "senderHosted", "senderPromise":
			if e := s.pexp[d.ID]; e != nil {
				e.refs++
				s.count("peer_descs_sent", 1)
			}
		}
	}
}

// connSentDescs: the peer received a payload from the Conn.  srcs (may be
// nil) gives the expected identity of each entry.
func (s *solo) connSentDescs(ds []rpcbench.WDesc, srcs []capSrc, ctx string) {
	for i, d := range ds {
		var src *capSrc
		if i < len(srcs) {
			src = &srcs[i]
		}
		switch d.Kind {
		case "senderHosted", "senderPromise":
			e := s.cexp[d.ID]
			if e == nil {
				e = &connExport{id: d.ID}
				s.cexp[d.ID] = e
				s.count("conn_exports_created", 1)
			}
			if src != nil && src.local != nil {
				if e.local != nil && e.local != src.local && e.refs+e.leaked > 0 {
					s.violate("C07/export-identity", fmt.Sprintf("export id %d names capability #%d while still bound to #%d (%s)", d.ID, src.local.N, e.local.N, ctx), s.log.Tail(30))
				}
				e.local = src.local
			} else if src != nil && src.pcap != nil {
				s.violate("C07/descriptor-kind", fmt.Sprintf("capability hosted by the peer was sent back as %s:%d instead of receiverHosted (%s)", d.Kind, d.ID, ctx), s.log.Tail(30))
			}
			e.refs++
			s.count("conn_descs_sent", 1)
		case "receiverHosted":
			pe := s.pexp[d.ID]
			if pe == nil || pe.refs <= 0 {
				s.violate("C07/receiver-hosted-unknown", fmt.Sprintf("Conn sent receiverHosted:%d which the peer does not export to it (%s)", d.ID, ctx), s.log.Tail(30))
			} else if src != nil && src.pcap != nil && pe.cap != src.pcap {
				s.violate("C07/export-identity", fmt.Sprintf("receiverHosted:%d names peer capability #%d, expected #%d (%s)", d.ID, pe.cap.n, src.pcap.n, ctx), s.log.Tail(30))
			}
			s.count("conn_receiver_hosted_sent", 1)
		case "none":
		default:
			s.violate("C07/descriptor-kind", fmt.Sprintf("unexpected descriptor %s (%s)", d.Kind, ctx), s.log.Tail(30))
		}
	}
	if srcs != nil && len(srcs) != len(ds) {
		s.violate("C07/cap-table-size", fmt.Sprintf("payload carries %d descriptors, %d capabilities were placed (%s)", len(ds), len(srcs), ctx), s.log.Tail(30))
	}
}

// releaseConnExport: the peer gives up n references on a Conn export.
func (s *solo) peerDropsConnRefs(id uint32, n int) {
	if e := s.cexp[id]; e != nil {
		e.refs -= n
		if e.refs <= 0 {
			e.gen++
		}
	}
}

func countDescs(ds []rpcbench.WDesc) (m map[uint32]int) {
	m = map[uint32]int{}
	for _, d := range ds {
		if d.Kind == "senderHosted" || d.Kind == "senderPromise" {
			m[d.ID]++
		}
	}
	return m
}

func sortedKeysU32(m map[uint32]int) []uint32 {
	var ks []uint32
	for k := range m {
		ks = append(ks, k)
	}
	sort.Slice(ks, func(i, j int) bool { return ks[i] < ks[j] })
	return ks
}

func pathStr(p []int) string {
	var sb strings.Builder
	for _, f := range p {
		fmt.Fprintf(&sb, "/%d", f)
	}
	return sb.String()
}

// answer returns the call's Answer once it has been issued (nil while an
// asynchronous sender still owns the record).
func (ac *appCall) answer() *capnp.Answer {
	if atomic.LoadInt32(&ac.pending) != 0 {
		return nil
	}
	return ac.ans
}
