package main

import (
	"context"
	"fmt"
	"sync/atomic"

	"capnproto.org/go/capnp/v3"
	"capnproto.org/go/capnp/v3/zverif/rpcbench"
)

// macroCancelFailedFinish: a local call is canceled and the write of its
// Finish fails cleanly in the transport (error, nothing on the wire, the
// connection stays up).  In the slow variant the failing write is held at a
// gate until the peer's Return for the canceled question has been picked up
// by the receive loop (handleReturn then waits for the cancelation task); in
// the fast variant the write fails first.  Afterwards further calls are
// issued so that question ids are re-used.  The conformance monitor requires
// that an id is never re-used unless its Finish was on the wire before
// (C06/question-id-reuse/finish-never-sent); a library that keeps the id
// reserved for ever is fine.  (Added after the seeded defect C06-3 was
// missed: the workload had no transport faults.)
func (s *solo) macroCancelFailedFinish() bool {
	if s.closed || s.aborted {
		return false
	}
	var imps []*rpcbench.Handle
	for _, h := range s.liveImportHandles() {
		if pe := s.handlePexp[h.ID]; pe != nil && s.pexp[pe.id] == pe && pe.refs > 0 && pe.cap.forwardTo == nil {
			imps = append(imps, h)
		}
	}
	if len(imps) == 0 {
		return false
	}
	h := imps[s.rng.Intn(len(imps))]
	// the peer answers later and without capabilities (a lost Finish must
	// not leave references the model cannot account for)
	ac, send := s.newAppCall(h.ID, "handle "+h.Label, nil, &wantRet{deferIt: true})
	slow := s.rng.Chance(3, 4)
	s.step("macro cancel+failed-Finish: call uid=%x via %s, slow=%v", ac.uid, h.Label, slow)
	if !s.issue(ac, func(ctx context.Context) (*capnp.Answer, capnp.ReleaseFunc) { return h.C.SendCall(ctx, send) }) {
		return true
	}
	select {
	case <-ac.ans.Done():
		return true // failed before it was sent
	default:
	}
	if !s.pumpUntil("peer sees the call that will be canceled", func() bool { return ac.pa != nil }) {
		return true
	}
	if ac.pa.returned {
		return true
	}
	if slow {
		// let the receive loop drain first: while the Finish write is held
		// it keeps the sender lock, and an earlier message that needs to
		// answer would keep the loop from reaching the Return
		if !s.quiesce("before canceling with a failing Finish") {
			return true
		}
		if ac.pa.returned || s.closed || s.aborted {
			return true
		}
	}
	f := &rpcbench.SendFault{Which: "finish", ID: ac.pa.id, Gate: make(chan struct{})}
	s.ct.ArmFault(f)
	ac.canceled = true
	ac.finishFailed = true
	ac.cancel()
	s.count("app_cancels", 1)
	if !s.pumpUntil("cancelation task reaches the Finish write", func() bool { return atomic.LoadInt32(&f.Hit) == 1 }) {
		close(f.Gate)
		return true
	}
	if slow {
		// Return is delivered while the Finish write is in progress
		t0 := s.log.Now()
		retID := ac.pa.id
		s.peerReturn(ac.pa)
		behind := false
		ok := s.await("receive loop picks the Return up during the Finish write", func() bool {
			parked, _ := rpcbench.AllParked("common.(*Watch).WaitDone")
			if !parked {
				return false
			}
			// everything is parked: either the receive loop waits for the
			// cancelation task inside handleReturn, or it is stuck behind
			// the held sender lock with an earlier message (then the
			// Return is still queued and the slow path cannot be forced)
			behind = !s.connReceivedReturn(retID, t0)
			return true
		})
		if !ok {
			close(f.Gate)
			return true
		}
		if behind {
			s.count("cancel_failed_finish_fast_path", 1)
		} else {
			s.count("cancel_failed_finish_slow_path", 1)
		}
	} else {
		s.count("cancel_failed_finish_fast_path", 1)
	}
	close(f.Gate)
	if !s.pumpUntil("failed Finish write returns", func() bool { return atomic.LoadInt32(&f.Done) == 1 }) {
		return true
	}
	if !slow {
		s.peerReturn(ac.pa)
	}
	s.count("cancel_with_failed_finish", 1)
	// the canceled call resolves by itself; then keep calling so that ids
	// are taken from the free list again
	s.resolveWithHelp(ac)
	s.quiesce("after canceled call with failed Finish")
	for i, n := 0, s.rng.Range(1, 3); i < n && !s.dead; i++ {
		if s.stepAppCall() {
			s.count("calls_after_failed_finish", 1)
		}
	}
	s.pump()
	return true
}

// connReceivedReturn: the Conn's RecvMessage handed out a Return with this
// answer id after stamp t0.
func (s *solo) connReceivedReturn(id uint32, t0 int64) bool {
	evs := s.log.Snapshot()
	for i := len(evs) - 1; i >= 0 && evs[i].T > t0; i-- {
		e := evs[i]
		if e.Who == "C" && e.Kind == rpcbench.EvRecv && e.Msg != nil && e.Msg.Which == "return" && e.Msg.ID == id {
			return true
		}
	}
	return false
}

var _ = fmt.Sprintf
