package main

import (
	"fmt"

	rpccp "capnproto.org/go/capnp/v3/std/capnp/rpc"
	"capnproto.org/go/capnp/v3/zverif/rpcbench"
)

// Kinds of result slots the application can ask the peer for.
const (
	wNone = iota
	wEchoParam   // the capability received in parameter slot paramSlot
	wNewPeerCap  // a new capability hosted by the peer
	wOldPeerCap  // an existing capability hosted by the peer
	wConnExport  // any export of the Conn the peer holds (receiverHosted)
	wPromiseLoop // a new senderPromise capability whose calls the peer forwards to the export received in paramSlot
)

type wantSlot struct {
	kind      int
	paramSlot int
	copies    int // cap-table entries for the same capability (1-5)
	nested    bool
}

type wantRet struct {
	deferIt   bool
	exception bool
	rpc       bool
	slots     [rpcbench.NumPtr]wantSlot
}

func (s *solo) peerSend(build func(rpccp.Message) error) *rpcbench.WireMsg {
	rec, err := s.pt.PeerSend(build)
	if rec != nil {
		s.count("msg_p2c_"+rec.Which, 1)
	}
	if err != nil && !s.closed {
		s.violate("C06/peer-send-failed", "transport towards the Conn failed: "+err.Error(), s.log.Tail(20))
	}
	return rec
}

// peerStream returns the (stream, next seq) for calls the peer addresses to
// one reference.
func (s *solo) peerStream(ref string) (uint32, uint32) {
	id, ok := s.peerStreamID[ref]
	if !ok {
		s.streamNext++
		id = s.streamNext
		s.peerStreamID[ref] = id
	}
	s.peerStreamSeq[ref]++
	return id, s.peerStreamSeq[ref]
}

// sendPeerCall puts a Call of the peer on the wire and registers it.
func (s *solo) sendPeerCall(q *peerQ, c *rpcbench.Content) {
	s.pq[q.id] = q
	s.pqAll = append(s.pqAll, q)
	if _, dup := s.pqByUID[q.uid]; !dup || q.class != "forward" {
		s.pqByUID[q.uid] = q
	}
	q.argDescs = append([]rpcbench.WDesc(nil), c.Caps...)
	q.argSlots = append([]int(nil), c.Slots[:]...)
	// identity of receiverHosted arguments at the time of sending (the
	// export id may be re-used for another capability later)
	q.argLocals = make([]*rpcbench.LocalCap, len(c.Caps))
	for i, d := range c.Caps {
		if d.Kind == "receiverHosted" {
			if ce := s.cexp[d.ID]; ce != nil {
				q.argLocals[i] = ce.local
			}
		}
	}
	s.peerSentDescs(c.Caps)
	tgt := q.target
	id := q.id
	s.peerSend(func(m rpccp.Message) error {
		call, err := m.NewCall()
		if err != nil {
			return err
		}
		call.SetQuestionId(id)
		call.SetInterfaceId(rpcbench.BenchInterfaceID)
		call.SetMethodId(rpcbench.BenchMethodID)
		t, err := call.NewTarget()
		if err != nil {
			return err
		}
		if err := rpcbench.SetTarget(t, tgt); err != nil {
			return err
		}
		p, err := call.NewParams()
		if err != nil {
			return err
		}
		return rpcbench.FillPayload(p, c)
	})
	q.sentT = s.log.Now()
}

func (s *solo) sendPeerBootstrap() *peerQ {
	q := &peerQ{id: s.allocQID(), boot: true, class: "boot", expectLC: s.bootCap}
	s.pq[q.id] = q
	s.pqAll = append(s.pqAll, q)
	id := q.id
	s.peerSend(func(m rpccp.Message) error {
		b, err := m.NewBootstrap()
		if err != nil {
			return err
		}
		b.SetQuestionId(id)
		return nil
	})
	q.sentT = s.log.Now()
	return q
}

// canRRC: Finish.releaseResultCaps=true gives back every capability of the
// Return; that is only legal if the peer has not already released one of
// them with an explicit Release.
func (s *solo) canRRC(q *peerQ) bool {
	if q.ret == nil || q.ret.RetKind != "results" || q.ret.Payload == nil {
		return true
	}
	for id, n := range countDescs(q.ret.Payload.Caps) {
		ce := s.cexp[id]
		if ce == nil || ce.refs < n || ce.gen != q.retGen[id] {
			return false
		}
	}
	return true
}

func (s *solo) sendPeerFinish(q *peerQ, rrc bool) {
	if rrc && !s.canRRC(q) {
		rrc = false
	}
	q.finSent = true
	q.finRRC = rrc
	if rrc && q.ret != nil && q.ret.RetKind == "results" && q.ret.Payload != nil {
		for _, d := range q.ret.Payload.Caps {
			if d.Kind == "senderHosted" || d.Kind == "senderPromise" {
				s.peerDropsConnRefs(d.ID, 1)
				s.count("result_caps_released_by_finish", 1)
			}
		}
	}
	id := q.id
	s.peerSend(func(m rpccp.Message) error {
		f, err := m.NewFinish()
		if err != nil {
			return err
		}
		f.SetQuestionId(id)
		f.SetReleaseResultCaps(rrc)
		return nil
	})
	q.finT = s.log.Now()
	if q.ret != nil {
		s.retireQ(q)
	}
}

func (s *solo) sendPeerRelease(ce *connExport, n int) {
	s.peerDropsConnRefs(ce.id, n)
	id := ce.id
	s.peerSend(func(m rpccp.Message) error {
		r, err := m.NewRelease()
		if err != nil {
			return err
		}
		r.SetId(id)
		r.SetReferenceCount(uint32(n))
		return nil
	})
}

// connExportPinned: the peer must keep at least one reference while it may
// still have to forward calls to the export.
func (s *solo) connExportPinned(ce *connExport) bool {
	for _, a := range s.pa {
		if a.retSpecUsed != nil && !a.finSeen {
			for _, x := range a.retSpecUsed.cexps {
				if x == ce {
					return true
				}
			}
		}
		if a.app != nil && a.app.want != nil && !a.returned {
			// an echo of a parameter is still to be returned
			for _, d := range a.call.Payload.Caps {
				if d.Kind == "senderHosted" && d.ID == ce.id {
					return true
				}
			}
		}
	}
	for _, pc := range s.pcaps {
		if pc.forwardTo == ce {
			for _, e := range s.pexp {
				if e.cap == pc {
					return true
				}
			}
		}
	}
	return false
}

// ---------------------------------------------------------------------------
// Returns sent by the peer.

func (s *solo) buildRetSpec(a *peerA) *retSpec {
	spec := &retSpec{}
	uid := a.uid
	c := rpcbench.NewContent(uid ^ rpcbench.ResultMask)
	if a.call.Payload != nil {
		c.Stream, c.Seq = a.call.Payload.Stream, a.call.Payload.Seq
	}
	c.Aux = 1000
	var want *wantRet
	if a.app != nil {
		want = a.app.want
	}
	if want == nil {
		want = &wantRet{}
		if s.rng.Chance(1, 6) {
			want.exception = true
		}
		want.rpc = s.rng.Chance(1, 4)
	}
	spec.rpc = want.rpc
	if want.exception {
		spec.exception = true
		return spec
	}
	if a.finSeen {
		// canceled question: the results would be dropped anyway
		spec.content = c
		return spec
	}
	addEntry := func(d rpcbench.WDesc, pc *peerCap, ce *connExport) int {
		c.Caps = append(c.Caps, d)
		spec.pcaps = append(spec.pcaps, pc)
		spec.cexps = append(spec.cexps, ce)
		var l *rpcbench.LocalCap
		if ce != nil {
			l = ce.local // identity now; the export id may name something else later
		}
		spec.clocals = append(spec.clocals, l)
		return len(c.Caps) - 1
	}
	addPeerCap := func(pc *peerCap, copies int) int {
		e := s.exportOf(pc)
		kind := "senderHosted"
		if pc.promise {
			kind = "senderPromise"
		}
		first := addEntry(rpcbench.WDesc{Kind: kind, ID: e.id}, pc, nil)
		for k := 1; k < copies; k++ {
			addEntry(rpcbench.WDesc{Kind: kind, ID: e.id}, pc, nil)
		}
		return first
	}
	paramExport := func(slot int) *connExport {
		if a.call.Payload == nil || slot < 0 || slot >= len(a.call.Payload.Slots) {
			return nil
		}
		sl := a.call.Payload.Slots[slot]
		if sl.CapIdx < 0 || sl.CapIdx >= len(a.call.Payload.Caps) {
			return nil
		}
		d := a.call.Payload.Caps[sl.CapIdx]
		if d.Kind != "senderHosted" {
			return nil
		}
		ce := s.cexp[d.ID]
		if ce == nil || ce.refs <= 0 {
			return nil
		}
		return ce
	}
	for i, ws := range want.slots {
		idx := -1
		copies := ws.copies
		if copies < 1 {
			copies = 1
		}
		switch ws.kind {
		case wEchoParam:
			if ce := paramExport(ws.paramSlot); ce != nil {
				idx = addEntry(rpcbench.WDesc{Kind: "receiverHosted", ID: ce.id}, nil, ce)
			}
		case wConnExport:
			var cands []*connExport
			for _, id := range sortedCexp(s.cexp) {
				if s.cexp[id].refs > 0 {
					cands = append(cands, s.cexp[id])
				}
			}
			if len(cands) > 0 {
				ce := cands[s.rng.Intn(len(cands))]
				idx = addEntry(rpcbench.WDesc{Kind: "receiverHosted", ID: ce.id}, nil, ce)
			}
		case wNewPeerCap:
			idx = addPeerCap(s.newPeerCap(false), copies)
		case wOldPeerCap:
			pc := s.pcaps[s.rng.Intn(len(s.pcaps))]
			if pc.forwardTo != nil {
				pc = s.peerBoot
			}
			idx = addPeerCap(pc, copies)
		case wPromiseLoop:
			if ce := paramExport(ws.paramSlot); ce != nil {
				pc := s.newPeerCap(true)
				pc.forwardTo = ce
				idx = addPeerCap(pc, copies)
			}
		}
		if idx >= 0 {
			c.Slots[i] = idx
			c.Nested[i] = ws.nested
		}
	}
	spec.content = c
	for _, ce := range spec.cexps {
		if ce != nil {
			// the peer keeps its reference: it may have to forward calls
			spec.rpc = false
		}
	}
	return spec
}

func sortedCexp(m map[uint32]*connExport) []uint32 {
	tmp := map[uint32]int{}
	for k := range m {
		tmp[k] = 1
	}
	return sortedKeysU32(tmp)
}

// peerReturn answers one of the Conn's questions.
func (s *solo) peerReturn(a *peerA) {
	if a.returned {
		return
	}
	if a.boot {
		spec := &retSpec{rpc: s.rng.Bool()}
		e := s.exportOf(s.peerBoot)
		spec.pcaps = []*peerCap{s.peerBoot}
		spec.cexps = []*connExport{nil}
		spec.clocals = []*rpcbench.LocalCap{nil}
		spec.content.Caps = []rpcbench.WDesc{{Kind: "senderHosted", ID: e.id}}
		s.sendReturn(a, spec, true)
		// the application's bootstrap clients become references to this
		// import once the Conn has processed the Return, i.e. when its
		// Finish is seen (see onFinish)
		a.bootExport = e
		return
	}
	if a.fwdOf != nil {
		// result of a capability hosted by the peer for a looped-back call
		spec := &retSpec{}
		if s.rng.Chance(1, 8) {
			spec.exception = true
		} else {
			c := rpcbench.NewContent(a.uid ^ rpcbench.ResultMask)
			c.Stream, c.Seq, c.Aux = a.call.Payload.Stream, a.call.Payload.Seq, 1000
			spec.content = c
		}
		a.fwdOf.peerResult = spec
		s.sendReturn(a, spec, false)
		return
	}
	s.sendReturn(a, s.buildRetSpec(a), false)
}

func (s *solo) peerReturnException(a *peerA, reason string) {
	spec := &retSpec{exception: true, excReason: reason}
	s.sendReturn(a, spec, false)
}

func (s *solo) sendReturn(a *peerA, spec *retSpec, iface bool) {
	if a.returned {
		return
	}
	a.returned = true
	a.retAfterFinish = a.finSeen
	a.defer_ = false
	a.retSpecUsed = spec
	a.retRPC = spec.rpc
	id := a.id
	reason := spec.excReason
	if reason == "" {
		reason = fmt.Sprintf("peer-exc-%x", a.uid)
	}
	canceled := a.finSeen && !spec.exception && s.rng.Chance(1, 3)
	spec.canceled = canceled
	countCaps := !(a.finSeen && a.finRRC) && !spec.exception && !canceled
	if !countCaps {
		spec.content.Caps = nil
		spec.pcaps, spec.cexps, spec.clocals = nil, nil, nil
		for i := range spec.content.Slots {
			spec.content.Slots[i] = -1
		}
	}
	rec := s.peerSend(func(m rpccp.Message) error {
		r, err := m.NewReturn()
		if err != nil {
			return err
		}
		r.SetAnswerId(id)
		r.SetReleaseParamCaps(spec.rpc)
		switch {
		case spec.exception:
			e, err := r.NewException()
			if err != nil {
				return err
			}
			e.SetType(rpccp.Exception_Type_failed)
			return e.SetReason(reason)
		case canceled:
			r.SetCanceled()
			return nil
		case iface:
			p, err := r.NewResults()
			if err != nil {
				return err
			}
			ip := capnpInterface(p, 0)
			if err := p.SetContent(ip); err != nil {
				return err
			}
			return rpcbench.FillCapTable(p, spec.content.Caps)
		default:
			p, err := r.NewResults()
			if err != nil {
				return err
			}
			return rpcbench.FillPayload(p, &spec.content)
		}
	})
	a.ret = rec
	if rec == nil {
		return
	}
	if countCaps {
		s.peerSentDescs(spec.content.Caps)
	}
	if spec.rpc && a.call.Payload != nil {
		// releaseParamCaps: the peer gives back every capability of the parameters
		for _, d := range a.call.Payload.Caps {
			if d.Kind == "senderHosted" || d.Kind == "senderPromise" {
				if ce := s.cexp[d.ID]; ce != nil {
					s.peerDropsConnRefs(d.ID, 1)
					ce.leaked++
					s.count("param_caps_released_by_return", 1)
				}
			}
		}
	}
	if a.finSeen {
		delete(s.pa, a.id)
	}
	// calls that were pipelined on this answer can be routed now
	q := a.queued
	a.queued = nil
	for _, pa := range q {
		s.resolvePipelined(pa, a)
	}
}

// relayReturn: the forwarded call q (made on behalf of the Conn's question
// q.relayFor) returned; hand the outcome back.
func (s *solo) relayReturn(q *peerQ) {
	a := q.relayFor
	spec := &retSpec{}
	switch {
	case q.ret.RetKind == "results" && q.ret.Payload != nil && q.ret.Payload.Kind == "struct":
		c := rpcbench.NewContent(q.ret.Payload.UID)
		c.Stream, c.Seq, c.Aux = q.ret.Payload.Stream, q.ret.Payload.Seq, q.ret.Payload.Aux
		spec.content = c
	default:
		spec.exception = true
		spec.excReason = "relay: " + q.ret.ExcReason
	}
	s.sendReturn(a, spec, false)
	if !q.finSent {
		rrc := s.rng.Bool()
		if q.ret.Payload != nil && len(q.ret.Payload.Caps) > 0 {
			rrc = true // the relay drops result capabilities
		}
		s.sendPeerFinish(q, rrc)
	}
}
