package main

import (
	"context"
	"fmt"
	"strings"
	"sync"
	"sync/atomic"

	"capnproto.org/go/capnp/v3"
	"capnproto.org/go/capnp/v3/rpc"
	"capnproto.org/go/capnp/v3/zverif/common"
	"capnproto.org/go/capnp/v3/zverif/rpcbench"
)

// Duo mode: two real Conns joined by tap transports (both directions
// recorded), 2-8 application goroutines issuing calls / pipelines / releases
// with the yield policy on the verifhook sites.  The goroutines work in
// rounds; between rounds the coordinator waits for a quiescent point and
// checks conservation of capability references between the two Conns and
// against the wire log.

type dSide struct {
	name    string
	conn    *rpc.Conn
	tap     *rpcbench.Tap
	boot    *rpcbench.LocalCap
	locals  []*rpcbench.LocalCap
	base    map[int]*rpcbench.Handle // harness references to the local capabilities (released at the end)
	rep     *errCollector
	closed  int32
}

type dHandle struct {
	h      *rpcbench.Handle
	target *rpcbench.LocalCap // capability it designates (nil if unknown)
	key    int
}

type dCall struct {
	uid      uint64
	stream   uint32
	seq      uint32
	ans      *capnp.Answer
	release  capnp.ReleaseFunc
	plan     *rpcbench.CallPlan
	target   *rpcbench.LocalCap // expected observer (nil unknown)
	parent   *dCall
	path     []int
	resCaps  map[int]*rpcbench.LocalCap // result slot -> capability expected there
	nested   map[int]bool
	expectExc bool
	mayFail  bool // pipelined on something that may fail / closed
	resolved bool
	ok       bool
	released bool
	embargo  bool
}

type dWorker struct {
	d       *duo
	id      int
	side    int
	rng     *common.RNG
	handles []*dHandle
	calls   []*dCall
	boot    *dHandle
	nextKey int
	streams map[int]uint32
	seqs    map[uint32]uint32
	viols   [][3]string
	cnt     map[string]int64
	// pipelined calls answered "call on null client": classified by the
	// coordinator from the event log
	undelivered [][3]uint64
}

type duo struct {
	*env
	rng     *common.RNG
	w       *rpcbench.World
	pol     *rpcbench.YieldPolicy
	sides   [2]*dSide
	workers []*dWorker
	uidN    uint64
	streamN uint32
	closing int32 // a Conn was closed while workers run: errors are expected
	cnt     map[string]int64
	vmu     sync.Mutex
}

func (d *duo) newUID() uint64    { return 0x2000 + atomic.AddUint64(&d.uidN, 1) }
func (d *duo) newStream() uint32 { return atomic.AddUint32(&d.streamN, 1) }

func (wk *dWorker) viol(sig, what string) {
	wk.viols = append(wk.viols, [3]string{sig, what, wk.d.log.Tail(40)})
}

func (wk *dWorker) count(k string, n int64) { wk.cnt[k] += n }

func (wk *dWorker) streamOf(key int) (uint32, uint32) {
	st, ok := wk.streams[key]
	if !ok {
		st = wk.d.newStream()
		wk.streams[key] = st
	}
	wk.seqs[st]++
	return st, wk.seqs[st]
}

func (wk *dWorker) other() *dSide { return wk.d.sides[1-wk.side] }
func (wk *dWorker) mine() *dSide  { return wk.d.sides[wk.side] }

func (wk *dWorker) lenient() bool { return atomic.LoadInt32(&wk.d.closing) != 0 }

// makeCall prepares plan, bookkeeping and Send for a call whose observer is
// expected to be target (may be nil).
func (wk *dWorker) makeCall(streamKey int, target *rpcbench.LocalCap, allowCaps bool) (*dCall, capnp.Send) {
	d := wk.d
	c := &dCall{uid: d.newUID(), target: target, resCaps: map[int]*rpcbench.LocalCap{}, nested: map[int]bool{}}
	c.stream, c.seq = wk.streamOf(streamKey)
	plan := &rpcbench.CallPlan{UID: c.uid, Behaviour: wk.rng.Intn(rpcbench.NumBehaviours), ObserveCtx: wk.rng.Bool()}
	c.expectExc = plan.Behaviour == rpcbench.BehExcNow || plan.Behaviour == rpcbench.BehAckBlockExc
	// parameters: capabilities of my own side
	type param struct {
		lc     *rpcbench.LocalCap
		client *capnp.Client
		slot   int
		copies int
		nested bool
	}
	var params []param
	argCap := map[int]*rpcbench.LocalCap{}
	if allowCaps {
		for n := wk.rng.Intn(3); n > 0; n-- {
			slot := wk.rng.Intn(rpcbench.NumPtr)
			if _, used := argCap[slot]; used {
				continue
			}
			p := param{slot: slot, copies: 1, nested: wk.rng.Chance(1, 5)}
			if wk.rng.Chance(1, 3) {
				p.copies = wk.rng.Range(2, 5)
			}
			if len(wk.handles) > 0 && wk.rng.Chance(1, 4) {
				// pass one of my imports back (receiverHosted on the wire)
				h := wk.handles[wk.rng.Intn(len(wk.handles))]
				if h.target == nil {
					continue
				}
				p.lc, p.client = h.target, h.h.C
			} else {
				ls := wk.mine().locals
				p.lc = ls[wk.rng.Intn(len(ls))]
				p.client = wk.mine().base[p.lc.N].C
			}
			argCap[slot] = p.lc
			params = append(params, p)
		}
	}
	// results
	if allowCaps && !c.expectExc {
		used := map[int]bool{}
		for n := wk.rng.Intn(3); n > 0; n-- {
			slot := wk.rng.Intn(rpcbench.NumPtr)
			if used[slot] {
				continue
			}
			used[slot] = true
			rc := rpcbench.ResCap{Slot: slot, ArgSlot: -1, Nested: wk.rng.Chance(1, 4)}
			if wk.rng.Chance(1, 3) {
				rc.Extra = wk.rng.Intn(5)
			}
			var lc *rpcbench.LocalCap
			if len(params) > 0 && wk.rng.Bool() {
				p := params[wk.rng.Intn(len(params))]
				rc.ArgSlot = p.slot
				lc = p.lc
			} else {
				ls := wk.other().locals
				lc = ls[wk.rng.Intn(len(ls))]
				base := wk.other().base[lc.N]
				rc.H = d.w.AddHandle(&rpcbench.Handle{C: base.C.AddRef(), Label: fmt.Sprintf("plan-%x", c.uid), Local: lc, Plan: c.uid, Who: wk.other().name})
			}
			plan.ResCaps = append(plan.ResCaps, rc)
			c.resCaps[slot] = lc
			c.nested[slot] = rc.Nested
		}
		// an implementation that places capabilities in its results and
		// then fails ("boom-<uid>-after-results"): the answer owns those
		// references until Finish / Close
		if len(plan.ResCaps) > 0 && wk.rng.Chance(1, 4) {
			plan.FailAfterResults = true
			c.expectExc = true
			wk.count("plans_fail_after_result_caps", 1)
		}
	}
	c.plan = d.w.Plan(plan)
	uid, stream, seq := c.uid, c.stream, c.seq
	send := capnp.Send{
		Method:   rpcbench.BenchMethod,
		ArgsSize: rpcbench.ContentSize,
		PlaceArgs: func(st capnp.Struct) error {
			ct := rpcbench.NewContent(uid)
			ct.Stream, ct.Seq = stream, seq
			msg := st.Message()
			for _, p := range params {
				first := -1
				for k := 0; k < p.copies; k++ {
					id := msg.AddCap(p.client.AddRef())
					if first < 0 {
						first = int(id)
					}
				}
				ct.Slots[p.slot] = first
				ct.Nested[p.slot] = p.nested
			}
			return rpcbench.FillStruct(st, &ct)
		},
	}
	wk.calls = append(wk.calls, c)
	wk.count("calls_issued", 1)
	return c, send
}

func (wk *dWorker) opCall() {
	if len(wk.handles) == 0 {
		return
	}
	h := wk.handles[wk.rng.Intn(len(wk.handles))]
	c, send := wk.makeCall(h.key, h.target, true)
	c.ans, c.release = h.h.C.SendCall(context.Background(), send)
}

func (wk *dWorker) opPipeline() {
	var cands []*dCall
	for _, c := range wk.calls {
		if !c.released && !c.embargo && len(c.resCaps) > 0 {
			// (answers of calls on capabilities of my own side are included:
			// pipelining on them goes through server.queueCaller.PipelineSend
			// and reaches the Conn when the result capability is an import)
			cands = append(cands, c)
		}
	}
	if len(cands) == 0 {
		return
	}
	t := cands[wk.rng.Intn(len(cands))]
	var slots []int
	for s := range t.resCaps {
		slots = append(slots, s)
	}
	// deterministic choice
	min := slots[0]
	for _, s := range slots {
		if s < min {
			min = s
		}
	}
	slot := min
	if len(slots) > 1 && wk.rng.Bool() {
		slot = slots[wk.rng.Intn(len(slots))]
	}
	ops := []capnp.PipelineOp{{Field: uint16(slot)}}
	path := []int{slot}
	if t.nested[slot] {
		ops = append(ops, capnp.PipelineOp{Field: 0})
		path = append(path, 0)
	}
	c, send := wk.makeCall(100000+int(t.uid&0xffff)*8+slot, t.resCaps[slot], false)
	c.parent = t
	c.path = path
	c.mayFail = t.expectExc || t.mayFail
	if t.resolved {
		wk.count("pipelined_on_resolved", 1)
	} else {
		wk.count("pipelined_on_unresolved", 1)
	}
	c.ans, c.release = t.ans.PipelineSend(context.Background(), ops, send)
}

// releasePlans lets the implementations of c and its ancestors return.
func (wk *dWorker) releasePlans(c *dCall) {
	for x := c; x != nil; x = x.parent {
		x.plan.Release()
	}
}

func (wk *dWorker) resolve(c *dCall) {
	if c.resolved || c.ans == nil {
		return
	}
	if c.parent != nil {
		wk.resolve(c.parent)
	}
	wk.releasePlans(c)
	st, err := c.ans.Struct()
	c.resolved = true
	wk.count("calls_resolved", 1)
	lenient := wk.lenient()
	if err != nil {
		if lenient || c.mayFail || (c.parent != nil && !c.parent.ok) {
			return
		}
		if c.parent != nil && strings.Contains(err.Error(), "call on null client") {
			var g uint64
			if c.parent.parent != nil {
				g = c.parent.parent.uid
			}
			wk.undelivered = append(wk.undelivered, [3]uint64{c.uid, c.parent.uid, g})
		} else if !c.expectExc {
			wk.viol("C06/local-result-mismatch", fmt.Sprintf("call uid=%x failed with %q, its implementation was to return results", c.uid, err.Error()))
		} else if !strings.Contains(err.Error(), fmt.Sprintf("boom-%x", c.uid)) {
			wk.viol("C06/local-result-mismatch", fmt.Sprintf("call uid=%x failed with %q, its implementation raised boom-%x", c.uid, err.Error(), c.uid))
		}
		return
	}
	c.ok = true
	if c.expectExc {
		wk.viol("C06/local-result-mismatch", fmt.Sprintf("call uid=%x returned results, its implementation raised an exception", c.uid))
		return
	}
	if st.Uint64(0) != c.uid^rpcbench.ResultMask || st.Uint32(8) != c.stream || st.Uint32(12) != c.seq {
		wk.viol("C06/local-result-mismatch", fmt.Sprintf("call uid=%x resolved with uid=%x stream/seq=%d/%d", c.uid, st.Uint64(0), st.Uint32(8), st.Uint32(12)))
	}
	if c.target != nil && st.Uint64(16) != uint64(c.target.N) {
		wk.viol("C06/wrong-target", fmt.Sprintf("call uid=%x was answered by capability #%d, expected #%d", c.uid, st.Uint64(16), c.target.N))
	}
}

func (wk *dWorker) opResolve() {
	var cands []*dCall
	for _, c := range wk.calls {
		if !c.resolved && c.ans != nil {
			cands = append(cands, c)
		}
	}
	if len(cands) == 0 {
		return
	}
	wk.resolve(cands[wk.rng.Intn(len(cands))])
}

func (wk *dWorker) opTake() {
	var cands []*dCall
	for _, c := range wk.calls {
		if c.resolved && c.ok && !c.released && len(c.resCaps) > 0 {
			cands = append(cands, c)
		}
	}
	if len(cands) == 0 || len(wk.handles) > 12 {
		return
	}
	c := cands[wk.rng.Intn(len(cands))]
	st, err := c.ans.Struct()
	if err != nil {
		return
	}
	for slot, lc := range c.resCaps {
		p, err := st.Ptr(uint16(slot))
		if err != nil {
			continue
		}
		var ci capnp.Interface
		if i := p.Interface(); i.IsValid() {
			ci = i
		} else if ns := p.Struct(); ns.IsValid() {
			q, _ := ns.Ptr(0)
			ci = q.Interface()
		}
		cl := ci.Client()
		if cl == nil {
			if !wk.lenient() {
				wk.viol("C07/result-cap-missing", fmt.Sprintf("results of call uid=%x carry no capability at slot %d", c.uid, slot))
			}
			continue
		}
		h := wk.d.w.AddHandle(&rpcbench.Handle{C: cl.AddRef(), Label: fmt.Sprintf("w%d-res%d-of-%x", wk.id, slot, c.uid), Who: wk.mine().name})
		wk.nextKey++
		wk.handles = append(wk.handles, &dHandle{h: h, target: lc, key: wk.nextKey})
		wk.count("caps_taken", 1)
		return
	}
}

func (wk *dWorker) opReleaseHandle() {
	if len(wk.handles) <= 1 {
		return
	}
	i := 1 + wk.rng.Intn(len(wk.handles)-1) // keep the bootstrap client
	h := wk.handles[i]
	wk.handles = append(wk.handles[:i], wk.handles[i+1:]...)
	wk.d.w.ReleaseHandle(h.h)
	wk.count("handles_released", 1)
}

func (wk *dWorker) opAddRef() {
	if len(wk.handles) == 0 || len(wk.handles) > 12 {
		return
	}
	h := wk.handles[wk.rng.Intn(len(wk.handles))]
	h2 := wk.d.w.AddHandle(&rpcbench.Handle{C: h.h.C.AddRef(), Label: h.h.Label + "+", Who: wk.mine().name})
	wk.nextKey++
	wk.handles = append(wk.handles, &dHandle{h: h2, target: h.target, key: wk.nextKey})
}

func (wk *dWorker) opReleaseAnswer() {
	for _, c := range wk.calls {
		if c.resolved && !c.released && wk.rng.Bool() {
			// children pipelined on it keep working on their own
			c.released = true
			c.release()
			return
		}
	}
}

// opEmbargo: pass one (sibling variant: two) of my capabilities to the other
// side, which returns them; pipeline calls on the promised answer, then call
// the resolved capabilities directly.  One stream per result path: my
// capability must observe all calls of a path in issue order.
func (wk *dWorker) opEmbargo() {
	d := wk.d
	ls := wk.mine().locals
	type epath struct {
		slot int
		lc   *rpcbench.LocalCap
		mine *capnp.Client
		key  int
		ops  []capnp.PipelineOp
	}
	slots := []int{0}
	if wk.rng.Chance(2, 5) {
		a := wk.rng.Intn(rpcbench.NumPtr)
		slots = []int{a, (a + 1 + wk.rng.Intn(rpcbench.NumPtr-1)) % rpcbench.NumPtr}
		wk.count("sibling_embargo_rounds", 1)
	}
	var paths []*epath
	a := &dCall{uid: d.newUID(), target: wk.other().boot, resCaps: map[int]*rpcbench.LocalCap{}, nested: map[int]bool{}, embargo: true}
	var rcs []rpcbench.ResCap
	for _, slot := range slots {
		lc := ls[wk.rng.Intn(len(ls))]
		paths = append(paths, &epath{slot: slot, lc: lc, mine: wk.mine().base[lc.N].C, key: 200000 + int(a.uid&0xffff)*8 + slot,
			ops: []capnp.PipelineOp{{Field: uint16(slot)}}})
		a.resCaps[slot] = lc
		rcs = append(rcs, rpcbench.ResCap{Slot: slot, ArgSlot: slot})
	}
	a.stream, a.seq = wk.streamOf(wk.boot.key)
	beh := rpcbench.BehAckBlock
	if wk.rng.Chance(1, 3) {
		beh = rpcbench.BehAckReturn
	}
	a.plan = d.w.Plan(&rpcbench.CallPlan{UID: a.uid, Behaviour: beh, ResCaps: rcs})
	uid, stream, seq := a.uid, a.stream, a.seq
	wk.calls = append(wk.calls, a)
	a.ans, a.release = wk.boot.h.C.SendCall(context.Background(), capnp.Send{
		Method: rpcbench.BenchMethod, ArgsSize: rpcbench.ContentSize,
		PlaceArgs: func(st capnp.Struct) error {
			ct := rpcbench.NewContent(uid)
			ct.Stream, ct.Seq = stream, seq
			for _, ep := range paths {
				ct.Slots[ep.slot] = int(st.Message().AddCap(ep.mine.AddRef()))
			}
			return rpcbench.FillStruct(st, &ct)
		},
	})
	mk := func(ep *epath) (*dCall, capnp.Send) {
		c := &dCall{uid: d.newUID(), target: ep.lc, parent: a, resCaps: map[int]*rpcbench.LocalCap{}, nested: map[int]bool{}, embargo: true}
		c.stream, c.seq = wk.streamOf(ep.key)
		beh := []int{rpcbench.BehReturnNow, rpcbench.BehAckReturn, rpcbench.BehAckReturn, rpcbench.BehExcNow}[wk.rng.Intn(4)]
		c.expectExc = beh == rpcbench.BehExcNow
		c.plan = d.w.Plan(&rpcbench.CallPlan{UID: c.uid, Behaviour: beh})
		cu, cs, cq := c.uid, c.stream, c.seq
		wk.calls = append(wk.calls, c)
		wk.count("calls_issued", 1)
		return c, capnp.Send{Method: rpcbench.BenchMethod, ArgsSize: rpcbench.ContentSize,
			PlaceArgs: func(st capnp.Struct) error {
				ct := rpcbench.NewContent(cu)
				ct.Stream, ct.Seq = cs, cq
				return rpcbench.FillStruct(st, &ct)
			}}
	}
	for _, ep := range paths {
		for i, n := 0, wk.rng.Range(1, 4-len(paths)+1); i < n; i++ {
			c, send := mk(ep)
			c.ans, c.release = a.ans.PipelineSend(context.Background(), ep.ops, send)
		}
	}
	a.plan.Release()
	wk.resolve(a)
	if !a.ok {
		return
	}
	// the later-marked path first: it is the one an incomplete set of
	// embargoes would miss
	for k := len(paths) - 1; k >= 0; k-- {
		ep := paths[k]
		var direct *capnp.Client
		if st, err := a.ans.Struct(); err == nil {
			if p, err := st.Ptr(uint16(ep.slot)); err == nil {
				direct = p.Interface().Client()
			}
		}
		for i, n := 0, wk.rng.Range(1, 3); i < n; i++ {
			c, send := mk(ep)
			if direct != nil && wk.rng.Bool() {
				c.ans, c.release = direct.SendCall(context.Background(), send)
			} else {
				c.ans, c.release = a.ans.PipelineSend(context.Background(), ep.ops, send)
			}
		}
	}
	wk.count("embargo_rounds", 1)
}

func (wk *dWorker) round(nOps int) {
	for i := 0; i < nOps; i++ {
		switch r := wk.rng.Intn(100); {
		case r < 28:
			wk.opCall()
		case r < 46:
			wk.opPipeline()
		case r < 62:
			wk.opResolve()
		case r < 70:
			wk.opTake()
		case r < 77:
			wk.opReleaseHandle()
		case r < 82:
			wk.opAddRef()
		case r < 90:
			wk.opReleaseAnswer()
		default:
			wk.opEmbargo()
		}
	}
}

// finishAll resolves and releases everything the worker still holds.
func (wk *dWorker) finishAll() {
	for _, c := range wk.calls {
		wk.resolve(c)
	}
	for _, c := range wk.calls {
		if !c.released && c.release != nil {
			c.released = true
			c.release()
		}
	}
	for _, h := range wk.handles {
		wk.d.w.ReleaseHandle(h.h)
	}
	wk.handles = nil
}

func runDuo(e *env, rng *common.RNG) {
	d := &duo{env: e, rng: rng, w: rpcbench.NewWorld(e.log), cnt: map[string]int64{}}
	level := 1 + rng.Intn(2)
	d.pol = rpcbench.NewYieldPolicy(rng.Uint64(), level, yieldSites)
	d.pol.Install()
	nWorkers := rng.Range(2, 8)
	nRounds := rng.Range(2, 4)
	closeEarly := rng.Chance(1, 4)
	e.rec.Case(e.idx, fmt.Sprintf("duo workers=%d rounds=%d closeEarly=%v yield=%d", nWorkers, nRounds, closeEarly, level))
	e.input = func() interface{} {
		return map[string]interface{}{"workers": nWorkers, "rounds": nRounds, "closeEarly": closeEarly, "log": d.log.Dump(1500)}
	}
	e.onStuck = func() bool {
		if len(d.w.BlockedUIDs()) == 0 {
			return false
		}
		d.log.Add(&rpcbench.Event{Kind: rpcbench.EvNote, Who: "S", Note: "coordinator releases blocked implementations (everything else is parked)"})
		d.w.ReleaseAll()
		return true
	}
	ta, tb := rpcbench.NewTapPair(e.log, "A", "B", d.pol)
	for i, t := range []*rpcbench.Tap{ta, tb} {
		s := &dSide{name: t.Name, tap: t, base: map[int]*rpcbench.Handle{}, rep: &errCollector{}}
		var bc *capnp.Client
		s.boot, bc = d.w.NewLocalCap(s.name)
		s.locals = append(s.locals, s.boot)
		s.base[s.boot.N] = d.w.AddHandle(&rpcbench.Handle{C: bc.AddRef(), Label: "base-boot-" + s.name, Local: s.boot, Who: s.name})
		for k, n := 0, rng.Range(1, 3); k < n; k++ {
			lc, c := d.w.NewLocalCap(s.name)
			s.locals = append(s.locals, lc)
			s.base[lc.N] = d.w.AddHandle(&rpcbench.Handle{C: c, Label: fmt.Sprintf("base-%s%d", s.name, lc.N), Local: lc, Who: s.name})
		}
		s.conn = rpc.NewConn(t, &rpc.Options{BootstrapClient: bc, ErrorReporter: s.rep})
		d.sides[i] = s
	}
	// bootstrap both ways; the workers start calling through the bootstrap
	// clients right away, i.e. also while the Bootstrap Returns are being
	// processed (design candidate #12 deadlocked in that window before the
	// core fix 4d46932)
	var boots [2]*capnp.Client
	for i := range d.sides {
		i := i
		if !e.do("Bootstrap "+d.sides[i].name, func() {
			boots[i] = d.sides[i].conn.Bootstrap(context.Background())
		}) {
			return
		}
	}
	for i := 0; i < nWorkers; i++ {
		wk := &dWorker{d: d, id: i, side: i % 2, rng: rng.Fork(), streams: map[int]uint32{}, seqs: map[uint32]uint32{}, cnt: map[string]int64{}}
		h := d.w.AddHandle(&rpcbench.Handle{C: boots[wk.side].AddRef(), Label: fmt.Sprintf("w%d-boot", i), Who: d.sides[wk.side].name})
		wk.boot = &dHandle{h: h, target: d.sides[1-wk.side].boot, key: 0}
		wk.handles = []*dHandle{wk.boot}
		d.workers = append(d.workers, wk)
	}
	for i := range boots {
		boots[i].Release()
	}
	closeRound := -1
	if closeEarly {
		closeRound = rng.Intn(nRounds)
	}
	var closeDone int32 = 1
	for r := 0; r < nRounds && !e.dead; r++ {
		var left int32 = int32(len(d.workers))
		for _, wk := range d.workers {
			wk := wk
			nOps := wk.rng.Range(3, 8)
			go func() {
				defer atomic.AddInt32(&left, -1)
				if p := common.Guard(func() { wk.round(nOps) }); p != nil {
					wk.viols = append(wk.viols, [3]string{"panic/" + common.TopLibFrame(p.Stack), "panic in worker: " + p.Value, p.Stack})
				}
			}()
		}
		if r == closeRound {
			// Close one side while the workers are busy
			atomic.StoreInt32(&d.closing, 1)
			atomic.StoreInt32(&closeDone, 0)
			side := d.sides[rng.Intn(2)]
			go func() {
				for i := 0; i < 3; i++ {
					d.pol.Wire("x")
				}
				atomic.StoreInt32(&side.closed, 1)
				if p := common.Guard(func() { side.conn.Close() }); p != nil {
					d.vmu.Lock()
					d.cnt["close_panics"]++
					d.vmu.Unlock()
				}
				atomic.StoreInt32(&closeDone, 1)
			}()
		}
		if !e.await(fmt.Sprintf("workers of round %d", r), func() bool {
			return atomic.LoadInt32(&left) == 0 && atomic.LoadInt32(&closeDone) == 1
		}) {
			break
		}
		d.flushWorkerViolations()
		if atomic.LoadInt32(&d.closing) == 0 {
			d.quiesceAndCheck(fmt.Sprintf("after round %d", r), false)
		}
	}
	if !e.dead {
		d.finish()
	}
	for k, v := range d.cnt {
		e.rec.Count("duo_"+k, v)
	}
	for _, wk := range d.workers {
		for k, v := range wk.cnt {
			e.rec.Count("duo_"+k, v)
		}
	}
	for site, n := range d.pol.Histogram() {
		e.rec.Count(fmt.Sprintf("site_%d", site), n)
	}
	e.rec.Count("events_logged", int64(d.log.Len()))
	if !e.dead {
		e.rec.Distinct(d.log.OrderHash())
		if atomic.LoadInt32(&e.violated) == 0 && e.rec.WantSample() {
			e.rec.Sample(map[string]interface{}{"case": e.idx, "mode": "duo", "workers": nWorkers, "rounds": nRounds, "events": d.log.Len()})
		}
	}
}

func (d *duo) flushWorkerViolations() {
	for _, wk := range d.workers {
		for _, v := range wk.viols {
			d.violate(v[0], v[1], v[2])
		}
		wk.viols = nil
		for _, u := range wk.undelivered {
			sig := classifyUndelivered(d.log.Snapshot(), u[0], u[1], u[2])
			d.violate(sig, fmt.Sprintf("pipelined call uid=%x (on uid=%x) was answered \"call on null client\" without reaching its target", u[0], u[1]), d.log.Tail(60))
		}
		wk.undelivered = nil
	}
}

func (d *duo) quiescentNow() bool {
	for _, s := range d.sides {
		if s.tap.Closed() || s.tap.InClosed() {
			// nobody reads this direction any more; what is queued stays
			continue
		}
		if s.tap.InQueueLen() != 0 {
			return false
		}
		if atomic.LoadInt32(&s.closed) == 0 && !s.tap.Idle() {
			return false
		}
	}
	n0 := d.log.Len()
	parked, _ := rpcbench.AllParked("common.(*Watch).WaitDone")
	if !parked || d.log.Len() != n0 {
		return false
	}
	return true
}

// quiesceAndCheck waits for a quiescent point and runs the state oracles.
func (d *duo) quiesceAndCheck(where string, final bool) bool {
	if !d.await("quiescence "+where, d.quiescentNow) {
		return false
	}
	d.cnt["quiescent_points"]++
	for _, f := range d.w.TakeFaults() {
		switch {
		case strings.HasPrefix(f, "shutdown-twice"):
			d.violate("C07/shutdown-twice", f, d.log.Tail(30))
		case strings.HasPrefix(f, "call-after-shutdown"):
			d.violate("C07/call-after-shutdown", f, d.log.Tail(30))
		case strings.HasPrefix(f, "call-delivered-twice"):
			d.violate("C06/call-delivered-twice", f, d.log.Tail(30))
		}
	}
	d.checkOrder()
	wire := analyzeWire(d.log.Snapshot(), d.w)
	d.cnt["disembargo_targets_checked"] = wire.disChecked
	d.cnt["disembargo_sibling_targets_checked"] = wire.disSiblings
	for _, v := range wire.viols {
		if v[0] == "C06/disembargo-missing" && atomic.LoadInt32(&d.closing) != 0 {
			continue // a closing Conn drops the messages of handleReturn
		}
		if !d.wireReported(v[0] + v[1]) {
			d.violate(v[0], v[1], d.log.Tail(40))
		}
	}
	var snaps [2]rpc.VerifConnState
	for i, s := range d.sides {
		snaps[i] = s.conn.VerifSnapshot()
		d.cnt["snapshots_taken"]++
		if !snaps[i].Locked {
			d.violate("C06/mutex-held-at-quiescence", "Conn.mu of "+s.name+" is held although nothing is running ("+where+")", d.log.Tail(30))
			return true
		}
		if snaps[i].SenderLockHeld {
			d.violate("C06/sender-lock-held-at-quiescence", "the sender lock of "+s.name+" is held although nothing is running ("+where+")", d.log.Tail(30))
		}
	}
	if atomic.LoadInt32(&d.closing) != 0 {
		return true
	}
	// conservation: wire log vs exporter's table vs importer's table
	for i, s := range d.sides {
		o := d.sides[1-i]
		want := wire.exports[s.name]
		ids := map[uint32]int{}
		for id, n := range want {
			if n != 0 {
				ids[id] = 1
			}
		}
		for id := range snaps[i].ExportRefs {
			ids[id] = 1
		}
		for id := range snaps[1-i].ImportRefs {
			ids[id] = 1
		}
		for _, id := range sortedKeysU32(ids) {
			w, ex, im := want[id], int(snaps[i].ExportRefs[id]), snaps[1-i].ImportRefs[id]
			d.cnt["export_counts_checked"]++
			if ex != w {
				cause := "conn-counts-less"
				if ex > w {
					cause = "conn-counts-more"
				}
				d.violate("C07/export-count-mismatch/"+cause, fmt.Sprintf("%s export %d: table says %d references, wire history gives %d (%s)", s.name, id, ex, w, where), d.log.Tail(40))
			}
			if im != w {
				d.violate("C07/import-count-mismatch", fmt.Sprintf("%s import %d (export of %s): table says %d received references, wire history gives %d (%s)", o.name, id, s.name, im, w, where), d.log.Tail(40))
			}
		}
	}
	if final {
		for i, s := range d.sides {
			st := snaps[i]
			if st.Questions != 0 || st.Answers != 0 || st.Embargoes != 0 {
				d.violate("C06/table-residue", fmt.Sprintf("%s: questions=%d answers=%d embargoes=%d after everything was finished (%s)", s.name, st.Questions, st.Answers, st.Embargoes, where), d.log.Tail(40))
			}
			if len(st.ExportRefs) != 0 || len(st.ImportRefs) != 0 {
				d.violate("C07/refs-left-after-release", fmt.Sprintf("%s: exports=%v imports=%v after every reference was released (%s)", s.name, st.ExportRefs, st.ImportRefs, where), d.log.Tail(40))
			}
		}
		for _, v := range wire.openQuestions() {
			d.violate("C06/return-missing", v, d.log.Tail(40))
		}
	}
	return true
}

var wireSeen = map[string]bool{}

func (d *duo) wireReported(k string) bool {
	key := fmt.Sprintf("%d/%s", d.idx, k)
	if wireSeen[key] {
		return true
	}
	wireSeen[key] = true
	return false
}

func (d *duo) checkOrder() {
	for _, lc := range d.w.Caps() {
		last := map[uint32]uint32{}
		for _, uid := range lc.StartedCopy() {
			o := d.w.Obs(uid)
			if o == nil {
				continue
			}
			if l, ok := last[o.Stream]; ok && o.Seq <= l {
				if !d.wireReported(fmt.Sprintf("order%x", uid)) {
					sig := "C06/order/duo"
					if sentAfterReturnReceived(d.log.Snapshot(), uid) {
						sig = "C06/order/embargo/call-sent-after-return-received"
					}
					d.violate(sig, fmt.Sprintf("capability #%d (%s) observed stream %d seq %d (uid %x) after seq %d", lc.N, lc.Who, o.Stream, o.Seq, uid, l), d.log.Tail(60))
				}
			}
			last[o.Stream] = o.Seq
		}
		d.cnt["order_checked_calls"] = 0
	}
	n := int64(0)
	for _, lc := range d.w.Caps() {
		n += int64(len(lc.StartedCopy()))
	}
	d.cnt["order_checked_calls"] = n
}

func (d *duo) finish() {
	// every worker resolves and releases what it holds
	var left int32 = int32(len(d.workers))
	for _, wk := range d.workers {
		wk := wk
		go func() {
			defer atomic.AddInt32(&left, -1)
			if p := common.Guard(wk.finishAll); p != nil {
				wk.viols = append(wk.viols, [3]string{"panic/" + common.TopLibFrame(p.Stack), "panic in worker: " + p.Value, p.Stack})
			}
		}()
	}
	if !d.await("workers finishing", func() bool { return atomic.LoadInt32(&left) == 0 }) {
		return
	}
	d.flushWorkerViolations()
	d.w.ReleaseAll()
	// plan-owned references
	for _, h := range d.w.LiveHandles() {
		if h.Plan != 0 {
			if o := d.w.Obs(h.Plan); o != nil && !o.Done {
				continue
			}
			d.w.MarkConsumed(h.Plan)
			hh := h
			d.do("release "+h.Label, func() { d.w.ReleaseHandle(hh) })
		}
	}
	if atomic.LoadInt32(&d.closing) == 0 {
		if !d.quiesceAndCheck("everything finished and released", true) {
			return
		}
		// non-bootstrap capabilities lose their last reference now
		for _, s := range d.sides {
			for n, h := range s.base {
				if n != s.boot.N {
					hh := h
					d.do("release "+h.Label, func() { d.w.ReleaseHandle(hh) })
				}
			}
		}
		if !d.quiesceAndCheck("base references released", true) {
			return
		}
		for _, s := range d.sides {
			for _, lc := range s.locals {
				n, _ := lc.Shutdowns()
				if lc != s.boot && n != 1 {
					d.violate("C07/shutdown-missing/export", fmt.Sprintf("capability #%d of %s has no reference left but was shut down %d times", lc.N, s.name, n), d.log.Tail(40))
				}
				if lc == s.boot && n != 0 {
					d.violate("C07/shutdown-while-held/bootstrap", fmt.Sprintf("bootstrap capability of %s was shut down before Close", s.name), d.log.Tail(40))
				}
			}
		}
	}
	for _, s := range d.sides {
		if atomic.CompareAndSwapInt32(&s.closed, 0, 1) {
			ss := s
			d.do("Close "+s.name, func() { ss.conn.Close() })
			d.cnt["closes"]++
		}
	}
	for _, h := range d.w.LiveHandles() {
		if h.Plan != 0 {
			d.w.MarkConsumed(h.Plan)
		}
		hh := h
		d.do("release "+h.Label, func() { d.w.ReleaseHandle(hh) })
	}
	if !d.quiesceAndCheck("after Close", false) {
		return
	}
	for _, s := range d.sides {
		st := s.conn.VerifSnapshot()
		if !st.ShutdownDone {
			d.violate("C06/close-incomplete", "Close of "+s.name+" returned but Done() is not closed", d.log.Tail(20))
		}
		if st.Locked && (st.Questions != 0 || st.Answers != 0 || st.Embargoes != 0 || len(st.ExportRefs) != 0 || len(st.ImportRefs) != 0) {
			d.violate("C07/leak-after-close/tables", fmt.Sprintf("%s: tables not empty after Close: %+v", s.name, st), d.log.Tail(20))
		}
		if n := s.tap.LiveMsgs(); n != 0 {
			d.violate("C07/leak-after-close/messages", fmt.Sprintf("%s: %d transport messages were never released", s.name, n), d.log.Tail(20))
		}
		for _, lc := range s.locals {
			n, _ := lc.Shutdowns()
			d.cnt["shutdown_checks"]++
			if n != 1 {
				what := "export"
				if lc == s.boot {
					what = "bootstrap"
				}
				d.violate("C07/leak-after-close/"+what, fmt.Sprintf("capability #%d of %s was shut down %d times after Close and release of every reference", lc.N, s.name, n), d.log.Tail(40))
			}
		}
	}
	for _, msg := range collectLeaks() {
		d.cnt["leakfunc_reports"]++
		d.violate("C07/leak-after-close/leakfunc", "SetClientLeakFunc: "+msg, d.log.Tail(20))
	}
}
