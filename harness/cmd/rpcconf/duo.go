package main

import "capnproto.org/go/capnp/v3/zverif/common"

func runDuo(e *env, rng *common.RNG) {
	e.rec.Case(e.idx, "duo (not yet implemented)")
}
