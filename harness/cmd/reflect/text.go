package main

// C20: text rendering is well formed, faithful, history independent.

import (
	"bytes"
	"fmt"

	"capnproto.org/go/capnp/v3"
	"capnproto.org/go/capnp/v3/encoding/text"
	air "capnproto.org/go/capnp/v3/internal/aircraftlib"
	"capnproto.org/go/capnp/v3/zverif/common"
)

type textRun struct {
	rec *common.Recorder
	cfg *common.Config
}

// checkRendered parses out with the blind reference parser and compares the
// recovered tree with the accessor view v.  entry names the API that produced
// out; shape names the schema type.  Returns true when everything agreed.
func (t *textRun) checkRendered(idx uint64, entry, shapeName, out string, v *V, input interface{}) bool {
	rec := t.rec
	root, pr, perr := parseText([]byte(out))
	var mm *tmismatch
	tc := newTcmp()
	if perr == nil {
		mm = tc.cmp(shapeName, root, v)
	}
	if perr == nil && mm == nil {
		for k, n := range tc.leaves {
			rec.Count("leaf_"+k, int64(n))
		}
		rec.Count("float_nan_rendered", int64(tc.nan))
		rec.Count("enum_out_of_range_rendered", int64(tc.enumOOR))
		return true
	}
	want := collectStrings(v, nil)
	cls := diagnose([]byte(out), pr, want)
	detail := fmt.Sprintf("entry=%s shape=%s\noutput: %s\naccessors: %s\n", entry, shapeName, truncS(out, 1500), truncS(v.shortString(), 1500))
	if perr != nil {
		detail += "reference parser: " + perr.Error() + "\n"
	} else {
		detail += fmt.Sprintf("mismatch at %s: %s\n", mm.path, mm.msg)
	}
	var sig, what string
	switch {
	case cls != "":
		sig = "text/" + cls + "/" + entry
		what = fmt.Sprintf("%s output has a string literal that does not denote the field's bytes (%s)", entry, cls)
	case perr != nil:
		sig = "text/parse-error/" + entry + "/" + shapeName
		what = fmt.Sprintf("%s output of %s is not well-formed text: %s", entry, shapeName, perr.msg)
	default:
		sig = "text/value-mismatch/" + mm.kind + "/" + entry
		what = fmt.Sprintf("%s output of %s shows a different value than the generated accessors at %s: %s", entry, shapeName, mm.path, mm.msg)
	}
	rec.Violate(sig, what, idx, detail, input)
	return false
}

func truncS(s string, n int) string {
	if len(s) > n {
		return s[:n] + "…"
	}
	return s
}

func (t *textRun) countBuild(b *bctx) {
	rec := t.rec
	for m, n := range b.members {
		rec.Count("zmember_"+m, int64(n))
	}
	for c := 0; c < nCls; c++ {
		if b.clsMask&(1<<uint(c)) != 0 {
			rec.Count("cls_"+clsNames[c], 1)
		}
	}
	rec.Count("strings_built", int64(b.nStrings))
	rec.Count("long_strings", int64(b.longStr))
	rec.Count("nested_lists", int64(b.nestedLst))
	rec.Count("resized_short", int64(b.nShort))
	rec.Count("resized_long", int64(b.nLong))
	rec.Count("stale_union_bytes", int64(b.nStale))
}

func msgBytes(msg *capnp.Message) []byte {
	seg, err := msg.Segment(0)
	if err != nil {
		return nil
	}
	return seg.Data()
}

// ---------------------------------------------------------------------------
// mode values: random messages of every shape.

func (t *textRun) runValues(i uint64, rng *common.RNG) {
	rec := t.rec
	sh := pickShape(rng.Uint64())
	b := newBctx(rng.Fork())
	b.resize = true
	b.stale = true
	b.noCaps = true
	b.maxStr = rng.PickInt(6, 12, 40)
	b.maxLen = rng.PickInt(3, 6, 9)
	var s capnp.Struct
	var v *V
	vc := &vctx{}
	if p := common.Guard(func() {
		s = sh.build(b)
		v = sh.view(vc, s)
	}); p != nil {
		rec.Inconclusive("harness builder/view panicked: " + p.Value)
		rec.Logf("%s", p.Stack)
		return
	}
	if len(b.errs) > 0 || len(vc.errs) > 0 {
		rec.Inconclusive(fmt.Sprintf("harness could not build/view %s: %v %v", sh.name, b.errs, vc.errs))
		return
	}
	input := map[string]interface{}{"shape": sh.name, "segment": common.Hex(msgBytes(b.msg)), "struct_size": fmt.Sprint(s.Size())}
	rec.Count("shape_"+sh.name, 1)
	t.countBuild(b)
	rec.Distinct(common.Hash64([]byte(sh.name), msgBytes(b.msg)))

	var out1, out2, outS string
	var err1, err2 error
	if p := common.Guard(func() {
		out1, err1 = text.Marshal(sh.typeID, s)
		out2, err2 = text.Marshal(sh.typeID, s)
		outS = sh.str(s)
	}); p != nil {
		rec.Violate("panic/text.Marshal/"+common.TopLibFrame(p.Stack), "text.Marshal panicked on a well-formed "+sh.name+": "+p.Value, i, p.Stack, input)
		return
	}
	if err1 != nil || err2 != nil {
		rec.Violate("text/error/Marshal/"+sh.name, fmt.Sprintf("text.Marshal failed on a well-formed %s: %v %v", sh.name, err1, err2), i, "", input)
		return
	}
	if out1 != out2 {
		rec.Violate("text/nondeterministic/Marshal/"+sh.name, "two text.Marshal calls on the same struct differ", i, out1+"\n"+out2, input)
		return
	}
	if outS != out1 {
		rec.Violate("text/string-method-differs/"+sh.name, "generated String() differs from text.Marshal", i, out1+"\n"+outS, input)
		return
	}
	rec.Count("rendered_bytes", int64(len(out1)))
	if t.checkRendered(i, "Marshal", sh.name, out1, v, input) {
		rec.Count("structs_checked", 1)
		if rec.WantSample() {
			rec.Sample(map[string]string{"shape": sh.name, "text": truncS(out1, 300)})
		}
	}

	// MarshalList / generated List.String() on a composite list of Z.
	if sh.name == "Z" && rng.Chance(1, 4) {
		var l air.Z_List
		var lv *V
		if p := common.Guard(func() {
			l = b.newZList(1)
			lv = viewZList(vc, l)
		}); p != nil || len(b.errs) > 0 || len(vc.errs) > 0 {
			rec.Inconclusive("harness could not build Z list")
			return
		}
		var lo, ls string
		var lerr error
		if p := common.Guard(func() {
			lo, lerr = text.MarshalList(air.Z_TypeID, l.List)
			ls = l.String()
		}); p != nil {
			rec.Violate("panic/text.MarshalList/"+common.TopLibFrame(p.Stack), "text.MarshalList panicked: "+p.Value, i, p.Stack, input)
			return
		}
		linput := map[string]interface{}{"shape": "List(Z)", "segment": common.Hex(msgBytes(b.msg))}
		if lerr != nil {
			rec.Violate("text/error/MarshalList/Z", fmt.Sprintf("text.MarshalList failed: %v", lerr), i, "", linput)
			return
		}
		if lo != ls {
			rec.Violate("text/string-method-differs/Z_List", "Z_List.String() differs from text.MarshalList", i, lo+"\n"+ls, linput)
			return
		}
		if t.checkRendered(i, "MarshalList", "List(Z)", lo, lv, linput) {
			rec.Count("lists_checked", 1)
		}
	}
}

// ---------------------------------------------------------------------------
// mode strings: Text / Data literals through every entry point that quotes.

// stringCase returns the byte strings of case i: the first 256 cases are the
// single bytes, the next 1024 all pairs of 32 interesting bytes, the rest
// random.
var pairBytes = []byte{'"', '\\', '\'', 0, 0x7f, 0x80, 0xff, '\n', '\t', '\r', '\a', '\b', '\f', '\v', 0x01, 0x1f,
	'a', 'x', '0', '7', 'n', ' ', '(', ')', ',', '=', '[', ']', '?', 0xc3, 0xa9, '9'}

func stringCase(i uint64, rng *common.RNG) [][]byte {
	switch {
	case i < 256:
		return [][]byte{{byte(i)}, {'a', byte(i), 'b'}}
	case i < 256+1024:
		k := i - 256
		a, b := pairBytes[k/32], pairBytes[k%32]
		return [][]byte{{a, b}, {a, b, a}}
	}
	n := rng.Range(1, 4)
	out := make([][]byte, n)
	for j := range out {
		max := rng.PickInt(4, 16, 64, 300)
		if rng.Chance(1, 60) {
			max = 4000
		}
		out[j] = genBytes(rng, max)
	}
	return out
}

func (t *textRun) runStrings(i uint64, rng *common.RNG) {
	rec := t.rec
	strs := stringCase(i, rng)
	var all []byte
	var mask uint
	for _, s := range strs {
		all = append(all, s...)
		all = append(all, 0xff, 0x00, 0xff)
		mask |= classMask(s)
		if len(s) > 1000 {
			rec.Count("long_strings", 1)
		}
	}
	for c := 0; c < nCls; c++ {
		if mask&(1<<uint(c)) != 0 {
			rec.Count("cls_"+clsNames[c], 1)
		}
	}
	rec.Count("strings_built", int64(len(strs)))
	rec.Distinct(common.Hash64([]byte("strings"), all))
	hexes := make([]string, len(strs))
	for j, s := range strs {
		hexes[j] = common.Hex(s)
	}
	input := map[string]interface{}{"strings_hex": hexes}

	msg, seg, err := capnp.NewMessage(capnp.SingleSegment(nil))
	if err != nil {
		rec.Inconclusive("NewMessage: " + err.Error())
		return
	}
	_ = msg
	vc := &vctx{}
	fail := func(what string, e error) bool {
		if e != nil {
			rec.Inconclusive("harness: " + what + ": " + e.Error())
			return true
		}
		return false
	}

	// (a) Z.text, (b) Z.blob through Marshal
	{
		z, err := air.NewZ(seg)
		if fail("NewZ", err) {
			return
		}
		if fail("SetText", z.SetText(string(strs[0]))) {
			return
		}
		t.renderStruct(i, "Marshal", "Z", air.Z_TypeID, z.Struct, viewZ(vc, z), input)
		z2, _ := air.NewZ(seg)
		if fail("SetBlob", z2.SetBlob(strs[0])) {
			return
		}
		t.renderStruct(i, "Marshal", "Z", air.Z_TypeID, z2.Struct, viewZ(vc, z2), input)
	}
	// (c) HoldsText: txt, lst, lstlst
	{
		h, err := air.NewHoldsText(seg)
		if fail("NewHoldsText", err) {
			return
		}
		fail("SetTxt", h.SetTxt(string(strs[0])))
		l, err := h.NewLst(int32(len(strs)))
		fail("NewLst", err)
		for j, s := range strs {
			fail("lst.Set", l.Set(j, string(s)))
		}
		ll, err := h.NewLstlst(2)
		fail("NewLstlst", err)
		inner, err := capnp.NewTextList(seg, int32(len(strs)))
		fail("NewTextList", err)
		for j, s := range strs {
			fail("inner.Set", inner.Set(len(strs)-1-j, string(s)))
		}
		fail("ll.Set", ll.Set(1, inner.ToPtr()))
		t.renderStruct(i, "Marshal", "HoldsText", air.HoldsText_TypeID, h.Struct, viewHoldsText(vc, h), input)

		// (d) TextList.String() directly
		var ts string
		if p := common.Guard(func() { ts = l.String() }); p != nil {
			rec.Violate("panic/TextList.String/"+common.TopLibFrame(p.Stack), "TextList.String panicked: "+p.Value, i, p.Stack, input)
		} else if t.checkRendered(i, "TextList.String", "List(Text)", ts, viewTextList(vc, "lst", l), input) {
			rec.Count("textlist_string_checked", 1)
		}
	}
	// (e) DataList.String() and Z.datavec
	{
		z, _ := air.NewZ(seg)
		dl, err := z.NewDatavec(int32(len(strs)))
		fail("NewDatavec", err)
		for j, s := range strs {
			fail("dl.Set", dl.Set(j, s))
		}
		t.renderStruct(i, "Marshal", "Z", air.Z_TypeID, z.Struct, viewZ(vc, z), input)
		var ds string
		if p := common.Guard(func() { ds = dl.String() }); p != nil {
			rec.Violate("panic/DataList.String/"+common.TopLibFrame(p.Stack), "DataList.String panicked: "+p.Value, i, p.Stack, input)
		} else if t.checkRendered(i, "DataList.String", "List(Data)", ds, viewDataList(vc, "datavec", dl), input) {
			rec.Count("datalist_string_checked", 1)
		}
	}
	// (f) Defaults.text / data (fields with non-empty defaults)
	{
		d, err := air.NewDefaults(seg)
		if fail("NewDefaults", err) {
			return
		}
		fail("SetText", d.SetText(string(strs[0])))
		fail("SetData", d.SetData(strs[len(strs)-1]))
		t.renderStruct(i, "Marshal", "Defaults", air.Defaults_TypeID, d.Struct, viewDefaults(vc, d), input)
	}
	// (g) PlaneBase.name via Encoder.Encode
	{
		pb, err := air.NewPlaneBase(seg)
		if fail("NewPlaneBase", err) {
			return
		}
		fail("SetName", pb.SetName(string(strs[0])))
		var buf bytes.Buffer
		var eerr error
		if p := common.Guard(func() { eerr = text.NewEncoder(&buf).Encode(air.PlaneBase_TypeID, pb.Struct) }); p != nil {
			rec.Violate("panic/Encoder.Encode/"+common.TopLibFrame(p.Stack), "Encoder.Encode panicked: "+p.Value, i, p.Stack, input)
		} else if eerr != nil {
			rec.Violate("text/error/Encoder.Encode/PlaneBase", "Encoder.Encode failed: "+eerr.Error(), i, "", input)
		} else if t.checkRendered(i, "Encoder.Encode", "PlaneBase", buf.String(), viewPlaneBase(vc, pb), input) {
			rec.Count("structs_checked", 1)
		}
	}
	if len(vc.errs) > 0 {
		rec.Inconclusive(fmt.Sprintf("accessor errors on harness-built message: %v", vc.errs))
	}
}

func (t *textRun) renderStruct(i uint64, entry, shapeName string, typeID uint64, s capnp.Struct, v *V, input interface{}) {
	rec := t.rec
	var out string
	var err error
	if p := common.Guard(func() { out, err = text.Marshal(typeID, s) }); p != nil {
		rec.Violate("panic/text.Marshal/"+common.TopLibFrame(p.Stack), "text.Marshal panicked: "+p.Value, i, p.Stack, input)
		return
	}
	if err != nil {
		rec.Violate("text/error/Marshal/"+shapeName, "text.Marshal failed: "+err.Error(), i, "", input)
		return
	}
	if t.checkRendered(i, entry, shapeName, out, v, input) {
		rec.Count("structs_checked", 1)
	}
}

// ---------------------------------------------------------------------------
// mode history: one long-lived Encoder against fresh encoders.
//
// Case i chooses a shape set; the encoder renders n values (n is a constant of
// the tier, passed in -extra): a fixed "probe" value every other call and a
// rotating set of other values in between.  Every output is compared with the
// output of a fresh encoder (text.Marshal) for the same struct.  The data
// messages' own read budgets are reset before every call so that only the
// encoder's history can make a difference.

type histValue struct {
	shape *shape
	msg   *capnp.Message
	s     capnp.Struct
	fresh string
}

func (t *textRun) histN() int {
	n := 50000
	if t.cfg.Extra != "" {
		fmt.Sscanf(t.cfg.Extra, "%d", &n)
	}
	return n
}

// The first entry of every set is the probe (rendered on every other call):
// an 8-element zvec of Zdate-bearing Z's, the shape of the probe in DESIGN §4
// #9; each rendering walks the 49-field Z node nine times, so the cached
// schema message's 64 MiB budget is used up about every 2.4 k calls.
var histShapes = [][]string{
	{"Z.zvec"},
	{"Z.zvec", "PlaneBase", "Regression", "Z"}, // enums (second node kind) + nested lists
	{"Z.zvec", "Defaults", "HoldsText", "VerTwoTwoPlus", "Counter"},
}

func (t *textRun) buildHist(name string, rng *common.RNG) (*histValue, error) {
	b := newBctx(rng.Fork())
	b.noCaps = true
	b.maxStr = 8
	var s capnp.Struct
	var sh *shape
	if name == "Z.zvec" {
		sh = shapeByName("Z")
		z, err := air.NewZ(b.seg)
		if err != nil {
			return nil, err
		}
		l, err := z.NewZvec(8)
		if err != nil {
			return nil, err
		}
		for j := 0; j < 8; j++ {
			d, err := l.At(j).NewZdate()
			if err != nil {
				return nil, err
			}
			d.SetYear(int16(2000 + j))
			d.SetMonth(uint8(1 + j))
			d.SetDay(uint8(rng.Range(1, 28)))
		}
		s = z.Struct
	} else {
		sh = shapeByName(name)
		if sh == nil {
			return nil, fmt.Errorf("no shape %s", name)
		}
		s = sh.build(b)
	}
	if len(b.errs) > 0 {
		return nil, fmt.Errorf("build %s: %v", name, b.errs)
	}
	fresh, err := text.Marshal(sh.typeID, s)
	if err != nil {
		return nil, fmt.Errorf("fresh Marshal %s: %v", name, err)
	}
	return &histValue{shape: sh, msg: b.msg, s: s, fresh: fresh}, nil
}

func (t *textRun) runHistory(i uint64, rng *common.RNG) {
	rec := t.rec
	n := t.histN()
	set := histShapes[int(i)%len(histShapes)]
	label := set[len(set)-1]
	var vals []*histValue
	var probe *histValue
	for k, name := range set {
		for rep := 0; rep < 3; rep++ {
			hv, err := t.buildHist(name, rng)
			if err != nil {
				rec.Inconclusive("harness: " + err.Error())
				return
			}
			// the fresh rendering itself is checked by the parser once
			vc := &vctx{}
			v := hv.shape.view(vc, hv.s)
			if !t.checkRendered(i, "Marshal", hv.shape.name, hv.fresh, v, map[string]string{"shape": name}) {
				return
			}
			if k == 0 && rep == 0 {
				probe = hv
			}
			vals = append(vals, hv)
		}
	}
	rec.Distinct(common.Hash64([]byte("history"), []byte(label), msgBytes(probe.msg)))
	// Struct lists for EncodeList, rendered by the same long-lived encoder
	// every 16th call: one list per shape of the set plus a Zdate and a
	// PlaneBase list, so that consecutive EncodeList calls always change the
	// element type (see textlists.go).
	var hlists []*listValue
	for _, name := range append(append([]string{}, set...), "Zdate", "PlaneBase") {
		if name == "Z.zvec" {
			name = "Z"
		}
		lv, ok := t.buildListValue(i, shapeByName(name), rng, 3, false)
		if !ok {
			return
		}
		hlists = append(hlists, lv)
	}
	prevList := ""
	var buf bytes.Buffer
	enc := text.NewEncoder(&buf)
	input := map[string]interface{}{"shapes": set, "n": n, "probe_segment": common.Hex(msgBytes(probe.msg))}
	diverged := false
	for k := 0; k < n && !diverged; k++ {
		if k%16 == 15 {
			lv := hlists[(k/16)%len(hlists)]
			if !t.encodeListStep(i, enc, &buf, lv, prevList, k+1, []string{fmt.Sprintf("long history of Encode calls, shapes %v", set)}) {
				rec.Max("max_history_len", int64(k+1))
				rec.Count("history_runs", 1)
				return
			}
			prevList = lv.base
			rec.Count("history_list_encodes", 1)
		}
		hv := probe
		if k%2 == 1 {
			hv = vals[(k/2)%len(vals)]
		}
		hv.msg.ResetReadLimit(64 << 20)
		buf.Reset()
		var err error
		if p := common.Guard(func() { err = enc.Encode(hv.shape.typeID, hv.s) }); p != nil {
			rec.Violate("panic/Encoder.Encode/"+common.TopLibFrame(p.Stack), fmt.Sprintf("Encoder.Encode panicked on call %d: %s", k+1, p.Value), i, p.Stack, input)
			return
		}
		rec.Count("history_encodes", 1)
		if err != nil {
			rec.Violate("text/history-error/"+label, fmt.Sprintf("call %d of Encode on one Encoder failed (%v) although a fresh encoder renders the same struct", k+1, err), i,
				fmt.Sprintf("shape=%s call=%d error=%v", hv.shape.name, k+1, err), input)
			rec.Max("max_history_len", int64(k+1))
			return
		}
		if buf.String() != hv.fresh {
			rec.Violate("text/history-divergence/"+label, fmt.Sprintf("call %d of Encode on one Encoder silently rendered different text than a fresh encoder for the same struct", k+1), i,
				fmt.Sprintf("shape=%s call=%d\nlong-used: %s\nfresh:     %s", hv.shape.name, k+1, truncS(buf.String(), 800), truncS(hv.fresh, 800)), input)
			diverged = true
		}
		// every 4096 calls re-render on a really fresh encoder as well, so
		// that "fresh" is not only the rendering made before the history began
		if k%4096 == 4095 {
			hv.msg.ResetReadLimit(64 << 20)
			f2, err := text.Marshal(hv.shape.typeID, hv.s)
			if err != nil || f2 != hv.fresh {
				rec.Violate("text/nondeterministic/Marshal/"+hv.shape.name, "a fresh encoder rendered the same struct differently later in the process", i, fmt.Sprintf("err=%v\n%s\n%s", err, f2, hv.fresh), input)
				return
			}
			rec.Count("history_fresh_recheck", 1)
		}
		rec.Max("max_history_len", int64(k+1))
	}
	if !diverged {
		rec.Count("history_runs_clean", 1)
	}
	rec.Count("history_runs", 1)
}
