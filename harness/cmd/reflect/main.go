// reflect: driver for C19 (pogs) and C20 (encoding/text).
//
//	C19 modes: values, messages, embed, prefilled, history
//	C20 modes: values, strings, history, registry, lists
//
// See NOTES.md.
package main

import (
	"fmt"
	"os"

	"capnproto.org/go/capnp/v3/zverif/common"
)

func main() {
	cfg := common.ParseFlags()
	rec := common.NewRecorder(cfg)
	tr := &textRun{rec: rec, cfg: cfg}
	pr := &pogsRun{rec: rec, cfg: cfg}
	for i := cfg.Start; i < cfg.Start+cfg.Count; i++ {
		rng := common.NewRNG(common.CaseSeed(cfg.Seed, cfg.Prop+"/"+cfg.Mode, i))
		key := cfg.Prop + "/" + cfg.Mode
		rec.Case(i, key)
		switch key {
		case "C20/values":
			tr.runValues(i, rng)
		case "C20/strings":
			tr.runStrings(i, rng)
		case "C20/history":
			tr.runHistory(i, rng)
		case "C20/lists":
			tr.runLists(i, rng)
		case "C19/values":
			pr.runValues(i, rng)
		case "C19/messages":
			pr.runMessages(i, rng)
		case "C19/embed":
			pr.runEmbed(i, rng)
		case "C19/prefilled":
			pr.runPrefilled(i, rng)
		case "C20/registry":
			tr.runRegistry(i, rng)
		case "C19/history":
			pr.runHistory(i, rng)
		default:
			rec.Inconclusive("unknown prop/mode " + key)
		}
	}
	rec.Finish()
	fmt.Fprintln(os.Stderr, "done")
	os.Exit(0)
}
