package main

// C20 mode registry: one Encoder whose registry is switched, after use, back
// and forth between two registries that describe the SAME type IDs
// differently.  "The output depends only on the struct and schema": every
// rendering must equal that of a fresh encoder using the registry that is
// current at that moment.
//
// The second registry ("v2") is derived from the compiled-in aircraft schema
// at run time: the CodeGeneratorRequest is copied and, in place, the last
// byte of every field name, every enumerant name and every non-empty Text
// default is replaced by 'Q' (same lengths, so the message stays well formed).

import (
	"bytes"
	"fmt"
	"sync"

	"capnproto.org/go/capnp/v3"
	"capnproto.org/go/capnp/v3/encoding/text"
	air "capnproto.org/go/capnp/v3/internal/aircraftlib"
	"capnproto.org/go/capnp/v3/schemas"
	"capnproto.org/go/capnp/v3/std/capnp/schema"
	"capnproto.org/go/capnp/v3/zverif/common"
)

var (
	v2Once sync.Once
	v2Reg  *schemas.Registry
	v2Err  error
	v2Ren  int
)

func patchLast(b []byte) {
	if len(b) > 0 {
		b[len(b)-1] = 'Q'
		v2Ren++
	}
}

func buildV2Registry() (*schemas.Registry, error) {
	v2Once.Do(func() {
		orig, err := schemas.DefaultRegistry.Find(air.Zdate_TypeID)
		if err != nil {
			v2Err = err
			return
		}
		data := append([]byte(nil), orig...)
		msg, err := capnp.Unmarshal(data)
		if err != nil {
			v2Err = err
			return
		}
		msg.ResetReadLimit(1 << 40)
		req, err := schema.ReadRootCodeGeneratorRequest(msg)
		if err != nil {
			v2Err = err
			return
		}
		nodes, err := req.Nodes()
		if err != nil {
			v2Err = err
			return
		}
		var ids []uint64
		for i := 0; i < nodes.Len(); i++ {
			n := nodes.At(i)
			if n.Id() == 0 {
				continue // blank padding nodes in the stored request
			}
			ids = append(ids, n.Id())
			switch n.Which() {
			case schema.Node_Which_structNode:
				fs, err := n.StructNode().Fields()
				if err != nil {
					v2Err = err
					return
				}
				for j := 0; j < fs.Len(); j++ {
					f := fs.At(j)
					nb, _ := f.NameBytes()
					patchLast(nb)
					if f.Which() == schema.Field_Which_slot {
						dv, _ := f.Slot().DefaultValue()
						if dv.IsValid() && dv.Which() == schema.Value_Which_text {
							tb, _ := dv.TextBytes()
							patchLast(tb)
						}
					}
				}
			case schema.Node_Which_enum:
				es, err := n.Enum().Enumerants()
				if err != nil {
					v2Err = err
					return
				}
				for j := 0; j < es.Len(); j++ {
					nb, _ := es.At(j).NameBytes()
					patchLast(nb)
				}
			}
		}
		out, err := msg.Marshal()
		if err != nil {
			v2Err = err
			return
		}
		reg := new(schemas.Registry)
		if err := reg.Register(&schemas.Schema{Bytes: out, Nodes: ids}); err != nil {
			v2Err = err
			return
		}
		v2Reg = reg
	})
	return v2Reg, v2Err
}

type regValue struct {
	shape *shape
	msg   *capnp.Message
	s     capnp.Struct
	fresh [2]string // rendering by a fresh encoder under registry 0 (default) / 1 (v2)
}

func freshRender(reg *schemas.Registry, typeID uint64, s capnp.Struct) (string, error) {
	var buf bytes.Buffer
	enc := text.NewEncoder(&buf)
	enc.UseRegistry(reg)
	err := enc.Encode(typeID, s)
	return buf.String(), err
}

func (t *textRun) runRegistry(i uint64, rng *common.RNG) {
	rec := t.rec
	n := 400
	if t.cfg.Extra != "" {
		fmt.Sscanf(t.cfg.Extra, "%d", &n)
	}
	reg2, err := buildV2Registry()
	if err != nil {
		rec.Inconclusive("harness: cannot derive the second registry: " + err.Error())
		return
	}
	regs := [2]*schemas.Registry{&schemas.DefaultRegistry, reg2}
	names := []string{"Zdate", "PlaneBase", "Z", "Defaults", "Regression", "Counter", "Aircraft", "VerTwoTwoPlus", "StackingRoot", "HoldsText"}
	var vals []*regValue
	differ := 0
	for k := 0; k < 6; k++ {
		name := names[rng.Intn(len(names))]
		if k == 0 {
			name = []string{"Zdate", "PlaneBase", "Defaults"}[int(i)%3]
		}
		sh := shapeByName(name)
		b := newBctx(rng.Fork())
		b.noCaps = true
		b.maxStr = 8
		b.maxLen = 3
		var s capnp.Struct
		if pn := common.Guard(func() { s = sh.build(b) }); pn != nil || len(b.errs) > 0 {
			rec.Inconclusive("harness: cannot build " + name)
			return
		}
		rv := &regValue{shape: sh, msg: b.msg, s: s}
		for r := 0; r < 2; r++ {
			b.msg.ResetReadLimit(64 << 20)
			var ferr error
			if pn := common.Guard(func() { rv.fresh[r], ferr = freshRender(regs[r], sh.typeID, s) }); pn != nil {
				rec.Violate("panic/Encoder.Encode/"+common.TopLibFrame(pn.Stack), "fresh Encoder with UseRegistry panicked: "+pn.Value, i, pn.Stack, map[string]string{"shape": name})
				return
			}
			if ferr != nil {
				rec.Violate("text/error/Encoder.Encode/UseRegistry/"+name, fmt.Sprintf("a fresh encoder using registry %d fails: %v", r, ferr), i, "", map[string]string{"shape": name})
				return
			}
		}
		if rv.fresh[0] != rv.fresh[1] {
			differ++
		}
		vals = append(vals, rv)
	}
	rec.Count("registry_values_rendering_differently", int64(differ))
	if differ == 0 {
		rec.Inconclusive("harness: the two registries render every chosen value identically")
		return
	}
	// the default-registry rendering is also checked against the accessors once
	vc := &vctx{}
	if !t.checkRendered(i, "Encoder.Encode", vals[0].shape.name, vals[0].fresh[0], vals[0].shape.view(vc, vals[0].s), map[string]string{"shape": vals[0].shape.name}) {
		return
	}
	rec.Distinct(common.Hash64([]byte("registry"), msgBytes(vals[0].msg), []byte(vals[0].fresh[1])))

	var buf bytes.Buffer
	enc := text.NewEncoder(&buf)
	cur := 0 // registry in use (a fresh encoder uses the default registry)
	if rng.Bool() {
		cur = 1
		enc.UseRegistry(regs[1])
	}
	var script []string
	switches, afterUse := 0, 0
	used := false
	for k := 0; k < n; k++ {
		if rng.Chance(1, 3) {
			if rng.Chance(4, 5) {
				cur = 1 - cur
			}
			enc.UseRegistry(regs[cur]) // sometimes re-selects the current one
			switches++
			if used {
				afterUse++
			}
			script = append(script, fmt.Sprintf("UseRegistry(%d)", cur))
		}
		rv := vals[rng.Intn(len(vals))]
		rv.msg.ResetReadLimit(64 << 20)
		buf.Reset()
		var eerr error
		if pn := common.Guard(func() { eerr = enc.Encode(rv.shape.typeID, rv.s) }); pn != nil {
			rec.Violate("panic/Encoder.Encode/"+common.TopLibFrame(pn.Stack), "Encoder.Encode after UseRegistry panicked: "+pn.Value, i, pn.Stack, map[string]interface{}{"script": script})
			return
		}
		used = true
		script = append(script, "Encode("+rv.shape.name+")")
		if len(script) > 60 {
			script = script[len(script)-60:]
		}
		rec.Count("registry_encodes", 1)
		if eerr != nil || buf.String() != rv.fresh[cur] {
			rec.Violate("text/registry-switch-divergence/"+rv.shape.name,
				fmt.Sprintf("an Encoder that was switched to another registry after use renders %s differently from a fresh encoder using that registry (step %d, err=%v)", rv.shape.name, k+1, eerr), i,
				fmt.Sprintf("current registry: %d\nlong-used: %s\nfresh:     %s\nother reg: %s\nlast steps: %v", cur, truncS(buf.String(), 600), truncS(rv.fresh[cur], 600), truncS(rv.fresh[1-cur], 600), script),
				map[string]interface{}{"shape": rv.shape.name, "segment": common.Hex(msgBytes(rv.msg)), "script_tail": script})
			return
		}
	}
	rec.Count("registry_switches", int64(switches))
	rec.Count("registry_switches_after_use", int64(afterUse))
	rec.Count("registry_histories_clean", 1)
}
