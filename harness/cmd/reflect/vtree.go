package main

// V is a neutral value tree.  It is produced ONLY by calling the generated
// accessors of aircraftlib / std rpc (views.go) and is what both properties
// compare against: C19 compares Go mapping values with it, C20 compares the
// parsed text with it.

import (
	"fmt"
	"math"

	"capnproto.org/go/capnp/v3"
)

type kind int

const (
	kVoid kind = iota
	kBool
	kInt
	kUint
	kF32
	kF64
	kText
	kData
	kEnum
	kStruct
	kList
	kCap
	kAny
)

var kindNames = []string{"void", "bool", "int", "uint", "f32", "f64", "text", "data", "enum", "struct", "list", "cap", "any"}

func (k kind) String() string { return kindNames[k] }

type V struct {
	K    kind
	Bits uint   // width of int / uint
	B    bool   // bool
	I    int64  // int
	U    uint64 // uint, enum value, float bits
	S    []byte // text, data

	EnumName string // enum: generated String() ("" when out of range)

	// struct
	TypeName string
	Fields   []VF
	HasUnion bool
	Disc     uint16
	Null     bool // struct / list: the accessor returned an invalid (null) object

	// list
	Elem  kind
	Elems []*V

	// interface / anypointer
	Client *capnp.Client
	Ptr    capnp.Ptr
}

type VF struct {
	Name   string
	Val    *V
	Member bool // union member (the active one; inactive ones are never listed)
	Group  bool
}

func vVoid() *V                  { return &V{K: kVoid} }
func vBool(b bool) *V            { return &V{K: kBool, B: b} }
func vInt(bits uint, v int64) *V { return &V{K: kInt, Bits: bits, I: v} }
func vUint(bits uint, v uint64) *V {
	return &V{K: kUint, Bits: bits, U: v}
}
func vF32(f float32) *V { return &V{K: kF32, U: uint64(math.Float32bits(f))} }
func vF64(f float64) *V { return &V{K: kF64, U: math.Float64bits(f)} }
func vText(s string) *V { return &V{K: kText, S: []byte(s)} }
func vData(b []byte) *V { return &V{K: kData, S: b} }
func vEnum(v uint16, name string) *V {
	return &V{K: kEnum, U: uint64(v), EnumName: name}
}
func vCap(c *capnp.Client) *V { return &V{K: kCap, Client: c} }
func vAny(p capnp.Ptr) *V     { return &V{K: kAny, Ptr: p} }

func vList(elem kind, null bool, n int, f func(i int) *V) *V {
	v := &V{K: kList, Elem: elem, Null: null}
	for i := 0; i < n; i++ {
		v.Elems = append(v.Elems, f(i))
	}
	return v
}

func (v *V) field(name string) *V {
	for _, f := range v.Fields {
		if f.Name == name {
			return f.Val
		}
	}
	return nil
}

// vctx collects accessor errors while a view is built.  On messages the
// harness built itself no accessor may fail.
type vctx struct {
	errs []string
}

func (c *vctx) err(where string, e error) {
	if e != nil {
		c.errs = append(c.errs, fmt.Sprintf("%s: %v", where, e))
	}
}

// shortString renders a V for samples / violation details.
func (v *V) shortString() string {
	if v == nil {
		return "<nil>"
	}
	switch v.K {
	case kVoid:
		return "void"
	case kBool:
		return fmt.Sprint(v.B)
	case kInt:
		return fmt.Sprint(v.I)
	case kUint:
		return fmt.Sprint(v.U)
	case kF32:
		return fmt.Sprintf("f32:%08x", v.U)
	case kF64:
		return fmt.Sprintf("f64:%016x", v.U)
	case kText:
		return fmt.Sprintf("text:%x", trunc(v.S, 40))
	case kData:
		return fmt.Sprintf("data:%x", trunc(v.S, 40))
	case kEnum:
		return fmt.Sprintf("enum:%d(%s)", v.U, v.EnumName)
	case kCap:
		return fmt.Sprintf("cap:%v", v.Client != nil)
	case kAny:
		return fmt.Sprintf("any:%v", v.Ptr.IsValid())
	case kList:
		s := "["
		for i, e := range v.Elems {
			if i > 0 {
				s += ", "
			}
			if i >= 6 {
				s += fmt.Sprintf("…(%d)", len(v.Elems))
				break
			}
			s += e.shortString()
		}
		return s + "]"
	case kStruct:
		s := v.TypeName + "("
		if v.Null {
			s = v.TypeName + "<null>("
		}
		if v.HasUnion {
			s += fmt.Sprintf("which=%d ", v.Disc)
		}
		for i, f := range v.Fields {
			if i > 0 {
				s += ", "
			}
			s += f.Name + "=" + f.Val.shortString()
		}
		return s + ")"
	}
	return "?"
}

func trunc(b []byte, n int) []byte {
	if len(b) > n {
		return b[:n]
	}
	return b
}
