package main

// Reference parser for the Cap'n Proto text format as emitted by
// encoding/text and the String() methods of the list types.  It is blind: it
// knows nothing about the value that was rendered.  Whitespace-tolerant.
//
//   value  := struct | list | string | atom | marker
//   struct := '(' [ ident '=' value { ',' ident '=' value } ] ')'
//   list   := '[' [ value { ',' value } ] ']'
//   string := '"' { char | escape } '"'
//             char   : any byte except '"', '\\', bytes < 0x20 and 0x7f
//                      (bytes >= 0x80 are accepted raw: UTF-8 passes through
//                      in other implementations)
//             escape : \a \b \f \n \r \t \v \' \" \\ \? \xHH \OOO(1-3 octal)
//   atom   := [A-Za-z0-9_.+-]+        (numbers, true/false/void/null, NaN,
//                                      +Inf, -Inf, enumerants)
//   marker := '<' … '>'               (<external capability>, <opaque pointer>)

import (
	"fmt"
	"math"
	"strconv"
)

const (
	pStruct = iota
	pList
	pString
	pAtom
	pMarker
)

type pfield struct {
	name string
	val  *pnode
}

type pnode struct {
	kind   int
	fields []pfield
	elems  []*pnode
	str    []byte
	tok    string
	start  int
}

type perr struct {
	pos int
	msg string
}

func (e *perr) Error() string { return fmt.Sprintf("at offset %d: %s", e.pos, e.msg) }

type tparser struct {
	in        []byte
	pos       int
	litStarts []int // offset of the opening quote of every string literal entered
	depth     int
}

func parseText(in []byte) (*pnode, *tparser, *perr) {
	p := &tparser{in: in}
	n, err := p.value()
	if err != nil {
		return nil, p, err
	}
	p.ws()
	if p.pos != len(p.in) {
		return nil, p, &perr{p.pos, "trailing input after value"}
	}
	return n, p, nil
}

func (p *tparser) ws() {
	for p.pos < len(p.in) && (p.in[p.pos] == ' ' || p.in[p.pos] == '\n' || p.in[p.pos] == '\t' || p.in[p.pos] == '\r') {
		p.pos++
	}
}

func isAtomByte(c byte) bool {
	return c >= 'a' && c <= 'z' || c >= 'A' && c <= 'Z' || c >= '0' && c <= '9' || c == '_' || c == '.' || c == '+' || c == '-'
}

func isIdentStart(c byte) bool {
	return c >= 'a' && c <= 'z' || c >= 'A' && c <= 'Z' || c == '_'
}

func (p *tparser) value() (*pnode, *perr) {
	p.depth++
	defer func() { p.depth-- }()
	if p.depth > 200 {
		return nil, &perr{p.pos, "nesting too deep"}
	}
	p.ws()
	if p.pos >= len(p.in) {
		return nil, &perr{p.pos, "unexpected end of input, want value"}
	}
	c := p.in[p.pos]
	switch {
	case c == '(':
		return p.structValue()
	case c == '[':
		return p.listValue()
	case c == '"':
		return p.stringValue()
	case c == '<':
		start := p.pos
		for p.pos < len(p.in) && p.in[p.pos] != '>' {
			p.pos++
		}
		if p.pos >= len(p.in) {
			return nil, &perr{start, "unterminated <marker>"}
		}
		p.pos++
		return &pnode{kind: pMarker, tok: string(p.in[start:p.pos]), start: start}, nil
	case isAtomByte(c):
		start := p.pos
		for p.pos < len(p.in) && isAtomByte(p.in[p.pos]) {
			p.pos++
		}
		return &pnode{kind: pAtom, tok: string(p.in[start:p.pos]), start: start}, nil
	}
	return nil, &perr{p.pos, fmt.Sprintf("unexpected byte 0x%02x, want value", c)}
}

func (p *tparser) structValue() (*pnode, *perr) {
	n := &pnode{kind: pStruct, start: p.pos}
	p.pos++ // (
	p.ws()
	if p.pos < len(p.in) && p.in[p.pos] == ')' {
		p.pos++
		return n, nil
	}
	for {
		p.ws()
		if p.pos >= len(p.in) || !isIdentStart(p.in[p.pos]) {
			return nil, &perr{p.pos, "want field name"}
		}
		start := p.pos
		for p.pos < len(p.in) && (isIdentStart(p.in[p.pos]) || p.in[p.pos] >= '0' && p.in[p.pos] <= '9') {
			p.pos++
		}
		name := string(p.in[start:p.pos])
		p.ws()
		if p.pos >= len(p.in) || p.in[p.pos] != '=' {
			return nil, &perr{p.pos, "want '=' after field name " + name}
		}
		p.pos++
		v, err := p.value()
		if err != nil {
			return nil, err
		}
		n.fields = append(n.fields, pfield{name, v})
		p.ws()
		if p.pos >= len(p.in) {
			return nil, &perr{p.pos, "unexpected end of input in struct"}
		}
		if p.in[p.pos] == ',' {
			p.pos++
			continue
		}
		if p.in[p.pos] == ')' {
			p.pos++
			return n, nil
		}
		return nil, &perr{p.pos, fmt.Sprintf("unexpected byte 0x%02x after field %s, want ',' or ')'", p.in[p.pos], name)}
	}
}

func (p *tparser) listValue() (*pnode, *perr) {
	n := &pnode{kind: pList, start: p.pos}
	p.pos++ // [
	p.ws()
	if p.pos < len(p.in) && p.in[p.pos] == ']' {
		p.pos++
		return n, nil
	}
	for {
		v, err := p.value()
		if err != nil {
			return nil, err
		}
		n.elems = append(n.elems, v)
		p.ws()
		if p.pos >= len(p.in) {
			return nil, &perr{p.pos, "unexpected end of input in list"}
		}
		if p.in[p.pos] == ',' {
			p.pos++
			continue
		}
		if p.in[p.pos] == ']' {
			p.pos++
			return n, nil
		}
		return nil, &perr{p.pos, fmt.Sprintf("unexpected byte 0x%02x in list, want ',' or ']'", p.in[p.pos])}
	}
}

func hexVal(c byte) int {
	switch {
	case c >= '0' && c <= '9':
		return int(c - '0')
	case c >= 'a' && c <= 'f':
		return int(c-'a') + 10
	case c >= 'A' && c <= 'F':
		return int(c-'A') + 10
	}
	return -1
}

// decodeEscape decodes the escape sequence starting at in[i] (a backslash).
// It returns the byte denoted and the length of the sequence.
func decodeEscape(in []byte, i int) (val byte, n int, ok bool) {
	if i+1 >= len(in) {
		return 0, 0, false
	}
	switch c := in[i+1]; c {
	case 'a':
		return '\a', 2, true
	case 'b':
		return '\b', 2, true
	case 'f':
		return '\f', 2, true
	case 'n':
		return '\n', 2, true
	case 'r':
		return '\r', 2, true
	case 't':
		return '\t', 2, true
	case 'v':
		return '\v', 2, true
	case '\'':
		return '\'', 2, true
	case '"':
		return '"', 2, true
	case '\\':
		return '\\', 2, true
	case '?':
		return '?', 2, true
	case 'x':
		if i+3 >= len(in) {
			return 0, 0, false
		}
		h, l := hexVal(in[i+2]), hexVal(in[i+3])
		if h < 0 || l < 0 {
			return 0, 0, false
		}
		return byte(h<<4 | l), 4, true
	default:
		if c >= '0' && c <= '7' {
			v := 0
			k := 1
			for k <= 3 && i+k < len(in) && in[i+k] >= '0' && in[i+k] <= '7' {
				v = v*8 + int(in[i+k]-'0')
				k++
			}
			if v > 255 {
				return 0, 0, false
			}
			return byte(v), k, true
		}
	}
	return 0, 0, false
}

func (p *tparser) stringValue() (*pnode, *perr) {
	n := &pnode{kind: pString, start: p.pos, str: []byte{}}
	p.litStarts = append(p.litStarts, p.pos)
	p.pos++ // opening quote
	for {
		if p.pos >= len(p.in) {
			return nil, &perr{p.pos, "unterminated string literal"}
		}
		c := p.in[p.pos]
		switch {
		case c == '"':
			p.pos++
			return n, nil
		case c == '\\':
			v, k, ok := decodeEscape(p.in, p.pos)
			if !ok {
				return nil, &perr{p.pos, "invalid escape sequence in string literal"}
			}
			n.str = append(n.str, v)
			p.pos += k
		case c < 0x20 || c == 0x7f:
			return nil, &perr{p.pos, fmt.Sprintf("raw non-printable byte 0x%02x in string literal", c)}
		default:
			n.str = append(n.str, c)
			p.pos++
		}
	}
}

// ---------------------------------------------------------------------------
// Comparison of a parse tree with the view obtained from generated accessors.

type tmismatch struct {
	path string
	kind string // struct-shape | list-length | leaf kind name
	msg  string
}

type tcmp struct {
	leaves  map[string]int
	nan     int
	enumOOR int
}

func newTcmp() *tcmp { return &tcmp{leaves: map[string]int{}} }

func parseFloatTok(tok string, bits int) (float64, bool) {
	switch tok {
	case "nan":
		return math.NaN(), true
	case "inf":
		return math.Inf(1), true
	case "-inf":
		return math.Inf(-1), true
	}
	f, err := strconv.ParseFloat(tok, bits)
	if err != nil {
		// ParseFloat returns ±Inf with ErrRange for overflow; strconv 'g' -1
		// output never overflows, so any error is a mismatch.
		return 0, false
	}
	return f, true
}

func (tc *tcmp) cmp(path string, p *pnode, v *V) *tmismatch {
	mm := func(kind, format string, a ...interface{}) *tmismatch {
		return &tmismatch{path: path, kind: kind, msg: fmt.Sprintf(format, a...)}
	}
	tc.leaves[v.K.String()]++
	switch v.K {
	case kStruct:
		if p.kind != pStruct {
			return mm("struct-shape", "want struct, text has %s", p.describe())
		}
		// Fields are named in the text format, so their order carries no
		// meaning: compare as a name -> value map (no duplicates allowed).
		if len(p.fields) != len(v.Fields) {
			return mm("struct-shape", "text shows %d fields %v, accessors show %d %v", len(p.fields), p.fieldNames(), len(v.Fields), v.fieldNames())
		}
		byName := map[string]*pnode{}
		for _, pf := range p.fields {
			if _, dup := byName[pf.name]; dup {
				return mm("struct-shape", "field %q appears twice in text", pf.name)
			}
			byName[pf.name] = pf.val
		}
		for _, f := range v.Fields {
			pv, ok := byName[f.Name]
			if !ok {
				return mm("struct-shape", "accessors show field %q, text shows %v", f.Name, p.fieldNames())
			}
			if m := tc.cmp(path+"."+f.Name, pv, f.Val); m != nil {
				return m
			}
		}
		return nil
	case kList:
		if p.kind != pList {
			return mm("list-shape", "want list, text has %s", p.describe())
		}
		if len(p.elems) != len(v.Elems) {
			return mm("list-length", "text shows %d elements, accessors %d", len(p.elems), len(v.Elems))
		}
		for i, e := range v.Elems {
			if m := tc.cmp(fmt.Sprintf("%s[%d]", path, i), p.elems[i], e); m != nil {
				return m
			}
		}
		return nil
	case kText, kData:
		if p.kind != pString {
			return mm(v.K.String(), "want string literal, text has %s", p.describe())
		}
		if string(p.str) != string(v.S) {
			return mm(v.K.String(), "recovered %x, accessor %x", trunc(p.str, 64), trunc(v.S, 64))
		}
		return nil
	case kVoid:
		if p.kind != pAtom || p.tok != "void" {
			return mm("void", "want void, text has %s", p.describe())
		}
		return nil
	case kBool:
		if p.kind != pAtom || (p.tok != "true" && p.tok != "false") || (p.tok == "true") != v.B {
			return mm("bool", "want %v, text has %s", v.B, p.describe())
		}
		return nil
	case kInt:
		if p.kind != pAtom {
			return mm("int", "want %d, text has %s", v.I, p.describe())
		}
		x, err := strconv.ParseInt(p.tok, 10, 64)
		if err != nil || x != v.I {
			return mm("int", "want %d, text has %q", v.I, p.tok)
		}
		return nil
	case kUint:
		if p.kind != pAtom {
			return mm("uint", "want %d, text has %s", v.U, p.describe())
		}
		x, err := strconv.ParseUint(p.tok, 10, 64)
		if err != nil || x != v.U {
			return mm("uint", "want %d, text has %q", v.U, p.tok)
		}
		return nil
	case kF32:
		if p.kind != pAtom {
			return mm("f32", "want float, text has %s", p.describe())
		}
		want := math.Float32frombits(uint32(v.U))
		f, ok := parseFloatTok(p.tok, 32)
		if !ok {
			return mm("f32", "unparsable float %q (accessor bits %08x)", p.tok, v.U)
		}
		if want != want {
			tc.nan++
			if f == f {
				return mm("f32", "accessor NaN, text %q", p.tok)
			}
			return nil
		}
		if math.Float32bits(float32(f)) != uint32(v.U) {
			return mm("f32", "text %q -> bits %08x, accessor bits %08x", p.tok, math.Float32bits(float32(f)), v.U)
		}
		return nil
	case kF64:
		if p.kind != pAtom {
			return mm("f64", "want float, text has %s", p.describe())
		}
		want := math.Float64frombits(v.U)
		f, ok := parseFloatTok(p.tok, 64)
		if !ok {
			return mm("f64", "unparsable float %q (accessor bits %016x)", p.tok, v.U)
		}
		if want != want {
			tc.nan++
			if f == f {
				return mm("f64", "accessor NaN, text %q", p.tok)
			}
			return nil
		}
		if math.Float64bits(f) != v.U {
			return mm("f64", "text %q -> bits %016x, accessor bits %016x", p.tok, math.Float64bits(f), v.U)
		}
		return nil
	case kEnum:
		if p.kind != pAtom {
			return mm("enum", "want enumerant, text has %s", p.describe())
		}
		if v.EnumName != "" {
			if p.tok != v.EnumName {
				return mm("enum", "accessor %d (%s), text %q", v.U, v.EnumName, p.tok)
			}
			return nil
		}
		tc.enumOOR++
		x, err := strconv.ParseUint(p.tok, 10, 16)
		if err != nil || x != v.U {
			return mm("enum", "accessor out-of-range enum %d, text %q", v.U, p.tok)
		}
		return nil
	case kCap:
		if v.Client != nil {
			if p.kind != pMarker || p.tok != "<external capability>" {
				return mm("cap", "want <external capability>, text has %s", p.describe())
			}
		} else if p.kind != pAtom || p.tok != "null" {
			return mm("cap", "want null, text has %s", p.describe())
		}
		return nil
	case kAny:
		if p.kind != pMarker || p.tok != "<opaque pointer>" {
			return mm("any", "want <opaque pointer>, text has %s", p.describe())
		}
		return nil
	}
	return mm("?", "unknown kind")
}

func (p *pnode) describe() string {
	switch p.kind {
	case pStruct:
		return fmt.Sprintf("struct%v", p.fieldNames())
	case pList:
		return fmt.Sprintf("list(len %d)", len(p.elems))
	case pString:
		return fmt.Sprintf("string %x", trunc(p.str, 32))
	case pAtom:
		return "atom " + p.tok
	default:
		return "marker " + p.tok
	}
}

func (p *pnode) fieldNames() []string {
	var out []string
	for _, f := range p.fields {
		out = append(out, f.name)
	}
	return out
}

func (v *V) fieldNames() []string {
	var out []string
	for _, f := range v.Fields {
		out = append(out, f.Name)
	}
	return out
}

// collectStrings lists the Text/Data leaves of v in rendering order.
func collectStrings(v *V, out [][]byte) [][]byte {
	switch v.K {
	case kText, kData:
		return append(out, v.S)
	case kStruct:
		for _, f := range v.Fields {
			out = collectStrings(f.Val, out)
		}
	case kList:
		for _, e := range v.Elems {
			out = collectStrings(e, out)
		}
	}
	return out
}

// diagnoseLiteral explains why the literal that starts at out[start] (opening
// quote) does not denote want.  It searches for a reading of the literal in
// which every byte of want appears either properly (raw printable byte or a
// valid escape) or in one of the defective ways a quoting routine can fail
// (a raw quote, a raw backslash, a raw non-printable byte), and returns the
// first defect of the reading with the fewest defects; "" means the literal
// correctly denotes want.  This only NAMES the violation; the verdict comes
// from the blind parser.
func diagnoseLiteral(out []byte, start int, want []byte) string {
	type res struct {
		ok    bool
		marks int
		first string
	}
	memo := map[[2]int]res{}
	var solve func(k, i int) res
	solve = func(k, i int) res {
		if k == len(want) {
			if i < len(out) && out[i] == '"' {
				return res{ok: true}
			}
			return res{}
		}
		key := [2]int{k, i}
		if r, ok := memo[key]; ok {
			return r
		}
		best := res{}
		consider := func(r res, mark string) {
			if !r.ok {
				return
			}
			if mark != "" {
				r.marks++
				r.first = mark
			}
			if !best.ok || r.marks < best.marks {
				best = r
			}
		}
		if i < len(out) {
			e, c := want[k], out[i]
			if c == '\\' {
				if v, n, ok := decodeEscape(out, i); ok && v == e {
					consider(solve(k+1, i+n), "")
				}
			}
			if c == e {
				switch byteClass(e) {
				case clsPlain, clsSQuote, clsHigh:
					consider(solve(k+1, i+1), "")
				case clsDQuote:
					consider(solve(k+1, i+1), "unescaped-quote")
				case clsBSlash:
					consider(solve(k+1, i+1), "unescaped-backslash")
				default:
					consider(solve(k+1, i+1), "unescaped-nonprintable")
				}
			}
		}
		memo[key] = best
		return best
	}
	r := solve(0, start+1)
	if r.ok {
		return r.first
	}
	// no reading at all: name the first byte that cannot be matched greedily
	i := start + 1
	for _, e := range want {
		if i >= len(out) {
			return "truncated-literal"
		}
		c := out[i]
		if c == '\\' {
			if v, n, ok := decodeEscape(out, i); ok && v == e {
				i += n
				continue
			}
			return "wrong-escape/" + clsNames[byteClass(e)]
		}
		if c != e {
			return "wrong-byte/" + clsNames[byteClass(e)]
		}
		i++
	}
	return "missing-close-quote"
}

// diagnose finds the first string literal of the output that does not denote
// the string the accessors report at the same position.
func diagnose(out []byte, p *tparser, want [][]byte) string {
	for k, st := range p.litStarts {
		if k >= len(want) {
			return ""
		}
		if d := diagnoseLiteral(out, st, want[k]); d != "" {
			return d
		}
	}
	return ""
}
