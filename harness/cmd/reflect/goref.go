package main

// Reference model of the documented pogs conventions (pogs/doc.go), written
// without using pogs: which Go field carries which schema field, random Go
// values of the mapping types, the "clean" form of a value (what a round trip
// can preserve), poisoning of everything a round trip must not look at, and
// the comparison of a Go value with a view obtained from generated accessors.

import (
	"fmt"
	"math"
	"reflect"
	"strings"

	"capnproto.org/go/capnp/v3"
	air "capnproto.org/go/capnp/v3/internal/aircraftlib"
	"capnproto.org/go/capnp/v3/zverif/common"
)

var (
	tClient = reflect.TypeOf((*capnp.Client)(nil))
	tPtr    = reflect.TypeOf(capnp.Ptr{})
	tStruct = reflect.TypeOf(capnp.Struct{})
	tList   = reflect.TypeOf(capnp.List{})
	tEcho   = reflect.TypeOf(air.Echo{})
)

func isOpaque(t reflect.Type) bool {
	return t == tClient || t == tPtr || t == tStruct || t == tList || t == tEcho
}

// ---------------------------------------------------------------------------
// Field resolution per doc.go: default name = Go name with first letter
// lower-cased; `capnp:"name"`; "-" omits; anonymous struct fields without a
// name are flattened; least nested wins; among several at the least nested
// level tagged ones win; if still more than one, all are ignored silently.

type typeInfo struct {
	t        reflect.Type
	schema   string            // "" unless union-bearing type registered in schemaNameOf
	fields   map[string][]int  // schema field name -> index path
	byPath   map[string]string // path key -> schema field name
	which    []int             // path of the Which field, nil if none
	members  map[string]uint16 // union members of the schema type (nil if none)
	embedded map[string]bool   // path keys of flattened embedded containers
}

var typeInfos = map[reflect.Type]*typeInfo{}

func pathKey(p []int) string {
	var sb strings.Builder
	for _, x := range p {
		fmt.Fprintf(&sb, "%d.", x)
	}
	return sb.String()
}

func lowerFirst(s string) string {
	if s == "" {
		return s
	}
	c := s[0]
	if c >= 'A' && c <= 'Z' {
		c = c - 'A' + 'a'
	}
	return string(c) + s[1:]
}

func tagName(f reflect.StructField) (name string, tagged bool) {
	tag := f.Tag.Get("capnp")
	if i := strings.Index(tag, ","); i >= 0 {
		tag = tag[:i]
	}
	return tag, tag != ""
}

func isStructish(t reflect.Type) bool {
	return t.Kind() == reflect.Struct || t.Kind() == reflect.Ptr && t.Elem().Kind() == reflect.Struct
}

func infoOf(t reflect.Type) *typeInfo {
	if ti, ok := typeInfos[t]; ok {
		return ti
	}
	ti := &typeInfo{t: t, fields: map[string][]int{}, byPath: map[string]string{}, embedded: map[string]bool{}}
	ti.schema = schemaNameOf[t]
	ti.members = unionMembers[ti.schema]
	type entry struct {
		t    reflect.Type
		path []int
	}
	type cand struct {
		path   []int
		tagged bool
	}
	level := []entry{{t, nil}}
	done := map[string]bool{}
	for len(level) > 0 {
		cands := map[string][]cand{}
		var order []string
		var next []entry
		for _, e := range level {
			st := e.t
			if st.Kind() == reflect.Ptr {
				st = st.Elem()
			}
			for i := 0; i < st.NumField(); i++ {
				f := st.Field(i)
				if f.PkgPath != "" && !f.Anonymous {
					continue
				}
				p := append(append([]int{}, e.path...), i)
				name, tagged := tagName(f)
				if name == "-" {
					continue
				}
				if name == "" && f.Anonymous && isStructish(f.Type) && !isOpaque(f.Type) {
					ti.embedded[pathKey(p)] = true
					next = append(next, entry{f.Type, p})
					continue
				}
				if name == "" && f.Name == "Which" && ti.members != nil && f.Type.Kind() == reflect.Uint16 {
					if ti.which == nil {
						ti.which = p
					}
					continue
				}
				if name == "" {
					name = lowerFirst(f.Name)
				}
				if _, seen := cands[name]; !seen {
					order = append(order, name)
				}
				cands[name] = append(cands[name], cand{p, tagged})
			}
		}
		for _, name := range order {
			if done[name] {
				continue // hidden by a less nested field
			}
			done[name] = true
			cs := cands[name]
			var tg []cand
			for _, c := range cs {
				if c.tagged {
					tg = append(tg, c)
				}
			}
			if len(tg) > 0 {
				cs = tg
			}
			if len(cs) == 1 {
				ti.fields[name] = cs[0].path
				ti.byPath[pathKey(cs[0].path)] = name
			}
		}
		level = next
	}
	typeInfos[t] = ti
	return ti
}

// fieldAt walks an index path.  With alloc it allocates nil embedded pointers
// on the way; without, it returns an invalid Value when a parent is nil.
func fieldAt(v reflect.Value, path []int, alloc bool) reflect.Value {
	for i, x := range path {
		if i > 0 && v.Kind() == reflect.Ptr {
			if v.IsNil() {
				if !alloc {
					return reflect.Value{}
				}
				v.Set(reflect.New(v.Type().Elem()))
			}
			v = v.Elem()
		}
		v = v.Field(x)
	}
	return v
}

// leafPaths lists every exported non-container field of t with its path,
// descending through flattened embedded containers.
func (ti *typeInfo) leafPaths() [][]int {
	var out [][]int
	var walk func(t reflect.Type, prefix []int)
	walk = func(t reflect.Type, prefix []int) {
		if t.Kind() == reflect.Ptr {
			t = t.Elem()
		}
		for i := 0; i < t.NumField(); i++ {
			f := t.Field(i)
			if f.PkgPath != "" && !f.Anonymous {
				continue
			}
			p := append(append([]int{}, prefix...), i)
			if ti.embedded[pathKey(p)] {
				walk(f.Type, p)
				continue
			}
			out = append(out, p)
		}
	}
	walk(ti.t, nil)
	return out
}

func (ti *typeInfo) whichOf(v reflect.Value) (uint16, bool) {
	if ti.which == nil {
		return 0, false
	}
	f := fieldAt(v, ti.which, false)
	if !f.IsValid() {
		return 0, false
	}
	return uint16(f.Uint()), true
}

// active reports whether the mapped field name takes part in a round trip of
// v: it is not a union member, or it is the member selected by Which.
func (ti *typeInfo) active(v reflect.Value, name string) bool {
	if ti.members == nil {
		return true
	}
	d, isMember := ti.members[name]
	if !isMember {
		return true
	}
	w, ok := ti.whichOf(v)
	return ok && w == d
}

// ---------------------------------------------------------------------------
// Random Go values.

type ggen struct {
	r      *common.RNG
	maxLen int
	maxStr int
	seg    *capnp.Segment // scratch message for capnp.Ptr / Struct / List values
	msg    *capnp.Message

	sparse bool // favour nil pointers, nil / empty slices, empty strings

	members map[string]int
	nNoGo   int
	nOOR    int
	clsMask uint
}

func newGgen(r *common.RNG) *ggen {
	msg, seg, err := capnp.NewMessage(capnp.SingleSegment(nil))
	if err != nil {
		panic(err)
	}
	return &ggen{r: r, maxLen: 5, maxStr: 10, seg: seg, msg: msg, members: map[string]int{}}
}

func (g *ggen) bytes() []byte {
	b := genBytes(g.r, g.maxStr)
	g.clsMask |= classMask(b)
	return b
}

func (g *ggen) anyPtr(k int) capnp.Ptr {
	switch k {
	case 0:
		return capnp.Ptr{}
	case 1:
		s, _ := capnp.NewStruct(g.seg, capnp.ObjectSize{DataSize: 8})
		s.SetUint64(0, g.r.Uint64())
		return s.ToPtr()
	case 2:
		n := g.r.Range(0, 4)
		l, _ := capnp.NewInt32List(g.seg, int32(n))
		for i := 0; i < n; i++ {
			l.Set(i, int32(g.r.Uint64()))
		}
		return l.ToPtr()
	default:
		return capnp.NewInterface(g.seg, g.msg.AddCap(capnp.ErrorClient(errBoo))).ToPtr()
	}
}

// fill sets v (settable) to a random value.  nonNil forbids a nil pointer at
// the top (group fields, list elements).
func (g *ggen) fill(v reflect.Value, depth int, nonNil bool) {
	r := g.r
	t := v.Type()
	switch t {
	case tClient:
		if r.Bool() {
			v.Set(reflect.ValueOf(capnp.ErrorClient(errBoo)))
		} else {
			v.Set(reflect.Zero(t))
		}
		return
	case tEcho:
		if r.Bool() {
			v.Set(reflect.ValueOf(air.Echo{Client: capnp.ErrorClient(errBoo)}))
		} else {
			v.Set(reflect.Zero(t))
		}
		return
	case tPtr:
		v.Set(reflect.ValueOf(g.anyPtr(r.Intn(4))))
		return
	case tStruct:
		v.Set(reflect.ValueOf(g.anyPtr(r.Intn(2)).Struct()))
		return
	case tList:
		v.Set(reflect.ValueOf(g.anyPtr(r.PickInt(0, 2)).List()))
		return
	}
	switch t.Kind() {
	case reflect.Bool:
		v.SetBool(r.Bool())
	case reflect.Int8, reflect.Int16, reflect.Int32, reflect.Int64:
		v.SetInt(genInt(r, uint(t.Bits())))
	case reflect.Uint8, reflect.Uint16, reflect.Uint32, reflect.Uint64:
		if t == reflect.TypeOf(air.Airport(0)) {
			v.SetUint(uint64(genEnum(r, 7)))
		} else {
			v.SetUint(genUint(r, uint(t.Bits())))
		}
	case reflect.Float32:
		v.SetFloat(float64(genF32(r)))
	case reflect.Float64:
		v.SetFloat(genF64(r))
	case reflect.String:
		if g.sparse && r.Chance(1, 3) {
			v.SetString("")
			return
		}
		v.SetString(string(g.bytes()))
	case reflect.Slice:
		if g.sparse && r.Chance(1, 3) {
			if r.Bool() {
				v.Set(reflect.Zero(t))
			} else {
				v.Set(reflect.MakeSlice(t, 0, 0))
			}
			return
		}
		if t.Elem().Kind() == reflect.Uint8 {
			switch r.Intn(8) {
			case 0:
				v.Set(reflect.Zero(t))
			case 1:
				v.SetBytes([]byte{})
			default:
				b := g.bytes()
				v.SetBytes(b)
			}
			return
		}
		if r.Chance(1, 8) {
			v.Set(reflect.Zero(t))
			return
		}
		n := genLen(r, g.maxLen)
		if depth <= 0 && n > 1 {
			n = 1
		}
		// bool lists get longer to cross byte boundaries
		if t.Elem().Kind() == reflect.Bool {
			n = genLen(r, 20)
		}
		s := reflect.MakeSlice(t, n, n)
		for i := 0; i < n; i++ {
			g.fill(s.Index(i), depth-1, true)
		}
		v.Set(s)
	case reflect.Ptr:
		if !nonNil && (r.Chance(1, 5) || g.sparse && r.Chance(2, 5)) {
			v.Set(reflect.Zero(t))
			return
		}
		nv := reflect.New(t.Elem())
		g.fill(nv.Elem(), depth, false)
		v.Set(nv)
	case reflect.Struct:
		g.fillStruct(v, depth)
	default:
		panic("ggen.fill: unsupported kind " + t.Kind().String())
	}
}

func (g *ggen) isRecursive(t reflect.Type, root reflect.Type) bool {
	for t.Kind() == reflect.Ptr || t.Kind() == reflect.Slice {
		t = t.Elem()
	}
	return t == root
}

func (g *ggen) fillStruct(v reflect.Value, depth int) {
	r := g.r
	ti := infoOf(v.Type())
	// 1. everything that is not a union member (including omitted and ignored fields)
	for _, p := range ti.leafPaths() {
		key := pathKey(p)
		name, mapped := ti.byPath[key]
		if mapped && ti.members != nil {
			if _, isMember := ti.members[name]; isMember {
				continue
			}
		}
		if ti.which != nil && key == pathKey(ti.which) {
			continue
		}
		// embedded pointer parents: sometimes leave nil
		if len(p) > 1 && r.Chance(1, 6) {
			if !fieldAt(v, p, false).IsValid() {
				continue
			}
		}
		f := fieldAt(v, p, len(p) == 1 || r.Chance(3, 4))
		if !f.IsValid() {
			continue
		}
		if g.isRecursive(f.Type(), v.Type()) && depth <= 0 {
			continue
		}
		g.fill(f, depth-1, false)
	}
	if ti.members == nil {
		return
	}
	// 2. union: choose the discriminant
	var withGo []string
	var withoutGo []string
	for name := range ti.members {
		if p, ok := ti.fields[name]; ok {
			ft := v.Type().FieldByIndex(p).Type
			if depth <= 0 && g.isRecursive(ft, v.Type()) {
				continue
			}
			withGo = append(withGo, name)
		} else {
			withoutGo = append(withoutGo, name)
		}
	}
	sortStrings(withGo)
	sortStrings(withoutGo)
	var disc uint16
	var active string
	k := r.Intn(20)
	switch {
	case k == 0:
		// a discriminant no member has
		for {
			disc = uint16(r.PickInt(len(ti.members), len(ti.members)+1, 255, 256, 65535, int(r.Uint64()&0xffff)))
			clash := false
			for _, d := range ti.members {
				if d == disc {
					clash = true
				}
			}
			if !clash {
				break
			}
		}
		g.nOOR++
	case k <= 2 && len(withoutGo) > 0:
		n := withoutGo[r.Intn(len(withoutGo))]
		disc = ti.members[n]
		g.nNoGo++
	default:
		active = withGo[r.Intn(len(withGo))]
		disc = ti.members[active]
	}
	if ti.which != nil {
		fieldAt(v, ti.which, true).SetUint(uint64(disc))
	}
	if active != "" {
		g.members[ti.schema+"."+active]++
		f := fieldAt(v, ti.fields[active], true)
		g.fill(f, depth-1, groupFields[ti.schema][active])
	}
}

func sortStrings(s []string) {
	for i := 1; i < len(s); i++ {
		for j := i; j > 0 && s[j] < s[j-1]; j-- {
			s[j], s[j-1] = s[j-1], s[j]
		}
	}
}

// poisonAll fills every field of v (a struct) with garbage, union members
// included, and an arbitrary Which.
func (g *ggen) poisonAll(v reflect.Value) {
	ti := infoOf(v.Type())
	for _, p := range ti.leafPaths() {
		f := fieldAt(v, p, true)
		if g.isRecursive(f.Type(), v.Type()) {
			// one level of recursive garbage only
			if f.Kind() == reflect.Ptr && g.r.Bool() {
				nv := reflect.New(f.Type().Elem())
				g.poisonShallow(nv.Elem())
				f.Set(nv)
			}
			continue
		}
		g.fill(f, 0, false)
	}
}

func (g *ggen) poisonShallow(v reflect.Value) {
	ti := infoOf(v.Type())
	for _, p := range ti.leafPaths() {
		f := fieldAt(v, p, true)
		if g.isRecursive(f.Type(), v.Type()) {
			continue
		}
		g.fill(f, 0, false)
	}
}

// poisonInactive fills, throughout v, the fields a round trip must not look
// at (inactive union members, omitted and ignored fields) with garbage.
// only, if non-empty, restricts the poisoning of the top-level struct to one
// member (used to find out which member was looked at).
func (g *ggen) poisonInactive(v reflect.Value, only string) {
	switch v.Kind() {
	case reflect.Ptr:
		if v.Type() == tClient || v.IsNil() {
			return
		}
		g.poisonInactive(v.Elem(), only)
	case reflect.Slice:
		if v.Type().Elem().Kind() == reflect.Uint8 {
			return
		}
		for i := 0; i < v.Len(); i++ {
			g.poisonInactive(v.Index(i), "")
		}
	case reflect.Struct:
		if isOpaque(v.Type()) {
			return
		}
		ti := infoOf(v.Type())
		for _, p := range ti.leafPaths() {
			key := pathKey(p)
			if ti.which != nil && key == pathKey(ti.which) {
				continue
			}
			name, mapped := ti.byPath[key]
			if mapped && ti.active(v, name) {
				f := fieldAt(v, p, false)
				if f.IsValid() && only == "" {
					g.poisonInactive(f, "")
				}
				continue
			}
			if name == "" {
				name = v.Type().FieldByIndex(p).Name
			}
			if only != "" && name != only {
				continue
			}
			f := fieldAt(v, p, true)
			if g.isRecursive(f.Type(), v.Type()) {
				if f.Kind() == reflect.Ptr {
					nv := reflect.New(f.Type().Elem())
					g.poisonShallow(nv.Elem())
					f.Set(nv)
				}
				continue
			}
			g.fill(f, 0, false)
		}
	}
}

// allocEmbedded allocates every nil embedded pointer reachable through mapped,
// active fields, so that the value says something about every field it maps.
func allocEmbedded(v reflect.Value) {
	switch v.Kind() {
	case reflect.Ptr:
		if v.Type() == tClient || v.IsNil() {
			return
		}
		allocEmbedded(v.Elem())
	case reflect.Slice:
		if v.Type().Elem().Kind() == reflect.Uint8 {
			return
		}
		for i := 0; i < v.Len(); i++ {
			allocEmbedded(v.Index(i))
		}
	case reflect.Struct:
		if isOpaque(v.Type()) {
			return
		}
		ti := infoOf(v.Type())
		for name, p := range ti.fields {
			f := fieldAt(v, p, true)
			if ti.active(v, name) {
				allocEmbedded(f)
			}
		}
	}
}

// ---------------------------------------------------------------------------
// deepCopy, clean.

func deepCopy(v reflect.Value) reflect.Value {
	t := v.Type()
	if isOpaque(t) {
		return v
	}
	switch v.Kind() {
	case reflect.Ptr:
		if v.IsNil() {
			return reflect.Zero(t)
		}
		n := reflect.New(t.Elem())
		n.Elem().Set(deepCopy(v.Elem()))
		return n
	case reflect.Slice:
		if v.IsNil() {
			return reflect.Zero(t)
		}
		n := reflect.MakeSlice(t, v.Len(), v.Len())
		for i := 0; i < v.Len(); i++ {
			n.Index(i).Set(deepCopy(v.Index(i)))
		}
		return n
	case reflect.Struct:
		n := reflect.New(t).Elem()
		for i := 0; i < v.NumField(); i++ {
			if t.Field(i).PkgPath != "" && !t.Field(i).Anonymous {
				continue
			}
			n.Field(i).Set(deepCopy(v.Field(i)))
		}
		return n
	}
	return v
}

// clean zeroes, in place, everything a round trip cannot preserve: inactive
// union members, omitted fields, fields ignored by the embedding rules.
func clean(v reflect.Value) {
	switch v.Kind() {
	case reflect.Ptr:
		if v.Type() == tClient || v.IsNil() {
			return
		}
		clean(v.Elem())
	case reflect.Slice:
		if v.Type().Elem().Kind() == reflect.Uint8 {
			return
		}
		for i := 0; i < v.Len(); i++ {
			clean(v.Index(i))
		}
	case reflect.Struct:
		if isOpaque(v.Type()) {
			return
		}
		ti := infoOf(v.Type())
		for _, p := range ti.leafPaths() {
			f := fieldAt(v, p, false)
			if !f.IsValid() {
				continue
			}
			key := pathKey(p)
			if ti.which != nil && key == pathKey(ti.which) {
				continue
			}
			name, mapped := ti.byPath[key]
			if mapped && ti.active(v, name) {
				clean(f)
				continue
			}
			f.Set(reflect.Zero(f.Type()))
		}
	}
}

// ---------------------------------------------------------------------------
// Equality of Go values modulo the nil/empty equivalences: a nil slice equals
// an empty one; a nil embedded pointer equals a pointer to the zero struct;
// any NaN equals any NaN.  Everything else is strict (a nil struct pointer is
// not a pointer to a zero struct).

func ptrSame(a, b capnp.Ptr) bool {
	if !a.IsValid() || !b.IsValid() {
		return a.IsValid() == b.IsValid()
	}
	sa, sb := a.Struct(), b.Struct()
	if sa.IsValid() || sb.IsValid() {
		if !sa.IsValid() || !sb.IsValid() {
			return false
		}
		return sa.Uint64(0) == sb.Uint64(0) && sa.Size().PointerCount == 0 && sb.Size().PointerCount == 0
	}
	la, lb := a.List(), b.List()
	if la.IsValid() || lb.IsValid() {
		if !la.IsValid() || !lb.IsValid() || la.Len() != lb.Len() {
			return false
		}
		for i := 0; i < la.Len(); i++ {
			if (capnp.Int32List{List: la}).At(i) != (capnp.Int32List{List: lb}).At(i) {
				return false
			}
		}
		return true
	}
	// interface pointers: copying one into another message re-adds the
	// capability (AddRef), so only validity can be compared
	ia, ib := a.Interface(), b.Interface()
	return ia.Client().IsValid() == ib.Client().IsValid()
}

func floatSame(a, b float64, bits int) bool {
	if a != a || b != b {
		return a != a && b != b
	}
	if bits == 32 {
		return math.Float32bits(float32(a)) == math.Float32bits(float32(b))
	}
	return math.Float64bits(a) == math.Float64bits(b)
}

// normEqual returns "" when a and b are equal, else the path of the first difference.
func normEqual(path string, a, b reflect.Value, embedded bool) string {
	t := a.Type()
	switch t {
	case tClient:
		if a.Pointer() != b.Pointer() {
			return path
		}
		return ""
	case tEcho:
		if a.Field(0).Pointer() != b.Field(0).Pointer() {
			return path
		}
		return ""
	case tPtr:
		if !ptrSame(a.Interface().(capnp.Ptr), b.Interface().(capnp.Ptr)) {
			return path
		}
		return ""
	case tStruct:
		if !ptrSame(a.Interface().(capnp.Struct).ToPtr(), b.Interface().(capnp.Struct).ToPtr()) {
			return path
		}
		return ""
	case tList:
		if !ptrSame(a.Interface().(capnp.List).ToPtr(), b.Interface().(capnp.List).ToPtr()) {
			return path
		}
		return ""
	}
	switch a.Kind() {
	case reflect.Ptr:
		if a.IsNil() && b.IsNil() {
			return ""
		}
		if a.IsNil() != b.IsNil() {
			if !embedded {
				return path + "(nil vs non-nil)"
			}
			z := reflect.New(t.Elem()).Elem()
			if a.IsNil() {
				return normEqual(path, z, b.Elem(), false)
			}
			return normEqual(path, a.Elem(), z, false)
		}
		return normEqual(path, a.Elem(), b.Elem(), false)
	case reflect.Slice:
		if a.Len() != b.Len() {
			return fmt.Sprintf("%s(len %d vs %d)", path, a.Len(), b.Len())
		}
		for i := 0; i < a.Len(); i++ {
			if d := normEqual(fmt.Sprintf("%s[%d]", path, i), a.Index(i), b.Index(i), false); d != "" {
				return d
			}
		}
		return ""
	case reflect.Struct:
		for i := 0; i < a.NumField(); i++ {
			f := t.Field(i)
			if f.PkgPath != "" && !f.Anonymous {
				continue
			}
			if d := normEqual(path+"."+f.Name, a.Field(i), b.Field(i), f.Anonymous); d != "" {
				return d
			}
		}
		return ""
	case reflect.Float32:
		if !floatSame(a.Float(), b.Float(), 32) {
			return path
		}
		return ""
	case reflect.Float64:
		if !floatSame(a.Float(), b.Float(), 64) {
			return path
		}
		return ""
	case reflect.Bool:
		if a.Bool() != b.Bool() {
			return path
		}
	case reflect.Int8, reflect.Int16, reflect.Int32, reflect.Int64:
		if a.Int() != b.Int() {
			return path
		}
	case reflect.Uint8, reflect.Uint16, reflect.Uint32, reflect.Uint64:
		if a.Uint() != b.Uint() {
			return path
		}
	case reflect.String:
		if a.String() != b.String() {
			return path
		}
	default:
		panic("normEqual: unsupported kind " + a.Kind().String())
	}
	return ""
}

// checkPoison verifies an Extract into a pre-filled target: out is the target
// after Extract, snap a deep copy of it made before, fresh the result of
// extracting the same struct into a zero value.  Fields that take part in the
// mapping must equal fresh; everything else must be exactly as it was.
// Returns (kind, path): kind "touched" (a field outside the mapping changed)
// or "differs" (a mapped field differs from the fresh extraction).
func checkPoison(path string, out, snap, fresh reflect.Value) (string, string) {
	t := out.Type()
	if isOpaque(t) {
		if d := normEqual(path, out, fresh, false); d != "" {
			return "differs", d
		}
		return "", ""
	}
	switch out.Kind() {
	case reflect.Ptr:
		if fresh.IsNil() || out.IsNil() {
			if fresh.IsNil() != out.IsNil() {
				return "differs", path + "(nil vs non-nil)"
			}
			return "", ""
		}
		var s reflect.Value
		if snap.IsValid() && !snap.IsNil() {
			s = snap.Elem()
		} else {
			s = reflect.New(t.Elem()).Elem()
		}
		return checkPoison(path, out.Elem(), s, fresh.Elem())
	case reflect.Struct:
		ti := infoOf(t)
		for _, p := range ti.leafPaths() {
			key := pathKey(p)
			name := ti.byPath[key]
			fname := t.FieldByIndex(p).Name
			o := fieldAt(out, p, false)
			f := fieldAt(fresh, p, false)
			s := fieldAt(snap, p, false)
			leafT := t.FieldByIndex(p).Type
			zero := reflect.Zero(leafT)
			if !o.IsValid() {
				o = zero
			}
			if !f.IsValid() {
				f = zero
			}
			if !s.IsValid() {
				s = zero
			}
			isWhich := ti.which != nil && key == pathKey(ti.which)
			if isWhich {
				if o.Uint() != f.Uint() {
					return "differs", path + "." + fname
				}
				continue
			}
			if name != "" && ti.active(fresh, name) {
				if k, d := checkPoison(path+"."+fname, o, s, f); k != "" {
					return k, d
				}
				continue
			}
			if d := normEqual(path+"."+fname, o, s, false); d != "" {
				if name == "" {
					name = fname
				}
				qual := ti.schema
				if qual == "" {
					qual = t.Name()
				}
				return "touched/" + qual + "." + name, d
			}
		}
		return "", ""
	}
	if d := normEqual(path, out, fresh, false); d != "" {
		return "differs", d
	}
	return "", ""
}

// ---------------------------------------------------------------------------
// Go value against a view obtained from generated accessors.

type gmismatch struct {
	path  string
	field string // Type.field of the innermost struct field, for signatures
	msg   string
}

type gcmp struct {
	leaves  map[string]int
	skipped int // schema fields shown by accessors for which the Go type has no field
	nilNull int
}

func newGcmp() *gcmp { return &gcmp{leaves: map[string]int{}} }

func (gc *gcmp) cmp(path, field string, gv reflect.Value, v *V) *gmismatch {
	mm := func(format string, a ...interface{}) *gmismatch {
		return &gmismatch{path: path, field: field, msg: fmt.Sprintf(format, a...)}
	}
	gc.leaves[v.K.String()]++
	t := gv.Type()
	switch v.K {
	case kStruct:
		if gv.Kind() == reflect.Ptr {
			if gv.IsNil() {
				if !v.Null {
					return mm("Go pointer is nil, accessor returned a non-null %s: %s", v.TypeName, v.shortString())
				}
				gc.nilNull++
				return nil
			}
			gv = gv.Elem()
			t = gv.Type()
		}
		if gv.Kind() != reflect.Struct {
			return mm("harness: Go kind %v for struct %s", gv.Kind(), v.TypeName)
		}
		ti := infoOf(t)
		if v.HasUnion && ti.which != nil {
			w, _ := ti.whichOf(gv)
			if w != v.Disc {
				return &gmismatch{path: path + ".Which", field: v.TypeName + ".Which", msg: fmt.Sprintf("Go Which=%d, accessor Which()=%d", w, v.Disc)}
			}
		}
		for _, f := range v.Fields {
			p, ok := ti.fields[f.Name]
			if !ok {
				gc.skipped++
				continue
			}
			fv := fieldAt(gv, p, false)
			if !fv.IsValid() {
				fv = reflect.Zero(t.FieldByIndex(p).Type)
			}
			if m := gc.cmp(path+"."+f.Name, v.TypeName+"."+f.Name, fv, f.Val); m != nil {
				return m
			}
		}
		return nil
	case kList:
		if gv.Kind() != reflect.Slice {
			return mm("harness: Go kind %v for list", gv.Kind())
		}
		if gv.Len() != len(v.Elems) {
			return mm("Go slice has %d elements, accessor list %d", gv.Len(), len(v.Elems))
		}
		for i, e := range v.Elems {
			if m := gc.cmp(fmt.Sprintf("%s[%d]", path, i), field, gv.Index(i), e); m != nil {
				return m
			}
		}
		return nil
	case kText, kData:
		var b []byte
		switch {
		case gv.Kind() == reflect.String:
			b = []byte(gv.String())
		case gv.Kind() == reflect.Slice && t.Elem().Kind() == reflect.Uint8:
			b = gv.Bytes()
		default:
			return mm("harness: Go kind %v for %v", gv.Kind(), v.K)
		}
		if string(b) != string(v.S) {
			return mm("Go %x, accessor %x", trunc(b, 48), trunc(v.S, 48))
		}
		return nil
	case kBool:
		if gv.Kind() != reflect.Bool {
			return mm("harness: Go kind %v for bool", gv.Kind())
		}
		if gv.Bool() != v.B {
			return mm("Go %v, accessor %v", gv.Bool(), v.B)
		}
		return nil
	case kInt:
		if gv.Kind() < reflect.Int8 || gv.Kind() > reflect.Int64 || uint(t.Bits()) != v.Bits {
			return mm("harness: Go kind %v for int%d", gv.Kind(), v.Bits)
		}
		if gv.Int() != v.I {
			return mm("Go %d, accessor %d", gv.Int(), v.I)
		}
		return nil
	case kUint:
		if gv.Kind() < reflect.Uint8 || gv.Kind() > reflect.Uint64 || uint(t.Bits()) != v.Bits {
			return mm("harness: Go kind %v for uint%d", gv.Kind(), v.Bits)
		}
		if gv.Uint() != v.U {
			return mm("Go %d, accessor %d", gv.Uint(), v.U)
		}
		return nil
	case kEnum:
		if gv.Kind() != reflect.Uint16 {
			return mm("harness: Go kind %v for enum", gv.Kind())
		}
		if gv.Uint() != v.U {
			return mm("Go %d, accessor %d", gv.Uint(), v.U)
		}
		return nil
	case kF32:
		if gv.Kind() != reflect.Float32 {
			return mm("harness: Go kind %v for float32", gv.Kind())
		}
		if !floatSame(gv.Float(), float64(math.Float32frombits(uint32(v.U))), 32) {
			return mm("Go bits %08x, accessor bits %08x", math.Float32bits(float32(gv.Float())), v.U)
		}
		return nil
	case kF64:
		if gv.Kind() != reflect.Float64 {
			return mm("harness: Go kind %v for float64", gv.Kind())
		}
		if !floatSame(gv.Float(), math.Float64frombits(v.U), 64) {
			return mm("Go bits %016x, accessor bits %016x", math.Float64bits(gv.Float()), v.U)
		}
		return nil
	case kCap:
		var c *capnp.Client
		switch t {
		case tClient:
			c = gv.Interface().(*capnp.Client)
		case tEcho:
			c = gv.Interface().(air.Echo).Client
		default:
			return mm("harness: Go type %v for interface", t)
		}
		if c != v.Client {
			return mm("Go client %p, accessor client %p", c, v.Client)
		}
		return nil
	case kAny:
		var p capnp.Ptr
		switch t {
		case tPtr:
			p = gv.Interface().(capnp.Ptr)
		case tStruct:
			p = gv.Interface().(capnp.Struct).ToPtr()
		case tList:
			p = gv.Interface().(capnp.List).ToPtr()
		case tClient:
			c := gv.Interface().(*capnp.Client)
			if c != v.Ptr.Interface().Client() {
				return mm("Go client %p, accessor capability %p", c, v.Ptr.Interface().Client())
			}
			return nil
		default:
			return mm("harness: Go type %v for AnyPointer", t)
		}
		if !ptrSame(p, v.Ptr) {
			return mm("Go pointer and accessor pointer denote different objects")
		}
		return nil
	case kVoid:
		return nil
	}
	return mm("harness: unknown kind")
}
