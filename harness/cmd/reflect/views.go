package main

// Views: value trees obtained exclusively through the GENERATED accessors.
// Field order is the declaration (code) order of the schema, which is the
// order the text format uses.  All views work on null (invalid) structs too:
// generated getters then return the schema defaults.

import (
	"capnproto.org/go/capnp/v3"
	air "capnproto.org/go/capnp/v3/internal/aircraftlib"
	"capnproto.org/go/capnp/v3/std/capnp/rpc"
)

func sv(name string, null bool, fields ...VF) *V {
	return &V{K: kStruct, TypeName: name, Null: null, Fields: fields}
}

func fld(name string, v *V) VF { return VF{Name: name, Val: v} }

func viewAirport(a air.Airport) *V { return vEnum(uint16(a), a.String()) }

func viewZdate(c *vctx, s air.Zdate) *V {
	return sv("Zdate", !s.IsValid(),
		fld("year", vInt(16, int64(s.Year()))),
		fld("month", vUint(8, uint64(s.Month()))),
		fld("day", vUint(8, uint64(s.Day()))))
}

func viewZdata(c *vctx, s air.Zdata) *V {
	d, err := s.Data()
	c.err("Zdata.data", err)
	return sv("Zdata", !s.IsValid(), fld("data", vData(d)))
}

func viewPlaneBase(c *vctx, s air.PlaneBase) *V {
	name, err := s.Name()
	c.err("PlaneBase.name", err)
	homes, err := s.Homes()
	c.err("PlaneBase.homes", err)
	return sv("PlaneBase", !s.IsValid(),
		fld("name", vText(name)),
		fld("homes", vList(kEnum, !homes.IsValid(), homes.Len(), func(i int) *V { return viewAirport(homes.At(i)) })),
		fld("rating", vInt(64, s.Rating())),
		fld("canFly", vBool(s.CanFly())),
		fld("capacity", vInt(64, s.Capacity())),
		fld("maxSpeed", vF64(s.MaxSpeed())))
}

func viewB737(c *vctx, s air.B737) *V {
	b, err := s.Base()
	c.err("B737.base", err)
	return sv("B737", !s.IsValid(), fld("base", viewPlaneBase(c, b)))
}

func viewA320(c *vctx, s air.A320) *V {
	b, err := s.Base()
	c.err("A320.base", err)
	return sv("A320", !s.IsValid(), fld("base", viewPlaneBase(c, b)))
}

func viewF16(c *vctx, s air.F16) *V {
	b, err := s.Base()
	c.err("F16.base", err)
	return sv("F16", !s.IsValid(), fld("base", viewPlaneBase(c, b)))
}

func viewAircraft(c *vctx, s air.Aircraft) *V {
	v := sv("Aircraft", !s.IsValid())
	v.HasUnion = true
	v.Disc = uint16(s.Which())
	switch s.Which() {
	case air.Aircraft_Which_void:
		v.Fields = append(v.Fields, VF{Name: "void", Val: vVoid(), Member: true})
	case air.Aircraft_Which_b737:
		x, err := s.B737()
		c.err("Aircraft.b737", err)
		v.Fields = append(v.Fields, VF{Name: "b737", Val: viewB737(c, x), Member: true})
	case air.Aircraft_Which_a320:
		x, err := s.A320()
		c.err("Aircraft.a320", err)
		v.Fields = append(v.Fields, VF{Name: "a320", Val: viewA320(c, x), Member: true})
	case air.Aircraft_Which_f16:
		x, err := s.F16()
		c.err("Aircraft.f16", err)
		v.Fields = append(v.Fields, VF{Name: "f16", Val: viewF16(c, x), Member: true})
	}
	return v
}

func viewAircraftList(c *vctx, l air.Aircraft_List) *V {
	return vList(kStruct, !l.IsValid(), l.Len(), func(i int) *V { return viewAircraft(c, l.At(i)) })
}

func viewF64List(l capnp.Float64List) *V {
	return vList(kF64, !l.IsValid(), l.Len(), func(i int) *V { return vF64(l.At(i)) })
}

func viewRegression(c *vctx, s air.Regression) *V {
	base, err := s.Base()
	c.err("Regression.base", err)
	beta, err := s.Beta()
	c.err("Regression.beta", err)
	planes, err := s.Planes()
	c.err("Regression.planes", err)
	return sv("Regression", !s.IsValid(),
		fld("base", viewPlaneBase(c, base)),
		fld("b0", vF64(s.B0())),
		fld("beta", viewF64List(beta)),
		fld("planes", viewAircraftList(c, planes)),
		fld("ymu", vF64(s.Ymu())),
		fld("ysd", vF64(s.Ysd())))
}

func viewZList(c *vctx, l air.Z_List) *V {
	return vList(kStruct, !l.IsValid(), l.Len(), func(i int) *V { return viewZ(c, l.At(i)) })
}

func viewTextList(c *vctx, where string, l capnp.TextList) *V {
	return vList(kText, !l.IsValid(), l.Len(), func(i int) *V {
		s, err := l.At(i)
		c.err(where, err)
		return vText(s)
	})
}

func viewDataList(c *vctx, where string, l capnp.DataList) *V {
	return vList(kData, !l.IsValid(), l.Len(), func(i int) *V {
		s, err := l.At(i)
		c.err(where, err)
		return vData(s)
	})
}

func viewBitList(l capnp.BitList) *V {
	return vList(kBool, !l.IsValid(), l.Len(), func(i int) *V { return vBool(l.At(i)) })
}

// viewZ lists only the active union member, as obtained from Which() and
// that member's generated getter.
func viewZ(c *vctx, s air.Z) *V {
	v := sv("Z", !s.IsValid())
	v.HasUnion = true
	v.Disc = uint16(s.Which())
	m := func(name string, val *V) {
		v.Fields = append(v.Fields, VF{Name: name, Val: val, Member: true})
	}
	switch s.Which() {
	case air.Z_Which_void:
		m("void", vVoid())
	case air.Z_Which_zz:
		x, err := s.Zz()
		c.err("Z.zz", err)
		m("zz", viewZ(c, x))
	case air.Z_Which_f64:
		m("f64", vF64(s.F64()))
	case air.Z_Which_f32:
		m("f32", vF32(s.F32()))
	case air.Z_Which_i64:
		m("i64", vInt(64, s.I64()))
	case air.Z_Which_i32:
		m("i32", vInt(32, int64(s.I32())))
	case air.Z_Which_i16:
		m("i16", vInt(16, int64(s.I16())))
	case air.Z_Which_i8:
		m("i8", vInt(8, int64(s.I8())))
	case air.Z_Which_u64:
		m("u64", vUint(64, s.U64()))
	case air.Z_Which_u32:
		m("u32", vUint(32, uint64(s.U32())))
	case air.Z_Which_u16:
		m("u16", vUint(16, uint64(s.U16())))
	case air.Z_Which_u8:
		m("u8", vUint(8, uint64(s.U8())))
	case air.Z_Which_bool:
		m("bool", vBool(s.Bool()))
	case air.Z_Which_text:
		x, err := s.Text()
		c.err("Z.text", err)
		m("text", vText(x))
	case air.Z_Which_blob:
		x, err := s.Blob()
		c.err("Z.blob", err)
		m("blob", vData(x))
	case air.Z_Which_f64vec:
		l, err := s.F64vec()
		c.err("Z.f64vec", err)
		m("f64vec", viewF64List(l))
	case air.Z_Which_f32vec:
		l, err := s.F32vec()
		c.err("Z.f32vec", err)
		m("f32vec", vList(kF32, !l.IsValid(), l.Len(), func(i int) *V { return vF32(l.At(i)) }))
	case air.Z_Which_i64vec:
		l, err := s.I64vec()
		c.err("Z.i64vec", err)
		m("i64vec", vList(kInt, !l.IsValid(), l.Len(), func(i int) *V { return vInt(64, l.At(i)) }))
	case air.Z_Which_i32vec:
		l, err := s.I32vec()
		c.err("Z.i32vec", err)
		m("i32vec", vList(kInt, !l.IsValid(), l.Len(), func(i int) *V { return vInt(32, int64(l.At(i))) }))
	case air.Z_Which_i16vec:
		l, err := s.I16vec()
		c.err("Z.i16vec", err)
		m("i16vec", vList(kInt, !l.IsValid(), l.Len(), func(i int) *V { return vInt(16, int64(l.At(i))) }))
	case air.Z_Which_i8vec:
		l, err := s.I8vec()
		c.err("Z.i8vec", err)
		m("i8vec", vList(kInt, !l.IsValid(), l.Len(), func(i int) *V { return vInt(8, int64(l.At(i))) }))
	case air.Z_Which_u64vec:
		l, err := s.U64vec()
		c.err("Z.u64vec", err)
		m("u64vec", vList(kUint, !l.IsValid(), l.Len(), func(i int) *V { return vUint(64, l.At(i)) }))
	case air.Z_Which_u32vec:
		l, err := s.U32vec()
		c.err("Z.u32vec", err)
		m("u32vec", vList(kUint, !l.IsValid(), l.Len(), func(i int) *V { return vUint(32, uint64(l.At(i))) }))
	case air.Z_Which_u16vec:
		l, err := s.U16vec()
		c.err("Z.u16vec", err)
		m("u16vec", vList(kUint, !l.IsValid(), l.Len(), func(i int) *V { return vUint(16, uint64(l.At(i))) }))
	case air.Z_Which_u8vec:
		l, err := s.U8vec()
		c.err("Z.u8vec", err)
		m("u8vec", vList(kUint, !l.IsValid(), l.Len(), func(i int) *V { return vUint(8, uint64(l.At(i))) }))
	case air.Z_Which_boolvec:
		l, err := s.Boolvec()
		c.err("Z.boolvec", err)
		m("boolvec", viewBitList(l))
	case air.Z_Which_datavec:
		l, err := s.Datavec()
		c.err("Z.datavec", err)
		m("datavec", viewDataList(c, "Z.datavec[i]", l))
	case air.Z_Which_textvec:
		l, err := s.Textvec()
		c.err("Z.textvec", err)
		m("textvec", viewTextList(c, "Z.textvec[i]", l))
	case air.Z_Which_zvec:
		l, err := s.Zvec()
		c.err("Z.zvec", err)
		m("zvec", viewZList(c, l))
	case air.Z_Which_zvecvec:
		l, err := s.Zvecvec()
		c.err("Z.zvecvec", err)
		m("zvecvec", vList(kList, !l.IsValid(), l.Len(), func(i int) *V {
			p, err := l.At(i)
			c.err("Z.zvecvec[i]", err)
			return viewZList(c, air.Z_List{List: p.List()})
		}))
	case air.Z_Which_zdate:
		x, err := s.Zdate()
		c.err("Z.zdate", err)
		m("zdate", viewZdate(c, x))
	case air.Z_Which_zdata:
		x, err := s.Zdata()
		c.err("Z.zdata", err)
		m("zdata", viewZdata(c, x))
	case air.Z_Which_aircraftvec:
		l, err := s.Aircraftvec()
		c.err("Z.aircraftvec", err)
		m("aircraftvec", viewAircraftList(c, l))
	case air.Z_Which_aircraft:
		x, err := s.Aircraft()
		c.err("Z.aircraft", err)
		m("aircraft", viewAircraft(c, x))
	case air.Z_Which_regression:
		x, err := s.Regression()
		c.err("Z.regression", err)
		m("regression", viewRegression(c, x))
	case air.Z_Which_planebase:
		x, err := s.Planebase()
		c.err("Z.planebase", err)
		m("planebase", viewPlaneBase(c, x))
	case air.Z_Which_airport:
		m("airport", viewAirport(s.Airport()))
	case air.Z_Which_b737:
		x, err := s.B737()
		c.err("Z.b737", err)
		m("b737", viewB737(c, x))
	case air.Z_Which_a320:
		x, err := s.A320()
		c.err("Z.a320", err)
		m("a320", viewA320(c, x))
	case air.Z_Which_f16:
		x, err := s.F16()
		c.err("Z.f16", err)
		m("f16", viewF16(c, x))
	case air.Z_Which_zdatevec:
		l, err := s.Zdatevec()
		c.err("Z.zdatevec", err)
		m("zdatevec", vList(kStruct, !l.IsValid(), l.Len(), func(i int) *V { return viewZdate(c, l.At(i)) }))
	case air.Z_Which_zdatavec:
		l, err := s.Zdatavec()
		c.err("Z.zdatavec", err)
		m("zdatavec", vList(kStruct, !l.IsValid(), l.Len(), func(i int) *V { return viewZdata(c, l.At(i)) }))
	case air.Z_Which_grp:
		g := s.Grp()
		gv := sv("Z.grp", false,
			fld("first", vUint(64, g.First())),
			fld("second", vUint(64, g.Second())))
		v.Fields = append(v.Fields, VF{Name: "grp", Val: gv, Member: true, Group: true})
	case air.Z_Which_echo:
		m("echo", vCap(s.Echo().Client))
	case air.Z_Which_echoes:
		l, err := s.Echoes()
		c.err("Z.echoes", err)
		m("echoes", vList(kCap, !l.IsValid(), l.Len(), func(i int) *V {
			p, err := l.At(i)
			c.err("Z.echoes[i]", err)
			return vCap(p.Interface().Client())
		}))
	case air.Z_Which_anyPtr:
		p, err := s.AnyPtr()
		c.err("Z.anyPtr", err)
		m("anyPtr", vAny(p))
	case air.Z_Which_anyStruct:
		p, err := s.AnyStruct()
		c.err("Z.anyStruct", err)
		m("anyStruct", vAny(p))
	case air.Z_Which_anyList:
		p, err := s.AnyList()
		c.err("Z.anyList", err)
		m("anyList", vAny(p))
	case air.Z_Which_anyCapability:
		p, err := s.AnyCapability()
		c.err("Z.anyCapability", err)
		m("anyCapability", vAny(p))
	}
	return v
}

func viewCounter(c *vctx, s air.Counter) *V {
	w, err := s.Words()
	c.err("Counter.words", err)
	wl, err := s.Wordlist()
	c.err("Counter.wordlist", err)
	bl, err := s.Bitlist()
	c.err("Counter.bitlist", err)
	return sv("Counter", !s.IsValid(),
		fld("size", vInt(64, s.Size())),
		fld("words", vText(w)),
		fld("wordlist", viewTextList(c, "Counter.wordlist[i]", wl)),
		fld("bitlist", viewBitList(bl)))
}

func viewVerEmpty(c *vctx, s air.VerEmpty) *V { return sv("VerEmpty", !s.IsValid()) }

func viewVerOneData(c *vctx, s air.VerOneData) *V {
	return sv("VerOneData", !s.IsValid(), fld("val", vInt(16, int64(s.Val()))))
}

func viewVerTwoData(c *vctx, s air.VerTwoData) *V {
	return sv("VerTwoData", !s.IsValid(),
		fld("val", vInt(16, int64(s.Val()))),
		fld("duo", vInt(64, s.Duo())))
}

func viewVerTwoDataTwoPtr(c *vctx, s air.VerTwoDataTwoPtr) *V {
	p1, err := s.Ptr1()
	c.err("VerTwoDataTwoPtr.ptr1", err)
	p2, err := s.Ptr2()
	c.err("VerTwoDataTwoPtr.ptr2", err)
	return sv("VerTwoDataTwoPtr", !s.IsValid(),
		fld("val", vInt(16, int64(s.Val()))),
		fld("duo", vInt(64, s.Duo())),
		fld("ptr1", viewVerOneData(c, p1)),
		fld("ptr2", viewVerOneData(c, p2)))
}

func viewVerTwoPtr(c *vctx, s air.VerTwoPtr) *V {
	p1, err := s.Ptr1()
	c.err("VerTwoPtr.ptr1", err)
	p2, err := s.Ptr2()
	c.err("VerTwoPtr.ptr2", err)
	return sv("VerTwoPtr", !s.IsValid(),
		fld("ptr1", viewVerOneData(c, p1)),
		fld("ptr2", viewVerOneData(c, p2)))
}

func viewVerTwoTwoPlus(c *vctx, s air.VerTwoTwoPlus) *V {
	p1, err := s.Ptr1()
	c.err("VerTwoTwoPlus.ptr1", err)
	p2, err := s.Ptr2()
	c.err("VerTwoTwoPlus.ptr2", err)
	l, err := s.Lst3()
	c.err("VerTwoTwoPlus.lst3", err)
	return sv("VerTwoTwoPlus", !s.IsValid(),
		fld("val", vInt(16, int64(s.Val()))),
		fld("duo", vInt(64, s.Duo())),
		fld("ptr1", viewVerTwoDataTwoPtr(c, p1)),
		fld("ptr2", viewVerTwoDataTwoPtr(c, p2)),
		fld("tre", vInt(64, s.Tre())),
		fld("lst3", vList(kInt, !l.IsValid(), l.Len(), func(i int) *V { return vInt(64, l.At(i)) })))
}

func viewHoldsText(c *vctx, s air.HoldsText) *V {
	t, err := s.Txt()
	c.err("HoldsText.txt", err)
	l, err := s.Lst()
	c.err("HoldsText.lst", err)
	ll, err := s.Lstlst()
	c.err("HoldsText.lstlst", err)
	return sv("HoldsText", !s.IsValid(),
		fld("txt", vText(t)),
		fld("lst", viewTextList(c, "HoldsText.lst[i]", l)),
		fld("lstlst", vList(kList, !ll.IsValid(), ll.Len(), func(i int) *V {
			p, err := ll.At(i)
			c.err("HoldsText.lstlst[i]", err)
			return viewTextList(c, "HoldsText.lstlst[i][j]", capnp.TextList{List: p.List()})
		})))
}

func viewVoidUnion(c *vctx, s air.VoidUnion) *V {
	v := sv("VoidUnion", !s.IsValid())
	v.HasUnion = true
	v.Disc = uint16(s.Which())
	switch s.Which() {
	case air.VoidUnion_Which_a:
		v.Fields = append(v.Fields, VF{Name: "a", Val: vVoid(), Member: true})
	case air.VoidUnion_Which_b:
		v.Fields = append(v.Fields, VF{Name: "b", Val: vVoid(), Member: true})
	}
	return v
}

func viewNester1(c *vctx, s air.Nester1Capn) *V {
	l, err := s.Strs()
	c.err("Nester1Capn.strs", err)
	return sv("Nester1Capn", !s.IsValid(), fld("strs", viewTextList(c, "Nester1Capn.strs[i]", l)))
}

func viewRWTest(c *vctx, s air.RWTestCapn) *V {
	m, err := s.NestMatrix()
	c.err("RWTestCapn.nestMatrix", err)
	return sv("RWTestCapn", !s.IsValid(),
		fld("nestMatrix", vList(kList, !m.IsValid(), m.Len(), func(i int) *V {
			p, err := m.At(i)
			c.err("RWTestCapn.nestMatrix[i]", err)
			row := air.Nester1Capn_List{List: p.List()}
			return vList(kStruct, !row.IsValid(), row.Len(), func(j int) *V { return viewNester1(c, row.At(j)) })
		})))
}

func viewStackingB(c *vctx, s air.StackingB) *V {
	return sv("StackingB", !s.IsValid(), fld("num", vInt(32, int64(s.Num()))))
}

func viewStackingA(c *vctx, s air.StackingA) *V {
	b, err := s.B()
	c.err("StackingA.b", err)
	return sv("StackingA", !s.IsValid(),
		fld("num", vInt(32, int64(s.Num()))),
		fld("b", viewStackingB(c, b)))
}

// viewStackingRoot: declaration order is a (@1) then aWithDefault (@0).
func viewStackingRoot(c *vctx, s air.StackingRoot) *V {
	a, err := s.A()
	c.err("StackingRoot.a", err)
	ad, err := s.AWithDefault()
	c.err("StackingRoot.aWithDefault", err)
	return sv("StackingRoot", !s.IsValid(),
		fld("a", viewStackingA(c, a)),
		fld("aWithDefault", viewStackingA(c, ad)))
}

func viewDefaults(c *vctx, s air.Defaults) *V {
	t, err := s.Text()
	c.err("Defaults.text", err)
	d, err := s.Data()
	c.err("Defaults.data", err)
	return sv("Defaults", !s.IsValid(),
		fld("text", vText(t)),
		fld("data", vData(d)),
		fld("float", vF32(s.Float())),
		fld("int", vInt(32, int64(s.Int()))),
		fld("uint", vUint(32, uint64(s.Uint()))))
}

func viewFinish(c *vctx, s rpc.Finish) *V {
	return sv("Finish", !s.IsValid(),
		fld("questionId", vUint(32, uint64(s.QuestionId()))),
		fld("releaseResultCaps", vBool(s.ReleaseResultCaps())))
}
