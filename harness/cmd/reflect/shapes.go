package main

// Root shapes: (schema type, how to build a random message of it, how to view
// a struct of it through the generated accessors).  "Skew" shapes read a
// struct built as one version type through the accessors of another version
// type (VerEmpty … VerTwoTwoPlus are prefix-compatible by construction), which
// is the natural source of struct sections shorter / longer than expected.

import (
	"capnproto.org/go/capnp/v3"
	air "capnproto.org/go/capnp/v3/internal/aircraftlib"
	"capnproto.org/go/capnp/v3/std/capnp/rpc"
)

type shape struct {
	name   string
	typeID uint64
	build  func(b *bctx) capnp.Struct
	view   func(c *vctx, s capnp.Struct) *V
	str    func(s capnp.Struct) string // generated String() method
	weight int
}

var shapes []*shape

func init() {
	add := func(s *shape) { shapes = append(shapes, s) }
	add(&shape{name: "Z", typeID: air.Z_TypeID, weight: 40,
		build: func(b *bctx) capnp.Struct { return b.newZ(2).Struct },
		view:  func(c *vctx, s capnp.Struct) *V { return viewZ(c, air.Z{Struct: s}) },
		str:   func(s capnp.Struct) string { return air.Z{Struct: s}.String() }})
	add(&shape{name: "PlaneBase", typeID: air.PlaneBase_TypeID, weight: 4,
		build: func(b *bctx) capnp.Struct { return b.newPlaneBase().Struct },
		view:  func(c *vctx, s capnp.Struct) *V { return viewPlaneBase(c, air.PlaneBase{Struct: s}) },
		str:   func(s capnp.Struct) string { return air.PlaneBase{Struct: s}.String() }})
	add(&shape{name: "Regression", typeID: air.Regression_TypeID, weight: 3,
		build: func(b *bctx) capnp.Struct { return b.newRegression().Struct },
		view:  func(c *vctx, s capnp.Struct) *V { return viewRegression(c, air.Regression{Struct: s}) },
		str:   func(s capnp.Struct) string { return air.Regression{Struct: s}.String() }})
	add(&shape{name: "Aircraft", typeID: air.Aircraft_TypeID, weight: 3,
		build: func(b *bctx) capnp.Struct { return b.newAircraft().Struct },
		view:  func(c *vctx, s capnp.Struct) *V { return viewAircraft(c, air.Aircraft{Struct: s}) },
		str:   func(s capnp.Struct) string { return air.Aircraft{Struct: s}.String() }})
	add(&shape{name: "A320", typeID: air.A320_TypeID, weight: 1,
		build: func(b *bctx) capnp.Struct {
			x, err := air.NewA320(b.seg)
			b.ck(err)
			b.fillA320(x)
			return b.resized(x.Struct)
		},
		view: func(c *vctx, s capnp.Struct) *V { return viewA320(c, air.A320{Struct: s}) },
		str:  func(s capnp.Struct) string { return air.A320{Struct: s}.String() }})
	add(&shape{name: "F16", typeID: air.F16_TypeID, weight: 1,
		build: func(b *bctx) capnp.Struct {
			x, err := air.NewF16(b.seg)
			b.ck(err)
			b.fillF16(x)
			return b.resized(x.Struct)
		},
		view: func(c *vctx, s capnp.Struct) *V { return viewF16(c, air.F16{Struct: s}) },
		str:  func(s capnp.Struct) string { return air.F16{Struct: s}.String() }})
	add(&shape{name: "Zdate", typeID: air.Zdate_TypeID, weight: 1,
		build: func(b *bctx) capnp.Struct { return b.newZdate().Struct },
		view:  func(c *vctx, s capnp.Struct) *V { return viewZdate(c, air.Zdate{Struct: s}) },
		str:   func(s capnp.Struct) string { return air.Zdate{Struct: s}.String() }})
	add(&shape{name: "Counter", typeID: air.Counter_TypeID, weight: 3,
		build: func(b *bctx) capnp.Struct { return b.newCounter().Struct },
		view:  func(c *vctx, s capnp.Struct) *V { return viewCounter(c, air.Counter{Struct: s}) },
		str:   func(s capnp.Struct) string { return air.Counter{Struct: s}.String() }})
	add(&shape{name: "HoldsText", typeID: air.HoldsText_TypeID, weight: 5,
		build: func(b *bctx) capnp.Struct { return b.newHoldsText().Struct },
		view:  func(c *vctx, s capnp.Struct) *V { return viewHoldsText(c, air.HoldsText{Struct: s}) },
		str:   func(s capnp.Struct) string { return air.HoldsText{Struct: s}.String() }})
	add(&shape{name: "RWTestCapn", typeID: air.RWTestCapn_TypeID, weight: 3,
		build: func(b *bctx) capnp.Struct { return b.newRWTest().Struct },
		view:  func(c *vctx, s capnp.Struct) *V { return viewRWTest(c, air.RWTestCapn{Struct: s}) },
		str:   func(s capnp.Struct) string { return air.RWTestCapn{Struct: s}.String() }})
	add(&shape{name: "StackingRoot", typeID: air.StackingRoot_TypeID, weight: 3,
		build: func(b *bctx) capnp.Struct { return b.newStackingRoot().Struct },
		view:  func(c *vctx, s capnp.Struct) *V { return viewStackingRoot(c, air.StackingRoot{Struct: s}) },
		str:   func(s capnp.Struct) string { return air.StackingRoot{Struct: s}.String() }})
	add(&shape{name: "Defaults", typeID: air.Defaults_TypeID, weight: 6,
		build: func(b *bctx) capnp.Struct { return b.newDefaults().Struct },
		view:  func(c *vctx, s capnp.Struct) *V { return viewDefaults(c, air.Defaults{Struct: s}) },
		str:   func(s capnp.Struct) string { return air.Defaults{Struct: s}.String() }})
	add(&shape{name: "VoidUnion", typeID: air.VoidUnion_TypeID, weight: 1,
		build: func(b *bctx) capnp.Struct { return b.newVoidUnion().Struct },
		view:  func(c *vctx, s capnp.Struct) *V { return viewVoidUnion(c, air.VoidUnion{Struct: s}) },
		str:   func(s capnp.Struct) string { return air.VoidUnion{Struct: s}.String() }})
	add(&shape{name: "Finish", typeID: rpc.Finish_TypeID, weight: 3,
		build: func(b *bctx) capnp.Struct { return b.newFinish().Struct },
		view:  func(c *vctx, s capnp.Struct) *V { return viewFinish(c, rpc.Finish{Struct: s}) },
		str:   func(s capnp.Struct) string { return rpc.Finish{Struct: s}.String() }})

	// version structs, every (built-as, read-as) pair
	type ver struct {
		name   string
		typeID uint64
		build  func(b *bctx) capnp.Struct
		view   func(c *vctx, s capnp.Struct) *V
		str    func(s capnp.Struct) string
	}
	vers := []ver{
		{"VerEmpty", air.VerEmpty_TypeID,
			func(b *bctx) capnp.Struct {
				s, err := air.NewVerEmpty(b.seg)
				b.ck(err)
				return b.resized(s.Struct)
			},
			func(c *vctx, s capnp.Struct) *V { return viewVerEmpty(c, air.VerEmpty{Struct: s}) },
			func(s capnp.Struct) string { return air.VerEmpty{Struct: s}.String() }},
		{"VerOneData", air.VerOneData_TypeID,
			func(b *bctx) capnp.Struct { return b.newVerOneData().Struct },
			func(c *vctx, s capnp.Struct) *V { return viewVerOneData(c, air.VerOneData{Struct: s}) },
			func(s capnp.Struct) string { return air.VerOneData{Struct: s}.String() }},
		{"VerTwoData", air.VerTwoData_TypeID,
			func(b *bctx) capnp.Struct { return b.newVerTwoData().Struct },
			func(c *vctx, s capnp.Struct) *V { return viewVerTwoData(c, air.VerTwoData{Struct: s}) },
			func(s capnp.Struct) string { return air.VerTwoData{Struct: s}.String() }},
		{"VerTwoDataTwoPtr", air.VerTwoDataTwoPtr_TypeID,
			func(b *bctx) capnp.Struct { return b.newVerTwoDataTwoPtr().Struct },
			func(c *vctx, s capnp.Struct) *V { return viewVerTwoDataTwoPtr(c, air.VerTwoDataTwoPtr{Struct: s}) },
			func(s capnp.Struct) string { return air.VerTwoDataTwoPtr{Struct: s}.String() }},
		{"VerTwoPtr", air.VerTwoPtr_TypeID,
			func(b *bctx) capnp.Struct { return b.newVerTwoPtr().Struct },
			func(c *vctx, s capnp.Struct) *V { return viewVerTwoPtr(c, air.VerTwoPtr{Struct: s}) },
			func(s capnp.Struct) string { return air.VerTwoPtr{Struct: s}.String() }},
		{"VerTwoTwoPlus", air.VerTwoTwoPlus_TypeID,
			func(b *bctx) capnp.Struct { return b.newVerTwoTwoPlus().Struct },
			func(c *vctx, s capnp.Struct) *V { return viewVerTwoTwoPlus(c, air.VerTwoTwoPlus{Struct: s}) },
			func(s capnp.Struct) string { return air.VerTwoTwoPlus{Struct: s}.String() }},
	}
	for _, bv := range vers {
		for _, rv := range vers {
			bv, rv := bv, rv
			name := rv.name
			if bv.name != rv.name {
				name = rv.name + "<-" + bv.name
			}
			add(&shape{name: name, typeID: rv.typeID, weight: 1, build: bv.build, view: rv.view, str: rv.str})
		}
	}
}

var shapeTotalWeight int

func pickShape(u uint64) *shape {
	if shapeTotalWeight == 0 {
		for _, s := range shapes {
			shapeTotalWeight += s.weight
		}
	}
	k := int(u % uint64(shapeTotalWeight))
	for _, s := range shapes {
		if k < s.weight {
			return s
		}
		k -= s.weight
	}
	return shapes[0]
}

func shapeByName(n string) *shape {
	for _, s := range shapes {
		if s.name == n {
			return s
		}
	}
	return nil
}
