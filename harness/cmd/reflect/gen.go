package main

// Primitive value generators shared by the C19 and C20 workloads.  Everything
// is a pure function of the RNG handed in.

import (
	"math"

	"capnproto.org/go/capnp/v3/zverif/common"
)

// Byte classes used for Text/Data generation and for coverage counters.
const (
	clsPlain  = iota // printable ASCII other than the specials
	clsDQuote        // "
	clsSQuote        // '
	clsBSlash        // \
	clsNamed         // \a \b \f \n \r \t \v
	clsNUL           // 0x00
	clsCtl           // other < 0x20
	clsDEL           // 0x7f
	clsHigh          // 0x80..0xff
	nCls
)

var clsNames = [nCls]string{"plain", "dquote", "squote", "bslash", "namedctl", "nul", "ctl", "del", "high"}

func byteClass(b byte) int {
	switch {
	case b == '"':
		return clsDQuote
	case b == '\'':
		return clsSQuote
	case b == '\\':
		return clsBSlash
	case b == 0:
		return clsNUL
	case b == '\a' || b == '\b' || b == '\f' || b == '\n' || b == '\r' || b == '\t' || b == '\v':
		return clsNamed
	case b < 0x20:
		return clsCtl
	case b == 0x7f:
		return clsDEL
	case b >= 0x80:
		return clsHigh
	}
	return clsPlain
}

// classMask returns the set of byte classes present in b.
func classMask(b []byte) uint {
	var m uint
	for _, c := range b {
		m |= 1 << uint(byteClass(c))
	}
	return m
}

var specials = []byte{'"', '"', '\\', '\\', '\'', 0, 0x7f, '\n', '\t', '\r', '\a', '\b', '\f', '\v', 0x01, 0x1f, 0x80, 0xff, 0xc3, 0xa9, ')', '(', ',', '=', '[', ']', ' ', 'x', '0'}

// genBytes draws a byte string from all 256 byte values with emphasis on the
// bytes that matter for quoting.  maxLen bounds the usual case; with small
// probability a long string is produced.
func genBytes(r *common.RNG, maxLen int) []byte {
	var n int
	switch r.Intn(20) {
	case 0:
		n = 0
	case 1:
		n = 1
	case 2:
		n = r.Range(maxLen, maxLen*8) // long
	default:
		n = r.Range(1, maxLen)
	}
	b := make([]byte, n)
	style := r.Intn(6)
	for i := range b {
		switch style {
		case 0: // printable only
			b[i] = byte(r.Range(0x20, 0x7e))
		case 1: // uniform over all 256
			b[i] = byte(r.Intn(256))
		case 2: // specials only
			b[i] = specials[r.Intn(len(specials))]
		case 3: // mostly printable, a few specials
			if r.Chance(1, 5) {
				b[i] = specials[r.Intn(len(specials))]
			} else {
				b[i] = byte(r.Range('a', 'z'))
			}
		case 4: // high bytes and controls
			if r.Bool() {
				b[i] = byte(r.Range(0x80, 0xff))
			} else {
				b[i] = byte(r.Range(0, 0x1f))
			}
		default: // things that look like escapes / text syntax
			const alpha = "\\\"'x0179abfnrtv()[]=, "
			b[i] = alpha[r.Intn(len(alpha))]
		}
	}
	return b
}

func genShortBytes(r *common.RNG) []byte { return genBytes(r, 12) }

var f64pool = []uint64{
	0, 0x8000000000000000, // ±0
	0x3ff0000000000000, 0xbff0000000000000, // ±1
	0x7ff0000000000000, 0xfff0000000000000, // ±Inf
	0x7ff8000000000000, 0x7ff8000000000001, 0xfff8000000000000, 0x7ff0000000000001, // NaNs (quiet, payload, negative, signalling)
	0x0000000000000001, 0x000fffffffffffff, 0x0010000000000000, // denormal min/max, normal min
	0x7fefffffffffffff, 0xffefffffffffffff, // ±max
	0x400921fb54442d18, 0x3fb999999999999a, 0x4340000000000000, 0x4340000000000001, // pi, 0.1, 2^53, 2^53+2
	0x3e7ad7f29abcaf48, 0x4415af1d78b58c40, // 1e-7, 1e20
}

func genF64(r *common.RNG) float64 {
	switch r.Intn(4) {
	case 0:
		return math.Float64frombits(f64pool[r.Intn(len(f64pool))])
	case 1:
		return float64(int64(r.Uint64()>>uint(r.Intn(64)))) / float64(r.PickInt(1, 2, 10, 1000, 3))
	default:
		return math.Float64frombits(r.Uint64())
	}
}

var f32pool = []uint32{
	0, 0x80000000, 0x3f800000, 0xbf800000, 0x7f800000, 0xff800000,
	0x7fc00000, 0x7fc00001, 0xffc00000, 0x7f800001, // NaNs incl. signalling
	0x00000001, 0x007fffff, 0x00800000, 0x7f7fffff, 0xff7fffff,
	0x40490fdb, 0x3dcccccd, 0x4b800000, 0x4048f5c3, // pi, 0.1, 2^24, 3.14 (the Defaults default)
}

func genF32(r *common.RNG) float32 {
	switch r.Intn(4) {
	case 0:
		return math.Float32frombits(f32pool[r.Intn(len(f32pool))])
	case 1:
		return float32(int32(uint32(r.Uint64())>>uint(r.Intn(32)))) / float32(r.PickInt(1, 2, 10, 1000, 3))
	default:
		return math.Float32frombits(uint32(r.Uint64()))
	}
}

// genInt returns a signed integer of the given bit width, biased to boundaries.
func genInt(r *common.RNG, bits uint) int64 {
	min := -(int64(1) << (bits - 1))
	max := (int64(1) << (bits - 1)) - 1
	switch r.Intn(4) {
	case 0:
		pool := []int64{0, 1, -1, min, max, min + 1, max - 1, 2, -2, 10, -10, 127, 128, -128, -129, 255, 256, 32767, 32768, -32768, -32769, 65535, 65536, 2147483647, 2147483648, -2147483648, -2147483649, -123, 42}
		v := pool[r.Intn(len(pool))]
		if v < min || v > max {
			// wrap into range the way a Go conversion would
			v = wrapInt(v, bits)
		}
		return v
	case 1:
		return wrapInt(int64(r.Uint64()>>uint(r.Intn(64))), bits)
	default:
		return wrapInt(int64(r.Uint64()), bits)
	}
}

func wrapInt(v int64, bits uint) int64 {
	if bits == 64 {
		return v
	}
	sh := 64 - bits
	return (v << sh) >> sh
}

func genUint(r *common.RNG, bits uint) uint64 {
	var mask uint64 = math.MaxUint64
	if bits < 64 {
		mask = (uint64(1) << bits) - 1
	}
	switch r.Intn(4) {
	case 0:
		pool := []uint64{0, 1, 2, 10, 42, 127, 128, 255, 256, 32767, 32768, 65535, 65536, 1<<31 - 1, 1 << 31, 1<<32 - 1, 1 << 32, 1<<63 - 1, 1 << 63, math.MaxUint64, math.MaxUint64 - 1}
		return pool[r.Intn(len(pool))] & mask
	case 1:
		return (r.Uint64() >> uint(r.Intn(64))) & mask
	default:
		return r.Uint64() & mask
	}
}

// genEnum returns an enum value: mostly in range [0,n), sometimes the first
// values out of range, sometimes anything.
func genEnum(r *common.RNG, n int) uint16 {
	switch r.Intn(6) {
	case 0:
		return uint16(n + r.Intn(3))
	case 1:
		return uint16(r.PickInt(255, 256, 32767, 32768, 65534, 65535, int(r.Uint64()&0xffff)))
	default:
		return uint16(r.Intn(n))
	}
}

// genLen returns a list length biased to 0/1/7/8/9.
func genLen(r *common.RNG, max int) int {
	if max <= 0 {
		return 0
	}
	switch r.Intn(8) {
	case 0:
		return 0
	case 1:
		return 1
	case 2:
		v := r.PickInt(7, 8, 9, 63, 64, 65)
		if v > max {
			v = max
		}
		return v
	default:
		return r.Intn(max + 1)
	}
}
