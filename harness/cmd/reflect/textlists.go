package main

// C20 mode lists: one long-lived Encoder driven through an interleaving of
// Encode and EncodeList calls over MANY different struct types and
// list-of-struct types.  "The output depends only on the struct and schema":
// every rendering must equal what a fresh encoder gives for the same value,
// whatever the encoder rendered before -- in particular whatever element type
// an earlier EncodeList was called with.
//
// A list value is made from any root shape of shapes.go: n structs are built
// with the shape's builder (generated setters, stale union bytes, short / long
// sections) and copied into one composite list whose element size is the size
// of one of them (so lists with skewed element sizes occur too).  The list's
// view is the shape's accessor view applied to every element.  The fresh
// rendering (text.MarshalList, and a brand new Encoder's EncodeList, which must
// agree) is parsed by the blind reference parser and compared with that view;
// the long-lived encoder's outputs are compared with the fresh rendering.

import (
	"bytes"
	"fmt"
	"strings"

	"capnproto.org/go/capnp/v3"
	"capnproto.org/go/capnp/v3/encoding/text"
	"capnproto.org/go/capnp/v3/zverif/common"
)

type listValue struct {
	shape *shape
	base  string // schema type of the elements (shape name without "<-built-as")
	msg   *capnp.Message
	l     capnp.List
	fresh string
}

func baseTypeName(sh *shape) string {
	if k := strings.Index(sh.name, "<-"); k >= 0 {
		return sh.name[:k]
	}
	return sh.name
}

// buildListValue builds a list of n structs of shape sh, renders it on fresh
// encoders and checks that rendering against the accessor view.  ok=false
// means the case cannot go on (a violation or an inconclusive was recorded).
func (t *textRun) buildListValue(i uint64, sh *shape, rng *common.RNG, n int, resize bool) (lv *listValue, ok bool) {
	rec := t.rec
	b := newBctx(rng.Fork())
	b.noCaps = true
	b.maxStr = 8
	b.maxLen = 3
	b.resize = resize
	b.stale = true
	var l capnp.List
	var v *V
	vc := &vctx{}
	if p := common.Guard(func() {
		elems := make([]capnp.Struct, n)
		for j := range elems {
			elems[j] = sh.build(b)
		}
		// element size: that of one of the structs built (an empty list
		// still needs one to learn the schema's size)
		var sz capnp.ObjectSize
		if n > 0 {
			sz = elems[rng.Intn(n)].Size()
		} else {
			sz = sh.build(b).Size()
		}
		var err error
		l, err = capnp.NewCompositeList(b.seg, sz, int32(n))
		b.ck(err)
		if err != nil {
			return
		}
		for j := range elems {
			b.ck(l.Struct(j).CopyFrom(elems[j]))
		}
		v = vList(kStruct, false, l.Len(), func(j int) *V { return sh.view(vc, l.Struct(j)) })
	}); p != nil {
		rec.Inconclusive("harness list builder/view panicked: " + p.Value)
		rec.Logf("%s", p.Stack)
		return nil, false
	}
	if len(b.errs) > 0 || len(vc.errs) > 0 {
		rec.Inconclusive(fmt.Sprintf("harness could not build/view List(%s): %v %v", sh.name, b.errs, vc.errs))
		return nil, false
	}
	base := baseTypeName(sh)
	input := map[string]interface{}{"shape": "List(" + sh.name + ")", "len": n, "segment": common.Hex(msgBytes(b.msg))}
	var f1, f2 string
	var e1, e2 error
	if p := common.Guard(func() {
		f1, e1 = text.MarshalList(sh.typeID, l)
		b.msg.ResetReadLimit(64 << 20)
		var buf bytes.Buffer
		e2 = text.NewEncoder(&buf).EncodeList(sh.typeID, l)
		f2 = buf.String()
	}); p != nil {
		rec.Violate("panic/text.MarshalList/"+common.TopLibFrame(p.Stack), "text.MarshalList / a fresh Encoder's EncodeList panicked on a well-formed List("+sh.name+"): "+p.Value, i, p.Stack, input)
		return nil, false
	}
	if e1 != nil || e2 != nil {
		rec.Violate("text/error/MarshalList/"+base, fmt.Sprintf("text.MarshalList / a fresh Encoder's EncodeList failed on a well-formed List(%s): %v %v", sh.name, e1, e2), i, "", input)
		return nil, false
	}
	if f1 != f2 {
		rec.Violate("text/nondeterministic/MarshalList/"+base, "text.MarshalList and a fresh Encoder's EncodeList render the same list differently", i, f1+"\n"+f2, input)
		return nil, false
	}
	if !t.checkRendered(i, "EncodeList", "List("+sh.name+")", f1, v, input) {
		return nil, false
	}
	rec.Count("lists_checked", 1)
	rec.Count("listelem_"+base, 1)
	if l.Len() == 0 {
		rec.Count("lists_empty", 1)
	}
	return &listValue{shape: sh, base: base, msg: b.msg, l: l, fresh: f1}, true
}

// encodeListStep renders lv on enc (whose output goes to buf) and compares
// with the fresh rendering.  prev names what the encoder's last EncodeList was
// called with ("" = none yet).  Returns false after recording a violation.
func (t *textRun) encodeListStep(i uint64, enc *text.Encoder, buf *bytes.Buffer, lv *listValue, prev string, step int, tail []string) bool {
	rec := t.rec
	lv.msg.ResetReadLimit(64 << 20)
	buf.Reset()
	if prev == "" {
		prev = "no-list"
	}
	input := map[string]interface{}{"shape": "List(" + lv.shape.name + ")", "segment": common.Hex(msgBytes(lv.msg)), "previous_EncodeList": prev, "last_steps": tail}
	var err error
	if p := common.Guard(func() { err = enc.EncodeList(lv.shape.typeID, lv.l) }); p != nil {
		rec.Violate("panic/Encoder.EncodeList/"+common.TopLibFrame(p.Stack),
			fmt.Sprintf("EncodeList(List(%s)) panicked on a used Encoder (step %d, previous EncodeList: %s) although a fresh encoder renders the same list: %s", lv.shape.name, step, prev, p.Value), i, p.Stack, input)
		return false
	}
	if err != nil {
		rec.Violate("text/history-error/EncodeList/"+lv.base+"-after-"+prev,
			fmt.Sprintf("EncodeList(List(%s)) failed on a used Encoder (step %d, previous EncodeList: %s) although a fresh encoder renders the same list: %v", lv.shape.name, step, prev, err), i,
			fmt.Sprintf("error=%v\nfresh: %s\nlast steps: %v", err, truncS(lv.fresh, 800), tail), input)
		return false
	}
	if buf.String() != lv.fresh {
		rec.Violate("text/history-divergence/EncodeList/"+lv.base+"-after-"+prev,
			fmt.Sprintf("EncodeList(List(%s)) on a used Encoder (step %d, previous EncodeList: %s) silently rendered different text than a fresh encoder / text.MarshalList for the same list", lv.shape.name, step, prev), i,
			fmt.Sprintf("used encoder: %s\nfresh:        %s\nlast steps: %v", truncS(buf.String(), 800), truncS(lv.fresh, 800), tail), input)
		return false
	}
	return true
}

func (t *textRun) runLists(i uint64, rng *common.RNG) {
	rec := t.rec
	n := 300
	if t.cfg.Extra != "" {
		fmt.Sscanf(t.cfg.Extra, "%d", &n)
	}
	// Pool of lists: 6 consecutive shapes of the shape table (so that over the
	// cases of a tier every shape, skew shapes included, is a list element
	// type; neighbours in the table have different type IDs) + 2 weighted
	// random ones (mostly Z).
	const nConsec = 6
	var lists []*listValue
	for k := 0; k < nConsec+2; k++ {
		var sh *shape
		if k < nConsec {
			sh = shapes[(int(i)*nConsec+k)%len(shapes)]
		} else {
			sh = pickShape(rng.Uint64())
		}
		ln := rng.PickInt(0, 1, 2, 3, 3, 5)
		if k < 2 && ln == 0 {
			ln = 2 // the two lists of the forced opening must show their fields
		}
		lv, ok := t.buildListValue(i, sh, rng, ln, k%2 == 1)
		if !ok {
			return
		}
		lists = append(lists, lv)
	}
	if lists[0].shape.typeID == lists[1].shape.typeID {
		rec.Inconclusive("harness: the first two lists of a lists case have the same element type")
		return
	}
	ids := map[uint64]bool{}
	for _, lv := range lists {
		ids[lv.shape.typeID] = true
	}
	rec.Count("lists_distinct_elem_types_in_pool", int64(len(ids)))
	// Pool of structs for Encode.
	var structs []*histValue
	for k := 0; k < 4; k++ {
		sh := pickShape(rng.Uint64())
		hv, err := t.buildHist(sh.name, rng)
		if err != nil {
			rec.Inconclusive("harness: " + err.Error())
			return
		}
		vc := &vctx{}
		if !t.checkRendered(i, "Marshal", sh.name, hv.fresh, sh.view(vc, hv.s), map[string]string{"shape": sh.name}) {
			return
		}
		structs = append(structs, hv)
	}
	rec.Distinct(common.Hash64([]byte("lists"), msgBytes(lists[0].msg), msgBytes(lists[1].msg), []byte(lists[1].fresh)))

	var buf bytes.Buffer
	enc := text.NewEncoder(&buf)
	prev := "" // element type of the last EncodeList
	lastWasEncode := false
	var tail []string
	for k := 0; k < n; k++ {
		doList := rng.Chance(3, 5)
		var lv *listValue
		switch {
		case k == 0:
			doList, lv = true, lists[0]
		case k == 1:
			doList, lv = true, lists[1] // a direct change of element type
		case doList:
			lv = lists[rng.Intn(len(lists))]
		}
		if doList {
			tail = append(tail, "EncodeList("+lv.shape.name+")")
			if len(tail) > 24 {
				tail = tail[len(tail)-24:]
			}
			if !t.encodeListStep(i, enc, &buf, lv, prev, k+1, tail) {
				return
			}
			rec.Count("lists_encodelist_calls", 1)
			if prev != "" && prev != lv.base {
				rec.Count("lists_elem_type_switches", 1)
			}
			if lastWasEncode {
				rec.Count("lists_encodelist_after_encode", 1)
			}
			prev = lv.base
			lastWasEncode = false
			continue
		}
		hv := structs[rng.Intn(len(structs))]
		tail = append(tail, "Encode("+hv.shape.name+")")
		if len(tail) > 24 {
			tail = tail[len(tail)-24:]
		}
		hv.msg.ResetReadLimit(64 << 20)
		buf.Reset()
		var err error
		input := map[string]interface{}{"shape": hv.shape.name, "segment": common.Hex(msgBytes(hv.msg)), "last_steps": tail}
		if p := common.Guard(func() { err = enc.Encode(hv.shape.typeID, hv.s) }); p != nil {
			rec.Violate("panic/Encoder.Encode/"+common.TopLibFrame(p.Stack), fmt.Sprintf("Encoder.Encode panicked on an Encoder also used for EncodeList (step %d): %s", k+1, p.Value), i, p.Stack, input)
			return
		}
		rec.Count("lists_encode_calls", 1)
		if err != nil || buf.String() != hv.fresh {
			rec.Violate("text/history-divergence/Encode-after-EncodeList/"+baseTypeName(hv.shape),
				fmt.Sprintf("Encode(%s) on an Encoder also used for EncodeList (step %d, err=%v) differs from a fresh encoder's rendering of the same struct", hv.shape.name, k+1, err), i,
				fmt.Sprintf("used encoder: %s\nfresh:        %s\nlast steps: %v", truncS(buf.String(), 800), truncS(hv.fresh, 800), tail), input)
			return
		}
		lastWasEncode = true
	}
	rec.Count("lists_histories_clean", 1)
}
