package main

// C19: pogs round-trips and agrees with generated accessors.

import (
	"bytes"
	"fmt"
	"reflect"
	"strings"

	"capnproto.org/go/capnp/v3"
	air "capnproto.org/go/capnp/v3/internal/aircraftlib"
	"capnproto.org/go/capnp/v3/pogs"
	"capnproto.org/go/capnp/v3/zverif/common"
)

// deepMultiField names the embed types whose innermost struct (>= 3 levels of
// anonymous embedding down) maps two or more schema fields.
var deepMultiField = map[string]bool{"E4TwoFields": true, "E5TwoFields": true, "E4TwoEmbedded": true, "E4Zdate": true,
	"E4ZdatePtr": true, "E4ZdateRenamed": true, "E4ZdateSplit": true, "E4PlaneBase": true}

type pogsRun struct {
	rec *common.Recorder
	cfg *common.Config
}

// dumpGo renders a Go value with pointers followed (bounded).
func dumpGo(v reflect.Value, depth int) string {
	if !v.IsValid() {
		return "<invalid>"
	}
	if depth > 8 {
		return "…"
	}
	t := v.Type()
	switch t {
	case tClient:
		return fmt.Sprintf("client(%v)", !v.IsNil())
	case tEcho:
		return fmt.Sprintf("Echo(%v)", !v.Field(0).IsNil())
	case tPtr:
		return fmt.Sprintf("Ptr(valid=%v)", v.Interface().(capnp.Ptr).IsValid())
	case tStruct:
		return fmt.Sprintf("Struct(valid=%v)", v.Interface().(capnp.Struct).IsValid())
	case tList:
		return fmt.Sprintf("List(valid=%v)", v.Interface().(capnp.List).IsValid())
	}
	switch v.Kind() {
	case reflect.Ptr:
		if v.IsNil() {
			return "nil"
		}
		return "&" + dumpGo(v.Elem(), depth+1)
	case reflect.Slice:
		if t.Elem().Kind() == reflect.Uint8 {
			if v.IsNil() {
				return "[]byte(nil)"
			}
			return fmt.Sprintf("x%x", trunc(v.Bytes(), 40))
		}
		if v.IsNil() {
			return "nil"
		}
		var sb strings.Builder
		sb.WriteString("[")
		for i := 0; i < v.Len(); i++ {
			if i > 0 {
				sb.WriteString(" ")
			}
			if i >= 8 {
				fmt.Fprintf(&sb, "…(%d)", v.Len())
				break
			}
			sb.WriteString(dumpGo(v.Index(i), depth+1))
		}
		sb.WriteString("]")
		return sb.String()
	case reflect.Struct:
		var sb strings.Builder
		sb.WriteString(t.Name() + "{")
		first := true
		for i := 0; i < v.NumField(); i++ {
			f := v.Field(i)
			if f.IsZero() {
				continue
			}
			if !first {
				sb.WriteString(" ")
			}
			first = false
			sb.WriteString(t.Field(i).Name + ":" + dumpGo(f, depth+1))
		}
		sb.WriteString("}")
		return sb.String()
	case reflect.String:
		return fmt.Sprintf("s%x", trunc([]byte(v.String()), 40))
	case reflect.Float32, reflect.Float64:
		return fmt.Sprintf("%v", v.Float())
	}
	return fmt.Sprintf("%v", v.Interface())
}

func (p *pogsRun) countGen(g *ggen) {
	rec := p.rec
	for m, n := range g.members {
		rec.Count("member_"+m, int64(n))
	}
	rec.Count("which_without_go_field", int64(g.nNoGo))
	rec.Count("which_out_of_range", int64(g.nOOR))
	for c := 0; c < nCls; c++ {
		if g.clsMask&(1<<uint(c)) != 0 {
			rec.Count("cls_"+clsNames[c], 1)
		}
	}
}

// insertInto inserts val (pointer to struct) into a fresh message whose root
// has the given size.  Returns the message, root struct, error, panic.
func insertInto(m *goMapping, size capnp.ObjectSize, val interface{}) (*capnp.Message, capnp.Struct, error, *common.Panic) {
	msg, seg, err := capnp.NewMessage(capnp.SingleSegment(nil))
	if err != nil {
		return nil, capnp.Struct{}, fmt.Errorf("harness NewMessage: %v", err), nil
	}
	root, err := capnp.NewRootStruct(seg, size)
	if err != nil {
		return nil, capnp.Struct{}, fmt.Errorf("harness NewRootStruct: %v", err), nil
	}
	var ierr error
	pn := common.Guard(func() { ierr = pogs.Insert(m.typeID, root, val) })
	return msg, root, ierr, pn
}

// memberOf names the active union member of a Go value (or "-" if none).
func memberOf(v reflect.Value) string {
	if v.Kind() == reflect.Ptr {
		if v.IsNil() {
			return "-"
		}
		v = v.Elem()
	}
	ti := infoOf(v.Type())
	if ti.members == nil {
		return "-"
	}
	w, ok := ti.whichOf(v)
	if !ok {
		return "-"
	}
	for n, d := range ti.members {
		if d == w {
			return n
		}
	}
	return "unknown-discriminant"
}

// expectedAfterRoundTrip adjusts the clean value for documented default
// handling: a null struct pointer reads back as the schema default.
func expectedAfterRoundTrip(cl reflect.Value) reflect.Value {
	e := deepCopy(cl)
	if sr, ok := e.Interface().(*GStackingRoot); ok && sr.AWithDefault == nil {
		sr.AWithDefault = &GStackingA{Num: 42}
	}
	return e
}

func (p *pogsRun) viewOf(m *goMapping, s capnp.Struct) (*V, []string) {
	sh := shapeByName(m.schema)
	vc := &vctx{}
	var v *V
	if pn := common.Guard(func() { v = sh.view(vc, s) }); pn != nil {
		return nil, []string{"view panicked: " + pn.Value + "\n" + pn.Stack}
	}
	return v, vc.errs
}

func (p *pogsRun) runValues(i uint64, rng *common.RNG)   { p.valueCase(i, rng, false) }
func (p *pogsRun) runMessages(i uint64, rng *common.RNG) { p.messageCase(i, rng, false) }
func (p *pogsRun) runEmbed(i uint64, rng *common.RNG) {
	if i%2 == 0 {
		p.valueCase(i, rng, true)
	} else {
		p.messageCase(i, rng, true)
	}
}

func (p *pogsRun) valueCase(i uint64, rng *common.RNG, embed bool) {
	rec := p.rec
	m := pickMapping(rng.Uint64(), embed)
	g := newGgen(rng.Fork())
	g.maxStr = rng.PickInt(4, 10, 30)
	g.maxLen = rng.PickInt(2, 5, 8)
	gv := reflect.New(m.typ)
	if pn := common.Guard(func() { g.fill(gv.Elem(), 2, false) }); pn != nil {
		rec.Inconclusive("harness generator panicked: " + pn.Value)
		rec.Logf("%s", pn.Stack)
		return
	}
	p.countGen(g)
	g.members = map[string]int{}
	g.nNoGo, g.nOOR = 0, 0
	cl := deepCopy(gv)
	clean(cl.Elem())
	exp := expectedAfterRoundTrip(cl)
	dirty := deepCopy(gv)
	g.poisonInactive(dirty.Elem(), "")
	member := memberOf(cl)
	tag := m.name
	if member != "-" {
		tag = m.name + "." + member
	}
	input := map[string]interface{}{"type": m.name, "value": dumpGo(cl, 0)}
	rec.Count("gotype_"+m.name, 1)
	if strings.HasPrefix(m.name, "E3") || strings.HasPrefix(m.name, "E4") || strings.HasPrefix(m.name, "E5") {
		rec.Count("embed_depth3plus_values", 1)
	}
	if deepMultiField[m.name] {
		rec.Count("embed_deep_multifield_values", 1)
	}

	// 1. Insert the clean value.
	msgA, rootA, err, pn := insertInto(m, m.size, cl.Interface())
	if pn != nil {
		rec.Violate("panic/pogs.Insert/"+common.TopLibFrame(pn.Stack), "pogs.Insert panicked on "+tag+": "+pn.Value, i, pn.Stack, input)
		return
	}
	if err != nil {
		rec.Violate("pogs/insert-error/"+tag, fmt.Sprintf("pogs.Insert failed on a legal %s value: %v", m.name, err), i, "", input)
		return
	}
	input["segment"] = common.Hex(msgBytes(msgA))
	rec.Distinct(common.Hash64([]byte(m.name), msgBytes(msgA)))

	// 2. What Insert wrote, read through the generated accessors.
	v, verrs := p.viewOf(m, rootA)
	if len(verrs) > 0 {
		rec.Violate("pogs/insert-unreadable/"+tag, fmt.Sprintf("generated accessors fail on the message pogs.Insert produced: %v", verrs), i, "", input)
		return
	}
	gc := newGcmp()
	if mm := gc.cmp(m.name, m.name, exp.Elem(), v); mm != nil {
		rec.Violate("pogs/insert-vs-getter/"+mm.field, fmt.Sprintf("after pogs.Insert the generated accessor disagrees with the Go value at %s: %s", mm.path, mm.msg), i,
			"accessors: "+truncS(v.shortString(), 1500), input)
		return
	}
	for k, n := range gc.leaves {
		rec.Count("leaf_"+k, int64(n))
	}
	rec.Count("inserts_checked", 1)

	// 3. Round trip.
	out := reflect.New(m.typ)
	var xerr error
	if pn := common.Guard(func() { xerr = pogs.Extract(out.Interface(), m.typeID, rootA) }); pn != nil {
		rec.Violate("panic/pogs.Extract/"+common.TopLibFrame(pn.Stack), "pogs.Extract panicked on "+tag+": "+pn.Value, i, pn.Stack, input)
		return
	}
	if xerr != nil {
		rec.Violate("pogs/extract-error/"+tag, fmt.Sprintf("pogs.Extract failed on what pogs.Insert wrote: %v", xerr), i, "", input)
		return
	}
	if d := normEqual(m.name, exp.Elem(), out.Elem(), false); d != "" {
		rec.Violate("pogs/roundtrip/"+tag, fmt.Sprintf("Extract(Insert(g)) differs from g at %s", d), i,
			"in:  "+truncS(dumpGo(exp, 0), 1500)+"\nout: "+truncS(dumpGo(out, 0), 1500), input)
		return
	}
	rec.Count("roundtrips_ok", 1)

	// 4. Byte-diff monitor: garbage outside the active member / in omitted
	// and ignored fields must not change a single byte of the message.
	msgB, _, err, pn := insertInto(m, m.size, dirty.Interface())
	if pn != nil {
		rec.Violate("panic/pogs.Insert/"+common.TopLibFrame(pn.Stack), "pogs.Insert panicked on "+tag+" with garbage in unused fields: "+pn.Value, i, pn.Stack, input)
		return
	}
	if err != nil {
		rec.Violate("pogs/inactive-member-read/insert-error/"+tag, fmt.Sprintf("pogs.Insert fails only when fields outside the active member hold garbage: %v", err), i, "dirty: "+truncS(dumpGo(dirty, 0), 1500), input)
		return
	}
	if !bytes.Equal(msgBytes(msgA), msgBytes(msgB)) {
		culprit := p.findWrittenMember(m, gv, msgBytes(msgA), g)
		sig := "pogs/inactive-member-written/" + culprit
		if infoOf(m.typ).members == nil || !isUnionMember(m, culprit) {
			sig = "pogs/unmapped-field-written/" + culprit
		}
		rec.Violate(sig, fmt.Sprintf("pogs.Insert of %s writes different bytes when fields outside the active member (%s) / the mapping hold garbage", m.name, member), i,
			fmt.Sprintf("clean: %x\ndirty: %x\ndirty value: %s", trunc(msgBytes(msgA), 400), trunc(msgBytes(msgB), 400), truncS(dumpGo(dirty, 0), 1500)), input)
		return
	}
	rec.Count("bytediff_checked", 1)

	// 5. Poison monitor: Extract into a pre-filled target.
	if !p.poisonExtract(i, m, rootA, out, g, tag, input) {
		return
	}

	// 6. Struct sections shorter / longer than the schema's.
	if rng.Chance(1, 3) {
		p.sizedInsert(i, rng, m, cl, exp, tag, input)
	}
	if rec.WantSample() {
		rec.Sample(map[string]string{"type": m.name, "value": truncS(dumpGo(cl, 0), 300)})
	}
}

// isUnionMember reports whether "Schema.name" names a union member of the
// mapping's schema type (as opposed to an omitted / ignored Go field).
func isUnionMember(m *goMapping, qualified string) bool {
	name := strings.TrimPrefix(qualified, m.schema+".")
	_, ok := unionMembers[m.schema][name]
	return ok
}

// findWrittenMember poisons one unused field at a time to name the one whose
// garbage reaches the message.
func (p *pogsRun) findWrittenMember(m *goMapping, gv reflect.Value, cleanBytes []byte, g *ggen) string {
	ti := infoOf(m.typ)
	qual := m.schema
	if ti.members == nil {
		qual = m.name
	}
	var names []string
	for _, path := range ti.leafPaths() {
		key := pathKey(path)
		name := ti.byPath[key]
		if name == "" {
			name = m.typ.FieldByIndex(path).Name
		}
		names = append(names, name)
	}
	for _, name := range names {
		d := deepCopy(gv)
		g.poisonInactive(d.Elem(), name)
		msg, _, err, pn := insertInto(m, m.size, d.Interface())
		if pn != nil || err != nil || !bytes.Equal(msgBytes(msg), cleanBytes) {
			return qual + "." + name
		}
	}
	return qual + ".nested"
}

func (p *pogsRun) poisonExtract(i uint64, m *goMapping, s capnp.Struct, fresh reflect.Value, g *ggen, tag string, input interface{}) bool {
	rec := p.rec
	tgt := reflect.New(m.typ)
	if pn := common.Guard(func() { g.poisonAll(tgt.Elem()) }); pn != nil {
		rec.Inconclusive("harness poison generator panicked: " + pn.Value)
		rec.Logf("%s", pn.Stack)
		return false
	}
	snap := deepCopy(tgt)
	var xerr error
	if pn := common.Guard(func() { xerr = pogs.Extract(tgt.Interface(), m.typeID, s) }); pn != nil {
		rec.Violate("panic/pogs.Extract/"+common.TopLibFrame(pn.Stack), "pogs.Extract into a pre-filled "+m.name+" panicked: "+pn.Value, i, pn.Stack, input)
		return false
	}
	if xerr != nil {
		rec.Violate("pogs/inactive-member-read/extract-error/"+tag, fmt.Sprintf("pogs.Extract fails only when the target is pre-filled: %v", xerr), i, "", input)
		return false
	}
	kind, d := checkPoison(m.name, tgt.Elem(), snap.Elem(), fresh.Elem())
	switch {
	case kind == "":
		rec.Count("poison_extract_checked", 1)
		return true
	case strings.HasPrefix(kind, "touched/"):
		q := strings.TrimPrefix(kind, "touched/")
		fsig := "pogs/unmapped-field-touched/"
		if k := strings.Index(q, "."); k >= 0 {
			if _, ok := unionMembers[q[:k]][q[k+1:]]; ok {
				fsig = "pogs/inactive-member-touched/"
			}
		}
		rec.Violate(fsig+q,
			fmt.Sprintf("pogs.Extract into a pre-filled %s changed a Go field outside the active member / the mapping: %s", m.name, d), i,
			"before: "+truncS(dumpGo(snap, 0), 1500)+"\nafter:  "+truncS(dumpGo(tgt, 0), 1500), input)
	default:
		rec.Violate("pogs/prefilled-target-differs/"+tag,
			fmt.Sprintf("pogs.Extract into a pre-filled %s gives a different mapped value than into a zero value, at %s", m.name, d), i,
			"fresh:     "+truncS(dumpGo(fresh, 0), 1500)+"\nprefilled: "+truncS(dumpGo(tgt, 0), 1500), input)
	}
	return false
}

func (p *pogsRun) sizedInsert(i uint64, rng *common.RNG, m *goMapping, cl, exp reflect.Value, tag string, input interface{}) {
	rec := p.rec
	size := m.size
	long := rng.Bool()
	if long {
		size.DataSize += capnp.Size(8 * rng.Range(0, 2))
		size.PointerCount += uint16(rng.Range(0, 2))
		if size == m.size {
			size.DataSize += 8
		}
	} else {
		if size.DataSize == 0 && size.PointerCount == 0 {
			return
		}
		for size == m.size {
			if m.size.DataSize > 0 {
				size.DataSize = capnp.Size(rng.Intn(int(m.size.DataSize) + 1))
			}
			if m.size.PointerCount > 0 {
				size.PointerCount = uint16(rng.Intn(int(m.size.PointerCount) + 1))
			}
		}
	}
	_, root, err, pn := insertInto(m, size, cl.Interface())
	what := "short"
	if long {
		what = "long"
	}
	if pn != nil {
		rec.Violate("panic/pogs.Insert/"+what+"-struct/"+common.TopLibFrame(pn.Stack), fmt.Sprintf("pogs.Insert of %s into a struct of size %v panicked: %s", tag, size, pn.Value), i, pn.Stack, input)
		return
	}
	if err != nil {
		if long {
			rec.Violate("pogs/insert-error/long-struct/"+tag, fmt.Sprintf("pogs.Insert into a struct larger than the schema's (%v) failed: %v", size, err), i, "", input)
			return
		}
		rec.Count("short_insert_refused", 1)
		return
	}
	out := reflect.New(m.typ)
	var xerr error
	if pn := common.Guard(func() { xerr = pogs.Extract(out.Interface(), m.typeID, root) }); pn != nil {
		rec.Violate("panic/pogs.Extract/"+what+"-struct/"+common.TopLibFrame(pn.Stack), "pogs.Extract panicked: "+pn.Value, i, pn.Stack, input)
		return
	}
	if xerr != nil {
		rec.Violate("pogs/extract-error/"+what+"-struct/"+tag, fmt.Sprintf("pogs.Extract from a %s struct (%v) failed: %v", what, size, xerr), i, "", input)
		return
	}
	if d := normEqual(m.name, exp.Elem(), out.Elem(), false); d != "" {
		rec.Violate("pogs/"+what+"-struct-roundtrip/"+tag, fmt.Sprintf("pogs.Insert into a struct of size %v reported success but the value does not read back (%s): a field that does not fit was dropped silently", size, d), i,
			"in:  "+truncS(dumpGo(exp, 0), 1200)+"\nout: "+truncS(dumpGo(out, 0), 1200), input)
		return
	}
	rec.Count(what+"_insert_ok", 1)
}

// ---------------------------------------------------------------------------

func shapesReadAs(schema string) []*shape {
	var out []*shape
	for _, s := range shapes {
		if s.name == schema || strings.HasPrefix(s.name, schema+"<-") {
			out = append(out, s)
		}
	}
	return out
}

func (p *pogsRun) messageCase(i uint64, rng *common.RNG, embed bool) {
	rec := p.rec
	m := pickMapping(rng.Uint64(), embed)
	cands := shapesReadAs(m.schema)
	if len(cands) == 0 {
		rec.Inconclusive("harness: no shape for " + m.schema)
		return
	}
	sh := shapeByName(m.schema)
	if sh == nil || (len(cands) > 1 && rng.Bool()) {
		sh = cands[rng.Intn(len(cands))]
	}
	b := newBctx(rng.Fork())
	b.resize = true
	b.stale = true
	b.maxStr = rng.PickInt(4, 10, 30)
	b.maxLen = rng.PickInt(2, 5, 8)
	var s capnp.Struct
	var v *V
	vc := &vctx{}
	if pn := common.Guard(func() {
		s = sh.build(b)
		v = sh.view(vc, s)
	}); pn != nil {
		rec.Inconclusive("harness builder/view panicked: " + pn.Value)
		rec.Logf("%s", pn.Stack)
		return
	}
	if len(b.errs) > 0 || len(vc.errs) > 0 {
		rec.Inconclusive(fmt.Sprintf("harness could not build/view %s: %v %v", sh.name, b.errs, vc.errs))
		return
	}
	member := "-"
	if v.HasUnion && len(v.Fields) > 0 {
		member = v.Fields[0].Name
	}
	tag := m.name
	if member != "-" {
		tag = m.name + "." + member
	}
	input := map[string]interface{}{"type": m.name, "shape": sh.name, "segment": common.Hex(msgBytes(b.msg)), "struct_size": fmt.Sprint(s.Size()), "accessors": truncS(v.shortString(), 600)}
	rec.Count("gotype_"+m.name, 1)
	if strings.HasPrefix(m.name, "E3") || strings.HasPrefix(m.name, "E4") || strings.HasPrefix(m.name, "E5") {
		rec.Count("embed_depth3plus_messages", 1)
	}
	if deepMultiField[m.name] {
		rec.Count("embed_deep_multifield_messages", 1)
	}
	rec.Count("shape_"+sh.name, 1)
	for mm, n := range b.members {
		rec.Count("zmember_"+mm, int64(n))
	}
	rec.Count("resized_short", int64(b.nShort))
	rec.Count("resized_long", int64(b.nLong))
	rec.Count("stale_union_bytes", int64(b.nStale))
	rec.Distinct(common.Hash64([]byte(m.name), []byte(sh.name), msgBytes(b.msg)))

	out := reflect.New(m.typ)
	var xerr error
	if pn := common.Guard(func() { xerr = pogs.Extract(out.Interface(), m.typeID, s) }); pn != nil {
		rec.Violate("panic/pogs.Extract/"+common.TopLibFrame(pn.Stack), "pogs.Extract panicked on a well-formed "+sh.name+": "+pn.Value, i, pn.Stack, input)
		return
	}
	if xerr != nil {
		rec.Violate("pogs/extract-error/"+tag, fmt.Sprintf("pogs.Extract failed on a well-formed %s message: %v", sh.name, xerr), i, "", input)
		return
	}
	gc := newGcmp()
	if mm := gc.cmp(m.name, m.name, out.Elem(), v); mm != nil {
		rec.Violate("pogs/extract-vs-getter/"+mm.field, fmt.Sprintf("pogs.Extract disagrees with the generated accessor at %s: %s", mm.path, mm.msg), i,
			"extracted: "+truncS(dumpGo(out, 0), 1500)+"\naccessors: "+truncS(v.shortString(), 1500), input)
		return
	}
	for k, n := range gc.leaves {
		rec.Count("leaf_"+k, int64(n))
	}
	rec.Count("fields_without_go_field", int64(gc.skipped))
	rec.Count("extracts_checked", 1)

	g := newGgen(rng.Fork())
	if !p.poisonExtract(i, m, s, out, g, tag, input) {
		return
	}

	// Fixed union (doc.go): a Go struct with exactly one union field and no Which.
	if m.schema == "Z" && sh.name == "Z" {
		var f GZFlag
		f.Flag = true
		z := air.Z{Struct: s}
		var ferr error
		if pn := common.Guard(func() { ferr = pogs.Extract(&f, air.Z_TypeID, s) }); pn != nil {
			rec.Violate("panic/pogs.Extract/"+common.TopLibFrame(pn.Stack), "pogs.Extract into a fixed-union struct panicked: "+pn.Value, i, pn.Stack, input)
			return
		}
		if z.Which() == air.Z_Which_bool {
			if ferr != nil {
				rec.Violate("pogs/extract-error/fixed-union", fmt.Sprintf("Extract into a struct fixed to the active member failed: %v", ferr), i, "", input)
				return
			}
			if f.Flag != z.Bool() {
				rec.Violate("pogs/extract-vs-getter/Z.bool/fixed-union", "fixed-union Extract disagrees with Bool()", i, "", input)
				return
			}
			rec.Count("fixed_union_match", 1)
		} else {
			if ferr == nil {
				rec.Violate("pogs/inactive-member-read/fixed-union", fmt.Sprintf("Extract into a struct fixed to member bool succeeded although the active member is %d: it read a field outside the active member", z.Which()), i, "", input)
				return
			}
			if f.Flag != true {
				rec.Violate("pogs/inactive-member-touched/Z.bool/fixed-union", "failed fixed-union Extract still overwrote the Go field", i, "", input)
				return
			}
			rec.Count("fixed_union_mismatch_refused", 1)
		}
	}
	if rec.WantSample() {
		rec.Sample(map[string]string{"type": m.name, "shape": sh.name, "accessors": truncS(v.shortString(), 300)})
	}
}

// ---------------------------------------------------------------------------
// mode history: pogs looks every struct up in a schema message it caches for
// the duration of one call; a call that handles many structs must behave like
// one that handles few.  N (elements) and n (repeated calls) are constants of
// the tier, passed in -extra as "N,n".

func (p *pogsRun) runHistory(i uint64, rng *common.RNG) {
	rec := p.rec
	N, n := 6000, 2000
	if p.cfg.Extra != "" {
		fmt.Sscanf(p.cfg.Extra, "%d,%d", &N, &n)
	}
	kinds := []string{"Z.zvec", "Z.zdatevec", "Z.aircraftvec"}
	kind := kinds[int(i)%len(kinds)]
	// each case uses a different size so that a budget is crossed at different points
	N = N + int(i/uint64(len(kinds)))*N/2
	if kind != "Z.zvec" {
		N *= 4 // small structs: more of them
	}

	b := newBctx(rng.Fork())
	b.noCaps = true
	b.maxStr = 6
	b.maxLen = 2
	z, err := air.NewRootZ(b.seg)
	if err != nil {
		rec.Inconclusive("harness: " + err.Error())
		return
	}
	if pn := common.Guard(func() {
		switch kind {
		case "Z.zvec":
			l, err := z.NewZvec(int32(N))
			b.ck(err)
			for k := 0; k < N; k++ {
				b.fillZ(l.At(k), 0)
			}
		case "Z.zdatevec":
			l, err := z.NewZdatevec(int32(N))
			b.ck(err)
			for k := 0; k < N; k++ {
				b.fillZdate(l.At(k))
			}
		default:
			l, err := z.NewAircraftvec(int32(N))
			b.ck(err)
			for k := 0; k < N; k++ {
				b.fillAircraft(l.At(k))
			}
		}
	}); pn != nil || len(b.errs) > 0 {
		rec.Inconclusive(fmt.Sprintf("harness could not build %s with %d elements: %v", kind, N, b.errs))
		return
	}
	// the data message's own budget is not what is being measured
	b.msg.ResetReadLimit(1 << 40)
	vc := &vctx{}
	v := viewZ(vc, z)
	if len(vc.errs) > 0 {
		rec.Inconclusive(fmt.Sprintf("harness: accessor errors: %v", vc.errs[:1]))
		return
	}
	m := goMappings[0] // GZ
	input := map[string]interface{}{"kind": kind, "elements": N}
	rec.Distinct(common.Hash64([]byte("history"), []byte(kind), msgBytes(b.msg)))
	rec.Count("history_elements", int64(N))
	rec.Max("max_history_elements", int64(N))

	out := new(GZ)
	var xerr error
	b.msg.ResetReadLimit(1 << 40)
	if pn := common.Guard(func() { xerr = pogs.Extract(out, air.Z_TypeID, z.Struct) }); pn != nil {
		rec.Violate("panic/pogs.Extract/"+common.TopLibFrame(pn.Stack), "pogs.Extract panicked: "+pn.Value, i, pn.Stack, input)
		return
	}
	if xerr != nil {
		rec.Violate("pogs/history-error/Extract/"+kind, fmt.Sprintf("one pogs.Extract call on a %s with %d elements fails although every element is well-formed (fewer elements extract fine): %v", kind, N, xerr), i, "", input)
		return
	}
	gc := newGcmp()
	if mm := gc.cmp("GZ", "GZ", reflect.ValueOf(out).Elem(), v); mm != nil {
		rec.Violate("pogs/history-divergence/Extract/"+kind, fmt.Sprintf("pogs.Extract of a %s with %d elements disagrees with the accessors at %s: %s", kind, N, mm.path, mm.msg), i, "", input)
		return
	}
	msg2, root2, ierr, pn := insertInto(m, m.size, out)
	if pn != nil {
		rec.Violate("panic/pogs.Insert/"+common.TopLibFrame(pn.Stack), "pogs.Insert panicked: "+pn.Value, i, pn.Stack, input)
		return
	}
	if ierr != nil {
		rec.Violate("pogs/history-error/Insert/"+kind, fmt.Sprintf("one pogs.Insert call of a %s with %d elements fails although fewer elements insert fine: %v", kind, N, ierr), i, "", input)
		return
	}
	msg2.ResetReadLimit(1 << 40)
	vc2 := &vctx{}
	v2 := viewZ(vc2, air.Z{Struct: root2})
	if len(vc2.errs) > 0 {
		rec.Violate("pogs/insert-unreadable/history/"+kind, fmt.Sprintf("accessors fail on the inserted message: %v", vc2.errs[:1]), i, "", input)
		return
	}
	gc2 := newGcmp()
	if mm := gc2.cmp("GZ", "GZ", reflect.ValueOf(out).Elem(), v2); mm != nil {
		rec.Violate("pogs/history-divergence/Insert/"+kind, fmt.Sprintf("pogs.Insert of a %s with %d elements disagrees with the accessors at %s: %s", kind, N, mm.path, mm.msg), i, "", input)
		return
	}
	rec.Count("history_big_calls_ok", 1)

	// n repeated calls in one process on a small message must keep agreeing.
	sb := newBctx(rng.Fork())
	sb.noCaps = true
	small := sb.newZ(1)
	if len(sb.errs) > 0 {
		rec.Inconclusive("harness: small Z")
		return
	}
	first := new(GZ)
	if err := pogs.Extract(first, air.Z_TypeID, small.Struct); err != nil {
		rec.Violate("pogs/extract-error/GZ", "Extract failed: "+err.Error(), i, "", input)
		return
	}
	for k := 0; k < n; k++ {
		sb.msg.ResetReadLimit(64 << 20)
		o := new(GZ)
		var err error
		if pn := common.Guard(func() { err = pogs.Extract(o, air.Z_TypeID, small.Struct) }); pn != nil {
			rec.Violate("panic/pogs.Extract/"+common.TopLibFrame(pn.Stack), "pogs.Extract panicked: "+pn.Value, i, pn.Stack, input)
			return
		}
		if err != nil {
			rec.Violate("pogs/history-error/Extract/repeat", fmt.Sprintf("call %d of pogs.Extract on the same struct failed: %v", k+2, err), i, "", input)
			return
		}
		if d := normEqual("GZ", reflect.ValueOf(first).Elem(), reflect.ValueOf(o).Elem(), false); d != "" {
			rec.Violate("pogs/history-divergence/Extract/repeat", fmt.Sprintf("call %d of pogs.Extract on the same struct gave a different value at %s", k+2, d), i, "", input)
			return
		}
		_, _, ierr, pn := insertInto(m, m.size, o)
		if pn != nil || ierr != nil {
			rec.Violate("pogs/history-error/Insert/repeat", fmt.Sprintf("call %d of pogs.Insert failed: %v %v", k+1, ierr, pn), i, "", input)
			return
		}
		rec.Count("history_calls", 2)
	}
}

// ---------------------------------------------------------------------------
// mode prefilled: Insert into a destination struct that already holds data
// (built with generated setters, by an earlier Insert, or both; for unions
// this includes another member occupying the shared slots).  Insert "copies
// val into s": for every field the Go value maps (and, in a union, for the
// active member) the generated accessors on the destination must afterwards
// show the Go value, exactly as they do after an Insert into a fresh struct,
// and Extract must give the value back.  Nothing is asserted about schema
// fields the Go type does not map or about inactive members.

func (p *pogsRun) runPrefilled(i uint64, rng *common.RNG) {
	rec := p.rec
	m := pickMapping(rng.Uint64(), false)
	sh := shapeByName(m.schema)
	if sh == nil {
		rec.Inconclusive("harness: no shape for " + m.schema)
		return
	}
	how := rng.Intn(3) // 0 setters, 1 earlier Insert, 2 both
	b := newBctx(rng.Fork())
	b.stale = true
	b.maxStr = 8
	b.maxLen = 4
	g := newGgen(rng.Fork())
	g.maxStr = 8
	g.maxLen = 4
	var dst capnp.Struct
	if pn := common.Guard(func() {
		if how == 1 {
			var err error
			dst, err = capnp.NewStruct(b.seg, m.size)
			b.ck(err)
		} else {
			dst = sh.build(b) // resize is off: full-size struct
		}
	}); pn != nil || len(b.errs) > 0 {
		rec.Inconclusive(fmt.Sprintf("harness could not build destination %s: %v", sh.name, b.errs))
		return
	}
	if how >= 1 {
		g0 := reflect.New(m.typ)
		if pn := common.Guard(func() { g.fill(g0.Elem(), 2, false) }); pn != nil {
			rec.Inconclusive("harness generator panicked: " + pn.Value)
			return
		}
		clean(g0.Elem())
		var err error
		if pn := common.Guard(func() { err = pogs.Insert(m.typeID, dst, g0.Interface()) }); pn != nil || err != nil {
			rec.Violate("pogs/insert-error/prefilled-first/"+m.name, fmt.Sprintf("first Insert into the destination failed: %v %v", err, pn), i, "", map[string]string{"type": m.name, "value": dumpGo(g0, 0)})
			return
		}
	}
	if dst.Size() != m.size {
		rec.Inconclusive(fmt.Sprintf("harness: destination %s has size %v, want %v", sh.name, dst.Size(), m.size))
		return
	}
	// what the destination holds before
	vc0 := &vctx{}
	var pre *V
	common.Guard(func() { pre = sh.view(vc0, dst) })
	preBytes := common.Hex(msgBytes(b.msg))
	hadPtr := false
	for k := 0; k < int(m.size.PointerCount); k++ {
		if dst.HasPtr(uint16(k)) {
			hadPtr = true
		}
	}

	g.sparse = true
	gv := reflect.New(m.typ)
	if pn := common.Guard(func() {
		g.fill(gv.Elem(), 2, false)
		allocEmbedded(gv.Elem())
	}); pn != nil {
		rec.Inconclusive("harness generator panicked: " + pn.Value)
		rec.Logf("%s", pn.Stack)
		return
	}
	cl := deepCopy(gv)
	clean(cl.Elem())
	exp := expectedAfterRoundTrip(cl)
	member := memberOf(cl)
	tag := m.name
	if member != "-" {
		tag = m.name + "." + member
	}
	input := map[string]interface{}{"type": m.name, "prepared_by": []string{"setters", "insert", "setters+insert"}[how],
		"value": dumpGo(cl, 0), "destination_before": truncS(pre.shortString(), 800), "segment_before": preBytes}
	rec.Count("prefilled_cases", 1)
	rec.Count("prefilled_how_"+[]string{"setters", "insert", "both"}[how], 1)
	rec.Count("gotype_"+m.name, 1)
	rec.Distinct(common.Hash64([]byte("prefilled"), []byte(m.name), msgBytes(b.msg), []byte(dumpGo(cl, 0))))
	// coverage: nil struct pointers / nil slices / empty text landing on occupied slots
	if hadPtr {
		ti := infoOf(m.typ)
		for name, path := range ti.fields {
			if !ti.active(cl.Elem(), name) {
				continue
			}
			f := fieldAt(cl.Elem(), path, false)
			if !f.IsValid() {
				continue
			}
			old := pre.field(name)
			occupied := old != nil && (old.K == kStruct && !old.Null || old.K == kList && !old.Null || (old.K == kText || old.K == kData) && len(old.S) > 0)
			if ti.members != nil {
				occupied = dst.HasPtr(0) // every pointer member of Z / Aircraft shares slot 0
			}
			if !occupied {
				continue
			}
			switch {
			case f.Kind() == reflect.Ptr && f.Type() != tClient && f.IsNil():
				rec.Count("prefilled_nil_struct_over_occupied", 1)
			case f.Kind() == reflect.Slice && f.Len() == 0:
				rec.Count("prefilled_empty_slice_over_occupied", 1)
			case f.Kind() == reflect.String && f.Len() == 0:
				rec.Count("prefilled_empty_text_over_occupied", 1)
			}
		}
	}

	var ierr error
	if pn := common.Guard(func() { ierr = pogs.Insert(m.typeID, dst, cl.Interface()) }); pn != nil {
		rec.Violate("panic/pogs.Insert/prefilled/"+common.TopLibFrame(pn.Stack), "pogs.Insert into a pre-populated "+m.schema+" panicked: "+pn.Value, i, pn.Stack, input)
		return
	}
	if ierr != nil {
		rec.Violate("pogs/insert-error/prefilled/"+tag, fmt.Sprintf("pogs.Insert into a pre-populated %s failed: %v", m.schema, ierr), i, "", input)
		return
	}
	// If the active union member has no Go field, Insert only sets the
	// discriminant and the shared slots keep whatever they held (not covered
	// by the value): the accessors may then legitimately fail on them.
	covered := true
	if ti := infoOf(m.typ); ti.members != nil {
		_, covered = ti.fields[member]
	}
	vc := &vctx{}
	var v *V
	if !covered {
		rec.Count("prefilled_active_member_without_go_field", 1)
		v = &V{K: kStruct, TypeName: m.schema, HasUnion: true}
		if w, ok := infoOf(m.typ).whichOf(cl.Elem()); ok {
			v.Disc = w
		}
		if got := dst.Uint16(0); got != v.Disc { // Z and Aircraft keep the discriminant at offset 0
			rec.Violate("pogs/prefilled-dest/insert-vs-getter/"+m.schema+".Which", fmt.Sprintf("discriminant is %d after Insert of Which=%d", got, v.Disc), i, "", input)
			return
		}
	} else if pn := common.Guard(func() { v = sh.view(vc, dst) }); pn != nil || len(vc.errs) > 0 {
		rec.Violate("pogs/insert-unreadable/prefilled/"+tag, fmt.Sprintf("generated accessors fail on the destination after Insert: %v %v", vc.errs, pn), i, "", input)
		return
	}
	gc := newGcmp()
	if mm := gc.cmp(m.name, m.name, exp.Elem(), v); mm != nil {
		rec.Violate("pogs/prefilled-dest/insert-vs-getter/"+mm.field,
			fmt.Sprintf("after pogs.Insert into a pre-populated struct the generated accessor does not show the inserted value at %s: %s (a fresh destination does)", mm.path, mm.msg), i,
			"accessors after: "+truncS(v.shortString(), 1200), input)
		return
	}
	out := reflect.New(m.typ)
	var xerr error
	if pn := common.Guard(func() { xerr = pogs.Extract(out.Interface(), m.typeID, dst) }); pn != nil {
		rec.Violate("panic/pogs.Extract/prefilled/"+common.TopLibFrame(pn.Stack), "pogs.Extract panicked: "+pn.Value, i, pn.Stack, input)
		return
	}
	if xerr != nil {
		rec.Violate("pogs/extract-error/prefilled/"+tag, fmt.Sprintf("pogs.Extract failed after Insert into a pre-populated struct: %v", xerr), i, "", input)
		return
	}
	if d := normEqual(m.name, exp.Elem(), out.Elem(), false); d != "" {
		rec.Violate("pogs/prefilled-dest/roundtrip/"+tag, fmt.Sprintf("Extract(Insert(g)) on a pre-populated destination differs from g at %s", d), i,
			"in:  "+truncS(dumpGo(exp, 0), 1200)+"\nout: "+truncS(dumpGo(out, 0), 1200), input)
		return
	}
	rec.Count("prefilled_ok", 1)
}
