package main

// Go mapping types for pogs (C19) following the conventions documented in
// pogs/doc.go: default lower-cased names, `capnp:"name"` renames, `capnp:"-"`
// omissions, embedded structs (value and pointer, named and anonymous),
// struct fields by value and by pointer, Text as string and as []byte,
// interfaces as air.Echo and as *capnp.Client, explicit Which fields.

import (
	"reflect"

	"capnproto.org/go/capnp/v3"
	air "capnproto.org/go/capnp/v3/internal/aircraftlib"
	"capnproto.org/go/capnp/v3/std/capnp/rpc"
)

type GZdate struct {
	Year  int16
	Month uint8
	Day   uint8
}

type GZdata struct {
	Data []byte
}

type GPlaneBase struct {
	Name     string
	Homes    []air.Airport
	Rating   int64
	CanFly   bool
	Capacity int64
	MaxSpeed float64
}

// GPlaneBaseR is PlaneBase with every field renamed.
type GPlaneBaseR struct {
	Callsign []byte        `capnp:"name"`
	Bases    []air.Airport `capnp:"homes"`
	Stars    int64         `capnp:"rating"`
	Flies    bool          `capnp:"canFly"`
	Seats    int64         `capnp:"capacity"`
	VMax     float64       `capnp:"maxSpeed"`
	Notes    string        `capnp:"-"`
}

type GB737 struct {
	Base *GPlaneBase
}

// GA320 embeds its base under an explicit name (doc: "An anonymous struct
// field with a name given in its capnp tag is treated as having that name").
type GA320 struct {
	GPlaneBase `capnp:"base"`
}

type GF16 struct {
	Base GPlaneBaseR
}

type GAircraft struct {
	Which air.Aircraft_Which
	B737  *GB737
	A320  GA320
	F16   *GF16
}

type GRegression struct {
	Base   *GPlaneBase
	B0     float64
	Beta   []float64
	Planes []GAircraft
	Ymu    float64
	Ysd    float64
}

type GZGroup struct {
	First  uint64
	Second uint64
}

type GFloats struct {
	F64 float64
	F32 float32
}

type GInts struct {
	I64 int64
	I32 int32
	I16 int16
	I8  int8
}

// GZ maps every member of Z that pogs can map (Void has no Go type).
type GZ struct {
	Which air.Z_Which
	Zz    *GZ

	GFloats // embedded by value: f64, f32
	*GInts  // embedded by pointer: i64 … i8

	U64        uint64
	U32        uint32
	Unsigned16 uint16 `capnp:"u16"`
	U8         uint8
	Flag       bool `capnp:"bool"`
	Text       string
	Blob       []byte

	F64vec []float64
	F32vec []float32
	I64vec []int64
	I32vec []int32
	I16vec []int16
	I8vec  []int8
	U64vec []uint64
	U32vec []uint32
	U16vec []uint16
	U8vec  []uint8

	Boolvec []bool
	Datavec [][]byte
	Textvec []string

	Zvec    []*GZ
	Zvecvec [][]*GZ

	Zdate       GZdate
	Zdata       *GZdata
	Aircraftvec []GAircraft
	Aircraft    *GAircraft
	Regression  *GRegression
	Planebase   *GPlaneBase
	Airport     air.Airport
	B737        GB737
	A320        *GA320
	F16         *GF16
	Zdatevec    []GZdate
	Zdatavec    []*GZdata

	Grp *GZGroup

	Echo   air.Echo
	Echoes []air.Echo

	AnyPtr        capnp.Ptr
	AnyStruct     capnp.Struct
	AnyList       capnp.List
	AnyCapability *capnp.Client

	Scratch uint32 `capnp:"-"`
}

// GZb maps a subset of Z's members with the alternative Go representations:
// Text as []byte, struct fields and list elements by value, interfaces as
// *capnp.Client.  Members without a Go field are simply not represented.
type GZb struct {
	Which     air.Z_Which
	Zz        *GZb
	I64       int64
	Bool      bool
	Text      []byte
	Textvec   [][]byte
	Zvec      []GZb
	Zvecvec   [][]GZb
	Planebase GPlaneBaseR
	Grp       GZGroup
	Zdate     *GZdate
	Aircraft  GAircraft
	Echo      *capnp.Client
	Echoes    []*capnp.Client
	Note      string `capnp:"-"`
}

// GZFlag fixes the union to the bool member (doc: "if only one union field
// exists in the struct, then the union will always be fixed to that field").
type GZFlag struct {
	Flag bool `capnp:"bool"`
}

type GDefaults struct {
	Text  string
	Data  []byte
	Float float32
	Int   int32
	Uint  uint32
}

type GDefaultsB struct {
	Txt  []byte  `capnp:"text"`
	Data []byte  `capnp:"data"`
	F    float32 `capnp:"float"`
	I    int32   `capnp:"int"`
	// uint omitted on purpose: schema fields without a Go field are skipped
}

type GStackingB struct{ Num int32 }
type GStackingA struct {
	Num int32
	B   *GStackingB
}
type GStackingRoot struct {
	A            *GStackingA
	AWithDefault *GStackingA
}

type GFinish struct {
	QuestionId        uint32
	ReleaseResultCaps bool
}

type GCounter struct {
	Size     int64
	Words    string
	Wordlist []string
	Bitlist  []bool
}

type GHoldsText struct {
	Txt    string
	Lst    []string
	Lstlst [][]string
}

type GHoldsTextB struct {
	Txt    []byte
	Lst    [][]byte
	Lstlst [][][]byte
}

type GNester1 struct{ Strs []string }
type GRWTest struct {
	NestMatrix [][]GNester1
}

type GVerEmpty struct{}
type GVerOneData struct{ Val int16 }
type GVerTwoData struct {
	Val int16
	Duo int64
}
type GVerTwoDataTwoPtr struct {
	Val  int16
	Duo  int64
	Ptr1 *GVerOneData
	Ptr2 GVerOneData
}
// GXPtrs is mapped onto two different schemas (VerTwoPtr: ordinals 0,1;
// VerTwoDataTwoPtr: ordinals 2,3) within one process: a Go type is not tied to
// one schema (seeded defect C19-5: field mapping cached per Go type).
type GXPtrs struct {
	Ptr1 *GVerOneData
	Ptr2 *GVerOneData
}
type GVerTwoTwoPlus struct {
	Val  int16
	Duo  int64
	Ptr1 *GVerTwoDataTwoPtr
	Ptr2 *GVerTwoDataTwoPtr
	Tre  int64
	Lst3 []int64
}

// --- embedding rules (doc.go "Embedding") on VerOneData / VerTwoData -------

type EVal struct{ Val int16 }
type EValNoTag struct{ Val int16 }
type EValTag1 struct {
	Val int16 `capnp:"val"`
}
type EValTag2 struct {
	Val int16 `capnp:"val"`
}
type EValNoTag2 struct{ Val int16 }
type ELevel2 struct{ Val int16 }
type ELevel1 struct {
	ELevel2
	Duo int64
}

type EOne struct{ EVal } // plain embedding
type EOuterWins struct { // shallower field wins
	Val int16
	EVal
}
type ENoTags struct { // two untagged at the same depth: all ignored, no error
	EVal
	EValNoTag
}
type EOneTag struct { // the tagged one wins
	EVal
	EValTag1
}
type EOneTagPlus struct {
	EVal
	EValTag1
	EValNoTag
}
type ETwoTags struct { // two tagged at the same depth: all ignored
	EValTag1
	EValTag2
}
type EPtr struct { // embedded pointer
	*EVal
	Duo int64
}
type EOmit struct { // embedded but omitted
	EVal `capnp:"-"`
	Duo  int64
}
type EUntaggedFirst struct { // two untagged, then the tagged one: tagged wins
	EVal
	EValNoTag
	EValTag1
}
type EThreeNoTags struct { // three untagged at the same depth: all ignored
	EVal
	EValNoTag
	EValNoTag2
}
type ECollideThenDeeper struct { // ambiguous at depth 2 hides depth 3 as well
	EVal
	EValNoTag
	ELevel1
}
type ELevel1t struct {
	EValTag1
	Duo int64
}
type ECollideThenDeeperTagged struct { // a deeper tagged field does not win either
	EVal
	EValNoTag
	ELevel1t
}
type ELevel1p struct {
	*ELevel2
	Duo int64
}
type EDeepPtr struct{ *ELevel1p } // two levels of embedded pointers
type EDeep struct{ ELevel1 }      // two levels of embedding (val at depth 3, duo at depth 2)
type EShallow struct {            // val at depth 2 hides val at depth 3
	ELevel1
	EVal
}

// --- embedding of depth 3 and more: "least nested level wins" must not depend
// on the order in which sibling embedded structs are declared or walked ------

type ENear struct{ Val int16 }
type ENearTag struct {
	Val int16 `capnp:"val"`
}
type ENearDuo struct{ Duo int64 }
type ELeafA struct{ Val int16 }
type ELeafB struct{ Val int16 }
type EDeepPair struct { // two untagged val fields colliding two levels down
	ELeafA
	ELeafB
}
type EDeepPairTagged struct { // two tagged val fields colliding two levels down
	EValTag1
	EValTag2
}
type EDeepPairP struct { // the same through embedded pointers
	*ELeafA
	*ELeafB
}
type EWrapPair struct{ EDeepPair } // pushes the collision one level further down
type EWrapOne struct{ ELeafA }     // a single, deeper val (no collision)

type E3NearFirst struct { // unique val at depth 2, declared before the deeper collision
	ENear
	EDeepPair
}
type E3DeepFirst struct { // same, other declaration order
	EDeepPair
	ENear
}
type E3NearFirstTagged struct { // deeper collision between tagged fields
	ENear
	EDeepPairTagged
}
type E3DeepFirstTagged struct {
	EDeepPairTagged
	ENear
}
type E3NearTagFirst struct { // the shallow one is tagged
	ENearTag
	EDeepPair
}
type E3DeepFirstNearTag struct {
	EDeepPair
	ENearTag
}
type E3PtrNearFirst struct { // everything embedded by pointer
	*ENear
	*EDeepPairP
}
type E3PtrDeepFirst struct {
	*EDeepPairP
	*ENear
}
type E4NearFirst struct { // collision at depth 4
	ENear
	EWrapPair
}
type E4DeepFirst struct {
	EWrapPair
	ENear
}
type E3NearVsSingleDeep struct { // no collision: shallower single hides deeper single
	ENear
	EWrapOne
}
type E3SingleDeepVsNear struct {
	EWrapOne
	ENear
}
type E3OnlyDeepCollision struct { // nothing shallower: val is ignored, duo still mapped (VerTwoData)
	EDeepPair
	ENearDuo
}
type E3MixedTwoData struct { // VerTwoData: val unique shallow, duo unique deep, val collision deep
	ENear
	EDeepPair
	ELevel1d
}
type ELevel1d struct{ ELevel2d }
type ELevel2d struct{ Duo int64 }

// --- three and more levels of anonymous embedding whose INNERMOST struct maps
// several schema fields (index paths of length >= 4 with siblings) -----------

type EIn2 struct { // VerTwoData: two fields of different Go types
	Val int16
	Duo int64
}
type EIn2L3 struct{ EIn2 }
type EIn2L2 struct{ EIn2L3 }
type E4TwoFields struct{ EIn2L2 } // Top{L1{L2{Inner{Val;Duo}}}}
type EIn2L1 struct{ EIn2L2 }
type E5TwoFields struct{ EIn2L1 } // one level more

type EInVal struct{ Val int16 }
type EInDuo struct{ Duo int64 }
type EIn2e struct { // innermost level made of two embedded structs
	EInVal
	EInDuo
}
type EIn2eL2 struct{ EIn2e }
type E4TwoEmbedded struct{ EIn2eL2 }

type EZIn struct { // Zdate: three fields, two of the same Go type
	Year  int16
	Month uint8
	Day   uint8
}
type EZL3 struct{ EZIn }
type EZL2 struct{ EZL3 }
type E4Zdate struct{ EZL2 }
type EZL3p struct{ *EZIn }
type EZL2p struct{ *EZL3p }
type E4ZdatePtr struct{ *EZL2p } // the same through embedded pointers
type EZInR struct {              // renamed + omitted in the innermost struct
	Y    int16 `capnp:"year"`
	Skip uint8 `capnp:"-"`
	M    uint8 `capnp:"month"`
	D    uint8 `capnp:"day"`
}
type EZL3r struct{ EZInR }
type EZL2r struct{ EZL3r }
type E4ZdateRenamed struct{ EZL2r }
type EZSplit3 struct { // fields spread over levels 2, 3 and 4
	EZSplit2
	Day uint8
}
type EZSplit2 struct {
	EZSplit1
	Month uint8
}
type EZSplit1 struct{ EZYear }
type EZYear struct{ Year int16 }
type E4ZdateSplit struct{ EZSplit3 }

type EPL3 struct{ GPlaneBase } // PlaneBase: six fields incl. text and list at depth 4
type EPL2 struct{ EPL3 }
type E4PlaneBase struct{ EPL2 }

// ---------------------------------------------------------------------------

type goMapping struct {
	name    string
	typ     reflect.Type
	schema  string // schema struct name (shape name to build/view with)
	typeID  uint64
	newRoot func(seg *capnp.Segment) (capnp.Struct, error)
	size    capnp.ObjectSize
	weight  int
	embed   bool // belongs to the embed mode
}

var goMappings []*goMapping

// unionMembers: schema struct name -> member name -> discriminant (from the
// generated Which constants).
var unionMembers = map[string]map[string]uint16{
	"Aircraft": {
		"void": uint16(air.Aircraft_Which_void), "b737": uint16(air.Aircraft_Which_b737),
		"a320": uint16(air.Aircraft_Which_a320), "f16": uint16(air.Aircraft_Which_f16),
	},
	"Z": {
		"void": uint16(air.Z_Which_void), "zz": uint16(air.Z_Which_zz), "f64": uint16(air.Z_Which_f64), "f32": uint16(air.Z_Which_f32),
		"i64": uint16(air.Z_Which_i64), "i32": uint16(air.Z_Which_i32), "i16": uint16(air.Z_Which_i16), "i8": uint16(air.Z_Which_i8),
		"u64": uint16(air.Z_Which_u64), "u32": uint16(air.Z_Which_u32), "u16": uint16(air.Z_Which_u16), "u8": uint16(air.Z_Which_u8),
		"bool": uint16(air.Z_Which_bool), "text": uint16(air.Z_Which_text), "blob": uint16(air.Z_Which_blob),
		"f64vec": uint16(air.Z_Which_f64vec), "f32vec": uint16(air.Z_Which_f32vec), "i64vec": uint16(air.Z_Which_i64vec),
		"i32vec": uint16(air.Z_Which_i32vec), "i16vec": uint16(air.Z_Which_i16vec), "i8vec": uint16(air.Z_Which_i8vec),
		"u64vec": uint16(air.Z_Which_u64vec), "u32vec": uint16(air.Z_Which_u32vec), "u16vec": uint16(air.Z_Which_u16vec),
		"u8vec": uint16(air.Z_Which_u8vec), "boolvec": uint16(air.Z_Which_boolvec), "datavec": uint16(air.Z_Which_datavec),
		"textvec": uint16(air.Z_Which_textvec), "zvec": uint16(air.Z_Which_zvec), "zvecvec": uint16(air.Z_Which_zvecvec),
		"zdate": uint16(air.Z_Which_zdate), "zdata": uint16(air.Z_Which_zdata), "aircraftvec": uint16(air.Z_Which_aircraftvec),
		"aircraft": uint16(air.Z_Which_aircraft), "regression": uint16(air.Z_Which_regression), "planebase": uint16(air.Z_Which_planebase),
		"airport": uint16(air.Z_Which_airport), "b737": uint16(air.Z_Which_b737), "a320": uint16(air.Z_Which_a320), "f16": uint16(air.Z_Which_f16),
		"zdatevec": uint16(air.Z_Which_zdatevec), "zdatavec": uint16(air.Z_Which_zdatavec), "grp": uint16(air.Z_Which_grp),
		"echo": uint16(air.Z_Which_echo), "echoes": uint16(air.Z_Which_echoes), "anyPtr": uint16(air.Z_Which_anyPtr),
		"anyStruct": uint16(air.Z_Which_anyStruct), "anyList": uint16(air.Z_Which_anyList), "anyCapability": uint16(air.Z_Which_anyCapability),
	},
}

// groupFields: schema struct name -> group field names (a pointer-typed Go
// field for a group must not be nil when inserted; pogs has no null group).
var groupFields = map[string]map[string]bool{"Z": {"grp": true}}

// recursiveMembers are not chosen once the depth budget is used up.
var recursiveMembers = map[string]bool{"zz": true, "zvec": true, "zvecvec": true}

// schemaNameOf: Go struct type -> schema struct name, for the union-bearing ones.
var schemaNameOf = map[reflect.Type]string{}

func sz(data, ptrs int) capnp.ObjectSize {
	return capnp.ObjectSize{DataSize: capnp.Size(data), PointerCount: uint16(ptrs)}
}

func init() {
	schemaNameOf[reflect.TypeOf(GZ{})] = "Z"
	schemaNameOf[reflect.TypeOf(GZb{})] = "Z"
	schemaNameOf[reflect.TypeOf(GAircraft{})] = "Aircraft"

	add := func(name string, v interface{}, schema string, id uint64, size capnp.ObjectSize, weight int, embed bool) {
		goMappings = append(goMappings, &goMapping{
			name: name, typ: reflect.TypeOf(v), schema: schema, typeID: id, size: size, weight: weight, embed: embed,
			newRoot: func(seg *capnp.Segment) (capnp.Struct, error) { return capnp.NewRootStruct(seg, size) },
		})
	}
	add("GZ", GZ{}, "Z", air.Z_TypeID, sz(24, 1), 50, false)
	add("GZb", GZb{}, "Z", air.Z_TypeID, sz(24, 1), 14, false)
	add("GPlaneBase", GPlaneBase{}, "PlaneBase", air.PlaneBase_TypeID, sz(32, 2), 3, false)
	add("GPlaneBaseR", GPlaneBaseR{}, "PlaneBase", air.PlaneBase_TypeID, sz(32, 2), 3, false)
	add("GRegression", GRegression{}, "Regression", air.Regression_TypeID, sz(24, 3), 3, false)
	add("GAircraft", GAircraft{}, "Aircraft", air.Aircraft_TypeID, sz(8, 1), 3, false)
	add("GZdate", GZdate{}, "Zdate", air.Zdate_TypeID, sz(8, 0), 1, false)
	add("GCounter", GCounter{}, "Counter", air.Counter_TypeID, sz(8, 3), 2, false)
	add("GHoldsText", GHoldsText{}, "HoldsText", air.HoldsText_TypeID, sz(0, 3), 2, false)
	add("GHoldsTextB", GHoldsTextB{}, "HoldsText", air.HoldsText_TypeID, sz(0, 3), 2, false)
	add("GRWTest", GRWTest{}, "RWTestCapn", air.RWTestCapn_TypeID, sz(0, 1), 2, false)
	add("GStackingRoot", GStackingRoot{}, "StackingRoot", air.StackingRoot_TypeID, sz(0, 2), 3, false)
	add("GDefaults", GDefaults{}, "Defaults", air.Defaults_TypeID, sz(16, 2), 5, false)
	add("GDefaultsB", GDefaultsB{}, "Defaults", air.Defaults_TypeID, sz(16, 2), 3, false)
	add("GFinish", GFinish{}, "Finish", rpc.Finish_TypeID, sz(8, 0), 3, false)
	add("GVerEmpty", GVerEmpty{}, "VerEmpty", air.VerEmpty_TypeID, sz(0, 0), 1, false)
	add("GVerOneData", GVerOneData{}, "VerOneData", air.VerOneData_TypeID, sz(8, 0), 1, false)
	add("GVerTwoData", GVerTwoData{}, "VerTwoData", air.VerTwoData_TypeID, sz(16, 0), 1, false)
	add("GVerTwoDataTwoPtr", GVerTwoDataTwoPtr{}, "VerTwoDataTwoPtr", air.VerTwoDataTwoPtr_TypeID, sz(16, 2), 2, false)
	add("GVerTwoTwoPlus", GVerTwoTwoPlus{}, "VerTwoTwoPlus", air.VerTwoTwoPlus_TypeID, sz(24, 3), 3, false)
	// one Go type on several schemas
	add("GXPtrs@VerTwoPtr", GXPtrs{}, "VerTwoPtr", air.VerTwoPtr_TypeID, sz(0, 2), 2, false)
	add("GXPtrs@VerTwoDataTwoPtr", GXPtrs{}, "VerTwoDataTwoPtr", air.VerTwoDataTwoPtr_TypeID, sz(16, 2), 2, false)
	add("GVerOneData@VerTwoData", GVerOneData{}, "VerTwoData", air.VerTwoData_TypeID, sz(16, 0), 1, false)
	add("GVerTwoData@VerTwoTwoPlus", GVerTwoData{}, "VerTwoTwoPlus", air.VerTwoTwoPlus_TypeID, sz(24, 3), 1, false)

	add("EOne", EOne{}, "VerOneData", air.VerOneData_TypeID, sz(8, 0), 1, true)
	add("EOuterWins", EOuterWins{}, "VerOneData", air.VerOneData_TypeID, sz(8, 0), 1, true)
	add("ENoTags", ENoTags{}, "VerOneData", air.VerOneData_TypeID, sz(8, 0), 1, true)
	add("EOneTag", EOneTag{}, "VerOneData", air.VerOneData_TypeID, sz(8, 0), 1, true)
	add("EOneTagPlus", EOneTagPlus{}, "VerOneData", air.VerOneData_TypeID, sz(8, 0), 1, true)
	add("ETwoTags", ETwoTags{}, "VerOneData", air.VerOneData_TypeID, sz(8, 0), 1, true)
	add("EUntaggedFirst", EUntaggedFirst{}, "VerOneData", air.VerOneData_TypeID, sz(8, 0), 1, true)
	add("EThreeNoTags", EThreeNoTags{}, "VerOneData", air.VerOneData_TypeID, sz(8, 0), 1, true)
	add("ECollideThenDeeper", ECollideThenDeeper{}, "VerTwoData", air.VerTwoData_TypeID, sz(16, 0), 1, true)
	add("ECollideThenDeeperTagged", ECollideThenDeeperTagged{}, "VerTwoData", air.VerTwoData_TypeID, sz(16, 0), 1, true)
	add("EDeepPtr", EDeepPtr{}, "VerTwoData", air.VerTwoData_TypeID, sz(16, 0), 1, true)
	add("EPtr", EPtr{}, "VerTwoData", air.VerTwoData_TypeID, sz(16, 0), 1, true)
	add("EOmit", EOmit{}, "VerTwoData", air.VerTwoData_TypeID, sz(16, 0), 1, true)
	add("EDeep", EDeep{}, "VerTwoData", air.VerTwoData_TypeID, sz(16, 0), 1, true)
	add("EShallow", EShallow{}, "VerTwoData", air.VerTwoData_TypeID, sz(16, 0), 1, true)
	for _, e := range []struct {
		n string
		v interface{}
	}{
		{"E3NearFirst", E3NearFirst{}}, {"E3DeepFirst", E3DeepFirst{}},
		{"E3NearFirstTagged", E3NearFirstTagged{}}, {"E3DeepFirstTagged", E3DeepFirstTagged{}},
		{"E3NearTagFirst", E3NearTagFirst{}}, {"E3DeepFirstNearTag", E3DeepFirstNearTag{}},
		{"E3PtrNearFirst", E3PtrNearFirst{}}, {"E3PtrDeepFirst", E3PtrDeepFirst{}},
		{"E4NearFirst", E4NearFirst{}}, {"E4DeepFirst", E4DeepFirst{}},
		{"E3NearVsSingleDeep", E3NearVsSingleDeep{}}, {"E3SingleDeepVsNear", E3SingleDeepVsNear{}},
	} {
		add(e.n, e.v, "VerOneData", air.VerOneData_TypeID, sz(8, 0), 1, true)
	}
	add("E3OnlyDeepCollision", E3OnlyDeepCollision{}, "VerTwoData", air.VerTwoData_TypeID, sz(16, 0), 1, true)
	add("E3MixedTwoData", E3MixedTwoData{}, "VerTwoData", air.VerTwoData_TypeID, sz(16, 0), 1, true)
	add("E4TwoFields", E4TwoFields{}, "VerTwoData", air.VerTwoData_TypeID, sz(16, 0), 1, true)
	add("E5TwoFields", E5TwoFields{}, "VerTwoData", air.VerTwoData_TypeID, sz(16, 0), 1, true)
	add("E4TwoEmbedded", E4TwoEmbedded{}, "VerTwoData", air.VerTwoData_TypeID, sz(16, 0), 1, true)
	add("E4Zdate", E4Zdate{}, "Zdate", air.Zdate_TypeID, sz(8, 0), 1, true)
	add("E4ZdatePtr", E4ZdatePtr{}, "Zdate", air.Zdate_TypeID, sz(8, 0), 1, true)
	add("E4ZdateRenamed", E4ZdateRenamed{}, "Zdate", air.Zdate_TypeID, sz(8, 0), 1, true)
	add("E4ZdateSplit", E4ZdateSplit{}, "Zdate", air.Zdate_TypeID, sz(8, 0), 1, true)
	add("E4PlaneBase", E4PlaneBase{}, "PlaneBase", air.PlaneBase_TypeID, sz(32, 2), 1, true)
	add("GA320", GA320{}, "A320", air.A320_TypeID, sz(0, 1), 1, true)
	add("GF16", GF16{}, "F16", air.F16_TypeID, sz(0, 1), 1, true)
}

func pickMapping(u uint64, embed bool) *goMapping {
	total := 0
	for _, m := range goMappings {
		if m.embed == embed {
			total += m.weight
		}
	}
	k := int(u % uint64(total))
	for _, m := range goMappings {
		if m.embed != embed {
			continue
		}
		if k < m.weight {
			return m
		}
		k -= m.weight
	}
	return goMappings[0]
}

// mappingsForSchema returns the mappings usable to read a struct of the schema type.
func mappingsForSchema(schema string, embed bool) []*goMapping {
	var out []*goMapping
	for _, m := range goMappings {
		if m.schema == schema && m.embed == embed {
			out = append(out, m)
		}
	}
	return out
}
