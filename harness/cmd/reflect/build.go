package main

// Random messages built with the GENERATED setters (plus raw capnp API for
// the forms the setters cannot produce: non-null empty text, struct sections
// shorter / longer than the schema says, stale bytes under a union).

import (
	"errors"

	"capnproto.org/go/capnp/v3"
	air "capnproto.org/go/capnp/v3/internal/aircraftlib"
	"capnproto.org/go/capnp/v3/std/capnp/rpc"
	"capnproto.org/go/capnp/v3/zverif/common"
)

type bctx struct {
	r      *common.RNG
	msg    *capnp.Message
	seg    *capnp.Segment
	maxStr int
	maxLen int  // list lengths
	resize bool // allow short / long struct sections
	stale  bool // allow stale bytes under unions
	noCaps bool // avoid interface / anypointer members (text renders them as markers only)
	errs   []string

	// coverage
	members   map[string]int // Z members built
	nResized  int
	nShort    int
	nLong     int
	nStale    int
	clsMask   uint
	nStrings  int
	longStr   int
	nestedLst int
}

var errBoo = errors.New("boo")

func newBctx(r *common.RNG) *bctx {
	msg, seg, err := capnp.NewMessage(capnp.SingleSegment(nil))
	if err != nil {
		panic(err)
	}
	return &bctx{r: r, msg: msg, seg: seg, maxStr: 12, maxLen: 6, members: map[string]int{}}
}

func (b *bctx) ck(err error) {
	if err != nil {
		b.errs = append(b.errs, err.Error())
	}
}

func (b *bctx) str() []byte {
	s := genBytes(b.r, b.maxStr)
	b.clsMask |= classMask(s)
	b.nStrings++
	if len(s) > b.maxStr {
		b.longStr++
	}
	return s
}

// resized returns s or a copy of s whose data / pointer sections are shorter
// or longer than s's.  Content that does not fit is dropped (a reader must
// then see defaults); extra space is zero.
func (b *bctx) resized(s capnp.Struct) capnp.Struct {
	if !b.resize || !b.r.Chance(1, 4) {
		return s
	}
	sz := s.Size()
	nsz := sz
	switch b.r.Intn(5) {
	case 0: // longer data
		nsz.DataSize += capnp.Size(8 * b.r.Range(1, 2))
	case 1: // longer pointers
		nsz.PointerCount += uint16(b.r.Range(1, 2))
	case 2: // both longer
		nsz.DataSize += 8
		nsz.PointerCount++
	case 3: // shorter data (whole words)
		if sz.DataSize >= 8 {
			nsz.DataSize -= capnp.Size(8 * b.r.Range(1, int(sz.DataSize/8)))
		}
	default: // shorter pointers
		if sz.PointerCount > 0 {
			nsz.PointerCount -= uint16(b.r.Range(1, int(sz.PointerCount)))
		}
	}
	if nsz == sz {
		return s
	}
	ns, err := capnp.NewStruct(b.seg, nsz)
	if err != nil {
		b.ck(err)
		return s
	}
	if err := ns.CopyFrom(s); err != nil {
		b.ck(err)
		return s
	}
	b.nResized++
	if nsz.DataSize < sz.DataSize || nsz.PointerCount < sz.PointerCount {
		b.nShort++
	} else {
		b.nLong++
	}
	return ns
}

// resizedList does the same for a composite list.
func (b *bctx) resizedList(l capnp.List, sz capnp.ObjectSize) capnp.List {
	if !b.resize || !b.r.Chance(1, 4) || !l.IsValid() {
		return l
	}
	nsz := sz
	switch b.r.Intn(4) {
	case 0:
		nsz.DataSize += 8
	case 1:
		nsz.PointerCount++
	case 2:
		if sz.DataSize >= 8 {
			nsz.DataSize -= 8
		}
	default:
		if sz.PointerCount > 0 {
			nsz.PointerCount--
		}
	}
	if nsz == sz {
		return l
	}
	nl, err := capnp.NewCompositeList(b.seg, nsz, int32(l.Len()))
	if err != nil {
		b.ck(err)
		return l
	}
	for i := 0; i < l.Len(); i++ {
		b.ck(nl.Struct(i).CopyFrom(l.Struct(i)))
	}
	b.nResized++
	if nsz.DataSize < sz.DataSize || nsz.PointerCount < sz.PointerCount {
		b.nShort++
	} else {
		b.nLong++
	}
	return nl
}

func (b *bctx) setText(s capnp.Struct, i uint16, set func(string) error) {
	v := b.str()
	if len(v) == 0 && b.r.Bool() {
		// non-null pointer to an empty text (setters write null for "")
		b.ck(s.SetNewText(i, ""))
		return
	}
	b.ck(set(string(v)))
}

func (b *bctx) fillZdate(s air.Zdate) {
	s.SetYear(int16(genInt(b.r, 16)))
	s.SetMonth(uint8(genUint(b.r, 8)))
	s.SetDay(uint8(genUint(b.r, 8)))
}

func (b *bctx) newZdate() air.Zdate {
	s, err := air.NewZdate(b.seg)
	b.ck(err)
	b.fillZdate(s)
	return air.Zdate{Struct: b.resized(s.Struct)}
}

func (b *bctx) data() []byte {
	switch b.r.Intn(8) {
	case 0:
		return nil
	case 1:
		return []byte{}
	}
	return b.str()
}

func (b *bctx) fillZdata(s air.Zdata) { b.ck(s.SetData(b.data())) }

func (b *bctx) newZdata() air.Zdata {
	s, err := air.NewZdata(b.seg)
	b.ck(err)
	b.fillZdata(s)
	return air.Zdata{Struct: b.resized(s.Struct)}
}

func (b *bctx) fillPlaneBase(s air.PlaneBase) {
	r := b.r
	if r.Chance(4, 5) {
		b.setText(s.Struct, 0, s.SetName)
	}
	if r.Chance(3, 4) {
		n := genLen(r, b.maxLen)
		l, err := s.NewHomes(int32(n))
		b.ck(err)
		for i := 0; i < n; i++ {
			l.Set(i, air.Airport(genEnum(r, 7)))
		}
	}
	if r.Chance(4, 5) {
		s.SetRating(genInt(r, 64))
	}
	s.SetCanFly(r.Bool())
	if r.Chance(4, 5) {
		s.SetCapacity(genInt(r, 64))
	}
	if r.Chance(4, 5) {
		s.SetMaxSpeed(genF64(r))
	}
}

func (b *bctx) newPlaneBase() air.PlaneBase {
	s, err := air.NewPlaneBase(b.seg)
	b.ck(err)
	b.fillPlaneBase(s)
	return air.PlaneBase{Struct: b.resized(s.Struct)}
}

func (b *bctx) fillB737(s air.B737) {
	if b.r.Chance(5, 6) {
		b.ck(s.SetBase(b.newPlaneBase()))
	}
}
func (b *bctx) fillA320(s air.A320) {
	if b.r.Chance(5, 6) {
		b.ck(s.SetBase(b.newPlaneBase()))
	}
}
func (b *bctx) fillF16(s air.F16) {
	if b.r.Chance(5, 6) {
		b.ck(s.SetBase(b.newPlaneBase()))
	}
}

func (b *bctx) fillAircraft(s air.Aircraft) {
	switch b.r.Intn(5) {
	case 0:
		s.SetVoid()
	case 1:
		x, err := air.NewB737(b.seg)
		b.ck(err)
		b.fillB737(x)
		b.ck(s.SetB737(air.B737{Struct: b.resized(x.Struct)}))
	case 2:
		x, err := air.NewA320(b.seg)
		b.ck(err)
		b.fillA320(x)
		b.ck(s.SetA320(air.A320{Struct: b.resized(x.Struct)}))
	case 3:
		x, err := air.NewF16(b.seg)
		b.ck(err)
		b.fillF16(x)
		b.ck(s.SetF16(air.F16{Struct: b.resized(x.Struct)}))
	default:
		// union member set but pointer left null
		s.Struct.SetUint16(0, uint16(b.r.Range(1, 3)))
	}
}

func (b *bctx) newAircraft() air.Aircraft {
	s, err := air.NewAircraft(b.seg)
	b.ck(err)
	b.fillAircraft(s)
	return air.Aircraft{Struct: b.resized(s.Struct)}
}

func (b *bctx) newAircraftList() air.Aircraft_List {
	n := genLen(b.r, b.maxLen)
	l, err := air.NewAircraft_List(b.seg, int32(n))
	b.ck(err)
	for i := 0; i < n; i++ {
		b.fillAircraft(l.At(i))
	}
	return air.Aircraft_List{List: b.resizedList(l.List, capnp.ObjectSize{DataSize: 8, PointerCount: 1})}
}

func (b *bctx) fillRegression(s air.Regression) {
	r := b.r
	if r.Chance(3, 4) {
		b.ck(s.SetBase(b.newPlaneBase()))
	}
	s.SetB0(genF64(r))
	if r.Chance(3, 4) {
		n := genLen(r, b.maxLen)
		l, err := s.NewBeta(int32(n))
		b.ck(err)
		for i := 0; i < n; i++ {
			l.Set(i, genF64(r))
		}
	}
	if r.Chance(3, 4) {
		b.ck(s.SetPlanes(b.newAircraftList()))
	}
	s.SetYmu(genF64(r))
	if r.Bool() {
		s.SetYsd(genF64(r))
	}
}

func (b *bctx) newRegression() air.Regression {
	s, err := air.NewRegression(b.seg)
	b.ck(err)
	b.fillRegression(s)
	return air.Regression{Struct: b.resized(s.Struct)}
}

var zSize = capnp.ObjectSize{DataSize: 24, PointerCount: 1}

func (b *bctx) newZList(depth int) air.Z_List {
	n := genLen(b.r, b.maxLen)
	if depth <= 0 && n > 2 {
		n = 2
	}
	l, err := air.NewZ_List(b.seg, int32(n))
	b.ck(err)
	for i := 0; i < n; i++ {
		b.fillZ(l.At(i), depth-1)
	}
	return air.Z_List{List: b.resizedList(l.List, zSize)}
}

func (b *bctx) newZ(depth int) air.Z {
	s, err := air.NewZ(b.seg)
	b.ck(err)
	b.fillZ(s, depth)
	return air.Z{Struct: b.resized(s.Struct)}
}

func (b *bctx) anyTarget(k int) capnp.Ptr {
	switch k {
	case 0:
		return capnp.Ptr{}
	case 1:
		s, err := capnp.NewStruct(b.seg, capnp.ObjectSize{DataSize: 8})
		b.ck(err)
		s.SetUint64(0, b.r.Uint64())
		return s.ToPtr()
	case 2:
		n := b.r.Range(0, 4)
		l, err := capnp.NewInt32List(b.seg, int32(n))
		b.ck(err)
		for i := 0; i < n; i++ {
			l.Set(i, int32(b.r.Uint64()))
		}
		return l.ToPtr()
	default:
		return capnp.NewInterface(b.seg, b.msg.AddCap(capnp.ErrorClient(errBoo))).ToPtr()
	}
}

// Z member names in declaration order (index = position, not discriminant).
var zMemberNames = []string{
	"void", "zz", "f64", "f32", "i64", "i32", "i16", "i8", "u64", "u32", "u16", "u8", "bool", "text", "blob",
	"f64vec", "f32vec", "i64vec", "i32vec", "i16vec", "i8vec", "u64vec", "u32vec", "u16vec", "u8vec",
	"boolvec", "datavec", "textvec", "zvec", "zvecvec", "zdate", "zdata", "aircraftvec", "aircraft",
	"regression", "planebase", "airport", "b737", "a320", "f16", "zdatevec", "zdatavec", "grp",
	"echo", "echoes", "anyPtr", "anyStruct", "anyList", "anyCapability",
}

// fillZ sets a random union member on a full-size Z.
func (b *bctx) fillZ(s air.Z, depth int) {
	r := b.r
	if b.stale && r.Chance(1, 3) {
		// leave stale bytes / a stale pointer behind under the union
		b.nStale++
		switch r.Intn(3) {
		case 0:
			s.SetU64(r.Uint64() | 0x8000000000000001)
		case 1:
			b.ck(s.SetText("stale"))
		default:
			s.SetGrp()
			s.Grp().SetFirst(r.Uint64())
			s.Grp().SetSecond(r.Uint64() | 1)
		}
	}
	var name string
	for {
		name = zMemberNames[r.Intn(len(zMemberNames))]
		if depth <= 0 && (name == "zz" || name == "zvec" || name == "zvecvec") {
			continue
		}
		if b.noCaps && (name == "echo" || name == "echoes" || name == "anyPtr" || name == "anyStruct" || name == "anyList" || name == "anyCapability") && r.Chance(3, 4) {
			continue
		}
		break
	}
	b.fillZMember(s, name, depth)
}

func (b *bctx) fillZMember(s air.Z, name string, depth int) {
	r := b.r
	b.members[name]++
	switch name {
	case "void":
		s.SetVoid()
	case "zz":
		if r.Chance(1, 8) {
			b.ck(s.SetZz(air.Z{}))
		} else {
			b.ck(s.SetZz(b.newZ(depth - 1)))
		}
	case "f64":
		s.SetF64(genF64(r))
	case "f32":
		s.SetF32(genF32(r))
	case "i64":
		s.SetI64(genInt(r, 64))
	case "i32":
		s.SetI32(int32(genInt(r, 32)))
	case "i16":
		s.SetI16(int16(genInt(r, 16)))
	case "i8":
		s.SetI8(int8(genInt(r, 8)))
	case "u64":
		s.SetU64(genUint(r, 64))
	case "u32":
		s.SetU32(uint32(genUint(r, 32)))
	case "u16":
		s.SetU16(uint16(genUint(r, 16)))
	case "u8":
		s.SetU8(uint8(genUint(r, 8)))
	case "bool":
		s.SetBool(r.Bool())
	case "text":
		s.Struct.SetUint16(0, uint16(air.Z_Which_text))
		b.setText(s.Struct, 0, s.SetText)
	case "blob":
		b.ck(s.SetBlob(b.data()))
	case "f64vec":
		if r.Chance(1, 8) {
			b.ck(s.SetF64vec(capnp.Float64List{}))
			return
		}
		n := genLen(r, b.maxLen)
		l, err := s.NewF64vec(int32(n))
		b.ck(err)
		for i := 0; i < n; i++ {
			l.Set(i, genF64(r))
		}
	case "f32vec":
		n := genLen(r, b.maxLen)
		l, err := s.NewF32vec(int32(n))
		b.ck(err)
		for i := 0; i < n; i++ {
			l.Set(i, genF32(r))
		}
	case "i64vec":
		n := genLen(r, b.maxLen)
		l, err := s.NewI64vec(int32(n))
		b.ck(err)
		for i := 0; i < n; i++ {
			l.Set(i, genInt(r, 64))
		}
	case "i32vec":
		n := genLen(r, b.maxLen)
		l, err := s.NewI32vec(int32(n))
		b.ck(err)
		for i := 0; i < n; i++ {
			l.Set(i, int32(genInt(r, 32)))
		}
	case "i16vec":
		n := genLen(r, b.maxLen)
		l, err := s.NewI16vec(int32(n))
		b.ck(err)
		for i := 0; i < n; i++ {
			l.Set(i, int16(genInt(r, 16)))
		}
	case "i8vec":
		n := genLen(r, b.maxLen)
		l, err := s.NewI8vec(int32(n))
		b.ck(err)
		for i := 0; i < n; i++ {
			l.Set(i, int8(genInt(r, 8)))
		}
	case "u64vec":
		n := genLen(r, b.maxLen)
		l, err := s.NewU64vec(int32(n))
		b.ck(err)
		for i := 0; i < n; i++ {
			l.Set(i, genUint(r, 64))
		}
	case "u32vec":
		n := genLen(r, b.maxLen)
		l, err := s.NewU32vec(int32(n))
		b.ck(err)
		for i := 0; i < n; i++ {
			l.Set(i, uint32(genUint(r, 32)))
		}
	case "u16vec":
		n := genLen(r, b.maxLen)
		l, err := s.NewU16vec(int32(n))
		b.ck(err)
		for i := 0; i < n; i++ {
			l.Set(i, uint16(genUint(r, 16)))
		}
	case "u8vec":
		n := genLen(r, b.maxLen)
		l, err := s.NewU8vec(int32(n))
		b.ck(err)
		for i := 0; i < n; i++ {
			l.Set(i, uint8(genUint(r, 8)))
		}
	case "boolvec":
		n := genLen(r, b.maxLen*4)
		l, err := s.NewBoolvec(int32(n))
		b.ck(err)
		for i := 0; i < n; i++ {
			l.Set(i, r.Bool())
		}
	case "datavec":
		n := genLen(r, b.maxLen)
		l, err := s.NewDatavec(int32(n))
		b.ck(err)
		for i := 0; i < n; i++ {
			b.ck(l.Set(i, b.data()))
		}
	case "textvec":
		n := genLen(r, b.maxLen)
		l, err := s.NewTextvec(int32(n))
		b.ck(err)
		for i := 0; i < n; i++ {
			b.ck(l.Set(i, string(b.str())))
		}
	case "zvec":
		if r.Chance(1, 8) {
			b.ck(s.SetZvec(air.Z_List{}))
			return
		}
		b.ck(s.SetZvec(b.newZList(depth)))
	case "zvecvec":
		b.nestedLst++
		n := genLen(r, 3)
		l, err := s.NewZvecvec(int32(n))
		b.ck(err)
		for i := 0; i < n; i++ {
			if r.Chance(1, 6) {
				continue // null inner list
			}
			b.ck(l.Set(i, b.newZList(depth-1).ToPtr()))
		}
	case "zdate":
		if r.Chance(1, 8) {
			b.ck(s.SetZdate(air.Zdate{}))
		} else {
			b.ck(s.SetZdate(b.newZdate()))
		}
	case "zdata":
		if r.Chance(1, 8) {
			b.ck(s.SetZdata(air.Zdata{}))
		} else {
			b.ck(s.SetZdata(b.newZdata()))
		}
	case "aircraftvec":
		b.ck(s.SetAircraftvec(b.newAircraftList()))
	case "aircraft":
		if r.Chance(1, 8) {
			b.ck(s.SetAircraft(air.Aircraft{}))
		} else {
			b.ck(s.SetAircraft(b.newAircraft()))
		}
	case "regression":
		b.ck(s.SetRegression(b.newRegression()))
	case "planebase":
		if r.Chance(1, 8) {
			b.ck(s.SetPlanebase(air.PlaneBase{}))
		} else {
			b.ck(s.SetPlanebase(b.newPlaneBase()))
		}
	case "airport":
		s.SetAirport(air.Airport(genEnum(r, 7)))
	case "b737":
		x, err := air.NewB737(b.seg)
		b.ck(err)
		b.fillB737(x)
		b.ck(s.SetB737(air.B737{Struct: b.resized(x.Struct)}))
	case "a320":
		x, err := air.NewA320(b.seg)
		b.ck(err)
		b.fillA320(x)
		b.ck(s.SetA320(air.A320{Struct: b.resized(x.Struct)}))
	case "f16":
		x, err := air.NewF16(b.seg)
		b.ck(err)
		b.fillF16(x)
		b.ck(s.SetF16(air.F16{Struct: b.resized(x.Struct)}))
	case "zdatevec":
		n := genLen(r, b.maxLen)
		l, err := s.NewZdatevec(int32(n))
		b.ck(err)
		for i := 0; i < n; i++ {
			b.fillZdate(l.At(i))
		}
		nl := b.resizedList(l.List, capnp.ObjectSize{DataSize: 8})
		b.ck(s.SetZdatevec(air.Zdate_List{List: nl}))
	case "zdatavec":
		n := genLen(r, b.maxLen)
		l, err := s.NewZdatavec(int32(n))
		b.ck(err)
		for i := 0; i < n; i++ {
			b.fillZdata(l.At(i))
		}
		nl := b.resizedList(l.List, capnp.ObjectSize{PointerCount: 1})
		b.ck(s.SetZdatavec(air.Zdata_List{List: nl}))
	case "grp":
		s.SetGrp()
		s.Grp().SetFirst(genUint(r, 64))
		s.Grp().SetSecond(genUint(r, 64))
	case "echo":
		if r.Bool() {
			b.ck(s.SetEcho(air.Echo{}))
		} else {
			b.ck(s.SetEcho(air.Echo{Client: capnp.ErrorClient(errBoo)}))
		}
	case "echoes":
		n := genLen(r, 4)
		l, err := s.NewEchoes(int32(n))
		b.ck(err)
		for i := 0; i < n; i++ {
			if r.Bool() {
				b.ck(l.Set(i, capnp.NewInterface(b.seg, b.msg.AddCap(capnp.ErrorClient(errBoo))).ToPtr()))
			}
		}
	case "anyPtr":
		b.ck(s.SetAnyPtr(b.anyTarget(r.Intn(4))))
	case "anyStruct":
		b.ck(s.SetAnyStruct(b.anyTarget(r.Intn(2))))
	case "anyList":
		b.ck(s.SetAnyList(b.anyTarget(r.PickInt(0, 2))))
	case "anyCapability":
		b.ck(s.SetAnyCapability(b.anyTarget(r.PickInt(0, 3))))
	default:
		panic("unknown Z member " + name)
	}
}

func (b *bctx) textList(n int) capnp.TextList {
	l, err := capnp.NewTextList(b.seg, int32(n))
	b.ck(err)
	for i := 0; i < n; i++ {
		b.ck(l.Set(i, string(b.str())))
	}
	return l
}

func (b *bctx) newCounter() air.Counter {
	s, err := air.NewCounter(b.seg)
	b.ck(err)
	r := b.r
	s.SetSize(genInt(r, 64))
	if r.Chance(3, 4) {
		b.setText(s.Struct, 0, s.SetWords)
	}
	if r.Chance(3, 4) {
		b.ck(s.SetWordlist(b.textList(genLen(r, b.maxLen))))
	}
	if r.Chance(3, 4) {
		n := genLen(r, 70)
		l, err := s.NewBitlist(int32(n))
		b.ck(err)
		for i := 0; i < n; i++ {
			l.Set(i, r.Bool())
		}
	}
	return air.Counter{Struct: b.resized(s.Struct)}
}

func (b *bctx) newVerOneData() air.VerOneData {
	s, err := air.NewVerOneData(b.seg)
	b.ck(err)
	s.SetVal(int16(genInt(b.r, 16)))
	return air.VerOneData{Struct: b.resized(s.Struct)}
}

func (b *bctx) newVerTwoData() air.VerTwoData {
	s, err := air.NewVerTwoData(b.seg)
	b.ck(err)
	s.SetVal(int16(genInt(b.r, 16)))
	s.SetDuo(genInt(b.r, 64))
	return air.VerTwoData{Struct: b.resized(s.Struct)}
}

func (b *bctx) newVerTwoDataTwoPtr() air.VerTwoDataTwoPtr {
	s, err := air.NewVerTwoDataTwoPtr(b.seg)
	b.ck(err)
	s.SetVal(int16(genInt(b.r, 16)))
	s.SetDuo(genInt(b.r, 64))
	if b.r.Chance(3, 4) {
		b.ck(s.SetPtr1(b.newVerOneData()))
	}
	if b.r.Chance(3, 4) {
		b.ck(s.SetPtr2(b.newVerOneData()))
	}
	return air.VerTwoDataTwoPtr{Struct: b.resized(s.Struct)}
}

func (b *bctx) newVerTwoPtr() air.VerTwoPtr {
	s, err := air.NewVerTwoPtr(b.seg)
	b.ck(err)
	if b.r.Chance(3, 4) {
		b.ck(s.SetPtr1(b.newVerOneData()))
	}
	if b.r.Chance(3, 4) {
		b.ck(s.SetPtr2(b.newVerOneData()))
	}
	return air.VerTwoPtr{Struct: b.resized(s.Struct)}
}

func (b *bctx) newVerTwoTwoPlus() air.VerTwoTwoPlus {
	s, err := air.NewVerTwoTwoPlus(b.seg)
	b.ck(err)
	r := b.r
	s.SetVal(int16(genInt(r, 16)))
	s.SetDuo(genInt(r, 64))
	if r.Chance(3, 4) {
		b.ck(s.SetPtr1(b.newVerTwoDataTwoPtr()))
	}
	if r.Chance(3, 4) {
		b.ck(s.SetPtr2(b.newVerTwoDataTwoPtr()))
	}
	s.SetTre(genInt(r, 64))
	if r.Chance(3, 4) {
		n := genLen(r, b.maxLen)
		l, err := s.NewLst3(int32(n))
		b.ck(err)
		for i := 0; i < n; i++ {
			l.Set(i, genInt(r, 64))
		}
	}
	return air.VerTwoTwoPlus{Struct: b.resized(s.Struct)}
}

func (b *bctx) newHoldsText() air.HoldsText {
	s, err := air.NewHoldsText(b.seg)
	b.ck(err)
	r := b.r
	if r.Chance(5, 6) {
		b.setText(s.Struct, 0, s.SetTxt)
	}
	if r.Chance(5, 6) {
		b.ck(s.SetLst(b.textList(genLen(r, b.maxLen))))
	}
	if r.Chance(5, 6) {
		b.nestedLst++
		n := genLen(r, 4)
		ll, err := s.NewLstlst(int32(n))
		b.ck(err)
		for i := 0; i < n; i++ {
			if r.Chance(1, 6) {
				continue
			}
			b.ck(ll.Set(i, b.textList(genLen(r, 4)).ToPtr()))
		}
	}
	return air.HoldsText{Struct: b.resized(s.Struct)}
}

func (b *bctx) newRWTest() air.RWTestCapn {
	s, err := air.NewRWTestCapn(b.seg)
	b.ck(err)
	r := b.r
	if r.Chance(7, 8) {
		b.nestedLst++
		n := genLen(r, 3)
		m, err := s.NewNestMatrix(int32(n))
		b.ck(err)
		for i := 0; i < n; i++ {
			if r.Chance(1, 6) {
				continue
			}
			k := genLen(r, 3)
			row, err := air.NewNester1Capn_List(b.seg, int32(k))
			b.ck(err)
			for j := 0; j < k; j++ {
				if r.Chance(5, 6) {
					b.ck(row.At(j).SetStrs(b.textList(genLen(r, 3))))
				}
			}
			b.ck(m.Set(i, b.resizedList(row.List, capnp.ObjectSize{PointerCount: 1}).ToPtr()))
		}
	}
	return air.RWTestCapn{Struct: b.resized(s.Struct)}
}

func (b *bctx) newStackingA() air.StackingA {
	s, err := air.NewStackingA(b.seg)
	b.ck(err)
	s.SetNum(int32(genInt(b.r, 32)))
	if b.r.Chance(2, 3) {
		x, err := s.NewB()
		b.ck(err)
		x.SetNum(int32(genInt(b.r, 32)))
	}
	return air.StackingA{Struct: b.resized(s.Struct)}
}

func (b *bctx) newStackingRoot() air.StackingRoot {
	s, err := air.NewStackingRoot(b.seg)
	b.ck(err)
	if b.r.Chance(2, 3) {
		b.ck(s.SetA(b.newStackingA()))
	}
	if b.r.Chance(1, 2) {
		b.ck(s.SetAWithDefault(b.newStackingA()))
	}
	return air.StackingRoot{Struct: b.resized(s.Struct)}
}

func (b *bctx) newDefaults() air.Defaults {
	s, err := air.NewDefaults(b.seg)
	b.ck(err)
	r := b.r
	if r.Bool() {
		b.ck(s.SetText(string(b.str())))
	}
	if r.Bool() {
		b.ck(s.SetData(b.data()))
	}
	if r.Bool() {
		s.SetFloat(genF32(r))
	}
	if r.Bool() {
		s.SetInt(int32(genInt(r, 32)))
	}
	if r.Bool() {
		s.SetUint(uint32(genUint(r, 32)))
	}
	return air.Defaults{Struct: b.resized(s.Struct)}
}

func (b *bctx) newVoidUnion() air.VoidUnion {
	s, err := air.NewVoidUnion(b.seg)
	b.ck(err)
	switch b.r.Intn(3) {
	case 0:
		s.SetA()
	case 1:
		s.SetB()
	default:
		s.Struct.SetUint16(0, uint16(b.r.Range(2, 5)))
	}
	return air.VoidUnion{Struct: b.resized(s.Struct)}
}

func (b *bctx) newFinish() rpc.Finish {
	s, err := rpc.NewFinish(b.seg)
	b.ck(err)
	if b.r.Chance(3, 4) {
		s.SetQuestionId(uint32(genUint(b.r, 32)))
	}
	if b.r.Chance(2, 3) {
		s.SetReleaseResultCaps(b.r.Bool())
	}
	return rpc.Finish{Struct: b.resized(s.Struct)}
}
