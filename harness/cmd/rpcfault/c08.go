package main

// C08 — a hostile or buggy peer cannot crash or wedge a connection.
//
// One case = one connection: a healthy history (bootstrap both ways, a call
// in flight in each direction, exports, imports, an embargo) is run up to a
// random step, then 1..8 hostile items are injected, each followed by a
// probe, then the rest of the history runs (tolerating whatever the Conn now
// does), then Close and the post-mortem oracles.
//
//   mode fuzz        message-level pipe transport
//   mode fuzzstream  same generator over the real stream / packed transports
//   mode bytes       byte-level: pointer corruption of valid messages,
//                    truncated frames, hostile stream headers (stream links)

import (
	"encoding/binary"
	"fmt"
	"sync"

	"capnproto.org/go/capnp/v3"
	rpccp "capnproto.org/go/capnp/v3/std/capnp/rpc"
	"capnproto.org/go/capnp/v3/zverif/common"
)

const probeBase = 0x40000000

type c08case struct {
	rec     *common.Recorder
	mode    string
	rng     *common.RNG
	link    string
	kinds   []string // hostile kinds, chosen before the run (CASE line)
	inject  int      // step number at which to inject
	items   []string // concretised descriptions (for the replay input)
	probes  uint32
	aborted bool
	mu      sync.Mutex // guards items (read by the watch goroutine on a deadlock)
}

var c08Steps = 11

// c08History is the healthy history.  Each sc.step is an injection point.
func c08History(sc *sctx) {
	b := sc.b
	p := b.peer
	p.setNoDisembargo(true) // keep the embargo table non-empty
	// 1-2: bootstrap + resolve (import live)
	bc := sc.bootResolved()
	// 3: a local call in flight (question live)
	sc.step("held-outgoing-call")
	hdone := make(chan struct{})
	hch := b.goCall("held", sc.ctx, bc, mHold, 0)
	go func() { <-hch; close(hdone) }()
	sc.wait("held-call-seen", func() bool { return p.sawCall(mHold, 1) != nil }, hdone)
	// 4: the peer bootstraps (export live, answer returned, Finish withheld)
	sc.step("peer-bootstrap")
	qb := p.newManualQuestion()
	p.send(mkBootstrap(qb))
	sc.wait("bootstrap-return", func() bool { return p.sawReturn(qb) != nil })
	p.mu.Lock()
	exp, _ := exportFromReturn(p.sawReturn(qb))
	p.mu.Unlock()
	// 5: an incoming call in flight (answer live) and a pipelined call on it
	sc.step("held-incoming-call")
	qh := p.newManualQuestion()
	p.send(mkCall(qh, func(t rpccp.MessageTarget) { t.SetImportedCap(exp) }, ifaceID, mHold, 0, nil))
	qp := p.sendCallPromised(qh, []uint16{0}, mEcho, 1)
	_ = qp
	// 6: an incoming call that fails (answer returned with an exception,
	// Finish withheld) and legal late pipelining on it and on the returned
	// bootstrap answer
	sc.step("failed-incoming-call")
	qe := p.newManualQuestion()
	p.send(mkCall(qe, func(t rpccp.MessageTarget) { t.SetImportedCap(exp) }, ifaceID, 9, 0, nil))
	sc.wait("failed-call-return", func() bool { return p.sawReturn(qe) != nil })
	sc.step("pipelined-on-returned-answers")
	qf := p.sendCallPromised(qe, []uint16{0}, mEcho, 2)
	qg := p.sendCallPromised(qb, nil, mEcho, 3)
	if sc.wait("pipelined-returns", func() bool { return p.sawReturn(qf) != nil && p.sawReturn(qg) != nil }) {
		b.rec.Count("pipelined_on_failed_answer", 1)
		b.rec.Count("pipelined_on_returned_answer", 1)
	}
	// 8: call with a capability (second export)
	sc.step("call-with-cap")
	local := sc.keep(b.srv.client())
	b.call("echo-cap", sc.ctx, bc, mEcho, 1, local, false)
	// 7: getcap (second import)
	sc.step("getcap")
	r := b.call("getcap", sc.ctx, bc, mGetCap, 2, nil, true)
	if r.cap != nil {
		sc.keep(r.cap)
	}
	// 8: a result capability that points back to us, with a pipelined call
	// (embargo live; the peer withholds the Disembargo echo)
	sc.step("loopcap")
	p.setHoldMethod(mLoopCap, true)
	var ans *capnp.Answer
	var release capnp.ReleaseFunc
	id := b.ops.begin("sendcall:loopcap")
	b.guard("Client.SendCall/loopcap", func() {
		ans, release = bc.SendCall(sc.ctx, capnp.Send{
			Method:   capnp.Method{InterfaceID: ifaceID, MethodID: mLoopCap},
			ArgsSize: capnp.ObjectSize{DataSize: 8, PointerCount: 1},
			PlaceArgs: func(s capnp.Struct) error {
				cid := s.Message().AddCap(local.AddRef())
				return s.SetPtr(0, capnp.NewInterface(s.Segment(), cid).ToPtr())
			},
		})
	})
	b.ops.end(id)
	if ans != nil {
		pdone := make(chan struct{})
		b.wg.Add(1)
		go func() {
			defer b.wg.Done()
			defer close(pdone)
			id := b.ops.begin("call:pipelined-on-loopcap")
			defer b.ops.end(id)
			b.guard("Answer.PipelineSend", func() {
				a2, rel2 := ans.PipelineSend(sc.ctx, []capnp.PipelineOp{{Field: 0}}, capnp.Send{
					Method:   capnp.Method{InterfaceID: ifaceID, MethodID: mEcho},
					ArgsSize: capnp.ObjectSize{DataSize: 8, PointerCount: 1},
				})
				a2.Struct()
				rel2()
			})
		}()
		sc.wait("pipelined-seen", func() bool { return p.sawCall(mEcho, 2) != nil }, pdone)
		p.releaseMethod(mLoopCap)
		id = b.ops.begin("call:loopcap-result")
		b.guard("Answer.Struct/loopcap", func() { ans.Struct() })
		b.ops.end(id)
		id = b.ops.begin("join-pipelined")
		<-pdone
		b.ops.end(id)
		sc.wait("disembargo-request", func() bool { return p.sawKind(rpccp.Message_Which_disembargo, 1) })
		defer func() {
			id := b.ops.begin("release:loopcap-answer")
			b.guard("ReleaseFunc", func() { release() })
			b.ops.end(id)
		}()
	}
	// 9: last injection point, everything is live
	sc.step("all-live")
	b.call("echo-after", sc.ctx, bc, mEcho, 3, nil, false)
}

// injectAll is the step hook's payload.
func (cs *c08case) injectAll(sc *sctx) {
	b := sc.b
	p := b.peer
	sc.markHostile()
	for n, kind := range cs.kinds {
		if cs.aborted {
			break
		}
		b.setAction(kind)
		mark := p.logLen()
		var h hostile
		switch {
		case cs.mode == "bytes":
			h = cs.bytesItem(sc, kind)
		default:
			h = genHostile(cs.rng.Fork(), kind, p.view())
			b.rec.Logf("ITEM %s", h.desc)
			if h.hasQ {
				p.adoptQuestion(h.qid)
			}
			for _, segs := range h.msgs {
				p.send(segs)
			}
		}
		cs.mu.Lock()
		cs.items = append(cs.items, h.desc)
		cs.mu.Unlock()
		b.rec.Count("hostile_items", 1)
		b.rec.Count("hostile_kind_"+kind, 1)
		if h.desc == "" {
			continue
		}
		if h.ends && cs.mode == "bytes" {
			// framing is (possibly) out of sync: the only sound expectation
			// is that EOF ends the connection.
			sl := b.lk.(*streamLink)
			sl.PeerCloseWrite()
			p.waitFor("probe:shutdown-after-eof", func() bool { return false })
			cs.aborted = true
			cs.classify(b, kind, h, mark, true)
			break
		}
		// probe: a Bootstrap with a fresh id must be answered unless the
		// Conn chose to shut the connection down.
		cs.probes++
		pq := probeBase + uint32(n)*16 + cs.probes
		p.mu.Lock()
		p.myQ[pq] = "open"
		p.mu.Unlock()
		p.send(mkBootstrap(pq))
		alive := p.waitFor("probe", func() bool { return p.sawReturn(pq) != nil })
		if !alive {
			cs.aborted = true
		}
		cs.classify(b, kind, h, mark, !alive)
		if h.onFailed {
			b.rec.Count("pipelined_on_failed_answer", 1)
			b.rec.Count("hostile_on_failed_answer", 1)
		}
		if alive {
			// The connection claims to be alive: its outbound stream must be
			// usable (sender lock free, mutex free at quiescence) and a
			// local operation must complete.
			b.checkLocksFree("after-item:" + kind)
			cs.localProbe(sc)
		}
	}
	if len(cs.kinds) > 0 {
		b.setAction(cs.kinds[len(cs.kinds)-1])
	}
}

// localProbe: a fresh local Bootstrap + Resolve + call must complete (with a
// result or an error) while the connection is alive.
func (cs *c08case) localProbe(sc *sctx) {
	b := sc.b
	bc := b.bootstrap(sc.ctx)
	b.resolve(sc.ctx, bc)
	b.call("local-probe", sc.ctx, bc, mEcho, 77, nil, false)
	b.release("local-probe", bc)
	b.rec.Count("local_probes", 1)
}

// classify records the Conn's reaction to one hostile item (evidence only:
// every reaction of the allowed set is accepted).
func (cs *c08case) classify(b *bench, kind string, h hostile, mark int, closed bool) {
	p := b.peer
	p.mu.Lock()
	var sawAbort, sawUnimpl, sawExc, sawRes bool
	for _, m := range p.log[mark:] {
		switch m.which {
		case rpccp.Message_Which_abort:
			sawAbort = true
		case rpccp.Message_Which_unimplemented:
			sawUnimpl = true
		case rpccp.Message_Which_return:
			if h.hasQ && m.id == h.qid {
				if m.retWhich == rpccp.Return_Which_exception {
					sawExc = true
				} else {
					sawRes = true
				}
			}
		}
	}
	p.mu.Unlock()
	cls := "tolerated"
	switch {
	case sawAbort:
		cls = "abort"
	case closed:
		cls = "closed-without-abort"
	case sawExc:
		cls = "exception-return"
	case sawUnimpl:
		cls = "unimplemented-echo"
	case sawRes:
		cls = "results-return"
	}
	b.rec.Count("reaction_"+cls, 1)
	b.rec.Count("reaction_"+kind+"_"+cls, 1)
	b.rec.Distinct(common.HashString(kind + "|" + h.desc + "|" + cls))
}

// bytesItem sends one byte-level hostile item over a stream link.
func (cs *c08case) bytesItem(sc *sctx, kind string) hostile {
	b := sc.b
	sl := b.lk.(*streamLink)
	r := cs.rng.Fork()
	v := b.peer.view()
	switch kind {
	case "ptr-corrupt":
		base := validMessage(r, v)
		segs, what := corruptPointer(r, base.msgs[0])
		sl.PeerSendSegs(segs)
		return hostile{kind: kind, desc: "ptr-corrupt[base=" + base.kind + " " + what + "]", qid: base.qid, hasQ: base.hasQ}
	case "truncated-frame":
		base := validMessage(r, v)
		fr := frameSegs(base.msgs[0])
		cut := 1 + r.Intn(len(fr)-1)
		if r.Chance(1, 3) {
			cut = r.PickInt(1, 4, 7, 8, 9, len(fr)-1)
			if cut >= len(fr) {
				cut = len(fr) - 1
			}
		}
		if sl.rwc.packed {
			pk := refPack(fr)
			if cut >= len(pk) {
				cut = len(pk) - 1
			}
			sl.PeerSendRawWire(pk[:cut])
		} else {
			sl.PeerSendRawWire(fr[:cut])
		}
		return hostile{kind: kind, desc: fmt.Sprintf("truncated-frame[base=%s cut=%d/%d]", base.kind, cut, len(fr)), ends: true}
	case "hostile-header":
		var hdr []byte
		var what string
		switch r.Intn(7) {
		case 0:
			hdr = make([]byte, 8)
			binary.LittleEndian.PutUint32(hdr, 0xFFFFFFFF)
			what = "segments=2^32"
		case 1:
			hdr = make([]byte, 8)
			binary.LittleEndian.PutUint32(hdr, 512)
			what = "segments=513"
		case 2:
			hdr = make([]byte, 8)
			binary.LittleEndian.PutUint32(hdr[4:], 0xFFFFFFFF)
			what = "size=2^32-1 words"
		case 3:
			hdr = make([]byte, 8)
			binary.LittleEndian.PutUint32(hdr[4:], 1<<29)
			what = "size=2^29 words"
		case 4:
			n := 511
			hdr = make([]byte, 4+4*(n+1))
			binary.LittleEndian.PutUint32(hdr, uint32(n))
			for i := 0; i <= n; i++ {
				binary.LittleEndian.PutUint32(hdr[4+4*i:], 0x00FFFFFF)
			}
			what = "512 segments of 2^24-1 words"
		case 5:
			hdr = make([]byte, 8)
			binary.LittleEndian.PutUint32(hdr[4:], 0)
			what = "one empty segment"
		default:
			hdr = make([]byte, 8)
			binary.LittleEndian.PutUint32(hdr[4:], 1<<20)
			what = "size=2^20 words then EOF"
		}
		if sl.rwc.packed {
			sl.PeerSendRawWire(refPack(hdr))
		} else {
			sl.PeerSendRawWire(hdr)
		}
		return hostile{kind: kind, desc: "hostile-header[" + what + "]", ends: true}
	case "garbage":
		n := r.PickInt(1, 7, 8, 64, 200)
		sl.PeerSendRawWire(r.Bytes(n)[:n])
		return hostile{kind: kind, desc: fmt.Sprintf("garbage[%d bytes]", n), ends: true}
	}
	// message-level item over the stream
	h := genHostile(r, kind, v)
	for _, segs := range h.msgs {
		sl.PeerSendSegs(segs)
	}
	return h
}

// runRace is mode "race": a deterministic hostile history with a timing
// window.  The peer calls a method that returns a capability hosted by the
// Conn; while the Return is being written (the link holds it back; the new
// export is already in the table) the peer sends Finish{releaseResultCaps}
// and a Release for the new export with its full count; then the Return goes
// out.  Releasing the result caps on behalf of the Finish now fails (export
// already gone): a protocol violation the Conn discovers on the goroutine of
// the returning call.  Whatever it does about it, it must stay alive or shut
// down - not wedge.
func (cs *c08case) runRace(sc *sctx) {
	b := sc.b
	p := b.peer
	pl := b.lk.(*pipeLink)
	b.setAction("release-races-return")
	sc.step("peer-bootstrap")
	q0 := p.newManualQuestion()
	p.send(mkBootstrap(q0))
	if !sc.wait("bootstrap-return", func() bool { return p.sawReturn(q0) != nil }) {
		return
	}
	p.mu.Lock()
	exp, _ := exportFromReturn(p.sawReturn(q0))
	p.mu.Unlock()
	p.sendFinish(q0)
	sc.step("cap-returning-call")
	qc := p.newManualQuestion()
	pl.armHold(qc)
	method := mGetCapAck
	p.send(mkCall(qc, func(t rpccp.MessageTarget) { t.SetImportedCap(exp) }, ifaceID, method, 1, nil))
	id := b.ops.begin("peer-wait:return-being-sent")
	select {
	case <-pl.holdSending:
	case <-b.conn.Done():
		b.ops.end(id)
		return
	}
	b.ops.end(id)
	// the new export is in the table now
	var newExp uint32
	var refs uint32
	b.awaitCond("snap:new-export", func() bool {
		st := b.snapshot()
		if !st.Locked {
			return false
		}
		for e, n := range st.ExportRefs {
			if e != exp {
				newExp, refs = e, n
				return true
			}
		}
		return false
	})
	sc.markHostile()
	cs.mu.Lock()
	cs.items = append(cs.items, fmt.Sprintf("finish[q=%d,releaseResultCaps] + release[export=%d,count=%d] while return(a=%d) is being written", qc, newExp, refs, qc))
	cs.mu.Unlock()
	if cs.rng.Bool() {
		p.send(mkFinish(qc, true))
		p.send(mkRelease(newExp, refs))
	} else {
		p.send(mkRelease(newExp, refs))
		p.send(mkFinish(qc, true))
	}
	b.awaitCond("snap:export-released", func() bool {
		st := b.snapshot()
		if !st.Locked {
			return false
		}
		_, still := st.ExportRefs[newExp]
		return !still || st.ShutdownDone
	})
	b.rec.Count("race_release_vs_return", 1)
	close(pl.holdProceed)
	// probe: answered, or the Conn shuts the connection down
	pq := uint32(probeBase + 1)
	p.mu.Lock()
	p.myQ[pq] = "open"
	p.mu.Unlock()
	p.send(mkBootstrap(pq))
	alive := p.waitFor("probe", func() bool { return p.sawReturn(pq) != nil })
	if !alive {
		cs.aborted = true
		b.rec.Count("reaction_release-races-return_shutdown", 1)
	} else {
		b.rec.Count("reaction_release-races-return_alive", 1)
		b.checkLocksFree("after-race")
		cs.localProbe(sc)
	}
}

var bytesKinds = []string{"ptr-corrupt", "ptr-corrupt", "ptr-corrupt", "ptr-corrupt", "truncated-frame", "hostile-header", "garbage", "call", "return"}

func runC08(cfg *common.Config, rec *common.Recorder) {
	for i := cfg.Start; i < cfg.Start+cfg.Count; i++ {
		rng := common.NewRNG(common.CaseSeed(cfg.Seed, cfg.Prop+"/"+cfg.Mode, i))
		cs := &c08case{rec: rec, mode: cfg.Mode, rng: rng}
		switch cfg.Mode {
		case "fuzz", "race":
			cs.link = "pipe"
		case "fuzzstream", "bytes":
			cs.link = []string{"stream", "packed"}[rng.Intn(2)]
		default:
			rec.Inconclusive("unknown mode " + cfg.Mode)
			rec.Finish()
			return
		}
		deadlines := rng.Bool()
		cs.inject = 1 + rng.Intn(c08Steps)
		n := 1 + rng.Intn(8)
		if cfg.Mode == "race" {
			n = 0
			cs.kinds = []string{"release-races-return"}
		}
		for k := 0; k < n; k++ {
			if cfg.Mode == "bytes" {
				cs.kinds = append(cs.kinds, bytesKinds[rng.Intn(len(bytesKinds))])
			} else {
				cs.kinds = append(cs.kinds, hostileKinds[rng.Intn(len(hostileKinds))])
			}
		}
		rec.Case(i, fmt.Sprintf("link=%s inject@%d %v", cs.link, cs.inject, cs.kinds))
		var b *bench
		var bmu sync.Mutex
		get := func() *bench {
			bmu.Lock()
			defer bmu.Unlock()
			return b
		}
		installYield(rng.Uint64(), true)
		out := runWatched(rec, i, "C08", get, func() {
			nb := newBench(rec, i, "C08", benchOpts{link: cs.link, deadlines: deadlines})
			nb.scenario = "history"
			nb.action = "before-injection"
			nb.extra = func() interface{} {
				cs.mu.Lock()
				defer cs.mu.Unlock()
				return map[string]interface{}{"inject_at_step": cs.inject, "kinds": cs.kinds, "items": append([]string(nil), cs.items...)}
			}
			bmu.Lock()
			b = nb
			bmu.Unlock()
			sc := newSctx(nb)
			sc.stepHook = func(sc *sctx, n int, name string) {
				if n == cs.inject && cfg.Mode != "race" {
					cs.injectAll(sc)
				}
			}
			if cfg.Mode == "race" {
				cs.runRace(sc)
			} else {
				c08History(sc)
			}
			nb.setStep("after-history")
			nb.checkLocksFree("after-history")
			nb.finish(false)
			sc.cancel()
			sc.releaseAll()
			nb.checkLocksFree("after-release")
		})
		rec.Count("connections", 1)
		rec.Count("connections_"+cs.link, 1)
		if cs.aborted {
			rec.Count("connections_shut_down_by_conn", 1)
		}
		cs.mu.Lock()
		items := append([]string(nil), cs.items...)
		cs.mu.Unlock()
		if rec.WantSample() && len(items) > 0 {
			s := map[string]interface{}{"link": cs.link, "inject_at_step": cs.inject, "items": items}
			if bb := get(); bb != nil {
				s["conn_sent"] = bb.peer.logSummary(10)
				s["reported"] = bb.rep.list()
			}
			rec.Sample(s)
		}
		if out != caseOK {
			rec.AbortBatch(i + 1)
		}
	}
	reportYieldSites(rec)
	rec.Finish()
}
