package main

import "capnproto.org/go/capnp/v3/zverif/common"

func runC08(cfg *common.Config, rec *common.Recorder) {
	rec.Inconclusive("not implemented")
	rec.Finish()
}
