package main

// Transport-level test doubles (DESIGN.md §2.4):
//
//   pipeLink   – message-level rpc.Transport; can fail the k-th NewMessage /
//                send / RecvMessage (error or EOF), transiently or for good.
//   streamLink – faultRWC (io.ReadWriteCloser, optionally with deadlines)
//                under the real rpc.NewStreamTransport / NewPackedStreamTransport;
//                the j-th Write can be cut short, fail with 0 bytes or time
//                out; every byte that reaches the wire is captured.
//
// Both never block the Conn on the peer (unbounded queues), so the only
// blocking the library can experience is the one a fault asks for.

import (
	"bytes"
	"context"
	"errors"
	"io"
	"sync"
	"sync/atomic"
	"time"

	"capnproto.org/go/capnp/v3"
	"capnproto.org/go/capnp/v3/rpc"
	rpccp "capnproto.org/go/capnp/v3/std/capnp/rpc"
)

type opKind int

const (
	opNew opKind = iota
	opSend
	opRecv
	opWrite
	opRead
	nOpKinds
)

var opKindNames = [...]string{"NewMessage", "send", "RecvMessage", "Write", "Read"}

type faultKind int

const (
	fkNone faultKind = iota
	fkNewErr
	fkNewErrSticky
	fkSendErr
	fkSendErrSticky
	fkRecvErr
	fkRecvEOF
	fkShort1
	fkShort7
	fkShort8
	fkShortLenM1
	fkZeroErr
	fkTimeout0
	fkTimeoutRecover
	fkTimeoutStuck
	nFaultKinds
)

var faultKindNames = [...]string{"none", "newmsg-err", "newmsg-err-sticky", "send-err", "send-err-sticky",
	"recv-err", "recv-eof", "short-write-1", "short-write-7", "short-write-8", "short-write-len-1",
	"write-0-err", "write-timeout-0", "write-timeout-recover", "write-timeout-stuck"}

func (k faultKind) String() string { return faultKindNames[k] }

func (k faultKind) op() opKind {
	switch k {
	case fkNewErr, fkNewErrSticky:
		return opNew
	case fkSendErr, fkSendErrSticky:
		return opSend
	case fkRecvErr, fkRecvEOF:
		return opRecv
	}
	return opWrite
}

func (k faultKind) sticky() bool {
	return k == fkNewErrSticky || k == fkSendErrSticky || k == fkTimeoutStuck
}

func (k faultKind) isWrite() bool { return k >= fkShort1 }

type faultPlan struct {
	kind  faultKind
	index int // 1-based index among operations of kind.op()
}

var errInjected = errors.New("verif: injected transport fault")

type timeoutError struct{}

func (timeoutError) Error() string   { return "verif: injected i/o timeout" }
func (timeoutError) Timeout() bool   { return true }
func (timeoutError) Temporary() bool { return true }

// opTracker counts transport operations, decides where the planned fault is
// injected and fires the step trigger used by the cancel/Close grid.
type opTracker struct {
	mu       sync.Mutex
	counts   [nOpKinds]int
	global   int
	plan     faultPlan
	nfired   int
	firedCh  chan struct{} // closed when the fault was injected the first time
	trigAt   int           // global operation index at which trigCh is closed (0 = never)
	trigCh   chan struct{}
	trigDone bool
	progress *int64
}

func newOpTracker(plan faultPlan, trigAt int, progress *int64) *opTracker {
	return &opTracker{plan: plan, firedCh: make(chan struct{}), trigAt: trigAt, trigCh: make(chan struct{}), progress: progress}
}

// op registers one operation and reports whether the fault is to be injected
// into it.
func (t *opTracker) op(k opKind) (idx int, inject bool) {
	t.mu.Lock()
	defer t.mu.Unlock()
	atomic.AddInt64(t.progress, 1)
	t.counts[k]++
	t.global++
	idx = t.counts[k]
	if t.trigAt > 0 && t.global >= t.trigAt && !t.trigDone {
		t.trigDone = true
		close(t.trigCh)
	}
	if t.plan.kind != fkNone && t.plan.kind.op() == k {
		if idx == t.plan.index || (t.plan.kind.sticky() && idx > t.plan.index) {
			inject = true
			t.nfired++
			if t.nfired == 1 {
				close(t.firedCh)
			}
		}
	}
	return idx, inject
}

func (t *opTracker) snapshot() (counts [nOpKinds]int, global int, fired int) {
	t.mu.Lock()
	defer t.mu.Unlock()
	return t.counts, t.global, t.nfired
}

func (t *opTracker) faultFired() bool {
	select {
	case <-t.firedCh:
		return true
	default:
		return false
	}
}

// ---------------------------------------------------------------------------
// mailbox: unbounded FIFO with close, usable from select-free code.

type mailbox struct {
	mu     sync.Mutex
	items  []interface{}
	closed bool
	notify chan struct{}
}

func newMailbox() *mailbox { return &mailbox{notify: make(chan struct{})} }

func (m *mailbox) put(x interface{}) bool {
	m.mu.Lock()
	defer m.mu.Unlock()
	if m.closed {
		return false
	}
	m.items = append(m.items, x)
	close(m.notify)
	m.notify = make(chan struct{})
	return true
}

func (m *mailbox) close() {
	m.mu.Lock()
	defer m.mu.Unlock()
	if m.closed {
		return
	}
	m.closed = true
	close(m.notify)
	m.notify = make(chan struct{})
}

const (
	mbOK = iota
	mbClosed
	mbCanceled
)

// get blocks until an item is available, the mailbox is closed (and empty)
// or cancel fires.
func (m *mailbox) get(cancel <-chan struct{}) (interface{}, int) {
	for {
		m.mu.Lock()
		if len(m.items) > 0 {
			x := m.items[0]
			m.items = m.items[1:]
			m.mu.Unlock()
			return x, mbOK
		}
		if m.closed {
			m.mu.Unlock()
			return nil, mbClosed
		}
		ch := m.notify
		m.mu.Unlock()
		select {
		case <-ch:
		case <-cancel:
			return nil, mbCanceled
		}
	}
}

// ---------------------------------------------------------------------------

// link is what the scripted peer and the bench see of a transport double.
type link interface {
	Transport() rpc.Transport
	Name() string
	Tracker() *opTracker
	// PeerSendSegs delivers one message (given as raw segments) to the Conn.
	PeerSendSegs(segs [][]byte)
	// PeerSendStream delivers raw *unpacked* stream bytes to the Conn (stream
	// links frame/pack them as their transport requires; the pipe link
	// parses them into frames and delivers each, turning an unparsable rest
	// into a receive error).
	PeerSendStream(b []byte)
	// PeerCloseWrite makes the Conn see EOF after what was sent so far.
	PeerCloseWrite()
	// PeerRecv returns the next message written by the Conn; io.EOF once the
	// Conn closed the transport (or wrote something that is not a frame).
	PeerRecv() ([][]byte, error)
	// PeerClose closes the peer's end completely.
	PeerClose()
	// ConnClosed reports whether the Conn closed the transport.
	ConnClosed() bool
}

func copySegs(segs [][]byte) [][]byte {
	out := make([][]byte, len(segs))
	for i, s := range segs {
		out[i] = append([]byte(nil), s...)
	}
	return out
}

func messageSegs(msg *capnp.Message) ([][]byte, error) {
	n := msg.NumSegments()
	out := make([][]byte, 0, n)
	for i := int64(0); i < n; i++ {
		s, err := msg.Segment(capnp.SegmentID(i))
		if err != nil {
			return nil, err
		}
		out = append(out, append([]byte(nil), s.Data()...))
	}
	return out, nil
}

// ---------------------------------------------------------------------------
// pipeLink

type connItem struct {
	segs [][]byte
	err  error
}

type pipeLink struct {
	tr       *opTracker
	toPeer   *mailbox
	toConn   *mailbox
	closed   int32
	useAfter int32 // transport operations the Conn performed after Close
	capTabs  int32 // sends with a non-nil CapTable (contract breach by the Conn)

	sentToConn int32 // messages the peer handed to the Conn

	sending           int32 // send() calls executing right now
	unreleased        int32 // messages created and not yet released
	closeReturned     int32
	unreleasedAtClose int32 // messages still unreleased when Transport.Close was called
	recvCanceled      int32 // RecvMessage returned because its Context ended
	ovMu              sync.Mutex
	overlap           string // first contract breach observed

	// holdRet delays the transmission of the Return for one answer id until
	// the script lets it go (a slow / back-pressured link).
	holdArmed   int32
	holdFinish  bool // hold the first Finish instead of a Return
	holdAnswer  uint32
	holdOnce    sync.Once
	holdSending chan struct{} // closed when that Return is about to be sent
	holdProceed chan struct{} // closed by the script to let it go
}

func newPipeLink(tr *opTracker) *pipeLink {
	return &pipeLink{tr: tr, toPeer: newMailbox(), toConn: newMailbox()}
}

// armHold must be called before the Conn can produce the Return.
func (p *pipeLink) armHold(answer uint32) {
	p.holdAnswer = answer
	p.holdSending = make(chan struct{})
	p.holdProceed = make(chan struct{})
	atomic.StoreInt32(&p.holdArmed, 1)
}

// armHoldFinish holds back the send of the next Finish message.
func (p *pipeLink) armHoldFinish() {
	p.holdFinish = true
	p.holdSending = make(chan struct{})
	p.holdProceed = make(chan struct{})
	atomic.StoreInt32(&p.holdArmed, 1)
}

// transport-use monitor: send() is only ever executed under the sender lock
// (or by shutdown once every task is gone), so no NewMessage / send / Close
// of the same transport may start while a send is executing, and nothing may
// be called after Close returned.
func (p *pipeLink) enter(op string) {
	if atomic.LoadInt32(&p.sending) > 0 {
		p.noteOverlap(op + "-during-send")
	}
	if atomic.LoadInt32(&p.closeReturned) != 0 {
		p.noteOverlap(op + "-after-close")
	}
}

func (p *pipeLink) noteOverlap(what string) {
	p.ovMu.Lock()
	if p.overlap == "" {
		p.overlap = what
	}
	p.ovMu.Unlock()
}

func (p *pipeLink) overlapSeen() string {
	p.ovMu.Lock()
	defer p.ovMu.Unlock()
	return p.overlap
}

func (p *pipeLink) Transport() rpc.Transport { return (*pipeTransport)(p) }
func (p *pipeLink) Name() string             { return "pipe" }
func (p *pipeLink) Tracker() *opTracker      { return p.tr }
func (p *pipeLink) ConnClosed() bool         { return atomic.LoadInt32(&p.closed) != 0 }

func (p *pipeLink) PeerSendSegs(segs [][]byte) {
	atomic.AddInt32(&p.sentToConn, 1)
	p.toConn.put(connItem{segs: copySegs(segs)})
}

func (p *pipeLink) PeerSendStream(b []byte) {
	a := parseFrames(b)
	for _, f := range a.frames {
		p.toConn.put(connItem{segs: copySegs(f.segs)})
	}
	if a.tail > 0 {
		p.toConn.put(connItem{err: io.ErrUnexpectedEOF})
	}
}

func (p *pipeLink) PeerCloseWrite() { p.toConn.close() }
func (p *pipeLink) PeerClose()      { p.toConn.close() }

func (p *pipeLink) PeerRecv() ([][]byte, error) {
	x, st := p.toPeer.get(nil)
	if st != mbOK {
		return nil, io.EOF
	}
	return x.([][]byte), nil
}

type pipeTransport pipeLink

func (t *pipeTransport) NewMessage(ctx context.Context) (rpccp.Message, func() error, capnp.ReleaseFunc, error) {
	p := (*pipeLink)(t)
	p.enter("NewMessage")
	_, inject := p.tr.op(opNew)
	if atomic.LoadInt32(&p.closed) != 0 {
		atomic.AddInt32(&p.useAfter, 1)
		return rpccp.Message{}, nil, nil, errors.New("verif pipe: NewMessage on closed transport")
	}
	if inject {
		return rpccp.Message{}, nil, nil, errInjected
	}
	msg, seg, err := capnp.NewMessage(capnp.MultiSegment(nil))
	if err != nil {
		return rpccp.Message{}, nil, nil, err
	}
	rmsg, err := rpccp.NewRootMessage(seg)
	if err != nil {
		return rpccp.Message{}, nil, nil, err
	}
	atomic.AddInt32(&p.unreleased, 1)
	send := func() error {
		p.enter("send")
		atomic.AddInt32(&p.sending, 1)
		defer atomic.AddInt32(&p.sending, -1)
		_, inject := p.tr.op(opSend)
		if atomic.LoadInt32(&p.closed) != 0 {
			atomic.AddInt32(&p.useAfter, 1)
			return errors.New("verif pipe: send on closed transport")
		}
		if inject {
			return errInjected
		}
		if atomic.LoadInt32(&p.holdArmed) != 0 {
			hold := false
			if p.holdFinish {
				hold = rmsg.Which() == rpccp.Message_Which_finish
			} else if rmsg.Which() == rpccp.Message_Which_return {
				ret, err := rmsg.Return()
				hold = err == nil && ret.AnswerId() == p.holdAnswer
			}
			if hold {
				first := false
				p.holdOnce.Do(func() { first = true; close(p.holdSending) })
				if first {
					<-p.holdProceed
				}
			}
		}
		if err := ctx.Err(); err != nil {
			return err
		}
		if msg.CapTable != nil {
			atomic.AddInt32(&p.capTabs, 1)
		}
		segs, err := messageSegs(msg)
		if err != nil {
			return err
		}
		if !p.toPeer.put(segs) {
			return errors.New("verif pipe: send on closed transport")
		}
		return nil
	}
	var relOnce sync.Once
	return rmsg, send, func() {
		relOnce.Do(func() { atomic.AddInt32(&p.unreleased, -1) })
		msg.Reset(nil)
	}, nil
}

func (t *pipeTransport) RecvMessage(ctx context.Context) (rpccp.Message, capnp.ReleaseFunc, error) {
	p := (*pipeLink)(t)
	_, inject := p.tr.op(opRecv)
	if atomic.LoadInt32(&p.closed) != 0 {
		atomic.AddInt32(&p.useAfter, 1)
		return rpccp.Message{}, nil, errors.New("verif pipe: RecvMessage on closed transport")
	}
	if inject {
		if p.tr.plan.kind == fkRecvEOF {
			return rpccp.Message{}, nil, io.EOF
		}
		return rpccp.Message{}, nil, errInjected
	}
	x, st := p.toConn.get(ctx.Done())
	switch st {
	case mbClosed:
		return rpccp.Message{}, nil, io.EOF
	case mbCanceled:
		atomic.StoreInt32(&p.recvCanceled, 1)
		return rpccp.Message{}, nil, ctx.Err()
	}
	atomic.AddInt64(p.tr.progress, 1)
	it := x.(connItem)
	if it.err != nil {
		return rpccp.Message{}, nil, it.err
	}
	msg := &capnp.Message{Arena: capnp.MultiSegment(it.segs)}
	rmsg, err := rpccp.ReadRootMessage(msg)
	if err != nil {
		return rpccp.Message{}, nil, err
	}
	return rmsg, func() { msg.Reset(nil) }, nil
}

func (t *pipeTransport) Close() error {
	p := (*pipeLink)(t)
	p.enter("Close")
	if n := atomic.LoadInt32(&p.unreleased); n > 0 {
		atomic.AddInt32(&p.unreleasedAtClose, n)
	}
	defer atomic.StoreInt32(&p.closeReturned, 1)
	if !atomic.CompareAndSwapInt32(&p.closed, 0, 1) {
		return errors.New("verif pipe: already closed")
	}
	p.toPeer.close()
	return nil
}

// ---------------------------------------------------------------------------
// faultRWC / streamLink

type tornRec struct {
	writeIdx int
	kind     faultKind
	off      int    // wire length right after the faulted Write
	rest     []byte // bytes of that Write's buffer that were not written
	next     []byte // buffer of the Write call that followed (nil if none)
	hasNext  bool
}

type faultRWC struct {
	tr     *opTracker
	packed bool

	mu          sync.Mutex
	wire        []byte // every byte that reached the wire
	delivered   int    // complete frames already handed to the peer
	toPeer      *mailbox
	torn        []tornRec
	stuck       bool // fkTimeoutStuck was triggered: all later writes time out
	pendingTorn int  // 1+index of the torn record waiting for the next Write call
	afterClose  int  // Write calls after Close

	rbuf   []byte
	reof   bool
	closed bool
	rdl    time.Time
	wdl    time.Time
	wake   chan struct{} // closed+replaced whenever rbuf/reof/closed/deadlines change
}

func newFaultRWC(tr *opTracker, packed bool) *faultRWC {
	return &faultRWC{tr: tr, packed: packed, toPeer: newMailbox(), wake: make(chan struct{})}
}

func (f *faultRWC) broadcastLocked() {
	close(f.wake)
	f.wake = make(chan struct{})
}

func (f *faultRWC) deliverLocked() {
	a, _ := analyzeWire(f.wire, f.packed)
	for f.delivered < len(a.frames) {
		f.toPeer.put(copySegs(a.frames[f.delivered].segs))
		f.delivered++
	}
}

// waitDeadline blocks until the deadline selected by get() has passed, the
// RWC is closed, or (for reads) cond() holds.  It must be called without
// f.mu.  A zero deadline means "no deadline": the caller decides.
func (f *faultRWC) sleepUntil(dl time.Time, wake <-chan struct{}) {
	if dl.IsZero() {
		<-wake
		return
	}
	d := time.Until(dl)
	if d <= 0 {
		return
	}
	tm := time.NewTimer(d)
	select {
	case <-wake:
	case <-tm.C:
	}
	tm.Stop()
}

func (f *faultRWC) Read(p []byte) (int, error) {
	f.tr.op(opRead)
	for {
		f.mu.Lock()
		if len(f.rbuf) > 0 {
			n := copy(p, f.rbuf)
			f.rbuf = f.rbuf[n:]
			f.mu.Unlock()
			atomic.AddInt64(f.tr.progress, 1)
			return n, nil
		}
		if f.closed {
			f.mu.Unlock()
			return 0, io.ErrClosedPipe
		}
		if f.reof {
			f.mu.Unlock()
			return 0, io.EOF
		}
		if !f.rdl.IsZero() && !time.Now().Before(f.rdl) {
			f.mu.Unlock()
			return 0, timeoutError{}
		}
		dl, wake := f.rdl, f.wake
		f.mu.Unlock()
		f.sleepUntil(dl, wake)
	}
}

func (f *faultRWC) Write(b []byte) (int, error) {
	idx, inject := f.tr.op(opWrite)
	f.mu.Lock()
	if f.closed {
		f.afterClose++
		f.mu.Unlock()
		return 0, io.ErrClosedPipe
	}
	if f.pendingTorn > 0 {
		t := &f.torn[f.pendingTorn-1]
		t.next, t.hasNext = append([]byte(nil), b...), true
		f.pendingTorn = 0
	}
	kind := f.tr.plan.kind
	if f.stuck && !inject {
		inject, kind = true, fkTimeoutStuck
	}
	if !inject {
		f.wire = append(f.wire, b...)
		f.deliverLocked()
		f.mu.Unlock()
		return len(b), nil
	}
	n := 0
	var err error = errInjected
	timeout := false
	switch kind {
	case fkShort1:
		n = 1
	case fkShort7:
		n = 7
	case fkShort8:
		n = 8
	case fkShortLenM1:
		n = len(b) - 1
	case fkZeroErr:
		n = 0
	case fkTimeout0:
		n, timeout = 0, true
	case fkTimeoutRecover:
		n, timeout = 3, true
	case fkTimeoutStuck:
		if f.stuck {
			n = 0
		} else {
			n = 3
		}
		f.stuck = true
		timeout = true
	}
	if n > len(b)-1 {
		n = len(b) - 1
	}
	if n < 0 {
		n = 0
	}
	f.wire = append(f.wire, b[:n]...)
	f.deliverLocked()
	f.torn = append(f.torn, tornRec{writeIdx: idx, kind: kind, off: len(f.wire), rest: append([]byte(nil), b[n:]...)})
	f.pendingTorn = len(f.torn)
	if !timeout {
		f.mu.Unlock()
		return n, err
	}
	// Timeout: the write stalls until the deadline the library set expires.
	// Without a deadline the stall is reported at once (OS-level timeout).
	for {
		if f.closed || f.wdl.IsZero() || !time.Now().Before(f.wdl) {
			f.mu.Unlock()
			return n, timeoutError{}
		}
		dl, wake := f.wdl, f.wake
		f.mu.Unlock()
		f.sleepUntil(dl, wake)
		f.mu.Lock()
	}
}

func (f *faultRWC) Close() error {
	f.mu.Lock()
	if f.closed {
		f.mu.Unlock()
		return errors.New("verif rwc: already closed")
	}
	f.closed = true
	f.broadcastLocked()
	f.mu.Unlock()
	f.toPeer.close()
	return nil
}

func (f *faultRWC) setReadDeadline(t time.Time) error {
	f.mu.Lock()
	f.rdl = t
	f.broadcastLocked()
	f.mu.Unlock()
	return nil
}

func (f *faultRWC) setWriteDeadline(t time.Time) error {
	f.mu.Lock()
	f.wdl = t
	f.broadcastLocked()
	f.mu.Unlock()
	return nil
}

// deadlineRWC adds the deadline methods transport.go type-asserts for.
type deadlineRWC struct{ *faultRWC }

func (d deadlineRWC) SetReadDeadline(t time.Time) error  { return d.faultRWC.setReadDeadline(t) }
func (d deadlineRWC) SetWriteDeadline(t time.Time) error { return d.faultRWC.setWriteDeadline(t) }

type streamLink struct {
	rwc       *faultRWC
	t         rpc.Transport
	name      string
	deadlines bool
}

const partialWriteTimeout = 20 * time.Millisecond

func newStreamLink(tr *opTracker, packed, deadlines bool) *streamLink {
	f := newFaultRWC(tr, packed)
	var rwc io.ReadWriteCloser = f
	if deadlines {
		rwc = deadlineRWC{f}
	}
	s := &streamLink{rwc: f, deadlines: deadlines}
	if packed {
		s.t = rpc.NewPackedStreamTransport(rwc)
		s.name = "packed"
	} else {
		s.t = rpc.NewStreamTransport(rwc)
		s.name = "stream"
	}
	if pw, ok := s.t.(interface{ SetPartialWriteTimeout(time.Duration) }); ok {
		pw.SetPartialWriteTimeout(partialWriteTimeout)
	}
	return s
}

func (s *streamLink) Transport() rpc.Transport { return s.t }
func (s *streamLink) Name() string             { return s.name }
func (s *streamLink) Tracker() *opTracker      { return s.rwc.tr }

func (s *streamLink) ConnClosed() bool {
	s.rwc.mu.Lock()
	defer s.rwc.mu.Unlock()
	return s.rwc.closed
}

func (s *streamLink) feed(b []byte) {
	f := s.rwc
	f.mu.Lock()
	if !f.closed && !f.reof {
		f.rbuf = append(f.rbuf, b...)
		f.broadcastLocked()
	}
	f.mu.Unlock()
}

// PeerSendRawWire feeds bytes to the Conn's reader exactly as given (no
// packing).
func (s *streamLink) PeerSendRawWire(b []byte) { s.feed(b) }

func (s *streamLink) PeerSendStream(b []byte) {
	if s.rwc.packed {
		s.feed(refPack(b))
		return
	}
	s.feed(b)
}

func (s *streamLink) PeerSendSegs(segs [][]byte) { s.PeerSendStream(frameSegs(segs)) }

func (s *streamLink) PeerCloseWrite() {
	f := s.rwc
	f.mu.Lock()
	f.reof = true
	f.broadcastLocked()
	f.mu.Unlock()
}

func (s *streamLink) PeerClose() {
	s.PeerCloseWrite()
}

func (s *streamLink) PeerRecv() ([][]byte, error) {
	x, st := s.rwc.toPeer.get(nil)
	if st != mbOK {
		return nil, io.EOF
	}
	return x.([][]byte), nil
}

// wireCopy returns what reached the wire and the faulted-write records.
func (s *streamLink) wireCopy() ([]byte, []tornRec, int) {
	f := s.rwc
	f.mu.Lock()
	defer f.mu.Unlock()
	return append([]byte(nil), f.wire...), append([]tornRec(nil), f.torn...), f.afterClose
}

// checkTornWrites is the torn-write monitor.  For every faulted Write that
// left the stream inside a frame, either nothing is written afterwards, or
// the very next Write call is a retry of the unwritten rest of that buffer
// (the library's partial-write retry completes the frame; the retry's own
// outcome is judged by its own record).  Anything else means bytes followed
// a torn frame.  It returns a description of the first violation and the
// number of faulted writes that cut a frame.
func checkTornWrites(wire []byte, torn []tornRec, packed bool) (viol string, cuts int) {
	for _, t := range torn {
		if t.off > len(wire) || len(t.rest) == 0 {
			continue
		}
		// Is the stream cut at t.off inside a frame?  (A write that failed
		// before its first byte at a frame boundary tears nothing.)
		if !midFrame(wire, t.off, packed) {
			continue
		}
		cuts++
		tail := wire[t.off:]
		if len(tail) == 0 {
			continue
		}
		if t.hasNext && bytes.Equal(t.next, t.rest) {
			continue // the same buffer was retried
		}
		if viol == "" {
			viol = "write #" + itoa(t.writeIdx) + " (" + t.kind.String() + ") left the stream inside a frame at offset " +
				itoa(t.off) + "; " + itoa(len(tail)) + " further bytes were written that do not continue that frame"
		}
	}
	return viol, cuts
}

func itoa(n int) string {
	if n == 0 {
		return "0"
	}
	neg := n < 0
	if neg {
		n = -n
	}
	var b [20]byte
	i := len(b)
	for n > 0 {
		i--
		b[i] = byte('0' + n%10)
		n /= 10
	}
	if neg {
		i--
		b[i] = '-'
	}
	return string(b[i:])
}
