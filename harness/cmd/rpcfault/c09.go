package main

// C09 — fault enumeration.
//
// mode "faults":      grid (scenario, link, fault kind, operation index 1..N)
// mode "closecancel": grid (scenario, link, action, global operation index 1..N)
//
// N comes from a fault-free calibration run of every (scenario, link) that
// each child process performs first (with every oracle switched on, so the
// calibration runs are checked cases too).  Case i of a mode is cell
// i mod G of the grid (canonical order), repetition i div G; the yield policy
// is seeded by the case seed, so repetitions explore other interleavings.

import (
	"fmt"
	"sync"
	"sync/atomic"
	"time"

	"capnproto.org/go/capnp/v3/zverif/common"
)

var c09Links = []string{"pipe", "stream", "packed"}

var msgFaultKinds = []faultKind{fkNewErr, fkNewErrSticky, fkSendErr, fkSendErrSticky, fkRecvErr, fkRecvEOF}
var writeFaultKinds = []faultKind{fkShort1, fkShort7, fkShort8, fkShortLenM1, fkZeroErr, fkTimeout0, fkTimeoutRecover, fkTimeoutStuck}

type closeAction int

const (
	actNone closeAction = iota
	actCancel
	actClose1
	actClose2Seq
	actClose2Conc
	actCloseCall
	nActions
)

var actionNames = [...]string{"none", "cancel", "close-once", "close-twice-seq", "close-twice-conc", "close-with-call"}

// epilogueAllowance is the number of operations of each kind enumerated
// beyond the last operation before Close (Abort = 1 NewMessage + 1 send = 2
// Writes; one more send / frame for a late Return; one more receive).
var epilogueAllowance = [nOpKinds]int{opNew: 1, opSend: 2, opRecv: 1, opWrite: 4, opRead: 0}

type calib struct {
	counts [nOpKinds]int
	global int // operations that can carry the step trigger (everything but Read)
}

type cell struct {
	scen   int
	link   string
	kind   faultKind   // faults mode
	action closeAction // closecancel mode
	index  int
	ctx    ctxKind // kind of Context the script uses (not part of the cell's name: a seeded dimension)
}

// pickCtxKind chooses the Context kind of a run: a pure function of the cell
// number, the repetition and the seed, so that neighbouring cells differ, a
// cell sees every kind within three repetitions, and a replay gets the same
// kind.  The cancel action needs a Context that can be cancelled.
func pickCtxKind(c cell, cellNo, rep, seed uint64) ctxKind {
	if c.action == actCancel {
		return ctxCancellable
	}
	return ctxKind((cellNo + rep + seed) % uint64(nCtxKinds))
}

func (c cell) String() string {
	if c.action != actNone {
		return fmt.Sprintf("%s/%s/%s@%d", scenarios[c.scen].name, c.link, actionNames[c.action], c.index)
	}
	return fmt.Sprintf("%s/%s/%s@%d", scenarios[c.scen].name, c.link, c.kind, c.index)
}

type c09 struct {
	rec   *common.Recorder
	cfg   *common.Config
	cal   map[string]calib // scenario/link
	yield bool
}

// runCell executes one scenario run with the given disturbance.  It returns
// the outcome and the bench (for calibration counts).
func (d *c09) runCell(idx uint64, c cell, seed uint64, desc string) (caseOutcome, *bench) {
	var b *bench
	var bmu sync.Mutex
	get := func() *bench {
		bmu.Lock()
		defer bmu.Unlock()
		return b
	}
	installYield(seed, d.yield)
	out := runWatched(d.rec, idx, "C09", get, func() {
		o := benchOpts{link: c.link}
		// Deadline support: needed for the timeout kinds; alternate otherwise.
		o.deadlines = c.kind >= fkTimeout0 || (c.index+c.scen)%2 == 0
		if c.kind != fkNone {
			o.plan = faultPlan{kind: c.kind, index: c.index}
		}
		if c.action != actNone {
			o.trigAt = c.index
		}
		if c.kind == fkNone && c.action == actNone {
			// Calibration: the operation count must not depend on whether
			// the Abort made it within AbortTimeout on a loaded machine.
			// (No fault is injected, so nothing can make the Abort block.)
			o.abortTO = 10 * time.Second
		}
		nb := newBench(d.rec, idx, "C09", o)
		nb.scenario = scenarios[c.scen].name
		switch {
		case c.kind != fkNone:
			nb.action = c.kind.String()
		case c.action != actNone:
			nb.action = actionNames[c.action]
		default:
			nb.action = "fault-free"
		}
		bmu.Lock()
		b = nb
		bmu.Unlock()
		sc := newSctxKind(nb, c.ctx)
		var injWG sync.WaitGroup
		stopInj := make(chan struct{})
		if c.action != actNone {
			injWG.Add(1)
			go func() {
				defer injWG.Done()
				select {
				case <-nb.lk.Tracker().trigCh:
				case <-stopInj:
					return
				}
				d.inject(sc, c.action)
			}()
		}
		scenarios[c.scen].run(sc)
		nb.setStep("after-scenario")
		// Subsequent operation on the connection: must complete, whatever
		// state the disturbance left the connection in.
		if c.kind != fkNone || c.action != actNone {
			// (The call is issued on the still unresolved bootstrap promise,
			// racing with its Return.)
			bc := nb.bootstrap(sc.ctx)
			nb.call("subsequent-echo", sc.ctx, bc, mEcho, 99, nil, false)
			nb.resolve(sc.ctx, bc)
			nb.release("subsequent-bootstrap", bc)
		}
		close(stopInj)
		id := nb.ops.begin("join-injector")
		injWG.Wait()
		nb.ops.end(id)
		nb.checkLocksFree("after-scenario")
		nb.preEpilogue, _, _ = nb.lk.Tracker().snapshot()
		nb.finish(atomic.LoadInt32(&sc.closed) != 0)
		sc.cancel()
		sc.releaseAll()
		nb.checkLocksFree("after-release")
	})
	return out, get()
}

// inject performs a cancel / Close action concurrently with the scenario.
func (d *c09) inject(sc *sctx, a closeAction) {
	b := sc.b
	switch a {
	case actCancel:
		sc.cancel()
	case actClose1:
		atomic.StoreInt32(&sc.closed, 1)
		b.closeConn("injected")
	case actClose2Seq:
		atomic.StoreInt32(&sc.closed, 1)
		b.closeConn("injected-1")
		b.closeConn("injected-2")
		b.checkLocksFree("after-second-close")
	case actClose2Conc:
		atomic.StoreInt32(&sc.closed, 1)
		var wg sync.WaitGroup
		for i := 0; i < 2; i++ {
			wg.Add(1)
			go func(i int) {
				defer wg.Done()
				b.closeConn("injected-conc-" + itoa(i))
			}(i)
		}
		id := b.ops.begin("join-concurrent-closes")
		wg.Wait()
		b.ops.end(id)
	case actCloseCall:
		atomic.StoreInt32(&sc.closed, 1)
		var wg sync.WaitGroup
		wg.Add(2)
		go func() {
			defer wg.Done()
			b.closeConn("injected-with-call")
		}()
		go func() {
			defer wg.Done()
			bc := b.bootstrap(sc.ctx)
			b.call("concurrent-with-close", sc.ctx, bc, mEcho, 5, nil, false)
			b.release("concurrent-bootstrap", bc)
		}()
		id := b.ops.begin("join-close-and-call")
		wg.Wait()
		b.ops.end(id)
	}
	b.rec.Count("injected_action_"+actionNames[a], 1)
}

func calKey(scen int, link string) string { return scenarios[scen].name + "/" + link }

// calibrate runs every (scenario, link) fault-free.
func (d *c09) calibrate() bool {
	d.cal = map[string]calib{}
	for s := range scenarios {
		for _, l := range c09Links {
			c := cell{scen: s, link: l}
			d.rec.Case(d.cfg.Start, "calibration "+c.String())
			out, b := d.runCell(d.cfg.Start, c, 0, "calibration")
			d.rec.Count("calibration_runs", 1)
			if out != caseOK || b == nil {
				d.rec.Logf("calibration of %s failed", c)
				return false
			}
			// Operations up to the epilogue are deterministic; what Close
			// adds (Abort, late Returns of cancelled calls, a last receive)
			// depends on timing, so a fixed allowance is enumerated instead
			// (cells beyond the operations of a particular run are counted
			// as faults_not_reached / actions_not_reached).
			counts := b.preEpilogue
			if pl, ok := b.lk.(*pipeLink); ok {
				// Whether the receive loop has already re-entered
				// RecvMessage after its last message is a race; the number
				// of calls it makes is messages delivered + 1.
				counts[opRecv] = int(atomic.LoadInt32(&pl.sentToConn)) + 1
			}
			for k := opKind(0); k < nOpKinds; k++ {
				if counts[k] > 0 {
					counts[k] += epilogueAllowance[k]
				}
			}
			var cb calib
			cb.counts = counts
			for k := opKind(0); k < nOpKinds; k++ {
				if k != opRead {
					cb.global += counts[k]
				}
			}
			d.cal[calKey(s, l)] = cb
			for k := opKind(0); k < nOpKinds; k++ {
				if k == opRead || counts[k] == 0 {
					continue
				}
				name := fmt.Sprintf("N_%s_%s_%s", scenarios[s].name, l, opKindNames[k])
				d.rec.Max("max_"+name, int64(counts[k]))
				d.rec.Max("max_neg"+name, int64(1000000-counts[k]))
			}
		}
	}
	return true
}

func (d *c09) faultGrid() []cell {
	var g []cell
	for s := range scenarios {
		pc := d.cal[calKey(s, "pipe")]
		for _, k := range msgFaultKinds {
			n := pc.counts[k.op()]
			for i := 1; i <= n; i++ {
				g = append(g, cell{scen: s, link: "pipe", kind: k, index: i})
			}
		}
		for _, l := range []string{"stream", "packed"} {
			n := d.cal[calKey(s, l)].counts[opWrite]
			for _, k := range writeFaultKinds {
				for i := 1; i <= n; i++ {
					g = append(g, cell{scen: s, link: l, kind: k, index: i})
				}
			}
		}
	}
	return g
}

func (d *c09) closeGrid() []cell {
	var g []cell
	for s := range scenarios {
		for _, l := range []string{"pipe", "stream"} {
			n := d.cal[calKey(s, l)].global
			for a := actCancel; a < nActions; a++ {
				for i := 1; i <= n; i++ {
					g = append(g, cell{scen: s, link: l, action: a, index: i})
				}
			}
		}
	}
	return g
}

func runC09(cfg *common.Config, rec *common.Recorder) {
	if cfg.Mode == "hold" {
		runC09Hold(cfg, rec)
		return
	}
	d := &c09{rec: rec, cfg: cfg, yield: false}
	total := extraInt(cfg.Extra, "total", 0)
	salt := extraInt(cfg.Extra, "salt", 0) // lets two jobs of one tier use different yield seeds
	if !d.calibrate() {
		// The calibration itself produced a violation / inconclusive entry.
		if rec.NumViolations() > 0 {
			rec.AbortBatch(cfg.Start + cfg.Count)
		}
		rec.Inconclusive("calibration failed")
		rec.Finish()
		return
	}
	d.yield = true
	var grid []cell
	switch cfg.Mode {
	case "faults":
		grid = d.faultGrid()
	case "closecancel":
		grid = d.closeGrid()
	default:
		rec.Inconclusive("unknown mode " + cfg.Mode)
		rec.Finish()
		return
	}
	if only := extraStr(cfg.Extra, "only"); only != "" {
		// debugging aid: run one named cell (all repetitions map to it)
		var g2 []cell
		for _, c := range grid {
			if c.String() == only {
				g2 = append(g2, c)
			}
		}
		if len(g2) == 0 {
			rec.Inconclusive("no such cell: " + only)
			rec.Finish()
			return
		}
		grid = g2
		total = 0
	}
	forceCtx, haveForceCtx := ctxKindByName(extraStr(cfg.Extra, "ctx")) // debugging aid: ctx=background
	G := uint64(len(grid))
	rec.Max("max_grid_size_"+cfg.Mode, int64(G))
	rec.Max("max_neg_grid_size_"+cfg.Mode, int64(1000000-G))
	if total > 0 && uint64(total) < G {
		rec.Inconclusive(fmt.Sprintf("grid of mode %s has %d cells but the tier runs only %d cases: not exhaustive", cfg.Mode, G, total))
	}
	for i := cfg.Start; i < cfg.Start+cfg.Count; i++ {
		c := grid[i%G]
		rep := i / G
		seed := common.CaseSeed(cfg.Seed+uint64(salt)*7919, cfg.Prop+"/"+cfg.Mode, i)
		c.ctx = pickCtxKind(c, i%G, rep, cfg.Seed+uint64(salt))
		if haveForceCtx && c.action != actCancel {
			c.ctx = forceCtx
		}
		rec.Case(i, c.String()+fmt.Sprintf(" rep=%d ctx=%s", rep, c.ctx))
		out, b := d.runCell(i, c, seed, c.String())
		rec.Count("runs_ctx_"+c.ctx.String(), 1)
		if rep == 0 {
			rec.Count("grid_cells_run_"+cfg.Mode, 1)
		}
		act := c.kind.String()
		if c.action != actNone {
			act = actionNames[c.action]
		}
		rec.Count("runs_scenario_"+scenarios[c.scen].name, 1)
		rec.Count("runs_kind_"+act, 1)
		rec.Count("runs_link_"+c.link, 1)
		if b != nil {
			_, _, fired := b.lk.Tracker().snapshot()
			trig := false
			select {
			case <-b.lk.Tracker().trigCh:
				trig = true
			default:
			}
			switch {
			case c.kind != fkNone && fired > 0:
				rec.Count("faults_injected", 1)
				rec.Count("injected_kind_"+act, 1)
			case c.kind != fkNone:
				rec.Count("faults_not_reached", 1)
			case trig:
				rec.Count("actions_injected", 1)
			default:
				rec.Count("actions_not_reached", 1)
			}
			// distinct non-trivial case: the cell plus what was observed on
			// the wire and by the application
			h := common.HashString(c.String() + "|" + fmt.Sprint(b.peer.logSummary(64)) + "|" + fmt.Sprint(len(b.rep.list())))
			if fired > 0 || trig {
				rec.Distinct(h)
			}
			if rec.WantSample() && (fired > 0 || trig) {
				rec.Sample(map[string]interface{}{"cell": c.String(), "wire_from_conn": b.peer.logSummary(12), "reported": b.rep.list()})
			}
		}
		if out != caseOK {
			rec.AbortBatch(i + 1)
		}
	}
	reportYieldSites(rec)
	rec.Finish()
}

func reportYieldSites(rec *common.Recorder) {
	sites := 0
	var hits int64
	for s := range yieldSiteHits {
		if v := atomic.LoadInt64(&yieldSiteHits[s]); v > 0 {
			sites++
			hits += v
			rec.Max(fmt.Sprintf("max_yield_site_%d_hits_per_batch", s), v)
		}
	}
	rec.Max("max_yield_sites_hit", int64(sites))
	rec.Count("yield_hits", hits)
}

func extraInt(extra, key string, def int) int {
	// extra is "k=v,k=v"
	for _, kv := range splitComma(extra) {
		if len(kv) > len(key) && kv[:len(key)] == key && kv[len(key)] == '=' {
			n := 0
			for _, ch := range kv[len(key)+1:] {
				if ch < '0' || ch > '9' {
					return def
				}
				n = n*10 + int(ch-'0')
			}
			return n
		}
	}
	return def
}

func extraStr(extra, key string) string {
	for _, kv := range splitComma(extra) {
		if len(kv) > len(key) && kv[:len(key)] == key && kv[len(key)] == '=' {
			return kv[len(key)+1:]
		}
	}
	return ""
}

func splitComma(s string) []string {
	var out []string
	cur := ""
	for _, ch := range s {
		if ch == ',' {
			out = append(out, cur)
			cur = ""
		} else {
			cur += string(ch)
		}
	}
	if cur != "" {
		out = append(out, cur)
	}
	return out
}
