package main

// Schema-aware generator of hostile rpc.capnp messages (C08).  Everything is
// built through the public std/capnp/rpc bindings; union discriminants the
// bindings cannot express are written with Struct.SetUint16.  Ids are drawn
// from classes relative to the peer's current view of the tables (live,
// finished, unknown, 2^32-1 …), so the generator is a pure function of
// (rng, view).

import (
	"encoding/binary"
	"fmt"

	"capnproto.org/go/capnp/v3"
	rpccp "capnproto.org/go/capnp/v3/std/capnp/rpc"
	"capnproto.org/go/capnp/v3/zverif/common"
)

type hostile struct {
	onFailed bool       // refers to an answer that returned an exception (not yet finished)
	kind     string     // message kind (signature component)
	desc     string     // full description
	msgs     [][][]byte // one or more messages (segments each)
	qid      uint32     // question id carried (if hasQ)
	hasQ     bool
	ends     bool // a legal message after which the Conn is expected to shut down (Abort)
}

var hostileKinds = []string{
	"call", "call", "call", "call", "return", "return", "return", "finish", "finish-dup", "release",
	"disembargo", "disembargo", "bootstrap", "resolve", "unimplemented", "abort", "unknown-which",
	"obsolete-save", "obsolete-delete", "provide", "accept", "join", "null-root", "ptr-corrupt", "ptr-corrupt",
	"wrong-type-body", "wrong-type-body",
}

type hgen struct {
	r *common.RNG
	v peerView
	d []string // description fragments

	onFailed bool // a promisedAnswer / id refers to an answer that returned an exception
}

func (g *hgen) note(format string, a ...interface{}) {
	if len(g.d) == 40 {
		g.d = append(g.d, "...")
	}
	if len(g.d) < 40 {
		g.d = append(g.d, fmt.Sprintf(format, a...))
	}
}

func pickFrom(r *common.RNG, xs []uint32) (uint32, bool) {
	if len(xs) == 0 {
		return 0, false
	}
	return xs[r.Intn(len(xs))], true
}

// inQ picks a question id for a message the peer sends as a *caller*
// (Bootstrap/Call/Provide/Accept/Join/Finish): an id of the Conn's answer table.
func (g *hgen) inQ(forFinish bool) uint32 {
	r := g.r
	for tries := 0; tries < 4; tries++ {
		switch r.Intn(7) {
		case 0, 1:
			if !forFinish {
				g.note("q=fresh")
				return g.v.nextQ + 500 + uint32(r.Intn(1000))
			}
			if id, ok := pickFrom(r, g.v.myReturned); ok {
				g.note("q=returned:%d", id)
				return id
			}
		case 2:
			if id, ok := pickFrom(r, g.v.myOpen); ok {
				g.note("q=live:%d", id)
				return id
			}
		case 3:
			if id, ok := pickFrom(r, g.v.myFailed); ok {
				g.note("q=failed:%d", id)
				g.onFailed = true
				return id
			}
			if id, ok := pickFrom(r, g.v.myReturned); ok {
				g.note("q=returned:%d", id)
				return id
			}
		case 4:
			if id, ok := pickFrom(r, g.v.myFinished); ok {
				g.note("q=finished:%d", id)
				return id
			}
		case 5:
			g.note("q=2^32-1")
			return 0xFFFFFFFF
		case 6:
			g.note("q=0")
			return 0
		}
	}
	g.note("q=unknown")
	return 7777777
}

// outQ picks an answer id for a Return (an id of the Conn's question table).
func (g *hgen) outQ() uint32 {
	r := g.r
	for tries := 0; tries < 4; tries++ {
		switch r.Intn(6) {
		case 0, 1:
			if id, ok := pickFrom(r, g.v.connQuestionsOpen); ok {
				g.note("a=open:%d", id)
				return id
			}
		case 2:
			if id, ok := pickFrom(r, g.v.connQuestionsDone); ok {
				g.note("a=answered:%d", id)
				return id
			}
		case 3:
			g.note("a=unknown")
			return uint32(50 + r.Intn(1000))
		case 4:
			g.note("a=2^32-1")
			return 0xFFFFFFFF
		case 5:
			g.note("a=beyond-table")
			return uint32(len(g.v.connQuestionsOpen)+len(g.v.connQuestionsDone)) + uint32(r.Intn(3))
		}
	}
	return 99999
}

func (g *hgen) export() uint32 {
	r := g.r
	switch r.Intn(6) {
	case 0, 1, 2:
		if id, ok := pickFrom(r, g.v.exports); ok {
			g.note("export=live:%d", id)
			return id
		}
	case 3:
		g.note("export=2^32-1")
		return 0xFFFFFFFF
	case 4:
		var max uint32
		for _, e := range g.v.exports {
			if e > max {
				max = e
			}
		}
		id := max + 1 + uint32(r.Intn(3))
		g.note("export=missing:%d", id)
		return id
	}
	id := uint32(r.Intn(8))
	g.note("export=rnd:%d", id)
	return id
}

func (g *hgen) importID() uint32 {
	r := g.r
	switch r.Intn(4) {
	case 0:
		if id, ok := pickFrom(r, g.v.hosted); ok {
			g.note("import=existing:%d", id)
			return id
		}
	case 1:
		g.note("import=2^32-1")
		return 0xFFFFFFFF
	}
	id := uint32(200 + r.Intn(50))
	g.note("import=new:%d", id)
	return id
}

func (g *hgen) transform(pa rpccp.PromisedAnswer) {
	r := g.r
	n := r.PickInt(0, 0, 1, 1, 2, 3, 100)
	ops, err := pa.NewTransform(int32(n))
	if err != nil {
		return
	}
	g.note("xform[%d]", n)
	for i := 0; i < n; i++ {
		op := ops.At(i)
		switch r.Intn(6) {
		case 0:
			op.SetNoop()
		case 1, 2:
			op.SetGetPointerField(uint16(r.PickInt(0, 0, 1, 2, 0xFFFF)))
		case 3:
			op.SetGetPointerField(0xFFFF)
			g.note("op:field=65535")
		case 4:
			op.Struct.SetUint16(0, uint16(r.PickInt(2, 3, 0xFFFF)))
			op.Struct.SetUint16(2, uint16(r.Intn(4)))
			g.note("op:unknown")
		default:
			op.SetGetPointerField(0)
		}
	}
}

func (g *hgen) target(newTarget func() (rpccp.MessageTarget, error)) {
	r := g.r
	c := r.Intn(10)
	if c == 0 {
		g.note("target=null")
		return
	}
	t, err := newTarget()
	if err != nil {
		return
	}
	switch {
	case c <= 4:
		g.note("target=importedCap")
		t.SetImportedCap(g.export())
	case c <= 8:
		g.note("target=promisedAnswer")
		pa, err := t.NewPromisedAnswer()
		if err != nil {
			return
		}
		pa.SetQuestionId(g.inQ(true))
		if r.Chance(1, 8) {
			g.note("no-transform")
		} else {
			g.transform(pa)
		}
	default:
		w := uint16(r.PickInt(2, 3, 0xFFFF))
		g.note("target=unknown-which:%d", w)
		t.SetImportedCap(uint32(r.Intn(4)))
		t.Struct.SetUint16(4, w)
	}
}

func (g *hgen) capTable(pl rpccp.Payload) int {
	r := g.r
	n := r.PickInt(0, 0, 1, 1, 2, 3, 4, 300)
	if n == 0 {
		return 0
	}
	l, err := pl.NewCapTable(int32(n))
	if err != nil {
		return 0
	}
	g.note("caps[%d]", n)
	for i := 0; i < n; i++ {
		d := l.At(i)
		switch r.Intn(9) {
		case 0:
			d.SetNone()
		case 1:
			d.SetSenderHosted(g.importID())
		case 2:
			d.SetSenderPromise(g.importID())
		case 3, 4:
			g.note("receiverHosted")
			d.SetReceiverHosted(g.export())
		case 5:
			g.note("receiverAnswer")
			pa, err := d.NewReceiverAnswer()
			if err == nil {
				pa.SetQuestionId(g.inQ(true))
				g.transform(pa)
			}
		case 6:
			g.note("thirdPartyHosted")
			tp, err := d.NewThirdPartyHosted()
			if err == nil {
				tp.SetVineId(g.importID())
			}
		case 7:
			w := uint16(r.PickInt(6, 7, 0xFFFF))
			g.note("desc-unknown-which:%d", w)
			d.SetSenderHosted(uint32(r.Intn(8)))
			d.Struct.SetUint16(0, w)
		default:
			g.note("receiverAnswer-null")
			d.Struct.SetUint16(0, 4)
		}
	}
	return n
}

// payload fills a Payload with one of many content shapes.
func (g *hgen) payload(newPayload func() (rpccp.Payload, error)) {
	r := g.r
	c := r.Intn(12)
	if c == 0 {
		g.note("payload=null")
		return
	}
	pl, err := newPayload()
	if err != nil {
		return
	}
	ncaps := 0
	if c != 1 {
		ncaps = g.capTable(pl)
	}
	seg := pl.Segment()
	switch {
	case c == 1:
		g.note("content=null,no-captable")
	case c == 2:
		g.note("content=null")
	case c == 3:
		g.note("content=list")
		l, err := capnp.NewData(seg, []byte("hostile"))
		if err == nil {
			pl.SetContent(l.List.ToPtr())
		}
	case c == 4:
		idx := uint32(r.PickU64(0, 1, 5, 0xFFFFFFFF))
		g.note("content=interface:%d", idx)
		pl.SetContent(capnp.NewInterface(seg, capnp.CapabilityID(idx)).ToPtr())
	case c == 5:
		g.note("content=ptrlist-of-caps")
		pls, err := capnp.NewPointerList(seg, 3)
		if err == nil {
			for i := 0; i < 3; i++ {
				pls.Set(i, capnp.NewInterface(seg, capnp.CapabilityID(r.Intn(6))).ToPtr())
			}
			pl.SetContent(pls.List.ToPtr())
		}
	default:
		s, err := capnp.NewStruct(seg, capnp.ObjectSize{DataSize: capnp.Size(8 * r.PickInt(0, 1, 1, 2)), PointerCount: uint16(r.PickInt(0, 1, 1, 2))})
		if err != nil {
			return
		}
		if s.Size().DataSize >= 8 {
			s.SetUint64(0, r.Uint64()%1000)
		}
		if s.Size().PointerCount > 0 {
			idx := uint32(0)
			switch r.Intn(5) {
			case 0:
				idx = uint32(ncaps) // one past the table
			case 1:
				idx = 0xFFFFFFFF
			case 2:
				if ncaps > 0 {
					idx = uint32(r.Intn(ncaps))
				}
			}
			if !r.Chance(1, 4) {
				s.SetPtr(0, capnp.NewInterface(seg, capnp.CapabilityID(idx)).ToPtr())
				g.note("content.ptr0=cap:%d", idx)
			}
		}
		pl.SetContent(s.ToPtr())
	}
}

func (g *hgen) anyPtr(seg *capnp.Segment) capnp.Ptr {
	switch g.r.Intn(4) {
	case 0:
		return capnp.Ptr{}
	case 1:
		s, _ := capnp.NewStruct(seg, capnp.ObjectSize{DataSize: 8, PointerCount: 1})
		return s.ToPtr()
	case 2:
		t, _ := capnp.NewText(seg, "hostile")
		return t.List.ToPtr()
	}
	return capnp.NewInterface(seg, capnp.CapabilityID(g.r.Intn(3))).ToPtr()
}

func (g *hgen) exception(e rpccp.Exception) {
	if !g.r.Chance(1, 4) {
		e.SetReason("hostile exception")
	} else {
		g.note("reason=null")
	}
	e.SetType(rpccp.Exception_Type(g.r.PickInt(0, 1, 2, 3, 4, 0xFFFF)))
}

// genHostile builds one hostile item of the given kind.
func genHostile(r *common.RNG, kind string, v peerView) hostile {
	g := &hgen{r: r, v: v}
	h := hostile{kind: kind}
	msg, m := newRPC()
	add := func() {
		h.msgs = append(h.msgs, segsOf(msg))
	}
	switch kind {
	case "call":
		c, _ := m.NewCall()
		h.qid, h.hasQ = g.inQ(false), true
		c.SetQuestionId(h.qid)
		if r.Chance(1, 6) {
			c.SetInterfaceId(r.Uint64())
			g.note("iface=unknown")
		} else {
			c.SetInterfaceId(ifaceID)
		}
		meth := uint16(r.PickInt(int(mEcho), int(mEcho), int(mHold), int(mGetCap), int(mCallCap), 9, 0xFFFF))
		c.SetMethodId(meth)
		g.note("method=%d", meth)
		g.target(c.NewTarget)
		g.payload(c.NewParams)
		switch r.Intn(8) {
		case 0:
			c.SendResultsTo().SetYourself()
			g.note("sendResultsTo=yourself")
		case 1:
			c.SendResultsTo().SetThirdParty(g.anyPtr(c.Segment()))
			g.note("sendResultsTo=thirdParty")
		case 2:
			w := uint16(r.PickInt(3, 4, 0xFFFF))
			c.Struct.SetUint16(6, w)
			g.note("sendResultsTo=unknown:%d", w)
		}
		c.SetAllowThirdPartyTailCall(r.Bool())
		add()
	case "return":
		rt, _ := m.NewReturn()
		rt.SetAnswerId(g.outQ())
		rt.SetReleaseParamCaps(r.Bool())
		switch r.Intn(10) {
		case 0, 1, 2:
			g.note("results")
			g.payload(rt.NewResults)
		case 3:
			g.note("exception")
			if r.Chance(1, 4) {
				rt.Struct.SetUint16(6, uint16(rpccp.Return_Which_exception))
				g.note("exception=null")
			} else if e, err := rt.NewException(); err == nil {
				g.exception(e)
			}
		case 4:
			g.note("canceled")
			rt.SetCanceled()
		case 5:
			g.note("resultsSentElsewhere")
			rt.SetResultsSentElsewhere()
		case 6:
			g.note("takeFromOtherQuestion")
			rt.SetTakeFromOtherQuestion(g.inQ(true))
		case 7:
			g.note("acceptFromThirdParty")
			rt.SetAcceptFromThirdParty(g.anyPtr(rt.Segment()))
		case 8:
			w := uint16(r.PickInt(6, 7, 0xFFFF))
			g.note("which=unknown:%d", w)
			rt.Struct.SetUint16(6, w)
		default:
			g.note("results,wrong-type-pointer")
			rt.Struct.SetUint16(6, uint16(rpccp.Return_Which_results))
			rt.Struct.SetPtr(0, g.anyPtr(rt.Segment()))
		}
		add()
	case "finish", "finish-dup":
		f, _ := m.NewFinish()
		h.qid = g.inQ(true)
		f.SetQuestionId(h.qid)
		f.SetReleaseResultCaps(r.Bool())
		add()
		if kind == "finish-dup" {
			add()
		}
	case "release":
		rl, _ := m.NewRelease()
		rl.SetId(g.export())
		n := uint32(r.PickU64(0, 1, 1, 2, 1000, 0xFFFFFFFF))
		rl.SetReferenceCount(n)
		g.note("count=%d", n)
		add()
	case "disembargo":
		d, _ := m.NewDisembargo()
		g.target(d.NewTarget)
		switch r.Intn(8) {
		case 0, 1:
			id := uint32(r.PickU64(0, 1, 7, 0xFFFFFFFF))
			g.note("senderLoopback:%d", id)
			d.Context().SetSenderLoopback(id)
		case 2, 3, 4:
			id, ok := pickFrom(r, g.v.embargoes)
			if !ok || r.Chance(1, 3) {
				id = uint32(r.PickU64(0, 1, 9, 0xFFFFFFFF))
				g.note("receiverLoopback=unknown:%d", id)
			} else {
				g.note("receiverLoopback=live:%d", id)
			}
			d.Context().SetReceiverLoopback(id)
		case 5:
			g.note("accept")
			d.Context().SetAccept()
		case 6:
			g.note("provide")
			d.Context().SetProvide(g.inQ(true))
		default:
			w := uint16(r.PickInt(4, 5, 0xFFFF))
			g.note("context=unknown:%d", w)
			d.Struct.SetUint16(4, w)
		}
		add()
	case "bootstrap":
		b, _ := m.NewBootstrap()
		h.qid, h.hasQ = g.inQ(false), true
		b.SetQuestionId(h.qid)
		if r.Bool() {
			b.SetDeprecatedObjectId(g.anyPtr(b.Segment()))
			g.note("deprecatedObjectId")
		}
		add()
	case "resolve":
		rs, _ := m.NewResolve()
		rs.SetPromiseId(g.importID())
		switch r.Intn(4) {
		case 0:
			if cd, err := rs.NewCap(); err == nil {
				cd.SetReceiverHosted(g.export())
			}
		case 1:
			if cd, err := rs.NewCap(); err == nil {
				cd.SetSenderHosted(g.importID())
			}
		case 2:
			if e, err := rs.NewException(); err == nil {
				g.exception(e)
			}
		default:
			rs.Struct.SetUint16(4, uint16(r.PickInt(2, 0xFFFF)))
			g.note("which=unknown")
		}
		add()
	case "unimplemented":
		if r.Chance(1, 3) {
			m.Struct.SetUint16(0, uint16(rpccp.Message_Which_unimplemented))
			g.note("inner=null")
		} else if u, err := m.NewUnimplemented(); err == nil {
			switch r.Intn(3) {
			case 0:
				if f, err := u.NewFinish(); err == nil {
					f.SetQuestionId(g.inQ(true))
				}
			case 1:
				if c, err := u.NewCall(); err == nil {
					c.SetQuestionId(g.outQ())
				}
			default:
				u.Struct.SetUint16(0, uint16(r.PickInt(0, 9, 14, 0xFFFF)))
			}
		}
		add()
	case "abort":
		h.ends = true
		if r.Chance(1, 3) {
			m.Struct.SetUint16(0, uint16(rpccp.Message_Which_abort))
			g.note("exception=null")
		} else if e, err := m.NewAbort(); err == nil {
			g.exception(e)
		}
		add()
	case "unknown-which":
		w := uint16(r.PickInt(14, 15, 100, 0xFFFF))
		g.note("which=%d", w)
		if r.Bool() {
			m.Struct.SetPtr(0, g.anyPtr(m.Segment()))
		}
		m.Struct.SetUint16(0, w)
		add()
	case "obsolete-save":
		m.SetObsoleteSave(g.anyPtr(m.Segment()))
		add()
	case "obsolete-delete":
		m.SetObsoleteDelete(g.anyPtr(m.Segment()))
		add()
	case "provide":
		p, _ := m.NewProvide()
		h.qid, h.hasQ = g.inQ(false), true
		p.SetQuestionId(h.qid)
		g.target(p.NewTarget)
		p.SetRecipient(g.anyPtr(p.Segment()))
		add()
	case "accept":
		a, _ := m.NewAccept()
		h.qid, h.hasQ = g.inQ(false), true
		a.SetQuestionId(h.qid)
		a.SetProvision(g.anyPtr(a.Segment()))
		a.SetEmbargo(r.Bool())
		add()
	case "join":
		j, _ := m.NewJoin()
		h.qid, h.hasQ = g.inQ(false), true
		j.SetQuestionId(h.qid)
		g.target(j.NewTarget)
		j.SetKeyPart(g.anyPtr(j.Segment()))
		add()
	case "wrong-type-body":
		// a known discriminant whose body pointer is null or not a struct
		w := uint16(r.Intn(14))
		var p capnp.Ptr
		switch r.Intn(4) {
		case 0:
			g.note("which=%v,body=null", rpccp.Message_Which(w))
		case 1:
			g.note("which=%v,body=cap", rpccp.Message_Which(w))
			p = capnp.NewInterface(m.Segment(), capnp.CapabilityID(r.Intn(3))).ToPtr()
		case 2:
			g.note("which=%v,body=list", rpccp.Message_Which(w))
			t, _ := capnp.NewText(m.Segment(), "hostile")
			p = t.List.ToPtr()
		default:
			g.note("which=%v,body=empty-struct", rpccp.Message_Which(w))
			st, _ := capnp.NewStruct(m.Segment(), capnp.ObjectSize{})
			p = st.ToPtr()
		}
		m.Struct.SetPtr(0, p)
		m.Struct.SetUint16(0, w)
		h.ends = w == uint16(rpccp.Message_Which_abort)
		add()
	case "null-root":
		var seg []byte
		switch r.Intn(5) {
		case 0:
			g.note("root=null")
			seg = make([]byte, 8)
		case 1:
			g.note("root=list")
			seg = make([]byte, 16)
			binary.LittleEndian.PutUint64(seg, listPtr(0, 2, 8))
		case 2:
			g.note("root=far-to-missing-segment")
			seg = make([]byte, 8)
			binary.LittleEndian.PutUint64(seg, farPtr(false, 0, 3))
		case 3:
			g.note("root=cap")
			seg = make([]byte, 8)
			binary.LittleEndian.PutUint64(seg, capPtr(0))
		default:
			g.note("root=struct-out-of-bounds")
			seg = make([]byte, 8)
			binary.LittleEndian.PutUint64(seg, structPtr(0, 1, 1))
		}
		h.msgs = append(h.msgs, [][]byte{seg})
	case "ptr-corrupt":
		base := validMessage(r, v)
		segs, what := corruptPointer(r, base.msgs[0])
		g.note("base=%s %s", base.kind, what)
		h.msgs = append(h.msgs, segs)
		h.qid, h.hasQ = base.qid, base.hasQ
	}
	h.onFailed = g.onFailed
	h.desc = kind + "[" + joinStrings(g.d, ",") + "]"
	return h
}

func joinStrings(a []string, sep string) string {
	out := ""
	for i, s := range a {
		if i > 0 {
			out += sep
		}
		out += s
	}
	return out
}

// validMessage builds a well-formed, legal message for the current state (the
// raw material of byte-level corruption).
func validMessage(r *common.RNG, v peerView) hostile {
	fresh := v.nextQ + 2000 + uint32(r.Intn(1000))
	exp, haveExp := pickFrom(r, v.exports)
	switch r.Intn(7) {
	case 0, 1:
		if haveExp {
			caps := []capDesc{{rpccp.CapDescriptor_Which_senderHosted, uint32(300 + r.Intn(20))}}
			if r.Bool() {
				caps = append(caps, capDesc{rpccp.CapDescriptor_Which_receiverHosted, exp})
			}
			return hostile{kind: "call", qid: fresh, hasQ: true,
				msgs: [][][]byte{mkCall(fresh, func(t rpccp.MessageTarget) { t.SetImportedCap(exp) }, ifaceID, mEcho, 5, caps)}}
		}
	case 2:
		if q, ok := pickFrom(r, v.myFailed); ok && r.Bool() {
			return hostile{kind: "call-pipelined-on-failed", qid: fresh, hasQ: true, onFailed: true,
				msgs: [][][]byte{mkCall(fresh, func(t rpccp.MessageTarget) {
					pa, _ := t.NewPromisedAnswer()
					pa.SetQuestionId(q)
					ops, _ := pa.NewTransform(1)
					ops.At(0).SetGetPointerField(0)
				}, ifaceID, mEcho, 6, nil)}}
		}
		if q, ok := pickFrom(r, v.myOpen); ok {
			return hostile{kind: "call-pipelined", qid: fresh, hasQ: true,
				msgs: [][][]byte{mkCall(fresh, func(t rpccp.MessageTarget) {
					pa, _ := t.NewPromisedAnswer()
					pa.SetQuestionId(q)
					ops, _ := pa.NewTransform(2)
					ops.At(0).SetNoop()
					ops.At(1).SetGetPointerField(0)
				}, ifaceID, mEcho, 6, nil)}}
		}
	case 3, 4:
		if a, ok := pickFrom(r, v.connQuestionsOpen); ok {
			if r.Bool() {
				return hostile{kind: "return-results", msgs: [][][]byte{mkReturnResults(a, 8, []capDesc{{rpccp.CapDescriptor_Which_senderHosted, uint32(320 + r.Intn(20))}}, false)}}
			}
			return hostile{kind: "return-exception", msgs: [][][]byte{mkReturnException(a, "valid exception", rpccp.Exception_Type_failed)}}
		}
	case 5:
		if id, ok := pickFrom(r, v.embargoes); ok {
			return hostile{kind: "disembargo", msgs: [][][]byte{mkDisembargo(rpccp.Disembargo_context_Which_receiverLoopback, id, func(t rpccp.MessageTarget) { t.SetImportedCap(exp) })}}
		}
	}
	if r.Bool() && haveExp {
		return hostile{kind: "call", qid: fresh, hasQ: true,
			msgs: [][][]byte{mkCall(fresh, func(t rpccp.MessageTarget) { t.SetImportedCap(exp) }, ifaceID, mEcho, 5, nil)}}
	}
	return hostile{kind: "bootstrap", qid: fresh, hasQ: true, msgs: [][][]byte{mkBootstrap(fresh)}}
}

// corruptPointer overwrites one pointer word of a (single-segment) message
// with a boundary value.
func corruptPointer(r *common.RNG, segs [][]byte) ([][]byte, string) {
	seg := append([]byte(nil), segs[0]...)
	locs := walkPointers(seg)
	if len(locs) == 0 {
		return [][]byte{seg}, "no-pointers"
	}
	loc := locs[r.Intn(len(locs))]
	S := len(seg) / 8
	p := loc.word
	old := binary.LittleEndian.Uint64(seg[p*8:])
	// offsets (in words, relative to p+1) that put the target at boundary
	// positions of the segment
	offs := []int{-(1 << 29), -1 - p - 1, -1 - p, -1, 0, S - p - 2, S - p - 1, S - p, 1<<29 - 1}
	off := offs[r.Intn(len(offs))]
	var v uint64
	var what string
	switch c := r.Intn(10); {
	case loc.kind == "tag" && c < 6:
		// composite tag that is not a struct pointer
		switch r.Intn(3) {
		case 0:
			v = listPtr(0, 2, uint32(r.Intn(4)))
		case 1:
			v = farPtr(false, 0, 0)
		default:
			v = capPtr(uint32(r.Intn(4)))
		}
		what = "tag->non-struct"
	case c < 3:
		dw := uint16(r.PickInt(0, 1, 0xFFFF))
		pw := uint16(r.PickInt(0, 1, 0xFFFF))
		v = structPtr(off, dw, pw)
		what = fmt.Sprintf("struct(off=%d,dw=%d,pw=%d)", off, dw, pw)
	case c < 6:
		es := r.Intn(8)
		cnt := uint32(r.PickU64(0, 1, 1<<29-1))
		v = listPtr(off, es, cnt)
		what = fmt.Sprintf("list(off=%d,es=%d,n=%d)", off, es, cnt)
	case c < 8:
		segID := uint32(r.PickU64(1, 2, 0xFFFFFFFF, 0))
		pad := uint32(r.PickInt(0, S-1, S, 1<<29-1))
		dbl := r.Bool()
		v = farPtr(dbl, pad, segID)
		what = fmt.Sprintf("far(double=%v,pad=%d,seg=%d)", dbl, pad, segID)
	case c < 9:
		// keep kind/sizes, move the offset only
		v = old&^0xFFFFFFFC | uint64(uint32(off)<<2)
		what = fmt.Sprintf("offset=%d", off)
	default:
		v = capPtr(uint32(r.PickU64(0, 7, 0xFFFFFFFF)))
		what = "cap"
	}
	binary.LittleEndian.PutUint64(seg[p*8:], v)
	return [][]byte{seg}, fmt.Sprintf("word %d (%s) %s->%s", p, loc.kind, describeWord(old), what)
}
