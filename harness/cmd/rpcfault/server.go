package main

// The instrumented local capability (bootstrap interface of the Conn under
// test), built with server.New / capnp.NewClient.  All blocking methods
// acknowledge delivery first and honour their Context, so the application
// side can never be the reason a connection does not shut down.

import (
	"context"
	"sync"
	"sync/atomic"

	"capnproto.org/go/capnp/v3"
	"capnproto.org/go/capnp/v3/server"
)

type localServer struct {
	b         *bench
	started   int64
	returned  int64
	shutdowns int64
	children  int64
	relMu     sync.Mutex
	rel       chan struct{}
	relDone   bool
}

func newLocalServer(b *bench) *localServer {
	return &localServer{b: b, rel: make(chan struct{})}
}

func (s *localServer) releaseHeld() {
	s.relMu.Lock()
	if !s.relDone {
		s.relDone = true
		close(s.rel)
	}
	s.relMu.Unlock()
}

type shutdownFn func()

func (f shutdownFn) Shutdown() { f() }

func (s *localServer) methods() []server.Method {
	mk := func(id uint16, impl func(context.Context, *server.Call) error) server.Method {
		return server.Method{
			Method: capnp.Method{InterfaceID: ifaceID, MethodID: id},
			Impl: func(ctx context.Context, c *server.Call) error {
				atomic.AddInt64(&s.started, 1)
				atomic.AddInt64(&s.b.progress, 1)
				err := impl(ctx, c)
				atomic.AddInt64(&s.returned, 1)
				atomic.AddInt64(&s.b.progress, 1)
				return err
			},
		}
	}
	return []server.Method{
		mk(mEcho, func(ctx context.Context, c *server.Call) error {
			v := c.Args().Uint64(0)
			res, err := c.AllocResults(capnp.ObjectSize{DataSize: 8, PointerCount: 1})
			if err != nil {
				return err
			}
			res.SetUint64(0, v+1)
			return nil
		}),
		mk(mHold, func(ctx context.Context, c *server.Call) error {
			c.Ack()
			select {
			case <-ctx.Done():
				return ctx.Err()
			case <-s.rel:
			}
			res, err := c.AllocResults(capnp.ObjectSize{DataSize: 8, PointerCount: 1})
			if err != nil {
				return err
			}
			res.SetUint64(0, 7)
			return nil
		}),
		mk(mGetCap, func(ctx context.Context, c *server.Call) error {
			res, err := c.AllocResults(capnp.ObjectSize{DataSize: 8, PointerCount: 1})
			if err != nil {
				return err
			}
			atomic.AddInt64(&s.children, 1)
			child := capnp.NewClient(server.New(s.methods(), nil, nil, &server.Policy{MaxConcurrentCalls: 64, AnswerQueueSize: 64}))
			id := res.Message().AddCap(child)
			return res.SetPtr(0, capnp.NewInterface(res.Segment(), id).ToPtr())
		}),
		mk(mGetCapAck, func(ctx context.Context, c *server.Call) error {
			// like getcap, but delivery is acknowledged first, so the receive
			// loop is free while the Return is being written
			c.Ack()
			res, err := c.AllocResults(capnp.ObjectSize{DataSize: 8, PointerCount: 1})
			if err != nil {
				return err
			}
			atomic.AddInt64(&s.children, 1)
			child := capnp.NewClient(server.New(s.methods(), nil, nil, &server.Policy{MaxConcurrentCalls: 64, AnswerQueueSize: 64}))
			id := res.Message().AddCap(child)
			return res.SetPtr(0, capnp.NewInterface(res.Segment(), id).ToPtr())
		}),
		mk(mCallCap, func(ctx context.Context, c *server.Call) error {
			p, err := c.Args().Ptr(0)
			if err != nil {
				return err
			}
			cl := p.Interface().Client()
			arg := c.Args().Uint64(0)
			c.Ack()
			ans, release := cl.SendCall(ctx, capnp.Send{
				Method:   capnp.Method{InterfaceID: ifaceID, MethodID: mEcho},
				ArgsSize: capnp.ObjectSize{DataSize: 8, PointerCount: 1},
				PlaceArgs: func(st capnp.Struct) error {
					st.SetUint64(0, arg)
					return nil
				},
			})
			defer release()
			st, err := ans.Struct()
			if err != nil {
				return err
			}
			res, err := c.AllocResults(capnp.ObjectSize{DataSize: 8, PointerCount: 1})
			if err != nil {
				return err
			}
			res.SetUint64(0, st.Uint64(0))
			return nil
		}),
	}
}

func (s *localServer) client() *capnp.Client {
	srv := server.New(s.methods(), nil, shutdownFn(func() { atomic.AddInt64(&s.shutdowns, 1) }),
		&server.Policy{MaxConcurrentCalls: 64, AnswerQueueSize: 64})
	return capnp.NewClient(srv)
}
