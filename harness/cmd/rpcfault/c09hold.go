package main

// C09 mode "hold": Close while a Finish send of the connection is held by
// the link.  A Bootstrap (or a plain call) is cancelled / its client released
// before the peer answered; the resulting Finish send is parked inside the
// transport (slow / blocked write that ignores its Context); Close (once /
// twice concurrently / with a concurrent call) is invoked in exactly that
// window.  Close must not return, and must not touch the transport, before
// the parked send has completed and its goroutine is gone.

import (
	"context"
	"fmt"
	"strings"
	"sync"
	"sync/atomic"

	"capnproto.org/go/capnp/v3"
	rpccp "capnproto.org/go/capnp/v3/std/capnp/rpc"
	"capnproto.org/go/capnp/v3/zverif/common"
)

var holdScenarios = []string{"bootstrap-cancel", "bootstrap-release", "call-cancel"}
var holdActions = []closeAction{actClose1, actClose2Conc, actCloseCall}

// shutdownParkedInWait reports whether some goroutine sits in
// Conn.shutdown -> WaitGroup.Wait (Close has reached the point where it
// waits for the connection's tasks).
func shutdownParkedInWait() bool {
	stackBufMu.Lock()
	defer stackBufMu.Unlock()
	for {
		n := runtimeStackAll(stackBuf)
		if n < len(stackBuf) {
			for _, g := range common.ParseGoroutines(string(stackBuf[:n])) {
				inShutdown, inWait := false, false
				for _, f := range g.Frames {
					if strings.HasSuffix(f, "rpc.(*Conn).shutdown") {
						inShutdown = true
					}
					if strings.HasPrefix(f, "sync.(*WaitGroup).Wait") {
						inWait = true
					}
				}
				if inShutdown && inWait {
					return true
				}
			}
			return false
		}
		stackBuf = make([]byte, 2*len(stackBuf))
	}
}

func runC09Hold(cfg *common.Config, rec *common.Recorder) {
	G := uint64(len(holdScenarios) * len(holdActions))
	rec.Max("max_grid_size_hold", int64(G))
	for i := cfg.Start; i < cfg.Start+cfg.Count; i++ {
		cellNo := int(i % G)
		scen := holdScenarios[cellNo/len(holdActions)]
		act := holdActions[cellNo%len(holdActions)]
		seed := common.CaseSeed(cfg.Seed, cfg.Prop+"/"+cfg.Mode, i)
		kind := ctxKind((i/G + cfg.Seed) % uint64(nCtxKinds)) // Context kind of the script (the cancelled operation derives its own from it)
		rec.Case(i, fmt.Sprintf("hold/%s/%s rep=%d ctx=%s", scen, actionNames[act], i/G, kind))
		var b *bench
		var bmu sync.Mutex
		get := func() *bench {
			bmu.Lock()
			defer bmu.Unlock()
			return b
		}
		installYield(seed, true)
		out := runWatched(rec, i, "C09", get, func() {
			nb := newBench(rec, i, "C09", benchOpts{link: "pipe"})
			nb.scenario = "hold-" + scen
			nb.action = actionNames[act]
			bmu.Lock()
			b = nb
			bmu.Unlock()
			runHoldCase(nb, scen, act, kind)
		})
		rec.Count("runs_ctx_"+kind.String(), 1)
		if i < G {
			rec.Count("grid_cells_run_hold", 1)
		}
		rec.Count("runs_hold_"+scen, 1)
		rec.Count("runs_hold_action_"+actionNames[act], 1)
		if out != caseOK {
			rec.AbortBatch(i + 1)
		}
	}
	reportYieldSites(rec)
	rec.Finish()
}

func runHoldCase(b *bench, scen string, act closeAction, kind ctxKind) {
	p := b.peer
	pl := b.lk.(*pipeLink)
	sc := newSctxKind(b, kind)
	cctx, cancel := context.WithCancel(sc.ctx)
	defer cancel()
	var bc *capnp.Client
	switch scen {
	case "bootstrap-cancel", "bootstrap-release":
		p.setHoldBootstrap(true) // the peer does not answer the Bootstrap
		sc.step("bootstrap")
		bc = b.bootstrap(cctx)
		sc.wait("bootstrap-seen", func() bool { return p.sawKind(rpccp.Message_Which_bootstrap, 1) })
		pl.armHoldFinish()
		sc.step("cancel-before-return")
		if scen == "bootstrap-cancel" {
			cancel()
		} else {
			b.release("unanswered-bootstrap", bc)
			bc = nil
		}
	case "call-cancel":
		bc = sc.bootResolved()
		sc.step("held-call")
		done := make(chan struct{})
		ch := b.goCall("held", cctx, bc, mHold, 0)
		go func() { <-ch; close(done) }()
		sc.wait("held-call-seen", func() bool { return p.sawCall(mHold, 1) != nil }, done)
		pl.armHoldFinish()
		sc.step("cancel-before-return")
		cancel()
	}
	// The Finish send is now (about to be) parked in the transport.
	id := b.ops.begin("peer-wait:finish-send-parked")
	select {
	case <-pl.holdSending:
	case <-b.conn.Done():
	}
	b.ops.end(id)
	b.rec.Count("finish_sends_held", 1)
	b.setStep("close-while-send-held")

	// Close in the window.
	var closesDone int32
	var cwg sync.WaitGroup
	nclose := 1
	if act == actClose2Conc {
		nclose = 2
	}
	for k := 0; k < nclose; k++ {
		cwg.Add(1)
		go func(k int) {
			defer cwg.Done()
			// (a concurrent second Close may return its "already closed"
			// error at once; only a successful Close claims that the
			// connection is shut down)
			if err := b.closeConn("while-send-held-" + itoa(k)); err == nil {
				atomic.AddInt32(&closesDone, 1)
			}
		}(k)
	}
	if act == actCloseCall {
		cwg.Add(1)
		go func() {
			defer cwg.Done()
			c2 := b.bootstrap(sc.ctx)
			b.call("concurrent-with-close", sc.ctx, c2, mEcho, 5, nil, false)
			b.release("concurrent-bootstrap", c2)
		}()
	}
	// Wait (logically, no clock) until a Close returned - which it must not
	// while the send is parked - or Close has demonstrably reached the point
	// where it waits for the connection's tasks.
	stable := 0
	b.awaitCond("close-returned-or-waiting-for-tasks", func() bool {
		if atomic.LoadInt32(&closesDone) > 0 || pl.overlapSeen() != "" {
			return true
		}
		if atomic.LoadInt32(&pl.recvCanceled) != 0 && shutdownParkedInWait() {
			stable++
		} else {
			stable = 0
		}
		return stable >= 3
	})
	if atomic.LoadInt32(&closesDone) > 0 {
		frame := "?"
		if l := b.leakedGoroutines(); len(l) > 0 {
			for _, f := range l[0].Frames {
				if strings.HasPrefix(f, rpcPkgPrefix) {
					frame = strings.TrimPrefix(f, "capnproto.org/go/capnp/v3/")
					break
				}
			}
		}
		b.violate("C09/close-returned-while-send-in-flight/"+scen,
			"Conn.Close returned although a Finish send of the connection is still executing inside the transport (its message unreleased); goroutine still alive: "+frame,
			"", b.describe())
	} else if pl.overlapSeen() == "" {
		b.rec.Count("close_waited_for_held_send", 1)
	}
	// Let the send complete.
	close(pl.holdProceed)
	id = b.ops.begin("join-closes")
	cwg.Wait()
	b.ops.end(id)
	b.finish(true)
	sc.cancel()
	sc.releaseAll()
	b.checkLocksFree("after-release")
}
