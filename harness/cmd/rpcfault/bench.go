package main

// The bench: one real rpc.Conn against the scripted peer over a link, an
// instrumented bootstrap capability, a recording ErrorReporter, the
// pending-operation table and the quiescence watch.

import (
	"context"
	"fmt"
	"os"
	"runtime"
	"sort"
	"strings"
	"sync"
	"sync/atomic"
	"time"

	"capnproto.org/go/capnp/v3"
	"capnproto.org/go/capnp/v3/internal/verifhook"
	"capnproto.org/go/capnp/v3/rpc"
	"capnproto.org/go/capnp/v3/zverif/common"
)

const (
	abortTimeout = 30 * time.Millisecond
	rpcPkgPrefix = "capnproto.org/go/capnp/v3/rpc."
)

// ---------------------------------------------------------------------------
// pending-operation table

type opTable struct {
	mu       sync.Mutex
	next     int
	pending  map[int]string
	progress *int64
	done     int
}

func newOpTable(progress *int64) *opTable {
	return &opTable{pending: map[int]string{}, progress: progress}
}

func (t *opTable) begin(name string) int {
	t.mu.Lock()
	defer t.mu.Unlock()
	t.next++
	t.pending[t.next] = name
	return t.next
}

func (t *opTable) end(id int) {
	t.mu.Lock()
	delete(t.pending, id)
	t.done++
	t.mu.Unlock()
	atomic.AddInt64(t.progress, 1)
}

func (t *opTable) count() int {
	t.mu.Lock()
	defer t.mu.Unlock()
	return len(t.pending)
}

func (t *opTable) names() []string {
	t.mu.Lock()
	defer t.mu.Unlock()
	var out []string
	for _, n := range t.pending {
		out = append(out, n)
	}
	sort.Strings(out)
	return out
}

func (t *opTable) has(prefix string) (string, bool) {
	for _, n := range t.names() {
		if strings.HasPrefix(n, prefix) {
			return n, true
		}
	}
	return "", false
}

// ---------------------------------------------------------------------------
// recording ErrorReporter

var debugReports = os.Getenv("RPCFAULT_DEBUG") != ""

type reporter struct {
	mu   sync.Mutex
	errs []string
}

func (r *reporter) ReportError(err error) {
	if debugReports {
		fmt.Fprintf(os.Stderr, "REPORT %v\n", err)
	}
	r.mu.Lock()
	if len(r.errs) < 64 {
		r.errs = append(r.errs, err.Error())
	}
	r.mu.Unlock()
}

func (r *reporter) list() []string {
	r.mu.Lock()
	defer r.mu.Unlock()
	return append([]string(nil), r.errs...)
}

// ---------------------------------------------------------------------------
// yield policy: pure function of (sub-seed, site, per-site counter)

var yieldSiteHits [1000]int64

type yieldPolicy struct {
	seed     uint64
	counters [1000]int64
}

func installYield(seed uint64, enabled bool) {
	if !enabled {
		verifhook.Set(nil)
		return
	}
	yp := &yieldPolicy{seed: seed}
	verifhook.Set(yp.yield)
}

func (yp *yieldPolicy) yield(site int) {
	if site < 0 || site >= len(yp.counters) {
		return
	}
	atomic.AddInt64(&yieldSiteHits[site], 1)
	n := atomic.AddInt64(&yp.counters[site], 1)
	h := common.Hash64([]byte{byte(site), byte(site >> 8), byte(n), byte(n >> 8)}) ^ yp.seed
	h ^= h >> 29
	h *= 0xbf58476d1ce4e5b9
	h ^= h >> 32
	// "hot" sites of this run: about one site in eight, chosen by the seed
	hs := common.Hash64([]byte{byte(site), byte(site >> 8), 0x68}) ^ (yp.seed * 0x9e3779b97f4a7c15)
	hot := (hs>>17)%8 == 0
	m := h % 16
	switch {
	case hot && m < 10:
		time.Sleep(time.Duration(20+(h>>8)%280) * time.Microsecond)
	case m < 2:
		time.Sleep(time.Duration(20+(h>>8)%100) * time.Microsecond)
	case m < 8:
		for i := uint64(0); i <= (h>>12)%3; i++ {
			runtime.Gosched()
		}
	}
}

// ---------------------------------------------------------------------------
// bench

type awaitReq struct {
	name string
	cond func() bool
	ok   chan struct{}
}

type bench struct {
	rec      *common.Recorder
	idx      uint64
	prop     string
	progress int64
	ops      *opTable
	lk       link
	conn     *rpc.Conn
	rep      *reporter
	srv      *localServer
	peer     *peer
	wg       sync.WaitGroup // asynchronous application operations

	amu    sync.Mutex
	await_ *awaitReq

	// context of the case, used for signatures
	scenario string
	action   string  // fault kind / close action / hostile message kind
	ctxKind  ctxKind // kind of Context the script hands to the library (set by newSctxKind)
	stepMu   sync.Mutex
	step     string

	lastSnap atomic.Value       // rpc.VerifConnState
	extra    func() interface{} // case-specific part of the replay input

	preEpilogue [nOpKinds]int // transport operations started before the epilogue (Close)

	closeOnce  sync.Once
	closeErrs  []string
	vmu        sync.Mutex
	violations int
}

type benchOpts struct {
	link      string // pipe | stream | packed
	deadlines bool
	plan      faultPlan
	trigAt    int
	noBoot    bool          // Conn without a bootstrap capability
	abortTO   time.Duration // Options.AbortTimeout (default abortTimeout)
}

func newBench(rec *common.Recorder, idx uint64, prop string, o benchOpts) *bench {
	b := &bench{rec: rec, idx: idx, prop: prop, rep: &reporter{}}
	b.ops = newOpTable(&b.progress)
	tr := newOpTracker(o.plan, o.trigAt, &b.progress)
	switch o.link {
	case "stream":
		b.lk = newStreamLink(tr, false, o.deadlines)
	case "packed":
		b.lk = newStreamLink(tr, true, o.deadlines)
	default:
		b.lk = newPipeLink(tr)
	}
	b.srv = newLocalServer(b)
	opts := &rpc.Options{ErrorReporter: b.rep, AbortTimeout: abortTimeout}
	if o.abortTO != 0 {
		opts.AbortTimeout = o.abortTO
	}
	if !o.noBoot {
		opts.BootstrapClient = b.srv.client()
	}
	b.peer = newPeer(b)
	b.conn = rpc.NewConn(b.lk.Transport(), opts)
	go b.peer.run()
	return b
}

func (b *bench) setStep(s string) {
	b.stepMu.Lock()
	b.step = s
	b.stepMu.Unlock()
}

func (b *bench) setAction(a string) {
	b.stepMu.Lock()
	b.action = a
	b.stepMu.Unlock()
}

func (b *bench) act() string {
	b.stepMu.Lock()
	defer b.stepMu.Unlock()
	return b.action
}

func (b *bench) curStep() string {
	b.stepMu.Lock()
	defer b.stepMu.Unlock()
	return b.step
}

func (b *bench) violate(sig, what, detail string, input interface{}) {
	b.vmu.Lock()
	b.violations++
	b.vmu.Unlock()
	b.rec.Violate(sig, what, b.idx, detail, input)
}

// guard runs a library call; a panic is a violation.
func (b *bench) guard(api string, f func()) bool {
	p := common.Guard(f)
	if p == nil {
		return true
	}
	cls := panicClass(p.Value)
	b.violate("panic/"+common.TopLibFrame(p.Stack)+"/"+cls,
		fmt.Sprintf("panic in %s: %s", api, p.Value), p.Stack, b.describe())
	return false
}

func panicClass(v string) string {
	switch {
	case strings.Contains(v, "nil pointer dereference"):
		return "nil-deref"
	case strings.Contains(v, "index out of range"), strings.Contains(v, "slice bounds out of range"):
		return "index-out-of-range"
	case strings.Contains(v, "Annotate on nil error"):
		return "annotate-nil-error"
	case strings.Contains(v, "close of closed channel"):
		return "close-of-closed-channel"
	case strings.Contains(v, "close of nil channel"):
		return "close-of-nil-channel"
	case strings.Contains(v, "negative WaitGroup counter"):
		return "negative-waitgroup"
	case strings.Contains(v, "unlock of unlocked mutex"):
		return "unlock-of-unlocked-mutex"
	}
	// first three words, sanitised
	f := strings.Fields(v)
	if len(f) > 3 {
		f = f[:3]
	}
	s := strings.Join(f, "-")
	var sb strings.Builder
	for _, r := range s {
		if r >= 'a' && r <= 'z' || r >= 'A' && r <= 'Z' || r == '-' {
			sb.WriteRune(r)
		}
	}
	return sb.String()
}

func (b *bench) describe() map[string]interface{} {
	m := map[string]interface{}{"scenario": b.scenario, "action": b.act(), "link": b.lk.Name(), "step": b.curStep(), "ctx": b.ctxKind.String(),
		"reported": b.rep.list(), "peer_log": b.peer.logSummary(40)}
	if b.extra != nil {
		m["case"] = b.extra()
	}
	return m
}

// awaitCond blocks the calling (scenario) goroutine until cond holds.  A few
// direct attempts first; then the request is parked with the watch goroutine
// so that, if the condition can never hold, the system goes quiescent and the
// deadlock detector (not a stopwatch) gives the verdict.
func (b *bench) awaitCond(name string, cond func() bool) {
	spins := 50
	if strings.HasPrefix(name, "goroutines") {
		spins = 1 // the goroutine scan stops the world: do not spin on it
	}
	for i := 0; i < spins; i++ {
		if cond() {
			return
		}
		runtime.Gosched()
	}
	// A short bounded nap (latency only, never a verdict) before parking.
	for d := 50 * time.Microsecond; d < 3*time.Millisecond; d *= 2 {
		time.Sleep(d)
		if cond() {
			return
		}
	}
	id := b.ops.begin("await:" + name)
	req := &awaitReq{name: name, cond: cond, ok: make(chan struct{})}
	b.amu.Lock()
	b.await_ = req
	b.amu.Unlock()
	<-req.ok
	b.ops.end(id)
}

// pollAwait is called by the watch goroutine on every poll.
func (b *bench) pollAwait() {
	b.amu.Lock()
	req := b.await_
	b.amu.Unlock()
	if req == nil {
		return
	}
	if req.cond() {
		b.amu.Lock()
		b.await_ = nil
		b.amu.Unlock()
		close(req.ok)
	}
}

func (b *bench) snapshot() rpc.VerifConnState {
	st := b.conn.VerifSnapshot()
	b.lastSnap.Store(st)
	return st
}

// checkLocksFree is hook H2: with no Conn method executing, Conn.mu must be
// acquirable and the sender lock free.
func (b *bench) checkLocksFree(where string) {
	b.awaitCond("h2:"+where, func() bool {
		st := b.snapshot()
		return st.Locked && !st.SenderLockHeld
	})
	b.rec.Count("h2_checks", 1)
}

// leakedGoroutines is common.LibGoroutines(rpcPkgPrefix) with a reused dump
// buffer (common.Goroutines allocates and clears 1 MiB per call, which
// dominated the run time of this driver).
func (b *bench) leakedGoroutines() []common.GoroutineInfo {
	stackBufMu.Lock()
	defer stackBufMu.Unlock()
	for {
		n := runtime.Stack(stackBuf, true)
		if n < len(stackBuf) {
			var out []common.GoroutineInfo
			for _, g := range common.ParseGoroutines(string(stackBuf[:n])) {
				for _, f := range g.Frames {
					if strings.HasPrefix(f, rpcPkgPrefix) {
						out = append(out, g)
						break
					}
				}
			}
			return out
		}
		stackBuf = make([]byte, 2*len(stackBuf))
	}
}

func runtimeStackAll(buf []byte) int { return runtime.Stack(buf, true) }

var (
	stackBufMu sync.Mutex
	stackBuf   = make([]byte, 128<<10)
)

// ---------------------------------------------------------------------------
// application-side operations (each is an entry of the pending table)

type callResult struct {
	val uint64
	err error
	cap *capnp.Client
}

// call performs one local call and waits for its answer.
func (b *bench) call(name string, ctx context.Context, c *capnp.Client, method uint16, arg uint64, capArg *capnp.Client, wantCap bool) callResult {
	id := b.ops.begin("call:" + name)
	defer b.ops.end(id)
	var res callResult
	b.guard("Client.SendCall/"+name, func() {
		ans, release := c.SendCall(ctx, capnp.Send{
			Method:   capnp.Method{InterfaceID: ifaceID, MethodID: method},
			ArgsSize: capnp.ObjectSize{DataSize: 8, PointerCount: 1},
			PlaceArgs: func(s capnp.Struct) error {
				s.SetUint64(0, arg)
				if capArg != nil {
					cid := s.Message().AddCap(capArg.AddRef())
					return s.SetPtr(0, capnp.NewInterface(s.Segment(), cid).ToPtr())
				}
				return nil
			},
		})
		// Evidence only: was the call still unanswered when SendCall
		// returned (i.e. a question really is outstanding)?
		outstanding := false
		select {
		case <-ans.Done():
		default:
			outstanding = true
		}
		st, err := ans.Struct()
		if err != nil {
			res.err = err
			if outstanding && b.ctxKind != ctxCancellable && capnp.IsDisconnected(err) {
				// A call made with a Context that cannot be cancelled was
				// outstanding and was ended by the shutdown of the
				// connection (Close / transport failure).
				b.rec.Count("nocancel_calls_ended_by_shutdown_"+callKindOf(name), 1)
			}
		} else {
			res.val = st.Uint64(0)
			if wantCap {
				p, perr := st.Ptr(0)
				if perr == nil {
					res.cap = p.Interface().Client().AddRef()
				}
			}
		}
		release()
	})
	b.rec.Count("local_calls", 1)
	if res.err != nil {
		b.rec.Count("local_calls_err", 1)
	}
	return res
}

// callKindOf tells which library path an application call of the scripts is
// meant to take: importClient.Send (call on an imported capability),
// question.PipelineSend (call on the promise of an unanswered question), or
// either (issued on the bootstrap promise while racing with its Return).
func callKindOf(op string) string {
	switch op {
	case "pipelined-echo", "pipelined-on-loopcap":
		return "pipelined"
	case "subsequent-echo", "concurrent-with-close":
		return "promise-or-import"
	}
	return "direct"
}

// goCall starts call asynchronously; the result arrives on the channel.
func (b *bench) goCall(name string, ctx context.Context, c *capnp.Client, method uint16, arg uint64) <-chan callResult {
	ch := make(chan callResult, 1)
	b.wg.Add(1)
	go func() {
		defer b.wg.Done()
		ch <- b.call(name, ctx, c, method, arg, nil, false)
	}()
	return ch
}

func (b *bench) bootstrap(ctx context.Context) *capnp.Client {
	id := b.ops.begin("bootstrap")
	defer b.ops.end(id)
	var c *capnp.Client
	b.guard("Conn.Bootstrap", func() { c = b.conn.Bootstrap(ctx) })
	return c
}

func (b *bench) resolve(ctx context.Context, c *capnp.Client) error {
	id := b.ops.begin("resolve")
	defer b.ops.end(id)
	var err error
	b.guard("Client.Resolve", func() { err = c.Resolve(ctx) })
	return err
}

func (b *bench) release(name string, c *capnp.Client) {
	if c == nil {
		return
	}
	id := b.ops.begin("release:" + name)
	defer b.ops.end(id)
	b.guard("Client.Release", func() { c.Release() })
}

func (b *bench) closeConn(tag string) error {
	id := b.ops.begin("close:" + tag)
	defer b.ops.end(id)
	var err error
	b.guard("Conn.Close", func() { err = b.conn.Close() })
	b.rec.Count("close_calls", 1)
	return err
}

func (b *bench) waitDone() {
	id := b.ops.begin("conn-done")
	<-b.conn.Done()
	b.ops.end(id)
}

// finish is the common epilogue: Close (unless already done by the case),
// Done, peer side closed, every asynchronous operation joined, then the
// post-mortem oracles.
func (b *bench) finish(alreadyClosed bool) {
	b.setStep("epilogue")
	if !alreadyClosed {
		b.closeConn("final")
	}
	b.waitDone()
	b.lk.PeerClose()
	b.srv.releaseHeld()
	id := b.ops.begin("join-async-ops")
	b.wg.Wait()
	b.ops.end(id)
	b.peer.waitExit()
	b.postMortem()
}

func (b *bench) postMortem() {
	// Goroutine-set difference: nothing of package rpc may be left.
	var leaked []common.GoroutineInfo
	b.awaitCond("goroutines", func() bool {
		leaked = b.leakedGoroutines()
		return len(leaked) == 0
	})
	b.rec.Count("goroutine_checks", 1)
	// H2 after Close.
	b.checkLocksFree("after-close")
	st := b.snapshot()
	if !st.ShutdownDone {
		b.violate("C09/done-not-closed", "Conn.Done() not closed after Close returned", "", b.describe())
	}
	// Transport-use monitor (message-level link).
	if pl, ok := b.lk.(*pipeLink); ok {
		b.rec.Count("transport_monitor_checks", 1)
		if n := atomic.LoadInt32(&pl.unreleasedAtClose); n > 0 {
			b.rec.Count("messages_unreleased_at_transport_close", int64(n))
		}
		if ov := pl.overlapSeen(); ov != "" {
			b.violate(b.prop+"/transport-overlap/"+ov, "the Conn used its transport concurrently: "+ov+" (send() is only allowed under the sender lock; nothing after Close)", "", b.describe())
		}
	}
	// Torn-write monitor.
	if sl, ok := b.lk.(*streamLink); ok {
		wire, torn, _ := sl.wireCopy()
		b.rec.Count("wire_bytes", int64(len(wire)))
		a, left := analyzeWire(wire, sl.rwc.packed)
		b.rec.Count("wire_frames", int64(len(a.frames)))
		if a.tail > 0 || left > 0 {
			b.rec.Count("wire_ends_in_partial_frame", 1)
		}
		viol, nt := checkTornWrites(wire, torn, sl.rwc.packed)
		b.rec.Count("writes_cut_inside_frame", int64(nt))
		if viol != "" {
			b.violate("C09/bytes-after-torn-frame/"+sl.Name(), viol, "",
				map[string]interface{}{"scenario": b.scenario, "action": b.act(), "wire": common.Hex(wire), "link": sl.Name(), "deadlines": sl.deadlines})
		}
	}
}

// ---------------------------------------------------------------------------
// case runner with the quiescence watch

type caseOutcome int

const (
	caseOK caseOutcome = iota
	caseDeadlock
	caseInconclusive
)

// runWatched runs body (which builds and drives a bench) under the deadlock
// detector.  get returns the bench once it exists.
func runWatched(rec *common.Recorder, idx uint64, prop string, get func() *bench, body func()) caseOutcome {
	done := make(chan struct{})
	go func() {
		defer close(done)
		if p := common.Guard(body); p != nil {
			// A panic that escaped b.guard: in harness code or in a library
			// call made directly by the script.
			sig := "panic/" + common.TopLibFrame(p.Stack) + "/" + panicClass(p.Value)
			if common.TopLibFrame(p.Stack) == "?" {
				rec.Inconclusive("harness panic: " + p.Value + "\n" + p.Stack)
				return
			}
			rec.Violate(sig, "panic: "+p.Value, idx, p.Stack, nil)
		}
	}()
	var progress int64
	w := &common.Watch{
		Progress: &progress,
		Pending: func() int {
			if b := get(); b != nil {
				atomic.StoreInt64(&progress, atomic.LoadInt64(&b.progress))
				return b.ops.count() + 1
			}
			return 1
		},
	}
	isDone := func() bool {
		if b := get(); b != nil {
			b.pollAwait()
		}
		select {
		case <-done:
			return true
		default:
			return false
		}
	}
	// Fast phase (latency only): most cases finish within a few
	// milliseconds; WaitDone's polling schedule would double that.
	for i := 0; i < 80; i++ {
		select {
		case <-done:
			return caseOK
		case <-time.After(400 * time.Microsecond):
			if b := get(); b != nil {
				b.pollAwait()
			}
		}
	}
	rep, inconclusive := w.WaitDone(isDone, 120*time.Second)
	if rep == nil && !inconclusive {
		return caseOK
	}
	b := get()
	if inconclusive {
		rec.Inconclusive(fmt.Sprintf("watchdog: case %d still had runnable goroutines after 120s", idx))
		return caseInconclusive
	}
	if b != nil {
		b.vmu.Lock()
		nv := b.violations
		b.vmu.Unlock()
		if nv > 0 {
			// The case already produced a violation (e.g. a panic inside
			// Close); the wedge that follows is its consequence.
			rec.Count("deadlocks_after_violation", 1)
			rec.Logf("case %d: quiescent after an earlier violation; pending %v", idx, b.ops.names())
			return caseDeadlock
		}
	}
	sig, what := classifyDeadlock(b, rep, prop)
	var input interface{}
	if b != nil {
		input = b.describe()
	}
	detail := "pending: " + strings.Join(pendingNames(b), ", ") + "\n\n" + strings.Join(rep.Blocked, "\n\n")
	rec.Violate(sig, what, idx, detail, input)
	return caseDeadlock
}

// coreWaitCycle recognises the wait-for cycle inside package capnp (not rpc)
// between a resolving promise and a call made through the promised client.
func coreWaitCycle(rep *common.DeadlockReport) bool {
	fulfil, call := false, false
	for _, st := range rep.Blocked {
		top := ""
		for _, l := range strings.Split(st, "\n")[1:] {
			if !strings.HasPrefix(l, "\t") {
				top = l
				break
			}
		}
		if strings.Contains(top, "capnp/v3.(*ClientPromise).Fulfill") || strings.Contains(top, "capnp/v3.(*Promise).resolve") {
			fulfil = true
		}
		if strings.Contains(top, "capnp/v3.(*Answer).PipelineSend") || strings.Contains(top, "capnp/v3.(*Answer).PipelineRecv") {
			call = true
		}
	}
	return fulfil && call
}

// scenarioClass groups the scenarios by direction of the traffic.
func scenarioClass(s string) string {
	switch s {
	case "inboot", "incall", "inpipeline":
		return "incoming"
	case "closebusy":
		return "both-directions"
	case "":
		return "none"
	}
	return "outgoing"
}

func pendingNames(b *bench) []string {
	if b == nil {
		return nil
	}
	return b.ops.names()
}

func classifyDeadlock(b *bench, rep *common.DeadlockReport, prop string) (sig, what string) {
	if b == nil {
		return "deadlock/" + rep.Signature, "system quiescent before the bench existed"
	}
	names := b.ops.names()
	what = fmt.Sprintf("system quiescent with pending operations %v (scenario %s, action %s, link %s); parked: %s",
		names, b.scenario, b.act(), b.lk.Name(), rep.Signature)
	if sl, ok := b.lk.(*streamLink); ok {
		wire, torn, _ := sl.wireCopy()
		if viol, _ := checkTornWrites(wire, torn, sl.rwc.packed); viol != "" {
			return prop + "/bytes-after-torn-frame/" + sl.Name(), viol + "; the peer cannot parse what follows, pending operations " + strings.Join(names, ",") + " hang"
		}
	}
	if coreWaitCycle(rep) {
		return prop + "/core-promise-wait-cycle", "capnp core: Promise.resolve/ClientPromise.Fulfill waits for a call on the promised client that itself waits for the resolution (DESIGN.md §4 #12, property C11); pending " + strings.Join(names, ",")
	}
	if n, ok := b.ops.has("await:goroutines"); ok {
		_ = n
		frame := "?"
		if l := b.leakedGoroutines(); len(l) > 0 {
			for _, f := range l[0].Frames {
				if strings.HasPrefix(f, rpcPkgPrefix) {
					frame = strings.TrimPrefix(f, "capnproto.org/go/capnp/v3/")
					break
				}
			}
		}
		return prop + "/goroutine-leak/" + frame, "goroutines of package rpc still alive (and parked for good) after Close returned: " + frame
	}
	{
		// Decide with a fresh look: the system is quiescent, so nobody can
		// legitimately be holding either lock - whatever operation happens
		// to be pending, a held lock is the root cause.
		st := b.snapshot()
		cls := scenarioClass(b.scenario) + "/" + b.act()
		if prop == "C08" {
			// <message kind>/<history class>
			hc := "after-hostile-item"
			if b.act() == "before-injection" {
				hc = "healthy-history"
			}
			cls = b.act() + "/" + hc
		}
		if !st.Locked {
			return prop + "/mutex-leaked/" + cls, "Conn.mu is held although no Conn method is executing (step " + b.curStep() + ")"
		}
		if st.SenderLockHeld {
			return prop + "/sender-lock-leaked/" + cls, "sender lock is held although no Conn method is executing (step " + b.curStep() + ")"
		}
	}
	if n, ok := b.ops.has("close:"); ok {
		return prop + "/close-blocks/" + b.act(), "Conn.Close never returns (" + n + ")"
	}
	if _, ok := b.ops.has("conn-done"); ok {
		return prop + "/done-never-closes/" + b.act(), "Conn.Done never closes"
	}
	if n, ok := b.ops.has("peer-wait:probe"); ok {
		return "C08/wedged/" + b.act() + "/" + rep.Signature, "connection neither answers a Bootstrap probe nor shuts down (" + n + "); parked: " + rep.Signature
	}
	if n, ok := b.ops.has("call:"); ok {
		if prop == "C08" {
			return "C08/caller-hangs/" + b.act(), "local call never resolves: " + n
		}
		op := strings.TrimPrefix(n, "call:")
		if st := b.snapshot(); b.ctxKind != ctxCancellable && st.ShutdownDone {
			// The connection is shut down (Done() closed, both locks free,
			// system quiescent) and a call made with a Context that cannot
			// be cancelled is still unresolved: nothing is left that could
			// ever resolve it.
			return "C09/call-pending-after-shutdown/" + b.ctxKind.String() + "/" + callKindOf(op),
				"call made with a non-cancellable Context (context." + map[ctxKind]string{ctxBackground: "Background", ctxTODO: "TODO"}[b.ctxKind] +
					"(), Done() == nil) is still pending although the connection has shut down (Conn.Done() closed): " + n +
					" (scenario " + b.scenario + ", action " + b.act() + ", link " + b.lk.Name() + "); pending " + strings.Join(names, ",")
		}
		return "C09/op-hangs/" + strings.TrimPrefix(n, "call:") + "/" + b.act(), "local call never completes: " + n
	}
	for _, p := range []string{"bootstrap", "resolve", "release:"} {
		if n, ok := b.ops.has(p); ok {
			return prop + "/op-hangs/" + n + "/" + b.act(), "local operation never completes: " + n
		}
	}
	return "deadlock/" + rep.Signature, what
}
