package main

// The scripted raw peer.  It speaks rpc.capnp through the public
// std/capnp/rpc bindings only, keeps the protocol tables from its own point
// of view, answers the Conn's questions by simple rules, and lets scripts
// send anything (legal or hostile) at any time.

import (
	"fmt"
	"sync"
	"sync/atomic"

	"capnproto.org/go/capnp/v3"
	rpccp "capnproto.org/go/capnp/v3/std/capnp/rpc"
	"capnproto.org/go/capnp/v3/zverif/common"
)

const ifaceID uint64 = 0xf00dfeedf00dfeed

const (
	mEcho      uint16 = 0 // returns arg+1
	mHold      uint16 = 1 // blocks until cancelled / released
	mGetCap    uint16 = 2 // returns a capability hosted by the callee in pointer 0
	mCallCap   uint16 = 3 // local server only: calls echo on the capability in pointer 0, returns its result
	mLoopCap   uint16 = 4 // peer only: returns the capability it was given (receiverHosted) in pointer 0
	mExc       uint16 = 5 // returns an exception
	mGetCapAck uint16 = 6 // local server only: getcap that acknowledges delivery before returning
)

type capDesc struct {
	which rpccp.CapDescriptor_Which
	id    uint32
}

// wireMsg is the summary of one message received from the Conn.
type wireMsg struct {
	which    rpccp.Message_Which
	id       uint32 // question / answer / export id
	method   uint16
	iface    uint64
	arg      uint64
	tgtWhich rpccp.MessageTarget_Which
	tgtID    uint32 // importedCap id or promisedAnswer question id
	retWhich rpccp.Return_Which
	reason   string
	caps     []capDesc
	count    uint32 // release count
	ctxWhich rpccp.Disembargo_context_Which
	ctxID    uint32
	inner    rpccp.Message_Which // for unimplemented
	flag     bool                // releaseResultCaps / releaseParamCaps
	bad      string              // non-empty if the message could not be read
}

func (m wireMsg) String() string {
	switch m.which {
	case rpccp.Message_Which_call:
		return fmt.Sprintf("call(q=%d m=%d tgt=%v:%d caps=%d)", m.id, m.method, m.tgtWhich, m.tgtID, len(m.caps))
	case rpccp.Message_Which_return:
		return fmt.Sprintf("return(a=%d %v %q caps=%d)", m.id, m.retWhich, m.reason, len(m.caps))
	case rpccp.Message_Which_bootstrap, rpccp.Message_Which_finish:
		return fmt.Sprintf("%v(q=%d)", m.which, m.id)
	case rpccp.Message_Which_release:
		return fmt.Sprintf("release(id=%d n=%d)", m.id, m.count)
	case rpccp.Message_Which_disembargo:
		return fmt.Sprintf("disembargo(%v:%d tgt=%v:%d)", m.ctxWhich, m.ctxID, m.tgtWhich, m.tgtID)
	case rpccp.Message_Which_abort:
		return fmt.Sprintf("abort(%q)", m.reason)
	case rpccp.Message_Which_unimplemented:
		return fmt.Sprintf("unimplemented(%v)", m.inner)
	}
	if m.bad != "" {
		return "unreadable(" + m.bad + ")"
	}
	return m.which.String()
}

type connQuestion struct {
	method    uint16
	bootstrap bool
	held      bool
	returned  bool
	finished  bool
	pipelined bool
	reply     [][]byte // prepared Return, sent when the hold / dependency is over
}

type peer struct {
	b  *bench
	lk link

	mu      sync.Mutex
	log     []wireMsg
	notify  chan struct{}
	eof     bool
	exited  chan struct{}
	connQ   map[uint32]*connQuestion // the Conn's questions (we owe answers)
	myQ     map[uint32]string        // our questions: "open" | "returned" | "finished"
	nextQ   uint32
	exports map[uint32]int // Conn exports we hold references to (id -> refs)
	nextCap uint32         // next id for a capability we host
	hosted  []uint32       // capability ids we handed to the Conn
	embargo []uint32       // senderLoopback ids received
	sent    int64

	deferred map[uint32][]uint32 // Conn question -> pipelined Conn questions waiting for its Return

	// behaviour switches
	silent       int32 // do not react at all (still logs)
	noFinish     bool  // do not send Finish for Returns to our questions
	noDisembargo bool
	manualFinish map[uint32]bool // our questions whose Finish the script sends itself
	failedQ      map[uint32]bool // our questions the Conn answered with an exception
	holdBoot     bool            // keep Bootstrap questions unanswered until releaseBootstrap
	holdMethods  map[uint16]bool // keep calls of these methods unanswered until releaseMethod
}

func newPeer(b *bench) *peer {
	return &peer{b: b, lk: b.lk, notify: make(chan struct{}), exited: make(chan struct{}),
		connQ: map[uint32]*connQuestion{}, myQ: map[uint32]string{}, exports: map[uint32]int{},
		deferred: map[uint32][]uint32{}, holdMethods: map[uint16]bool{}, manualFinish: map[uint32]bool{}, failedQ: map[uint32]bool{},
		nextQ: 100, nextCap: 1}
}

func (p *peer) broadcastLocked() {
	close(p.notify)
	p.notify = make(chan struct{})
}

func (p *peer) run() {
	defer close(p.exited)
	for {
		segs, err := p.lk.PeerRecv()
		if err != nil {
			p.mu.Lock()
			p.eof = true
			p.broadcastLocked()
			p.mu.Unlock()
			return
		}
		atomic.AddInt64(&p.b.progress, 1)
		var m wireMsg
		if pn := common.Guard(func() { m = summarize(segs) }); pn != nil {
			m = wireMsg{bad: pn.Value}
		}
		p.b.rec.Count("conn_sent_"+m.which.String(), 1)
		p.mu.Lock()
		p.log = append(p.log, m)
		var out [][][]byte
		if atomic.LoadInt32(&p.silent) == 0 && m.bad == "" {
			out = p.reactLocked(m)
		}
		p.broadcastLocked()
		p.mu.Unlock()
		for _, segs := range out {
			p.lk.PeerSendSegs(segs)
		}
	}
}

func (p *peer) waitExit() {
	id := p.b.ops.begin("peer-exit")
	<-p.exited
	p.b.ops.end(id)
}

// waitFor blocks until pred holds on the peer's view, the Conn closed the
// transport, or one of the extra channels fires (fault injected, trigger
// fired, hostile message injected, local operation completed …).
func (p *peer) waitFor(name string, pred func() bool, extra ...<-chan struct{}) bool {
	id := p.b.ops.begin("peer-wait:" + name)
	defer p.b.ops.end(id)
	var e0, e1, e2 <-chan struct{}
	if len(extra) > 0 {
		e0 = extra[0]
	}
	if len(extra) > 1 {
		e1 = extra[1]
	}
	if len(extra) > 2 {
		e2 = extra[2]
	}
	for {
		p.mu.Lock()
		ok := pred()
		eof := p.eof
		ch := p.notify
		p.mu.Unlock()
		if ok {
			return true
		}
		if eof {
			return false
		}
		select {
		case <-ch:
		case <-e0:
			return p.check(pred)
		case <-e1:
			return p.check(pred)
		case <-e2:
			return p.check(pred)
		}
	}
}

func (p *peer) check(pred func() bool) bool {
	p.mu.Lock()
	defer p.mu.Unlock()
	return pred()
}

// Predicates (called with p.mu held).

func (p *peer) sawReturn(aid uint32) *wireMsg {
	for i := range p.log {
		if p.log[i].which == rpccp.Message_Which_return && p.log[i].id == aid {
			return &p.log[i]
		}
	}
	return nil
}

func (p *peer) sawKind(w rpccp.Message_Which, n int) bool {
	c := 0
	for i := range p.log {
		if p.log[i].which == w {
			c++
		}
	}
	return c >= n
}

func (p *peer) sawCall(method uint16, n int) *wireMsg {
	c := 0
	for i := range p.log {
		if p.log[i].which == rpccp.Message_Which_call && p.log[i].method == method {
			c++
			if c >= n {
				return &p.log[i]
			}
		}
	}
	return nil
}

func (p *peer) sawFinish(q uint32) bool {
	for i := range p.log {
		if p.log[i].which == rpccp.Message_Which_finish && p.log[i].id == q {
			return true
		}
	}
	return false
}

func (p *peer) logLen() int {
	p.mu.Lock()
	defer p.mu.Unlock()
	return len(p.log)
}

func (p *peer) logSummary(max int) []string {
	p.mu.Lock()
	defer p.mu.Unlock()
	var out []string
	start := 0
	if len(p.log) > max {
		start = len(p.log) - max
	}
	for _, m := range p.log[start:] {
		out = append(out, m.String())
	}
	if p.eof {
		out = append(out, "<transport closed by Conn>")
	}
	return out
}

// state snapshot for the hostile generator
type peerView struct {
	connQuestionsOpen []uint32 // Conn questions we have not answered
	connQuestionsDone []uint32 // answered (and maybe finished) Conn questions
	myOpen            []uint32 // our questions without a Return yet
	myReturned        []uint32 // our questions with Return, Finish not yet sent
	myFailed          []uint32 // subset of myReturned answered with an exception
	myFinished        []uint32
	exports           []uint32 // Conn exports we hold
	hosted            []uint32 // caps we host that the Conn imported
	embargoes         []uint32
	nextQ             uint32
}

func (p *peer) view() peerView {
	p.mu.Lock()
	defer p.mu.Unlock()
	var v peerView
	for id, q := range p.connQ {
		if !q.returned {
			v.connQuestionsOpen = append(v.connQuestionsOpen, id)
		} else {
			v.connQuestionsDone = append(v.connQuestionsDone, id)
		}
	}
	for id, st := range p.myQ {
		switch st {
		case "open":
			v.myOpen = append(v.myOpen, id)
		case "returned":
			v.myReturned = append(v.myReturned, id)
			if p.failedQ[id] {
				v.myFailed = append(v.myFailed, id)
			}
		default:
			v.myFinished = append(v.myFinished, id)
		}
	}
	for id := range p.exports {
		v.exports = append(v.exports, id)
	}
	v.hosted = append(v.hosted, p.hosted...)
	v.embargoes = append(v.embargoes, p.embargo...)
	v.nextQ = p.nextQ
	sortU32(v.connQuestionsOpen)
	sortU32(v.connQuestionsDone)
	sortU32(v.myOpen)
	sortU32(v.myReturned)
	sortU32(v.myFinished)
	sortU32(v.myFailed)
	sortU32(v.exports)
	return v
}

func sortU32(a []uint32) {
	for i := 1; i < len(a); i++ {
		for j := i; j > 0 && a[j] < a[j-1]; j-- {
			a[j], a[j-1] = a[j-1], a[j]
		}
	}
}

// ---------------------------------------------------------------------------
// reactions (p.mu held); returns messages to send after unlocking

func (p *peer) reactLocked(m wireMsg) [][][]byte {
	var out [][][]byte
	switch m.which {
	case rpccp.Message_Which_bootstrap:
		q := &connQuestion{bootstrap: true}
		p.connQ[m.id] = q
		id := p.newHostedLocked()
		reply := mkReturnBootstrap(m.id, capDesc{rpccp.CapDescriptor_Which_senderHosted, id})
		if p.holdBoot {
			q.held, q.reply = true, reply
		} else {
			out = append(out, p.completeLocked(m.id, reply)...)
		}
	case rpccp.Message_Which_call:
		q := &connQuestion{method: m.method, pipelined: m.tgtWhich == rpccp.MessageTarget_Which_promisedAnswer}
		p.connQ[m.id] = q
		for _, c := range m.caps {
			if c.which == rpccp.CapDescriptor_Which_senderHosted || c.which == rpccp.CapDescriptor_Which_senderPromise {
				p.exports[c.id]++
			}
		}
		var reply [][]byte
		switch m.method {
		case mEcho:
			reply = mkReturnResults(m.id, m.arg+1, nil, false)
		case mHold:
			// no prepared reply: cancelled by Finish or answered by releaseHeld
		case mGetCap:
			id := p.newHostedLocked()
			reply = mkReturnResults(m.id, m.arg, []capDesc{{rpccp.CapDescriptor_Which_senderHosted, id}}, false)
		case mLoopCap:
			var d []capDesc
			for _, c := range m.caps {
				if c.which == rpccp.CapDescriptor_Which_senderHosted {
					d = append(d, capDesc{rpccp.CapDescriptor_Which_receiverHosted, c.id})
					break
				}
			}
			reply = mkReturnResults(m.id, m.arg, d, false)
		default:
			reply = mkReturnException(m.id, "peer: method not implemented", rpccp.Exception_Type_unimplemented)
		}
		tq := p.connQ[m.tgtID]
		switch {
		case m.method == mHold || p.holdMethods[m.method]:
			q.held, q.reply = true, reply
		case q.pipelined && tq != nil && tq != q && !tq.returned:
			q.reply = reply
			p.deferred[m.tgtID] = append(p.deferred[m.tgtID], m.id)
		default:
			out = append(out, p.completeLocked(m.id, reply)...)
		}
	case rpccp.Message_Which_return:
		for _, c := range m.caps {
			if c.which == rpccp.CapDescriptor_Which_senderHosted || c.which == rpccp.CapDescriptor_Which_senderPromise {
				p.exports[c.id]++
			}
		}
		if st, ok := p.myQ[m.id]; ok && st == "open" {
			if m.retWhich == rpccp.Return_Which_exception {
				p.failedQ[m.id] = true
			}
			p.myQ[m.id] = "returned"
			if !p.noFinish && !p.manualFinish[m.id] {
				p.myQ[m.id] = "finished"
				out = append(out, mkFinish(m.id, false))
			}
		}
	case rpccp.Message_Which_finish:
		if q := p.connQ[m.id]; q != nil {
			q.finished = true
			if q.held && !q.returned {
				q.held = false
				out = append(out, p.completeLocked(m.id, mkReturnCanceled(m.id))...)
			}
		}
	case rpccp.Message_Which_disembargo:
		if m.ctxWhich == rpccp.Disembargo_context_Which_senderLoopback {
			p.embargo = append(p.embargo, m.ctxID)
			if !p.noDisembargo {
				// Echo back; the target names the Conn's export the promise
				// resolved to (any export we hold will do for this library).
				var exp uint32
				for id := range p.exports {
					exp = id
					break
				}
				out = append(out, mkDisembargo(rpccp.Disembargo_context_Which_receiverLoopback, m.ctxID, func(t rpccp.MessageTarget) { t.SetImportedCap(exp) }))
			}
		}
	}
	return out
}

func (p *peer) newHostedLocked() uint32 {
	id := p.nextCap
	p.nextCap++
	p.hosted = append(p.hosted, id)
	return id
}

// completeLocked marks a Conn question answered and returns its Return plus
// the Returns of pipelined questions that were waiting for it.
func (p *peer) completeLocked(id uint32, reply [][]byte) [][][]byte {
	q := p.connQ[id]
	if q == nil || q.returned {
		return nil
	}
	q.returned = true
	out := [][][]byte{reply}
	deps := p.deferred[id]
	delete(p.deferred, id)
	for _, d := range deps {
		if dq := p.connQ[d]; dq != nil && !dq.returned && !dq.held {
			out = append(out, p.completeLocked(d, dq.reply)...)
		}
	}
	return out
}

func (p *peer) releaseWhere(sel func(q *connQuestion) bool) {
	p.mu.Lock()
	var out [][][]byte
	var ids []uint32
	for id, q := range p.connQ {
		if q.held && !q.returned && sel(q) {
			ids = append(ids, id)
		}
	}
	sortU32(ids)
	for _, id := range ids {
		q := p.connQ[id]
		q.held = false
		reply := q.reply
		if reply == nil {
			reply = mkReturnResults(id, 7, nil, false)
		}
		out = append(out, p.completeLocked(id, reply)...)
	}
	p.mu.Unlock()
	for _, s := range out {
		p.lk.PeerSendSegs(s)
	}
}

// releaseHeld answers every held Conn question.
func (p *peer) releaseHeld() { p.releaseWhere(func(*connQuestion) bool { return true }) }

func (p *peer) releaseBootstrap() {
	p.mu.Lock()
	p.holdBoot = false
	p.mu.Unlock()
	p.releaseWhere(func(q *connQuestion) bool { return q.bootstrap })
}

func (p *peer) releaseMethod(m uint16) {
	p.mu.Lock()
	delete(p.holdMethods, m)
	p.mu.Unlock()
	p.releaseWhere(func(q *connQuestion) bool { return !q.bootstrap && q.method == m })
}

func (p *peer) setHoldBootstrap(v bool) {
	p.mu.Lock()
	p.holdBoot = v
	p.mu.Unlock()
}

func (p *peer) setHoldMethod(m uint16, v bool) {
	p.mu.Lock()
	if v {
		p.holdMethods[m] = true
	} else {
		delete(p.holdMethods, m)
	}
	p.mu.Unlock()
}

func (p *peer) setNoDisembargo(v bool) {
	p.mu.Lock()
	p.noDisembargo = v
	p.mu.Unlock()
}

// echoDisembargoes answers every senderLoopback Disembargo received so far.
func (p *peer) echoDisembargoes() {
	p.mu.Lock()
	var out [][][]byte
	var exp uint32
	for id := range p.exports {
		exp = id
		break
	}
	for _, id := range p.embargo {
		out = append(out, mkDisembargo(rpccp.Disembargo_context_Which_receiverLoopback, id, func(t rpccp.MessageTarget) { t.SetImportedCap(exp) }))
	}
	p.mu.Unlock()
	for _, s := range out {
		p.lk.PeerSendSegs(s)
	}
}

// adoptQuestion registers a question id chosen by the hostile generator, so
// that its Return is tracked and later items can pipeline on it (its Finish
// is never sent automatically).
func (p *peer) adoptQuestion(q uint32) {
	p.mu.Lock()
	if _, ok := p.myQ[q]; !ok {
		p.myQ[q] = "open"
		p.manualFinish[q] = true
	}
	p.mu.Unlock()
}

func (p *peer) lastQuestion() uint32 {
	p.mu.Lock()
	defer p.mu.Unlock()
	return p.nextQ - 1
}

// ---------------------------------------------------------------------------
// peer-initiated traffic

func (p *peer) newQuestion() uint32 {
	p.mu.Lock()
	defer p.mu.Unlock()
	q := p.nextQ
	p.nextQ++
	p.myQ[q] = "open"
	return q
}

func (p *peer) send(segs [][]byte) {
	atomic.AddInt64(&p.sent, 1)
	p.lk.PeerSendSegs(segs)
}

func (p *peer) sendBootstrap() uint32 {
	q := p.newQuestion()
	p.send(mkBootstrap(q))
	return q
}

// newManualQuestion allocates a question id whose Finish is sent by the
// script (so that the script can still pipeline on it after its Return).
func (p *peer) newManualQuestion() uint32 {
	q := p.newQuestion()
	p.mu.Lock()
	p.manualFinish[q] = true
	p.mu.Unlock()
	return q
}

func (p *peer) sendCallExport(export uint32, method uint16, arg uint64, caps []capDesc) uint32 {
	q := p.newQuestion()
	p.send(mkCall(q, func(t rpccp.MessageTarget) { t.SetImportedCap(export) }, ifaceID, method, arg, caps))
	return q
}

func (p *peer) sendCallPromised(target uint32, transform []uint16, method uint16, arg uint64) uint32 {
	q := p.newQuestion()
	p.send(mkCall(q, func(t rpccp.MessageTarget) {
		pa, _ := t.NewPromisedAnswer()
		pa.SetQuestionId(target)
		ops, _ := pa.NewTransform(int32(len(transform)))
		for i, f := range transform {
			ops.At(i).SetGetPointerField(f)
		}
	}, ifaceID, method, arg, nil))
	return q
}

func (p *peer) sendFinish(q uint32) {
	p.mu.Lock()
	p.myQ[q] = "finished"
	p.mu.Unlock()
	p.send(mkFinish(q, false))
}

func (p *peer) sendRelease(id uint32, n uint32) {
	p.mu.Lock()
	delete(p.exports, id)
	p.mu.Unlock()
	p.send(mkRelease(id, n))
}

// exportFromReturn extracts the first senderHosted capability of a Return.
func exportFromReturn(m *wireMsg) (uint32, bool) {
	if m == nil {
		return 0, false
	}
	for _, c := range m.caps {
		if c.which == rpccp.CapDescriptor_Which_senderHosted {
			return c.id, true
		}
	}
	return 0, false
}

// ---------------------------------------------------------------------------
// message construction (public bindings only)

func newRPC() (*capnp.Message, rpccp.Message) {
	msg, seg, err := capnp.NewMessage(capnp.SingleSegment(nil))
	if err != nil {
		panic(err)
	}
	m, err := rpccp.NewRootMessage(seg)
	if err != nil {
		panic(err)
	}
	return msg, m
}

func segsOf(msg *capnp.Message) [][]byte {
	s, err := messageSegs(msg)
	if err != nil {
		panic(err)
	}
	return s
}

func mkBootstrap(q uint32) [][]byte {
	msg, m := newRPC()
	b, _ := m.NewBootstrap()
	b.SetQuestionId(q)
	return segsOf(msg)
}

func fillCapTable(pl rpccp.Payload, caps []capDesc) {
	if len(caps) == 0 {
		return
	}
	l, _ := pl.NewCapTable(int32(len(caps)))
	for i, c := range caps {
		d := l.At(i)
		switch c.which {
		case rpccp.CapDescriptor_Which_none:
			d.SetNone()
		case rpccp.CapDescriptor_Which_senderHosted:
			d.SetSenderHosted(c.id)
		case rpccp.CapDescriptor_Which_senderPromise:
			d.SetSenderPromise(c.id)
		case rpccp.CapDescriptor_Which_receiverHosted:
			d.SetReceiverHosted(c.id)
		case rpccp.CapDescriptor_Which_receiverAnswer:
			pa, _ := d.NewReceiverAnswer()
			pa.SetQuestionId(c.id)
		case rpccp.CapDescriptor_Which_thirdPartyHosted:
			tp, _ := d.NewThirdPartyHosted()
			tp.SetVineId(c.id)
		default:
			d.Struct.SetUint32(4, c.id)
			d.Struct.SetUint16(0, uint16(c.which))
		}
	}
}

// fillPayload writes the standard content: struct{data: val; ptr0: cap #0 if any}.
func fillPayload(pl rpccp.Payload, val uint64, caps []capDesc) {
	s, _ := capnp.NewStruct(pl.Segment(), capnp.ObjectSize{DataSize: 8, PointerCount: 1})
	s.SetUint64(0, val)
	if len(caps) > 0 {
		s.SetPtr(0, capnp.NewInterface(pl.Segment(), 0).ToPtr())
	}
	pl.SetContent(s.ToPtr())
	fillCapTable(pl, caps)
}

func mkCall(q uint32, target func(rpccp.MessageTarget), iface uint64, method uint16, arg uint64, caps []capDesc) [][]byte {
	msg, m := newRPC()
	c, _ := m.NewCall()
	c.SetQuestionId(q)
	c.SetInterfaceId(iface)
	c.SetMethodId(method)
	t, _ := c.NewTarget()
	target(t)
	pl, _ := c.NewParams()
	fillPayload(pl, arg, caps)
	return segsOf(msg)
}

func mkReturnResults(aid uint32, val uint64, caps []capDesc, releaseParamCaps bool) [][]byte {
	msg, m := newRPC()
	r, _ := m.NewReturn()
	r.SetAnswerId(aid)
	r.SetReleaseParamCaps(releaseParamCaps)
	pl, _ := r.NewResults()
	fillPayload(pl, val, caps)
	return segsOf(msg)
}

// mkReturnBootstrap: the content is the interface pointer itself.
func mkReturnBootstrap(aid uint32, c capDesc) [][]byte {
	msg, m := newRPC()
	r, _ := m.NewReturn()
	r.SetAnswerId(aid)
	r.SetReleaseParamCaps(false)
	pl, _ := r.NewResults()
	pl.SetContent(capnp.NewInterface(pl.Segment(), 0).ToPtr())
	fillCapTable(pl, []capDesc{c})
	return segsOf(msg)
}

func mkReturnException(aid uint32, reason string, typ rpccp.Exception_Type) [][]byte {
	msg, m := newRPC()
	r, _ := m.NewReturn()
	r.SetAnswerId(aid)
	r.SetReleaseParamCaps(false)
	e, _ := r.NewException()
	e.SetReason(reason)
	e.SetType(typ)
	return segsOf(msg)
}

func mkReturnCanceled(aid uint32) [][]byte {
	msg, m := newRPC()
	r, _ := m.NewReturn()
	r.SetAnswerId(aid)
	r.SetReleaseParamCaps(false)
	r.SetCanceled()
	return segsOf(msg)
}

func mkFinish(q uint32, releaseCaps bool) [][]byte {
	msg, m := newRPC()
	f, _ := m.NewFinish()
	f.SetQuestionId(q)
	f.SetReleaseResultCaps(releaseCaps)
	return segsOf(msg)
}

func mkRelease(id, n uint32) [][]byte {
	msg, m := newRPC()
	r, _ := m.NewRelease()
	r.SetId(id)
	r.SetReferenceCount(n)
	return segsOf(msg)
}

func mkDisembargo(ctx rpccp.Disembargo_context_Which, id uint32, target func(rpccp.MessageTarget)) [][]byte {
	msg, m := newRPC()
	d, _ := m.NewDisembargo()
	if target != nil {
		t, _ := d.NewTarget()
		target(t)
	}
	switch ctx {
	case rpccp.Disembargo_context_Which_senderLoopback:
		d.Context().SetSenderLoopback(id)
	case rpccp.Disembargo_context_Which_receiverLoopback:
		d.Context().SetReceiverLoopback(id)
	case rpccp.Disembargo_context_Which_accept:
		d.Context().SetAccept()
	case rpccp.Disembargo_context_Which_provide:
		d.Context().SetProvide(id)
	default:
		d.Struct.SetUint32(0, id)
		d.Struct.SetUint16(4, uint16(ctx))
	}
	return segsOf(msg)
}

// ---------------------------------------------------------------------------
// reading the Conn's messages

func readCaps(pl rpccp.Payload) []capDesc {
	if !pl.HasCapTable() {
		return nil
	}
	l, err := pl.CapTable()
	if err != nil {
		return nil
	}
	var out []capDesc
	for i := 0; i < l.Len() && i < 64; i++ {
		d := l.At(i)
		c := capDesc{which: d.Which()}
		switch d.Which() {
		case rpccp.CapDescriptor_Which_senderHosted:
			c.id = d.SenderHosted()
		case rpccp.CapDescriptor_Which_senderPromise:
			c.id = d.SenderPromise()
		case rpccp.CapDescriptor_Which_receiverHosted:
			c.id = d.ReceiverHosted()
		}
		out = append(out, c)
	}
	return out
}

func readTarget(t rpccp.MessageTarget, m *wireMsg) {
	m.tgtWhich = t.Which()
	switch t.Which() {
	case rpccp.MessageTarget_Which_importedCap:
		m.tgtID = t.ImportedCap()
	case rpccp.MessageTarget_Which_promisedAnswer:
		if pa, err := t.PromisedAnswer(); err == nil {
			m.tgtID = pa.QuestionId()
		}
	}
}

func summarize(segs [][]byte) wireMsg {
	msg := &capnp.Message{Arena: capnp.MultiSegment(segs)}
	r, err := rpccp.ReadRootMessage(msg)
	if err != nil {
		return wireMsg{bad: err.Error()}
	}
	m := wireMsg{which: r.Which()}
	switch r.Which() {
	case rpccp.Message_Which_bootstrap:
		b, err := r.Bootstrap()
		if err != nil {
			m.bad = err.Error()
			break
		}
		m.id = b.QuestionId()
	case rpccp.Message_Which_call:
		c, err := r.Call()
		if err != nil {
			m.bad = err.Error()
			break
		}
		m.id = c.QuestionId()
		m.method = c.MethodId()
		m.iface = c.InterfaceId()
		if t, err := c.Target(); err == nil {
			readTarget(t, &m)
		}
		if pl, err := c.Params(); err == nil {
			m.caps = readCaps(pl)
			if p, err := pl.Content(); err == nil {
				m.arg = p.Struct().Uint64(0)
			}
		}
	case rpccp.Message_Which_return:
		rt, err := r.Return()
		if err != nil {
			m.bad = err.Error()
			break
		}
		m.id = rt.AnswerId()
		m.retWhich = rt.Which()
		m.flag = rt.ReleaseParamCaps()
		switch rt.Which() {
		case rpccp.Return_Which_results:
			if pl, err := rt.Results(); err == nil {
				m.caps = readCaps(pl)
			}
		case rpccp.Return_Which_exception:
			if e, err := rt.Exception(); err == nil {
				m.reason, _ = e.Reason()
			}
		}
	case rpccp.Message_Which_finish:
		f, err := r.Finish()
		if err != nil {
			m.bad = err.Error()
			break
		}
		m.id = f.QuestionId()
		m.flag = f.ReleaseResultCaps()
	case rpccp.Message_Which_release:
		rl, err := r.Release()
		if err != nil {
			m.bad = err.Error()
			break
		}
		m.id = rl.Id()
		m.count = rl.ReferenceCount()
	case rpccp.Message_Which_disembargo:
		d, err := r.Disembargo()
		if err != nil {
			m.bad = err.Error()
			break
		}
		m.ctxWhich = d.Context().Which()
		switch m.ctxWhich {
		case rpccp.Disembargo_context_Which_senderLoopback:
			m.ctxID = d.Context().SenderLoopback()
		case rpccp.Disembargo_context_Which_receiverLoopback:
			m.ctxID = d.Context().ReceiverLoopback()
		}
		if t, err := d.Target(); err == nil {
			readTarget(t, &m)
		}
	case rpccp.Message_Which_abort:
		if e, err := r.Abort(); err == nil {
			m.reason, _ = e.Reason()
		}
	case rpccp.Message_Which_unimplemented:
		if u, err := r.Unimplemented(); err == nil {
			m.inner = u.Which()
			switch u.Which() {
			case rpccp.Message_Which_call:
				if c, err := u.Call(); err == nil {
					m.id = c.QuestionId()
				}
			}
		}
	}
	return m
}
