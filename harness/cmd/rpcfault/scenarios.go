package main

// The twelve base scenarios of the C09 fault enumeration (also the raw
// material of the healthy histories C08 injects hostile messages into).
//
// A scenario is a linear application script plus peer-initiated traffic.
// Every wait has an alternative that fires in every possible world (the
// awaited peer-visible event, the transport being closed by the Conn, or
// the case's disturbance: fault injected / trigger fired / hostile message
// sent), so a scenario can only block for good if the library does.

import (
	"context"
	"sync"
	"sync/atomic"

	"capnproto.org/go/capnp/v3"
	"capnproto.org/go/capnp/v3/rpc"
	rpccp "capnproto.org/go/capnp/v3/std/capnp/rpc"
)

type sctx struct {
	b        *bench
	ctx      context.Context
	cancel   context.CancelFunc
	hostile  chan struct{} // closed when a hostile message was injected (C08)
	hostOnce sync.Once
	nsteps   int32
	stepHook func(sc *sctx, n int, name string) // called before each step (C08 injection point)
	clients  []*capnp.Client
	closed   int32 // Close already called by an injector
	kind     ctxKind
}

// ctxKind is the kind of Context the application script hands to the
// library (Bootstrap, Resolve, every call).  A cancellable Context that is
// never cancelled, context.Background() and context.TODO() must be
// indistinguishable as far as C09 is concerned: whatever the Context can or
// cannot do, a pending operation has to end when the connection does.
type ctxKind int

const (
	ctxCancellable ctxKind = iota // WithCancel, cancelled only by the cancel action / after the epilogue
	ctxBackground                 // context.Background(): Done() == nil
	ctxTODO                       // context.TODO(): Done() == nil
	nCtxKinds
)

var ctxKindNames = [...]string{"cancellable", "background", "todo"}

func (k ctxKind) String() string { return ctxKindNames[k] }

func ctxKindByName(n string) (ctxKind, bool) {
	for k := ctxKind(0); k < nCtxKinds; k++ {
		if ctxKindNames[k] == n {
			return k, true
		}
	}
	return ctxCancellable, false
}

func newSctx(b *bench) *sctx { return newSctxKind(b, ctxCancellable) }

func newSctxKind(b *bench, kind ctxKind) *sctx {
	sc := &sctx{b: b, hostile: make(chan struct{}), kind: kind}
	switch kind {
	case ctxBackground:
		sc.ctx, sc.cancel = context.Background(), func() {}
	case ctxTODO:
		sc.ctx, sc.cancel = context.TODO(), func() {}
	default:
		sc.ctx, sc.cancel = context.WithCancel(context.Background())
	}
	b.ctxKind = kind
	return sc
}

func (sc *sctx) disturbed() bool {
	tr := sc.b.lk.Tracker()
	select {
	case <-tr.firedCh:
		return true
	case <-tr.trigCh:
		return true
	case <-sc.hostile:
		return true
	default:
		return false
	}
}

func (sc *sctx) markHostile() { sc.hostOnce.Do(func() { close(sc.hostile) }) }

// step marks the beginning of a scenario step: H2 is checked (no Conn method
// is executing on behalf of the script between steps; background work is
// waited out), then the step hook runs.
func (sc *sctx) step(name string) {
	n := int(atomic.AddInt32(&sc.nsteps, 1))
	sc.b.checkLocksFree("before:" + name)
	sc.b.setStep(name)
	if sc.stepHook != nil {
		sc.stepHook(sc, n, name)
	}
}

// wait blocks until the peer has observed what pred describes.
func (sc *sctx) wait(name string, pred func() bool, extra ...<-chan struct{}) bool {
	tr := sc.b.lk.Tracker()
	chans := []<-chan struct{}{tr.firedCh, tr.trigCh, sc.hostile}
	if sc.disturbed() {
		return sc.b.peer.check(pred)
	}
	if len(extra) > 0 {
		// merge: the first extra channel replaces the hostile channel slot
		// when no hostile injection is configured
		done := make(chan struct{})
		stop := make(chan struct{})
		defer close(stop)
		go func() {
			select {
			case <-extra[0]:
				close(done)
			case <-sc.hostile:
				close(done)
			case <-stop:
			}
		}()
		chans[2] = done
	}
	return sc.b.peer.waitFor(name, pred, chans...)
}

// awaitSnap waits for a predicate on the H2 snapshot (table occupancy).  The
// predicate must become true in every world in which the Conn keeps working
// or shuts down; a leaked mutex makes it unsatisfiable, which is the point.
func (sc *sctx) awaitSnap(name string, pred func(st rpc.VerifConnState) bool) {
	sc.b.awaitCond("snap:"+name, func() bool {
		if sc.disturbed() {
			return true
		}
		st := sc.b.snapshot()
		return st.Locked && (st.ShutdownDone || pred(st))
	})
}

func (sc *sctx) keep(c *capnp.Client) *capnp.Client {
	sc.clients = append(sc.clients, c)
	return c
}

func (sc *sctx) releaseAll() {
	for i, c := range sc.clients {
		sc.b.release("client"+itoa(i), c)
	}
	sc.clients = nil
}

// bootResolved performs Bootstrap + Resolve and waits until the peer saw
// the Finish.
func (sc *sctx) bootResolved() *capnp.Client {
	p := sc.b.peer
	sc.step("bootstrap")
	bc := sc.keep(sc.b.bootstrap(sc.ctx))
	sc.step("resolve")
	sc.b.resolve(sc.ctx, bc)
	sc.wait("bootstrap-finish", func() bool { return p.sawKind(rpccp.Message_Which_finish, 1) })
	return bc
}

// peerBootstrap: the peer bootstraps the Conn and learns the export id.
func (sc *sctx) peerBootstrap() (q uint32, export uint32, ok bool) {
	p := sc.b.peer
	sc.step("peer-bootstrap")
	q = p.sendBootstrap()
	sc.wait("bootstrap-return", func() bool { return p.sawReturn(q) != nil })
	p.mu.Lock()
	export, ok = exportFromReturn(p.sawReturn(q))
	p.mu.Unlock()
	return q, export, ok
}

type scenario struct {
	name string
	run  func(sc *sctx)
}

func finishCount(p *peer, n int) func() bool {
	return func() bool { return p.sawKind(rpccp.Message_Which_finish, n) }
}

var scenarios = []scenario{
	{"bootstrap", func(sc *sctx) {
		p := sc.b.peer
		sc.bootResolved()
		sc.step("release")
		sc.releaseAll()
		sc.wait("release-msg", func() bool { return p.sawKind(rpccp.Message_Which_release, 1) })
	}},
	{"call", func(sc *sctx) {
		p := sc.b.peer
		bc := sc.bootResolved()
		sc.step("call")
		sc.b.call("echo", sc.ctx, bc, mEcho, 41, nil, false)
		sc.wait("call-finish", finishCount(p, 2))
		sc.step("exception-call")
		sc.b.call("exc", sc.ctx, bc, mExc, 1, nil, false)
		sc.wait("exc-finish", finishCount(p, 3))
		sc.step("release")
		sc.releaseAll()
		sc.wait("release-msg", func() bool { return p.sawKind(rpccp.Message_Which_release, 1) })
	}},
	{"callcaps", func(sc *sctx) {
		p := sc.b.peer
		bc := sc.bootResolved()
		sc.step("call-with-cap")
		local := sc.keep(sc.b.srv.client())
		sc.b.call("echo-cap", sc.ctx, bc, mEcho, 1, local, false)
		sc.wait("call-finish", finishCount(p, 2))
		sc.step("peer-release-export")
		p.mu.Lock()
		var exp uint32
		have := false
		if c := p.sawCall(mEcho, 1); c != nil {
			for _, d := range c.caps {
				if d.which == rpccp.CapDescriptor_Which_senderHosted {
					exp, have = d.id, true
				}
			}
		}
		p.mu.Unlock()
		if have {
			p.sendRelease(exp, 1)
			sc.awaitSnap("export-released", func(st rpc.VerifConnState) bool { return len(st.ExportRefs) == 0 })
		}
		sc.step("release")
		sc.releaseAll()
		sc.wait("release-msg", func() bool { return p.sawKind(rpccp.Message_Which_release, 1) })
	}},
	{"pipeline", func(sc *sctx) {
		p := sc.b.peer
		p.setHoldBootstrap(true)
		sc.step("bootstrap")
		bc := sc.keep(sc.b.bootstrap(sc.ctx))
		sc.step("pipelined-call")
		done := make(chan struct{})
		ch := sc.b.goCall("pipelined-echo", sc.ctx, bc, mEcho, 5)
		go func() { <-ch; close(done) }()
		sc.wait("pipelined-call-seen", func() bool { return p.sawCall(mEcho, 1) != nil }, done)
		sc.step("peer-returns-bootstrap")
		p.releaseBootstrap()
		<-done
		sc.wait("finishes", finishCount(p, 2))
		sc.step("release")
		sc.releaseAll()
		sc.wait("release-msg", func() bool { return p.sawKind(rpccp.Message_Which_release, 1) })
	}},
	{"inboot", func(sc *sctx) {
		p := sc.b.peer
		_, exp, ok := sc.peerBootstrap()
		sc.awaitSnap("answers-drained", func(st rpc.VerifConnState) bool { return st.Answers == 0 })
		sc.step("peer-release")
		if ok {
			p.sendRelease(exp, 1)
			sc.awaitSnap("export-released", func(st rpc.VerifConnState) bool { return len(st.ExportRefs) == 0 })
		}
	}},
	{"incall", func(sc *sctx) {
		p := sc.b.peer
		_, exp, _ := sc.peerBootstrap()
		sc.step("peer-call")
		q := p.sendCallExport(exp, mEcho, 9, nil)
		sc.wait("call-return", func() bool { return p.sawReturn(q) != nil })
		sc.step("peer-call-with-cap")
		q2 := p.sendCallExport(exp, mCallCap, 3, []capDesc{{rpccp.CapDescriptor_Which_senderHosted, 77}})
		sc.wait("callcap-return", func() bool { return p.sawReturn(q2) != nil })
		sc.awaitSnap("answers-drained", func(st rpc.VerifConnState) bool { return st.Answers == 0 && len(st.ImportRefs) == 0 })
		sc.step("peer-release")
		p.sendRelease(exp, 1)
		sc.awaitSnap("export-released", func(st rpc.VerifConnState) bool { return len(st.ExportRefs) == 0 })
	}},
	{"inpipeline", func(sc *sctx) {
		p := sc.b.peer
		sc.step("peer-bootstrap-and-pipelined-call")
		qb := p.newManualQuestion()
		p.send(mkBootstrap(qb))
		qc := p.sendCallPromised(qb, nil, mEcho, 3)
		sc.wait("pipelined-return", func() bool { return p.sawReturn(qb) != nil && p.sawReturn(qc) != nil })
		p.sendFinish(qb)
		p.mu.Lock()
		exp, _ := exportFromReturn(p.sawReturn(qb))
		p.mu.Unlock()
		sc.step("peer-held-call-and-pipelined-call")
		qh := p.newManualQuestion()
		p.send(mkCall(qh, func(t rpccp.MessageTarget) { t.SetImportedCap(exp) }, ifaceID, mHold, 0, nil))
		qp := p.sendCallPromised(qh, []uint16{0}, mEcho, 4)
		sc.step("release-held")
		sc.b.srv.releaseHeld()
		sc.wait("held-returns", func() bool { return p.sawReturn(qh) != nil && p.sawReturn(qp) != nil })
		p.sendFinish(qh)
		sc.awaitSnap("answers-drained", func(st rpc.VerifConnState) bool { return st.Answers == 0 })
	}},
	{"release", func(sc *sctx) {
		p := sc.b.peer
		bc := sc.bootResolved()
		sc.step("getcap")
		r := sc.b.call("getcap", sc.ctx, bc, mGetCap, 1, nil, true)
		sc.wait("getcap-finish", finishCount(p, 2))
		sc.step("addref")
		var extra []*capnp.Client
		sc.b.guard("Client.AddRef", func() {
			extra = append(extra, bc.AddRef(), bc.AddRef())
		})
		sc.step("release-second-import")
		sc.b.release("imported-cap", r.cap)
		if r.cap != nil {
			sc.wait("release-msg-1", func() bool { return p.sawKind(rpccp.Message_Which_release, 1) })
		}
		sc.step("release-refs")
		for _, c := range extra {
			sc.b.release("extra-ref", c)
		}
		sc.releaseAll()
		sc.wait("release-msg-2", func() bool { return p.sawKind(rpccp.Message_Which_release, 2) })
	}},
	{"cancel", func(sc *sctx) {
		p := sc.b.peer
		bc := sc.bootResolved()
		sc.step("held-call")
		cctx, cancel := context.WithCancel(sc.ctx)
		defer cancel()
		done := make(chan struct{})
		ch := sc.b.goCall("held", cctx, bc, mHold, 0)
		go func() { <-ch; close(done) }()
		sc.wait("held-call-seen", func() bool { return p.sawCall(mHold, 1) != nil }, done)
		sc.step("cancel")
		cancel()
		<-done
		sc.wait("cancel-finish", finishCount(p, 2))
		sc.awaitSnap("questions-drained", func(st rpc.VerifConnState) bool { return st.Questions == 0 })
		sc.step("release")
		sc.releaseAll()
		sc.wait("release-msg", func() bool { return p.sawKind(rpccp.Message_Which_release, 1) })
	}},
	{"embargo", func(sc *sctx) {
		p := sc.b.peer
		bc := sc.bootResolved()
		p.setHoldMethod(mLoopCap, true)
		local := sc.keep(sc.b.srv.client())
		sc.step("loopcap-call")
		var ans *capnp.Answer
		var release capnp.ReleaseFunc
		id := sc.b.ops.begin("sendcall:loopcap")
		sc.b.guard("Client.SendCall/loopcap", func() {
			ans, release = bc.SendCall(sc.ctx, capnp.Send{
				Method:   capnp.Method{InterfaceID: ifaceID, MethodID: mLoopCap},
				ArgsSize: capnp.ObjectSize{DataSize: 8, PointerCount: 1},
				PlaceArgs: func(s capnp.Struct) error {
					cid := s.Message().AddCap(local.AddRef())
					return s.SetPtr(0, capnp.NewInterface(s.Segment(), cid).ToPtr())
				},
			})
		})
		sc.b.ops.end(id)
		if ans == nil {
			return
		}
		sc.step("pipelined-call-on-result")
		pdone := make(chan struct{})
		sc.b.wg.Add(1)
		go func() {
			defer sc.b.wg.Done()
			defer close(pdone)
			id := sc.b.ops.begin("call:pipelined-on-loopcap")
			defer sc.b.ops.end(id)
			sc.b.guard("Answer.PipelineSend", func() {
				a2, rel2 := ans.PipelineSend(sc.ctx, []capnp.PipelineOp{{Field: 0}}, capnp.Send{
					Method:   capnp.Method{InterfaceID: ifaceID, MethodID: mEcho},
					ArgsSize: capnp.ObjectSize{DataSize: 8, PointerCount: 1},
				})
				a2.Struct()
				rel2()
			})
		}()
		sc.wait("pipelined-seen", func() bool { return p.sawCall(mEcho, 1) != nil }, pdone)
		sc.step("peer-returns-local-cap")
		p.releaseMethod(mLoopCap)
		id = sc.b.ops.begin("call:loopcap-result")
		var resolved *capnp.Client
		sc.b.guard("Answer.Struct/loopcap", func() {
			st, err := ans.Struct()
			if err == nil {
				if ptr, err := st.Ptr(0); err == nil {
					resolved = ptr.Interface().Client().AddRef()
				}
			}
		})
		sc.b.ops.end(id)
		<-pdone
		sc.step("call-on-disembargoed-cap")
		if resolved != nil {
			sc.keep(resolved)
			sc.b.call("after-embargo", sc.ctx, resolved, mEcho, 10, nil, false)
		}
		sc.wait("finishes", finishCount(p, 3))
		sc.awaitSnap("embargo-lifted", func(st rpc.VerifConnState) bool { return st.Embargoes == 0 })
		sc.step("release")
		id = sc.b.ops.begin("release:loopcap-answer")
		sc.b.guard("ReleaseFunc", func() { release() })
		sc.b.ops.end(id)
		sc.releaseAll()
	}},
	{"embargo-release", func(sc *sctx) {
		// As "embargo", but the application drops every reference to the
		// embargoed capability before the peer echoes the Disembargo.
		p := sc.b.peer
		bc := sc.bootResolved()
		p.setHoldMethod(mLoopCap, true)
		p.setNoDisembargo(true)
		local := sc.keep(sc.b.srv.client())
		sc.step("loopcap-call")
		var ans *capnp.Answer
		var release capnp.ReleaseFunc
		id := sc.b.ops.begin("sendcall:loopcap")
		sc.b.guard("Client.SendCall/loopcap", func() {
			ans, release = bc.SendCall(sc.ctx, capnp.Send{
				Method:   capnp.Method{InterfaceID: ifaceID, MethodID: mLoopCap},
				ArgsSize: capnp.ObjectSize{DataSize: 8, PointerCount: 1},
				PlaceArgs: func(s capnp.Struct) error {
					cid := s.Message().AddCap(local.AddRef())
					return s.SetPtr(0, capnp.NewInterface(s.Segment(), cid).ToPtr())
				},
			})
		})
		sc.b.ops.end(id)
		if ans == nil {
			return
		}
		sc.step("pipelined-call-on-result")
		pdone := make(chan struct{})
		sc.b.wg.Add(1)
		go func() {
			defer sc.b.wg.Done()
			defer close(pdone)
			id := sc.b.ops.begin("call:pipelined-on-loopcap")
			defer sc.b.ops.end(id)
			sc.b.guard("Answer.PipelineSend", func() {
				a2, rel2 := ans.PipelineSend(sc.ctx, []capnp.PipelineOp{{Field: 0}}, capnp.Send{
					Method:   capnp.Method{InterfaceID: ifaceID, MethodID: mEcho},
					ArgsSize: capnp.ObjectSize{DataSize: 8, PointerCount: 1},
				})
				a2.Struct()
				rel2()
			})
		}()
		sc.wait("pipelined-seen", func() bool { return p.sawCall(mEcho, 1) != nil }, pdone)
		sc.step("peer-returns-local-cap")
		p.releaseMethod(mLoopCap)
		id = sc.b.ops.begin("call:loopcap-result")
		sc.b.guard("Answer.Struct/loopcap", func() { ans.Struct() })
		sc.b.ops.end(id)
		<-pdone
		sc.wait("disembargo-request", func() bool { return p.sawKind(rpccp.Message_Which_disembargo, 1) })
		sc.step("release-before-disembargo-echo")
		id = sc.b.ops.begin("release:loopcap-answer")
		sc.b.guard("ReleaseFunc", func() { release() })
		sc.b.ops.end(id)
		sc.wait("finishes", finishCount(p, 3))
		sc.step("peer-echoes-disembargo")
		p.echoDisembargoes()
		sc.awaitSnap("embargo-lifted", func(st rpc.VerifConnState) bool { return st.Embargoes == 0 })
		sc.step("release")
		sc.releaseAll()
	}},
	{"concurrent", func(sc *sctx) {
		p := sc.b.peer
		bc := sc.bootResolved()
		sc.step("concurrent-calls")
		var wg sync.WaitGroup
		for g := 0; g < 4; g++ {
			wg.Add(1)
			go func(g int) {
				defer wg.Done()
				for k := 0; k < 2; k++ {
					sc.b.call("conc-echo", sc.ctx, bc, mEcho, uint64(g*10+k), nil, false)
				}
			}(g)
		}
		id := sc.b.ops.begin("join-concurrent-callers")
		wg.Wait()
		sc.b.ops.end(id)
		sc.wait("finishes", finishCount(p, 9))
		sc.step("release")
		sc.releaseAll()
		sc.wait("release-msg", func() bool { return p.sawKind(rpccp.Message_Which_release, 1) })
	}},
	{"closebusy", func(sc *sctx) {
		p := sc.b.peer
		bc := sc.bootResolved()
		sc.step("held-outgoing-call")
		done := make(chan struct{})
		ch := sc.b.goCall("held", sc.ctx, bc, mHold, 0)
		go func() { <-ch; close(done) }()
		sc.wait("held-call-seen", func() bool { return p.sawCall(mHold, 1) != nil }, done)
		_, exp, _ := sc.peerBootstrap()
		sc.step("held-incoming-call")
		p.sendCallExport(exp, mHold, 0, nil)
		p.sendCallPromised(p.lastQuestion(), []uint16{0}, mEcho, 1)
		sc.awaitSnap("incoming-held", func(st rpc.VerifConnState) bool { return st.Answers >= 2 })
		// epilogue closes while both directions are busy
	}},
}

func scenarioByName(n string) *scenario {
	for i := range scenarios {
		if scenarios[i].name == n {
			return &scenarios[i]
		}
	}
	return nil
}
