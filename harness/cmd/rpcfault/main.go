// rpcfault: runtime monitors for
//
//	C08 — a hostile or buggy peer cannot crash or wedge an RPC connection
//	C09 — transport faults, cancellation and Close always terminate cleanly
//
// One real rpc.Conn is driven against a scripted raw peer over transport
// doubles that can inject faults.  See NOTES.md.
package main

import (
	"os"
	"runtime/pprof"

	"capnproto.org/go/capnp/v3/zverif/common"
)

func main() {
	cfg := common.ParseFlags()
	rec := common.NewRecorder(cfg)
	if pf := os.Getenv("RPCFAULT_CPUPROFILE"); pf != "" {
		if f, err := os.Create(pf); err == nil {
			pprof.StartCPUProfile(f)
			defer pprof.StopCPUProfile()
		}
	}
	switch cfg.Prop {
	case "C09":
		runC09(cfg, rec)
	case "C08":
		runC08(cfg, rec)
	default:
		rec.Inconclusive("rpcfault: unknown property " + cfg.Prop)
		rec.Finish()
	}
}
