package main

// Independent stream-framing code (written from capnproto.org/encoding.html,
// shares nothing with the library): frame parser, reference unpacker for the
// packed encoding, a framer, and a minimal pointer walker used to find the
// pointer words of a single-segment message for byte-level corruption.

import (
	"encoding/binary"
	"fmt"
)

// frame is one complete stream frame.
type frame struct {
	start, end int      // byte offsets in the (unpacked) stream
	segs       [][]byte // views into the stream
}

// streamAnalysis is the result of parsing an unpacked byte stream as
// frame* [proper prefix of one frame].
type streamAnalysis struct {
	frames []frame
	tail   int // number of trailing bytes that belong to an incomplete frame
}

// parseFrames parses b as a sequence of frames.  Every byte string parses
// (the framing has no redundancy); what matters to the caller is where the
// frame boundaries fall and how long the incomplete tail is.
func parseFrames(b []byte) streamAnalysis {
	var a streamAnalysis
	pos := 0
	for pos < len(b) {
		if len(b)-pos < 8 {
			break
		}
		nseg := uint64(binary.LittleEndian.Uint32(b[pos:])) + 1
		hdrBytes := 4 + 4*nseg
		if hdrBytes%8 != 0 {
			hdrBytes += 4
		}
		if uint64(len(b)-pos) < hdrBytes {
			break
		}
		var total uint64
		sizes := make([]uint64, 0, 4)
		for i := uint64(0); i < nseg; i++ {
			w := uint64(binary.LittleEndian.Uint32(b[pos+4+int(4*i):])) * 8
			sizes = append(sizes, w)
			total += w
		}
		if uint64(len(b)-pos)-hdrBytes < total {
			break
		}
		f := frame{start: pos}
		p := pos + int(hdrBytes)
		for _, sz := range sizes {
			f.segs = append(f.segs, b[p:p+int(sz)])
			p += int(sz)
		}
		f.end = p
		a.frames = append(a.frames, f)
		pos = p
	}
	a.tail = len(b) - pos
	return a
}

// frameSegs produces the stream framing of a message given its segments.
func frameSegs(segs [][]byte) []byte {
	n := len(segs)
	hdr := 4 + 4*n
	if hdr%8 != 0 {
		hdr += 4
	}
	out := make([]byte, hdr)
	binary.LittleEndian.PutUint32(out, uint32(n-1))
	for i, s := range segs {
		binary.LittleEndian.PutUint32(out[4+4*i:], uint32(len(s)/8))
	}
	for _, s := range segs {
		out = append(out, s...)
	}
	return out
}

// refUnpack is a reference decoder for the packed encoding.  It decodes as
// many whole words as the input determines and reports how many input bytes
// were left over because they form an incomplete tag group.
func refUnpack(src []byte) (out []byte, leftover int) {
	i := 0
	for i < len(src) {
		start := i
		tag := src[i]
		i++
		var word [8]byte
		need := 0
		for b := uint(0); b < 8; b++ {
			if tag&(1<<b) != 0 {
				need++
			}
		}
		if len(src)-i < need {
			return out, len(src) - start
		}
		for b := uint(0); b < 8; b++ {
			if tag&(1<<b) != 0 {
				word[b] = src[i]
				i++
			}
		}
		switch tag {
		case 0x00:
			if i >= len(src) {
				return out, len(src) - start
			}
			n := int(src[i])
			i++
			out = append(out, word[:]...)
			for k := 0; k < n; k++ {
				out = append(out, 0, 0, 0, 0, 0, 0, 0, 0)
			}
		case 0xff:
			if i >= len(src) {
				return out, len(src) - start
			}
			n := int(src[i]) * 8
			i++
			if len(src)-i < n {
				return out, len(src) - start
			}
			out = append(out, word[:]...)
			out = append(out, src[i:i+n]...)
			i += n
		default:
			out = append(out, word[:]...)
		}
	}
	return out, 0
}

// refPack is a straightforward packer (no literal runs except where the
// spec requires the count byte after 0x00 / 0xff tags).
func refPack(src []byte) []byte {
	var out []byte
	for len(src)%8 != 0 {
		src = append(src, 0)
	}
	for i := 0; i < len(src); i += 8 {
		w := src[i : i+8]
		var tag byte
		for b := 0; b < 8; b++ {
			if w[b] != 0 {
				tag |= 1 << uint(b)
			}
		}
		out = append(out, tag)
		for b := 0; b < 8; b++ {
			if w[b] != 0 {
				out = append(out, w[b])
			}
		}
		if tag == 0 {
			out = append(out, 0) // no further zero words in this run
		} else if tag == 0xff {
			out = append(out, 0) // no literal words follow
		}
	}
	return out
}

// analyzeWire parses everything that reached the wire.  For packed streams
// the bytes are unpacked with the reference unpacker first; packedLeft is the
// number of packed bytes that did not form a whole tag group.
func analyzeWire(wire []byte, packed bool) (a streamAnalysis, packedLeft int) {
	if !packed {
		return parseFrames(wire), 0
	}
	un, left := refUnpack(wire)
	return parseFrames(un), left
}

// midFrame reports whether a stream cut after n bytes ends inside a frame.
func midFrame(wire []byte, n int, packed bool) bool {
	a, left := analyzeWire(wire[:n], packed)
	return a.tail > 0 || left > 0
}

// ---------------------------------------------------------------------------
// Minimal pointer walker (single segment): returns the word indices of all
// pointer words reachable from the root, with their kind.

type ptrLoc struct {
	word int
	kind string // struct | list | listptr | composite | tag | cap | far | null
}

func walkPointers(seg []byte) []ptrLoc {
	var out []ptrLoc
	nwords := len(seg) / 8
	seen := map[int]bool{}
	var visit func(w int, depth int)
	get := func(w int) uint64 { return binary.LittleEndian.Uint64(seg[w*8:]) }
	visit = func(w int, depth int) {
		if w < 0 || w >= nwords || seen[w] || depth > 32 {
			return
		}
		seen[w] = true
		v := get(w)
		if v == 0 {
			out = append(out, ptrLoc{w, "null"})
			return
		}
		off := int(int32(uint32(v)) >> 2)
		switch v & 3 {
		case 0:
			out = append(out, ptrLoc{w, "struct"})
			dw := int(uint16(v >> 32))
			pw := int(uint16(v >> 48))
			base := w + 1 + off + dw
			for i := 0; i < pw; i++ {
				visit(base+i, depth+1)
			}
		case 1:
			es := int((v >> 32) & 7)
			cnt := int(v >> 35)
			tgt := w + 1 + off
			switch es {
			case 6:
				out = append(out, ptrLoc{w, "listptr"})
				for i := 0; i < cnt && i < 64; i++ {
					visit(tgt+i, depth+1)
				}
			case 7:
				out = append(out, ptrLoc{w, "composite"})
				if tgt >= 0 && tgt < nwords {
					tag := get(tgt)
					out = append(out, ptrLoc{tgt, "tag"})
					seen[tgt] = true
					n := int(int32(uint32(tag)) >> 2)
					dw := int(uint16(tag >> 32))
					pw := int(uint16(tag >> 48))
					for e := 0; e < n && e < 64; e++ {
						base := tgt + 1 + e*(dw+pw) + dw
						for i := 0; i < pw; i++ {
							visit(base+i, depth+1)
						}
					}
				}
			default:
				out = append(out, ptrLoc{w, "list"})
			}
		case 2:
			out = append(out, ptrLoc{w, "far"})
		case 3:
			out = append(out, ptrLoc{w, "cap"})
		}
	}
	visit(0, 0)
	return out
}

func structPtr(off int, dw, pw uint16) uint64 {
	return uint64(uint32(off)<<2) | uint64(dw)<<32 | uint64(pw)<<48
}

func listPtr(off int, es int, cnt uint32) uint64 {
	return uint64(uint32(off)<<2|1) | uint64(es&7)<<32 | uint64(cnt&0x1fffffff)<<35
}

func farPtr(double bool, padOff uint32, segID uint32) uint64 {
	v := uint64(2) | uint64(padOff&0x1fffffff)<<3 | uint64(segID)<<32
	if double {
		v |= 4
	}
	return v
}

func capPtr(idx uint32) uint64 { return 3 | uint64(idx)<<32 }

func describeWord(v uint64) string { return fmt.Sprintf("%016x", v) }
