// C11: promise pipelining.  One root promise P0 (Fulfill / Reject) and 0-3
// further promises that Join it (or another one, or an already resolved
// answer); pipelined calls with transforms of length 0-3, Future.Client()
// (repeatedly on the same path), calls through those clients, Struct()
// waiters, ReleaseClients.  Sequential mode runs one script against an
// exact model; concurrent mode runs 2-6 workers and checks the history with
// porcupine against the 2-state sequential model, plus exactly-once,
// end-state (result-capability shutdown accounting) and deadlock detection.
package main

import (
	"context"
	"errors"
	"fmt"
	"runtime"
	"strings"
	"sync"
	"sync/atomic"
	"time"

	"capnproto.org/go/capnp/v3"
	"capnproto.org/go/capnp/v3/zverif/common"
	"github.com/anishathalye/porcupine"
)

const (
	joinNone      = -1
	joinErrAns    = -2 // joined to an ErrorAnswer
	joinImmAns    = -3 // joined to an ImmediateAnswer over the result struct
	joinRejected  = -4 // rejected directly (epilogue)
	capHookBase   = 100
	resFulfilled  = 1
	resRejected   = 2
	maxC11Promise = 4
)

type pathSpec struct {
	fields []uint16
	pos    int // cap position 0..3, -1 = not a capability path
}

var c11Paths = []pathSpec{
	{nil, -1},
	{[]uint16{0}, 0},
	{[]uint16{1}, 1},
	{[]uint16{2}, -1},
	{[]uint16{2, 0}, 2},
	{[]uint16{2, 1}, -1},
	{[]uint16{2, 1, 0}, 3},
	{[]uint16{3}, -1},
}

func (p pathSpec) transform(rng *common.RNG) []capnp.PipelineOp {
	out := make([]capnp.PipelineOp, len(p.fields))
	for i, f := range p.fields {
		out[i].Field = f
	}
	return out
}

func (p pathSpec) String() string {
	var s []string
	for _, f := range p.fields {
		s = append(s, fmt.Sprint(f))
	}
	return strings.Join(s, ".")
}

// pstate is the sequential model of the promise chain (comparable).
type pstate struct {
	Join [maxC11Promise]int8
	Res  int8
}

func newPState() pstate {
	var s pstate
	for i := range s.Join {
		s.Join[i] = joinNone
	}
	return s
}

type c11target struct {
	Kind byte // 'p' pipeline caller, 'h' result capability hook, 'e' not delivered
	ID   int
}

func (t c11target) String() string { return fmt.Sprintf("%c%d", t.Kind, t.ID) }

// expect: where must a call on promise i with path pi go in state st?
func (c *c11) expect(st pstate, i, pi int) c11target {
	leaf := i
	for n := 0; n < 8 && st.Join[leaf] >= 0; n++ {
		leaf = int(st.Join[leaf])
	}
	fulfilled := false
	switch {
	case st.Join[leaf] == joinErrAns || st.Join[leaf] == joinRejected:
		return c11target{'e', 0}
	case st.Join[leaf] == joinImmAns:
		fulfilled = true
	case leaf == 0 && st.Res == resFulfilled:
		fulfilled = true
	case leaf == 0 && st.Res == resRejected:
		return c11target{'e', 0}
	}
	if !fulfilled {
		return c11target{'p', leaf}
	}
	pos := c11Paths[pi].pos
	if pos < 0 || c.posCap[pos] < 0 {
		return c11target{'e', 0}
	}
	return c11target{'h', capHookBase + c.posCap[pos]}
}

func (c *c11) chainResolved(st pstate, i int) bool {
	return c.expect(st, i, 0).Kind != 'p'
}

type c11client struct {
	c      *capnp.Client // owned (AddRef of the borrowed client), may be nil
	prom   int
	path   int
	worker int
}

type c11op struct {
	K      string `json:"k"`
	P      int    `json:"p,omitempty"`    // promise
	Path   int    `json:"path,omitempty"` // index into c11Paths
	J      int    `json:"j,omitempty"`    // join target / client index
	Recv   bool   `json:"recv,omitempty"`
	Async  bool   `json:"async,omitempty"`
	Reject bool   `json:"reject,omitempty"`
	B      int    `json:"b,omitempty"` // barrier id
}

type c11rec struct {
	in     c11op
	uid    uint64
	tCall  int64
	tRet   int64
	done   bool
	isCall bool
	client int // for ccall: client index (prom/path taken from it)
	prom   int
	path   int
}

type c11 struct {
	cc     *caseCtx
	conc   bool
	nprom  int
	pcs    []*ipc
	proms  []*capnp.Promise
	caps   []*ihook
	posCap [4]int // cap index at each position, -1 = null
	resMsg *capnp.Message
	res    capnp.Struct

	st      pstate // sequential model (seq mode) / last known (epilogue)
	clients []*c11client
	waiters []*c11waiter
	flying  []c11flying

	scripts  [][]c11op
	barriers []*gate
	barrMu   sync.Mutex
	barrCnt  map[int]int

	mu          sync.Mutex
	recs        []*c11rec
	asyncs      []*asyncOp
	uid         uint64
	anyFinished int32
	counts      map[string]int64
	script      []string
}

type c11flying struct {
	op *asyncOp
	t  c11target
}

type c11waiter struct {
	prom int
	op   *asyncOp
	st   capnp.Struct
	err  error
}

func (c *c11) count(k string, n int64) {
	c.mu.Lock()
	c.counts[k] += n
	c.mu.Unlock()
}

func (c *c11) setup(rng *common.RNG) {
	cc := c.cc
	c.nprom = 1 + rng.Range(0, 3)
	for i := 0; i < c.nprom; i++ {
		c.pcs = append(c.pcs, cc.newPC(i))
		c.proms = append(c.proms, capnp.NewPromise(capnp.Method{InterfaceID: 0xabc, MethodID: uint16(i)}, c.pcs[i]))
	}
	ncap := rng.Range(0, 3)
	msg, seg, _ := capnp.NewMessage(capnp.SingleSegment(nil))
	root, _ := capnp.NewRootStruct(seg, capnp.ObjectSize{DataSize: 8, PointerCount: 3})
	root.SetUint64(0, 0xfeedface)
	sub, _ := capnp.NewStruct(seg, capnp.ObjectSize{PointerCount: 2})
	root.SetPtr(2, sub.ToPtr())
	subsub, _ := capnp.NewStruct(seg, capnp.ObjectSize{PointerCount: 1})
	sub.SetPtr(1, subsub.ToPtr())
	var first []*capnp.Client
	for k := 0; k < ncap; k++ {
		c.caps = append(c.caps, cc.newHook(capHookBase+k))
		first = append(first, nil)
	}
	used := make([]bool, ncap)
	for pos := 0; pos < 4; pos++ {
		c.posCap[pos] = -1
		if ncap == 0 || rng.Chance(1, 4) {
			continue
		}
		k := rng.Intn(ncap)
		// make sure every hook is placed at least once
		for j := 0; j < ncap; j++ {
			if !used[j] && 4-pos <= ncap {
				k = j
				break
			}
		}
		used[k] = true
		c.posCap[pos] = k
		var cl *capnp.Client
		if first[k] == nil {
			cl = capnp.NewClient(c.caps[k])
			first[k] = cl
		} else {
			cl = first[k].AddRef()
		}
		id := msg.AddCap(cl)
		p := capnp.NewInterface(seg, id).ToPtr()
		switch pos {
		case 0:
			root.SetPtr(0, p)
		case 1:
			root.SetPtr(1, p)
		case 2:
			sub.SetPtr(0, p)
		case 3:
			subsub.SetPtr(0, p)
		}
	}
	// hooks that were never placed have no client and are dropped
	var kept []*ihook
	remap := map[int]int{}
	for k, h := range c.caps {
		if used[k] {
			remap[k] = len(kept)
			h.id = capHookBase + len(kept)
			kept = append(kept, h)
		}
	}
	for pos := range c.posCap {
		if c.posCap[pos] >= 0 {
			c.posCap[pos] = remap[c.posCap[pos]]
		}
	}
	c.caps = kept
	c.resMsg, c.res = msg, root
	c.st = newPState()
}

// ---- primitive operations (shared by both modes) ---------------------------

func (c *c11) newRec(in c11op, isCall bool, prom, path int) *c11rec {
	r := &c11rec{in: in, isCall: isCall, prom: prom, path: path, client: -1}
	if isCall {
		r.uid = atomic.AddUint64(&c.uid, 1)
	}
	r.tCall = c.cc.log.tick() // stamped before the record is published and before the call is issued
	c.mu.Lock()
	c.recs = append(c.recs, r)
	c.mu.Unlock()
	return r
}

func (c *c11) finish(r *c11rec) {
	t := c.cc.log.tick()
	c.mu.Lock()
	r.tRet, r.done = t, true
	c.mu.Unlock()
}

// pcall performs PipelineSend / PipelineRecv on promise i.
func (c *c11) pcall(r *c11rec, recv bool) {
	cc := c.cc
	t := c11Paths[r.path].transform(nil)
	ans := c.proms[r.prom].Answer()
	atomic.AddInt64(&cc.pending, 1)
	var p *common.Panic
	if recv {
		rv, rt := cc.recvFor(r.uid, 2)
		p = common.Guard(func() { ans.PipelineRecv(context.Background(), t, rv) })
		if p == nil && !rt.returned() {
			// the pipeline caller / hook returned a PipelineCaller instead:
			// our monitors always return before they return.
			cc.violate("C11/recv-not-returned", "PipelineRecv finished but the Returner was never called", fmt.Sprintf("uid=%d", r.uid))
		}
	} else {
		p = common.Guard(func() { ans.PipelineSend(context.Background(), t, sendFor(r.uid, 2)) })
	}
	atomic.AddInt64(&cc.pending, -1)
	atomic.AddInt64(&cc.progress, 1)
	c.finish(r)
	cc.panicViolation("PipelineSend/Recv", p)
}

// ccall performs a call through an owned client.
func (c *c11) ccall(r *c11rec, cl *c11client, recv bool) {
	cc := c.cc
	atomic.AddInt64(&cc.pending, 1)
	var p *common.Panic
	if recv {
		rv, rt := cc.recvFor(r.uid, 3)
		p = common.Guard(func() { cl.c.RecvCall(context.Background(), rv) })
		if p == nil && !rt.returned() {
			cc.violate("C11/recv-not-returned", "RecvCall through a pipelined client finished but the Returner was never called", fmt.Sprintf("uid=%d", r.uid))
		}
	} else {
		p = common.Guard(func() { cl.c.SendCall(context.Background(), sendFor(r.uid, 3)) })
	}
	atomic.AddInt64(&cc.pending, -1)
	atomic.AddInt64(&cc.progress, 1)
	c.finish(r)
	cc.panicViolation("call through pipelined client", p)
}

// getClient: Future.Client() on promise i / path, AddRef'd immediately.
func (c *c11) getClient(prom, path, worker int) *c11client {
	cc := c.cc
	f := c.proms[prom].Answer().Future()
	for _, fld := range c11Paths[path].fields {
		f = f.Field(fld, nil)
	}
	var own *capnp.Client
	atomic.AddInt64(&cc.pending, 1)
	p := common.Guard(func() {
		b := f.Client()
		own = b.AddRef()
	})
	atomic.AddInt64(&cc.pending, -1)
	atomic.AddInt64(&cc.progress, 1)
	cc.panicViolation("Future.Client", p)
	if p != nil {
		return nil
	}
	cl := &c11client{c: own, prom: prom, path: path, worker: worker}
	return cl
}

func (c *c11) resolveRoot(reject bool) *common.Panic {
	cc := c.cc
	atomic.AddInt64(&cc.pending, 1)
	p := common.Guard(func() {
		if reject {
			c.proms[0].Reject(errors.New("rejected by script"))
		} else {
			c.proms[0].Fulfill(c.res.ToPtr())
		}
	})
	atomic.AddInt64(&cc.pending, -1)
	atomic.AddInt64(&cc.progress, 1)
	return p
}

func (c *c11) doJoin(i, j int) *common.Panic {
	cc := c.cc
	atomic.AddInt64(&cc.pending, 1)
	p := common.Guard(func() {
		switch j {
		case joinErrAns:
			c.proms[i].Join(capnp.ErrorAnswer(capnp.Method{}, errors.New("joined error answer")))
		case joinImmAns:
			c.proms[i].Join(capnp.ImmediateAnswer(capnp.Method{}, c.res))
		case joinRejected:
			c.proms[i].Reject(errors.New("rejected by epilogue"))
		default:
			c.proms[i].Join(c.proms[j].Answer())
		}
	})
	atomic.AddInt64(&cc.pending, -1)
	atomic.AddInt64(&cc.progress, 1)
	return p
}

func (c *c11) startWaiter(prom int) {
	w := &c11waiter{prom: prom}
	w.op = c.cc.goOp(fmt.Sprintf("Struct() waiter on P%d", prom), func() {
		w.st, w.err = c.proms[prom].Answer().Struct()
	})
	c.mu.Lock()
	c.waiters = append(c.waiters, w)
	c.mu.Unlock()
}

// observed target of a finished call
func (c *c11) observed(evs []event, uid uint64) (c11target, []event) {
	ds := deliveriesOf(evs, uid)
	if len(ds) == 0 {
		return c11target{'e', 0}, ds
	}
	d := ds[0]
	if strings.HasPrefix(d.K, "dlv-p") {
		return c11target{'p', d.O}, ds
	}
	return c11target{'h', d.O}, ds
}

// checkWaiters joins the waiters whose chain is resolved in st.
func (c *c11) checkWaiters(st pstate) bool {
	c.mu.Lock()
	ws := append([]*c11waiter(nil), c.waiters...)
	c.mu.Unlock()
	var rest []*c11waiter
	for _, w := range ws {
		if !c.chainResolved(st, w.prom) {
			rest = append(rest, w)
			continue
		}
		if !c.cc.join(w.op) {
			return false
		}
		c.count("waiter_released", 1)
		want := c.expect(st, w.prom, 1) // any cap path: only used to classify fulfilled vs rejected
		_ = want
		fulfilled := c.isFulfilled(st, w.prom)
		if fulfilled {
			if w.err != nil || w.st.Uint64(0) != 0xfeedface {
				c.cc.violate("C11/waiter-wrong-result", "Struct() waiter released with something else than the fulfilled result", fmt.Sprintf("P%d err=%v", w.prom, w.err))
			}
		} else if w.err == nil {
			c.cc.violate("C11/waiter-wrong-result", "Struct() waiter of a rejected promise released without error", fmt.Sprintf("P%d", w.prom))
		}
	}
	c.mu.Lock()
	c.waiters = rest
	c.mu.Unlock()
	return true
}

func (c *c11) isFulfilled(st pstate, i int) bool {
	leaf := i
	for n := 0; n < 8 && st.Join[leaf] >= 0; n++ {
		leaf = int(st.Join[leaf])
	}
	return st.Join[leaf] == joinImmAns || (leaf == 0 && st.Res == resFulfilled && st.Join[0] == joinNone)
}

// ---- sequential mode ---------------------------------------------------------

func (c *c11) logOp(f string, a ...interface{}) { c.script = append(c.script, fmt.Sprintf(f, a...)) }

// openAllPCs opens every pipeline-caller gate and joins the blocked calls.
func (c *c11) openAllPCs() bool {
	for _, pc := range c.pcs {
		pc.gate.open()
	}
	for _, h := range c.caps {
		h.gate.open()
	}
	fl := c.flying
	c.flying = nil
	for _, a := range fl {
		if !c.cc.join(a.op) {
			return false
		}
	}
	return true
}

// blockedIn: is a pipelined call currently blocked inside pipeline caller k?
func (c *c11) blockedIn(k int) bool {
	for _, f := range c.flying {
		if f.t.Kind == 'p' && f.t.ID == k && !f.op.isDone() {
			return true
		}
	}
	return false
}

// seqBlocking runs Fulfill / Reject / Join.  mustWait: the model knows of a
// call that is blocked inside the promise's own pipeline caller, so the
// operation must not return before the script opens the gates ("Fulfill will
// wait for any outstanding calls to the underlying PipelineCaller to yield
// Answers").
func (c *c11) seqBlocking(name string, mustWait bool, f func() *common.Panic) bool {
	var pan *common.Panic
	op := c.cc.goOp(name, func() { pan = f() })
	n := 20
	if mustWait {
		n = 3000
	}
	for i := 0; i < n && !op.isDone(); i++ {
		runtime.Gosched()
	}
	if mustWait && op.isDone() && pan == nil {
		c.cc.violate("C11/resolve-did-not-wait", "Fulfill/Reject/Join returned while a call to the promise's PipelineCaller had not yielded an answer yet", name)
	}
	if mustWait {
		c.count("resolve_had_to_wait", 1)
	}
	if !c.openAllPCs() {
		return false
	}
	if !c.cc.join(op) {
		return false
	}
	c.cc.panicViolation(name, pan)
	return true
}

func (c *c11) seqCheckCall(r *c11rec, want c11target) {
	evs := c.cc.log.snapshot()
	got, ds := c.observed(evs, r.uid)
	if len(ds) > 1 {
		c.cc.violate("C11/call-delivered-twice", "one pipelined call delivered more than once", fmt.Sprintf("uid=%d %v", r.uid, ds))
		return
	}
	if got != want {
		sig := "C11/call-misdelivered"
		if got.Kind == 'e' {
			sig = "C11/call-lost"
		}
		c.cc.violate(sig, "pipelined call not delivered where the sequential model says", fmt.Sprintf("uid=%d P%d path=%s got=%v want=%v", r.uid, r.prom, c11Paths[r.path], got, want))
		return
	}
	if got.Kind == 'p' && ds[0].X != c11Paths[r.path].String() {
		c.cc.violate("C11/transform-mangled", "pipeline caller received a different transform", fmt.Sprintf("uid=%d got=%q want=%q", r.uid, ds[0].X, c11Paths[r.path]))
	}
	c.count("call_to_"+string(got.Kind), 1)
}

func (c *c11) seqCall(prom, path, client int, recv bool) bool {
	cc := c.cc
	var cl *c11client
	if client >= 0 {
		cl = c.clients[client]
		prom, path = cl.prom, cl.path
	}
	want := c.expect(c.st, prom, path)
	r := c.newRec(c11op{}, true, prom, path)
	r.client = client
	run := func() {
		if cl != nil {
			c.ccall(r, cl, recv)
		} else {
			c.pcall(r, recv)
		}
	}
	blocking := (want.Kind == 'p' && c.pcs[want.ID].gate.isArmed()) || (want.Kind == 'h' && c.caps[want.ID-capHookBase].gate.isArmed())
	if cl != nil {
		c.logOp("ccall c%d(P%d,%s) uid=%d recv=%v", client, prom, c11Paths[path], r.uid, recv)
		c.count("op_ccall", 1)
	} else {
		c.logOp("pcall P%d %s uid=%d recv=%v", prom, c11Paths[path], r.uid, recv)
		c.count("op_pcall", 1)
	}
	if !blocking {
		if !cc.run("pipelined call", run) {
			return false
		}
		c.seqCheckCall(r, want)
		return true
	}
	c.count("call_blocking", 1)
	op := cc.goOp(fmt.Sprintf("blocked call uid=%d", r.uid), run)
	ok := cc.await(fmt.Sprintf("delivery of call uid=%d", r.uid), func() bool {
		return op.isDone() || len(deliveriesOf(cc.log.snapshot(), r.uid)) > 0
	})
	if !ok {
		return false
	}
	c.flying = append(c.flying, c11flying{op, want})
	c.seqCheckCall(r, want)
	return true
}

func runC11(rec *common.Recorder, idx uint64, seed uint64, conc bool) bool {
	rng := common.NewRNG(seed)
	cc := newCase(rec, idx)
	c := &c11{cc: cc, conc: conc, counts: map[string]int64{}, barrCnt: map[int]int{}}
	c.setup(rng.Fork())
	alive := true
	hadViol := false
	if conc {
		setPolicy(rng.Uint64()|1, ansSites)
		alive = c.runConc(rec, idx, rng)
	} else {
		setPolicy(0, nil)
		alive = c.runSeq(rec, idx, rng)
	}
	cc.openAll()
	hadViol = cc.numViol() > 0
	mode := "c11seq_"
	if conc {
		mode = "c11conc_"
	}
	for k, v := range c.counts {
		rec.Count(mode+k, v)
	}
	rec.Count(mode+"scripts", 1)
	if cc.stallRecovered > 0 {
		rec.Count(mode+"stall_recovered", int64(cc.stallRecovered))
	}
	evs := cc.log.snapshot()
	if conc {
		rec.Distinct(orderHash(evs))
		if rec.WantSample() {
			rec.Sample(map[string]interface{}{"mode": "c11conc", "index": idx, "scripts": c.scripts, "caps_at": c.posCap})
		}
		cc.flush(map[string]interface{}{"scripts": c.scripts, "caps_at": c.posCap, "history": c.historyDesc(), "events": tail(evs, 300)})
	} else {
		if len(c.script) >= 4 {
			rec.Distinct(common.HashString(strings.Join(c.script, "\n")))
		}
		if rec.WantSample() && len(c.script) > 8 {
			rec.Sample(map[string]interface{}{"mode": "c11seq", "index": idx, "script": c.script, "caps_at": c.posCap})
		}
		cc.flush(map[string]interface{}{"script": c.script, "caps_at": c.posCap, "events": tail(evs, 200)})
	}
	return alive && !cc.dead && !hadViol
}

func (c *c11) runSeq(rec *common.Recorder, idx uint64, rng *common.RNG) bool {
	cc := c.cc
	nops := rng.Range(6, 40)
	rec.Case(idx, fmt.Sprintf("c11seq promises=%d caps=%d ops=%d", c.nprom, len(c.caps), nops))
	released := make([]bool, c.nprom)

	step := func() bool {
		r := rng.Intn(100)
		switch {
		case r < 30:
			return c.seqCall(rng.Intn(c.nprom), rng.Intn(len(c11Paths)), -1, rng.Chance(1, 3))
		case r < 45: // Future.Client (repeat paths on purpose)
			prom := rng.Intn(c.nprom)
			path := rng.Intn(len(c11Paths))
			if len(c.clients) > 0 && rng.Chance(1, 2) {
				o := c.clients[rng.Intn(len(c.clients))]
				prom, path = o.prom, o.path
				c.count("client_repeat_path", 1)
			}
			if released[prom] && !c.chainResolved(c.st, prom) {
				return true
			}
			if len(c.clients) >= 8 {
				return true
			}
			c.logOp("client P%d %s -> c%d", prom, c11Paths[path], len(c.clients))
			c.count("op_client", 1)
			op := cc.goOp("Future.Client", func() {
				if cl := c.getClient(prom, path, 0); cl != nil {
					c.clients = append(c.clients, cl)
				}
			})
			if !cc.join(op) {
				return false
			}
			if !c.chainResolved(c.st, prom) {
				c.count("client_unresolved", 1)
			}
		case r < 60:
			if len(c.clients) == 0 {
				return true
			}
			return c.seqCall(0, 0, rng.Intn(len(c.clients)), rng.Chance(1, 3))
		case r < 66: // arm
			i := rng.Intn(c.nprom)
			c.pcs[i].gate.arm()
			c.logOp("arm pc%d", i)
		case r < 70:
			if len(c.caps) > 0 {
				k := rng.Intn(len(c.caps))
				c.caps[k].gate.arm()
				c.logOp("arm cap%d", k)
			}
		case r < 76:
			c.logOp("open all")
			return c.openAllPCs()
		case r < 82: // Struct waiter
			i := rng.Intn(c.nprom)
			c.logOp("struct-waiter P%d", i)
			c.count("op_waiter", 1)
			c.startWaiter(i)
			return c.checkWaiters(c.st)
		case r < 90: // Join
			var cand []int
			for i := 1; i < c.nprom; i++ {
				if c.st.Join[i] == joinNone {
					cand = append(cand, i)
				}
			}
			if len(cand) == 0 {
				return true
			}
			i := cand[rng.Intn(len(cand))]
			j := rng.Intn(i)
			if rng.Chance(1, 8) {
				j = joinErrAns
			} else if rng.Chance(1, 8) {
				j = joinImmAns
			}
			c.logOp("join P%d -> %d", i, j)
			c.count("op_join", 1)
			if j >= 0 && c.chainResolved(c.st, j) {
				c.count("join_to_resolved", 1)
			}
			if !c.seqBlocking(fmt.Sprintf("Join P%d->%d", i, j), c.blockedIn(i), func() *common.Panic { return c.doJoin(i, j) }) {
				return false
			}
			c.st.Join[i] = int8(j)
			return c.checkWaiters(c.st)
		case r < 96: // Fulfill / Reject
			if c.st.Res != 0 {
				return true
			}
			reject := rng.Chance(1, 4)
			c.logOp("resolve reject=%v", reject)
			c.count("op_resolve", 1)
			if !c.seqBlocking("Fulfill/Reject", c.blockedIn(0), func() *common.Panic { return c.resolveRoot(reject) }) {
				return false
			}
			if reject {
				c.st.Res = resRejected
			} else {
				c.st.Res = resFulfilled
			}
			return c.checkWaiters(c.st)
		default: // ReleaseClients on a resolved promise
			i := rng.Intn(c.nprom)
			if !c.chainResolved(c.st, i) {
				return true
			}
			c.logOp("releaseclients P%d", i)
			c.count("op_releaseclients", 1)
			released[i] = true
			op := cc.goOp("ReleaseClients", func() { c.proms[i].ReleaseClients() })
			if !cc.join(op) {
				return false
			}
		}
		return true
	}
	ok := true
	for i := 0; i < nops && ok && cc.numViol() == 0; i++ {
		ok = step()
		if ok {
			c.checkNoEarlyShutdown()
		}
	}
	if ok && cc.numViol() == 0 {
		ok = c.epilogue(rng)
	}
	return ok
}

func (c *c11) checkNoEarlyShutdown() {
	for _, h := range c.caps {
		if h.shutdowns() > 0 {
			c.cc.violate("C11/result-cap-shutdown-early", "a result capability was shut down while the result message still holds a reference", fmt.Sprintf("hook=%d", h.id))
		}
	}
}

// epilogue (both modes, sequential): join / resolve everything, check the
// waiters, call once more through every handed-out client, ReleaseClients
// (twice, partly concurrently), then the reference accounting of the result
// capabilities.
func (c *c11) epilogue(rng *common.RNG) bool {
	cc := c.cc
	rec := func(in c11op) *c11rec {
		r := c.newRec(in, false, 0, 0)
		return r
	}
	if !c.openAllPCs() {
		return false
	}
	for i := c.nprom - 1; i >= 1; i-- {
		if c.st.Join[i] != joinNone {
			continue
		}
		j := rng.Intn(i)
		if rng.Chance(1, 5) {
			j = joinRejected
		}
		c.logOp("epilogue join P%d -> %d", i, j)
		r := rec(c11op{K: "join", P: i, J: j})
		op := cc.goOp("epilogue Join", func() { cc.panicViolation("Join", c.doJoin(i, j)) })
		if !cc.join(op) {
			return false
		}
		c.finish(r)
		c.st.Join[i] = int8(j)
		if cc.numViol() > 0 {
			return true
		}
	}
	if c.st.Res == 0 {
		reject := rng.Chance(1, 4)
		c.logOp("epilogue resolve reject=%v", reject)
		r := rec(c11op{K: "resolve", Reject: reject})
		op := cc.goOp("epilogue Fulfill/Reject", func() { cc.panicViolation("Fulfill/Reject", c.resolveRoot(reject)) })
		if !cc.join(op) {
			return false
		}
		c.finish(r)
		if reject {
			c.st.Res = resRejected
		} else {
			c.st.Res = resFulfilled
		}
	}
	if cc.numViol() > 0 {
		return true
	}
	if !c.checkWaiters(c.st) {
		return false
	}
	// pipelined clients handed out earlier must now reach the resolved capability
	for ci, cl := range c.clients {
		if cl.c != nil {
			ctx, cancel := context.WithCancel(context.Background())
			cancel()
			var rerr error
			if !cc.run("Client.Resolve", func() { rerr = cl.c.Resolve(ctx) }) {
				return false
			}
			if rerr != nil {
				cc.violate("C11/client-not-resolved/still-promise", "a pipelined client handed out earlier is still an unresolved promise after the answer resolved", fmt.Sprintf("client(P%d,%s) Resolve: %v", cl.prom, c11Paths[cl.path], rerr))
			}
		}
		want := c.expect(c.st, cl.prom, cl.path)
		r := c.newRec(c11op{K: "ccall", J: ci}, true, cl.prom, cl.path)
		r.client = ci
		op := cc.goOp("post-resolution call through pipelined client", func() { c.ccall(r, cl, false) })
		if !cc.join(op) {
			return false
		}
		got, _ := c.observed(cc.log.snapshot(), r.uid)
		if got != want {
			cc.violate("C11/client-not-resolved", "a pipelined client handed out earlier does not reach the resolved capability after resolution",
				fmt.Sprintf("client(P%d,%s) got=%v want=%v", cl.prom, c11Paths[cl.path], got, want))
		} else {
			c.count("post_resolution_client_call_ok", 1)
			if want.Kind == 'h' {
				c.count("post_resolution_client_call_to_cap", 1)
			}
		}
	}
	c.checkNoEarlyShutdown()
	// ReleaseClients: every promise at least once, some twice, two goroutines
	var ops []*asyncOp
	order := rng.Intn(2)
	for n := 0; n < c.nprom; n++ {
		i := n
		if order == 1 {
			i = c.nprom - 1 - n
		}
		times := 1 + rng.Intn(2)
		for t := 0; t < times; t++ {
			c.count("releaseclients", 1)
			ops = append(ops, cc.goOp(fmt.Sprintf("ReleaseClients P%d", i), func() { c.proms[i].ReleaseClients() }))
		}
	}
	for _, op := range ops {
		if !cc.join(op) {
			return false
		}
	}
	c.checkNoEarlyShutdown()
	// calls through owned clients still work after ReleaseClients
	for ci, cl := range c.clients {
		if ci%2 == 1 {
			continue
		}
		want := c.expect(c.st, cl.prom, cl.path)
		r := c.newRec(c11op{K: "ccall", J: ci}, true, cl.prom, cl.path)
		r.client = ci
		op := cc.goOp("call through owned client after ReleaseClients", func() { c.ccall(r, cl, true) })
		if !cc.join(op) {
			return false
		}
		if got, _ := c.observed(cc.log.snapshot(), r.uid); got != want {
			cc.violate("C11/client-broken-after-releaseclients", "an AddRef'd pipelined client stopped working after ReleaseClients", fmt.Sprintf("got=%v want=%v", got, want))
		}
	}
	for _, cl := range c.clients {
		op := cc.goOp("Release owned client", func() { cl.c.Release() })
		if !cc.join(op) {
			return false
		}
	}
	c.checkNoEarlyShutdown()
	if cc.numViol() > 0 {
		return true
	}
	op := cc.goOp("result message Reset", func() { c.resMsg.Reset(nil) })
	if !cc.join(op) {
		return false
	}
	for _, h := range c.caps {
		switch n := h.shutdowns(); {
		case n == 0:
			cc.violate("C11/proxy-not-released", "a result capability was never shut down: references transferred from pipelined clients were not released by ReleaseClients", fmt.Sprintf("hook=%d", h.id))
		case n == 1:
			c.count("result_caps_shutdown_once", 1)
		}
	}
	return true
}

// ---- concurrent mode -----------------------------------------------------------

func (c *c11) planConc(rng *common.RNG) {
	nw := rng.Range(2, 6)
	c.scripts = make([][]c11op, nw)
	lens := make([]int, nw)
	total := 0
	for w := range lens {
		lens[w] = rng.Range(3, 8)
		total += lens[w]
	}
	// designated state-changing ops
	type special struct {
		w, at int
		op    c11op
	}
	var specials []special
	if rng.Chance(5, 6) {
		specials = append(specials, special{w: rng.Intn(nw), op: c11op{K: "resolve", Reject: rng.Chance(1, 4)}})
	}
	for i := 1; i < c.nprom; i++ {
		if rng.Chance(3, 4) {
			j := rng.Intn(i)
			if rng.Chance(1, 10) {
				j = joinErrAns
			} else if rng.Chance(1, 10) {
				j = joinImmAns
			}
			specials = append(specials, special{w: rng.Intn(nw), op: c11op{K: "join", P: i, J: j}})
		}
	}
	taken := map[[2]int]bool{}
	for i := range specials {
		sp := &specials[i]
		sp.at = rng.Intn(lens[sp.w])
		for taken[[2]int{sp.w, sp.at}] {
			sp.at = (sp.at + 1) % lens[sp.w]
			if len(taken) >= lens[sp.w] {
				break
			}
		}
		taken[[2]int{sp.w, sp.at}] = true
	}
	nclients := make([]int, nw)
	gen := func(w int) c11op {
		r := rng.Intn(100)
		switch {
		case r < 35:
			return c11op{K: "pcall", P: rng.Intn(c.nprom), Path: rng.Intn(len(c11Paths)), Recv: rng.Chance(1, 3), Async: rng.Chance(1, 4)}
		case r < 55:
			nclients[w]++
			// repeat a small set of paths so that several workers ask for the same pipelined client
			return c11op{K: "client", P: rng.Intn(c.nprom), Path: rng.PickInt(1, 1, 2, 4, 6, 0, 7)}
		case r < 80:
			if nclients[w] == 0 {
				nclients[w]++
				return c11op{K: "client", P: rng.Intn(c.nprom), Path: rng.PickInt(1, 1, 2, 4, 6)}
			}
			return c11op{K: "ccall", J: rng.Intn(nclients[w]), Recv: rng.Chance(1, 3), Async: rng.Chance(1, 4)}
		case r < 86:
			return c11op{K: "waiter", P: rng.Intn(c.nprom)}
		case r < 90:
			return c11op{K: "arm", P: rng.Intn(c.nprom)}
		case r < 96:
			return c11op{K: "open", P: rng.Intn(c.nprom)}
		default:
			return c11op{K: "yield"}
		}
	}
	for w := 0; w < nw; w++ {
		for i := 0; i < lens[w]; i++ {
			var sp *special
			for k := range specials {
				if specials[k].w == w && specials[k].at == i {
					sp = &specials[k]
				}
			}
			if sp == nil {
				c.scripts[w] = append(c.scripts[w], gen(w))
				continue
			}
			if nw > 1 && rng.Chance(3, 4) {
				b := len(c.barriers)
				c.barriers = append(c.barriers, c.cc.newGate())
				c.scripts[w] = append(c.scripts[w], c11op{K: "barrier", B: b})
				partner := (w + 1 + rng.Intn(nw-1)) % nw
				// the partner does a call through a pipelined client (or a
				// pipelined call) right after the rendezvous
				pre := c11op{K: "client", P: rng.Intn(c.nprom), Path: rng.PickInt(1, 2, 4, 6)}
				racer := c11op{K: "ccall", J: nclients[partner], Recv: rng.Chance(1, 3)}
				nclients[partner]++
				if rng.Chance(1, 3) {
					racer = c11op{K: "pcall", P: rng.Intn(c.nprom), Path: rng.Intn(len(c11Paths))}
				}
				c.scripts[partner] = append(c.scripts[partner], pre, c11op{K: "barrier", B: b}, racer)
			}
			c.scripts[w] = append(c.scripts[w], sp.op)
		}
	}
}

func (c *c11) barrier(id int) {
	c.barrMu.Lock()
	c.barrCnt[id]++
	n := c.barrCnt[id]
	c.barrMu.Unlock()
	if n >= 2 {
		return
	}
	for i := 0; i < 2000; i++ {
		runtime.Gosched()
		c.barrMu.Lock()
		n = c.barrCnt[id]
		c.barrMu.Unlock()
		if n >= 2 {
			return
		}
	}
}

func (c *c11) worker(w int) {
	cc := c.cc
	var mine []*c11client
	for _, o := range c.scripts[w] {
		o := o
		switch o.K {
		case "pcall":
			r := c.newRec(o, true, o.P, o.Path)
			if o.Async {
				a := &asyncOp{name: "async pipelined call", done: make(chan struct{})}
				c.mu.Lock()
				c.asyncs = append(c.asyncs, a)
				c.mu.Unlock()
				go func() { c.pcall(r, o.Recv); close(a.done) }()
			} else {
				c.pcall(r, o.Recv)
			}
		case "client":
			cl := c.getClient(o.P, o.Path, w)
			if cl == nil {
				cl = &c11client{c: nil, prom: o.P, path: o.Path, worker: w}
			}
			mine = append(mine, cl)
			c.mu.Lock()
			c.clients = append(c.clients, cl)
			c.mu.Unlock()
		case "ccall":
			if o.J >= len(mine) {
				continue
			}
			cl := mine[o.J]
			r := c.newRec(o, true, cl.prom, cl.path)
			if o.Async {
				a := &asyncOp{name: "async call through pipelined client", done: make(chan struct{})}
				c.mu.Lock()
				c.asyncs = append(c.asyncs, a)
				c.mu.Unlock()
				go func() { c.ccall(r, cl, o.Recv); close(a.done) }()
			} else {
				c.ccall(r, cl, o.Recv)
			}
		case "waiter":
			c.startWaiter(o.P)
		case "resolve":
			r := c.newRec(o, false, 0, 0)
			p := c.resolveRoot(o.Reject)
			c.finish(r)
			cc.panicViolation("Fulfill/Reject", p)
		case "join":
			r := c.newRec(o, false, 0, 0)
			p := c.doJoin(o.P, o.J)
			c.finish(r)
			cc.panicViolation("Join", p)
		case "arm":
			if atomic.LoadInt32(&c.anyFinished) == 0 {
				c.pcs[o.P].gate.arm()
			}
		case "open":
			c.pcs[o.P].gate.open()
		case "barrier":
			c.barrier(o.B)
		case "yield":
			runtime.Gosched()
		}
		atomic.AddInt64(&cc.progress, 1)
	}
	atomic.StoreInt32(&c.anyFinished, 1)
	for _, pc := range c.pcs {
		pc.gate.open()
	}
}

func (c *c11) runConc(rec *common.Recorder, idx uint64, rng *common.RNG) bool {
	cc := c.cc
	c.planConc(rng.Fork())
	nw := len(c.scripts)
	rec.Case(idx, fmt.Sprintf("c11conc workers=%d promises=%d caps=%d", nw, c.nprom, len(c.caps)))
	var nfin int32
	var wg sync.WaitGroup
	for w := 0; w < nw; w++ {
		wg.Add(1)
		go func(w int) {
			defer wg.Done()
			defer atomic.AddInt32(&nfin, 1)
			c.worker(w)
		}(w)
	}
	if !cc.await("worker scripts", func() bool { return atomic.LoadInt32(&nfin) == int32(nw) }) {
		return false
	}
	wg.Wait()
	for _, pc := range c.pcs {
		pc.gate.force()
	}
	c.mu.Lock()
	as := append([]*asyncOp(nil), c.asyncs...)
	c.mu.Unlock()
	for _, a := range as {
		if !cc.await(a.name, a.isDone) {
			return false
		}
	}
	// state reached by the scripts (every state-changing op completed)
	for _, r := range c.recs {
		switch r.in.K {
		case "resolve":
			if r.in.Reject {
				c.st.Res = resRejected
			} else {
				c.st.Res = resFulfilled
			}
			c.count("op_resolve", 1)
		case "join":
			c.st.Join[r.in.P] = int8(r.in.J)
			c.count("op_join", 1)
		}
	}
	if cc.numViol() > 0 {
		return true
	}
	if !c.epilogue(rng) {
		return false
	}
	c.checkHistory()
	return true
}

// ---- porcupine -----------------------------------------------------------------

type pcInput struct {
	Kind   byte // 'c' call, 'j' join, 'r' resolve
	Prom   int
	Path   int
	J      int
	Reject bool
}

func (c *c11) model() porcupine.Model {
	return porcupine.Model{
		Init: func() interface{} { return newPState() },
		Step: func(state, input, output interface{}) (bool, interface{}) {
			st := state.(pstate)
			in := input.(pcInput)
			switch in.Kind {
			case 'c':
				return c.expect(st, in.Prom, in.Path) == output.(c11target), st
			case 'j':
				if st.Join[in.Prom] != joinNone {
					return false, st
				}
				st.Join[in.Prom] = int8(in.J)
				return true, st
			default:
				if st.Res != 0 {
					return false, st
				}
				if in.Reject {
					st.Res = resRejected
				} else {
					st.Res = resFulfilled
				}
				return true, st
			}
		},
		Equal: func(a, b interface{}) bool { return a.(pstate) == b.(pstate) },
		DescribeOperation: func(input, output interface{}) string {
			return fmt.Sprintf("%+v -> %v", input, output)
		},
	}
}

func (c *c11) historyDesc() []string {
	c.mu.Lock()
	defer c.mu.Unlock()
	evs := c.cc.log.snapshot()
	var out []string
	for _, r := range c.recs {
		if !r.done {
			out = append(out, fmt.Sprintf("[%d,-] %+v (never returned)", r.tCall, r.in))
			continue
		}
		if r.isCall {
			got, _ := c.observed(evs, r.uid)
			out = append(out, fmt.Sprintf("[%d,%d] call uid=%d P%d path=%s -> %v", r.tCall, r.tRet, r.uid, r.prom, c11Paths[r.path], got))
		} else {
			out = append(out, fmt.Sprintf("[%d,%d] %s P%d J=%d reject=%v", r.tCall, r.tRet, r.in.K, r.in.P, r.in.J, r.in.Reject))
		}
	}
	return out
}

func (c *c11) checkHistory() {
	cc := c.cc
	evs := cc.log.snapshot()
	var ops []porcupine.Operation
	ncall := 0
	raced := false
	var tRes [2]int64
	for _, r := range c.recs {
		if !r.done {
			continue
		}
		if r.in.K == "resolve" {
			tRes = [2]int64{r.tCall, r.tRet}
		}
	}
	for _, r := range c.recs {
		if !r.done {
			continue
		}
		switch {
		case r.isCall:
			got, ds := c.observed(evs, r.uid)
			if len(ds) > 1 {
				cc.violate("C11/call-delivered-twice", "one pipelined call delivered more than once", fmt.Sprintf("uid=%d %v", r.uid, ds))
				return
			}
			if got.Kind == 'p' && ds[0].X != c11Paths[r.path].String() {
				cc.violate("C11/transform-mangled", "pipeline caller received a different transform", fmt.Sprintf("uid=%d got=%q want=%q", r.uid, ds[0].X, c11Paths[r.path]))
			}
			c.count("call_to_"+string(got.Kind), 1)
			if tRes[1] != 0 && r.tCall < tRes[1] && tRes[0] < r.tRet {
				raced = true
				c.count("calls_overlapping_resolution", 1)
			}
			ncall++
			ops = append(ops, porcupine.Operation{ClientId: 0, Input: pcInput{Kind: 'c', Prom: r.prom, Path: r.path}, Call: r.tCall, Output: got, Return: r.tRet})
		case r.in.K == "join":
			ops = append(ops, porcupine.Operation{ClientId: 0, Input: pcInput{Kind: 'j', Prom: r.in.P, J: r.in.J}, Call: r.tCall, Output: nil, Return: r.tRet})
		case r.in.K == "resolve":
			ops = append(ops, porcupine.Operation{ClientId: 0, Input: pcInput{Kind: 'r', Reject: r.in.Reject}, Call: r.tCall, Output: nil, Return: r.tRet})
		}
	}
	_ = raced
	// The pipeline caller of a promise must not be used any more once the
	// Fulfill / Reject / Join that retires it has returned (Returner contract).
	retired := map[int]int64{}
	for _, r := range c.recs {
		if !r.done {
			continue
		}
		switch r.in.K {
		case "resolve":
			retired[0] = r.tRet
		case "join":
			retired[r.in.P] = r.tRet
		}
	}
	for _, e := range evs {
		if e.K == "end-psend" || e.K == "end-precv" {
			if t, ok := retired[e.O]; ok && e.T > t {
				cc.violate("C11/pipeline-call-after-resolution", "the PipelineCaller was still busy with a call after the Fulfill/Reject/Join that retires it had returned",
					fmt.Sprintf("pc=%d uid=%d event@%d retired@%d", e.O, e.U, e.T, t))
				break
			}
		}
	}
	res := porcupine.CheckOperationsTimeout(c.model(), ops, 20*time.Second)
	switch res {
	case porcupine.Ok:
		c.count("histories_linearizable", 1)
		c.count("history_ops", int64(len(ops)))
	case porcupine.Unknown:
		cc.rec.Inconclusive("porcupine timeout (C11 history)")
	default:
		// classify: a call that cannot be explained even in isolation?
		cc.violate("C11/linearizability", "history {call -> target, join, fulfill/reject} is not linearizable w.r.t. the sequential pipelining model",
			strings.Join(c.historyDesc(), "\n"))
	}
}
