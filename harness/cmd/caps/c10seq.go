// C10 sequential mode: random operation scripts over <=6 client handles,
// <=3 weak refs, <=3 promises, checked after every operation against an
// exact reference-count model (which hooks must have been shut down, where
// each call must have been delivered, what every query must return).
package main

import (
	"context"
	"fmt"
	"runtime"
	"strings"

	"capnproto.org/go/capnp/v3"
	"capnproto.org/go/capnp/v3/zverif/common"
)

// node models one clientHook (real capability or promised).
type node struct {
	id       int // instrumented hook id
	promise  bool
	resolved bool
	target   *node // valid if resolved; nil = resolved to null
	refs     int
	calls    int // blocked in-flight calls delivered to this hook
	shut     bool
}

func final(n *node) *node {
	for n != nil && n.promise && n.resolved {
		n = n.target
	}
	return n
}

type mhandle struct {
	c        *capnp.Client
	n        *node
	released bool
}

type mweak struct {
	w *capnp.WeakClient
	n *node
}

type mpromise struct {
	cp        *capnp.ClientPromise
	n         *node
	fulfilled bool
}

type inflight struct {
	uid uint64
	n   *node
	op  *asyncOp
	rt  *iret
}

type c10seq struct {
	cc       *caseCtx
	rng      *common.RNG
	hooks    []*ihook
	nodes    []*node
	handles  []*mhandle
	weaks    []*mweak
	promises []*mpromise
	flying   []*inflight
	script   []string
	nextUID  uint64
	counts   map[string]int64
}

func (s *c10seq) logOp(format string, a ...interface{}) {
	s.script = append(s.script, fmt.Sprintf(format, a...))
}

func (s *c10seq) newNode(promise bool) (*node, *ihook) {
	id := len(s.hooks)
	h := s.cc.newHook(id)
	s.hooks = append(s.hooks, h)
	n := &node{id: id, promise: promise, refs: 1}
	s.nodes = append(s.nodes, n)
	return n, h
}

func (s *c10seq) live() []int {
	var out []int
	for i, h := range s.handles {
		if !h.released {
			out = append(out, i)
		}
	}
	return out
}

// checkShutdowns compares the set of hooks shut down so far with the model.
func (s *c10seq) checkShutdowns(after string) {
	for i, h := range s.hooks {
		got := h.shutdowns()
		want := 0
		if s.nodes[i].shut {
			want = 1
		}
		if got == want {
			continue
		}
		switch {
		case got > 1:
			// reported by the hook itself
		case got == 1 && want == 0:
			s.cc.violate("C10/shutdown-while-referenced/sequential",
				"hook shut down although the reference model still counts a strong reference or an in-flight call",
				fmt.Sprintf("hook=%d refs=%d calls=%d after op %q", i, s.nodes[i].refs, s.nodes[i].calls, after))
		case got == 0 && want == 1:
			s.cc.violate("C10/shutdown-missing/sequential",
				"hook not shut down although every strong reference was released (or its promise was fulfilled) and no call is in flight",
				fmt.Sprintf("hook=%d after op %q", i, after))
		}
	}
}

// drop models the loss of the last reference / fulfilment: the hook must be
// shut down as soon as no call is in flight.  Returns true if the library
// operation is expected to block (calls in flight).
func (s *c10seq) markShutdown(n *node) (blocks bool) {
	if n.calls > 0 {
		return true
	}
	n.shut = true
	return false
}

// openNode opens the gate of the node's hook and joins its in-flight calls.
func (s *c10seq) openNode(n *node) bool {
	s.hooks[n.id].gate.open()
	var rest []*inflight
	for _, f := range s.flying {
		if f.n != n {
			rest = append(rest, f)
			continue
		}
		if !s.cc.join(f.op) {
			return false
		}
		if f.rt != nil && !f.rt.returned() {
			s.cc.violate("C10/recv-not-returned", "RecvCall finished but the Returner was never called", fmt.Sprintf("uid=%d", f.uid))
		}
		n.calls--
	}
	s.flying = rest
	return true
}

// runBlocking runs a Release/Fulfill that the model expects to wait for
// in-flight calls on node n: start it, let it reach its wait, then release
// the calls and join everything.
func (s *c10seq) runBlocking(name string, n *node, f func()) bool {
	op := s.cc.goOp(name, f)
	for i := 0; i < 20; i++ {
		runtime.Gosched()
	}
	if !s.openNode(n) {
		return false
	}
	if !s.cc.join(op) {
		return false
	}
	n.shut = true
	return true
}

// drainRelease: Release of the last strong reference while a gated call is
// in flight on node f (the Release runs in its own goroutine and blocks on
// the call), then - once the Release has provably dropped the reference
// (IsValid() == false is set in the same critical section) - a weak upgrade,
// which must be refused: the capability has no strong reference left, it is
// only waiting for the call to drain before it shuts down.  Then the gate
// is opened and everything is joined.
func (s *c10seq) drainRelease(h *mhandle, f *node) bool {
	cc := s.cc
	var wk *capnp.WeakClient
	if !cc.run("WeakRef", func() { wk = h.c.WeakRef() }) {
		return false
	}
	op := cc.goOp("Release(last ref, call in flight)", func() { h.c.Release() })
	dropped := false
	for i := 0; i < 5000 && !op.isDone() && !dropped; i++ {
		valid := true
		if !cc.run("IsValid", func() { valid = h.c.IsValid() }) {
			return false
		}
		dropped = !valid
		if !dropped {
			runtime.Gosched()
		}
	}
	if dropped && !op.isDone() && wk != nil {
		s.counts["weak_upgrade_during_draining_call"]++
		s.logOp("weak upgrade while the last Release waits for the call")
		var c *capnp.Client
		var okk bool
		if !cc.run("WeakClient.AddRef", func() { c, okk = wk.AddRef() }) {
			return false
		}
		if c != nil || okk {
			cc.violate("C10/weak-upgrade-of-dead-hook/call-draining",
				"WeakClient.AddRef succeeded after the last strong reference had been released (the Release is only waiting for a call in progress)",
				fmt.Sprintf("hook=%d", f.id))
			return true
		}
	}
	if !s.openNode(f) {
		return false
	}
	if !cc.join(op) {
		return false
	}
	f.shut = true
	return true
}

func (s *c10seq) doCall(hi int, recv bool) bool {
	h := s.handles[hi]
	s.nextUID++
	uid := s.nextUID
	f := (*node)(nil)
	if !h.released {
		f = final(h.n)
	}
	kind := "send"
	if recv {
		kind = "recv"
	}
	s.logOp("%s h%d uid=%d", kind, hi, uid)
	s.counts["op_call_"+kind]++
	var ans *capnp.Answer
	var rt *iret
	call := func() {
		if recv {
			var r capnp.Recv
			r, rt = s.cc.recvFor(uid, 1)
			h.c.RecvCall(context.Background(), r)
		} else {
			ans, _ = h.c.SendCall(context.Background(), sendFor(uid, 1))
		}
	}
	expectBlock := f != nil && s.hooks[f.id].gate.isArmed()
	if expectBlock {
		s.counts["call_blocking"]++
		if recv {
			// rt must be visible to the joiner: create before launching.
			var r capnp.Recv
			r, rt = s.cc.recvFor(uid, 1)
			call = func() { h.c.RecvCall(context.Background(), r) }
		}
		op := s.cc.goOp(fmt.Sprintf("%sCall uid=%d", kind, uid), call)
		// wait until delivered somewhere or finished
		ok := s.cc.await(fmt.Sprintf("delivery of call uid=%d", uid), func() bool {
			return op.isDone() || len(deliveriesOf(s.cc.log.snapshot(), uid)) > 0
		})
		if !ok {
			return false
		}
		if op.isDone() {
			s.cc.panicViolation(op.name, op.pan)
			s.checkDelivery(uid, f, h, "")
			return true
		}
		f.calls++
		s.flying = append(s.flying, &inflight{uid: uid, n: f, op: op, rt: rt})
		s.checkDelivery(uid, f, h, "")
		return true
	}
	if !s.cc.run(kind+"Call", call) {
		return false
	}
	// outcome
	cls := ""
	if recv {
		if rt != nil {
			if !rt.returned() {
				s.cc.violate("C10/recv-not-returned", "RecvCall finished but the Returner was never called", fmt.Sprintf("uid=%d", uid))
			} else {
				_, err := rt.result()
				cls = errClass(err)
			}
		}
	} else if ans != nil {
		_, err := ans.Struct()
		cls = errClass(err)
	}
	s.checkDelivery(uid, f, h, cls)
	return true
}

func (s *c10seq) checkDelivery(uid uint64, want *node, h *mhandle, cls string) {
	ds := deliveriesOf(s.cc.log.snapshot(), uid)
	if len(ds) > 1 {
		s.cc.violate("C10/call-delivered-twice", "one call delivered more than once", fmt.Sprintf("uid=%d deliveries=%v", uid, ds))
		return
	}
	if want == nil {
		if len(ds) != 0 {
			s.cc.violate("C10/call-through-dead-handle-delivered", "call through a released or null client reached a hook", fmt.Sprintf("uid=%d -> hook %d", uid, ds[0].O))
		} else if cls == "" {
			s.cc.violate("C10/call-through-dead-handle-succeeded", "call through a released or null client did not yield an error answer", fmt.Sprintf("uid=%d", uid))
		} else {
			s.counts["call_dead_handle_error"]++
		}
		return
	}
	if len(ds) == 0 {
		if cls == "released" || cls == "null" {
			s.cc.violate("C10/live-call-answered-dead", "call through a live handle answered \""+cls+" client\"", fmt.Sprintf("uid=%d expected hook %d", uid, want.id))
		} else {
			s.cc.violate("C10/call-lost", "call through a live handle was not delivered to any hook", fmt.Sprintf("uid=%d expected hook %d class=%q", uid, want.id, cls))
		}
		return
	}
	if ds[0].O != want.id {
		s.cc.violate("C10/call-misdelivered", "call delivered to the wrong hook", fmt.Sprintf("uid=%d got hook %d want hook %d", uid, ds[0].O, want.id))
		return
	}
	s.counts["call_delivered"]++
	if want.promise {
		s.counts["call_delivered_to_promise_hook"]++
	}
	if h.n != want {
		s.counts["call_delivered_through_resolved_promise"]++
	}
}

func runC10Seq(rec *common.Recorder, idx uint64, seed uint64) bool {
	rng := common.NewRNG(seed)
	cc := newCase(rec, idx)
	s := &c10seq{cc: cc, rng: rng, counts: map[string]int64{}}
	setPolicy(0, nil)
	nops := rng.Range(8, 60)
	rec.Case(idx, fmt.Sprintf("c10seq ops=%d", nops))

	ok := true
	step := func() bool {
		lv := s.live()
		var all []int
		for i := range s.handles {
			all = append(all, i)
		}
		r := rng.Intn(100)
		switch {
		case r < 8: // NewClient
			if len(lv) >= 6 || len(s.hooks) >= 7 {
				return true
			}
			n, h := s.newNode(false)
			c := capnp.NewClient(h)
			s.handles = append(s.handles, &mhandle{c: c, n: n})
			s.logOp("newclient -> h%d (hook %d)", len(s.handles)-1, n.id)
			s.counts["op_newclient"]++
		case r < 14: // NewPromisedClient
			if len(lv) >= 6 || len(s.promises) >= 3 || len(s.hooks) >= 7 {
				return true
			}
			n, h := s.newNode(true)
			c, cp := capnp.NewPromisedClient(h)
			s.handles = append(s.handles, &mhandle{c: c, n: n})
			s.promises = append(s.promises, &mpromise{cp: cp, n: n})
			s.logOp("newpromised -> h%d p%d (hook %d)", len(s.handles)-1, len(s.promises)-1, n.id)
			s.counts["op_newpromised"]++
		case r < 26: // AddRef
			if len(lv) == 0 || len(lv) >= 6 {
				return true
			}
			hi := lv[rng.Intn(len(lv))]
			h := s.handles[hi]
			var c *capnp.Client
			if !cc.run("AddRef", func() { c = h.c.AddRef() }) {
				return false
			}
			var p *common.Panic
			f := final(h.n)
			s.logOp("addref h%d -> h%d", hi, len(s.handles))
			s.counts["op_addref"]++
			if f == nil {
				if c != nil {
					cc.violate("C10/addref-of-null-not-nil", "AddRef of a client resolved to null returned a non-nil client", "")
				}
			} else {
				if c == nil && p == nil {
					cc.violate("C10/addref-of-live-nil", "AddRef of a live client returned nil", fmt.Sprintf("hook=%d", f.id))
				}
				f.refs++
			}
			s.handles = append(s.handles, &mhandle{c: c, n: f})
		case r < 42: // Release
			if len(lv) == 0 {
				return true
			}
			hi := lv[rng.Intn(len(lv))]
			h := s.handles[hi]
			h.released = true
			f := final(h.n)
			s.logOp("release h%d", hi)
			s.counts["op_release"]++
			blocks := false
			if f != nil {
				f.refs--
				if f.refs == 0 {
					s.counts["release_last"]++
					blocks = s.markShutdown(f)
				}
			}
			if blocks {
				s.counts["release_blocking"]++
				if !s.drainRelease(h, f) {
					return false
				}
			} else {
				if !cc.run("Release", func() { h.c.Release() }) {
					return false
				}
			}
		case r < 47: // WeakRef
			if len(lv) == 0 || len(s.weaks) >= 3 {
				return true
			}
			hi := lv[rng.Intn(len(lv))]
			h := s.handles[hi]
			var w *capnp.WeakClient
			if !cc.run("WeakRef", func() { w = h.c.WeakRef() }) {
				return false
			}
			f := final(h.n)
			if (f == nil) != (w == nil) {
				cc.violate("C10/weakref-nil-mismatch", "WeakRef nil-ness disagrees with the model", fmt.Sprintf("model null=%v got nil=%v", f == nil, w == nil))
			}
			s.weaks = append(s.weaks, &mweak{w: w, n: f})
			s.logOp("weakref h%d -> w%d", hi, len(s.weaks)-1)
			s.counts["op_weakref"]++
		case r < 54: // WeakClient.AddRef
			if len(s.weaks) == 0 || len(lv) >= 6 {
				return true
			}
			wi := rng.Intn(len(s.weaks))
			w := s.weaks[wi]
			var c *capnp.Client
			var okk bool
			if !cc.run("WeakClient.AddRef", func() { c, okk = w.w.AddRef() }) {
				return false
			}
			f := final(w.n)
			s.logOp("weakaddref w%d -> h%d", wi, len(s.handles))
			s.counts["op_weakaddref"]++
			switch {
			case f == nil:
				if c != nil || !okk {
					cc.violate("C10/weak-upgrade-null-mismatch", "WeakClient.AddRef on a null reference must return (nil, true)", fmt.Sprintf("c=%v ok=%v", c != nil, okk))
				}
			case f.refs == 0:
				s.counts["weak_upgrade_refused"]++
				if c != nil || okk {
					cc.violate("C10/weak-upgrade-of-dead-hook", "WeakClient.AddRef succeeded on a capability without strong references (already shut down)", fmt.Sprintf("hook=%d", f.id))
					// keep the model going: treat as reference
					if c != nil {
						f.refs++
						s.handles = append(s.handles, &mhandle{c: c, n: f})
					}
				}
			default:
				s.counts["weak_upgrade_ok"]++
				if c == nil || !okk {
					cc.violate("C10/weak-upgrade-refused-while-live", "WeakClient.AddRef refused although strong references exist", fmt.Sprintf("hook=%d refs=%d", f.id, f.refs))
				} else {
					f.refs++
					s.handles = append(s.handles, &mhandle{c: c, n: f})
				}
			}
		case r < 58: // set up "last Release during a gated call, then weak upgrade"
			var cand []int
			for _, i := range lv {
				if f := final(s.handles[i].n); f != nil && f.refs == 1 && !s.hooks[f.id].gate.isArmed() {
					cand = append(cand, i)
				}
			}
			if len(cand) == 0 || len(s.flying) >= 4 {
				return true
			}
			hi := cand[rng.Intn(len(cand))]
			h := s.handles[hi]
			f := final(h.n)
			s.hooks[f.id].gate.arm()
			s.logOp("arm hook %d", f.id)
			if !s.doCall(hi, rng.Chance(1, 3)) {
				return false
			}
			if cc.numViol() > 0 || f.calls == 0 {
				return true
			}
			h.released = true
			s.logOp("release h%d (last ref, call in flight)", hi)
			s.counts["op_release"]++
			s.counts["release_last"]++
			s.counts["release_blocking"]++
			f.refs--
			return s.drainRelease(h, f)
		case r < 70: // call
			if len(all) == 0 {
				return true
			}
			hi := all[rng.Intn(len(all))]
			if len(lv) > 0 && rng.Chance(3, 4) {
				hi = lv[rng.Intn(len(lv))]
			}
			if len(s.flying) >= 4 {
				return true
			}
			return s.doCall(hi, rng.Chance(1, 3))
		case r < 75: // arm a hook
			if len(s.hooks) == 0 {
				return true
			}
			i := rng.Intn(len(s.hooks))
			if s.nodes[i].shut {
				return true
			}
			s.hooks[i].gate.arm()
			s.logOp("arm hook %d", i)
			s.counts["op_arm"]++
		case r < 80: // open a hook
			if len(s.hooks) == 0 {
				return true
			}
			i := rng.Intn(len(s.hooks))
			s.logOp("open hook %d", i)
			s.counts["op_open"]++
			if !s.openNode(s.nodes[i]) {
				return false
			}
		case r < 88: // Fulfill
			var cand []int
			for i, p := range s.promises {
				if !p.fulfilled {
					cand = append(cand, i)
				}
			}
			if len(cand) == 0 {
				return true
			}
			pi := cand[rng.Intn(len(cand))]
			p := s.promises[pi]
			var tc *capnp.Client
			var tn *node
			tdesc := "nil"
			if len(lv) > 0 && rng.Chance(4, 5) {
				hi := lv[rng.Intn(len(lv))]
				t := s.handles[hi]
				if final(t.n) == p.n { // would create a cycle
					return true
				}
				tc, tn = t.c, t.n
				tdesc = fmt.Sprintf("h%d", hi)
			}
			p.fulfilled = true
			s.logOp("fulfill p%d -> %s", pi, tdesc)
			s.counts["op_fulfill"]++
			if tn != nil && tn.promise && !tn.resolved {
				s.counts["fulfill_to_promise"]++
			}
			if tc == nil {
				s.counts["fulfill_nil"]++
			}
			moved := p.n.refs
			p.n.resolved = true
			p.n.target = tn
			p.n.refs = 0
			if f := final(p.n); f != nil {
				f.refs += moved
			}
			blocks := false
			if moved > 0 {
				s.counts["fulfill_with_refs"]++
				blocks = s.markShutdown(p.n)
			}
			if blocks {
				s.counts["fulfill_blocking"]++
				if !s.runBlocking("Fulfill(call in flight on promise hook)", p.n, func() { p.cp.Fulfill(tc) }) {
					return false
				}
			} else {
				if !cc.run("Fulfill", func() { p.cp.Fulfill(tc) }) {
					return false
				}
			}
		case r < 91: // Resolve with a cancelled context
			if len(all) == 0 {
				return true
			}
			hi := all[rng.Intn(len(all))]
			h := s.handles[hi]
			ctx, cancel := context.WithCancel(context.Background())
			cancel()
			var err error
			if !cc.run("Resolve", func() { err = h.c.Resolve(ctx) }) {
				return false
			}
			s.logOp("resolve h%d", hi)
			s.counts["op_resolve"]++
			f := final(h.n)
			switch {
			case h.released && h.c != nil && h.n != nil:
				// released: error (unless c.h was nil = resolved to null before release: nothing to assert)
				if f != nil && err == nil {
					cc.violate("C10/resolve-released-no-error", "Resolve on a released client returned nil", "")
				}
			case f != nil && f.promise:
				if err != context.Canceled {
					cc.violate("C10/resolve-unresolved-returned", "Resolve returned without the promise being fulfilled and without the context error", fmt.Sprintf("err=%v", err))
				}
			default:
				if err != nil {
					cc.violate("C10/resolve-resolved-error", "Resolve on a fully resolved client returned an error", fmt.Sprintf("err=%v", err))
				}
			}
		case r < 94: // IsSame
			if len(lv) < 1 {
				return true
			}
			a := s.handles[lv[rng.Intn(len(lv))]]
			b := s.handles[lv[rng.Intn(len(lv))]]
			var same bool
			if !cc.run("IsSame", func() { same = a.c.IsSame(b.c) }) {
				return false
			}
			s.counts["op_issame"]++
			want := final(a.n) == final(b.n)
			if same != want {
				cc.violate("C10/issame-mismatch", "IsSame disagrees with the model on maximally resolved clients", fmt.Sprintf("got=%v want=%v", same, want))
			}
		case r < 98: // State / IsValid
			if len(all) == 0 {
				return true
			}
			hi := all[rng.Intn(len(all))]
			h := s.handles[hi]
			var st capnp.ClientState
			var valid bool
			if !cc.run("State", func() { st = h.c.State(); valid = h.c.IsValid() }) {
				return false
			}
			s.counts["op_state"]++
			f := final(h.n)
			if h.released {
				f = nil
			}
			if f == nil {
				if st.Brand.Value != nil || st.IsPromise || valid {
					cc.violate("C10/state-of-dead-handle", "State/IsValid of a released or null client is not the zero state", fmt.Sprintf("%+v valid=%v", st, valid))
				}
			} else {
				id, _ := st.Brand.Value.(int)
				if st.Brand.Value == nil || id != f.id || st.IsPromise != f.promise || !valid {
					cc.violate("C10/state-mismatch", "State of a live client disagrees with the model", fmt.Sprintf("got %+v valid=%v want hook=%d promise=%v", st, valid, f.id, f.promise))
				}
			}
		default: // String
			if len(all) == 0 {
				return true
			}
			h := s.handles[all[rng.Intn(len(all))]]
			var str string
			if !cc.run("String", func() { str = h.c.String() }) {
				return false
			}
			s.counts["op_string"]++
			if h.released && h.c != nil && !strings.Contains(str, "released") && final(h.n) != nil {
				cc.violate("C10/string-of-released", "String of a released client does not say so", str)
			}
		}
		return true
	}

	for i := 0; i < nops && ok && cc.numViol() == 0; i++ {
		ok = step()
		if ok {
			last := ""
			if len(s.script) > 0 {
				last = s.script[len(s.script)-1]
			}
			s.checkShutdowns(last)
		}
	}

	// Epilogue: release everything the script still holds, in random order,
	// interleaved with fulfilling the remaining promises; then every hook
	// must have been shut down exactly once.
	if ok && cc.numViol() == 0 {
		for _, n := range s.nodes {
			if n.calls > 0 {
				if ok = s.openNode(n); !ok {
					break
				}
			}
		}
	}
	if ok && cc.numViol() == 0 {
		type act struct {
			h *mhandle
			p *mpromise
		}
		var acts []act
		for _, h := range s.handles {
			if !h.released {
				acts = append(acts, act{h: h})
			}
		}
		for _, p := range s.promises {
			if !p.fulfilled && rng.Bool() {
				acts = append(acts, act{p: p})
			}
		}
		for i := len(acts) - 1; i > 0; i-- {
			j := rng.Intn(i + 1)
			acts[i], acts[j] = acts[j], acts[i]
		}
		for _, a := range acts {
			if a.h != nil {
				a.h.released = true
				if f := final(a.h.n); f != nil {
					f.refs--
					if f.refs == 0 {
						f.shut = true
					}
				}
				if !cc.run("Release", func() { a.h.c.Release() }) {
					ok = false
					break
				}
				s.logOp("epilogue release")
			} else {
				a.p.fulfilled = true
				moved := a.p.n.refs
				a.p.n.resolved, a.p.n.target, a.p.n.refs = true, nil, 0
				if moved > 0 {
					a.p.n.shut = true
				}
				if !cc.run("Fulfill", func() { a.p.cp.Fulfill(nil) }) {
					ok = false
					break
				}
				s.logOp("epilogue fulfill nil")
			}
			s.checkShutdowns("epilogue")
			if cc.numViol() > 0 {
				break
			}
		}
		for i, n := range s.nodes {
			if ok && cc.numViol() == 0 && !n.shut {
				cc.violate("C10/model-bug", "model left a hook alive at the end", fmt.Sprintf("hook=%d refs=%d", i, n.refs))
			}
		}
		for wi, w := range s.weaks {
			if w.w == nil || !ok || cc.numViol() > 0 {
				continue
			}
			var c *capnp.Client
			var okk bool
			if !cc.run("WeakClient.AddRef", func() { c, okk = w.w.AddRef() }) {
				ok = false
				break
			}
			if c != nil || (okk && final(w.n) != nil) {
				cc.violate("C10/weak-upgrade-of-dead-hook", "WeakClient.AddRef succeeded after every strong reference was released", fmt.Sprintf("w%d", wi))
			}
		}
	}

	for k, v := range s.counts {
		rec.Count("c10seq_"+k, v)
	}
	rec.Count("c10seq_scripts", 1)
	rec.Count("c10seq_ops", int64(len(s.script)))
	if cc.stallRecovered > 0 {
		rec.Count("c10seq_stall_recovered", int64(cc.stallRecovered))
	}
	if len(s.script) >= 4 {
		rec.Distinct(common.HashString(strings.Join(s.script, "\n")))
	}
	if rec.WantSample() && len(s.script) > 10 {
		rec.Sample(map[string]interface{}{"mode": "c10seq", "index": idx, "script": s.script})
	}
	hadViol := cc.numViol() > 0
	cc.openAll()
	cc.flush(map[string]interface{}{"script": s.script, "events": tail(cc.log.snapshot(), 200)})
	return !cc.dead && !hadViol
}

func tail(e []event, n int) []event {
	if len(e) > n {
		return e[len(e)-n:]
	}
	return e
}
