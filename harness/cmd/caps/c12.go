package main

import "capnproto.org/go/capnp/v3/zverif/common"

func runC12(rec *common.Recorder, idx uint64, seed uint64, selfpipe bool) bool { return true }
