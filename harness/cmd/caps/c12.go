// C12: local server.  A main server S (used as a raw ClientHook so that
// calls can race with and follow Shutdown), a second server T and a plain
// instrumented hook H as targets of result capabilities.  Method bodies are
// driven by a per-call behaviour (ack immediately / late / never; return
// early / when told / with an error / on cancellation).  A controller script
// issues calls through 1-5 callers (each sequential in itself), pipelined
// calls on unreturned answers (also chains, also beyond the queue size),
// cancels contexts and shuts S down at a random step.
//
// Oracles: monitor-local invariants evaluated inside the log mutex at body
// start (starting gate, concurrency cap, no start after Shutdown returned,
// user shutdown exactly once and never while a body runs), a trace checker
// for order / exactly-once / delivery target / results, and a porcupine FIFO
// check of the pipelined-queue delivery order.
package main

import (
	"context"
	"errors"
	"fmt"
	"runtime"
	"sort"
	"strings"
	"sync"
	"time"

	"capnproto.org/go/capnp/v3"
	"capnproto.org/go/capnp/v3/server"
	"capnproto.org/go/capnp/v3/zverif/common"
	"github.com/anishathalye/porcupine"
)

const (
	objS = 0
	objT = 1
	objH = 2

	ackNow   = 0
	ackLate  = 1
	ackNever = 2

	retEarly     = 0
	retGate      = 1 // block until told (ignores cancellation)
	retError     = 2
	retCancel    = 3 // block until cancelled
	retGateOrCtx = 4 // block until told or cancelled
)

type beh struct {
	Ack   int    `json:"ack"`
	Ret   int    `json:"ret"`
	CapsS [2]int `json:"capsS"` // result caps when run by S: -1 null, objT, objH (objS only in selfpipe mode)
	CapsT [2]int `json:"capsT"` // result caps when run by T: -1 null, objH
	gateA *gate
	gateR *gate
}

type c12call struct {
	UID    uint64 `json:"uid"`
	Kind   string `json:"kind"` // send | recv | psend | precv
	Srv    int    `json:"srv"`  // direct calls: objS / objT
	Parent int    `json:"parent,omitempty"`
	Path   int    `json:"path"`
	Caller int    `json:"caller"`
	B      *beh   `json:"beh"`

	parent *c12call
	ctx    context.Context
	cancel context.CancelFunc

	mu          sync.Mutex
	tCall       int64
	tRet        int64
	cancelledAt int64
	op          *asyncOp
	ans         *capnp.Answer
	rel         capnp.ReleaseFunc
	rt          *iret
	sendPanic   bool
	afterDone   bool   // the pipelined call is issued as soon as the parent's answer resolves (Done() fires)
	relArgs     func() // selfarg mode: what ReleaseArgs of a Recv-style call does

	// outcome
	resOK    bool
	resErr   string
	resUID   uint64
	resObj   uint64
	waited   bool
	safeWait bool
	pipeable bool
}

type srvMon struct {
	id    int
	max   int
	queue int
	srv   *server.Server
	// protected by log.mu
	running      int
	maxRunning   int
	unacked      map[uint64]bool
	shutCalled   int64
	shutReturned int64
	userShut     int
}

type userShutdown struct {
	c  *c12
	sm *srvMon
}

func (u userShutdown) Shutdown() {
	c := u.c
	c.cc.log.add("user-shutdown", u.sm.id, 0, "", func(t int64) {
		u.sm.userShut++
		if u.sm.userShut > 1 {
			c.cc.violate("C12/user-shutdown-twice", "the user's Shutdown ran more than once", fmt.Sprintf("server=%d", u.sm.id))
		}
		if u.sm.running > 0 {
			c.cc.violate("C12/shutdown-while-running", "the user's Shutdown ran while a method body was still running", fmt.Sprintf("server=%d running=%d", u.sm.id, u.sm.running))
		}
	})
}

type c12 struct {
	cc      *caseCtx
	rng     *common.RNG
	S, T    *srvMon
	H       *ihook
	sClient *capnp.Client // only in selfpipe mode
	tClient *capnp.Client
	hClient *capnp.Client

	mu       sync.Mutex
	behs     map[uint64]*c12call
	calls    []*c12call
	script   []string
	counts   map[string]int64
	callerOf map[int]*c12call // outstanding Send per caller
	shutOp   *asyncOp
	selfpipe bool
}

var c12Method = capnp.Method{InterfaceID: 0xc0ffee, MethodID: 0}

func (c *c12) lookup(uid uint64) *c12call {
	c.mu.Lock()
	defer c.mu.Unlock()
	return c.behs[uid]
}

func (c *c12) body(sm *srvMon) func(context.Context, *server.Call) error {
	return func(ctx context.Context, call *server.Call) error {
		cc := c.cc
		uid := call.Args().Uint64(0)
		cl := c.lookup(uid)
		cc.log.add("dlv-start", sm.id, uid, "", func(t int64) {
			for u := range sm.unacked {
				cc.violate("C12/started-before-ack", "a method body started before the previously started call had acknowledged delivery or returned",
					fmt.Sprintf("server=%d new=%d unacked=%d", sm.id, uid, u))
				break
			}
			sm.unacked[uid] = true
			sm.running++
			if sm.running > sm.maxRunning {
				sm.maxRunning = sm.running
			}
			if sm.running > sm.max {
				cc.violate("C12/cap-exceeded", "more method bodies running than MaxConcurrentCalls", fmt.Sprintf("server=%d running=%d max=%d", sm.id, sm.running, sm.max))
			}
			if sm.shutReturned != 0 {
				cc.violate("C12/start-after-shutdown", "a method body started after Server.Shutdown had returned", fmt.Sprintf("server=%d uid=%d", sm.id, uid))
			}
		})
		if cl == nil {
			cc.violate("C12/unknown-call", "a method body saw a call the harness never made", fmt.Sprintf("uid=%d", uid))
			return errors.New("unknown call")
		}
		b := cl.B
		ack := func() {
			cc.log.add("ack", sm.id, uid, "", func(int64) { delete(sm.unacked, uid) })
			call.Ack()
		}
		var err error
		switch b.Ack {
		case ackNow:
			ack()
		case ackLate:
			if err = b.gateA.passCtx(ctx); err == nil {
				ack()
			}
		}
		if err == nil {
			switch b.Ret {
			case retGate:
				b.gateR.pass()
			case retError:
				err = errors.New("body error")
			case retCancel:
				<-ctx.Done()
				err = ctx.Err()
			case retGateOrCtx:
				err = b.gateR.passCtx(ctx)
			}
		}
		if err == nil {
			res, aerr := call.AllocResults(capnp.ObjectSize{DataSize: 16, PointerCount: 2})
			if aerr != nil {
				err = aerr
			} else {
				res.SetUint64(0, uid)
				res.SetUint64(8, uint64(sm.id))
				caps := b.CapsS
				if sm.id == objT {
					caps = b.CapsT
				}
				for i, k := range caps {
					var cl *capnp.Client
					switch k {
					case objS:
						cl = c.sClient.AddRef()
					case objT:
						cl = c.tClient.AddRef()
					case objH:
						cl = c.hClient.AddRef()
					default:
						continue
					}
					id := res.Message().AddCap(cl)
					res.SetPtr(uint16(i), capnp.NewInterface(res.Segment(), id).ToPtr())
				}
			}
		}
		cc.log.add("return", sm.id, uid, errClass(err), func(int64) {
			delete(sm.unacked, uid)
			sm.running--
		})
		return err
	}
}

func (c *c12) newServer(id int, rng *common.RNG) *srvMon {
	sm := &srvMon{id: id, max: rng.Range(1, 4), queue: rng.Range(1, 8), unacked: map[uint64]bool{}}
	sm.srv = server.New([]server.Method{{Method: c12Method, Impl: c.body(sm)}}, id, userShutdown{c, sm},
		&server.Policy{MaxConcurrentCalls: sm.max, AnswerQueueSize: sm.queue})
	return sm
}

func (c *c12) logOp(f string, a ...interface{}) { c.script = append(c.script, fmt.Sprintf(f, a...)) }

func (c *c12) newBeh(rng *common.RNG, pipe bool) *beh {
	b := &beh{gateA: c.cc.newGate(), gateR: c.cc.newGate()}
	b.gateA.arm()
	b.gateR.arm()
	b.Ack = rng.PickInt(ackNow, ackNow, ackNow, ackLate, ackLate, ackNever)
	if pipe {
		b.Ret = rng.PickInt(retEarly, retEarly, retGate, retGateOrCtx, retError)
	} else {
		b.Ret = rng.PickInt(retEarly, retEarly, retGate, retGate, retGateOrCtx, retError, retCancel)
	}
	for i := range b.CapsS {
		b.CapsS[i] = rng.PickInt(-1, objT, objT, objH)
		b.CapsT[i] = rng.PickInt(-1, objH, objH)
	}
	return b
}

// ---- generator-side termination bookkeeping -----------------------------------

func (c *c12) isCancelled(cl *c12call) bool {
	cl.mu.Lock()
	defer cl.mu.Unlock()
	return cl.cancelledAt != 0
}

// finishable: the body of cl (if it runs) is guaranteed to return, given the
// gates opened and contexts cancelled so far.
func (c *c12) finishable(cl *c12call, shutS bool) bool {
	b := cl.B
	canc := c.isCancelled(cl) || (shutS && cl.Srv == objS && cl.parent == nil)
	if b.Ack == ackLate && b.gateA.isArmed() && !canc {
		return false
	}
	switch b.Ret {
	case retGate:
		return !b.gateR.isArmed()
	case retGateOrCtx:
		return !b.gateR.isArmed() || canc
	case retCancel:
		return canc
	}
	return true
}

func (c *c12) makeFinishable(cl *c12call) {
	b := cl.B
	if b.Ack == ackLate && b.gateA.isArmed() {
		b.gateA.open()
		c.logOp("openA %d", cl.UID)
	}
	switch b.Ret {
	case retGate, retGateOrCtx:
		if b.gateR.isArmed() {
			b.gateR.open()
			c.logOp("openR %d", cl.UID)
		}
	case retCancel:
		c.doCancel(cl)
	}
}

func (c *c12) ackable(cl *c12call, shutS bool) bool {
	b := cl.B
	if b.Ack == ackNow {
		return true
	}
	if b.Ack == ackLate && !b.gateA.isArmed() {
		return true
	}
	return c.finishable(cl, shutS)
}

func (c *c12) makeAckable(cl *c12call) {
	b := cl.B
	if b.Ack == ackLate {
		if b.gateA.isArmed() {
			b.gateA.open()
			c.logOp("openA %d", cl.UID)
		}
		return
	}
	c.makeFinishable(cl)
}

func (c *c12) doCancel(cl *c12call) {
	cl.mu.Lock()
	if cl.cancelledAt == 0 {
		cl.cancelledAt = c.cc.log.tick()
	}
	cl.mu.Unlock()
	cl.cancel()
	c.logOp("cancel %d", cl.UID)
	c.counts["op_cancel"]++
}

// ensureProgress makes sure that every call issued so far can get through
// the starting gate and that fewer than Max bodies can stay running for
// ever on each server - a sufficient condition for any pending Send /
// PipelineSend to return in a correct implementation.
func (c *c12) ensureProgress() {
	shutS := c.shutOp != nil
	for _, sm := range []*srvMon{c.S, c.T} {
		var stuck []*c12call
		for _, cl := range c.calls {
			onThis := (cl.parent == nil && cl.Srv == sm.id) || (cl.parent != nil && (sm.id == objT || c.selfpipe))
			if !onThis {
				continue
			}
			if !c.ackable(cl, shutS) {
				c.makeAckable(cl)
			}
			if !c.finishable(cl, shutS) {
				stuck = append(stuck, cl)
			}
		}
		for len(stuck) >= sm.max {
			c.makeFinishable(stuck[0])
			stuck = stuck[1:]
		}
	}
}

// ---- issuing calls --------------------------------------------------------------

func (c *c12) register(cl *c12call) {
	cl.ctx, cl.cancel = context.WithCancel(context.Background())
	c.mu.Lock()
	cl.UID = uint64(len(c.calls) + 1)
	c.behs[cl.UID] = cl
	c.calls = append(c.calls, cl)
	c.mu.Unlock()
}

func (c *c12) issueDirect(cl *c12call) {
	cc := c.cc
	c.register(cl)
	c.logOp("call uid=%d caller=%d srv=%d kind=%s ack=%d ret=%d capsS=%v", cl.UID, cl.Caller, cl.Srv, cl.Kind, cl.B.Ack, cl.B.Ret, cl.B.CapsS)
	c.counts["op_call_"+cl.Kind]++
	var hook capnp.ClientHook
	var client *capnp.Client
	switch {
	case cl.Srv == objS && c.sClient != nil:
		client = c.sClient
	case cl.Srv == objS:
		hook = c.S.srv
	default:
		client = c.tClient
	}
	var rv capnp.Recv
	if cl.Kind == "recv" {
		rv, cl.rt = cc.recvFor(cl.UID, 0)
		if cl.relArgs != nil {
			rv.ReleaseArgs = cl.relArgs
		}
	}
	cl.tCall = cc.log.tick()
	cl.op = cc.goOp(fmt.Sprintf("%s uid=%d", cl.Kind, cl.UID), func() {
		defer func() {
			t := cc.log.tick()
			cl.mu.Lock()
			cl.tRet = t
			cl.mu.Unlock()
		}()
		if cl.Kind == "recv" {
			if client != nil {
				client.RecvCall(cl.ctx, rv)
			} else {
				hook.Recv(cl.ctx, rv)
			}
			return
		}
		var ans *capnp.Answer
		var rel capnp.ReleaseFunc
		if client != nil {
			ans, rel = client.SendCall(cl.ctx, sendFor(cl.UID, 0))
		} else {
			ans, rel = hook.Send(cl.ctx, sendFor(cl.UID, 0))
		}
		cl.mu.Lock()
		cl.ans, cl.rel = ans, rel
		cl.mu.Unlock()
	})
}

func pathXform(p int) []capnp.PipelineOp { return []capnp.PipelineOp{{Field: uint16(p)}} }

func (c *c12) issuePipe(cl *c12call) {
	cc := c.cc
	c.register(cl)
	cl.Parent = int(cl.parent.UID)
	c.logOp("pipe uid=%d on=%d path=%d kind=%s ack=%d ret=%d capsT=%v", cl.UID, cl.parent.UID, cl.Path, cl.Kind, cl.B.Ack, cl.B.Ret, cl.B.CapsT)
	c.counts["op_"+cl.Kind]++
	cl.parent.mu.Lock()
	pans := cl.parent.ans
	cl.parent.mu.Unlock()
	var rv capnp.Recv
	if cl.Kind == "precv" {
		rv, cl.rt = cc.recvFor(cl.UID, 0)
	}
	cl.tCall = cc.log.tick()
	cl.op = cc.goOp(fmt.Sprintf("%s uid=%d", cl.Kind, cl.UID), func() {
		defer func() {
			t := cc.log.tick()
			cl.mu.Lock()
			cl.tRet = t
			cl.mu.Unlock()
		}()
		if cl.afterDone {
			<-pans.Done()
			t := cc.log.tick()
			cl.mu.Lock()
			cl.tCall = t // issued now, after every call the caller made on this answer before
			cl.mu.Unlock()
		}
		if cl.Kind == "precv" {
			pans.PipelineRecv(cl.ctx, pathXform(cl.Path), rv)
			return
		}
		ans, rel := pans.PipelineSend(cl.ctx, pathXform(cl.Path), sendFor(cl.UID, 0))
		cl.mu.Lock()
		cl.ans, cl.rel = ans, rel
		cl.mu.Unlock()
	})
}

// waitSend waits for the Send / PipelineSend of cl to return.
func (c *c12) waitSend(cl *c12call) bool {
	if cl.waited {
		return true
	}
	c.ensureProgress()
	if !c.cc.await(cl.op.name, cl.op.isDone) {
		return false
	}
	cl.waited = true
	if cl.op.pan != nil {
		cl.sendPanic = true
		c.cc.panicViolation(cl.op.name, cl.op.pan)
	}
	return true
}

func (c *c12) hasAnswer(cl *c12call) bool {
	cl.mu.Lock()
	defer cl.mu.Unlock()
	return cl.ans != nil
}

// ---- the case ---------------------------------------------------------------------

func runC12(rec *common.Recorder, idx uint64, seed uint64, selfpipe bool) bool {
	return runC12Mode(rec, idx, seed, selfpipe, false)
}

func runC12Mode(rec *common.Recorder, idx uint64, seed uint64, selfpipe, selfarg bool) bool {
	return runC12Full(rec, idx, seed, selfpipe, selfarg, false)
}

func runC12Full(rec *common.Recorder, idx uint64, seed uint64, selfpipe, selfarg, chain bool) bool {
	rng := common.NewRNG(seed)
	cc := newCase(rec, idx)
	c := &c12{cc: cc, rng: rng, behs: map[uint64]*c12call{}, counts: map[string]int64{}, callerOf: map[int]*c12call{}, selfpipe: selfpipe}
	c.S = c.newServer(objS, rng)
	c.T = c.newServer(objT, rng)
	c.H = cc.newHook(objH)
	c.H.relTwice = rng.Bool()
	c.tClient = capnp.NewClient(c.T.srv)
	c.hClient = capnp.NewClient(c.H)
	// Stall handler: besides opening every gate, cancel the calls whose body
	// can only end by cancellation (they are the script's to cancel).
	cc.onStall = func() {
		c.mu.Lock()
		cs := append([]*c12call(nil), c.calls...)
		c.mu.Unlock()
		for _, cl := range cs {
			if cl.B.Ret == retCancel {
				cl.cancel()
			}
		}
	}
	setPolicy(rng.Uint64()|1, srvSites)
	ok := true
	if chain {
		ok = c.runChainOrder(rec, idx)
	} else if selfarg {
		ok = c.runSelfArg(rec, idx)
	} else if selfpipe {
		ok = c.runSelfPipe(rec, idx)
	} else {
		ok = c.runScript(rec, idx)
	}
	cc.openAll()
	hadViol := cc.numViol() > 0
	pre := "c12_"
	if selfpipe {
		pre = "c12self_"
	}
	if selfarg {
		pre = "c12arg_"
	}
	if chain {
		pre = "c12chain_"
	}
	for k, v := range c.counts {
		rec.Count(pre+k, v)
	}
	rec.Count(pre+"scripts", 1)
	if cc.stallRecovered > 0 {
		rec.Count(pre+"stall_recovered", int64(cc.stallRecovered))
	}
	evs := cc.log.snapshot()
	if len(c.calls) >= 2 {
		rec.Distinct(common.Hash64([]byte(strings.Join(c.script, "\n")), []byte(fmt.Sprint(orderHash(evs)))))
	}
	if rec.WantSample() && len(c.script) > 6 {
		rec.Sample(map[string]interface{}{"mode": "c12", "index": idx, "S": []int{c.S.max, c.S.queue}, "T": []int{c.T.max, c.T.queue}, "script": c.script})
	}
	cc.flush(map[string]interface{}{"S": map[string]int{"max": c.S.max, "queue": c.S.queue}, "T": map[string]int{"max": c.T.max, "queue": c.T.queue},
		"script": c.script, "calls": c.calls, "events": tail(evs, 400)})
	return ok && !cc.dead && !hadViol
}

func (c *c12) runScript(rec *common.Recorder, idx uint64) bool {
	cc, rng := c.cc, c.rng
	ncallers := 1 + rng.Range(0, 4)
	nops := rng.Range(6, 36)
	shutAt := -1
	if rng.Chance(1, 2) {
		shutAt = nops/3 + rng.Intn(nops-nops/3)
	}
	rec.Case(idx, fmt.Sprintf("c12 S(max=%d,q=%d) T(max=%d,q=%d) callers=%d ops=%d shutAt=%d", c.S.max, c.S.queue, c.T.max, c.T.queue, ncallers, nops, shutAt))
	pipesOn := map[uint64]int{} // root answer uid -> number of pipelined calls issued
	var pipeable []*c12call
	addPipeable := func(cl *c12call) {
		if (cl.Kind == "send" || cl.Kind == "psend") && c.hasAnswer(cl) && !cl.pipeable {
			cl.pipeable = true
			pipeable = append(pipeable, cl)
		}
	}

	for i := 0; i < nops && cc.numViol() == 0; i++ {
		if i == shutAt && c.shutOp == nil {
			c.logOp("shutdown S")
			c.counts["op_shutdown_in_script"]++
			c.startShutdown()
			continue
		}
		r := rng.Intn(100)
		switch {
		case r < 38: // direct call
			g := 0
			if ncallers > 1 && rng.Chance(2, 3) {
				g = rng.Intn(ncallers)
			}
			if prev := c.callerOf[g]; prev != nil {
				if !c.waitSend(prev) {
					return false
				}
				addPipeable(prev)
			}
			cl := &c12call{Kind: "send", Srv: objS, Caller: g, B: c.newBeh(rng, false)}
			if rng.Chance(1, 4) {
				cl.Kind = "recv"
			}
			if rng.Chance(1, 6) {
				cl.Srv = objT
				cl.B = c.newBeh(rng, true)
			}
			c.issueDirect(cl)
			c.callerOf[g] = cl
			if c.shutOp != nil && cl.Srv == objS {
				c.counts["call_after_shutdown_began"]++
			}
		case r < 46: // wait for a caller's Send
			for g := 0; g < ncallers; g++ {
				prev := c.callerOf[g]
				if prev != nil && !prev.waited {
					c.logOp("wait caller %d", g)
					if !c.waitSend(prev) {
						return false
					}
					addPipeable(prev)
					break
				}
			}
		case r < 74: // pipelined call
			if len(pipeable) == 0 {
				continue
			}
			p := pipeable[rng.Intn(len(pipeable))]
			for try := 0; try < 4; try++ {
				if rng.Chance(2, 3) { // prefer the latest answers (more likely unreturned)
					p = pipeable[len(pipeable)-1-rng.Intn(min(3, len(pipeable)))]
				} else {
					p = pipeable[rng.Intn(len(pipeable))]
				}
				if p.B.Ret != retError && p.B.Ret != retCancel {
					break
				}
			}
			cl := &c12call{Kind: "psend", parent: p, Path: rng.PickInt(0, 0, 0, 1, 1, 1, 2), B: c.newBeh(rng, true), Caller: -1}
			if rng.Chance(1, 4) {
				cl.Kind = "precv"
			}
			root := p
			for root.parent != nil {
				root = root.parent
			}
			pipesOn[root.UID]++
			if p.parent != nil {
				c.counts["pipe_chained"]++
			}
			if rng.Chance(1, 5) {
				// same caller stream: issue it the moment the answer resolves
				cl.afterDone = true
				c.counts["followup_on_resolved_answer"]++
			}
			c.issuePipe(cl)
			// wait for the PipelineSend only when it cannot be stuck behind a full queue
			cl.safeWait = !cl.afterDone && pipesOn[root.UID] <= c.S.queue && pipesOn[root.UID] <= c.T.queue
			if cl.safeWait && rng.Chance(1, 2) {
				c.logOp("waitpipe %d", cl.UID)
				if !c.waitSend(cl) {
					return false
				}
				addPipeable(cl)
			} else if pipesOn[root.UID] > c.S.queue {
				c.counts["pipe_beyond_queue_size"]++
			}
		case r < 82: // open a gate
			if len(c.calls) == 0 {
				continue
			}
			cl := c.calls[rng.Intn(len(c.calls))]
			if rng.Bool() {
				cl.B.gateA.open()
				c.logOp("openA %d", cl.UID)
			} else {
				cl.B.gateR.open()
				c.logOp("openR %d", cl.UID)
			}
		case r < 86: // cancel
			if len(c.calls) == 0 {
				continue
			}
			c.doCancel(c.calls[rng.Intn(len(c.calls))])
		case r < 94: // wait for the oldest pipelined Send that cannot be stuck behind a full queue
			for _, cl := range c.calls {
				if cl.parent != nil && !cl.waited && cl.safeWait {
					c.logOp("waitpipe %d", cl.UID)
					if !c.waitSend(cl) {
						return false
					}
					addPipeable(cl)
					break
				}
			}
		default:
			time.Sleep(time.Duration(rng.Intn(200)) * time.Microsecond)
		}
	}
	if cc.numViol() > 0 {
		return true
	}
	return c.finishCase(rng)
}

func min(a, b int) int {
	if a < b {
		return a
	}
	return b
}

func (c *c12) startShutdown() {
	cc := c.cc
	sm := c.S
	cc.log.add("shutdown-call", sm.id, 0, "", func(t int64) { sm.shutCalled = t })
	c.shutOp = cc.goOp("Server.Shutdown", func() {
		sm.srv.Shutdown()
		cc.log.add("shutdown-ret", sm.id, 0, "", func(t int64) { sm.shutReturned = t })
	})
}

// finishCase: epilogue + checks.
func (c *c12) finishCase(rng *common.RNG) bool {
	cc := c.cc
	// 1. let everything that only waits for the script run to completion
	for _, cl := range c.calls {
		cl.B.gateA.open()
		cl.B.gateR.open()
	}
	c.H.gate.open()
	c.logOp("epilogue: all gates open")
	// 2. Shutdown of S cancels what is still running there
	if c.shutOp == nil && c.sClient == nil {
		c.logOp("epilogue: shutdown S")
		c.startShutdown()
	}
	// 3. every Send / PipelineSend returns
	for _, cl := range c.calls {
		if !cl.waited {
			if !cc.await(cl.op.name, cl.op.isDone) {
				return false
			}
			cl.waited = true
			if cl.op.pan != nil {
				cl.sendPanic = true
				cc.panicViolation(cl.op.name, cl.op.pan)
			}
		}
	}
	if cc.numViol() > 0 {
		return true
	}
	// 4. every answer resolves
	for _, cl := range c.calls {
		cl := cl
		switch {
		case cl.rt != nil:
			if !cc.await(fmt.Sprintf("Returner of uid=%d", cl.UID), cl.rt.returned) {
				return false
			}
			st, err := cl.rt.result()
			c.outcome(cl, st, err)
		case cl.ans != nil:
			var st capnp.Struct
			var err error
			op := cc.goOp(fmt.Sprintf("Answer.Struct uid=%d", cl.UID), func() { st, err = cl.ans.Struct() })
			if !cc.join(op) {
				return false
			}
			c.outcome(cl, st, err)
		}
	}
	if c.shutOp != nil {
		if !cc.join(c.shutOp) {
			return false
		}
		// 5. a call after Shutdown returned must be rejected and never start
		for n := 0; n < 2; n++ {
			cl := &c12call{Kind: "send", Srv: objS, Caller: 99, B: c.newBeh(rng, false)}
			if n == 1 {
				cl.Kind = "recv"
			}
			cl.B.Ack, cl.B.Ret = ackNow, retEarly
			c.issueDirect(cl)
			if !cc.join(cl.op) {
				return false
			}
			cl.waited = true
			var err error
			if cl.rt != nil {
				if !cl.rt.returned() {
					cc.violate("C12/call-after-shutdown-not-answered", "a Recv call after Shutdown was neither rejected nor started", "")
				}
				_, err = cl.rt.result()
			} else if cl.ans != nil {
				op := cc.goOp("Answer.Struct (post-shutdown call)", func() { _, err = cl.ans.Struct() })
				if !cc.join(op) {
					return false
				}
			}
			if err == nil {
				cc.violate("C12/call-after-shutdown-succeeded", "a call made after Server.Shutdown returned did not fail", fmt.Sprintf("uid=%d", cl.UID))
			} else {
				c.counts["post_shutdown_call_rejected"]++
			}
			cl.resErr = errClass(err)
		}
	}
	c.check()
	if cc.numViol() > 0 {
		return true
	}
	// 6. release answers, then the master references: T and H shut down once
	for _, cl := range c.calls {
		if cl.rel != nil {
			rel := cl.rel
			if !cc.run("ReleaseFunc", func() { rel() }) {
				return false
			}
		}
		if cl.rt != nil {
			rt := cl.rt
			if !cc.run("release Recv results", func() { rt.release() }) {
				return false
			}
		}
	}
	if c.sClient != nil {
		if !cc.run("release S client", func() { c.sClient.Release() }) {
			return false
		}
	}
	if !cc.run("release T client", func() { c.tClient.Release() }) {
		return false
	}
	if !cc.run("release H client", func() { c.hClient.Release() }) {
		return false
	}
	cc.log.mu.Lock()
	su, tu := c.S.userShut, c.T.userShut
	cc.log.mu.Unlock()
	if su != 1 {
		cc.violate("C12/user-shutdown-count", "the user's Shutdown of the main server did not run exactly once", fmt.Sprintf("count=%d", su))
	}
	if tu != 1 {
		cc.violate("C12/user-shutdown-count", "the user's Shutdown of the target server did not run exactly once after its last reference was released", fmt.Sprintf("count=%d", tu))
	}
	if n := c.H.shutdowns(); n != 1 {
		cc.violate("C12/result-cap-refcount", "the plain target hook was not shut down exactly once after all results were released", fmt.Sprintf("count=%d", n))
	}
	return true
}

func (c *c12) outcome(cl *c12call, st capnp.Struct, err error) {
	if err != nil {
		cl.resErr = errClass(err)
		if cl.resErr == "" {
			cl.resErr = "err"
		}
		return
	}
	cl.resOK = true
	cl.resUID = st.Uint64(0)
	cl.resObj = st.Uint64(8)
}

// ---- trace checker ------------------------------------------------------------------

type dlvInfo struct {
	obj   int
	t     int64
	n     int
	retOK bool // the body (or hook) returned success
	retT  int64
	ret   bool
}

func (c *c12) check() {
	cc := c.cc
	evs := cc.log.snapshot()
	dl := map[uint64]*dlvInfo{}
	for _, e := range evs {
		switch {
		case strings.HasPrefix(e.K, "dlv-"):
			d := dl[e.U]
			if d == nil {
				d = &dlvInfo{obj: e.O, t: e.T}
				dl[e.U] = d
			}
			d.n++
		case e.K == "return" || e.K == "end-recv" || e.K == "end-send":
			if d := dl[e.U]; d != nil && !d.ret {
				d.ret, d.retT, d.retOK = true, e.T, e.X == ""
			}
		}
	}
	// where did the parent run / what did it return
	succeeded := func(cl *c12call) bool {
		d := dl[cl.UID]
		return d != nil && d.ret && d.retOK
	}
	expectTarget := func(cl *c12call) int { // -1: must fail
		p := cl.parent
		if !succeeded(p) || cl.Path > 1 {
			return -1
		}
		switch dl[p.UID].obj {
		case objS:
			return p.B.CapsS[cl.Path]
		case objT:
			return p.B.CapsT[cl.Path]
		}
		return -1 // H results carry no capabilities
	}
	for _, cl := range c.calls {
		if cl.sendPanic {
			continue
		}
		d := dl[cl.UID]
		if d != nil && d.n > 1 {
			cc.violate("C12/call-delivered-twice", "one call was started more than once", fmt.Sprintf("uid=%d n=%d", cl.UID, d.n))
			continue
		}
		if cl.parent == nil {
			if d != nil && d.obj != cl.Srv {
				cc.violate("C12/misdelivered", "a direct call was started on another object", fmt.Sprintf("uid=%d obj=%d want=%d", cl.UID, d.obj, cl.Srv))
			}
		} else {
			want := expectTarget(cl)
			switch {
			case d != nil && want < 0:
				sig := "C12/delivered-after-error"
				if succeeded(cl.parent) {
					sig = "C12/misdelivered"
				}
				cc.violate(sig, "a pipelined call was delivered although its answer failed or its path holds no capability",
					fmt.Sprintf("uid=%d parent=%d path=%d delivered-to=%d", cl.UID, cl.parent.UID, cl.Path, d.obj))
			case d != nil && d.obj != want:
				sig := "C12/misdelivered"
				if cl.parent.parent != nil {
					sig += "/chained-pipeline"
				}
				cc.violate(sig, "a pipelined call was delivered to a capability other than the one at its path in the answer it was made on",
					fmt.Sprintf("uid=%d parent=%d path=%d delivered-to=%d want=%d", cl.UID, cl.parent.UID, cl.Path, d.obj, want))
			case d == nil && want >= 0 && !c.isCancelled(cl) && cc.stallStamp == 0:
				cc.violate("C12/call-lost", "a pipelined call on an answer that returned successfully was never delivered (and not cancelled)",
					fmt.Sprintf("uid=%d parent=%d path=%d want=%d result=%q", cl.UID, cl.parent.UID, cl.Path, want, cl.resErr))
			case d != nil:
				c.counts["pipe_delivered"]++
				if cl.parent.parent != nil {
					c.counts["pipe_chained_delivered"]++
				}
				if pd := dl[cl.parent.UID]; pd != nil && pd.ret && cl.tRet != 0 && cl.tRet < pd.retT {
					c.counts["pipe_issued_before_return"]++
				}
			}
		}
		// result
		if cl.rt == nil && cl.ans == nil {
			continue
		}
		switch {
		case d != nil && d.ret && d.retOK:
			if !cl.resOK || cl.resUID != cl.UID || int(cl.resObj) != d.obj {
				cc.violate("C12/wrong-result", "the caller's answer is not the result the implementation returned",
					fmt.Sprintf("uid=%d ok=%v err=%q resUID=%d resObj=%d ranOn=%d", cl.UID, cl.resOK, cl.resErr, cl.resUID, cl.resObj, d.obj))
			} else {
				c.counts["answers_ok"]++
			}
		case d != nil && d.ret && !d.retOK:
			if cl.resOK {
				cc.violate("C12/wrong-result", "the implementation returned an error but the caller's answer succeeded", fmt.Sprintf("uid=%d", cl.UID))
			} else {
				c.counts["answers_error_from_body"]++
			}
		case d == nil:
			if cl.resOK {
				cc.violate("C12/wrong-result", "a call that was never delivered produced a successful answer", fmt.Sprintf("uid=%d", cl.UID))
			} else {
				c.counts["answers_error_undelivered"]++
			}
		}
	}
	// order: calls on the same object (direct) / same (answer,path) (pipelined)
	type grp struct {
		pipe bool
		a, b int
	}
	groups := map[grp][]*c12call{}
	for _, cl := range c.calls {
		if dl[cl.UID] == nil || cl.tRet == 0 {
			continue
		}
		if cl.parent == nil {
			groups[grp{false, cl.Srv, 0}] = append(groups[grp{false, cl.Srv, 0}], cl)
		} else {
			groups[grp{true, int(cl.parent.UID), cl.Path}] = append(groups[grp{true, int(cl.parent.UID), cl.Path}], cl)
		}
	}
	for g, cs := range groups {
		for _, a := range cs {
			for _, b := range cs {
				if a == b || !(a.tRet < b.tCall) {
					continue
				}
				c.counts["order_pairs_checked"]++
				if !(dl[a.UID].t < dl[b.UID].t) {
					sig := "C12/order"
					if g.pipe {
						sig = "C12/order/pipelined"
					}
					cc.violate(sig, "two calls made one after the other were observed by the implementation in the opposite order",
						fmt.Sprintf("first uid=%d [%d,%d] start@%d; second uid=%d [%d,%d] start@%d", a.UID, a.tCall, a.tRet, dl[a.UID].t, b.UID, b.tCall, b.tRet, dl[b.UID].t))
				}
			}
		}
		if g.pipe && len(cs) >= 2 {
			c.fifoCheck(cs, dl)
		}
	}
	// Shutdown must cancel running calls: a body that only ended when the
	// stall handler cancelled every context although Shutdown had been called
	if cc.stallStamp != 0 && c.S.shutCalled != 0 && c.S.shutCalled < cc.stallStamp {
		for _, cl := range c.calls {
			d := dl[cl.UID]
			if d == nil || d.obj != objS || !d.ret || c.isCancelled(cl) {
				continue
			}
			if (cl.B.Ret == retCancel) && d.t < c.S.shutCalled && d.retT > cc.stallStamp {
				cc.violate("C12/shutdown-did-not-cancel", "a running call was not cancelled by Server.Shutdown (it ended only when the harness cancelled its context after the system had gone quiescent)",
					fmt.Sprintf("uid=%d start@%d shutdown-called@%d stall@%d return@%d", cl.UID, d.t, c.S.shutCalled, cc.stallStamp, d.retT))
			}
		}
	}
	cc.log.mu.Lock()
	mr := c.S.maxRunning
	if c.T.maxRunning > mr {
		mr = c.T.maxRunning
	}
	atCap := c.S.maxRunning == c.S.max || c.T.maxRunning == c.T.max
	cc.log.mu.Unlock()
	if atCap {
		c.counts["scripts_reaching_cap"]++
	}
	cc.rec.Max("max_c12_running", int64(mr))
}

// fifoCheck: porcupine check of the delivery order of the calls pipelined on
// one (answer, path) against a FIFO queue: enq = the PipelineSend/Recv call
// (it ends at the latest when the call is delivered), deq = the delivery.
type fifoIn struct {
	Enq bool
	UID uint64
}

func (c *c12) fifoCheck(cs []*c12call, dl map[uint64]*dlvInfo) {
	var ops []porcupine.Operation
	sort.Slice(cs, func(i, j int) bool { return cs[i].tCall < cs[j].tCall })
	for _, cl := range cs {
		d := dl[cl.UID]
		end := cl.tRet
		if d.t < end {
			end = d.t
		}
		if end <= cl.tCall {
			end = cl.tCall + 1
		}
		ops = append(ops, porcupine.Operation{ClientId: 0, Input: fifoIn{true, cl.UID}, Call: 2 * cl.tCall, Output: uint64(0), Return: 2*end - 1})
	}
	// deliveries in log order: each deq must return the queue head
	ds := append([]*c12call(nil), cs...)
	sort.Slice(ds, func(i, j int) bool { return dl[ds[i].UID].t < dl[ds[j].UID].t })
	for _, cl := range ds {
		t := dl[cl.UID].t
		ops = append(ops, porcupine.Operation{ClientId: 1, Input: fifoIn{false, 0}, Call: 2 * t, Output: cl.UID, Return: 2 * t})
	}
	model := porcupine.Model{
		Init: func() interface{} { return "" },
		Step: func(state, input, output interface{}) (bool, interface{}) {
			q := state.(string)
			in := input.(fifoIn)
			if in.Enq {
				return true, q + fmt.Sprintf("%d,", in.UID)
			}
			head := fmt.Sprintf("%d,", output.(uint64))
			if !strings.HasPrefix(q, head) {
				return false, q
			}
			return true, q[len(head):]
		},
		Equal: func(a, b interface{}) bool { return a.(string) == b.(string) },
	}
	switch porcupine.CheckOperationsTimeout(model, ops, 20*time.Second) {
	case porcupine.Ok:
		c.counts["fifo_histories_ok"]++
		c.counts["fifo_history_ops"] += int64(len(ops))
	case porcupine.Unknown:
		c.cc.rec.Inconclusive("porcupine timeout (C12 FIFO history)")
	default:
		var sb strings.Builder
		for _, cl := range cs {
			fmt.Fprintf(&sb, "uid=%d issue=[%d,%d] delivered@%d\n", cl.UID, cl.tCall, cl.tRet, dl[cl.UID].t)
		}
		c.cc.violate("C12/fifo-linearizability", "delivery order of the calls pipelined on one answer/path is not a FIFO linearization of their issue order", sb.String())
	}
}

// ---- selfpipe mode -------------------------------------------------------------------

// runSelfPipe: deterministic scenarios in which an answer of S returns a
// capability to S itself while every call slot of S is occupied by the
// returning calls, with pipelined calls queued on those answers.
func (c *c12) runSelfPipe(rec *common.Recorder, idx uint64) bool {
	cc := c.cc
	variant := int(idx % 3)
	nslots := 1 + variant%2
	c.S.max = nslots
	c.S.srv = server.New([]server.Method{{Method: c12Method, Impl: c.body(c.S)}}, 0, userShutdown{c, c.S},
		&server.Policy{MaxConcurrentCalls: nslots, AnswerQueueSize: 4})
	c.sClient = capnp.NewClient(c.S.srv)
	rec.Case(idx, fmt.Sprintf("c12 selfpipe variant=%d slots=%d", variant, nslots))
	var roots []*c12call
	for i := 0; i < nslots; i++ {
		b := c.newBeh(c.rng, false)
		b.Ack, b.Ret = ackNow, retGate
		b.CapsS = [2]int{objS, objH}
		cl := &c12call{Kind: "send", Srv: objS, Caller: i, B: b}
		c.issueDirect(cl)
		if !cc.await(cl.op.name, cl.op.isDone) {
			return false
		}
		cl.waited = true
		roots = append(roots, cl)
	}
	for _, r := range roots {
		b := c.newBeh(c.rng, true)
		b.Ack, b.Ret = ackNow, retEarly
		kind := "psend"
		if variant == 2 {
			kind = "precv"
		}
		p := &c12call{Kind: kind, parent: r, Path: 0, B: b, Caller: -1}
		c.issuePipe(p)
		if !cc.await(p.op.name, p.op.isDone) {
			return false
		}
		p.waited = true
	}
	c.counts["selfpipe_scenarios"]++
	return c.finishCase(c.rng)
}

// ---- selfarg mode --------------------------------------------------------------------

// runSelfArg: deterministic scenarios in which the *arguments* of a call on
// S hold the last reference to S: the caller makes the call through client
// c1, the call's ReleaseArgs releases c2 (as the RPC layer does when the
// parameters' capability table is cleared), and c1 is released as soon as
// the call has been acknowledged.  When the body returns, ReleaseArgs drops
// the last reference from the call's own goroutine, i.e. Server.Shutdown
// runs there.  Expected: the call completes with its result, the user's
// Shutdown runs exactly once with no body running, other running calls are
// cancelled and complete.
func (c *c12) runSelfArg(rec *common.Recorder, idx uint64) bool {
	cc := c.cc
	variant := int(idx % 4)
	c.S.max = 2
	c.S.srv = server.New([]server.Method{{Method: c12Method, Impl: c.body(c.S)}}, 0, userShutdown{c, c.S},
		&server.Policy{MaxConcurrentCalls: 2, AnswerQueueSize: 4})
	c1 := capnp.NewClient(c.S.srv)
	c2 := c1.AddRef()
	c.sClient = c1
	rec.Case(idx, fmt.Sprintf("c12 selfarg variant=%d", variant))
	var other *c12call
	if variant == 1 { // a second call is running when the last reference goes away
		b := c.newBeh(c.rng, false)
		b.Ack, b.Ret, b.CapsS = ackNow, retGateOrCtx, [2]int{-1, -1}
		other = &c12call{Kind: "send", Srv: objS, Caller: 1, B: b}
		c.issueDirect(other)
		if !cc.await(other.op.name, other.op.isDone) {
			return false
		}
		other.waited = true
	}
	b := c.newBeh(c.rng, false)
	b.Ack, b.Ret, b.CapsS = ackNow, retGate, [2]int{objH, -1}
	if variant == 2 { // no Ack: the caller's reference outlives the arguments
		b.Ack, b.Ret = ackNever, retEarly
	}
	if variant == 3 { // no Ack, and the caller's reference is released while its call is still in flight
		b.Ack, b.Ret = ackNever, retGate
	}
	cl := &c12call{Kind: "recv", Srv: objS, Caller: 0, B: b}
	cl.relArgs = func() {
		cc.log.add("release-args", objS, cl.UID, "", nil)
		c2.Release()
	}
	c.issueDirect(cl)
	if variant == 3 {
		started := func() bool { return len(deliveriesOf(cc.log.snapshot(), cl.UID)) > 0 || cl.op.isDone() }
		if !cc.await("start of the call", started) {
			return false
		}
		c.logOp("release caller's reference (call in flight)")
		if !cc.run("release caller's reference", func() { c1.Release() }) { // not the last one: returns at once
			return false
		}
		c.logOp("openR %d", cl.UID)
		b.gateR.open()
		if !cc.await(cl.op.name, cl.op.isDone) {
			return false
		}
		cl.waited = true
	} else {
		if !cc.await(cl.op.name, cl.op.isDone) { // RecvCall returns once the body has acknowledged (or returned)
			return false
		}
		cl.waited = true
		c.logOp("release caller's reference")
		if !cc.run("release caller's reference", func() { c1.Release() }) {
			return false
		}
		c.logOp("openR %d", cl.UID)
		b.gateR.open()
	}
	if !cc.await(fmt.Sprintf("Returner of uid=%d", cl.UID), cl.rt.returned) {
		return false
	}
	userShut := func() bool {
		cc.log.mu.Lock()
		defer cc.log.mu.Unlock()
		return c.S.userShut >= 1
	}
	if !cc.await("Server.Shutdown after the last reference (held by the call's arguments) was released", userShut) {
		return false
	}
	st, err := cl.rt.result()
	c.outcome(cl, st, err)
	if !cl.resOK || cl.resUID != cl.UID {
		cc.violate("C12/wrong-result", "the caller's answer is not the result the implementation returned", fmt.Sprintf("uid=%d ok=%v err=%q", cl.UID, cl.resOK, cl.resErr))
	}
	if other != nil {
		var ost capnp.Struct
		var oerr error
		if !cc.run("Answer.Struct of the concurrent call", func() { ost, oerr = other.ans.Struct() }) {
			return false
		}
		c.outcome(other, ost, oerr)
		if other.resOK {
			cc.violate("C12/shutdown-did-not-cancel", "a running call was not cancelled by the Shutdown triggered from another call's ReleaseArgs", "")
		}
		if other.rel != nil {
			if !cc.run("ReleaseFunc", other.rel) {
				return false
			}
		}
	}
	if !cc.run("release Recv results", func() { cl.rt.release() }) {
		return false
	}
	if !cc.run("release T client", func() { c.tClient.Release() }) {
		return false
	}
	if !cc.run("release H client", func() { c.hClient.Release() }) {
		return false
	}
	cc.log.mu.Lock()
	su := c.S.userShut
	cc.log.mu.Unlock()
	if su != 1 {
		cc.violate("C12/user-shutdown-count", "the user's Shutdown of the main server did not run exactly once", fmt.Sprintf("count=%d", su))
	}
	if n := c.H.shutdowns(); n != 1 {
		cc.violate("C12/result-cap-refcount", "the plain target hook was not shut down exactly once after all results were released", fmt.Sprintf("count=%d", n))
	}
	c.counts["selfarg_scenarios"]++
	return true
}

// ---- chainorder mode -----------------------------------------------------------------

// runChainOrder: second-level pipelining with a stalled drain.  A (on S) acks
// and stays unreturned; B is pipelined on A's result (-> T); X is pipelined
// on A's result too and is slow to take delivery (late Ack, gated); C (and
// C2) are pipelined on B's not yet existing result (-> H).  Queue order: B,
// X, C.  Then A returns.  The caller watches B's answer: the moment it
// resolves it issues D on the same path of B's answer - the same caller
// stream as C, so D must reach B's result capability after C.  In a correct
// implementation B cannot resolve while X stalls the drain (returns are
// forwarded after the whole queue was delivered); the script then opens X's
// gate, waits for B and issues D.  The generic order monitor of check()
// (calls on one (answer, path) made one after the other must be delivered in
// that order) decides.
func (c *c12) runChainOrder(rec *common.Recorder, idx uint64) bool {
	cc, rng := c.cc, c.rng
	variant := int(idx % 4)
	c.S.queue = 8
	c.S.srv = server.New([]server.Method{{Method: c12Method, Impl: c.body(c.S)}}, 0, userShutdown{c, c.S},
		&server.Policy{MaxConcurrentCalls: c.S.max, AnswerQueueSize: 8})
	rec.Case(idx, fmt.Sprintf("c12 chainorder variant=%d S.max=%d T(max=%d,q=%d)", variant, c.S.max, c.T.max, c.T.queue))
	kindOf := func(recvStyle bool) string {
		if recvStyle {
			return "precv"
		}
		return "psend"
	}
	issueWait := func(cl *c12call) bool {
		if cl.parent == nil {
			c.issueDirect(cl)
		} else {
			c.issuePipe(cl)
		}
		if !cc.await(cl.op.name, cl.op.isDone) {
			return false
		}
		cl.waited = true
		return true
	}
	// A
	ba := c.newBeh(rng, false)
	ba.Ack, ba.Ret, ba.CapsS = ackNow, retGate, [2]int{objT, objT}
	A := &c12call{Kind: "send", Srv: objS, Caller: 0, B: ba}
	if !issueWait(A) {
		return false
	}
	// B -> T, returns at once, result.ptr0/ptr1 = H
	bb := c.newBeh(rng, true)
	bb.Ack, bb.Ret, bb.CapsT = ackNow, retEarly, [2]int{objH, objH}
	B := &c12call{Kind: "psend", parent: A, Path: 0, B: bb, Caller: -1}
	if !issueWait(B) {
		return false
	}
	// X -> T, slow to take delivery
	bx := c.newBeh(rng, true)
	bx.Ack, bx.Ret = ackLate, retEarly
	X := &c12call{Kind: kindOf(variant == 2), parent: A, Path: 1, B: bx, Caller: -1}
	if !issueWait(X) {
		return false
	}
	// C (C2) pipelined on B's future result
	var cs []*c12call
	nC := 1
	if variant == 1 || variant == 3 {
		nC = 2
	}
	for i := 0; i < nC; i++ {
		bc := c.newBeh(rng, true)
		C := &c12call{Kind: kindOf(variant == 2 && i == 0), parent: B, Path: 0, B: bc, Caller: -1}
		if !issueWait(C) {
			return false
		}
		cs = append(cs, C)
	}
	var by *beh
	if variant == 3 { // one more slow entry behind the Cs
		by = c.newBeh(rng, true)
		by.Ack, by.Ret = ackLate, retEarly
		Y := &c12call{Kind: "psend", parent: A, Path: 0, B: by, Caller: -1}
		if !issueWait(Y) {
			return false
		}
	}
	c.counts["pipe_chained"] += int64(nC)
	// let A return: the drain delivers B, then stalls at X
	c.logOp("openR %d", A.UID)
	ba.gateR.open()
	bDone := func() bool {
		select {
		case <-B.ans.Done():
			return true
		default:
			return false
		}
	}
	xStarted := func() bool { return len(deliveriesOf(cc.log.snapshot(), X.UID)) > 0 }
	if !cc.await("B's answer to resolve or the drain to reach X", func() bool { return bDone() || xStarted() }) {
		return false
	}
	for i := 0; i < 300 && !bDone(); i++ { // a premature return of B would arrive about now (never decides a verdict)
		runtime.Gosched()
		time.Sleep(50 * time.Microsecond)
	}
	D := &c12call{Kind: kindOf(variant == 1), parent: B, Path: 0, B: c.newBeh(rng, true), Caller: -1}
	early := bDone()
	if early {
		// B resolved although entries queued behind it are still undelivered:
		// the caller goes on using B's answer, as any caller would
		c.counts["answer_resolved_while_queue_draining"]++
		c.logOp("B resolved while the drain is stalled: issue D now")
		if !issueWait(D) {
			return false
		}
	}
	c.logOp("openA %d", X.UID)
	bx.gateA.open()
	if by != nil {
		by.gateA.open()
	}
	if !early {
		if !cc.await("B's answer to resolve", bDone) {
			return false
		}
		if !issueWait(D) {
			return false
		}
	}
	c.counts["chain_scenarios"]++
	return c.finishCase(rng)
}
