// Shared infrastructure of the `caps` driver (properties C10, C11, C12):
// logical-clock event log, instrumented ClientHook / PipelineCaller /
// Returner, gates, the seeded yield policy installed into verifhook, and the
// two-stage quiescence wait.
package main

import (
	"context"
	"fmt"
	"runtime"
	"strings"
	"sync"
	"sync/atomic"
	"time"

	"capnproto.org/go/capnp/v3"
	"capnproto.org/go/capnp/v3/internal/verifhook"
	"capnproto.org/go/capnp/v3/zverif/common"
)

// ---------------------------------------------------------------------------
// Event log: one mutex, one logical clock.  Events are stamped inside the
// mutex; operation intervals are stamped with tick() before the library is
// entered and after it returned.

type event struct {
	T int64  `json:"t"`
	K string `json:"k"`           // kind
	O int    `json:"o"`           // object id (hook / pipeline caller / server)
	U uint64 `json:"u,omitempty"` // call uid
	X string `json:"x,omitempty"` // extra (transform, error class)
}

type evLog struct {
	mu       sync.Mutex
	t        int64
	ev       []event
	progress *int64
}

func (l *evLog) tick() int64 {
	l.mu.Lock()
	l.t++
	t := l.t
	l.mu.Unlock()
	return t
}

// add appends an event; f (optional) runs inside the log mutex, after the
// stamp was taken (used for monitor-local invariants that must be atomic
// with the stamp).
func (l *evLog) add(k string, o int, u uint64, x string, f func(t int64)) int64 {
	l.mu.Lock()
	l.t++
	t := l.t
	l.ev = append(l.ev, event{T: t, K: k, O: o, U: u, X: x})
	if f != nil {
		f(t)
	}
	l.mu.Unlock()
	atomic.AddInt64(l.progress, 1)
	return t
}

func (l *evLog) snapshot() []event {
	l.mu.Lock()
	out := make([]event, len(l.ev))
	copy(out, l.ev)
	l.mu.Unlock()
	return out
}

// delivered returns the events of kind prefix "dlv" for uid.
func deliveriesOf(evs []event, uid uint64) []event {
	var out []event
	for _, e := range evs {
		if e.U == uid && strings.HasPrefix(e.K, "dlv") {
			out = append(out, e)
		}
	}
	return out
}

// orderHash hashes the order of monitor events (kind, object, uid) - the
// "event-order hash" reported as distinct interleavings.
func orderHash(evs []event) uint64 {
	var sb strings.Builder
	for _, e := range evs {
		fmt.Fprintf(&sb, "%s.%d.%d;", e.K, e.O, e.U)
	}
	return common.HashString(sb.String())
}

// ---------------------------------------------------------------------------
// Per-case context.

type pviol struct {
	sig, what, detail string
}

type caseCtx struct {
	rec      *common.Recorder
	idx      uint64
	log      *evLog
	progress int64
	pending  int64

	mu    sync.Mutex
	viols []pviol
	gates []*gate
	dead  bool // deadlock or watchdog: process is wedged, abort the batch

	stallRecovered int
	onStall        func() // extra releases the stall handler performs (e.g. cancel every context)
	stallStamp     int64  // logical time of the first stall handling, 0 = none
}

func newCase(rec *common.Recorder, idx uint64) *caseCtx {
	cc := &caseCtx{rec: rec, idx: idx}
	cc.log = &evLog{progress: &cc.progress}
	return cc
}

// violate queues a violation; it is flushed with the case input at the end.
func (cc *caseCtx) violate(sig, what, detail string) {
	cc.mu.Lock()
	for _, v := range cc.viols {
		if v.sig == sig {
			cc.mu.Unlock()
			return
		}
	}
	cc.viols = append(cc.viols, pviol{sig, what, detail})
	cc.mu.Unlock()
}

func (cc *caseCtx) numViol() int {
	cc.mu.Lock()
	defer cc.mu.Unlock()
	return len(cc.viols)
}

func (cc *caseCtx) flush(input interface{}) {
	cc.mu.Lock()
	vs := cc.viols
	cc.viols = nil
	cc.mu.Unlock()
	for _, v := range vs {
		cc.rec.Violate(v.sig, v.what, cc.idx, v.detail, input)
	}
}

// panicViolation converts a recovered panic of a legal API call into a
// violation with a stable signature.
func (cc *caseCtx) panicViolation(op string, p *common.Panic) {
	if p == nil {
		return
	}
	cls := p.Value
	switch {
	case strings.Contains(cls, "close of closed channel"):
		cls = "close-of-closed-channel"
	case strings.Contains(cls, "nil map"):
		cls = "nil-map"
	case strings.Contains(cls, "nil pointer"):
		cls = "nil-deref"
	case strings.Contains(cls, "negative WaitGroup"):
		cls = "negative-waitgroup"
	case strings.Contains(cls, "unlock of unlocked"):
		cls = "unlock-of-unlocked"
	default:
		if len(cls) > 40 {
			cls = cls[:40]
		}
		cls = strings.Map(func(r rune) rune {
			if r >= '0' && r <= '9' {
				return -1
			}
			if r == ' ' {
				return '-'
			}
			return r
		}, cls)
	}
	cc.violate("panic/"+common.TopLibFrame(p.Stack)+"/"+cls, "panic in "+op+": "+p.Value, p.Stack)
}

// ---------------------------------------------------------------------------
// Gates: a monitor object that is "armed" blocks every call that enters it
// until the script opens the gate.  openAll() is what the stall handler
// uses, so a stall that depends on a closed harness gate is never reported.

type gate struct {
	mu     sync.Mutex
	armed  bool
	ch     chan struct{}
	forced bool // openAll was called: never block again
	nwait  int
}

func (cc *caseCtx) newGate() *gate {
	g := &gate{ch: make(chan struct{})}
	cc.mu.Lock()
	cc.gates = append(cc.gates, g)
	cc.mu.Unlock()
	return g
}

func (g *gate) arm() {
	g.mu.Lock()
	if !g.forced {
		g.armed = true
	}
	g.mu.Unlock()
}

// open releases everything blocked and disarms.
func (g *gate) open() {
	g.mu.Lock()
	g.armed = false
	close(g.ch)
	g.ch = make(chan struct{})
	g.mu.Unlock()
}

func (g *gate) force() {
	g.mu.Lock()
	g.forced = true
	g.armed = false
	close(g.ch)
	g.ch = make(chan struct{})
	g.mu.Unlock()
}

func (g *gate) isArmed() bool {
	g.mu.Lock()
	defer g.mu.Unlock()
	return g.armed
}

// pass blocks while the gate is armed.
func (g *gate) pass() {
	g.mu.Lock()
	if !g.armed {
		g.mu.Unlock()
		return
	}
	ch := g.ch
	g.nwait++
	g.mu.Unlock()
	<-ch
}

// passCtx blocks while armed or until ctx is done; reports ctx.Err() then.
func (g *gate) passCtx(ctx context.Context) error {
	g.mu.Lock()
	if !g.armed {
		g.mu.Unlock()
		return nil
	}
	ch := g.ch
	g.mu.Unlock()
	select {
	case <-ch:
		return nil
	case <-ctx.Done():
		return ctx.Err()
	}
}

func (cc *caseCtx) openAll() {
	cc.mu.Lock()
	gs := append([]*gate(nil), cc.gates...)
	cc.mu.Unlock()
	for _, g := range gs {
		g.force()
	}
}

// ---------------------------------------------------------------------------
// Two-stage wait.  Stage 1: if the closed system stalls, open every harness
// gate (a stall that needed a gate is the script's doing, not the
// library's).  Stage 2: K=5 consecutive quiescent samples with no progress
// and the awaited operation still pending = deadlock.  A wall-clock limit
// only ever yields "inconclusive".

func (cc *caseCtx) await(desc string, done func() bool) bool {
	for i := 0; i < 400; i++ {
		if done() {
			return true
		}
		runtime.Gosched()
	}
	w := &common.Watch{Progress: &cc.progress, Pending: func() int { return 1 }, Interval: 12 * time.Millisecond, K: 2}
	rep, inc := w.WaitDone(done, 90*time.Second)
	if rep == nil && !inc {
		return true
	}
	if inc {
		cc.rec.Inconclusive("watchdog while goroutines runnable: " + desc)
		cc.dead = true
		return false
	}
	if cc.stallStamp == 0 {
		cc.stallStamp = cc.log.tick()
	}
	cc.openAll()
	if cc.onStall != nil {
		cc.onStall()
	}
	w.K = 5
	w.Interval = 150 * time.Millisecond
	rep, inc = w.WaitDone(done, 90*time.Second)
	if rep == nil && !inc {
		cc.stallRecovered++
		return true
	}
	cc.dead = true
	if inc {
		cc.rec.Inconclusive("watchdog while goroutines runnable (after opening gates): " + desc)
		return false
	}
	sig := rep.Signature
	if sig == "" {
		sig = "no-library-frame"
	}
	detail := "awaiting: " + desc + "\n\n" + strings.Join(rep.Blocked, "\n\n")
	cc.violate("deadlock/"+sig, "deadlock: closed system quiescent with operation pending ("+desc+")", detail)
	return false
}

// asyncOp is a library call running in its own goroutine.
type asyncOp struct {
	name string
	done chan struct{}
	pan  *common.Panic
}

func (cc *caseCtx) goOp(name string, f func()) *asyncOp {
	a := &asyncOp{name: name, done: make(chan struct{})}
	atomic.AddInt64(&cc.pending, 1)
	go func() {
		a.pan = common.Guard(f)
		atomic.AddInt64(&cc.pending, -1)
		atomic.AddInt64(&cc.progress, 1)
		close(a.done)
	}()
	return a
}

func (a *asyncOp) isDone() bool {
	select {
	case <-a.done:
		return true
	default:
		return false
	}
}

// join waits for the op; returns false if the case is dead.
func (cc *caseCtx) join(a *asyncOp) bool {
	if !cc.await(a.name, a.isDone) {
		return false
	}
	cc.panicViolation(a.name, a.pan)
	return true
}

// ---------------------------------------------------------------------------
// uid transport: the uid travels in the first data word of the params struct.

var uidSize = capnp.ObjectSize{DataSize: 8}

func sendFor(uid uint64, method uint16) capnp.Send {
	return capnp.Send{
		Method:   capnp.Method{InterfaceID: 0xc0ffee, MethodID: method},
		ArgsSize: uidSize,
		PlaceArgs: func(s capnp.Struct) error {
			s.SetUint64(0, uid)
			return nil
		},
	}
}

func uidOfSend(s capnp.Send) uint64 {
	if s.PlaceArgs == nil {
		return 0
	}
	_, seg, err := capnp.NewMessage(capnp.SingleSegment(nil))
	if err != nil {
		return 0
	}
	st, err := capnp.NewRootStruct(seg, s.ArgsSize)
	if err != nil {
		return 0
	}
	if err := s.PlaceArgs(st); err != nil {
		return 0
	}
	return st.Uint64(0)
}

// resultStruct builds a fresh result message {uid, object id}.
func resultStruct(uid uint64, obj int) capnp.Struct {
	_, seg, _ := capnp.NewMessage(capnp.SingleSegment(nil))
	st, _ := capnp.NewRootStruct(seg, capnp.ObjectSize{DataSize: 16})
	st.SetUint64(0, uid)
	st.SetUint64(8, uint64(obj))
	return st
}

// iret is an instrumented Returner for harness-issued Recv calls.
type iret struct {
	cc  *caseCtx
	uid uint64

	mu      sync.Mutex
	returns int
	err     error
	res     capnp.Struct
	done    chan struct{}
}

func (cc *caseCtx) newRet(uid uint64) *iret {
	return &iret{cc: cc, uid: uid, done: make(chan struct{})}
}

func (r *iret) AllocResults(sz capnp.ObjectSize) (capnp.Struct, error) {
	_, seg, err := capnp.NewMessage(capnp.SingleSegment(nil))
	if err != nil {
		return capnp.Struct{}, err
	}
	st, err := capnp.NewRootStruct(seg, sz)
	r.mu.Lock()
	r.res = st
	r.mu.Unlock()
	return st, err
}

func (r *iret) Return(e error) {
	r.mu.Lock()
	r.returns++
	n := r.returns
	if n == 1 {
		r.err = e
	}
	r.mu.Unlock()
	r.cc.log.add("ret", 0, r.uid, errClass(e), nil)
	if n == 1 {
		close(r.done)
	} else {
		r.cc.violate(r.cc.prop()+"/returner-called-twice", "Returner.Return called more than once for one call", fmt.Sprintf("uid=%d", r.uid))
	}
}

// release resets the result message (releasing the capabilities in it).
func (r *iret) release() {
	r.mu.Lock()
	msg := r.res.Message()
	r.res = capnp.Struct{}
	r.mu.Unlock()
	if msg != nil {
		msg.Reset(nil)
	}
}

func (r *iret) returned() bool {
	select {
	case <-r.done:
		return true
	default:
		return false
	}
}

func (r *iret) result() (capnp.Struct, error) {
	r.mu.Lock()
	defer r.mu.Unlock()
	return r.res, r.err
}

func (cc *caseCtx) recvFor(uid uint64, method uint16) (capnp.Recv, *iret) {
	_, seg, _ := capnp.NewMessage(capnp.SingleSegment(nil))
	args, _ := capnp.NewRootStruct(seg, uidSize)
	args.SetUint64(0, uid)
	rt := cc.newRet(uid)
	return capnp.Recv{
		Method:      capnp.Method{InterfaceID: 0xc0ffee, MethodID: method},
		Args:        args,
		ReleaseArgs: func() {},
		Returner:    rt,
	}, rt
}

func errClass(e error) string {
	if e == nil {
		return ""
	}
	s := e.Error()
	switch {
	case strings.Contains(s, "released client"):
		return "released"
	case strings.Contains(s, "null client"):
		return "null"
	case strings.Contains(s, "context canceled"):
		return "canceled"
	case strings.Contains(s, "after shutdown"):
		return "after-shutdown"
	}
	return "err"
}

func (cc *caseCtx) prop() string { return curProp }

var curProp string

// ---------------------------------------------------------------------------
// Instrumented ClientHook.

type ihook struct {
	cc   *caseCtx
	id   int
	gate *gate

	// relTwice: Recv calls r.ReleaseArgs() once more before Return (which
	// releases them again).  Legal: "After the first call, subsequent
	// calls to a ReleaseFunc do nothing."
	relTwice bool

	// protected by cc.log.mu (updated inside log.add callbacks)
	active    int
	shutBegan int64 // stamp of first Shutdown, 0 if none
	shutCount int
}

func (cc *caseCtx) newHook(id int) *ihook {
	return &ihook{cc: cc, id: id, gate: cc.newGate()}
}

func (h *ihook) enter(kind string, uid uint64) {
	h.cc.log.add("dlv-"+kind, h.id, uid, "", func(t int64) {
		if h.shutBegan != 0 {
			h.cc.violate(h.cc.prop()+"/call-after-shutdown", fmt.Sprintf("%s delivered to a hook after its Shutdown began", kind),
				fmt.Sprintf("hook=%d uid=%d shutdown@%d call@%d", h.id, uid, h.shutBegan, t))
		}
		h.active++
	})
}

func (h *ihook) exit(kind string, uid uint64) {
	h.cc.log.add("end-"+kind, h.id, uid, "", func(int64) { h.active-- })
}

func (h *ihook) Send(ctx context.Context, s capnp.Send) (*capnp.Answer, capnp.ReleaseFunc) {
	uid := uidOfSend(s)
	h.enter("send", uid)
	h.gate.pass()
	ans := capnp.ImmediateAnswer(s.Method, resultStruct(uid, h.id))
	h.exit("send", uid)
	return ans, func() {}
}

func (h *ihook) Recv(ctx context.Context, r capnp.Recv) capnp.PipelineCaller {
	uid := r.Args.Uint64(0)
	h.enter("recv", uid)
	h.gate.pass()
	if h.relTwice {
		r.ReleaseArgs()
		h.cc.rec.Count("hook_release_args_twice", 1)
	}
	res, err := r.AllocResults(capnp.ObjectSize{DataSize: 16})
	if err == nil {
		res.SetUint64(0, uid)
		res.SetUint64(8, uint64(h.id))
		r.Return()
	} else {
		r.Reject(err)
	}
	h.exit("recv", uid)
	return nil
}

func (h *ihook) Brand() capnp.Brand {
	h.cc.log.add("brand", h.id, 0, "", func(t int64) {
		if h.shutBegan != 0 {
			h.cc.violate(h.cc.prop()+"/call-after-shutdown", "Brand called on a hook after its Shutdown began",
				fmt.Sprintf("hook=%d shutdown@%d brand@%d", h.id, h.shutBegan, t))
		}
	})
	return capnp.Brand{Value: h.id}
}

func (h *ihook) Shutdown() {
	h.cc.log.add("shutdown", h.id, 0, "", func(t int64) {
		h.shutCount++
		if h.shutCount > 1 {
			h.cc.violate(h.cc.prop()+"/shutdown-twice", "ClientHook.Shutdown called more than once",
				fmt.Sprintf("hook=%d first@%d second@%d", h.id, h.shutBegan, t))
			return
		}
		h.shutBegan = t
		if h.active > 0 {
			h.cc.violate(h.cc.prop()+"/shutdown-during-call", "ClientHook.Shutdown began while a call through the hook was in flight",
				fmt.Sprintf("hook=%d active=%d shutdown@%d", h.id, h.active, t))
		}
	})
}

func (h *ihook) shutdowns() int {
	h.cc.log.mu.Lock()
	defer h.cc.log.mu.Unlock()
	return h.shutCount
}

func (h *ihook) activeNow() int {
	h.cc.log.mu.Lock()
	defer h.cc.log.mu.Unlock()
	return h.active
}

// ---------------------------------------------------------------------------
// Instrumented PipelineCaller.

type ipc struct {
	cc   *caseCtx
	id   int
	gate *gate
}

func (cc *caseCtx) newPC(id int) *ipc { return &ipc{cc: cc, id: id, gate: cc.newGate()} }

func xformString(t []capnp.PipelineOp) string {
	var sb strings.Builder
	for i, op := range t {
		if i > 0 {
			sb.WriteByte('.')
		}
		fmt.Fprintf(&sb, "%d", op.Field)
	}
	return sb.String()
}

func (p *ipc) PipelineSend(ctx context.Context, t []capnp.PipelineOp, s capnp.Send) (*capnp.Answer, capnp.ReleaseFunc) {
	uid := uidOfSend(s)
	p.cc.log.add("dlv-psend", p.id, uid, xformString(t), nil)
	p.gate.pass()
	p.cc.log.add("end-psend", p.id, uid, "", nil)
	return capnp.ImmediateAnswer(s.Method, resultStruct(uid, p.id)), func() {}
}

func (p *ipc) PipelineRecv(ctx context.Context, t []capnp.PipelineOp, r capnp.Recv) capnp.PipelineCaller {
	uid := r.Args.Uint64(0)
	p.cc.log.add("dlv-precv", p.id, uid, xformString(t), nil)
	p.gate.pass()
	res, err := r.AllocResults(capnp.ObjectSize{DataSize: 16})
	if err == nil {
		res.SetUint64(0, uid)
		res.SetUint64(8, uint64(p.id))
		r.Return()
	} else {
		r.Reject(err)
	}
	p.cc.log.add("end-precv", p.id, uid, "", nil)
	return nil
}

// ---------------------------------------------------------------------------
// Yield policy: a pure function of (sub-seed, site, per-site counter).

const maxSite = 400

type yieldPolicy struct {
	seed uint64
	hot  [maxSite]bool
	cnt  [maxSite]uint32
}

var (
	curPolicy atomic.Value // *yieldPolicy
	siteHits  [maxSite]int64
	yieldActs [4]int64 // none, gosched, sleep, (unused)
)

func mix64(a, b, c uint64) uint64 {
	z := a ^ (b * 0x9e3779b97f4a7c15) ^ (c * 0xd1342543de82ef95)
	z = (z ^ (z >> 30)) * 0xbf58476d1ce4e5b9
	z = (z ^ (z >> 27)) * 0x94d049bb133111eb
	return z ^ (z >> 31)
}

func yieldHook(site int) {
	if site < 0 || site >= maxSite {
		return
	}
	atomic.AddInt64(&siteHits[site], 1)
	p, _ := curPolicy.Load().(*yieldPolicy)
	if p == nil || p.seed == 0 {
		return
	}
	n := atomic.AddUint32(&p.cnt[site], 1)
	h := mix64(p.seed, uint64(site), uint64(n))
	r := h % 100
	amt := (h >> 8) % 1000
	if p.hot[site] {
		switch {
		case r < 35:
			atomic.AddInt64(&yieldActs[2], 1)
			time.Sleep(time.Duration(20+amt*280/1000) * time.Microsecond)
		case r < 80:
			atomic.AddInt64(&yieldActs[1], 1)
			for i := uint64(0); i <= amt%3; i++ {
				runtime.Gosched()
			}
		default:
			atomic.AddInt64(&yieldActs[0], 1)
		}
		return
	}
	switch {
	case r < 3:
		atomic.AddInt64(&yieldActs[2], 1)
		time.Sleep(time.Duration(20+amt*280/1000) * time.Microsecond)
	case r < 25:
		atomic.AddInt64(&yieldActs[1], 1)
		for i := uint64(0); i <= amt%3; i++ {
			runtime.Gosched()
		}
	default:
		atomic.AddInt64(&yieldActs[0], 1)
	}
}

// policySalt varies the yield policy between repetitions of one case
// (single-case replays re-run the same scenario under many policies).
var policySalt uint64

// setPolicy installs the policy of one run.  seed 0 = no perturbation.
func setPolicy(seed uint64, sites []int) {
	if seed != 0 && policySalt != 0 {
		seed = mix64(seed, policySalt, 0x51) | 1
	}
	p := &yieldPolicy{seed: seed}
	if seed != 0 && len(sites) > 0 {
		r := common.NewRNG(seed)
		nhot := 1 + r.Intn(4)
		for i := 0; i < nhot; i++ {
			p.hot[sites[r.Intn(len(sites))]] = true
		}
	}
	curPolicy.Store(p)
}

func installYield() { verifhook.Set(yieldHook) }

func flushSiteHistogram(rec *common.Recorder) {
	for s := 0; s < maxSite; s++ {
		if n := atomic.LoadInt64(&siteHits[s]); n > 0 {
			rec.Count(fmt.Sprintf("site_%03d", s), n)
		}
	}
	rec.Count("yield_none", atomic.LoadInt64(&yieldActs[0]))
	rec.Count("yield_gosched", atomic.LoadInt64(&yieldActs[1]))
	rec.Count("yield_sleep", atomic.LoadInt64(&yieldActs[2]))
}

var capSites = []int{100, 101, 102, 103, 104, 105, 106, 107, 108, 109, 110, 111}
var ansSites = []int{100, 101, 102, 105, 106, 120, 121, 122, 123, 124, 125, 126, 127, 128, 130, 132, 133, 134, 135, 140, 142, 143, 144, 145, 150, 151, 152, 153, 160, 161, 162, 165, 166}
var srvSites = []int{200, 201, 202, 203, 204, 205, 206, 207, 210, 211, 220, 221, 222, 223, 224, 225, 226, 230, 231, 232, 130, 132, 133, 140, 142, 143}

// run executes one library call in its own goroutine and waits for it under
// the deadlock watch (so a call that never returns is a verdict, not a hang
// of the driver).
func (cc *caseCtx) run(name string, f func()) bool { return cc.join(cc.goOp(name, f)) }
