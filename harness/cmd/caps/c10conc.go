// C10 concurrent mode: 2-6 worker goroutines over one set of handles; a
// statically generated plan guarantees every documented precondition under
// any interleaving; an interval-based trace checker uses only real-time
// ordered facts.
package main

import (
	"context"
	"fmt"
	"runtime"
	"strings"
	"sync"
	"sync/atomic"

	"capnproto.org/go/capnp/v3"
	"capnproto.org/go/capnp/v3/zverif/common"
)

type rootRef struct {
	Promise bool `json:"p,omitempty"`
	Idx     int  `json:"i"`
}

// chandle: one *capnp.Client owned by the plan.
type chandle struct {
	id       int
	root     rootRef
	shared   bool
	releaser int // worker that releases a shared handle in-script, -1 = epilogue
	owner    int // worker owning a private handle

	mu        sync.Mutex
	c         *capnp.Client
	valid     bool  // creation happened
	nilClient bool  // creation returned nil
	createRet int64 // stamp after the creating call returned
	relCall   int64 // stamp before Release was called (0 = not yet)
	relRet    int64
}

func (h *chandle) get() (*capnp.Client, bool) {
	h.mu.Lock()
	defer h.mu.Unlock()
	return h.c, h.valid
}

type cweak struct {
	id    int
	root  rootRef
	owner int
	drain int // handle id whose Release (last strong ref) this weak ref races with, -1 = none
	w     *capnp.WeakClient
	valid bool
}

type cprom struct {
	idx      int
	hook     int
	cp       *capnp.ClientPromise
	worker   int // fulfilling worker, -1 = epilogue
	target   int // shared handle id, -1 = nil
	fulCall  int64
	fulRet   int64
	inScript bool
}

type copKind int

const (
	opAddRef copKind = iota
	opRelease
	opWeakRef
	opWeakAdd
	opCall
	opACall
	opFulfill
	opState
	opIsSame
	opResolve
	opString
	opArm
	opOpen
	opBarrier
	opYield
	opWaitInvalid
)

var copNames = []string{"addref", "release", "weakref", "weakadd", "call", "acall", "fulfill", "state", "issame", "resolve", "string", "arm", "open", "barrier", "yield", "waitinvalid"}

type cop struct {
	Kind copKind `json:"-"`
	K    string  `json:"k"`
	H    int     `json:"h,omitempty"`  // handle id (source)
	H2   int     `json:"h2,omitempty"` // second handle / result handle
	W    int     `json:"w,omitempty"`  // weak id
	P    int     `json:"p,omitempty"`  // promise idx / hook idx / barrier id
	Recv bool    `json:"recv,omitempty"`
}

// record of an executed call / weak upgrade
type callRec struct {
	uid      uint64
	h        int
	recv     bool
	tCall    int64
	tRet     int64
	cls      string // error class of the answer ("" = success)
	finished bool
}

type weakRec struct {
	afterInvalid bool // the only strong handle was seen invalid (its Release had dropped the reference) before the upgrade was issued
	w            int
	tCall        int64
	tRet         int64
	ok           bool
	gotNil       bool
}

type c10conc struct {
	cc       *caseCtx
	nreal    int
	hooks    []*ihook
	handles  []*chandle
	weaks    []*cweak
	proms    []*cprom
	scripts  [][]cop
	barriers []*gate
	barrMu   sync.Mutex
	barrCnt  map[int]int

	partnerReqs []partnerReq
	drainHook   int // index of the hook of the draining-call scenario, -1 = none
	drainHandle int
	drainWeak   int

	anyFinished int32
	uid         uint64

	mu     sync.Mutex
	calls  []*callRec
	wrecs  []weakRec
	asyncs []*asyncOp
	relOps int64
}

func (s *c10conc) hookOfRoot(r rootRef) int {
	if r.Promise {
		return s.proms[r.Idx].hook
	}
	return r.Idx
}

// ---- plan generation -------------------------------------------------------

func (s *c10conc) plan(rng *common.RNG) {
	cc := s.cc
	s.nreal = rng.Range(1, 3)
	nprom := rng.Range(0, 3)
	if rng.Chance(2, 3) && nprom == 0 {
		nprom = 1
	}
	nworkers := rng.Range(2, 6)
	for i := 0; i < s.nreal+nprom; i++ {
		s.hooks = append(s.hooks, cc.newHook(i))
	}
	// shared handles: one per real hook and per promise, plus AddRef copies
	addShared := func(root rootRef) *chandle {
		h := &chandle{id: len(s.handles), root: root, shared: true, releaser: -1, owner: -1}
		s.handles = append(s.handles, h)
		return h
	}
	for k := 0; k < s.nreal; k++ {
		addShared(rootRef{Idx: k})
	}
	for j := 0; j < nprom; j++ {
		s.proms = append(s.proms, &cprom{idx: j, hook: s.nreal + j, worker: -1, target: -1})
		addShared(rootRef{Promise: true, Idx: j})
	}
	base := len(s.handles)
	for len(s.handles) < 6 && rng.Chance(3, 5) {
		src := s.handles[rng.Intn(base)]
		addShared(src.root)
	}
	// promise plans: target nil or a shared handle with root real / lower promise
	usedAsTarget := map[int]bool{}
	for j, p := range s.proms {
		if rng.Chance(1, 6) {
			continue // fulfilled (nil) or dropped in the epilogue
		}
		p.inScript = true
		p.worker = rng.Intn(nworkers)
		if rng.Chance(1, 6) {
			p.target = -1
		} else {
			var cand []int
			for _, h := range s.handles {
				if !h.root.Promise || h.root.Idx < j {
					cand = append(cand, h.id)
				}
			}
			p.target = cand[rng.Intn(len(cand))]
			usedAsTarget[p.target] = true
		}
	}
	// in-script releasers for shared handles that are not fulfil targets
	for _, h := range s.handles {
		if !usedAsTarget[h.id] && rng.Chance(1, 2) {
			h.releaser = rng.Intn(nworkers)
		}
	}
	// worker scripts
	s.scripts = make([][]cop, nworkers)
	type wstate struct {
		live    []int // own live private handles
		dead    []int // own released private handles
		weaks   []int
		relDone map[int]bool
	}
	ws := make([]*wstate, nworkers)
	for w := range ws {
		ws[w] = &wstate{relDone: map[int]bool{}}
	}
	emit := func(w int, o cop) {
		o.K = copNames[o.Kind]
		s.scripts[w] = append(s.scripts[w], o)
	}
	epilogueShared := func() []int {
		var out []int
		for _, h := range s.handles {
			if h.shared && h.releaser == -1 {
				out = append(out, h.id)
			}
		}
		return out
	}
	allShared := func() []int {
		var out []int
		for _, h := range s.handles {
			if h.shared {
				out = append(out, h.id)
			}
		}
		return out
	}
	newPrivate := func(w int, root rootRef) int {
		h := &chandle{id: len(s.handles), root: root, owner: w, releaser: -1}
		s.handles = append(s.handles, h)
		return h.id
	}
	// srcFor picks a handle that is guaranteed not to be released while w uses it.
	srcFor := func(w int) (int, bool) {
		var cand []int
		cand = append(cand, epilogueShared()...)
		cand = append(cand, ws[w].live...)
		if len(cand) == 0 {
			return 0, false
		}
		return cand[rng.Intn(len(cand))], true
	}
	anyFor := func(w int) int {
		var cand []int
		cand = append(cand, allShared()...)
		cand = append(cand, ws[w].live...)
		cand = append(cand, ws[w].dead...)
		return cand[rng.Intn(len(cand))]
	}
	genOp := func(w int) {
		st := ws[w]
		r := rng.Intn(100)
		switch {
		case r < 18:
			if src, ok := srcFor(w); ok && len(st.live) < 4 {
				id := newPrivate(w, s.handles[src].root)
				st.live = append(st.live, id)
				emit(w, cop{Kind: opAddRef, H: src, H2: id})
			}
		case r < 36:
			// release own private, or a shared handle this worker must release
			var mine []int
			for _, h := range s.handles {
				if h.shared && h.releaser == w && !st.relDone[h.id] {
					mine = append(mine, h.id)
				}
			}
			if len(mine) > 0 && (len(st.live) == 0 || rng.Chance(1, 3)) {
				id := mine[rng.Intn(len(mine))]
				st.relDone[id] = true
				emit(w, cop{Kind: opRelease, H: id})
			} else if len(st.live) > 0 {
				i := rng.Intn(len(st.live))
				id := st.live[i]
				st.live = append(st.live[:i], st.live[i+1:]...)
				st.dead = append(st.dead, id)
				emit(w, cop{Kind: opRelease, H: id})
			}
		case r < 41:
			if src, ok := srcFor(w); ok && len(s.weaks) < 3 {
				wk := &cweak{id: len(s.weaks), root: s.handles[src].root, owner: w, drain: -1}
				s.weaks = append(s.weaks, wk)
				st.weaks = append(st.weaks, wk.id)
				emit(w, cop{Kind: opWeakRef, H: src, W: wk.id})
			}
		case r < 48:
			if len(st.weaks) > 0 && len(st.live) < 4 {
				wi := st.weaks[rng.Intn(len(st.weaks))]
				id := newPrivate(w, s.weaks[wi].root)
				st.live = append(st.live, id)
				emit(w, cop{Kind: opWeakAdd, W: wi, H2: id})
			}
		case r < 72:
			k := opCall
			if rng.Chance(1, 4) {
				k = opACall
			}
			emit(w, cop{Kind: k, H: anyFor(w), Recv: rng.Chance(1, 3)})
		case r < 80:
			emit(w, cop{Kind: opState, H: anyFor(w)})
		case r < 84:
			a, ok1 := srcFor(w)
			b, ok2 := srcFor(w)
			if ok1 && ok2 {
				emit(w, cop{Kind: opIsSame, H: a, H2: b})
			}
		case r < 87:
			emit(w, cop{Kind: opResolve, H: anyFor(w)})
		case r < 89:
			emit(w, cop{Kind: opString, H: anyFor(w)})
		case r < 91:
			emit(w, cop{Kind: opArm, P: rng.Intn(len(s.hooks))})
		case r < 97:
			emit(w, cop{Kind: opOpen, P: rng.Intn(len(s.hooks))})
		default:
			emit(w, cop{Kind: opYield})
		}
	}
	lens := make([]int, nworkers)
	for w := 0; w < nworkers; w++ {
		lens[w] = rng.Range(6, 24)
	}
	// fulfil positions
	fulAt := map[int][]*cprom{}
	for _, p := range s.proms {
		if p.inScript {
			fulAt[p.worker] = append(fulAt[p.worker], p)
		}
	}
	for w := 0; w < nworkers; w++ {
		fuls := fulAt[w]
		pos := map[int]*cprom{}
		for _, p := range fuls {
			at := rng.Intn(lens[w])
			for pos[at] != nil {
				at = (at + 1) % lens[w]
			}
			pos[at] = p
		}
		for i := 0; i < lens[w]; i++ {
			if p := pos[i]; p != nil {
				// rendezvous with another worker right before the Fulfill so
				// that the partner's next operation (on a handle rooted at
				// this promise, if it has one) races with it.
				if nworkers > 1 && rng.Chance(3, 4) {
					b := len(s.barriers)
					s.barriers = append(s.barriers, s.cc.newGate())
					partner := (w + 1 + rng.Intn(nworkers-1)) % nworkers
					emit(w, cop{Kind: opBarrier, P: b})
					s.pendingPartner(partner, b, p.idx)
				}
				emit(w, cop{Kind: opFulfill, P: p.idx})
				continue
			}
			genOp(w)
		}
	}
	// partners: insert barrier + an op on a handle rooted at the promise
	for _, pp := range s.partnerReqs {
		w := pp.worker
		st := ws[w]
		root := rootRef{Promise: true, Idx: pp.prom}
		// a private handle rooted at the promise, created at the start of the script
		var src = -1
		for _, h := range s.handles {
			if h.shared && h.releaser == -1 && h.root == root {
				src = h.id
			}
		}
		var pre []cop
		var racer cop
		if src >= 0 && rng.Chance(3, 4) {
			id := newPrivate(w, root)
			pre = append(pre, cop{Kind: opAddRef, K: "addref", H: src, H2: id})
			switch rng.Intn(3) {
			case 0, 1:
				racer = cop{Kind: opRelease, K: "release", H: id}
				st.dead = append(st.dead, id)
			default:
				racer = cop{Kind: opCall, K: "call", H: id}
				st.live = append(st.live, id)
			}
		} else {
			racer = cop{Kind: opYield, K: "yield"}
		}
		at := 0
		if n := len(s.scripts[w]); n > 0 {
			at = rng.Intn(n + 1)
		}
		var ns []cop
		ns = append(ns, pre...)
		ns = append(ns, s.scripts[w][:at]...)
		ns = append(ns, cop{Kind: opBarrier, K: "barrier", P: pp.barrier}, racer)
		ns = append(ns, s.scripts[w][at:]...)
		s.scripts[w] = ns
	}
	// Draining-call scenario (half of the cases): a dedicated hook D with one
	// strong handle hd and a weak reference created in the prologue.  Worker
	// A arms D, starts an asynchronous call through hd (it blocks in D),
	// then releases hd - the last strong reference - which blocks on the
	// call.  Worker B waits until hd is invalid (= the Release has dropped
	// the reference) and upgrades the weak reference: it must be refused.
	s.drainHook, s.drainHandle, s.drainWeak = -1, -1, -1
	if nworkers >= 2 && rng.Chance(1, 2) {
		a := rng.Intn(nworkers)
		b := (a + 1 + rng.Intn(nworkers-1)) % nworkers
		s.drainHook = len(s.hooks)
		s.hooks = append(s.hooks, cc.newHook(s.drainHook))
		hd := &chandle{id: len(s.handles), root: rootRef{Idx: s.drainHook}, owner: a, releaser: -1}
		s.handles = append(s.handles, hd)
		s.drainHandle = hd.id
		wk := &cweak{id: len(s.weaks), root: hd.root, owner: b, drain: hd.id}
		s.weaks = append(s.weaks, wk)
		s.drainWeak = wk.id
		up := newPrivate(b, hd.root)
		ws[b].live = append(ws[b].live, up)
		bar := len(s.barriers)
		s.barriers = append(s.barriers, nil)
		fa := []cop{{Kind: opArm, K: "arm", P: s.drainHook}, {Kind: opACall, K: "acall", H: hd.id, Recv: rng.Chance(1, 3)},
			{Kind: opBarrier, K: "barrier", P: bar}, {Kind: opRelease, K: "release", H: hd.id}}
		fb := []cop{{Kind: opBarrier, K: "barrier", P: bar}, {Kind: opWaitInvalid, K: "waitinvalid", H: hd.id}, {Kind: opWeakAdd, K: "weakadd", W: wk.id, H2: up}}
		ins := func(w int, f []cop) {
			at := 0
			if n := len(s.scripts[w]); n > 0 {
				at = rng.Intn(n/2 + 1)
			}
			var ns []cop
			ns = append(ns, s.scripts[w][:at]...)
			ns = append(ns, f...)
			ns = append(ns, s.scripts[w][at:]...)
			s.scripts[w] = ns
		}
		ins(a, fa)
		ins(b, fb)
	}
	// every worker releases a random subset of what it still holds
	for w := 0; w < nworkers; w++ {
		st := ws[w]
		for _, h := range s.handles {
			if h.shared && h.releaser == w && !st.relDone[h.id] {
				st.relDone[h.id] = true
				emit(w, cop{Kind: opRelease, H: h.id})
			}
		}
		for _, id := range st.live {
			if rng.Chance(2, 3) {
				emit(w, cop{Kind: opRelease, H: id})
			}
		}
	}
}

type partnerReq struct{ worker, barrier, prom int }

func (s *c10conc) pendingPartner(w, b, prom int) {
	s.partnerReqs = append(s.partnerReqs, partnerReq{w, b, prom})
}

// ---- execution -------------------------------------------------------------

func (s *c10conc) doRelease(h *chandle) {
	c, ok := h.get()
	if !ok {
		return
	}
	h.mu.Lock()
	if h.relCall != 0 {
		h.mu.Unlock()
		return
	}
	h.relCall = s.cc.log.tick()
	h.mu.Unlock()
	atomic.AddInt64(&s.relOps, 1)
	atomic.AddInt64(&s.cc.pending, 1)
	p := common.Guard(func() { c.Release() })
	atomic.AddInt64(&s.cc.pending, -1)
	atomic.AddInt64(&s.cc.progress, 1)
	t := s.cc.log.tick()
	h.mu.Lock()
	h.relRet = t
	h.mu.Unlock()
	s.cc.panicViolation("Release", p)
}

func (s *c10conc) doCall(h *chandle, recv bool, rec *callRec) {
	c, ok := h.get()
	if !ok {
		return
	}
	var cls string
	var p *common.Panic
	atomic.AddInt64(&s.cc.pending, 1)
	if recv {
		r, rt := s.cc.recvFor(rec.uid, 1)
		p = common.Guard(func() { c.RecvCall(context.Background(), r) })
		if p == nil {
			if !rt.returned() {
				s.cc.violate("C10/recv-not-returned", "RecvCall finished but the Returner was never called", fmt.Sprintf("uid=%d", rec.uid))
			} else {
				_, err := rt.result()
				cls = errClass(err)
			}
		}
	} else {
		var ans *capnp.Answer
		p = common.Guard(func() { ans, _ = c.SendCall(context.Background(), sendFor(rec.uid, 1)) })
		if p == nil && ans != nil {
			_, err := ans.Struct()
			cls = errClass(err)
		}
	}
	atomic.AddInt64(&s.cc.pending, -1)
	atomic.AddInt64(&s.cc.progress, 1)
	t := s.cc.log.tick()
	s.mu.Lock()
	rec.tRet, rec.cls, rec.finished = t, cls, p == nil
	s.mu.Unlock()
	s.cc.panicViolation("call", p)
}

func (s *c10conc) fulfill(p *cprom) {
	var tc *capnp.Client
	if p.target >= 0 {
		tc, _ = s.handles[p.target].get()
	}
	s.mu.Lock()
	p.fulCall = s.cc.log.tick()
	s.mu.Unlock()
	atomic.AddInt64(&s.cc.pending, 1)
	pan := common.Guard(func() { p.cp.Fulfill(tc) })
	atomic.AddInt64(&s.cc.pending, -1)
	atomic.AddInt64(&s.cc.progress, 1)
	t := s.cc.log.tick()
	s.mu.Lock()
	p.fulRet = t
	s.mu.Unlock()
	s.cc.panicViolation("Fulfill", pan)
}

func (s *c10conc) setHandle(h *chandle, c *capnp.Client) {
	t := s.cc.log.tick()
	h.mu.Lock()
	h.c, h.valid, h.nilClient, h.createRet = c, true, c == nil, t
	h.mu.Unlock()
}

func (s *c10conc) worker(w int) {
	cc := s.cc
	sawInvalid := map[int]bool{}
	for _, o := range s.scripts[w] {
		switch o.Kind {
		case opAddRef:
			src, ok := s.handles[o.H].get()
			if !ok {
				continue
			}
			var c *capnp.Client
			cc.panicViolation("AddRef", common.Guard(func() { c = src.AddRef() }))
			s.setHandle(s.handles[o.H2], c)
		case opRelease:
			s.doRelease(s.handles[o.H])
		case opWeakRef:
			src, ok := s.handles[o.H].get()
			if !ok {
				continue
			}
			wk := s.weaks[o.W]
			cc.panicViolation("WeakRef", common.Guard(func() { wk.w = src.WeakRef() }))
			wk.valid = true
		case opWeakAdd:
			wk := s.weaks[o.W]
			if !wk.valid {
				continue
			}
			var c *capnp.Client
			var okk bool
			t0 := cc.log.tick()
			pan := common.Guard(func() { c, okk = wk.w.AddRef() })
			t1 := cc.log.tick()
			cc.panicViolation("WeakClient.AddRef", pan)
			if pan == nil {
				s.mu.Lock()
				s.wrecs = append(s.wrecs, weakRec{w: o.W, tCall: t0, tRet: t1, ok: okk, gotNil: c == nil, afterInvalid: wk.drain >= 0 && sawInvalid[wk.drain]})
				s.mu.Unlock()
				if !okk {
					c = nil
				}
				s.setHandle(s.handles[o.H2], c)
			}
		case opCall, opACall:
			h := s.handles[o.H]
			rec := &callRec{uid: atomic.AddUint64(&s.uid, 1), h: o.H, recv: o.Recv, tCall: cc.log.tick()}
			s.mu.Lock()
			s.calls = append(s.calls, rec)
			s.mu.Unlock()
			if o.Kind == opACall {
				a := &asyncOp{name: "async call", done: make(chan struct{})}
				s.mu.Lock()
				s.asyncs = append(s.asyncs, a)
				s.mu.Unlock()
				recvFlag := o.Recv
				go func() {
					s.doCall(h, recvFlag, rec)
					close(a.done)
				}()
			} else {
				s.doCall(h, o.Recv, rec)
			}
		case opFulfill:
			s.fulfill(s.proms[o.P])
		case opState:
			if c, ok := s.handles[o.H].get(); ok {
				cc.panicViolation("State", common.Guard(func() { c.State(); c.IsValid() }))
			}
		case opIsSame:
			a, ok1 := s.handles[o.H].get()
			b, ok2 := s.handles[o.H2].get()
			if ok1 && ok2 {
				cc.panicViolation("IsSame", common.Guard(func() { a.IsSame(b) }))
			}
		case opResolve:
			if c, ok := s.handles[o.H].get(); ok {
				ctx, cancel := context.WithCancel(context.Background())
				cancel()
				cc.panicViolation("Resolve", common.Guard(func() { c.Resolve(ctx) }))
			}
		case opString:
			if c, ok := s.handles[o.H].get(); ok {
				cc.panicViolation("String", common.Guard(func() { _ = c.String() }))
			}
		case opArm:
			if atomic.LoadInt32(&s.anyFinished) == 0 {
				s.hooks[o.P].gate.arm()
			}
		case opOpen:
			s.hooks[o.P].gate.open()
		case opBarrier:
			s.barrier(o.P)
		case opYield:
			runtime.Gosched()
		case opWaitInvalid:
			// bounded wait until the handle's Release has dropped its reference
			if c, ok := s.handles[o.H].get(); ok {
				for i := 0; i < 20000 && !sawInvalid[o.H]; i++ {
					valid := true
					cc.panicViolation("IsValid", common.Guard(func() { valid = c.IsValid() }))
					if !valid {
						sawInvalid[o.H] = true
					} else {
						runtime.Gosched()
					}
				}
			}
		}
		atomic.AddInt64(&cc.progress, 1)
	}
	// first finisher disables arming; every finisher opens all gates
	atomic.StoreInt32(&s.anyFinished, 1)
	for _, h := range s.hooks {
		h.gate.open()
	}
}

// barrier: best-effort two-party rendezvous.  The first arriver spins (with
// Gosched) until the partner arrives or a bounded number of iterations has
// passed, so crossed barriers can never stall the script.
func (s *c10conc) barrier(id int) {
	s.barrMu.Lock()
	s.barrCnt[id]++
	n := s.barrCnt[id]
	s.barrMu.Unlock()
	if n >= 2 {
		return
	}
	for i := 0; i < 2000; i++ {
		runtime.Gosched()
		s.barrMu.Lock()
		n = s.barrCnt[id]
		s.barrMu.Unlock()
		if n >= 2 {
			return
		}
	}
}

// ---- checker ---------------------------------------------------------------

// refersAt: does a strong handle with this root definitely hold a reference
// on hook at time ts?
func (s *c10conc) refersAt(r rootRef, hook int, ts int64, depth int) bool {
	if depth > 8 {
		return false
	}
	if !r.Promise {
		return r.Idx == hook
	}
	p := s.proms[r.Idx]
	if p.fulCall == 0 || p.fulCall > ts {
		return p.hook == hook
	}
	if p.fulRet != 0 && p.fulRet < ts {
		if p.target < 0 {
			return false
		}
		return s.refersAt(s.handles[p.target].root, hook, ts, depth+1)
	}
	return false
}

type chainEl struct {
	hook int
	prom int // -1 for a real hook
}

// chain of hooks a call through a handle with this root can legally reach.
func (s *c10conc) chain(r rootRef) (els []chainEl, endsNil bool) {
	for depth := 0; depth < 10; depth++ {
		if !r.Promise {
			els = append(els, chainEl{r.Idx, -1})
			return els, false
		}
		p := s.proms[r.Idx]
		els = append(els, chainEl{p.hook, p.idx})
		if p.fulCall == 0 {
			return els, false
		}
		if p.target < 0 {
			return els, true
		}
		r = s.handles[p.target].root
	}
	return els, false
}

func (s *c10conc) check() {
	cc := s.cc
	evs := cc.log.snapshot()
	shutAt := map[int]int64{}
	for _, e := range evs {
		if e.K == "shutdown" {
			if _, dup := shutAt[e.O]; !dup {
				shutAt[e.O] = e.T
			}
		}
	}
	// (a) shutdown while a strong reference is definitely live
	for hook, ts := range shutAt {
		for _, h := range s.handles {
			h.mu.Lock()
			valid, nilc, cr, rc := h.valid, h.nilClient, h.createRet, h.relCall
			h.mu.Unlock()
			if !valid || nilc || cr == 0 || cr >= ts {
				continue
			}
			if rc != 0 && rc < ts {
				continue
			}
			if !s.refersAt(h.root, hook, ts, 0) {
				continue
			}
			sig := "C10/shutdown-while-referenced"
			what := "hook shut down while a strong reference created before and released after the Shutdown was live"
			for _, p := range s.proms {
				if p.fulCall != 0 && p.fulCall < ts && (p.fulRet == 0 || p.fulRet > ts) && p.target >= 0 && s.refersAt(s.handles[p.target].root, hook, ts, 0) {
					sig += "/fulfill-window"
					what += " (a ClientPromise.Fulfill to this capability was in progress)"
					break
				}
			}
			cc.violate(sig, what, fmt.Sprintf("hook=%d shutdown@%d handle=%d root=%+v created@%d releaseCalled@%d", hook, ts, h.id, h.root, cr, rc))
		}
	}
	// (b) calls
	dlv := map[uint64][]event{}
	for _, e := range evs {
		if strings.HasPrefix(e.K, "dlv-") {
			dlv[e.U] = append(dlv[e.U], e)
		}
	}
	for _, c := range s.calls {
		if !c.finished {
			continue
		}
		h := s.handles[c.h]
		h.mu.Lock()
		cr, rc, rr, nilc := h.createRet, h.relCall, h.relRet, h.nilClient
		h.mu.Unlock()
		ds := dlv[c.uid]
		if len(ds) > 1 {
			cc.violate("C10/call-delivered-twice", "one call delivered more than once", fmt.Sprintf("uid=%d %v", c.uid, ds))
			continue
		}
		els, _ := s.chain(h.root)
		liveThroughout := cr != 0 && cr < c.tCall && (rc == 0 || rc > c.tRet) && !nilc
		if len(ds) == 1 {
			cc.rec.Count("c10conc_call_delivered", 1)
			d := ds[0]
			if rr != 0 && rr < c.tCall {
				cc.violate("C10/call-through-dead-handle-delivered", "call issued after Release of the handle returned reached a hook", fmt.Sprintf("uid=%d hook=%d", c.uid, d.O))
				continue
			}
			pos := -1
			for i, el := range els {
				if el.hook == d.O {
					pos = i
				}
			}
			if pos < 0 {
				cc.violate("C10/call-misdelivered", "call delivered to a hook that is not on the handle's resolution chain", fmt.Sprintf("uid=%d hook=%d chain=%v", c.uid, d.O, els))
				continue
			}
			for i := 0; i < pos; i++ {
				p := s.proms[els[i].prom]
				if p.fulCall == 0 || p.fulCall > c.tRet {
					cc.violate("C10/call-delivered-past-unfulfilled-promise", "call reached the target of a promise whose Fulfill had not been called yet", fmt.Sprintf("uid=%d hook=%d promise=%d", c.uid, d.O, p.idx))
				}
			}
			if pr := els[pos].prom; pr >= 0 {
				cc.rec.Count("c10conc_call_delivered_to_promise_hook", 1)
				p := s.proms[pr]
				if p.fulRet != 0 && p.fulRet < c.tCall {
					cc.violate("C10/call-delivered-to-resolved-promise-hook", "call issued after ClientPromise.Fulfill returned was still sent to the promise's own hook", fmt.Sprintf("uid=%d hook=%d fulfillReturned@%d callIssued@%d", c.uid, d.O, p.fulRet, c.tCall))
				}
			} else if pos > 0 {
				cc.rec.Count("c10conc_call_delivered_through_promise", 1)
			}
			continue
		}
		// not delivered
		cc.rec.Count("c10conc_call_not_delivered", 1)
		if !liveThroughout {
			continue
		}
		canBeNull := false
		for _, el := range els {
			if el.prom >= 0 {
				p := s.proms[el.prom]
				if p.target < 0 && p.fulCall != 0 && p.fulCall < c.tRet {
					canBeNull = true
				}
			}
		}
		switch {
		case c.cls == "released":
			cc.violate("C10/live-call-answered-dead", "call through a handle that was live during the whole call was answered \"released client\"", fmt.Sprintf("uid=%d handle=%d", c.uid, c.h))
		case canBeNull:
		case c.cls == "null":
			cc.violate("C10/live-call-answered-dead", "call through a live, non-null handle answered \"null client\"", fmt.Sprintf("uid=%d handle=%d", c.uid, c.h))
		default:
			cc.violate("C10/call-lost", "call through a live handle was not delivered to any hook", fmt.Sprintf("uid=%d handle=%d class=%q", c.uid, c.h, c.cls))
		}
	}
	// (c) weak upgrades refused while a same-root strong handle was live
	for _, wr := range s.wrecs {
		if wr.afterInvalid {
			cc.rec.Count("c10conc_weak_upgrade_after_last_release", 1)
			if wr.ok && !wr.gotNil {
				cc.violate("C10/weak-upgrade-of-dead-hook/call-draining",
					"WeakClient.AddRef succeeded although the only strong reference had already been released (its Release was observed to have dropped the reference and was waiting for a call in progress)",
					fmt.Sprintf("weak=%d handle=%d upgrade=[%d,%d]", wr.w, s.weaks[wr.w].drain, wr.tCall, wr.tRet))
			}
		}
		if wr.ok {
			continue
		}
		cc.rec.Count("c10conc_weak_refused", 1)
		root := s.weaks[wr.w].root
		for _, h := range s.handles {
			h.mu.Lock()
			valid, nilc, cr, rc := h.valid, h.nilClient, h.createRet, h.relCall
			h.mu.Unlock()
			if valid && !nilc && h.root == root && cr < wr.tCall && (rc == 0 || rc > wr.tRet) {
				cc.violate("C10/weak-upgrade-refused-while-live", "WeakClient.AddRef refused although a strong reference to the same capability was live during the whole call", fmt.Sprintf("weak=%d handle=%d", wr.w, h.id))
				break
			}
		}
	}
	// coverage: releases overlapping a Fulfill of their own root promise
	for _, h := range s.handles {
		if !h.root.Promise || h.relCall == 0 {
			continue
		}
		p := s.proms[h.root.Idx]
		if p.fulCall != 0 && p.inScript && h.relCall < p.fulRet && p.fulCall < h.relRet {
			cc.rec.Count("c10conc_release_overlaps_fulfill", 1)
		}
	}
}

func runC10Conc(rec *common.Recorder, idx uint64, seed uint64) bool {
	rng := common.NewRNG(seed)
	cc := newCase(rec, idx)
	s := &c10conc{cc: cc, barrCnt: map[int]int{}}
	s.plan(rng.Fork())
	setPolicy(rng.Uint64()|1, capSites)
	rec.Case(idx, fmt.Sprintf("c10conc workers=%d hooks=%d promises=%d handles=%d", len(s.scripts), len(s.hooks), len(s.proms), len(s.handles)))

	// prologue (sequential): create shared handles
	for k := 0; k < s.nreal; k++ {
		s.setHandle(s.handles[k], capnp.NewClient(s.hooks[k]))
	}
	for j, p := range s.proms {
		c, cp := capnp.NewPromisedClient(s.hooks[p.hook])
		p.cp = cp
		s.setHandle(s.handles[s.nreal+j], c)
	}
	for _, h := range s.handles {
		if h.shared && !h.valid {
			// AddRef copy of the first shared handle with the same root
			for _, src := range s.handles {
				if src.shared && src.valid && src.root == h.root {
					s.setHandle(h, src.c.AddRef())
					break
				}
			}
		}
	}

	if s.drainHandle >= 0 {
		c := capnp.NewClient(s.hooks[s.drainHook])
		s.setHandle(s.handles[s.drainHandle], c)
		wk := s.weaks[s.drainWeak]
		wk.w, wk.valid = c.WeakRef(), true
	}

	var wg sync.WaitGroup
	var nfin int32
	nw := len(s.scripts)
	for w := 0; w < nw; w++ {
		wg.Add(1)
		go func(w int) {
			defer wg.Done()
			defer atomic.AddInt32(&nfin, 1)
			s.worker(w)
		}(w)
	}
	ok := cc.await("worker scripts", func() bool { return atomic.LoadInt32(&nfin) == int32(nw) })
	if ok {
		wg.Wait()
		cc.openAll()
		s.mu.Lock()
		as := append([]*asyncOp(nil), s.asyncs...)
		s.mu.Unlock()
		for _, a := range as {
			if ok = cc.await("async call", a.isDone); !ok {
				break
			}
		}
	}
	if ok && cc.numViol() > 0 {
		// a violation (e.g. a panic that left a hook mutex locked) was
		// already seen: the trace facts still hold, the end state is moot.
		s.check()
		ok = false
	}
	if ok {
		// epilogue: release everything, fulfil the rest with nil (or not at all)
		type act struct {
			h *chandle
			p *cprom
		}
		var acts []act
		for _, h := range s.handles {
			if h.valid && h.relCall == 0 {
				acts = append(acts, act{h: h})
			}
		}
		for _, p := range s.proms {
			if p.fulCall == 0 && rng.Bool() {
				acts = append(acts, act{p: p})
			}
		}
		for i := len(acts) - 1; i > 0; i-- {
			j := rng.Intn(i + 1)
			acts[i], acts[j] = acts[j], acts[i]
		}
		for _, a := range acts {
			a := a
			if a.h != nil {
				ok = cc.run("epilogue Release", func() { s.doRelease(a.h) })
			} else {
				a.p.target = -1
				ok = cc.run("epilogue Fulfill(nil)", func() { s.fulfill(a.p) })
			}
			if !ok {
				break
			}
		}
	}
	if ok {
		s.check()
		for i, h := range s.hooks {
			switch n := h.shutdowns(); {
			case n == 0:
				cc.violate("C10/shutdown-missing", "hook never shut down although every reference was released", fmt.Sprintf("hook=%d", i))
			case n == 1:
				rec.Count("c10conc_hooks_shutdown_once", 1)
			}
		}
		for _, wk := range s.weaks {
			wk := wk
			if wk.valid && wk.w != nil && cc.numViol() == 0 {
				var c *capnp.Client
				if !cc.run("WeakClient.AddRef", func() { c, _ = wk.w.AddRef() }) {
					break
				}
				if c != nil {
					cc.violate("C10/weak-upgrade-of-dead-hook", "WeakClient.AddRef succeeded after every strong reference was released", "")
				}
			}
		}
	}
	cc.openAll()

	evs := cc.log.snapshot()
	rec.Count("c10conc_scripts", 1)
	rec.Count("c10conc_release_ops", atomic.LoadInt64(&s.relOps))
	rec.Count("c10conc_calls", int64(len(s.calls)))
	fulInScript := 0
	for _, p := range s.proms {
		if p.inScript {
			fulInScript++
		}
	}
	rec.Count("c10conc_fulfills_in_script", int64(fulInScript))
	if cc.stallRecovered > 0 {
		rec.Count("c10conc_stall_recovered", int64(cc.stallRecovered))
	}
	rec.Distinct(orderHash(evs))
	if rec.WantSample() {
		rec.Sample(map[string]interface{}{"mode": "c10conc", "index": idx, "scripts": s.scripts, "events": len(evs)})
	}
	hadViol := cc.numViol() > 0
	cc.flush(map[string]interface{}{"scripts": s.scripts, "promises": s.promDesc(), "handles": s.handleDesc(), "events": tail(evs, 300)})
	return !cc.dead && !hadViol
}

func (s *c10conc) promDesc() []map[string]interface{} {
	s.mu.Lock()
	defer s.mu.Unlock()
	var out []map[string]interface{}
	for _, p := range s.proms {
		out = append(out, map[string]interface{}{"idx": p.idx, "hook": p.hook, "worker": p.worker, "target": p.target, "fulCall": p.fulCall, "fulRet": p.fulRet})
	}
	return out
}

func (s *c10conc) handleDesc() []map[string]interface{} {
	var out []map[string]interface{}
	for _, h := range s.handles {
		h.mu.Lock()
		out = append(out, map[string]interface{}{"id": h.id, "root": h.root, "shared": h.shared, "releaser": h.releaser, "owner": h.owner,
			"nil": h.nilClient, "created": h.createRet, "relCall": h.relCall, "relRet": h.relRet})
		h.mu.Unlock()
	}
	return out
}
