// caps: runtime-monitoring driver for properties C10 (capability shutdown),
// C11 (promise pipelining) and C12 (local server ordering / concurrency cap).
// See NOTES.md.
package main

import (
	"os"

	"capnproto.org/go/capnp/v3/zverif/common"
)

func main() {
	cfg := common.ParseFlags()
	rec := common.NewRecorder(cfg)
	curProp = cfg.Prop
	installYield()
	key := cfg.Prop + "/" + cfg.Mode
	for i := cfg.Start; i < cfg.Start+cfg.Count; i++ {
		seed := common.CaseSeed(cfg.Seed, key, i)
		alive := true
		switch key {
		case "C10/seq":
			alive = runC10Seq(rec, i, seed)
		case "C10/conc":
			alive = runC10Conc(rec, i, seed)
		case "C11/seq":
			alive = runC11(rec, i, seed, false)
		case "C11/conc":
			alive = runC11(rec, i, seed, true)
		case "C12/srv":
			alive = runC12(rec, i, seed, false)
		case "C12/selfpipe":
			alive = runC12(rec, i, seed, true)
		default:
			rec.Inconclusive("unknown prop/mode " + key)
			i = cfg.Start + cfg.Count
		}
		if !alive {
			// deadlock or watchdog: the process is wedged
			flushSiteHistogram(rec)
			rec.AbortBatch(i + 1)
		}
	}
	flushSiteHistogram(rec)
	rec.Finish()
	os.Exit(0)
}
