// caps: runtime-monitoring driver for properties C10 (capability shutdown),
// C11 (promise pipelining) and C12 (local server ordering / concurrency cap).
// See NOTES.md.
package main

import (
	"fmt"
	"os"

	"capnproto.org/go/capnp/v3/zverif/common"
)

func main() {
	cfg := common.ParseFlags()
	rec := common.NewRecorder(cfg)
	curProp = cfg.Prop
	installYield()
	key := cfg.Prop + "/" + cfg.Mode
	// A single-case run of a schedule-dependent mode (replay) repeats the
	// scenario under up to 200 yield policies and stops at the first
	// violation; the number of repetitions is reported.
	reps := uint64(1)
	if cfg.Count == 1 && (cfg.Mode == "conc" || cfg.Mode == "srv") {
		reps = 200
	}
	run := func(i uint64, seed uint64) bool {
		switch key {
		case "C10/seq":
			return runC10Seq(rec, i, seed)
		case "C10/conc":
			return runC10Conc(rec, i, seed)
		case "C11/seq":
			return runC11(rec, i, seed, false)
		case "C11/conc":
			return runC11(rec, i, seed, true)
		case "C12/srv":
			return runC12(rec, i, seed, false)
		case "C12/selfpipe":
			return runC12(rec, i, seed, true)
		case "C12/selfarg":
			return runC12Mode(rec, i, seed, false, true)
		case "C12/chainorder":
			return runC12Full(rec, i, seed, false, false, true)
		}
		rec.Inconclusive("unknown prop/mode " + key)
		return true
	}
	for i := cfg.Start; i < cfg.Start+cfg.Count; i++ {
		seed := common.CaseSeed(cfg.Seed, key, i)
		alive := true
		for r := uint64(0); r < reps && alive; r++ {
			policySalt = r
			alive = run(i, seed)
			if reps > 1 {
				rec.Count("replay_repetitions", 1)
			}
		}
		if !alive {
			// violation, deadlock or watchdog: goroutines / locks may be left
			// behind, so this process must not run further cases.
			flushSiteHistogram(rec)
			if cfg.Mode == "selfpipe" || cfg.Mode == "selfarg" || i+1 >= cfg.Start+cfg.Count {
				// deterministic scenarios of a known finding: resume in a fresh process
				rec.AbortBatch(i + 1)
			}
			// Cut the batch short instead of restarting a process per
			// violation; the run can no longer pass silently.
			rec.Count("cases_skipped_after_violation", int64(cfg.Start+cfg.Count-i-1))
			rec.Inconclusive(fmt.Sprintf("batch cut short after a violation at index %d", i))
			rec.AbortBatch(cfg.Start + cfg.Count)
		}
	}
	flushSiteHistogram(rec)
	rec.Finish()
	os.Exit(0)
}
