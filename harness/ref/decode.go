package ref

import (
	"fmt"
	"sort"
)

// Extent is the storage one encoded object occupies.
type Extent struct {
	Seg   int
	Start int // byte offset
	End   int // exclusive
	What  string
}

// Stats counts how pointers were resolved.
type Stats struct {
	Near, Far, DoubleFar map[string]int // keyed by target class: "struct", "list<et>", "cap"
	ZeroStructs          int
	NegativeOffsets      int
}

func newStats() *Stats {
	return &Stats{Near: map[string]int{}, Far: map[string]int{}, DoubleFar: map[string]int{}}
}

type Decoder struct {
	Segs [][]byte
	// Strict demands everything the spec says an encoder MUST do (used on
	// bytes the library produced): composite word count == n×element words,
	// landing pad of a far pointer is not itself a far pointer, cap pointer
	// upper offset bits zero, objects pairwise disjoint (checked by Overlaps).
	Strict   bool
	MaxDepth int

	Extents []Extent
	Stats   *Stats
	// PtrWords lists every pointer word visited (slots, landing pads,
	// composite tags): the mutation points of the hostile generator.
	PtrWords []PtrWord
}

// PtrWord locates one pointer-typed word of a message.
type PtrWord struct {
	Seg, W int
	Role   string // slot | pad | pad2 | tag
}

func NewDecoder(segs [][]byte, strict bool) *Decoder {
	return &Decoder{Segs: segs, Strict: strict, MaxDepth: 200, Stats: newStats()}
}

// Root decodes the root pointer (word 0 of segment 0).
func (d *Decoder) Root() (*V, error) {
	if len(d.Segs) == 0 || len(d.Segs[0]) < 8 {
		return nil, fmt.Errorf("no root word")
	}
	for i, s := range d.Segs {
		if len(s)%8 != 0 {
			return nil, fmt.Errorf("segment %d not word aligned", i)
		}
	}
	d.Extents = append(d.Extents, Extent{0, 0, 8, "root"})
	return d.ptr(0, 0, 0)
}

func (d *Decoder) word(seg, w int) (uint64, error) {
	if seg < 0 || seg >= len(d.Segs) {
		return 0, fmt.Errorf("segment %d out of range", seg)
	}
	if w < 0 || (w+1)*8 > len(d.Segs[seg]) {
		return 0, fmt.Errorf("word %d out of segment %d", w, seg)
	}
	return le64(d.Segs[seg][w*8:]), nil
}

func (d *Decoder) region(seg, startWord, words int) ([]byte, error) {
	if seg < 0 || seg >= len(d.Segs) {
		return nil, fmt.Errorf("segment %d out of range", seg)
	}
	if startWord < 0 || words < 0 || (startWord+words)*8 > len(d.Segs[seg]) {
		return nil, fmt.Errorf("region [%d,+%d) out of segment %d (%d words)", startWord, words, seg, len(d.Segs[seg])/8)
	}
	return d.Segs[seg][startWord*8 : (startWord+words)*8], nil
}

func signed30(w uint64) int { return int(int32(uint32(w)) >> 2) }

// ptr decodes the pointer stored at (seg, w).
func (d *Decoder) ptr(seg, w, depth int) (*V, error) {
	if depth > d.MaxDepth {
		return nil, fmt.Errorf("too deep")
	}
	p, err := d.word(seg, w)
	if err != nil {
		return nil, err
	}
	d.PtrWords = append(d.PtrWords, PtrWord{seg, w, "slot"})
	if p == 0 {
		return Null, nil
	}
	switch p & 3 {
	case 0, 1:
		v, err := d.object(seg, w+1+signed30(p), p, depth)
		if err == nil {
			d.Stats.Near[class(v)]++
			if signed30(p) < 0 {
				d.Stats.NegativeOffsets++
			}
		}
		return v, err
	case 3:
		return d.capPtr(p)
	}
	// far pointer
	padSeg := int(p >> 32)
	padW := int(uint32(p) >> 3)
	if p&4 == 0 {
		pad, err := d.word(padSeg, padW)
		if err != nil {
			return nil, fmt.Errorf("far landing pad: %v", err)
		}
		d.Extents = append(d.Extents, Extent{padSeg, padW * 8, padW*8 + 8, "pad1"})
		d.PtrWords = append(d.PtrWords, PtrWord{padSeg, padW, "pad"})
		if pad == 0 {
			// A null landing pad: the spec does not forbid it; it denotes null.
			if d.Strict {
				return nil, fmt.Errorf("far pointer to null landing pad")
			}
			return Null, nil
		}
		switch pad & 3 {
		case 0, 1:
			v, err := d.object(padSeg, padW+1+signed30(pad), pad, depth)
			if err == nil {
				d.Stats.Far[class(v)]++
			}
			return v, err
		case 3:
			if d.Strict {
				return nil, fmt.Errorf("far pointer to capability landing pad")
			}
			v, err := d.capPtr(pad)
			if err == nil {
				d.Stats.Far["cap"]++
			}
			return v, err
		default:
			return nil, fmt.Errorf("landing pad is a far pointer")
		}
	}
	// double far
	pad0, err := d.word(padSeg, padW)
	if err != nil {
		return nil, fmt.Errorf("double-far landing pad: %v", err)
	}
	tag, err := d.word(padSeg, padW+1)
	if err != nil {
		return nil, fmt.Errorf("double-far landing pad tag: %v", err)
	}
	d.Extents = append(d.Extents, Extent{padSeg, padW * 8, padW*8 + 16, "pad2"})
	d.PtrWords = append(d.PtrWords, PtrWord{padSeg, padW, "pad2"}, PtrWord{padSeg, padW + 1, "pad2"})
	if pad0&7 != 2 {
		return nil, fmt.Errorf("double-far pad word 0 is not a far pointer")
	}
	if tag&3 > 1 {
		return nil, fmt.Errorf("double-far tag is not struct/list")
	}
	if signed30(tag) != 0 {
		return nil, fmt.Errorf("double-far tag offset not zero")
	}
	v, err := d.object(int(pad0>>32), int(uint32(pad0)>>3), tag, depth)
	if err == nil {
		d.Stats.DoubleFar[class(v)]++
	}
	return v, err
}

func class(v *V) string {
	switch v.Kind {
	case KStruct:
		return "struct"
	case KList:
		return fmt.Sprintf("list%d", v.ET)
	case KCap:
		return "cap"
	}
	return "null"
}

func (d *Decoder) capPtr(p uint64) (*V, error) {
	if uint32(p)>>2 != 0 {
		return nil, fmt.Errorf("unknown other-pointer type")
	}
	return NewCap(uint32(p >> 32)), nil
}

// object decodes the struct or list described by pointer word desc whose
// content starts at word tw of segment seg.
func (d *Decoder) object(seg, tw int, desc uint64, depth int) (*V, error) {
	if desc&3 == 0 {
		dw := int(uint16(desc >> 32))
		pw := int(uint16(desc >> 48))
		return d.structAt(seg, tw, dw, pw, depth, true)
	}
	et := int(desc>>32) & 7
	n := int(desc >> 35)
	switch et {
	case ETVoid:
		// No storage, but the address must still be inside the segment
		// (or one past the end).
		if _, err := d.region(seg, tw, 0); err != nil {
			return nil, err
		}
		return &V{Kind: KList, ET: ETVoid, N: n}, nil
	case ETBit, ETByte1, ETByte2, ETByte4, ETByte8:
		var nbytes int
		if et == ETBit {
			nbytes = (n + 7) / 8
		} else {
			nbytes = n * ElemBytes(et)
		}
		words := (nbytes + 7) / 8
		b, err := d.region(seg, tw, words)
		if err != nil {
			return nil, err
		}
		d.ext(seg, tw, words, "list")
		data := append([]byte(nil), b[:nbytes]...)
		if et == ETBit && n%8 != 0 {
			// the unused bits of the last byte are padding, not value
			data[nbytes-1] &= byte(1)<<uint(n%8) - 1
		}
		return &V{Kind: KList, ET: et, N: n, Data: data}, nil
	case ETPtr:
		if _, err := d.region(seg, tw, n); err != nil {
			return nil, err
		}
		d.ext(seg, tw, n, "ptrlist")
		v := &V{Kind: KList, ET: ETPtr, N: n, Ptrs: make([]*V, n)}
		for i := 0; i < n; i++ {
			c, err := d.ptr(seg, tw+i, depth+1)
			if err != nil {
				return nil, fmt.Errorf("[%d]: %v", i, err)
			}
			v.Ptrs[i] = c
		}
		return v, nil
	default: // composite
		if _, err := d.region(seg, tw, n+1); err != nil {
			return nil, err
		}
		tag, _ := d.word(seg, tw)
		d.PtrWords = append(d.PtrWords, PtrWord{seg, tw, "tag"})
		if tag&3 != 0 {
			return nil, fmt.Errorf("composite tag is not a struct pointer")
		}
		cnt := signed30(tag)
		dw := int(uint16(tag >> 32))
		pw := int(uint16(tag >> 48))
		if cnt < 0 {
			return nil, fmt.Errorf("composite count negative")
		}
		if cnt*(dw+pw) > n {
			return nil, fmt.Errorf("composite elements exceed word count")
		}
		if d.Strict && cnt*(dw+pw) != n {
			return nil, fmt.Errorf("composite word count %d != %d×%d", n, cnt, dw+pw)
		}
		d.ext(seg, tw, n+1, "composite")
		v := &V{Kind: KList, ET: ETComposite, N: cnt, ElemDW: dw, ElemPW: pw, Elems: make([]*V, cnt)}
		for i := 0; i < cnt; i++ {
			e, err := d.structAt(seg, tw+1+i*(dw+pw), dw, pw, depth, false)
			if err != nil {
				return nil, fmt.Errorf("[%d]: %v", i, err)
			}
			v.Elems[i] = e
		}
		return v, nil
	}
}

func (d *Decoder) ext(seg, w, words int, what string) {
	if words > 0 {
		d.Extents = append(d.Extents, Extent{seg, w * 8, (w + words) * 8, what})
	}
}

func (d *Decoder) structAt(seg, tw, dw, pw, depth int, record bool) (*V, error) {
	b, err := d.region(seg, tw, dw+pw)
	if err != nil {
		return nil, err
	}
	if record {
		d.ext(seg, tw, dw+pw, "struct")
		if dw+pw == 0 {
			d.Stats.ZeroStructs++
		}
	}
	v := &V{Kind: KStruct, Data: append([]byte(nil), b[:dw*8]...), Ptrs: make([]*V, pw)}
	for i := 0; i < pw; i++ {
		c, err := d.ptr(seg, tw+dw+i, depth+1)
		if err != nil {
			return nil, fmt.Errorf(".p%d: %v", i, err)
		}
		v.Ptrs[i] = c
	}
	return v, nil
}

// Overlaps reports the first pair of distinct extents that overlap without
// being the very same object (aliasing of an identical object is legal).
func (d *Decoder) Overlaps() string {
	ex := append([]Extent(nil), d.Extents...)
	sort.Slice(ex, func(i, j int) bool {
		if ex[i].Seg != ex[j].Seg {
			return ex[i].Seg < ex[j].Seg
		}
		if ex[i].Start != ex[j].Start {
			return ex[i].Start < ex[j].Start
		}
		return ex[i].End < ex[j].End
	})
	var cur *Extent
	for i := range ex {
		e := &ex[i]
		if cur == nil || cur.Seg != e.Seg {
			cur = e
			continue
		}
		if cur.Start == e.Start && cur.End == e.End && cur.What == e.What {
			continue // the very same object reached twice
		}
		if e.Start < cur.End {
			return fmt.Sprintf("seg %d: %s[%d,%d) overlaps %s[%d,%d)", cur.Seg, cur.What, cur.Start, cur.End, e.What, e.Start, e.End)
		}
		if e.End > cur.End {
			cur = e
		}
	}
	return ""
}

// Uncovered returns the byte ranges not inside any extent that hold a
// non-zero byte ("" if none).
func (d *Decoder) Uncovered() string {
	for s, seg := range d.Segs {
		cov := make([]bool, len(seg)/8+1)
		for _, e := range d.Extents {
			if e.Seg != s {
				continue
			}
			for w := e.Start / 8; w < e.End/8; w++ {
				cov[w] = true
			}
		}
		for w := 0; w < len(seg)/8; w++ {
			if !cov[w] && le64(seg[w*8:]) != 0 {
				return fmt.Sprintf("seg %d word %d = %#x is outside every object", s, w, le64(seg[w*8:]))
			}
		}
	}
	return ""
}

// Decode is shorthand for a lenient decode.
func Decode(segs [][]byte) (*V, error) { return NewDecoder(segs, false).Root() }

// ParseStream splits an unpacked stream-framed message into segments
// (spec: "Serialization Over a Stream").  It returns the segments and the
// number of bytes consumed.
func ParseStream(b []byte) ([][]byte, int, error) {
	if len(b) < 8 {
		return nil, 0, fmt.Errorf("short header")
	}
	nseg := int(uint32(le64(b))) + 1
	if nseg > 1<<20 {
		return nil, 0, fmt.Errorf("too many segments")
	}
	hdr := (4*(nseg+1) + 7) &^ 7
	if len(b) < hdr {
		return nil, 0, fmt.Errorf("short header")
	}
	off := hdr
	segs := make([][]byte, nseg)
	for i := 0; i < nseg; i++ {
		sz := int(uint32(le64(append(append([]byte(nil), b[4+4*i:8+4*i]...), 0, 0, 0, 0)))) * 8
		if off+sz > len(b) {
			return nil, 0, fmt.Errorf("short segment %d", i)
		}
		segs[i] = b[off : off+sz]
		off += sz
	}
	return segs, off, nil
}

// Frame serialises segments with the stream framing header.
func Frame(segs [][]byte) []byte {
	n := len(segs)
	hdr := make([]byte, (4*(n+1)+7)&^7)
	put32(hdr, uint32(n-1))
	for i, s := range segs {
		put32(hdr[4+4*i:], uint32(len(s)/8))
	}
	out := hdr
	for _, s := range segs {
		out = append(out, s...)
	}
	return out
}

func put32(b []byte, v uint32) {
	b[0] = byte(v)
	b[1] = byte(v >> 8)
	b[2] = byte(v >> 16)
	b[3] = byte(v >> 24)
}
