// Package ref is an independent reference model of the Cap'n Proto encoding
// (https://capnproto.org/encoding.html), written from the specification and
// sharing no code with the library under test.  It provides a value model, a
// decoder (strict and lenient), an encoder driven by a layout plan (so that
// rarely-produced but legal forms reach the library), structural equality as
// documented for capnp.Equal, and the spec's canonical form.
package ref

import (
	"bytes"
	"encoding/binary"
	"fmt"
	"strings"
)

// List element-size codes of the spec.
const (
	ETVoid      = 0
	ETBit       = 1
	ETByte1     = 2
	ETByte2     = 3
	ETByte4     = 4
	ETByte8     = 5
	ETPtr       = 6
	ETComposite = 7
)

// ElemBytes is the size in bytes of a data element of list type et (0 for
// void, bit, pointer and composite).
func ElemBytes(et int) int {
	switch et {
	case ETByte1:
		return 1
	case ETByte2:
		return 2
	case ETByte4:
		return 4
	case ETByte8:
		return 8
	}
	return 0
}

type Kind uint8

const (
	KNull Kind = iota
	KStruct
	KList
	KCap
)

// V is a node of a value tree.
type V struct {
	Kind Kind

	// Struct: Data is the data section (len%8==0), Ptrs the pointer section.
	// List of ETByte*: Data holds N*size bytes.  ETBit: Data holds ceil(N/8)
	// bytes.  ETPtr: Ptrs holds N pointers.  ETComposite: Elems holds N
	// structs, each with len(Data)==ElemDW*8 and len(Ptrs)==ElemPW.
	Data  []byte
	Ptrs  []*V
	ET    int
	N     int
	ElemDW int
	ElemPW int
	Elems []*V

	Cap uint32
}

var Null = &V{Kind: KNull}

func NewStruct(dataWords, ptrs int) *V {
	v := &V{Kind: KStruct, Data: make([]byte, dataWords*8), Ptrs: make([]*V, ptrs)}
	for i := range v.Ptrs {
		v.Ptrs[i] = Null
	}
	return v
}

func NewDataList(et int, n int, data []byte) *V {
	return &V{Kind: KList, ET: et, N: n, Data: data}
}

func NewText(s string) *V {
	b := append([]byte(s), 0)
	return &V{Kind: KList, ET: ETByte1, N: len(b), Data: b}
}

func NewBytes(b []byte) *V {
	return &V{Kind: KList, ET: ETByte1, N: len(b), Data: append([]byte(nil), b...)}
}

func NewPtrList(elems []*V) *V {
	return &V{Kind: KList, ET: ETPtr, N: len(elems), Ptrs: elems}
}

func NewComposite(dw, pw int, elems []*V) *V {
	return &V{Kind: KList, ET: ETComposite, N: len(elems), ElemDW: dw, ElemPW: pw, Elems: elems}
}

func NewCap(idx uint32) *V { return &V{Kind: KCap, Cap: idx} }

// Bit returns bit i of a bit list.
func (v *V) Bit(i int) bool { return v.Data[i/8]&(1<<uint(i%8)) != 0 }

// Clone makes a deep copy.
func (v *V) Clone() *V {
	if v == nil {
		return nil
	}
	if v.Kind == KNull {
		return Null
	}
	c := *v
	c.Data = append([]byte(nil), v.Data...)
	if v.Ptrs != nil {
		c.Ptrs = make([]*V, len(v.Ptrs))
		for i, p := range v.Ptrs {
			c.Ptrs[i] = p.Clone()
		}
	}
	if v.Elems != nil {
		c.Elems = make([]*V, len(v.Elems))
		for i, p := range v.Elems {
			c.Elems[i] = p.Clone()
		}
	}
	return &c
}

// Identical reports exact structural identity (same physical shape: section
// sizes, element types, bytes).  This is what a decode of an encoding must
// reproduce.
func Identical(a, b *V) bool {
	if a == nil || b == nil {
		return a == b
	}
	if a.Kind != b.Kind {
		return false
	}
	switch a.Kind {
	case KNull:
		return true
	case KCap:
		return a.Cap == b.Cap
	case KStruct:
		if !bytes.Equal(a.Data, b.Data) || len(a.Ptrs) != len(b.Ptrs) {
			return false
		}
		for i := range a.Ptrs {
			if !Identical(a.Ptrs[i], b.Ptrs[i]) {
				return false
			}
		}
		return true
	case KList:
		if a.ET != b.ET || a.N != b.N {
			return false
		}
		switch a.ET {
		case ETVoid:
			return true
		case ETPtr:
			for i := range a.Ptrs {
				if !Identical(a.Ptrs[i], b.Ptrs[i]) {
					return false
				}
			}
			return true
		case ETComposite:
			if a.ElemDW != b.ElemDW || a.ElemPW != b.ElemPW {
				return false
			}
			for i := range a.Elems {
				if !Identical(a.Elems[i], b.Elems[i]) {
					return false
				}
			}
			return true
		default:
			return bytes.Equal(a.Data, b.Data)
		}
	}
	return false
}

// Diff returns a path to the first difference between a and b ("" if none).
func Diff(a, b *V) string { return diff(a, b, "root") }

func diff(a, b *V, path string) string {
	if a == nil || b == nil {
		if a != b {
			return path + ": nil mismatch"
		}
		return ""
	}
	if a.Kind != b.Kind {
		return fmt.Sprintf("%s: kind %d vs %d", path, a.Kind, b.Kind)
	}
	switch a.Kind {
	case KCap:
		if a.Cap != b.Cap {
			return fmt.Sprintf("%s: cap %d vs %d", path, a.Cap, b.Cap)
		}
	case KStruct:
		if !bytes.Equal(a.Data, b.Data) {
			return fmt.Sprintf("%s: data %x vs %x", path, a.Data, b.Data)
		}
		if len(a.Ptrs) != len(b.Ptrs) {
			return fmt.Sprintf("%s: ptrs %d vs %d", path, len(a.Ptrs), len(b.Ptrs))
		}
		for i := range a.Ptrs {
			if d := diff(a.Ptrs[i], b.Ptrs[i], fmt.Sprintf("%s.p%d", path, i)); d != "" {
				return d
			}
		}
	case KList:
		if a.ET != b.ET || a.N != b.N {
			return fmt.Sprintf("%s: list et/n %d/%d vs %d/%d", path, a.ET, a.N, b.ET, b.N)
		}
		switch a.ET {
		case ETVoid:
		case ETPtr:
			for i := range a.Ptrs {
				if d := diff(a.Ptrs[i], b.Ptrs[i], fmt.Sprintf("%s[%d]", path, i)); d != "" {
					return d
				}
			}
		case ETComposite:
			if a.ElemDW != b.ElemDW || a.ElemPW != b.ElemPW {
				return fmt.Sprintf("%s: elem size %d/%d vs %d/%d", path, a.ElemDW, a.ElemPW, b.ElemDW, b.ElemPW)
			}
			for i := range a.Elems {
				if d := diff(a.Elems[i], b.Elems[i], fmt.Sprintf("%s[%d]", path, i)); d != "" {
					return d
				}
			}
		default:
			if !bytes.Equal(a.Data, b.Data) {
				return fmt.Sprintf("%s: list data differs", path)
			}
		}
	}
	return ""
}

// String renders a compact description (for samples and replay files).
func (v *V) String() string {
	var sb strings.Builder
	v.str(&sb, 0)
	return sb.String()
}

func (v *V) str(sb *strings.Builder, depth int) {
	if sb.Len() > 600 {
		sb.WriteString("…")
		return
	}
	switch v.Kind {
	case KNull:
		sb.WriteString("null")
	case KCap:
		fmt.Fprintf(sb, "cap%d", v.Cap)
	case KStruct:
		fmt.Fprintf(sb, "S{d%d", len(v.Data)/8)
		for _, p := range v.Ptrs {
			sb.WriteString(" ")
			p.str(sb, depth+1)
		}
		sb.WriteString("}")
	case KList:
		switch v.ET {
		case ETPtr:
			sb.WriteString("P[")
			for i, p := range v.Ptrs {
				if i > 0 {
					sb.WriteString(" ")
				}
				p.str(sb, depth+1)
			}
			sb.WriteString("]")
		case ETComposite:
			fmt.Fprintf(sb, "C%d/%d[", v.ElemDW, v.ElemPW)
			for i, p := range v.Elems {
				if i > 0 {
					sb.WriteString(" ")
				}
				p.str(sb, depth+1)
			}
			sb.WriteString("]")
		default:
			fmt.Fprintf(sb, "L%d×%d", v.ET, v.N)
		}
	}
}

// Count returns the number of nodes in the tree.
func (v *V) Count() int {
	n := 1
	for _, p := range v.Ptrs {
		n += p.Count()
	}
	for _, p := range v.Elems {
		n += p.Count()
	}
	return n
}

// Depth returns the pointer-nesting depth of the tree (a null is 0, a leaf
// object 1).  Composite-list elements do not add a pointer level themselves.
func (v *V) Depth() int {
	if v.Kind == KNull || v.Kind == KCap {
		return 0
	}
	d := 0
	for _, p := range v.Ptrs {
		if x := p.Depth(); x > d {
			d = x
		}
	}
	for _, e := range v.Elems {
		for _, p := range e.Ptrs {
			if x := p.Depth(); x > d {
				d = x
			}
		}
	}
	return d + 1
}

// HasCap reports whether the tree contains a capability pointer.
func (v *V) HasCap() bool {
	if v.Kind == KCap {
		return true
	}
	for _, p := range v.Ptrs {
		if p.HasCap() {
			return true
		}
	}
	for _, p := range v.Elems {
		if p.HasCap() {
			return true
		}
	}
	return false
}

// Footprint is the number of bytes the object itself occupies as far as the
// traversal limit is concerned (struct: data+pointer bytes; list: element
// bytes × n with zero-sized elements counted as one word each; bit list:
// ceil(n/8)).
func (v *V) Footprint() uint64 {
	switch v.Kind {
	case KStruct:
		return uint64(len(v.Data) + 8*len(v.Ptrs))
	case KList:
		switch v.ET {
		case ETVoid:
			return uint64(v.N) * 8
		case ETBit:
			return uint64((v.N + 7) / 8)
		case ETPtr:
			return uint64(v.N) * 8
		case ETComposite:
			e := uint64(v.ElemDW+v.ElemPW) * 8
			if e == 0 {
				e = 8
			}
			return e * uint64(v.N)
		default:
			return uint64(v.N * ElemBytes(v.ET))
		}
	}
	return 0
}

func le64(b []byte) uint64 { return binary.LittleEndian.Uint64(b) }

func isZero(b []byte) bool {
	for _, x := range b {
		if x != 0 {
			return false
		}
	}
	return true
}
