package ref

import (
	"encoding/binary"

	"capnproto.org/go/capnp/v3/zverif/common"
)

// Plan chooses, per object and per pointer edge, one of the legal encodings.
// All decisions are drawn from RNG, so an encoding is a pure function of
// (value, plan parameters, rng seed).
type Plan struct {
	RNG *common.RNG

	NSegs        int // number of segments objects may be placed in (>=1)
	EmptySegs    int // extra empty segments appended at the end
	PostOrderPct int // % of nodes whose children are allocated before the node itself (negative offsets)
	FarSamePct   int // % of same-segment edges that nevertheless use a far pointer
	DoubleFarPct int // % of far edges that use a double-far landing pad
	SpreadPct    int // % of objects placed in a random segment instead of the parent's
	ZeroOffRand  bool // zero-sized struct pointers get a random in-bounds offset instead of -1
	GapPct       int // % of allocations preceded by a zero gap word
	PadGarbage   bool // list tail padding (bytes up to the word boundary, unused bits of a bit list) holds garbage

	segs [][]byte

	// statistics of what was produced
	NearEdges, FarEdges, DoubleFarEdges, NegOffsets, PaddedLists int
}

// RandomPlan draws plan parameters.
func RandomPlan(r *common.RNG) *Plan {
	p := &Plan{RNG: r.Fork()}
	switch r.Intn(5) {
	case 0: // everything in one segment, plain
		p.NSegs = 1
	case 1: // one segment, odd orders
		p.NSegs = 1
		p.PostOrderPct = r.PickInt(0, 30, 100)
		p.FarSamePct = r.PickInt(0, 10, 40)
		p.DoubleFarPct = r.PickInt(0, 30, 100)
	case 2:
		p.NSegs = r.Range(2, 8)
		p.SpreadPct = r.PickInt(10, 50, 100)
		p.DoubleFarPct = r.PickInt(0, 20, 50, 100)
		p.PostOrderPct = r.PickInt(0, 50)
	case 3:
		p.NSegs = r.Range(2, 4)
		p.SpreadPct = 100
		p.DoubleFarPct = 100
		p.EmptySegs = r.Intn(3)
	default:
		p.NSegs = r.Range(1, 6)
		p.SpreadPct = r.Intn(101)
		p.PostOrderPct = r.Intn(101)
		p.FarSamePct = r.Intn(30)
		p.DoubleFarPct = r.Intn(101)
		p.EmptySegs = r.PickInt(0, 0, 1, 2)
		p.GapPct = r.PickInt(0, 0, 20)
	}
	p.ZeroOffRand = r.Chance(1, 3)
	p.PadGarbage = r.Chance(1, 3)
	return p
}

type loc struct {
	seg, w int    // where the content starts (tag word for composite lists)
	desc   uint64 // pointer word with offset 0 (struct or list descriptor)
	isCap  bool
	null   bool
}

func (p *Plan) alloc(seg, words int) int {
	if p.GapPct > 0 && p.RNG.Chance(p.GapPct, 100) {
		p.segs[seg] = append(p.segs[seg], make([]byte, 8)...)
	}
	w := len(p.segs[seg]) / 8
	p.segs[seg] = append(p.segs[seg], make([]byte, words*8)...)
	return w
}

func (p *Plan) put(seg, w int, v uint64) {
	binary.LittleEndian.PutUint64(p.segs[seg][w*8:], v)
}

func structDesc(dw, pw int) uint64 { return uint64(dw)<<32 | uint64(pw)<<48 }
func listDesc(et, n int) uint64    { return 1 | uint64(et)<<32 | uint64(n)<<35 }
func withOff(desc uint64, off int) uint64 {
	return desc&^0xfffffffc | uint64(uint32(int32(off))<<2)
}

// Encode lays v out as the root of a new message and returns its segments.
func (p *Plan) Encode(v *V) [][]byte {
	if p.NSegs < 1 {
		p.NSegs = 1
	}
	p.segs = make([][]byte, p.NSegs)
	p.segs[0] = make([]byte, 8) // root pointer
	l := p.place(v, 0)
	p.writePtr(0, 0, l)
	for i := 0; i < p.EmptySegs; i++ {
		p.segs = append(p.segs, []byte{})
	}
	// hand out exact-length slices
	out := make([][]byte, len(p.segs))
	for i, s := range p.segs {
		out[i] = append(make([]byte, 0, len(s)), s...)
	}
	return out
}

func (p *Plan) pickSeg(parent int) int {
	if p.NSegs > 1 && p.RNG.Chance(p.SpreadPct, 100) {
		return p.RNG.Intn(p.NSegs)
	}
	return parent
}

// place allocates v (and its subtree) and returns where it went.
func (p *Plan) place(v *V, parentSeg int) loc {
	switch v.Kind {
	case KNull:
		return loc{null: true}
	case KCap:
		return loc{isCap: true, desc: 3 | uint64(v.Cap)<<32}
	}
	seg := p.pickSeg(parentSeg)
	post := p.RNG.Chance(p.PostOrderPct, 100)
	switch v.Kind {
	case KStruct:
		dw, pw := len(v.Data)/8, len(v.Ptrs)
		var kids []loc
		if post {
			for _, c := range v.Ptrs {
				kids = append(kids, p.place(c, seg))
			}
		}
		w := p.alloc(seg, dw+pw)
		copy(p.segs[seg][w*8:], v.Data)
		for i, c := range v.Ptrs {
			var k loc
			if post {
				k = kids[i]
			} else {
				k = p.place(c, seg)
			}
			p.writePtr(seg, w+dw+i, k)
		}
		return loc{seg: seg, w: w, desc: structDesc(dw, pw)}
	case KList:
		switch v.ET {
		case ETVoid:
			// no storage; point at the current end of the segment
			return loc{seg: seg, w: len(p.segs[seg]) / 8, desc: listDesc(ETVoid, v.N)}
		case ETBit, ETByte1, ETByte2, ETByte4, ETByte8:
			words := (len(v.Data) + 7) / 8
			w := p.alloc(seg, words)
			copy(p.segs[seg][w*8:], v.Data)
			if p.PadGarbage {
				// Padding is not part of the value: the bytes between the end
				// of the list content and the next word boundary, and the
				// unused high bits of a bit list's last byte, may hold anything.
				for i := w*8 + len(v.Data); i < (w+words)*8; i++ {
					p.segs[seg][i] = byte(p.RNG.Uint64()) | 1
				}
				if v.ET == ETBit && v.N%8 != 0 {
					p.segs[seg][w*8+len(v.Data)-1] |= byte(p.RNG.Uint64()) &^ (byte(1)<<uint(v.N%8) - 1)
				}
				p.PaddedLists++
			}
			return loc{seg: seg, w: w, desc: listDesc(v.ET, v.N)}
		case ETPtr:
			var kids []loc
			if post {
				for _, c := range v.Ptrs {
					kids = append(kids, p.place(c, seg))
				}
			}
			w := p.alloc(seg, v.N)
			for i, c := range v.Ptrs {
				var k loc
				if post {
					k = kids[i]
				} else {
					k = p.place(c, seg)
				}
				p.writePtr(seg, w+i, k)
			}
			return loc{seg: seg, w: w, desc: listDesc(ETPtr, v.N)}
		default: // composite
			es := v.ElemDW + v.ElemPW
			var kids [][]loc
			if post {
				for _, e := range v.Elems {
					var ks []loc
					for _, c := range e.Ptrs {
						ks = append(ks, p.place(c, seg))
					}
					kids = append(kids, ks)
				}
			}
			w := p.alloc(seg, 1+v.N*es)
			p.put(seg, w, withOff(structDesc(v.ElemDW, v.ElemPW), v.N))
			for i, e := range v.Elems {
				ew := w + 1 + i*es
				copy(p.segs[seg][ew*8:], e.Data)
				for j, c := range e.Ptrs {
					var k loc
					if post {
						k = kids[i][j]
					} else {
						k = p.place(c, seg)
					}
					p.writePtr(seg, ew+v.ElemDW+j, k)
				}
			}
			return loc{seg: seg, w: w, desc: listDesc(ETComposite, v.N*es)}
		}
	}
	panic("unreachable")
}

// writePtr stores at (seg, w) a pointer to the object at l.
func (p *Plan) writePtr(seg, w int, l loc) {
	if l.null {
		p.put(seg, w, 0)
		return
	}
	if l.isCap {
		p.put(seg, w, l.desc)
		return
	}
	zeroStruct := l.desc&3 == 0 && l.desc>>32 == 0
	if zeroStruct {
		// The recommended encoding is offset -1 (points at the pointer
		// itself); any in-bounds offset is legal as long as the word is not
		// all zero (that would be a null pointer).
		off := -1
		if p.ZeroOffRand && l.seg == seg && l.w-(w+1) != 0 {
			off = l.w - (w + 1)
		}
		p.put(seg, w, withOff(l.desc, off))
		p.NearEdges++
		return
	}
	if l.seg == seg && !p.RNG.Chance(p.FarSamePct, 100) {
		off := l.w - (w + 1)
		if off < 0 {
			p.NegOffsets++
		}
		p.put(seg, w, withOff(l.desc, off))
		p.NearEdges++
		return
	}
	if !p.RNG.Chance(p.DoubleFarPct, 100) {
		// single far: landing pad in the target's segment
		pad := p.alloc(l.seg, 1)
		p.put(l.seg, pad, withOff(l.desc, l.w-(pad+1)))
		p.put(seg, w, 2|uint64(pad)<<3|uint64(l.seg)<<32)
		p.FarEdges++
		return
	}
	// double far: two-word pad in any segment
	ps := p.RNG.Intn(p.NSegs)
	pad := p.alloc(ps, 2)
	p.put(ps, pad, 2|uint64(l.w)<<3|uint64(l.seg)<<32)
	p.put(ps, pad+1, l.desc)
	p.put(seg, w, 6|uint64(pad)<<3|uint64(ps)<<32)
	p.DoubleFarEdges++
}

// PlainEncode encodes v into one segment in pre-order with near pointers.
func PlainEncode(v *V) [][]byte {
	p := &Plan{RNG: common.NewRNG(0), NSegs: 1}
	return p.Encode(v)
}
