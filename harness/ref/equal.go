package ref

import "bytes"

// Tri is a three-valued answer: the documented rules of capnp.Equal do not
// decide every pair (see Unspecified below), and the oracle must not demand
// more than the documentation states.
type Tri int

const (
	No Tri = iota
	Yes
	Unspecified
)

// Equal implements the rules in the doc comment of capnp.Equal:
//
//   - Two structs are equal iff all of their fields are equal.  If one struct
//     has more fields than the other, the extra fields must all be zero.
//   - Two lists are equal iff they have the same length and their
//     corresponding elements are equal.  If one list is a list of primitives
//     and the other is a list of structs, then the list of primitives is
//     treated as if it was a list of structs with the element value as the
//     sole field.
//   - Two interfaces are equal iff … they are referring to the same capability
//     table index in the same message (the only case the model covers; the
//     caller decides whether both values live in one message).
//   - Two null pointers are equal.  All other combinations are not equal.
//
// Unspecified is returned where the text leaves the answer open: two empty
// lists of different primitive element types, and a bit list against a
// struct list (the encoding forbids upgrading bit lists, so "treated as a
// list of structs" has no defined meaning).
func Equal(a, b *V, sameMessage bool) Tri {
	if a.Kind == KNull && b.Kind == KNull {
		return Yes
	}
	if a.Kind != b.Kind {
		return No
	}
	switch a.Kind {
	case KCap:
		if !sameMessage {
			return Unspecified
		}
		if a.Cap == b.Cap {
			return Yes
		}
		// Different indices in one message whose capability table is not
		// populated (the model never populates it): neither documented
		// condition for equality holds.
		return No
	case KStruct:
		return structEqual(a.Data, a.Ptrs, b.Data, b.Ptrs, sameMessage)
	}
	// lists
	if a.N != b.N {
		return No
	}
	if a.ET == ETComposite && b.ET == ETComposite {
		res := Yes
		for i := 0; i < a.N; i++ {
			switch structEqual(a.Elems[i].Data, a.Elems[i].Ptrs, b.Elems[i].Data, b.Elems[i].Ptrs, sameMessage) {
			case No:
				return No
			case Unspecified:
				res = Unspecified
			}
		}
		return res
	}
	if a.ET != ETComposite && b.ET != ETComposite {
		if a.ET != b.ET {
			if a.N == 0 {
				return Unspecified
			}
			return No
		}
		switch a.ET {
		case ETVoid:
			return Yes
		case ETBit:
			for i := 0; i < a.N; i++ {
				if a.Bit(i) != b.Bit(i) {
					return No
				}
			}
			return Yes
		case ETPtr:
			res := Yes
			for i := 0; i < a.N; i++ {
				switch Equal(a.Ptrs[i], b.Ptrs[i], sameMessage) {
				case No:
					return No
				case Unspecified:
					res = Unspecified
				}
			}
			return res
		default:
			if bytes.Equal(a.Data, b.Data) {
				return Yes
			}
			return No
		}
	}
	// one primitive, one composite
	prim, comp := a, b
	if a.ET == ETComposite {
		prim, comp = b, a
	}
	if prim.ET == ETBit {
		return Unspecified
	}
	res := Yes
	for i := 0; i < prim.N; i++ {
		var d []byte
		var p []*V
		switch prim.ET {
		case ETVoid:
		case ETPtr:
			p = []*V{prim.Ptrs[i]}
		default:
			sz := ElemBytes(prim.ET)
			d = prim.Data[i*sz : (i+1)*sz]
		}
		e := comp.Elems[i]
		switch structEqual(d, p, e.Data, e.Ptrs, sameMessage) {
		case No:
			return No
		case Unspecified:
			res = Unspecified
		}
	}
	return res
}

func structEqual(d1 []byte, p1 []*V, d2 []byte, p2 []*V, same bool) Tri {
	n := len(d1)
	if len(d2) < n {
		n = len(d2)
	}
	if !bytes.Equal(d1[:n], d2[:n]) || !isZero(d1[n:]) || !isZero(d2[n:]) {
		return No
	}
	m := len(p1)
	if len(p2) < m {
		m = len(p2)
	}
	for _, x := range p1[m:] {
		if x.Kind != KNull {
			return No
		}
	}
	for _, x := range p2[m:] {
		if x.Kind != KNull {
			return No
		}
	}
	res := Yes
	for i := 0; i < m; i++ {
		switch Equal(p1[i], p2[i], same) {
		case No:
			return No
		case Unspecified:
			res = Unspecified
		}
	}
	return res
}

// ---------------------------------------------------------------------------
// Canonical form (spec: "Canonicalization").

// Canonical returns the canonical single-segment encoding (without segment
// table) of struct v: pre-order, near pointers only, trailing zero words of
// every struct truncated (for struct lists: words that are zero in all
// elements), zero-sized structs encoded with offset -1.  ok is false if the
// tree contains a capability.
func Canonical(v *V) (seg []byte, ok bool) {
	if v.HasCap() {
		return nil, false
	}
	c := Canon(v)
	segs := PlainEncode(c)
	return segs[0], true
}

// Canon returns the canonical *value* (truncated sections) of v.
func Canon(v *V) *V {
	switch v.Kind {
	case KNull:
		return Null
	case KCap:
		return NewCap(v.Cap)
	case KStruct:
		dw, pw := trimmedSize(v)
		n := NewStruct(dw, pw)
		copy(n.Data, v.Data)
		for i := 0; i < pw; i++ {
			n.Ptrs[i] = Canon(v.Ptrs[i])
		}
		return n
	}
	switch v.ET {
	case ETPtr:
		el := make([]*V, v.N)
		for i := range el {
			el[i] = Canon(v.Ptrs[i])
		}
		return NewPtrList(el)
	case ETComposite:
		dw, pw := 0, 0
		for _, e := range v.Elems {
			d, p := trimmedSize(e)
			if d > dw {
				dw = d
			}
			if p > pw {
				pw = p
			}
		}
		el := make([]*V, v.N)
		for i, e := range v.Elems {
			n := NewStruct(dw, pw)
			copy(n.Data, e.Data)
			for j := 0; j < pw && j < len(e.Ptrs); j++ {
				n.Ptrs[j] = Canon(e.Ptrs[j])
			}
			el[i] = n
		}
		return NewComposite(dw, pw, el)
	}
	return v.Clone()
}
